import BlockCiphers.Registry
import BlockCiphers.History
/-
Model driver: one operation line in, one result line out (same protocol as /verif/harness).
`nomodel` = no Lean model for this cipher/operation (the check then relies on the direct oracle only
and says so in the evidence).
-/
open BC

def chunks (n : Nat) (bs : Bytes) : List Bytes :=
  if h : n = 0 ∨ bs.length = 0 then [] else
    bs.take n :: chunks n (bs.drop n)
termination_by bs.length
decreasing_by simp only [List.length_drop]; omega

def probeBytes (bl : Nat) : Bytes :=
  (List.range (4 * bl)).map (fun i => BitVec.ofNat 8 (i * 37 + 11))

def mapBlocks (bl : Nat) (f : Option (Bytes → Bytes)) (data : Bytes) : Option Bytes :=
  match f with
  | none => none
  | some f => some ((chunks bl data).foldr (fun b acc => f b ++ acc) [])

def probeStr (bl : Nat) (k : Keyed) : String :=
  let p := probeBytes bl
  let e := match mapBlocks bl k.enc p with | some r => toHex r | none => "x"
  let d := match mapBlocks bl k.dec p with | some r => toHex r | none => "x"
  e ++ ":" ++ d

def execGeneric (t : List String) : String :=
  match t with
  | [op, c, k] =>
    match findCipher c, parseHex k with
    | some m, some key =>
      match op with
      | "new" => match m.new key with | some _ => "ok" | none => "err-len"
      | "probe" => match m.new key with | some kd => probeStr m.blockLen kd | none => "err-len"
      | "probeclone" =>
        match m.new key with
        | some kd => if m.clonable then probeStr m.blockLen kd else "noclone"
        | none => "err-len"
      | "probefixed" =>
        if key.length ≠ m.keySize then "err-len" else
        match m.new key with | some kd => probeStr m.blockLen kd | none => "panic:unwrap"
      | "debug" => match m.new key with | some _ => "s:" ++ m.debug | none => "err-len"
      | "weak" =>
        if key.length ≠ m.keySize then "err-len" else
        match m.weak key with | .ok => "ok" | .weak => "err-weak"
      | "newchecked" =>
        if key.length ≠ m.keySize then "err-len" else
        match m.weak key with
        | .weak => "err-weak"
        | .ok => match m.new key with | some kd => "ok:" ++ probeStr m.blockLen kd | none => "panic:unwrap"
      | _ => "bad-op"
    | none, _ => "nomodel"
    | _, none => "bad-op"
  | ["algname", c] => match findCipher c with | some m => "s:" ++ m.algName | none => "nomodel"
  | [op, c, k, b] =>
    match findCipher c, parseHex k, parseHex b with
    | some m, some key, some blk =>
      if blk.length ≠ m.blockLen then "bad-op" else
      match m.new key with
      | none => "err-len"
      | some kd =>
        match op with
        | "enc" => match kd.enc with | some f => toHex (f blk) | none => "unsupported"
        | "dec" => match kd.dec with | some f => toHex (f blk) | none => "unsupported"
        | "rt" =>
          match kd.enc, kd.dec with
          | some e, some d =>
            let x := e blk; let u := d blk
            toHex x ++ " " ++ toHex (d x) ++ " " ++ toHex u ++ " " ++ toHex (e u)
          | _, _ => "unsupported"
        | _ => "bad-op"
    | none, _, _ => "nomodel"
    | _, _, _ => "bad-op"
  | [op, c, _shape, _off, k, d] =>
    if op != "encs" && op != "decs" then "nomodel" else
    match findCipher c, parseHex k, parseHex d with
    | some m, some key, some data =>
      if data.length % m.blockLen ≠ 0 then "bad-op" else
      match m.new key with
      | none => "err-len"
      | some kd =>
        let f := if op == "encs" then kd.enc else if op == "decs" then kd.dec else none
        if op != "encs" && op != "decs" then "bad-op" else
        match mapBlocks m.blockLen f data with
        | some r => toHex r ++ " in=ok canary=ok"
        | none => "unsupported"
    | none, _, _ => "nomodel"
    | _, _, _ => "bad-op"
  | _ => "nomodel"

/-- `hist` script → operations of the abstract API state machine (`BlockCiphers/History.lean`) -/
def parseHist (script : String) : Option (List History.Op) :=
  (script.splitOn ";").foldr (fun cmd acc =>
    match acc with
    | none => none
    | some ops =>
      match cmd.splitOn ":" with
      | ["n", id, c, k] =>
        match findCipher c, parseHex k with
        | some m, some key => some (.construct id m key :: ops)
        | _, _ => none
      | ["r", id, fam, route, k] =>
        -- an instance reached through a conversion / clone route is, by the C12 theorems, the freshly keyed cipher of
        -- the route's target type: `c.*` the combined type, `e.*` the encrypt-only, `d.*` the decrypt-only one
        let target := if route.startsWith "c." then fam else if route.startsWith "e." then fam ++ "Enc" else fam ++ "Dec"
        match findCipher target, parseHex k with
        | some m, some key => some (.construct id m key :: ops)
        | _, _ => none
      | ["c", dst, src] => some (.clone dst src :: ops)
      | ["x", id] => some (.drop id :: ops)
      | [k, id, d] =>
        match parseHex d with
        | some data =>
          if k == "e" || k == "E" then some (.enc id data :: ops)
          else if k == "d" || k == "D" then some (.dec id data :: ops)
          else none
        | none => none
      | _ => none) (some [])

def execHist (script : String) : String :=
  match parseHist script with
  | none => "nomodel"
  | some ops =>
    let outs := (History.run [] ops).2
    -- the harness stops at the first failing construct/clone and prints that error alone
    match outs.find? (fun o => match o with | .err _ => true | _ => false) with
    | some (.err e) => e
    | _ =>
      ",".intercalate (outs.filterMap (fun o => match o with | .data d => some (toHex d) | _ => none))

def exec (t : List String) : String :=
  match t with
  | [] => "bad-op"
  | ["hist", script] => execHist script
  | ["thr", c, _nt, k, d] =>
    match findCipher c, parseHex k, parseHex d with
    | some m, some key, some data =>
      match History.fresh m key false data, History.fresh m key true data with
      | .data r, _ => toHex r ++ ":" ++ toHex r
      | _, .data r => toHex r ++ ":" ++ toHex r
      | .err e, _ => e
      | _, _ => "bad-op"
    | none, _, _ => "nomodel"
    | _, _, _ => "bad-op"
  | op :: rest =>
    match findSpecial op with
    | some f => f rest
    | none => execGeneric t

partial def loop (h : IO.FS.Stream) (out : IO.FS.Stream) : IO Unit := do
  let line ← h.getLine
  if line.isEmpty then return ()
  let l := line.trimAscii.toString
  if l.isEmpty || l.startsWith "#" then
    out.putStrLn l
  else
    out.putStrLn (exec (l.splitOn " "))
  loop h out

def main : IO Unit := do
  loop (← IO.getStdin) (← IO.getStdout)
