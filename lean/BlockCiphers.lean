import BlockCiphers.Prelude.Bytes
import BlockCiphers.Impl.Xtea
import BlockCiphers.Proofs.Xtea
