import BlockCiphers.Prelude.Bytes
import BlockCiphers.Registry
import BlockCiphers.Proofs.Xtea
import BlockCiphers.Thm.C01
