import BlockCiphers.Api
/-
Abstract API state machine (DESIGN §7 C15): a world of named cipher instances and the operations a
program can perform on them.  An instance is the immutable value `(model, key)`; every Rust method
that computes takes `&self` and no cipher struct has interior mutability (checked on the source by
`Thm/C15.lean` over `Gen.interiorMut`), so `enc/dec/encs/decs` cannot change the world.
-/
namespace BC.History

structure Inst where
  model : CipherModel
  key : Bytes

inductive Op
  | construct (id : String) (m : CipherModel) (key : Bytes)
  | clone (dst src : String)
  | drop (id : String)
  | enc (id : String) (data : Bytes)      -- one or more blocks
  | dec (id : String) (data : Bytes)

abbrev World := List (String × Inst)

def lookup (w : World) (id : String) : Option Inst := (w.find? (fun p => p.1 == id)).map (·.2)

def remove (w : World) (id : String) : World := w.filter (fun p => p.1 != id)

/-- split into blocks of `n` bytes (structural on a fuel equal to the length) -/
def blocksAux (n : Nat) : Nat → Bytes → List Bytes
  | 0, _ => []
  | fuel + 1, bs => if bs.isEmpty || n == 0 then [] else bs.take n :: blocksAux n fuel (bs.drop n)

def blocks (n : Nat) (bs : Bytes) : List Bytes := blocksAux n bs.length bs

inductive Out
  | none
  | err (e : String)
  | data (d : Bytes)
  deriving DecidableEq

/-- what a *freshly constructed* cipher with this key returns on this input -/
def fresh (m : CipherModel) (key : Bytes) (decrypt : Bool) (data : Bytes) : Out :=
  match m.new key with
  | Option.none => .err "err-len"
  | some kd =>
    match (if decrypt then kd.dec else kd.enc) with
    | Option.none => .err "unsupported"
    | some f => .data ((blocks m.blockLen data).foldr (fun b acc => f b ++ acc) [])

def step (w : World) : Op → World × Out
  | .construct id m key =>
    match m.new key with
    | Option.none => (w, .err "err-len")
    | some _ => ((id, ⟨m, key⟩) :: remove w id, .none)
  | .clone dst src =>
    match lookup w src with
    | some i => if i.model.clonable then ((dst, i) :: remove w dst, .none) else (w, .err "noclone")
    | Option.none => (w, .err "bad-op")
  | .drop id => (remove w id, .none)
  | .enc id data =>
    match lookup w id with
    | some i => (w, fresh i.model i.key false data)
    | Option.none => (w, .err "bad-op")
  | .dec id data =>
    match lookup w id with
    | some i => (w, fresh i.model i.key true data)
    | Option.none => (w, .err "bad-op")

/-- run a history, collecting the outputs -/
def run (w : World) : List Op → World × List Out
  | [] => (w, [])
  | op :: rest =>
    let (w', o) := step w op
    let (w'', os) := run w' rest
    (w'', o :: os)

end BC.History
