import BlockCiphers.Api
import BlockCiphers.Models.Xtea
import BlockCiphers.Models.Rc5
import BlockCiphers.Models.Speck
import BlockCiphers.Models.AesFixslice
import BlockCiphers.Models.Aes
import BlockCiphers.Models.Idea
import BlockCiphers.Models.Twofish
import BlockCiphers.Models.Belt
import BlockCiphers.Models.Magma
import BlockCiphers.Models.Sm4
import BlockCiphers.Models.Aria
import BlockCiphers.Models.Camellia
import BlockCiphers.Models.Cast5
import BlockCiphers.Models.Blowfish
import BlockCiphers.Models.Rc2
import BlockCiphers.Models.Threefish
import BlockCiphers.Models.Des
import BlockCiphers.Models.Cast6
import BlockCiphers.Models.Serpent
import BlockCiphers.Models.Gift
import BlockCiphers.Models.Kuznyechik
import BlockCiphers.Models.AesArmv8
import BlockCiphers.Models.KuznyechikNeon
/-
All cipher models known to the driver.  One `Models/<Cipher>.lean` per crate contributes `models`
(generic registry entries) and `specials` (operation lines that are specific to the crate).
-/
namespace BC

def allCiphers : List CipherModel :=
  Models.Xtea.models ++ Models.Rc5.models ++ Models.Speck.models ++
  Models.Serpent.models ++ Models.Cast6.models ++ Models.Des.models ++ Models.Threefish.models ++ Models.Rc2.models ++ Models.Blowfish.models ++ Models.Cast5.models ++
  Models.Camellia.models ++ Models.Aria.models ++ Models.Sm4.models ++ Models.Magma.models ++ Models.Belt.models ++ Models.Twofish.models ++ Models.Idea.models ++ Models.Aes.models ++ Models.Gift.models ++ Models.Kuznyechik.models ++ Models.AesArmv8.models ++ Models.KuznyechikNeon.models

def allSpecials : List Special :=
  -- the one `route` line is answered by a chain: NeonKuznyechik family → Armv8Aes* families → `Models.Aes.routeOp` (all others)
  [("route", Models.KuznyechikNeon.routeOpWith Models.AesArmv8.routeOp)] ++
  Models.KuznyechikNeon.specials ++ Models.AesArmv8.specials ++ Models.Xtea.specials ++ Models.Rc5.specials ++ Models.Speck.specials ++
  Models.Serpent.specials ++ Models.Cast6.specials ++ Models.Des.specials ++ Models.Threefish.specials ++ Models.Rc2.specials ++ Models.Blowfish.specials ++ Models.Cast5.specials ++
  Models.Camellia.specials ++ Models.Aria.specials ++ Models.Sm4.specials ++ Models.Magma.specials ++ Models.Belt.specials ++ Models.Twofish.specials ++ Models.Idea.specials ++ Models.Aes.specials ++ Models.AesFixslice.specials ++ Models.Gift.specials ++ Models.Kuznyechik.specials

def findCipher (n : String) : Option CipherModel := allCiphers.find? (fun c => c.name == n)
def findSpecial (n : String) : Option (List String → String) :=
  (allSpecials.find? (fun s => s.1 == n)).map (·.2)

end BC
