import BlockCiphers.Api
import BlockCiphers.Models.Xtea
import BlockCiphers.Models.Rc5
import BlockCiphers.Models.Speck
/-
All cipher models known to the driver.  One `Models/<Cipher>.lean` per crate contributes `models`
(generic registry entries) and `specials` (operation lines that are specific to the crate).
-/
namespace BC

def allCiphers : List CipherModel :=
  Models.Xtea.models ++ Models.Rc5.models ++ Models.Speck.models

def allSpecials : List Special :=
  Models.Xtea.specials ++ Models.Rc5.specials ++ Models.Speck.specials

def findCipher (n : String) : Option CipherModel := allCiphers.find? (fun c => c.name == n)
def findSpecial (n : String) : Option (List String → String) :=
  (allSpecials.find? (fun s => s.1 == n)).map (·.2)

end BC
