import BlockCiphers.Api
import BlockCiphers.Impl.Kuznyechik
import BlockCiphers.Models.Aes
import BlockCiphers.Models.Kuznyechik
/-
Registry entries `NeonKuznyechik`, `NeonKuznyechikEnc`, `NeonKuznyechikDec`: the three public types of the
`kuznyechik` crate instantiated over its **neon** backend, computed by the EXISTING model `BC.Kuznyechik.Neon.*` of
`Impl/Kuznyechik.lean` (nothing of the Impl is changed or re-defined here).

Harness side: `/verif/harness/build_neon.rs` re-generates, at every build, a shadow copy of the crate from the current
text of `/repo/kuznyechik/src/{lib.rs, neon/mod.rs, neon/backends.rs, …}` with `core::arch::aarch64` replaced by the
software intrinsics of `/verif/harness/src/arm_sw_neon.rs`, and registers its types under the same three names.  So
these lines compare the EXECUTED repository text of the NEON backend with the model that `Thm/C01, C03, C04, C07, C12`
reason about ("modelled only" → "modelled and executed over software intrinsics").

Generic operations (`new enc dec rt probe… encs decs debug algname weak newchecked hist thr`) go through `models`;
`Keyed.enc/dec` are the model's SINGLE-block functions — the driver maps them over the blocks, the harness goes through
`encrypt_par_blocks`/`decrypt_par_blocks` (8 lanes) + tail; `Neon.blocks_eq_map` (C04) is the theorem that the two
agree, and `kuz neon <enc|dec> …` (Models/Kuznyechik.lean) / `neonblocks` below run the model of the parallel path.

Special lines:
  route NeonKuznyechik <route> <keyhex>    the 14 conversion/clone routes of C12 over `Neon.EncKeys.new`,
                                           `Neon.EncDecKeys.fromEnc`, `Neon.DecKeys.fromEnc` (`Clone` = identity on the
                                           model value); every other family is delegated to `Models.Aes.routeOp`
  neonblocks <NeonKuznyechik|NeonKuznyechikEnc|NeonKuznyechikDec> <enc|dec> <keyhex> <hex of n ≥ 0 blocks>
                                           the cipher crate's block loop over the model's par functions (ParBlocksSize 8)
  neonfn <transform_enc|transform_dec|sub_bytes_p|sub_bytes_pinv> <hex16>
                                           `Neon.transform · ENC_TABLE|DEC_TABLE`, `Neon.sub_bytes · P|P_INV` on the
                                           register loaded by `vld1q_u8`, stored by `vst1q_u8`
  neonks <c|e|d> <keyhex>                  memory image of the stored round keys (`c`: enc ++ dec)
  neonpar                                  `Neon.parEnc` (= `Neon.parDec`)
  neonintr <intrinsic> <args…>             one intrinsic of the model (`Neon.veorq_u8`, `Neon.vqtbl4q_u8`, …); registers as
                                           their 16 bytes in element order.  `vqtbx4q_u8` and `vld1q_u8_x4` are not used
                                           by the repository; their Arm ARM semantics is written here (`tbx4`, `ld1x4`).
-/
namespace BC.Models.KuznyechikNeon
open BC BC.Kuznyechik

/-- `KuznyechikEnc::new_from_slice`: length guard, then `EncKeys::new` -/
def newEnc (k : Bytes) : Option EncKeys :=
  if accepts k.length then some (Neon.EncKeys.new (packBE 32 k)) else none

def keyedC (c : EncDecKeys) : Keyed :=
  { enc := some (liftBlock 16 (Neon.encrypt_block c.enc)), dec := some (liftBlock 16 (Neon.decrypt_block c.dec)) }
def keyedE (e : EncKeys) : Keyed := { enc := some (liftBlock 16 (Neon.encrypt_block e.keys)), dec := none }
def keyedD (d : DecKeys) : Keyed := { enc := none, dec := some (liftBlock 16 (Neon.decrypt_block d.keys)) }

def mk (name debug : String) (f : EncKeys → Keyed) : CipherModel where
  name := name
  blockLen := 16
  keySize := 32
  new := fun k => (newEnc k).map f
  debug := debug
  algName := "Kuznyechik"

/-- `Kuznyechik::new` = `EncKeys::new(key).into()`; `KuznyechikDec::new` likewise into `DecKeys` (lib.rs) -/
def kuznyechik : CipherModel := mk "NeonKuznyechik" "Kuznyechik { ... }" (fun e => keyedC (Neon.EncDecKeys.fromEnc e))
def kuznyechikEnc : CipherModel := mk "NeonKuznyechikEnc" "KuznyechikEnc { ... }" keyedE
def kuznyechikDec : CipherModel := mk "NeonKuznyechikDec" "KuznyechikDec { ... }" (fun e => keyedD (Neon.DecKeys.fromEnc e))

def models : List CipherModel := [kuznyechik, kuznyechikEnc, kuznyechikDec]

/-! ### `route NeonKuznyechik <route> <keyhex>` (C12) -/

/-- `#[derive(Clone)]` on the key structs: field-wise copy of `[uint8x16_t; 10]` -/
def cloneE (e : EncKeys) : EncKeys := ⟨e.keys⟩
def cloneC (c : EncDecKeys) : EncDecKeys := { enc := c.enc, dec := c.dec }
def cloneD (d : DecKeys) : DecKeys := ⟨d.keys⟩

/-- the instance reached through `route` from `KuznyechikEnc::new(key)`; `From<KuznyechikEnc>` and
`From<&KuznyechikEnc>` are both `enc.keys.clone().into()` in lib.rs -/
def routeKeyed (route : String) (e : EncKeys) : Option Keyed :=
  match route with
  | "c.new" => some (keyedC (Neon.EncDecKeys.fromEnc e))
  | "e.new" => some (keyedE e)
  | "d.new" => some (keyedD (Neon.DecKeys.fromEnc e))
  | "c.from_e" => some (keyedC (Neon.EncDecKeys.fromEnc (cloneE e)))
  | "c.from_eref" => some (keyedC (Neon.EncDecKeys.fromEnc (cloneE e)))
  | "d.from_e" => some (keyedD (Neon.DecKeys.fromEnc (cloneE e)))
  | "d.from_eref" => some (keyedD (Neon.DecKeys.fromEnc (cloneE e)))
  | "c.clone" => some (keyedC (cloneC (Neon.EncDecKeys.fromEnc e)))
  | "e.clone" => some (keyedE (cloneE e))
  | "d.clone" => some (keyedD (cloneD (Neon.DecKeys.fromEnc e)))
  | "c.clone_from_e" => some (keyedC (cloneC (Neon.EncDecKeys.fromEnc (cloneE e))))
  | "d.clone_from_e" => some (keyedD (cloneD (Neon.DecKeys.fromEnc (cloneE e))))
  | "c.from_eclone" => some (keyedC (Neon.EncDecKeys.fromEnc (cloneE (cloneE e))))
  | "d.from_eclone" => some (keyedD (Neon.DecKeys.fromEnc (cloneE (cloneE e))))
  | _ => none

/-- `route` with a fall-back handler for the families this file does not know (so that several model files can
contribute families to the one `route` line: chain them through `fallback`) -/
def routeOpWith (fallback : List String → String) (t : List String) : String :=
  match t with
  | ["NeonKuznyechik", route, k] =>
    match parseHex k with
    | none => "bad-op"
    | some key =>
      match newEnc key with
      | none => "err-len"
      | some e => match routeKeyed route e with | some kd => Models.Aes.probeStr kd | none => "err-len"
  | _ => fallback t

def routeOp : List String → String := routeOpWith Models.Aes.routeOp

/-! ### `neonblocks`: the parallel path of the model -/

def blocksFn (ty dir : String) (e : EncKeys) : Option (List (BitVec 128) → List (BitVec 128)) :=
  let encF (k : RoundKeys) := procBlocks Neon.parEnc (Neon.encrypt_par_blocks k) (Neon.encrypt_block k)
  let decF (k : RoundKeys) := procBlocks Neon.parDec (Neon.decrypt_par_blocks k) (Neon.decrypt_block k)
  match ty, dir with
  | "NeonKuznyechik", "enc" => some (encF (Neon.EncDecKeys.fromEnc e).enc)
  | "NeonKuznyechik", "dec" => some (decF (Neon.EncDecKeys.fromEnc e).dec)
  | "NeonKuznyechikEnc", "enc" => some (encF e.keys)
  | "NeonKuznyechikDec", "dec" => some (decF (Neon.DecKeys.fromEnc e).keys)
  | _, _ => none

def blocksOp (t : List String) : String :=
  match t with
  | [ty, dir, k, d] =>
    match parseHex k, parseHex d with
    | some key, some data =>
      match newEnc key with
      | none => "err-len"
      | some e =>
        if data.length % 16 ≠ 0 then "bad-op" else
        match blocksFn ty dir e with
        | some f => toHex (Models.Kuznyechik.fromBlocks (f (Models.Kuznyechik.toBlocks data)))
        | none => "unsupported"
    | _, _ => "bad-op"
  | _ => "bad-op"

/-! ### function level: `neonfn`, `neonks`, `neonpar` -/

def blk (b : Bytes) : Option (BitVec 128) := if b.length = 16 then some (packBE 16 b) else none

/-- a register written as its 16 bytes in element order -/
def regHex (v : BitVec 128) : String := toHex (unpackBE 16 (Neon.vst1q_u8 v))

def fnOp (t : List String) : String :=
  match t with
  | [fn, b] =>
    match (parseHex b).bind blk with
    | none => "bad-op"
    | some m =>
      let v := Neon.vld1q_u8 m
      match fn with
      | "transform_enc" => regHex (Neon.transform v ENC_TABLE.get)
      | "transform_dec" => regHex (Neon.transform v DEC_TABLE.get)
      | "sub_bytes_p" => regHex (Neon.sub_bytes v P)
      | "sub_bytes_pinv" => regHex (Neon.sub_bytes v P_INV)
      | _ => "bad-op"
  | _ => "bad-op"

def ksHex (k : RoundKeys) : String := String.join (k.toList.map regHex)

def ksOp (t : List String) : String :=
  match t with
  | [w, k] =>
    match parseHex k with
    | none => "bad-op"
    | some key =>
      if w != "c" && w != "e" && w != "d" then "bad-op" else
      match newEnc key with
      | none => "err-len"
      | some e =>
        if w == "c" then
          let c := Neon.EncDecKeys.fromEnc e
          ksHex c.enc ++ ksHex c.dec
        else if w == "e" then ksHex e.keys
        else ksHex (Neon.DecKeys.fromEnc e).keys
  | _ => "bad-op"

def parOp (_ : List String) : String := toString Neon.parEnc

/-! ### intrinsic level: `neonintr` -/

/-- TBX with four table registers (Arm ARM: as TBL but `result = V[d]`; an out-of-range index leaves the
destination byte unchanged).  Not used by the repository. -/
def tbx4 (a : BitVec 128) (t : Neon.U8x16x4) (idx : BitVec 128) : BitVec 128 :=
  ofLeBytes (fun n =>
    let i := (leByte idx n).toNat
    if i < 16 then leByte t.r0 i else if i < 32 then leByte t.r1 (i - 16)
    else if i < 48 then leByte t.r2 (i - 32) else if i < 64 then leByte t.r3 (i - 48) else leByte a n)

def regOf (s : String) : Option (BitVec 128) := ((parseHex s).bind blk).map Neon.vld1q_u8

def tabOf (s : String) : Option Neon.U8x16x4 :=
  match parseHex s with
  | some b =>
    if b.length ≠ 64 then none else
    let r (i : Nat) := Neon.vld1q_u8 (packBE 16 ((b.drop (16 * i)).take 16))
    some ⟨r 0, r 1, r 2, r 3⟩
  | none => none

def hexDigit (c : Char) : Option Nat :=
  if '0' ≤ c ∧ c ≤ '9' then some (c.toNat - '0'.toNat)
  else if 'a' ≤ c ∧ c ≤ 'f' then some (c.toNat - 'a'.toNat + 10)
  else if 'A' ≤ c ∧ c ≤ 'F' then some (c.toNat - 'A'.toNat + 10) else none

/-- `u64::from_str_radix(s, 16)` -/
def u64Of (s : String) : Option (BitVec 64) :=
  if s.length = 0 ∨ s.length > 16 then none else
  (s.toList.foldl (fun acc c => match acc, hexDigit c with
    | some a, some d => some (a * 16 + d) | _, _ => none) (some 0)).map (BitVec.ofNat 64)

def hex4 (v : BitVec 16) : String := toHex [v.extractLsb' 8 8, v.extractLsb' 0 8]

def intrOp (t : List String) : String :=
  let r2 (f : BitVec 128 → BitVec 128 → BitVec 128) (a b : String) : String :=
    match regOf a, regOf b with | some x, some y => regHex (f x y) | _, _ => "bad-op"
  match t with
  | ["veorq_u8", a, b] => r2 Neon.veorq_u8 a b
  | ["vorrq_u8", a, b] => r2 Neon.vorrq_u8 a b
  | ["vsubq_u8", a, b] => r2 Neon.vsubq_u8 a b
  | ["vzip1q_u8", a, b] => r2 Neon.vzip1q_u8 a b
  | ["vzip2q_u8", a, b] => r2 Neon.vzip2q_u8 a b
  | ["vdupq_n_u8", v] =>
    match parseHex v with
    | some [x] => regHex (Neon.vdupq_n_u8 x)
    | _ => "bad-op"
  | ["vqtbl4q_u8", tb, i] =>
    match tabOf tb, regOf i with | some t, some x => regHex (Neon.vqtbl4q_u8 t x) | _, _ => "bad-op"
  | ["vqtbx4q_u8", a, tb, i] =>
    match regOf a, tabOf tb, regOf i with | some d, some t, some x => regHex (tbx4 d t x) | _, _, _ => "bad-op"
  | ["vshlq_n_u16", a, n] =>
    match regOf a, n.toNat? with
    | some x, some k => if k < 16 then regHex (Neon.vshlq_n_u16 (Neon.vreinterpretq_u16_u8 x) k) else "bad-op"
    | _, _ => "bad-op"
  | ["vgetq_lane_u16", a, n] =>
    match regOf a, n.toNat? with
    | some x, some k => if k < 8 then hex4 (Neon.vgetq_lane_u16 (Neon.vreinterpretq_u16_u8 x) k) else "bad-op"
    | _, _ => "bad-op"
  | ["vcombine_u8", lo, hi] =>
    match u64Of lo, u64Of hi with | some l, some h => regHex (Neon.vcombine_u8 l h) | _, _ => "bad-op"
  | ["vld1q_u8_x4", m] =>
    match tabOf m with | some t => regHex t.r0 ++ regHex t.r1 ++ regHex t.r2 ++ regHex t.r3 | none => "bad-op"
  | _ => "bad-op"

/-- put this list FIRST in `Registry.allSpecials` (`route` must be found before `Models.Aes.specials`' `route`, to which
it delegates every family other than `NeonKuznyechik`) -/
def specials : List Special :=
  [("route", routeOp), ("neonblocks", blocksOp), ("neonfn", fnOp), ("neonks", ksOp), ("neonpar", parOp),
   ("neonintr", intrOp)]

end BC.Models.KuznyechikNeon
