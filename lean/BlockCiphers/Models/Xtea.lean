import BlockCiphers.Api
import BlockCiphers.Impl.Xtea
/- Registry entry for XTEA (template for every other cipher). -/
namespace BC.Models.Xtea
open BC

def xteaModel : CipherModel where
  name := "Xtea"
  blockLen := 8
  keySize := 16
  new := fun k =>
    if Xtea.accepts k.length then
      let key := Xtea.keyOfBits (packBE 16 k)
      some { enc := some (liftBlock 8 (Xtea.encrypt key)), dec := some (liftBlock 8 (Xtea.decrypt key)) }
    else none
  debug := "XTEA { ... }"
  algName := "XTEA"
  clonable := false

def models : List CipherModel := [xteaModel]
def specials : List Special := []

end BC.Models.Xtea
