import BlockCiphers.Api
import BlockCiphers.Impl.Belt
/- Registry entry for belt-block (`BeltBlock`) and the special operations `beltraw`, `wblock`. -/
namespace BC.Models.Belt
open BC

def beltModel : CipherModel where
  name := "BeltBlock"
  blockLen := 16
  keySize := 32
  new := fun k =>
    if Belt.accepts k.length then
      let c := Belt.new (packBE 32 k)
      some { enc := some (liftBlock 16 (Belt.encrypt c)), dec := some (liftBlock 16 (Belt.decrypt c)) }
    else none
  debug := "<no-debug-impl>"
  algName := "BeltBlock"

/-- `beltraw <keyhex32> <blockhex16>` -/
def beltraw (t : List String) : String :=
  match t with
  | [k, b] =>
    match parseHex k, parseHex b with
    | some key, some blk =>
      if key.length ≠ 32 ∨ blk.length ≠ 16 then "bad-op" else
      toHex (Belt.rawBytes (Belt.toKey (packBE 32 key)) blk)
    | _, _ => "bad-op"
  | _ => "bad-op"

/-- `wblock <enc|dec> <keyhex32> <datahex>` -/
def wblock (t : List String) : String :=
  match t with
  | [op, k, d] =>
    match parseHex k, parseHex d with
    | some key, some data =>
      if key.length ≠ 32 then "bad-op" else
      if op != "enc" && op != "dec" then "bad-op" else
      let kw := Belt.toKey (packBE 32 key)
      let r := if op == "enc" then Belt.wblockEnc data kw else Belt.wblockDec data kw
      match r with
      | (.ok, out) => toHex out
      | (.invalidLength, out) => "err-len:" ++ (if out = data then "unchanged" else "changed")
    | _, _ => "bad-op"
  | _ => "bad-op"

def models : List CipherModel := [beltModel]
def specials : List Special := [("beltraw", beltraw), ("wblock", wblock)]

end BC.Models.Belt
