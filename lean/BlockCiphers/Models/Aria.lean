import BlockCiphers.Api
import BlockCiphers.Impl.Aria
/- Registry entries for the `aria` crate: Aria128, Aria192, Aria256. -/
namespace BC.Models.Aria
open BC

def aria128 : CipherModel where
  name := "Aria128"
  blockLen := 16
  keySize := 16
  new := fun k =>
    if Aria.accepts128 k.length then
      let ks := Aria.new128 (packBE 16 k)
      some { enc := some (liftBlock 16 (Aria.encryptBlock ks 13)),
             dec := some (liftBlock 16 (Aria.decryptBlock ks 13)) }
    else none
  debug := "Aria128 { ... }"
  algName := "Aria128"

def aria192 : CipherModel where
  name := "Aria192"
  blockLen := 16
  keySize := 24
  new := fun k =>
    if Aria.accepts192 k.length then
      let ks := Aria.new192 (packBE 24 k)
      some { enc := some (liftBlock 16 (Aria.encryptBlock ks 15)),
             dec := some (liftBlock 16 (Aria.decryptBlock ks 15)) }
    else none
  debug := "Aria192 { ... }"
  algName := "Aria192"

def aria256 : CipherModel where
  name := "Aria256"
  blockLen := 16
  keySize := 32
  new := fun k =>
    if Aria.accepts256 k.length then
      let ks := Aria.new256 (packBE 32 k)
      some { enc := some (liftBlock 16 (Aria.encryptBlock ks 17)),
             dec := some (liftBlock 16 (Aria.decryptBlock ks 17)) }
    else none
  debug := "Aria256 { ... }"
  algName := "Aria256"

def models : List CipherModel := [aria128, aria192, aria256]
def specials : List Special := []

end BC.Models.Aria
