import BlockCiphers.Api
import BlockCiphers.Impl.Cast5
/- Registry entry for CAST5. -/
namespace BC.Models.Cast5
open BC

def cast5Model : CipherModel where
  name := "Cast5"
  blockLen := 8
  keySize := 16
  new := fun k =>
    match Cast5.new k with
    | some ks => some { enc := some (liftBlock 8 (Cast5.encrypt ks)), dec := some (liftBlock 8 (Cast5.decrypt ks)) }
    | none => none
  debug := "Cast5 { ... }"
  algName := "Cast5"

def models : List CipherModel := [cast5Model]
def specials : List Special := []

end BC.Models.Cast5
