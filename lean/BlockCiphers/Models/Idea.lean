import BlockCiphers.Api
import BlockCiphers.Impl.Idea
/- Registry entry for the `idea` crate (harness name `Idea`, 16-byte key). -/
namespace BC.Models.Idea
open BC

def ideaModel : CipherModel where
  name := "Idea"
  blockLen := 8
  keySize := 16
  new := fun k =>
    if Idea.accepts k.length then
      let ks := Idea.new (packBE 16 k)
      some { enc := some (liftBlock 8 (Idea.encrypt ks)), dec := some (liftBlock 8 (Idea.decrypt ks)) }
    else none
  debug := "Idea { ... }"
  algName := "Idea"

def models : List CipherModel := [ideaModel]
def specials : List Special := []

end BC.Models.Idea
