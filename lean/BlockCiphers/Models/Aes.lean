import BlockCiphers.Api
import BlockCiphers.Spec.Aes
import BlockCiphers.Impl.AesNi
/-
Registry entries for the nine public AES types of the `aes` crate (default build on x86-64 with AES-NI:
`autodetect.rs` wrapper around the `ni` backend), the `route` special (C12) for the three AES families
and the `hazmat` special (C17).

`models`     : the types computed by the AES-NI model `Impl/AesNi` (mirrors the code; this is the list
               the correspondence is normally run against);
`modelsSpec` : the same nine names computed by `Spec/Aes` (FIPS-197 with the S-box cache) — swap it in
               in `Registry.lean` to run the correspondence against the standard directly.
-/
namespace BC.Models.Aes
open BC

/-- which key size -/
inductive Fam | a128 | a192 | a256
  deriving DecidableEq

def Fam.keyLen : Fam → Nat
  | .a128 => 16 | .a192 => 24 | .a256 => 32

def Fam.name : Fam → String
  | .a128 => "Aes128" | .a192 => "Aes192" | .a256 => "Aes256"

/-- `AesNEnc::new_from_slice`: length guard, then key expansion -/
def newEnc (f : Fam) (k : Bytes) : Option AesNi.Enc :=
  if k.length ≠ f.keyLen then none else
  match f with
  | .a128 => some (AesNi.Enc.new128 (packBE 16 k))
  | .a192 => some (AesNi.Enc.new192 (packBE 24 k))
  | .a256 => some (AesNi.Enc.new256 (packBE 32 k))

def newDec (f : Fam) (k : Bytes) : Option AesNi.Dec := (newEnc f k).map AesNi.Dec.fromEnc
def newCombined (f : Fam) (k : Bytes) : Option AesNi.Combined := (newEnc f k).map AesNi.Combined.fromEnc

def weakOf (f : Fam) (k : Bytes) : WeakRes :=
  match f with
  | .a128 => AesNi.weak_key_test128 (packBE 16 k)
  | .a192 => AesNi.weak_key_test192 (packBE 24 k)
  | .a256 => AesNi.weak_key_test256 (packBE 32 k)

def keyedC (c : AesNi.Combined) : Keyed :=
  { enc := some (liftBlock 16 c.encrypt_block), dec := some (liftBlock 16 c.decrypt_block) }
def keyedE (e : AesNi.Enc) : Keyed := { enc := some (liftBlock 16 e.encrypt_block), dec := none }
def keyedD (d : AesNi.Dec) : Keyed := { enc := none, dec := some (liftBlock 16 d.decrypt_block) }

def mkModel (f : Fam) (suffix : String) (mk : Bytes → Option Keyed) : CipherModel where
  name := f.name ++ suffix
  blockLen := 16
  keySize := f.keyLen
  new := mk
  weak := weakOf f
  debug := f.name ++ suffix ++ " { .. }"
  algName := f.name ++ suffix

def fams : List Fam := [.a128, .a192, .a256]

/-- the nine types through the AES-NI model -/
def models : List CipherModel :=
  fams.map (fun f => mkModel f "" (fun k => (newCombined f k).map keyedC)) ++
  fams.map (fun f => mkModel f "Enc" (fun k => (newEnc f k).map keyedE)) ++
  fams.map (fun f => mkModel f "Dec" (fun k => (newDec f k).map keyedD))

/-- the nine types through FIPS-197 (`Spec/Aes`) -/
def specKeyed (f : Fam) (e d : Bool) (k : Bytes) : Option Keyed :=
  if k.length ≠ f.keyLen then none else
  some { enc := if e then some (liftBlock 16 (Spec.Aes.encrypt k)) else none,
         dec := if d then some (liftBlock 16 (Spec.Aes.decrypt k)) else none }

def modelsSpec : List CipherModel :=
  fams.map (fun f => mkModel f "" (specKeyed f true true)) ++
  fams.map (fun f => mkModel f "Enc" (specKeyed f true false)) ++
  fams.map (fun f => mkModel f "Dec" (specKeyed f false true))

/-! ### probe string (same as `Driver.lean` / harness `probe`) -/

def probeBytes : Bytes := (List.range 64).map (fun i => BitVec.ofNat 8 (i * 37 + 11))

def chunks16 : Nat → Bytes → List Bytes
  | 0, _ => []
  | n + 1, bs => bs.take 16 :: chunks16 n (bs.drop 16)

def mapBlocks (f : Option (Bytes → Bytes)) (data : Bytes) : String :=
  match f with
  | none => "x"
  | some f => toHex ((chunks16 (data.length / 16) data).foldr (fun b acc => f b ++ acc) [])

def probeStr (k : Keyed) : String := mapBlocks k.enc probeBytes ++ ":" ++ mapBlocks k.dec probeBytes

/-! ### `route <family> <route> <keyhex>` (C12) -/

def famOf (s : String) : Option Fam :=
  if s = "Aes128" then some .a128 else if s = "Aes192" then some .a192 else if s = "Aes256" then some .a256 else none

def routeNames : List String :=
  ["c.new", "e.new", "d.new", "c.from_e", "c.from_eref", "d.from_e", "d.from_eref", "c.clone", "e.clone",
   "d.clone", "c.clone_from_e", "d.clone_from_e", "c.from_eclone", "d.from_eclone"]

/-- the instance reached through `route`, starting from `AesNEnc::new(key)` (every route starts there in
the model: `AesN::new` and `AesNDec::new` are defined through `AesNEnc::new` in `ni.rs`) -/
def routeKeyed (route : String) (e : AesNi.Enc) : Option Keyed :=
  match route with
  | "c.new" => some (keyedC (AesNi.Combined.fromEnc e))
  | "e.new" => some (keyedE e)
  | "d.new" => some (keyedD (AesNi.Dec.fromEnc e))
  | "c.from_e" => some (keyedC (AesNi.Combined.fromEnc e))
  | "c.from_eref" => some (keyedC (AesNi.Combined.fromEnc e))
  | "d.from_e" => some (keyedD (AesNi.Dec.fromEnc e))
  | "d.from_eref" => some (keyedD (AesNi.Dec.fromEnc e))
  | "c.clone" => some (keyedC (AesNi.Combined.fromEnc e).clone)
  | "e.clone" => some (keyedE e.clone)
  | "d.clone" => some (keyedD (AesNi.Dec.fromEnc e).clone)
  | "c.clone_from_e" => some (keyedC (AesNi.Combined.fromEnc e).clone)
  | "d.clone_from_e" => some (keyedD (AesNi.Dec.fromEnc e).clone)
  | "c.from_eclone" => some (keyedC (AesNi.Combined.fromEnc e.clone))
  | "d.from_eclone" => some (keyedD (AesNi.Dec.fromEnc e.clone))
  | _ => none

def routeOp (t : List String) : String :=
  match t with
  | [fam, route, k] =>
    match famOf fam with
    | none => "nomodel"
    | some f =>
      match parseHex k with
      | none => "bad-op"
      | some key =>
        if !routeNames.contains route then "bad-op" else
        match newEnc f key with
        | none => "err-len"
        | some e => match routeKeyed route e with | some kd => probeStr kd | none => "bad-op"
  | _ => "bad-op"

/-! ### `hazmat <fn> <blockhex> [<keyhex>]` (C17; NI arm of `aes::hazmat`) -/

def blk (b : Bytes) : Option (BitVec 128) := if b.length = 16 then some (packBE 16 b) else none
def blk8 (b : Bytes) : Option (List (BitVec 128)) :=
  if b.length = 128 then some ((chunks16 8 b).map (packBE 16)) else none
def flat8 (x : List (BitVec 128)) : Bytes := x.foldr (fun b acc => unpackBE 16 b ++ acc) []

def hazmatOp (t : List String) : String :=
  match t with
  | fn :: bhex :: rest =>
    match parseHex bhex with
    | none => "bad-op"
    | some b =>
      let k : Option Bytes := match rest with | khex :: _ => parseHex khex | [] => none
      match fn with
      | "cipher_round" =>
        match blk b, k.bind blk with
        | some x, some key => toHex (unpackBE 16 (AesNi.cipher_round x key))
        | _, _ => "bad-op"
      | "equiv_inv_cipher_round" =>
        match blk b, k.bind blk with
        | some x, some key => toHex (unpackBE 16 (AesNi.equiv_inv_cipher_round x key))
        | _, _ => "bad-op"
      | "mix_columns" =>
        match blk b with
        | some x => toHex (unpackBE 16 (AesNi.mix_columns x))
        | none => "bad-op"
      | "inv_mix_columns" =>
        match blk b with
        | some x => toHex (unpackBE 16 (AesNi.inv_mix_columns x))
        | none => "bad-op"
      | "cipher_round_par" =>
        match blk8 b, k.bind blk8 with
        | some x, some key => toHex (flat8 (AesNi.cipher_round_par x key))
        | _, _ => "bad-op"
      | "equiv_inv_cipher_round_par" =>
        match blk8 b, k.bind blk8 with
        | some x, some key => toHex (flat8 (AesNi.equiv_inv_cipher_round_par x key))
        | _, _ => "bad-op"
      | _ => "bad-op"
  | _ => "bad-op"

def specials : List Special := [("route", routeOp), ("hazmat", hazmatOp)]

end BC.Models.Aes
