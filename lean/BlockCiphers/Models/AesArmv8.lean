import BlockCiphers.Api
import BlockCiphers.Spec.Aes
import BlockCiphers.Impl.AesArmv8
import BlockCiphers.Models.Aes
/-
Registry entries for the nine public AES types of `/repo/aes/src/armv8.rs` (the ARMv8 Cryptography-Extensions
backend), as the harness runs them through its shadow build (`harness/build.rs`, `src/arm_sw.rs`, `src/armv8sh.rs`):

  Armv8Aes128, Armv8Aes192, Armv8Aes256, Armv8Aes128Enc, …, Armv8Aes256Dec

`Debug` / `AlgorithmName` print the type's own name (`Aes128 { .. }`, `Aes128`): the registry name carries the
`Armv8` prefix, the strings do not.  Specials: `route Armv8AesN <route> <keyhex>` (other families are passed on to
`Models.Aes.routeOp`, so this module's `specials` must precede `Models.Aes.specials` in `Registry.allSpecials`) and
`hazmatarm <fn> <blockhex> [<keyhex>]`.
-/
namespace BC.Models.AesArmv8
open BC BC.Models.Aes

/-- number of round keys `N` of the family -/
def nKeys : Fam → Nat
  | .a128 => 11 | .a192 => 13 | .a256 => 15

/-- `AesNEnc::new_from_slice`: length guard (`KeySize` = 16 / 24 / 32), then key expansion -/
def newEnc (f : Fam) (k : Bytes) : Option AesArmv8.Enc :=
  if k.length ≠ f.keyLen then none else some (AesArmv8.Enc.new k (nKeys f))

def newDec (f : Fam) (k : Bytes) : Option AesArmv8.Dec :=
  if k.length ≠ f.keyLen then none else some (AesArmv8.Dec.new k (nKeys f))

def newCombined (f : Fam) (k : Bytes) : Option AesArmv8.Combined :=
  if k.length ≠ f.keyLen then none else some (AesArmv8.Combined.new k (nKeys f))

def keyedC (c : AesArmv8.Combined) : Keyed :=
  { enc := some (liftBlock 16 c.encrypt_block), dec := some (liftBlock 16 c.decrypt_block) }
def keyedE (e : AesArmv8.Enc) : Keyed := { enc := some (liftBlock 16 e.encrypt_block), dec := none }
def keyedD (d : AesArmv8.Dec) : Keyed := { enc := none, dec := some (liftBlock 16 d.decrypt_block) }

def mkModel (f : Fam) (suffix : String) (mk : Bytes → Option Keyed) : CipherModel where
  name := "Armv8" ++ f.name ++ suffix
  blockLen := 16
  keySize := f.keyLen
  new := mk
  weak := weakOf f          -- `crate::weak_key_test`, shared by all backends
  debug := f.name ++ suffix ++ " { .. }"
  algName := f.name ++ suffix

/-- the nine types of armv8.rs -/
def models : List CipherModel :=
  fams.map (fun f => mkModel f "" (fun k => (newCombined f k).map keyedC)) ++
  fams.map (fun f => mkModel f "Enc" (fun k => (newEnc f k).map keyedE)) ++
  fams.map (fun f => mkModel f "Dec" (fun k => (newDec f k).map keyedD))

/-! ### `route Armv8AesN <route> <keyhex>` (C12) -/

def famOf (s : String) : Option Fam :=
  if s = "Armv8Aes128" then some .a128 else if s = "Armv8Aes192" then some .a192
  else if s = "Armv8Aes256" then some .a256 else none

/-- the instance reached through `route` for key `k` (each constructor as written in armv8.rs) -/
def routeKeyed (route : String) (k : Bytes) (n : Nat) : Option Keyed :=
  let e := AesArmv8.Enc.new k n
  match route with
  | "c.new" => some (keyedC (AesArmv8.Combined.new k n))
  | "e.new" => some (keyedE e)
  | "d.new" => some (keyedD (AesArmv8.Dec.new k n))
  | "c.from_e" => some (keyedC (AesArmv8.Combined.fromEnc e))
  | "c.from_eref" => some (keyedC (AesArmv8.Combined.fromEnc e))
  | "d.from_e" => some (keyedD (AesArmv8.Dec.fromEnc e))
  | "d.from_eref" => some (keyedD (AesArmv8.Dec.fromEnc e))
  | "c.clone" => some (keyedC (AesArmv8.Combined.new k n).clone)
  | "e.clone" => some (keyedE e.clone)
  | "d.clone" => some (keyedD (AesArmv8.Dec.new k n).clone)
  | "c.clone_from_e" => some (keyedC (AesArmv8.Combined.fromEnc e).clone)
  | "d.clone_from_e" => some (keyedD (AesArmv8.Dec.fromEnc e).clone)
  | "c.from_eclone" => some (keyedC (AesArmv8.Combined.fromEnc e.clone))
  | "d.from_eclone" => some (keyedD (AesArmv8.Dec.fromEnc e.clone))
  | _ => none

def routeOp (t : List String) : String :=
  match t with
  | [fam, route, k] =>
    match famOf fam with
    | none => Models.Aes.routeOp t        -- not a shadow family: the x86 / autodetect model answers
    | some f =>
      match parseHex k with
      | none => "bad-op"
      | some key =>
        if !routeNames.contains route then "bad-op" else
        if key.length ≠ f.keyLen then "err-len" else
        match routeKeyed route key (nKeys f) with | some kd => probeStr kd | none => "bad-op"
  | _ => Models.Aes.routeOp t

/-! ### `hazmatarm <fn> <blockhex> [<keyhex>]` (C17; the functions of armv8/hazmat.rs) -/

def hazmatOp (t : List String) : String :=
  match t with
  | fn :: bhex :: rest =>
    match parseHex bhex with
    | none => "bad-op"
    | some b =>
      let k : Option Bytes := match rest with | khex :: _ => parseHex khex | [] => none
      match fn with
      | "cipher_round" =>
        match blk b, k.bind blk with
        | some x, some key => toHex (unpackBE 16 (AesArmv8.cipher_round x key))
        | _, _ => "bad-op"
      | "equiv_inv_cipher_round" =>
        match blk b, k.bind blk with
        | some x, some key => toHex (unpackBE 16 (AesArmv8.equiv_inv_cipher_round x key))
        | _, _ => "bad-op"
      | "mix_columns" =>
        match blk b with
        | some x => toHex (unpackBE 16 (AesArmv8.mix_columns x))
        | none => "bad-op"
      | "inv_mix_columns" =>
        match blk b with
        | some x => toHex (unpackBE 16 (AesArmv8.inv_mix_columns x))
        | none => "bad-op"
      | "cipher_round_par" =>
        match blk8 b, k.bind blk8 with
        | some x, some key => toHex (flat8 (AesArmv8.cipher_round_par x key))
        | _, _ => "bad-op"
      | "equiv_inv_cipher_round_par" =>
        match blk8 b, k.bind blk8 with
        | some x, some key => toHex (flat8 (AesArmv8.equiv_inv_cipher_round_par x key))
        | _, _ => "bad-op"
      | _ => "bad-op"
  | _ => "bad-op"

def specials : List Special := [("route", routeOp), ("hazmatarm", hazmatOp)]

end BC.Models.AesArmv8
