import BlockCiphers.Api
import BlockCiphers.Impl.Des
/- Registry entries for the `des` crate: Des, TdesEde3, TdesEde2, TdesEee3, TdesEee2. -/
namespace BC.Models.Des
open BC

def wr (b : Bool) : WeakRes := if b then .weak else .ok

def desModel : CipherModel where
  name := "Des"
  blockLen := 8
  keySize := 8
  new := fun k =>
    if Des.accepts1 k.length then
      let keys := Des.genKeys (packBE 8 k)
      some { enc := some (liftBlock 8 (Des.encrypt keys)), dec := some (liftBlock 8 (Des.decrypt keys)) }
    else none
  weak := fun k => wr (Des.weak (packBE 8 k))
  debug := "Des { ... }"
  algName := "Des"

def ede3Model : CipherModel where
  name := "TdesEde3"
  blockLen := 8
  keySize := 24
  new := fun k =>
    if Des.accepts3 k.length then
      let t := Des.Tdes3.new (packBE 24 k)
      some { enc := some (liftBlock 8 (Des.ede3Enc t)), dec := some (liftBlock 8 (Des.ede3Dec t)) }
    else none
  weak := fun k => wr (Des.weak3 (packBE 24 k))
  debug := "TdesEde3 { ... }"
  algName := "TdesEde3"

def ede2Model : CipherModel where
  name := "TdesEde2"
  blockLen := 8
  keySize := 16
  new := fun k =>
    if Des.accepts2 k.length then
      let t := Des.Tdes2.new (packBE 16 k)
      some { enc := some (liftBlock 8 (Des.ede2Enc t)), dec := some (liftBlock 8 (Des.ede2Dec t)) }
    else none
  weak := fun k => wr (Des.weak2 (packBE 16 k))
  debug := "TdesEde2 { ... }"
  algName := "TdesEde2"

def eee3Model : CipherModel where
  name := "TdesEee3"
  blockLen := 8
  keySize := 24
  new := fun k =>
    if Des.accepts3 k.length then
      let t := Des.Tdes3.new (packBE 24 k)
      some { enc := some (liftBlock 8 (Des.eee3Enc t)), dec := some (liftBlock 8 (Des.eee3Dec t)) }
    else none
  weak := fun k => wr (Des.weak3 (packBE 24 k))
  debug := "TdesEee3 { ... }"
  algName := "TdesEee3"

def eee2Model : CipherModel where
  name := "TdesEee2"
  blockLen := 8
  keySize := 16
  new := fun k =>
    if Des.accepts2 k.length then
      let t := Des.Tdes2.new (packBE 16 k)
      some { enc := some (liftBlock 8 (Des.eee2Enc t)), dec := some (liftBlock 8 (Des.eee2Dec t)) }
    else none
  weak := fun k => wr (Des.weak2 (packBE 16 k))
  debug := "TdesEee2 { ... }"
  algName := "TdesEee2"

def models : List CipherModel := [desModel, ede3Model, ede2Model, eee3Model, eee2Model]
def specials : List Special := []

end BC.Models.Des
