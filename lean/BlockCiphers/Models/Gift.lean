import BlockCiphers.Api
import BlockCiphers.Impl.Gift
/-
Registry entry for the `gift-cipher` crate (harness name `Gift128`, 16-byte block, 16-byte key) and model-side
inspection specials (the Rust keeps these functions private, so they have no harness counterpart; they are used
for debugging and for the Python cross-checks of the key schedule / packing):
  `giftks <keyhex32>`              the 80 fixsliced round-key words of `precompute_rkeys`, 8 hex digits each
  `giftpack <blockhex32>`          the four state words after `packing`
  `giftunpack <s0> <s1> <s2> <s3>` the 16 bytes produced by `unpacking`
  `giftsbox <a> <b> <c> <d>`       `sbox` and `inv_sbox` on four words: `a b c d : a' b' c' d'`
-/
namespace BC.Models.Gift
open BC

def gift128Model : CipherModel where
  name := "Gift128"
  blockLen := 16
  keySize := 16
  new := fun k =>
    if Gift.accepts k.length then
      let rk := Gift.precomputeRkeys (packBE 16 k)
      some { enc := some (liftBlock 16 (Gift.encrypt rk)), dec := some (liftBlock 16 (Gift.decrypt rk)) }
    else none
  debug := "Gift128 { ... }"
  algName := "Gift128"

def models : List CipherModel := [gift128Model]

def hex32 (w : BitVec 32) : String := toHex (unpackBE 4 w)
def stStr (s : Gift.St) : String := hex32 s.s0 ++ " " ++ hex32 s.s1 ++ " " ++ hex32 s.s2 ++ " " ++ hex32 s.s3

def word? (s : String) : Option (BitVec 32) :=
  match parseHex s with
  | some b => if b.length = 4 then some (packBE 4 b) else none
  | none => none

def giftks (t : List String) : String :=
  match t with
  | [k] =>
    match parseHex k with
    | some key =>
      if key.length ≠ 16 then "err-len" else
      " ".intercalate ((Gift.precomputeRkeys (packBE 16 key)).toList.map hex32)
    | none => "bad-op"
  | _ => "bad-op"

def giftpack (t : List String) : String :=
  match t with
  | [b] =>
    match parseHex b with
    | some blk => if blk.length ≠ 16 then "bad-op" else stStr (Gift.packing (packBE 16 blk))
    | none => "bad-op"
  | _ => "bad-op"

def giftunpack (t : List String) : String :=
  match t with
  | [a, b, c, d] =>
    match word? a, word? b, word? c, word? d with
    | some a, some b, some c, some d => toHex (unpackBE 16 (Gift.unpacking ⟨a, b, c, d⟩))
    | _, _, _, _ => "bad-op"
  | _ => "bad-op"

def giftsbox (t : List String) : String :=
  match t with
  | [a, b, c, d] =>
    match word? a, word? b, word? c, word? d with
    | some a, some b, some c, some d => stStr (Gift.sbox a b c d) ++ " : " ++ stStr (Gift.invSbox a b c d)
    | _, _, _, _ => "bad-op"
  | _ => "bad-op"

def specials : List Special :=
  [("giftks", giftks), ("giftpack", giftpack), ("giftunpack", giftunpack), ("giftsbox", giftsbox)]

end BC.Models.Gift
