import BlockCiphers.Api
import BlockCiphers.Impl.Magma
/- Registry entries for the magma crate: Magma (Tc26), the five other bundled S-box sets, and the
user-supplied set of the harness (`Gost89User`). -/
namespace BC.Models.Magma
open BC

def mk (name sname : String) (sbox : Magma.SmallSbox) : CipherModel where
  name := name
  blockLen := 8
  keySize := 32
  new := fun k =>
    if Magma.accepts k.length then
      let c := Magma.new (packBE 32 k)
      let exp := Magma.genExpSbox sbox
      some { enc := some (liftBlock 8 (Magma.encryptExp exp c)), dec := some (liftBlock 8 (Magma.decryptExp exp c)) }
    else none
  debug := Magma.debugStr sname
  algName := Magma.algNameStr sname

def models : List CipherModel := [
  mk "Magma" "Tc26" Magma.Tc26,
  mk "Gost89Test" "TestSbox" Magma.TestSbox,
  mk "Gost89CryptoProA" "CryptoProA" Magma.CryptoProA,
  mk "Gost89CryptoProB" "CryptoProB" Magma.CryptoProB,
  mk "Gost89CryptoProC" "CryptoProC" Magma.CryptoProC,
  mk "Gost89CryptoProD" "CryptoProD" Magma.CryptoProD,
  mk "Gost89User" "User" Magma.UserSbox ]

def specials : List Special := []

end BC.Models.Magma
