import BlockCiphers.Api
import BlockCiphers.Impl.Cast6
/- Registry entry for the `cast6` crate (harness name `Cast6`; key sizes 16/20/24/28/32 bytes). -/
namespace BC.Models.Cast6
open BC

def cast6Model : CipherModel where
  name := "Cast6"
  blockLen := 16
  keySize := 32
  new := fun k =>
    if Cast6.accepts k.length then
      let c := Cast6.keySchedule k
      some { enc := some (liftBlock 16 (Cast6.encrypt c)), dec := some (liftBlock 16 (Cast6.decrypt c)) }
    else none
  debug := "Cast6 { ... }"
  algName := "Cast6"

def models : List CipherModel := [cast6Model]
def specials : List Special := []

end BC.Models.Cast6
