import BlockCiphers.Api
import BlockCiphers.Impl.AesFixslice64
import BlockCiphers.Impl.AesFixslice32
/-
Driver access to the fixslice64 model (no registry entries: the registry names Aes128… belong to
`Models/Aes.lean`).  Special operation lines:

  aesfs64  <enc|dec> <keyhex 16|24|32 bytes> <hex of 1..4 blocks>   normal  (cfg(not(aes_compact)))
  aesfs64c <enc|dec> <keyhex> <hex of 1..4 blocks>                  compact (cfg(aes_compact))
      one call of `aesN_encrypt/decrypt` on a batch; a short batch is padded with zero blocks (as
      `soft.rs::encrypt_block` does for a single block) and the first n result blocks are printed.
  aesfs64b / aesfs64cb <enc|dec> <keyhex> <hex of n ≥ 0 blocks>
      what `cipher`'s block loop does with the soft backend: chunks of 4 through `*_par_blocks`,
      the tail block by block through `encrypt_block` (slot 0 of a zeroed batch).
  aesfs64ks / aesfs64cks <keyhex>   the round keys (hex of the u64 words, big-endian per word)
  aesfs64hz <cipher_round|equiv_inv_cipher_round|mix_columns|inv_mix_columns> <blockhex> [<keyhex>]
  aesfs32 / aesfs32c / aesfs32b / aesfs32cb / aesfs32ks / aesfs32cks / aesfs32hz
      the same for the fixslice32 model (batches of 1..2 blocks, `ParBlocksSize = 2`)
Result format of enc/dec: `<hex> in=ok canary=ok` (the format of the harness' `encs`/`decs`).
-/
namespace BC.Models.AesFixslice

namespace F64
open BC BC.AesFs64

def blocksOf (bs : Bytes) : List (BitVec 128) := (chunksOf 16 bs).map (packBE 16)

def toBatch (l : List (BitVec 128)) : Batch :=
  ⟨l.getD 0 0, l.getD 1 0, l.getD 2 0, l.getD 3 0⟩

def ofBatch (b : Batch) (n : Nat) : Bytes :=
  ([b.b0, b.b1, b.b2, b.b3].take n).foldr (fun x acc => unpackBE 16 x ++ acc) []

/-- the batch function for (compact?, enc?) and a key of 16/24/32 bytes; `none` = wrong key length -/
def batchFn (compact enc : Bool) (key : Bytes) : Option (Batch → Batch) :=
  match key.length with
  | 16 =>
    let k := packBE 16 key
    let rk := rkFn (if compact then aes128_key_schedule_compact k else aes128_key_schedule k)
    some (match compact, enc with
      | false, true => aes128_encrypt rk | false, false => aes128_decrypt rk
      | true, true => aes128_encrypt_compact rk | true, false => aes128_decrypt_compact rk)
  | 24 =>
    let k := packBE 24 key
    let rk := rkFn (if compact then aes192_key_schedule_compact k else aes192_key_schedule k)
    some (match compact, enc with
      | false, true => aes192_encrypt rk | false, false => aes192_decrypt rk
      | true, true => aes192_encrypt_compact rk | true, false => aes192_decrypt_compact rk)
  | 32 =>
    let k := packBE 32 key
    let rk := rkFn (if compact then aes256_key_schedule_compact k else aes256_key_schedule k)
    some (match compact, enc with
      | false, true => aes256_encrypt rk | false, false => aes256_decrypt rk
      | true, true => aes256_encrypt_compact rk | true, false => aes256_decrypt_compact rk)
  | _ => none

def parseDir (d : String) : Option Bool :=
  if d == "enc" then some true else if d == "dec" then some false else none

/-- one batch call, short batch zero padded -/
def runBatch (compact : Bool) (t : List String) : String :=
  match t with
  | [d, k, b] =>
    match parseDir d, parseHex k, parseHex b with
    | some enc, some key, some data =>
      if data.length % 16 ≠ 0 ∨ data.length = 0 ∨ data.length > 64 then "bad-op" else
      match batchFn compact enc key with
      | none => "err-len"
      | some f =>
        let bl := blocksOf data
        toHex (ofBatch (f (toBatch bl)) bl.length) ++ " in=ok canary=ok"
    | _, _, _ => "bad-op"
  | _ => "bad-op"

/-- `cipher`'s loop over a slice of blocks: full chunks of `ParBlocksSize = 4`, then the tail singly -/
def runBlocks (f : Batch → Batch) : List (BitVec 128) → Bytes
  | b0 :: b1 :: b2 :: b3 :: rest => ofBatch (f ⟨b0, b1, b2, b3⟩) 4 ++ runBlocks f rest
  | tail => tail.foldr (fun b acc => unpackBE 16 (single f b) ++ acc) []

def runStream (compact : Bool) (t : List String) : String :=
  match t with
  | [d, k, b] =>
    match parseDir d, parseHex k, parseHex b with
    | some enc, some key, some data =>
      if data.length % 16 ≠ 0 then "bad-op" else
      match batchFn compact enc key with
      | none => "err-len"
      | some f => toHex (runBlocks f (blocksOf data)) ++ " in=ok canary=ok"
    | _, _, _ => "bad-op"
  | _ => "bad-op"

def stWords (s : St) : Bytes :=
  [s.s0, s.s1, s.s2, s.s3, s.s4, s.s5, s.s6, s.s7].foldr (fun w acc => unpackBE 8 w ++ acc) []

def runKs (compact : Bool) (t : List String) : String :=
  match t with
  | [k] =>
    match parseHex k with
    | some key =>
      let a : Option (Array St) :=
        match key.length with
        | 16 => some (if compact then aes128_key_schedule_compact (packBE 16 key) else aes128_key_schedule (packBE 16 key))
        | 24 => some (if compact then aes192_key_schedule_compact (packBE 24 key) else aes192_key_schedule (packBE 24 key))
        | 32 => some (if compact then aes256_key_schedule_compact (packBE 32 key) else aes256_key_schedule (packBE 32 key))
        | _ => none
      match a with
      | some a => toHex (a.toList.foldr (fun s acc => stWords s ++ acc) [])
      | none => "err-len"
    | none => "bad-op"
  | _ => "bad-op"

def runHazmat (t : List String) : String :=
  let blk (s : String) : Option (BitVec 128) :=
    match parseHex s with
    | some b => if b.length = 16 then some (packBE 16 b) else none
    | none => none
  match t with
  | [op, b] =>
    match blk b with
    | some x =>
      if op == "mix_columns" then toHex (unpackBE 16 (hazmat.mix_columns x))
      else if op == "inv_mix_columns" then toHex (unpackBE 16 (hazmat.inv_mix_columns x))
      else "bad-op"
    | none => "bad-op"
  | [op, b, k] =>
    match blk b, blk k with
    | some x, some key =>
      if op == "cipher_round" then toHex (unpackBE 16 (hazmat.cipher_round x key))
      else if op == "equiv_inv_cipher_round" then toHex (unpackBE 16 (hazmat.equiv_inv_cipher_round x key))
      else "bad-op"
    | _, _ => "bad-op"
  | _ => "bad-op"

end F64

namespace F32
open BC BC.AesFs32

def blocksOf (bs : Bytes) : List (BitVec 128) := (chunksOf 16 bs).map (packBE 16)

def toBatch (l : List (BitVec 128)) : Batch :=
  ⟨l.getD 0 0, l.getD 1 0⟩

def ofBatch (b : Batch) (n : Nat) : Bytes :=
  ([b.b0, b.b1].take n).foldr (fun x acc => unpackBE 16 x ++ acc) []

/-- the batch function for (compact?, enc?) and a key of 16/24/32 bytes; `none` = wrong key length -/
def batchFn (compact enc : Bool) (key : Bytes) : Option (Batch → Batch) :=
  match key.length with
  | 16 =>
    let k := packBE 16 key
    let rk := rkFn (if compact then aes128_key_schedule_compact k else aes128_key_schedule k)
    some (match compact, enc with
      | false, true => aes128_encrypt rk | false, false => aes128_decrypt rk
      | true, true => aes128_encrypt_compact rk | true, false => aes128_decrypt_compact rk)
  | 24 =>
    let k := packBE 24 key
    let rk := rkFn (if compact then aes192_key_schedule_compact k else aes192_key_schedule k)
    some (match compact, enc with
      | false, true => aes192_encrypt rk | false, false => aes192_decrypt rk
      | true, true => aes192_encrypt_compact rk | true, false => aes192_decrypt_compact rk)
  | 32 =>
    let k := packBE 32 key
    let rk := rkFn (if compact then aes256_key_schedule_compact k else aes256_key_schedule k)
    some (match compact, enc with
      | false, true => aes256_encrypt rk | false, false => aes256_decrypt rk
      | true, true => aes256_encrypt_compact rk | true, false => aes256_decrypt_compact rk)
  | _ => none

def parseDir (d : String) : Option Bool :=
  if d == "enc" then some true else if d == "dec" then some false else none

/-- one batch call, short batch zero padded -/
def runBatch (compact : Bool) (t : List String) : String :=
  match t with
  | [d, k, b] =>
    match parseDir d, parseHex k, parseHex b with
    | some enc, some key, some data =>
      if data.length % 16 ≠ 0 ∨ data.length = 0 ∨ data.length > 32 then "bad-op" else
      match batchFn compact enc key with
      | none => "err-len"
      | some f =>
        let bl := blocksOf data
        toHex (ofBatch (f (toBatch bl)) bl.length) ++ " in=ok canary=ok"
    | _, _, _ => "bad-op"
  | _ => "bad-op"

/-- `cipher`'s loop over a slice of blocks: full chunks of `ParBlocksSize = 2`, then the tail singly -/
def runBlocks (f : Batch → Batch) : List (BitVec 128) → Bytes
  | b0 :: b1 :: rest => ofBatch (f ⟨b0, b1⟩) 2 ++ runBlocks f rest
  | tail => tail.foldr (fun b acc => unpackBE 16 (single f b) ++ acc) []

def runStream (compact : Bool) (t : List String) : String :=
  match t with
  | [d, k, b] =>
    match parseDir d, parseHex k, parseHex b with
    | some enc, some key, some data =>
      if data.length % 16 ≠ 0 then "bad-op" else
      match batchFn compact enc key with
      | none => "err-len"
      | some f => toHex (runBlocks f (blocksOf data)) ++ " in=ok canary=ok"
    | _, _, _ => "bad-op"
  | _ => "bad-op"

def stWords (s : St) : Bytes :=
  [s.s0, s.s1, s.s2, s.s3, s.s4, s.s5, s.s6, s.s7].foldr (fun w acc => unpackBE 4 w ++ acc) []

def runKs (compact : Bool) (t : List String) : String :=
  match t with
  | [k] =>
    match parseHex k with
    | some key =>
      let a : Option (Array St) :=
        match key.length with
        | 16 => some (if compact then aes128_key_schedule_compact (packBE 16 key) else aes128_key_schedule (packBE 16 key))
        | 24 => some (if compact then aes192_key_schedule_compact (packBE 24 key) else aes192_key_schedule (packBE 24 key))
        | 32 => some (if compact then aes256_key_schedule_compact (packBE 32 key) else aes256_key_schedule (packBE 32 key))
        | _ => none
      match a with
      | some a => toHex (a.toList.foldr (fun s acc => stWords s ++ acc) [])
      | none => "err-len"
    | none => "bad-op"
  | _ => "bad-op"

def runHazmat (t : List String) : String :=
  let blk (s : String) : Option (BitVec 128) :=
    match parseHex s with
    | some b => if b.length = 16 then some (packBE 16 b) else none
    | none => none
  match t with
  | [op, b] =>
    match blk b with
    | some x =>
      if op == "mix_columns" then toHex (unpackBE 16 (hazmat.mix_columns x))
      else if op == "inv_mix_columns" then toHex (unpackBE 16 (hazmat.inv_mix_columns x))
      else "bad-op"
    | none => "bad-op"
  | [op, b, k] =>
    match blk b, blk k with
    | some x, some key =>
      if op == "cipher_round" then toHex (unpackBE 16 (hazmat.cipher_round x key))
      else if op == "equiv_inv_cipher_round" then toHex (unpackBE 16 (hazmat.equiv_inv_cipher_round x key))
      else "bad-op"
    | _, _ => "bad-op"
  | _ => "bad-op"

end F32

open BC

def models : List CipherModel := []

def specials : List Special :=
  [("aesfs64", F64.runBatch false), ("aesfs64c", F64.runBatch true),
   ("aesfs64b", F64.runStream false), ("aesfs64cb", F64.runStream true),
   ("aesfs64ks", F64.runKs false), ("aesfs64cks", F64.runKs true),
   ("aesfs64hz", F64.runHazmat),
   ("aesfs32", F32.runBatch false), ("aesfs32c", F32.runBatch true),
   ("aesfs32b", F32.runStream false), ("aesfs32cb", F32.runStream true),
   ("aesfs32ks", F32.runKs false), ("aesfs32cks", F32.runKs true),
   ("aesfs32hz", F32.runHazmat)]

end BC.Models.AesFixslice

/-! ### correspondence scripts used for validation (kept for the record; paths of the private working copy)

`corr.py` (fixslice64 model vs. the real soft backend, 3000 lines per seed):
```python
#!/usr/bin/env python3
"""Correspondence fixslice64 model <-> real soft backend.
Generates cases, rewrites each into (a) a harness line `encs|decs AesN inplace 0 <key> <blocks>` and
(b) a driver line `aesfs64[c][b] enc|dec <key> <blocks>`, runs both binaries and compares the result lines."""
import random, subprocess, sys
R = random.Random(int(sys.argv[1]) if len(sys.argv) > 1 else 20260929)
DRIVER = '/tmp/w_aesfs/lean/.lake/build/bin/driver'
H = {'': '/verif/.build/h-forcesoft/debug/bc-harness', 'c': '/verif/.build/h-softcompact/debug/bc-harness'}
NAME = {16: 'Aes128', 24: 'Aes192', 32: 'Aes256'}

def rnd(n): return bytes(R.getrandbits(8) for _ in range(n))
def structured(n):
    k = R.randrange(9)
    if k == 0: return bytes(n)
    if k == 1: return b'\xff' * n
    if k == 2:
        b = bytearray(n); i = R.randrange(8 * n); b[i // 8] = 1 << (i % 8); return bytes(b)
    if k == 3:
        b = bytearray(b'\xff' * n); i = R.randrange(8 * n); b[i // 8] ^= 1 << (i % 8); return bytes(b)
    if k == 4: return bytes([R.getrandbits(8)]) * n
    if k == 5: return bytes((i * 17 + 1) & 255 for i in range(n))
    if k == 6: return bytes(R.choice([0x00, 0xff, 0x80, 0x7f, 0x01, 0xfe]) for _ in range(n))
    if k == 7: return bytes(range(n))
    return bytes(R.choice([0x52, 0x63, 0x00]) for _ in range(n))   # S-box fixed structure: S(0)=63, S(52)=0
def val(n): return rnd(n) if R.random() < 0.5 else structured(n)

cases = []   # (variant, op, dir, key, data)
def add(variant, op, d, key, blocks): cases.append((variant, op, d, key, b''.join(blocks)))
for variant in ('', 'c'):
    for kl in (16, 24, 32):
        # one batch call, 1..4 distinct blocks
        for n in (1, 2, 3, 4):
            for d in ('enc', 'dec'):
                for _ in range(45):
                    add(variant, 'aesfs64' + variant, d, val(kl), [val(16) for _ in range(n)])
                # block j alone in a batch whose other blocks vary: catches lane mix-ups
                key = val(kl); blk = rnd(16)
                for j in range(n):
                    add(variant, 'aesfs64' + variant, d, key, [blk if i == j else rnd(16) for i in range(n)])
        # stream: 0..14 blocks (chunks of 4 + tail)
        for n in range(0, 15):
            for d in ('enc', 'dec'):
                for _ in range(4):
                    add(variant, 'aesfs64' + variant + 'b', d, val(kl), [val(16) for _ in range(n)])
hx = lambda b: b.hex() if b else '-'
bad = 0
for variant in ('', 'c'):
    cs = [c for c in cases if c[0] == variant]
    hin = ''.join('%ss %s inplace 0 %s %s\n' % (d, NAME[len(k)], hx(k), hx(x)) for (_, _, d, k, x) in cs)
    min_ = ''.join('%s %s %s %s\n' % (op, d, hx(k), hx(x)) for (_, op, d, k, x) in cs)
    ho = subprocess.run([H[variant], 'run'], input=hin, capture_output=True, text=True).stdout.split('\n')
    mo = subprocess.run([DRIVER], input=min_, capture_output=True, text=True).stdout.split('\n')
    n = 0
    for i, c in enumerate(cs):
        n += 1
        if ho[i] != mo[i] or 'in=ok canary=ok' not in ho[i]:
            bad += 1
            if bad < 10: print('MISMATCH', variant, c[1], c[2], hx(c[3]), hx(c[4]), '\n  harness', ho[i], '\n  model  ', mo[i])
    print('variant %r: %d lines compared (harness %s)' % (variant or 'normal', n, H[variant]))
print('total', len(cases), 'mismatches', bad)
```

`corr32.py` (fixslice32 model vs. the real soft backend and vs. the fixslice64 model):
```python
#!/usr/bin/env python3
"""fixslice32 model validation.  No harness build executes fixslice32.rs on this 64-bit host, so the model
is compared (a) with the real crate's soft backend (fixslice64, h-forcesoft / h-softcompact): AES is one
function, and (b) with the fixslice64 model on identical inputs; both through the line protocol."""
import random, subprocess, sys
R = random.Random(int(sys.argv[1]) if len(sys.argv) > 1 else 3232)
DRIVER = '/tmp/w_aesfs/lean/.lake/build/bin/driver'
H = {'': '/verif/.build/h-forcesoft/debug/bc-harness', 'c': '/verif/.build/h-softcompact/debug/bc-harness'}
NAME = {16: 'Aes128', 24: 'Aes192', 32: 'Aes256'}
def rnd(n): return bytes(R.getrandbits(8) for _ in range(n))
def structured(n):
    k = R.randrange(8)
    if k == 0: return bytes(n)
    if k == 1: return b'\xff' * n
    if k == 2:
        b = bytearray(n); i = R.randrange(8 * n); b[i // 8] = 1 << (i % 8); return bytes(b)
    if k == 3:
        b = bytearray(b'\xff' * n); i = R.randrange(8 * n); b[i // 8] ^= 1 << (i % 8); return bytes(b)
    if k == 4: return bytes([R.getrandbits(8)]) * n
    if k == 5: return bytes((i * 17 + 1) & 255 for i in range(n))
    if k == 6: return bytes(R.choice([0x00, 0xff, 0x80, 0x7f, 0x01, 0xfe]) for _ in range(n))
    return bytes(R.choice([0x52, 0x63, 0x00]) for _ in range(n))
def val(n): return rnd(n) if R.random() < 0.5 else structured(n)
cases = []
for variant in ('', 'c'):
    for kl in (16, 24, 32):
        for n in (1, 2):
            for d in ('enc', 'dec'):
                for _ in range(90):
                    cases.append((variant, 'aesfs32' + variant, d, val(kl), b''.join(val(16) for _ in range(n))))
        for n in range(0, 9):
            for d in ('enc', 'dec'):
                for _ in range(4):
                    cases.append((variant, 'aesfs32' + variant + 'b', d, val(kl), b''.join(val(16) for _ in range(n))))
hx = lambda b: b.hex() if b else '-'
bad = 0
for variant in ('', 'c'):
    cs = [c for c in cases if c[0] == variant]
    hin = ''.join('%ss %s inplace 0 %s %s\n' % (d, NAME[len(k)], hx(k), hx(x)) for (_, _, d, k, x) in cs)
    min_ = ''.join('%s %s %s %s\n' % (op, d, hx(k), hx(x)) for (_, op, d, k, x) in cs)
    m64 = ''.join('%s %s %s %s\n' % (op.replace('aesfs32', 'aesfs64').replace('aesfs64' + variant, 'aesfs64' + variant + ('' if op.endswith('b') else 'b'), 1) if False else ('aesfs64' + variant + 'b'), d, hx(k), hx(x)) for (_, op, d, k, x) in cs)
    ho = subprocess.run([H[variant], 'run'], input=hin, capture_output=True, text=True).stdout.split('\n')
    mo = subprocess.run([DRIVER], input=min_, capture_output=True, text=True).stdout.split('\n')
    m6 = subprocess.run([DRIVER], input=m64, capture_output=True, text=True).stdout.split('\n')
    for i, c in enumerate(cs):
        if ho[i] != mo[i] or m6[i] != mo[i] or 'in=ok' not in mo[i]:
            bad += 1
            if bad < 10: print('MISMATCH', c[1], c[2], hx(c[3]), hx(c[4]), '\n  harness', ho[i], '\n  fs32   ', mo[i], '\n  fs64   ', m6[i])
    print('variant %r: %d lines' % (variant or 'normal', len(cs)))
print('total', len(cases), 'mismatches', bad)
```
-/
