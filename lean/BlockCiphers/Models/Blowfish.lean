import BlockCiphers.Api
import BlockCiphers.Impl.Blowfish
/-
Registry entries `Blowfish` (= `Blowfish<BE>`), `BlowfishLE` and the `bcrypt` special line
(`fn bcrypt` in /verif/harness/src/special.rs).
-/
namespace BC.Models.Blowfish
open BC

def mk (name : String) (bo : Blowfish.ByteOrder) (dbg alg : String) : CipherModel where
  name := name
  blockLen := 8
  keySize := 56
  new := fun k =>
    match Blowfish.new k.toArray with
    | some st =>
      some { enc := some (liftBlock 8 (Blowfish.encryptBlock bo st)),
             dec := some (liftBlock 8 (Blowfish.decryptBlock bo st)) }
    | none => none
  debug := dbg
  algName := alg

def blowfishModel : CipherModel := mk "Blowfish" .BE "Blowfish<BE> { ... }" "Blowfish<BE>"
def blowfishLEModel : CipherModel := mk "BlowfishLE" .LE "Blowfish<LE> { ... }" "Blowfish<LE>"

/-! ### `bcrypt <op;op;…>` -/

/-- `u32::from_str_radix(s, 16).ok()`: optional `+`, at least one hex digit, value below 2^32 -/
def parseU32Hex (s : String) : Option (BitVec 32) :=
  let cs := match s.toList with
    | '+' :: r => r
    | cs => cs
  if cs.isEmpty then none else
  match cs.foldl (fun acc c => match acc, hexVal c with
      | some a, some d => some (16 * a + d)
      | _, _ => none) (some 0) with
  | some n => if n < 2 ^ 32 then some (BitVec.ofNat 32 n) else none
  | none => none

/-- `format!("{:08x}", w)` -/
def hex8 (w : BitVec 32) : String := toHex (unpackBE 4 w)

/-- state of the script interpreter: `Except` result string (bad-op / panic) or state + outputs (reversed) -/
def runOp (acc : Except String (Blowfish.State × List String)) (op : String) :
    Except String (Blowfish.State × List String) :=
  match acc with
  | .error e => .error e
  | .ok (st, outs) =>
    match op.splitOn ":" with
    | "init" :: _ => .ok (Blowfish.bc_init_state, "." :: outs)
    | "expand" :: rest =>
      match rest.head?.bind parseHex with
      | some k =>
        if Blowfish.panicsOn k.toArray then .error "panic:index"
        else .ok (Blowfish.bc_expand_key st k.toArray, "." :: outs)
      | none => .error "bad-op"
    | "salted" :: rest =>
      match rest.head?.bind parseHex, (rest.drop 1).head?.bind parseHex with
      | some s, some k =>
        -- the key words are read first (18 reads), then the salt
        if Blowfish.panicsOn k.toArray || Blowfish.panicsOn s.toArray then .error "panic:index"
        else .ok (Blowfish.salted_expand_key st s.toArray k.toArray, "." :: outs)
      | _, _ => .error "bad-op"
    | "enc" :: rest =>
      match rest.head?.bind parseU32Hex, (rest.drop 1).head?.bind parseU32Hex with
      | some l, some r =>
        let o := Blowfish.bc_encrypt st { l := l, r := r }
        .ok (st, (hex8 o.l ++ hex8 o.r) :: outs)
      | _, _ => .error "bad-op"
    | _ => .error "bad-op"

/-- the state digest: 64 chained `bc_encrypt` calls on a counter pattern, every 8th output printed -/
def digest (st : Blowfish.State) : String :=
  let step := fun (a : Blowfish.LR × String) (i : Nat) =>
    let w : BitVec 32 := BitVec.ofNat 32 i
    let o := Blowfish.bc_encrypt st
      { l := (w * 0x9E3779B9#32) ^^^ a.1.l,
        r := ((w <<< 24) ||| (w <<< 16) ||| (w <<< 8) ||| w) ^^^ a.1.r }
    (o, if i % 8 == 7 then a.2 ++ hex8 o.l ++ hex8 o.r else a.2)
  ((List.range 64).foldl step ({ l := 0#32, r := 0#32 }, "")).2

def bcrypt (t : List String) : String :=
  let script := t.head?.getD ""
  match (script.splitOn ";").foldl runOp (.ok (Blowfish.bc_init_state, [])) with
  | .error e => e
  | .ok (st, outs) => ",".intercalate outs.reverse ++ " st=" ++ digest st

def models : List CipherModel := [blowfishModel, blowfishLEModel]
def specials : List Special := [("bcrypt", bcrypt)]

end BC.Models.Blowfish
