import BlockCiphers.Api
import BlockCiphers.Impl.Camellia
/- Registry entries for the `camellia` crate: Camellia128, Camellia192, Camellia256. -/
namespace BC.Models.Camellia
open BC

def camellia128 : CipherModel where
  name := "Camellia128"
  blockLen := 16
  keySize := 16
  new := fun k =>
    if Camellia.accepts128 k.length then
      let ks := Camellia.new128 (packBE 16 k)
      some { enc := some (liftBlock 16 (Camellia.encryptBlock ks 26)),
             dec := some (liftBlock 16 (Camellia.decryptBlock ks 26)) }
    else none
  debug := "Camellia128 { ... }"
  algName := "Camellia128"

def camellia192 : CipherModel where
  name := "Camellia192"
  blockLen := 16
  keySize := 24
  new := fun k =>
    if Camellia.accepts192 k.length then
      let ks := Camellia.new192 (packBE 24 k)
      some { enc := some (liftBlock 16 (Camellia.encryptBlock ks 34)),
             dec := some (liftBlock 16 (Camellia.decryptBlock ks 34)) }
    else none
  debug := "Camellia192 { ... }"
  algName := "Camellia192"

def camellia256 : CipherModel where
  name := "Camellia256"
  blockLen := 16
  keySize := 32
  new := fun k =>
    if Camellia.accepts256 k.length then
      let ks := Camellia.new256 (packBE 32 k)
      some { enc := some (liftBlock 16 (Camellia.encryptBlock ks 34)),
             dec := some (liftBlock 16 (Camellia.decryptBlock ks 34)) }
    else none
  debug := "Camellia256 { ... }"
  algName := "Camellia256"

def models : List CipherModel := [camellia128, camellia192, camellia256]
def specials : List Special := []

end BC.Models.Camellia
