import BlockCiphers.Api
import BlockCiphers.Impl.Twofish
/- Registry entry for the `twofish` crate (harness name `Twofish`, key lengths 16/24/32). -/
namespace BC.Models.Twofish
open BC

def twofishModel : CipherModel where
  name := "Twofish"
  blockLen := 16
  keySize := 32
  new := fun k =>
    if Twofish.accepts k.length then
      let ks := Twofish.keySchedule k.toArray
      some { enc := some (liftBlock 16 (Twofish.encrypt ks)), dec := some (liftBlock 16 (Twofish.decrypt ks)) }
    else none
  debug := "Twofish { ... }"
  algName := "Twofish"

def models : List CipherModel := [twofishModel]
def specials : List Special := []

end BC.Models.Twofish
