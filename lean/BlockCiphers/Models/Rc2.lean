import BlockCiphers.Api
import BlockCiphers.Impl.Rc2
/-
Registry entry for the `rc2` crate (`Rc2`: `new_from_slice` with 1..128 key bytes, effective key length
`8·len`) and the special operation `rc2eff <keyhex> <efflen bits> <enc|dec> <blockhex>`
(`Rc2::new_with_eff_key_len`), including the panics of that function outside its (unchecked) domain.
-/
namespace BC.Models.Rc2
open BC

def rc2Model : CipherModel where
  name := "Rc2"
  blockLen := 8
  keySize := 32
  new := fun k =>
    match Rc2.newFromSlice k with
    | some ks => some { enc := some (liftBlock 8 (Rc2.encrypt ks)), dec := some (liftBlock 8 (Rc2.decrypt ks)) }
    | none => none
  debug := "Rc2 { ... }"
  algName := "Rc2"

def models : List CipherModel := [rc2Model]

/-- `s.parse::<usize>()` (decimal digits, optional leading `+`, value below 2^64) -/
def parseUsize (s : String) : Option Nat :=
  let cs := match s.toList with | '+' :: r => r | l => l
  if cs.isEmpty ∨ !cs.all Char.isDigit then none else
  let n := cs.foldl (fun acc c => acc * 10 + (c.toNat - '0'.toNat)) 0
  if n < 2 ^ 64 then some n else none

def rc2effSpecial (t : List String) : String :=
  match t with
  | k :: e :: op :: b :: _ =>
    match parseHex k, parseHex b with
    | some key, some blk =>
      match parseUsize e with
      | none => "bad-op"
      | some eff =>
        if blk.length ≠ 8 then "bad-op" else
        match Rc2.effPanic key.length eff with
        | some kind => "panic:" ++ kind
        | none =>
          let ks := Rc2.newWithEffKeyLen key eff
          match op with
          | "enc" => toHex (liftBlock 8 (Rc2.encrypt ks) blk)
          | "dec" => toHex (liftBlock 8 (Rc2.decrypt ks) blk)
          | _ => "bad-op"
    | _, _ => "bad-op"
  | _ => "bad-op"

def specials : List Special := [("rc2eff", rc2effSpecial)]

end BC.Models.Rc2
