import BlockCiphers.Api
import BlockCiphers.Impl.Speck
/-
Registry entries for the ten Speck types (all instances of the one generic model `BC.Speck`).
-/
namespace BC.Models.Speck
open BC

def mk (p : Speck.Params) : CipherModel where
  name := p.name
  blockLen := p.blockBytes
  keySize := p.keyBytes
  new := fun key =>
    if Speck.accepts p key.length then
      let k := Speck.keySchedule p key
      some { enc := some (Speck.encryptBlock p k), dec := some (Speck.decryptBlock p k) }
    else none
  debug := p.name ++ " { .. }"
  algName := p.name

def models : List CipherModel := Speck.all.map mk
def specials : List Special := []

end BC.Models.Speck
