import BlockCiphers.Api
import BlockCiphers.Impl.Kuznyechik
/-
Registry entries for the `kuznyechik` crate: `Kuznyechik`, `KuznyechikEnc`, `KuznyechikDec`.

The generic operations run the model of the `compact_soft` backend (`Proofs/KuznyechikBackends.lean` proves that
the models of `big_soft`, `sse2` and `neon` compute the same functions).  The backend models can be run
explicitly through two special lines (model only):

  kuz   <compact|soft|sse2|neon> <enc|dec> <keyhex32> <hex of n ≥ 0 blocks>  -> hex
        (the `Kuznyechik` type of that backend: `EncKeys::new(key).into()`, then the cipher crate's block loop:
         chunks of that backend's ParBlocksSize through its parallel-block function, the tail block by block)
  kuzks <compact|soft|sse2|neon> <enc|dec> <keyhex32>                         -> hex of the 10 stored round keys
        (memory image of `EncDecKeys.enc` / `.dec`, 160 bytes)
-/
namespace BC.Models.Kuznyechik
open BC BC.Kuznyechik

def mk (name debug : String) (e d : Bool) : CipherModel where
  name := name
  blockLen := 16
  keySize := 32
  new := fun k =>
    if accepts k.length then
      -- `KuznyechikEnc::new` = `EncKeys::new`; `Kuznyechik::new` / `KuznyechikDec::new` convert it
      let ek := Compact.EncKeys.new (packBE 32 k)
      some { enc := if e then some (liftBlock 16 (Compact.encrypt_block (Compact.EncDecKeys.fromEnc ek).keys)) else none,
             dec := if d then some (liftBlock 16 (Compact.decrypt_block (Compact.DecKeys.fromEnc ek).keys)) else none }
    else none
  debug := debug
  algName := "Kuznyechik"

def kuznyechik : CipherModel := mk "Kuznyechik" "Kuznyechik { ... }" true true
def kuznyechikEnc : CipherModel := mk "KuznyechikEnc" "KuznyechikEnc { ... }" true false
def kuznyechikDec : CipherModel := mk "KuznyechikDec" "KuznyechikDec { ... }" false true

def models : List CipherModel := [kuznyechik, kuznyechikEnc, kuznyechikDec]

/-- split into 16-byte blocks (the caller has checked the length) -/
def toBlocks : Bytes → List (BitVec 128)
  | [] => []
  | b :: bs => packBE 16 ((b :: bs).take 16) :: toBlocks ((b :: bs).drop 16)
termination_by l => l.length
decreasing_by simp only [List.length_drop, List.length_cons]; omega

def fromBlocks (bs : List (BitVec 128)) : Bytes := bs.foldr (fun b acc => unpackBE 16 b ++ acc) []

/-- the block loop of backend `be` in direction `dir` for the `Kuznyechik` type built from `key` -/
def runBackend (be dir : String) (key : BitVec 256) : Option (List (BitVec 128) → List (BitVec 128)) :=
  match be, dir with
  | "compact", "enc" =>
    let k := (Compact.EncDecKeys.fromEnc (Compact.EncKeys.new key)).keys
    some (procBlocks 1 (fun bs => bs.map (Compact.encrypt_block k)) (Compact.encrypt_block k))
  | "compact", "dec" =>
    let k := (Compact.EncDecKeys.fromEnc (Compact.EncKeys.new key)).keys
    some (procBlocks 1 (fun bs => bs.map (Compact.decrypt_block k)) (Compact.decrypt_block k))
  | "soft", "enc" =>
    let k := (Soft.EncDecKeys.fromEnc (Soft.EncKeys.new key)).enc
    some (procBlocks Soft.parEnc (Soft.encrypt_par_blocks k) (Soft.encrypt_block k))
  | "soft", "dec" =>
    let k := (Soft.EncDecKeys.fromEnc (Soft.EncKeys.new key)).dec
    some (procBlocks Soft.parDec (fun bs => bs.map (Soft.decrypt_block k)) (Soft.decrypt_block k))
  | "sse2", "enc" =>
    let k := (Sse2.EncDecKeys.fromEnc (Sse2.EncKeys.new key)).enc
    some (procBlocks Sse2.parEnc (Sse2.encrypt_par_blocks k) (Sse2.encrypt_block k))
  | "sse2", "dec" =>
    let k := (Sse2.EncDecKeys.fromEnc (Sse2.EncKeys.new key)).dec
    some (procBlocks Sse2.parDec (Sse2.decrypt_par_blocks k) (Sse2.decrypt_block k))
  | "neon", "enc" =>
    let k := (Neon.EncDecKeys.fromEnc (Neon.EncKeys.new key)).enc
    some (procBlocks Neon.parEnc (Neon.encrypt_par_blocks k) (Neon.encrypt_block k))
  | "neon", "dec" =>
    let k := (Neon.EncDecKeys.fromEnc (Neon.EncKeys.new key)).dec
    some (procBlocks Neon.parDec (Neon.decrypt_par_blocks k) (Neon.decrypt_block k))
  | _, _ => none

def kuzOp (t : List String) : String :=
  match t with
  | [be, dir, k, d] =>
    match parseHex k, parseHex d with
    | some key, some data =>
      if !accepts key.length then "err-len" else
      if data.length % 16 ≠ 0 then "bad-op" else
      match runBackend be dir (packBE 32 key) with
      | some f => toHex (fromBlocks (f (toBlocks data)))
      | none => "bad-op"
    | _, _ => "bad-op"
  | _ => "bad-op"

/-- stored round keys of backend `be` (memory image: table backends keep little-endian 128-bit values) -/
def storedKeys (be dir : String) (key : BitVec 256) : Option (List (BitVec 128)) :=
  match be, dir with
  | "compact", _ => some (Compact.EncDecKeys.fromEnc (Compact.EncKeys.new key)).keys.toList
  | "soft", "enc" => some ((Soft.EncDecKeys.fromEnc (Soft.EncKeys.new key)).enc.toList.map rev128)
  | "soft", "dec" => some ((Soft.EncDecKeys.fromEnc (Soft.EncKeys.new key)).dec.toList.map rev128)
  | "sse2", "enc" => some ((Sse2.EncDecKeys.fromEnc (Sse2.EncKeys.new key)).enc.toList.map rev128)
  | "sse2", "dec" => some ((Sse2.EncDecKeys.fromEnc (Sse2.EncKeys.new key)).dec.toList.map rev128)
  | "neon", "enc" => some ((Neon.EncDecKeys.fromEnc (Neon.EncKeys.new key)).enc.toList.map rev128)
  | "neon", "dec" => some ((Neon.EncDecKeys.fromEnc (Neon.EncKeys.new key)).dec.toList.map rev128)
  | _, _ => none

def kuzksOp (t : List String) : String :=
  match t with
  | [be, dir, k] =>
    match parseHex k with
    | some key =>
      if !accepts key.length then "err-len" else
      if dir != "enc" && dir != "dec" then "bad-op" else
      match storedKeys be dir (packBE 32 key) with
      | some ks => toHex (fromBlocks ks)
      | none => "bad-op"
    | none => "bad-op"
  | _ => "bad-op"

def specials : List Special := [("kuz", kuzOp), ("kuzks", kuzksOp)]

end BC.Models.Kuznyechik
