import BlockCiphers.Api
import BlockCiphers.Impl.Threefish
/-
Registry entries for the `threefish` crate: `Threefish256`, `Threefish512`, `Threefish1024` (plain keyed
constructor = zero tweak) and the special operation
`tf <256|512|1024> <keyhex> <tweakhex16> <enc|dec|encu64|decu64> <blockhex>`.
-/
namespace BC.Models.Threefish
open BC

def mkModel (p : Threefish.Params) : CipherModel where
  name := p.name
  blockLen := 8 * p.nw
  keySize := 8 * p.nw
  new := fun k =>
    if Threefish.accepts p k.length then
      let c := Threefish.new p k
      some { enc := some (Threefish.encryptBlock c), dec := some (Threefish.decryptBlock c) }
    else none
  debug := p.name ++ " { ... }"
  algName := p.name

def models : List CipherModel := [mkModel Threefish.tf256, mkModel Threefish.tf512, mkModel Threefish.tf1024]

/-- the `tf_impl!` macro of the harness -/
def tfImpl (p : Threefish.Params) (key tw : Bytes) (op : String) (b : Bytes) : String :=
  if key.length ≠ 8 * p.nw ∨ tw.length ≠ 16 ∨ b.length ≠ 8 * p.nw then "bad-op" else
  match op with
  | "enc" => toHex (Threefish.encryptBlock (Threefish.newWithTweak p key tw) b)
  | "dec" => toHex (Threefish.decryptBlock (Threefish.newWithTweak p key tw) b)
  | "encu64" | "decu64" =>
    -- the harness converts to little-endian u64s itself and calls the u64 entry points
    let k64 := Threefish.loadWords p.nw key
    let c := Threefish.newWithTweakU64 p k64 (Threefish.le64 tw 0) (Threefish.le64 tw 8)
    let b64 := Threefish.loadWords p.nw b
    let r := if op == "encu64" then Threefish.encryptU64 c b64 else Threefish.decryptU64 c b64
    toHex (Threefish.storeWords r)
  | _ => "bad-op"

def tfSpecial (t : List String) : String :=
  match t with
  | size :: k :: tw :: op :: b :: _ =>
    match parseHex k, parseHex tw, parseHex b with
    | some key, some tweak, some blk =>
      match size with
      | "256" => tfImpl Threefish.tf256 key tweak op blk
      | "512" => tfImpl Threefish.tf512 key tweak op blk
      | "1024" => tfImpl Threefish.tf1024 key tweak op blk
      | _ => "bad-op"
    | _, _, _ => "bad-op"
  | _ => "bad-op"

def specials : List Special := [("tf", tfSpecial)]

end BC.Models.Threefish
