import BlockCiphers.Api
import BlockCiphers.Impl.Sm4
/- Registry entry for SM4 (/repo/sm4). -/
namespace BC.Models.Sm4
open BC

def sm4Model : CipherModel where
  name := "Sm4"
  blockLen := 16
  keySize := 16
  new := fun k =>
    if Sm4.accepts k.length then
      let c := Sm4.new (packBE 16 k)
      some { enc := some (liftBlock 16 (Sm4.encrypt c)), dec := some (liftBlock 16 (Sm4.decrypt c)) }
    else none
  debug := "Sm4 { ... }"
  algName := "Sm4"

/-- `sm4iter <enc|dec> <keyhex16> <blockhex16> <count>`: iterate the block function (GB/T 32907 example 2
is `count = 1000000`); model-side only (the crate's own test `sm4_example_2` is the Rust counterpart). -/
def sm4iter (t : List String) : String :=
  match t with
  | [op, k, b, n] =>
    match parseHex k, parseHex b, n.toNat? with
    | some key, some blk, some cnt =>
      if key.length ≠ 16 ∨ blk.length ≠ 16 then "bad-op" else
      let c := Sm4.new (packBE 16 key)
      let f := if op == "enc" then Sm4.encrypt c else Sm4.decrypt c
      if op != "enc" && op != "dec" then "bad-op" else
      toHex (unpackBE 16 (Nat.fold cnt (fun _ _ x => f x) (packBE 16 blk)))
    | _, _, _ => "bad-op"
  | _ => "bad-op"

def models : List CipherModel := [sm4Model]
def specials : List Special := [("sm4iter", sm4iter)]

end BC.Models.Sm4
