import BlockCiphers.Api
import BlockCiphers.Impl.Serpent
/- Registry entry for the `serpent` crate (harness name `Serpent`; key sizes 16..=32 bytes). -/
namespace BC.Models.Serpent
open BC

def serpentModel : CipherModel where
  name := "Serpent"
  blockLen := 16
  keySize := 16
  new := fun k =>
    if Serpent.accepts k.length then
      let rk := Serpent.keySchedule k
      some { enc := some (liftBlock 16 (Serpent.encrypt rk)), dec := some (liftBlock 16 (Serpent.decrypt rk)) }
    else none
  debug := "Serpent { ... }"
  algName := "Serpent"

/-- the `--cfg serpent_no_unroll` configuration (same harness name; not in the registry list, used by
the correspondence run against `/verif/.build/h-serpentloop`) -/
def serpentLoopModel : CipherModel :=
  { serpentModel with
    new := fun k =>
      if Serpent.accepts k.length then
        let rk := Serpent.keySchedule k
        some { enc := some (liftBlock 16 (Serpent.encryptLoop rk)),
               dec := some (liftBlock 16 (Serpent.decryptLoop rk)) }
      else none }

def models : List CipherModel := [serpentModel]
def specials : List Special := []

end BC.Models.Serpent
