import BlockCiphers.Api
import BlockCiphers.Impl.Rc5
/-
Registry entries for the RC5 menu compiled into the harness (`pub type Rc5_<w>_<r>_<b> = rc5::RC5<u<w>, U<r>, U<b>>`
in /verif/harness/src/main.rs).  All entries are instances of the one generic model `BC.Rc5`.
-/
namespace BC.Models.Rc5
open BC

/-- the menu `(w, r, b)` -/
def menu : List (Nat × Nat × Nat) :=
  [(32, 12, 16), (32, 16, 16), (32, 20, 16), (32, 12, 1), (32, 12, 5), (32, 0, 16), (32, 1, 7),
   (32, 255, 255), (8, 12, 4), (8, 3, 1), (16, 16, 8), (16, 5, 3), (64, 24, 24), (64, 7, 17),
   (128, 28, 32), (128, 9, 33), (32, 12, 0)]

/-- `"RC5 - {}/{}/{}"` with `core::any::type_name::<W>()` = `u8`/`u16`/… -/
def algName (w r b : Nat) : String :=
  "RC5 - u" ++ toString w ++ "/" ++ toString r ++ "/" ++ toString b

def mk (w r b : Nat) : CipherModel where
  name := "Rc5_" ++ toString w ++ "_" ++ toString r ++ "_" ++ toString b
  blockLen := 2 * Rc5.wordBytes w
  keySize := b
  new := fun k =>
    if Rc5.accepts b k.length then
      let S := Rc5.substituteKey w r b k
      some { enc := some (Rc5.encryptBlock S r), dec := some (Rc5.decryptBlock S r) }
    else none
  debug := algName w r b ++ " { ... }"
  algName := algName w r b

def models : List CipherModel := menu.map (fun p => mk p.1 p.2.1 p.2.2)
def specials : List Special := []

end BC.Models.Rc5
