/- Record types of the facts the translator extracts from /repo (see /verif/translator/translate.py). -/
namespace BC.Gen

/-- one `impl Debug for T` / `impl AlgorithmName for T` -/
structure FmtImpl where
  crate : String
  ty : String
  kind : String
  /-- the body of `fmt` / `write_alg_name` mentions `self` -/
  readsSelf : Bool
  /-- the string literals of the body, in order -/
  literals : List String
  usesStringify : Bool
  usesTypeName : Bool
  /-- the `X` of every `<X as Unsigned>` in the body, in order (RC5 prints rounds and key length so) -/
  unsignedArgs : List String

structure StructInfo where
  crate : String
  file : String
  kind : String
  name : String
  /-- declared `pub` (not `pub(crate)` / `pub(super)` / private) -/
  isPub : Bool
  /-- (field name, type text, base type name: `ManuallyDrop<>`, module path and generics stripped) -/
  fields : List (String × String × String)

structure DropInfo where
  crate : String
  file : String
  ty : String
  tyBase : String
  /-- fields wiped by `.zeroize()`, `Zeroize::zeroize(&mut self.f)` or `zeroize_flat_type(&mut self.f)` -/
  wiped : List String
  /-- `zeroize_flat_type(self)` -/
  whole : Bool
  /-- union arms dropped through `ManuallyDrop::drop(&mut self.f.arm)` -/
  delegates : List String
  /-- the wipe is compiled in exactly under `feature = "zeroize"` -/
  cfgZeroize : Bool

/-- `TABLE[i]` of a regenerated constant table (`Gen/Tables.lean`, flattened row-major), as a `w`-bit value.  An
out-of-range read gives 0; the theorems that tie a generated function to its model show the index is in range. -/
def tblAt (t : Array Nat) (i : Nat) (w : Nat) : BitVec w := BitVec.ofNat w (t.getD i 0)

/-- `a[i]` of a local array of `w`-bit values read with a data-dependent index (RC2's `self.keys[(x & 63) as usize]`).  An
out-of-range read gives 0; the tie theorems show the index is in range. -/
def selAt {w : Nat} (l : List (BitVec w)) (i : Nat) : BitVec w := l.getD i 0

end BC.Gen
