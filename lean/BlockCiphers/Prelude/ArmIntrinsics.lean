import BlockCiphers.Prelude.Bytes
import BlockCiphers.Spec.Aes
import BlockCiphers.Prelude.X86Intrinsics
/-
AArch64 Advanced-SIMD / Cryptographic-Extension intrinsics used by `/repo/aes/src/armv8/*.rs`
(`core::arch::aarch64`), transcribed from the Arm Architecture Reference Manual (DDI 0487: instruction
pseudo-code of AESE, AESD, AESMC, AESIMC, LD1, ST1, EOR (vector), DUP (general), UMOV, and
`shared/functions/crypto/AES*`) on `BitVec 128`, for a **little-endian** AArch64.

Representation (the same as for `__m128i` in `Prelude/X86Intrinsics.lean`, so that the byte-order
conversion `rev128` and its lemmas are shared):

* a `uint8x16_t` is a `BitVec 128` holding the register image: vector element `i` (byte `i`) is bits
  `8i+7:8i`; a `uint32x4_t` is the same 128 bits, 32-bit element `i` being bits `32i+31:32i`
  (`vreinterpretq_*` are the identity — on a little-endian machine a reinterpretation does not move bits);
* a 16-byte Rust array is a `BitVec 128` whose **most** significant byte is element 0 (`Prelude/Bytes`);
  `LD1 {Vt.16B}` reads memory byte `i` into element `i`, hence load and store are the 16-byte reversal.

The Arm ARM describes the AES instructions through `AESShiftRows`, `AESSubBytes`, `AESMixColumns` (and their
inverses) acting on the 16 bytes `op<8i+7:8i>`, byte `i` being FIPS-197 state element (row `i mod 4`, column
`i div 4`): the FIPS-197 input order.  So, as for x86, `toState = rev128` turns a register into the
`BC.Spec.Aes` state and the FIPS-197 transformations themselves are *used*, not re-defined:

  AESShiftRows(op)   result byte i = op byte (i + 4·(i mod 4)) mod 16  = FIPS ShiftRows  (row r rotated left by r)
  AESSubBytes(op)    bytewise S-box                                       = FIPS SubBytes
  AESMixColumns(op)  per 4-byte column, {02,03,01,01} circulant           = FIPS MixColumns

TRUSTED: that these definitions transcribe the Arm ARM — there is no AArch64 hardware or emulator in the
sandbox.  The Rust software intrinsics `harness/src/arm_sw.rs` (which the shadow build of the repository's
ARMv8 source runs on) are written independently from the same pseudo-code with an S-box computed in Rust;
the correspondence runs compare the two transcriptions on every line, and the shadow build is compared with the
host's AES-NI through the real crate.
-/
namespace BC.Arm
open BC.Spec.Aes BC.X86

/-- `vld1q_u8(ptr)` = `LD1 {Vt.16B}, [Xn]`: "for e = 0 to 15: Elem[rval, e, 8] = Mem[address + e]".
`mem` is the 16-byte array (element 0 most significant); the result is the register image. -/
def vld1q_u8 (mem : BitVec 128) : BitVec 128 := rev128 mem

/-- `vst1q_u8(ptr, a)` = `ST1 {Vt.16B}, [Xn]`: "Mem[address + e] = Elem[rval, e, 8]": the array written -/
def vst1q_u8 (a : BitVec 128) : BitVec 128 := rev128 a

/-- `veorq_u8` = `EOR Vd.16B, Vn.16B, Vm.16B`: "result = operand1 EOR operand2" -/
def veorq_u8 (a b : BitVec 128) : BitVec 128 := a ^^^ b

/-- `vaeseq_u8(data, key)` = `AESE Vd.16B, Vn.16B`:
"operand1 = V[d]; operand2 = V[n]; result = operand1 EOR operand2; result = AESSubBytes(AESShiftRows(result))" -/
def vaeseq_u8 (data key : BitVec 128) : BitVec 128 :=
  ofState (subBytes (shiftRows (toState (data ^^^ key))))

/-- `vaesdq_u8(data, key)` = `AESD Vd.16B, Vn.16B`:
"result = operand1 EOR operand2; result = AESInvSubBytes(AESInvShiftRows(result))" -/
def vaesdq_u8 (data key : BitVec 128) : BitVec 128 :=
  ofState (invSubBytes (invShiftRows (toState (data ^^^ key))))

/-- `vaesmcq_u8` = `AESMC Vd.16B, Vn.16B`: "result = AESMixColumns(operand)" -/
def vaesmcq_u8 (data : BitVec 128) : BitVec 128 := ofState (mixColumns (toState data))

/-- `vaesimcq_u8` = `AESIMC Vd.16B, Vn.16B`: "result = AESInvMixColumns(operand)" -/
def vaesimcq_u8 (data : BitVec 128) : BitVec 128 := ofState (invMixColumns (toState data))

/-- `vdupq_n_u8` = `DUP Vd.16B, Wn`: "for e = 0 to 15: Elem[result, e, 8] = element" -/
def vdupq_n_u8 (value : BitVec 8) : BitVec 128 := ofFn (fun _ => value)

/-- `vdupq_n_u32` = `DUP Vd.4S, Wn`: the four 32-bit elements are `value` -/
def vdupq_n_u32 (value : BitVec 32) : BitVec 128 := ofDwords value value value value

/-- `vreinterpretq_u8_u32`: no instruction; the same register bits (little-endian: byte `4i+j` of the
vector is byte `j`, counted from the least significant, of 32-bit element `i`) -/
def vreinterpretq_u8_u32 (a : BitVec 128) : BitVec 128 := a

/-- `vreinterpretq_u32_u8`: the inverse re-interpretation -/
def vreinterpretq_u32_u8 (a : BitVec 128) : BitVec 128 := a

/-- `vgetq_lane_u32(v, lane)` = `UMOV Wd, Vn.S[lane]`: "X[d] = ZeroExtend(Elem[operand, index, 32])" -/
def vgetq_lane_u32 (v : BitVec 128) (lane : Nat) : BitVec 32 := dword v lane

/-
Which harness operation (shadow build, software intrinsics `arm_sw.rs`) exercises which definition:

  vld1q_u8 / vst1q_u8      every `enc`/`dec`/`encs`/`decs`/`hazmatarm` line on an `Armv8Aes*` name
  veorq_u8                 `enc`/`dec` (final AddRoundKey), `hazmatarm cipher_round`, `equiv_inv_cipher_round`
  vaeseq_u8 / vaesmcq_u8   `enc`, `hazmatarm cipher_round(_par)`, `hazmatarm mix_columns`; key expansion (`sub_word`)
  vaesdq_u8 / vaesimcq_u8  `dec`, `hazmatarm equiv_inv_cipher_round(_par)`, `hazmatarm inv_mix_columns`; `inv_expanded_keys`
  vdupq_n_u8 (0)           `hazmatarm cipher_round`, `equiv_inv_cipher_round`; `sub_word`
  vdupq_n_u32, vreinterpretq_u8_u32, vreinterpretq_u32_u8, vgetq_lane_u32 (lane 0)    `sub_word` in every key expansion
-/
end BC.Arm
