import BlockCiphers.Prelude.Bytes
/-
Helper for the RC5 and Speck models: bytes of a number by plain structural recursion (so that the
kernel can evaluate them and the inversion lemmas in `Proofs/WordBytes.lean` are one induction each).
-/
namespace BC

/-- `n` bytes of the number `v`, least significant first (`to_le_bytes`) -/
def toLEn : Nat → Nat → Bytes
  | 0, _ => []
  | n + 1, v => BitVec.ofNat 8 v :: toLEn n (v / 256)

/-- `n` bytes of the number `v`, most significant first (`to_be_bytes`, low `n` bytes) -/
def toBEn (n v : Nat) : Bytes := (toLEn n v).reverse

/-- `&s[a..b]` -/
def slice (s : Bytes) (a b : Nat) : Bytes := (s.drop a).take (b - a)

end BC
