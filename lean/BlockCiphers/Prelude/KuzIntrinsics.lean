import BlockCiphers.Prelude.GenTypes
import BlockCiphers.Prelude.X86Intrinsics
import BlockCiphers.Prelude.ArmIntrinsics
/-
Intrinsics of the SSE2 and NEON back ends of Kuznyechik (`/repo/kuznyechik/src/{sse2,neon}/backends.rs`) that
`Prelude/X86Intrinsics.lean` / `Prelude/ArmIntrinsics.lean` do not have yet, transcribed from the Intel SDM vol. 2
(MOVDQA, PXOR zeroing idiom, PEXTRW, PUNPCKLBW, PUNPCKHBW, PSLLW; `_mm_set_epi8` / `_mm_set_epi64x` are compiler
sequences specified by the Intel Intrinsics Guide) and from the Arm ARM DDI 0487 (ORR (vector), SUB (vector), ZIP1, ZIP2,
SHL, UMOV, TBL; `vcreate_u8` / `vcombine_u8` / `vreinterpretq_u16_u8` are register moves specified by the ACLE), with the
conventions of those two files: a register is the `BitVec 128` register image (byte lane `i` = bits `8i+7:8i`, 16-bit lane
`i` = bits `16i+15:16i`), a 16-byte memory operand is a `BitVec 128` whose MOST significant byte is memory byte 0.

These are the extern targets of the function translator (`translator/funcs.py`, table `EXTERNS`) for the regenerated
`Gen/Cipher_Kuznyechik_{sse2,neon}.lean`, `Gen/Keys_Kuznyechik_{sse2,neon}.lean`; `Proofs/GenCipherKuznyechikSse2.lean` and
`Proofs/GenCipherKuznyechikNeon.lean` prove each of them equal to the intrinsic function the hand-written model
(`Impl/Kuznyechik.lean`, namespaces `Sse2`, `Neon`) uses.

`BC.Gen.memRead16` is the translator's reading of a 16-byte load through a pointer `TABLE.as_ptr().add(off)` whose offset
is data-dependent (the fused tables of Kuznyechik).
-/
namespace BC.X86

/-- byte lane `i` of a register -/
def byte (x : BitVec 128) (i : Nat) : BitVec 8 := x.extractLsb' (8 * i) 8
/-- 16-bit lane `i` of a register -/
def word (x : BitVec 128) (i : Nat) : BitVec 16 := x.extractLsb' (16 * i) 16

/-- MOVDQA load (the operand must be 16-byte aligned, else #GP: the alignment is a C20 site, not modelled here); the
value loaded is that of MOVDQU -/
def _mm_load_si128 (mem : BitVec 128) : BitVec 128 := rev128 mem

/-- `_mm_setzero_si128()` (PXOR xmm, xmm): all bits zero -/
def _mm_setzero_si128 : BitVec 128 := 0#128

/-- `_mm_set_epi64x(e1, e0)`: `dst[63:0] := e0; dst[127:64] := e1` -/
def _mm_set_epi64x (e1 e0 : BitVec 64) : BitVec 128 := e1 ++ e0

/-- `_mm_set_epi8(e15, …, e0)`: `dst[7:0] := e0; dst[15:8] := e1; …; dst[127:120] := e15` -/
def _mm_set_epi8 (e15 e14 e13 e12 e11 e10 e9 e8 e7 e6 e5 e4 e3 e2 e1 e0 : BitVec 8) : BitVec 128 :=
  e15 ++ e14 ++ e13 ++ e12 ++ e11 ++ e10 ++ e9 ++ e8 ++ e7 ++ e6 ++ e5 ++ e4 ++ e3 ++ e2 ++ e1 ++ e0

/-- PEXTRW r32, xmm, imm8: `SRC_OFFSET := imm8[2:0]; r32[15:0] := (SRC >> (SRC_OFFSET * 16)) AND 0FFFFh; r32[31:16] := 0`
(`_mm_extract_epi16` returns this `i32`) -/
def _mm_extract_epi16 (a : BitVec 128) (imm8 : Nat) : BitVec 32 := (word a (imm8 % 8)).setWidth 32

/-- PUNPCKLBW xmm1, xmm2 (`a` = destination operand, `b` = source): `DEST[7:0] := DEST[7:0]; DEST[15:8] := SRC[7:0];
DEST[23:16] := DEST[15:8]; DEST[31:24] := SRC[15:8]; …; DEST[127:120] := SRC[63:56]` -/
def _mm_unpacklo_epi8 (a b : BitVec 128) : BitVec 128 :=
  byte b 7 ++ byte a 7 ++ byte b 6 ++ byte a 6 ++ byte b 5 ++ byte a 5 ++ byte b 4 ++ byte a 4 ++ byte b 3 ++ byte a 3 ++ byte b 2 ++ byte a 2 ++ byte b 1 ++ byte a 1 ++ byte b 0 ++ byte a 0

/-- PUNPCKHBW: `DEST[7:0] := DEST[71:64]; DEST[15:8] := SRC[71:64]; …; DEST[127:120] := SRC[127:120]` -/
def _mm_unpackhi_epi8 (a b : BitVec 128) : BitVec 128 :=
  byte b 15 ++ byte a 15 ++ byte b 14 ++ byte a 14 ++ byte b 13 ++ byte a 13 ++ byte b 12 ++ byte a 12 ++ byte b 11 ++ byte a 11 ++ byte b 10 ++ byte a 10 ++ byte b 9 ++ byte a 9 ++ byte b 8 ++ byte a 8

/-- PSLLW xmm1, imm8: `IF COUNT > 15 THEN DEST := 0 ELSE DEST[15:0] := ZeroExtend(DEST[15:0] << COUNT); … (8 words)` -/
def _mm_slli_epi16 (a : BitVec 128) (imm8 : Nat) : BitVec 128 :=
  if imm8 > 15 then 0#128 else
  (word a 7 <<< imm8) ++ (word a 6 <<< imm8) ++ (word a 5 <<< imm8) ++ (word a 4 <<< imm8) ++ (word a 3 <<< imm8) ++ (word a 2 <<< imm8) ++ (word a 1 <<< imm8) ++ (word a 0 <<< imm8)

end BC.X86

namespace BC.Arm
open BC.X86

/-- `vorrq_u8` = ORR Vd.16B, Vn.16B, Vm.16B -/
def vorrq_u8 (a b : BitVec 128) : BitVec 128 := a ||| b

/-- `vsubq_u8` = SUB Vd.16B, Vn.16B, Vm.16B: "for e = 0 to 15: Elem[result, e, 8] = Elem[operand1, e, 8] − Elem[operand2, e, 8]"
(modulo 2^8) -/
def vsubq_u8 (a b : BitVec 128) : BitVec 128 :=
  (byte a 15 - byte b 15) ++ (byte a 14 - byte b 14) ++ (byte a 13 - byte b 13) ++ (byte a 12 - byte b 12) ++ (byte a 11 - byte b 11) ++ (byte a 10 - byte b 10) ++ (byte a 9 - byte b 9) ++ (byte a 8 - byte b 8) ++ (byte a 7 - byte b 7) ++ (byte a 6 - byte b 6) ++ (byte a 5 - byte b 5) ++ (byte a 4 - byte b 4) ++ (byte a 3 - byte b 3) ++ (byte a 2 - byte b 2) ++ (byte a 1 - byte b 1) ++ (byte a 0 - byte b 0)

/-- `vzip1q_u8` = ZIP1 Vd.16B, Vn.16B, Vm.16B: "base = 0; for p = 0 to 7: Elem[result, 2p, 8] = Elem[operand1, base+p, 8];
Elem[result, 2p+1, 8] = Elem[operand2, base+p, 8]" -/
def vzip1q_u8 (a b : BitVec 128) : BitVec 128 :=
  byte b 7 ++ byte a 7 ++ byte b 6 ++ byte a 6 ++ byte b 5 ++ byte a 5 ++ byte b 4 ++ byte a 4 ++ byte b 3 ++ byte a 3 ++ byte b 2 ++ byte a 2 ++ byte b 1 ++ byte a 1 ++ byte b 0 ++ byte a 0

/-- `vzip2q_u8` = ZIP2: the same with `base = 8` (pairs = 8) -/
def vzip2q_u8 (a b : BitVec 128) : BitVec 128 :=
  byte b 15 ++ byte a 15 ++ byte b 14 ++ byte a 14 ++ byte b 13 ++ byte a 13 ++ byte b 12 ++ byte a 12 ++ byte b 11 ++ byte a 11 ++ byte b 10 ++ byte a 10 ++ byte b 9 ++ byte a 9 ++ byte b 8 ++ byte a 8

/-- `vcreate_u8(a)`: the 64-bit D register whose bits are those of `a` (byte lane `i` = bits `8i+7:8i`) -/
def vcreate_u8 (a : BitVec 64) : BitVec 64 := a

/-- `vcombine_u8(low, high)`: the Q register with `low` in bits 63:0 and `high` in bits 127:64 -/
def vcombine_u8 (low high : BitVec 64) : BitVec 128 := high ++ low

/-- `vreinterpretq_u16_u8`: the same 128 bits (little-endian AArch64) -/
def vreinterpretq_u16_u8 (a : BitVec 128) : BitVec 128 := a

/-- `vshlq_n_u16(a, n)` = SHL Vd.8H, Vn.8H, #n (0 ≤ n ≤ 15): "for e = 0 to 7: Elem[result, e, 16] = Elem[operand, e, 16] << shift" -/
def vshlq_n_u16 (a : BitVec 128) (n : Nat) : BitVec 128 :=
  (word a 7 <<< n) ++ (word a 6 <<< n) ++ (word a 5 <<< n) ++ (word a 4 <<< n) ++ (word a 3 <<< n) ++ (word a 2 <<< n) ++ (word a 1 <<< n) ++ (word a 0 <<< n)

/-- `vgetq_lane_u16(v, lane)` = UMOV Wd, Vn.H[lane] (0 ≤ lane ≤ 7) -/
def vgetq_lane_u16 (v : BitVec 128) (lane : Nat) : BitVec 16 := word v lane

/-- one result element of TBL with a 512-bit table: "index = UInt(Elem[indices, i, 8]); if index < 64 then
Elem[result, i, 8] = Elem[table, index, 8] else Elem[result, i, 8] = 0" (64 = 16 · number of table registers) -/
def tbl4Lane (table : BitVec 512) (index : BitVec 8) : BitVec 8 :=
  if index.toNat < 64 then table.extractLsb' (8 * index.toNat) 8 else 0#8

/-- `vqtbl4q_u8(t, idx)` = TBL Vd.16B, {Vn.16B, Vn+1.16B, Vn+2.16B, Vn+3.16B}, Vm.16B (`t0 … t3` = the four registers of the
`uint8x16x4_t`): "table = V[n+3]:V[n+2]:V[n+1]:V[n]; for i = 0 to 15: …" (`tbl4Lane`) -/
def vqtbl4q_u8 (t0 t1 t2 t3 idx : BitVec 128) : BitVec 128 :=
  let table : BitVec 512 := t3 ++ t2 ++ t1 ++ t0
  tbl4Lane table (byte idx 15) ++ tbl4Lane table (byte idx 14) ++ tbl4Lane table (byte idx 13) ++ tbl4Lane table (byte idx 12) ++ tbl4Lane table (byte idx 11) ++ tbl4Lane table (byte idx 10) ++ tbl4Lane table (byte idx 9) ++ tbl4Lane table (byte idx 8) ++ tbl4Lane table (byte idx 7) ++ tbl4Lane table (byte idx 6) ++ tbl4Lane table (byte idx 5) ++ tbl4Lane table (byte idx 4) ++ tbl4Lane table (byte idx 3) ++ tbl4Lane table (byte idx 2) ++ tbl4Lane table (byte idx 1) ++ tbl4Lane table (byte idx 0)

end BC.Arm

namespace BC.Gen

/-- A constant byte array of the crate is emitted by the translator as a list of chunks of 256 little-endian 128-bit words
(4096 bytes per chunk).  Word `q` (bytes `16q … 16q+15`) of the array; 0 outside the array. -/
def memWord (chunks : List (Array Nat)) (q : Nat) : BitVec 128 := tblAt (chunks.getD (q / 256) #[]) (q % 256) 128

/-- the little-endian value of the 16 bytes at byte offset `off` (any alignment): bytes `off … off+15` are the upper
`16 − off % 16` bytes of word `off / 16` followed by the lower `off % 16` bytes of the next word -/
def memLoadLE128 (chunks : List (Array Nat)) (off : Nat) : BitVec 128 :=
  (memWord chunks (off / 16) >>> (8 * (off % 16))) ||| (memWord chunks (off / 16 + 1) <<< (128 - 8 * (off % 16)))

/-- the 16 bytes at byte offset `off` as a memory operand (`BitVec 128`, memory byte 0 most significant: the argument
convention of the load intrinsics).  Bytes outside the array read as 0; the tie theorems show the offsets are in range. -/
def memRead16 (chunks : List (Array Nat)) (off : Nat) : BitVec 128 := BC.X86.rev128 (memLoadLE128 chunks off)

end BC.Gen
