import BlockCiphers.Prelude.Bytes
/-
Helpers shared by the SM4 / Magma (GOST 28147-89) / BelT models: Rust `for` loops over ranges as folds
over index lists, and the generic "run the inverse rounds in reverse order" lemma.
Core Lean only (the driver links this file).
-/
namespace BC

/-- `for i in lo..lo+n { s = f i s }` -/
def forRange {α : Type} (lo n : Nat) (f : Nat → α → α) (a : α) : α :=
  (List.range' lo n).foldl (fun s i => f i s) a

/-- `for i in (lo..lo+n).rev() { s = f i s }` -/
def forRangeRev {α : Type} (lo n : Nat) (f : Nat → α → α) (a : α) : α :=
  (List.range' lo n).reverse.foldl (fun s i => f i s) a

/-- Generic inversion of a loop: if `g i` undoes `f i` up to the conjugation `R`
(`g i (R (f i s)) = R s`), then running the `g i` over the reversed index list undoes the whole loop,
again up to `R`.  Feistel networks (`R` = swap of the halves), SM4 (`R` = word reversal) and BelT
(`R` = the final word permutation) are all instances. -/
theorem foldl_inv {α ι : Type} (f g : ι → α → α) (R : α → α)
    (h : ∀ i s, g i (R (f i s)) = R s) (l : List ι) (s : α) :
    l.reverse.foldl (fun s i => g i s) (R (l.foldl (fun s i => f i s) s)) = R s := by
  induction l generalizing s with
  | nil => rfl
  | cons i l ih =>
    simp only [List.reverse_cons, List.foldl_append, List.foldl_cons, List.foldl_nil]
    rw [ih, h]

/-- the same with the hypothesis restricted to the indices that occur -/
theorem foldl_inv_mem {α ι : Type} (f g : ι → α → α) (R : α → α) (l : List ι)
    (h : ∀ i, i ∈ l → ∀ s, g i (R (f i s)) = R s) (s : α) :
    l.reverse.foldl (fun s i => g i s) (R (l.foldl (fun s i => f i s) s)) = R s := by
  induction l generalizing s with
  | nil => rfl
  | cons i l ih =>
    simp only [List.reverse_cons, List.foldl_append, List.foldl_cons, List.foldl_nil]
    rw [ih (fun j hj => h j (List.mem_cons_of_mem _ hj)), h i (List.mem_cons_self)]

/-- variant starting from the reversed list -/
theorem foldl_inv_mem' {α ι : Type} (f g : ι → α → α) (R : α → α) (l : List ι)
    (h : ∀ i, i ∈ l → ∀ s, g i (R (f i s)) = R s) (s : α) :
    l.foldl (fun s i => g i s) (R (l.reverse.foldl (fun s i => f i s) s)) = R s := by
  have := foldl_inv_mem f g R l.reverse (fun i hi => h i (List.mem_reverse.mp hi)) s
  rwa [List.reverse_reverse] at this

theorem forRangeRev_forRange {α : Type} (lo n : Nat) (f g : Nat → α → α) (R : α → α)
    (h : ∀ i, lo ≤ i → i < lo + n → ∀ s, g i (R (f i s)) = R s) (s : α) :
    forRangeRev lo n g (R (forRange lo n f s)) = R s := by
  unfold forRangeRev forRange
  apply foldl_inv_mem
  intro i hi; rw [List.mem_range'_1] at hi; exact h i hi.1 hi.2

theorem forRange_forRangeRev {α : Type} (lo n : Nat) (f g : Nat → α → α) (R : α → α)
    (h : ∀ i, lo ≤ i → i < lo + n → ∀ s, g i (R (f i s)) = R s) (s : α) :
    forRange lo n g (R (forRangeRev lo n f s)) = R s := by
  unfold forRangeRev forRange
  apply foldl_inv_mem'
  intro i hi; rw [List.mem_range'_1] at hi; exact h i hi.1 hi.2

end BC
