/-
Prelude: bytes, hex, big-endian packing of byte strings into `BitVec`.
Model files import only core Lean (no Mathlib, no Batteries) so that the driver links as a `lean_exe`.

Convention used by every model: a block / fixed-size key of `n` bytes is a `BitVec (8*n)` whose most
significant byte is byte 0 of the Rust array (i.e. the hex string of the array reads as the hex of
the number).  `u32::from_be_bytes(v[0..4])` is then a plain `extractLsb'`, and `from_le_bytes` is
`bswap32` of it.
-/
namespace BC

abbrev Bytes := List (BitVec 8)

def hexVal (c : Char) : Option Nat :=
  if '0' ≤ c ∧ c ≤ '9' then some (c.toNat - '0'.toNat)
  else if 'a' ≤ c ∧ c ≤ 'f' then some (c.toNat - 'a'.toNat + 10)
  else if 'A' ≤ c ∧ c ≤ 'F' then some (c.toNat - 'A'.toNat + 10)
  else none

def parseHexAux : List Char → List (BitVec 8) → Option (List (BitVec 8))
  | [], acc => some acc.reverse
  | [_], _ => none
  | a :: b :: rest, acc =>
    match hexVal a, hexVal b with
    | some x, some y => parseHexAux rest (BitVec.ofNat 8 (16 * x + y) :: acc)
    | _, _ => none

/-- `-` denotes the empty byte string (so that every field of a line is non-empty). -/
def parseHex (s : String) : Option Bytes :=
  if s = "-" then some [] else parseHexAux s.toList []

def hexChar (n : Nat) : Char :=
  if n < 10 then Char.ofNat ('0'.toNat + n) else Char.ofNat ('a'.toNat + (n - 10))

def toHex (bs : Bytes) : String :=
  if bs.isEmpty then "-" else
  String.ofList (bs.foldr (fun b acc => hexChar (b.toNat / 16) :: hexChar (b.toNat % 16) :: acc) [])

/-- big-endian value of a byte string -/
def bytesToNat (bs : Bytes) : Nat := bs.foldl (fun acc b => acc * 256 + b.toNat) 0

/-- pack exactly `n` bytes (caller checks the length) big-endian into `BitVec (8*n)` -/
def packBE (n : Nat) (bs : Bytes) : BitVec (8 * n) := BitVec.ofNat (8 * n) (bytesToNat bs)

/-- unpack a `BitVec w` into `n` bytes, most significant first -/
def unpackBE (n : Nat) {w : Nat} (x : BitVec w) : Bytes :=
  (List.range n).map (fun i => (x >>> (8 * (n - 1 - i))).setWidth 8)

/-- byte `i` (0 = most significant) of an `n`-byte value -/
def byteAt {w : Nat} (x : BitVec w) (n i : Nat) : BitVec 8 := (x >>> (8 * (n - 1 - i))).setWidth 8

def bswap16 (x : BitVec 16) : BitVec 16 := (x <<< 8) ||| (x >>> 8)

def bswap32 (x : BitVec 32) : BitVec 32 :=
  ((x &&& 0x000000FF#32) <<< 24) ||| ((x &&& 0x0000FF00#32) <<< 8) |||
  ((x &&& 0x00FF0000#32) >>> 8) ||| ((x &&& 0xFF000000#32) >>> 24)

def bswap64 (x : BitVec 64) : BitVec 64 :=
  ((x &&& 0x00000000000000FF#64) <<< 56) ||| ((x &&& 0x000000000000FF00#64) <<< 40) |||
  ((x &&& 0x0000000000FF0000#64) <<< 24) ||| ((x &&& 0x00000000FF000000#64) <<< 8) |||
  ((x &&& 0x000000FF00000000#64) >>> 8) ||| ((x &&& 0x0000FF0000000000#64) >>> 24) |||
  ((x &&& 0x00FF000000000000#64) >>> 40) ||| ((x &&& 0xFF00000000000000#64) >>> 56)

/-! ### words from / to byte lists (variable-length keys, generic helpers) -/

/-- value of a byte list read little-endian -/
def bytesToNatLE (bs : Bytes) : Nat := bs.foldr (fun b acc => acc * 256 + b.toNat) 0

/-- split a list into chunks of `n` (last chunk may be short); `n = 0` gives `[]` -/
def chunksOf {α : Type} (n : Nat) : List α → List (List α)
  | [] => []
  | x :: xs =>
    if n = 0 then [] else
    let rest := chunksOf n ((x :: xs).drop n)
    (x :: xs).take n :: rest
termination_by l => l.length
decreasing_by all_goals simp only [List.length_drop, List.length_cons]; omega

def wordsBE (w : Nat) (bs : Bytes) : List (BitVec w) :=
  (chunksOf (w / 8) bs).map (fun c => BitVec.ofNat w (bytesToNat c))

def wordsLE (w : Nat) (bs : Bytes) : List (BitVec w) :=
  (chunksOf (w / 8) bs).map (fun c => BitVec.ofNat w (bytesToNatLE c))

/-- bytes of a word, most significant first -/
def wordBytesBE {w : Nat} (x : BitVec w) : Bytes := unpackBE (w / 8) x

/-- bytes of a word, least significant first -/
def wordBytesLE {w : Nat} (x : BitVec w) : Bytes := (unpackBE (w / 8) x).reverse

/-- `x.rotate_left(n)` of Rust for a run-time amount (reduced mod the width, as Rust does) -/
def rotl {w : Nat} (x : BitVec w) (n : Nat) : BitVec w := x.rotateLeft n
def rotr {w : Nat} (x : BitVec w) (n : Nat) : BitVec w := x.rotateRight n

/-- index bound for masked table look-ups: `(x &&& m).toNat < m.toNat + 1` -/
theorem and_toNat_le {w : Nat} (x m : BitVec w) : (x &&& m).toNat ≤ m.toNat := by
  rw [BitVec.toNat_and]; exact Nat.and_le_right

/-- iterate a function `n` times -/
def iter {α : Type} (f : α → α) : Nat → α → α
  | 0, a => a
  | n + 1, a => iter f n (f a)

theorem iter_succ' {α : Type} (f : α → α) (n : Nat) (a : α) : iter f (n + 1) a = f (iter f n a) := by
  induction n generalizing a with
  | zero => rfl
  | succ n ih => rw [iter, ih, ← iter]

/-- if `g` undoes `f` then `iter g n` undoes `iter f n` -/
theorem iter_inv {α : Type} (f g : α → α) (h : ∀ a, g (f a) = a) (n : Nat) (a : α) :
    iter g n (iter f n a) = a := by
  induction n generalizing a with
  | zero => rfl
  | succ n ih => rw [iter_succ', iter, ih, h]

end BC
