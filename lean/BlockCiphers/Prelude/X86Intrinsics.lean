import BlockCiphers.Prelude.Bytes
import BlockCiphers.Spec.Aes
/-
x86 SSE2 / AES-NI intrinsics used by `/repo/aes/src/ni/*.rs`, transcribed from the Intel SDM
(vol. 2: AESENC, AESENCLAST, AESDEC, AESDECLAST, AESIMC, AESKEYGENASSIST, PSHUFD, PSLLDQ, PXOR,
MOVDQU) on `BitVec 128`.

Two byte orders meet here and the conversion is written exactly once (`rev128`):

* an `__m128i` value is a `BitVec 128` in **x86 lane order**: bits 7:0 are byte 0 of the register,
  bits 31:0 dword 0, …  `_mm_loadu_si128(p)` puts memory byte `p[0]` into bits 7:0.
* a 16-byte Rust array (block, key) is, by the convention of `Prelude/Bytes.lean`, a `BitVec 128` whose
  **most** significant byte is array element 0.

Hence load and store are the 16-byte reversal.  The SDM describes the AES instructions on a 4×4 state
in which register byte `i` (bits 8i+7:8i) is state element (row `i % 4`, column `i / 4`) — the FIPS-197
input order — so `toState = rev128` turns a register into the `BC.Spec.Aes` state and `ofState = rev128`
turns it back.  The FIPS-197 transformations themselves are *used*, not re-defined.

These definitions are trusted to transcribe the SDM; every one of them is exercised against the host
CPU through the harness operations listed at the end of this file.
-/
namespace BC.X86
open BC.Spec.Aes

/-- reverse the 16 bytes of a 128-bit value (the one and only byte-order conversion) -/
def rev128 (x : BitVec 128) : BitVec 128 :=
  bswap64 (x.extractLsb' 0 64) ++ bswap64 (x.extractLsb' 64 64)

/-- register (x86 lane order) → FIPS-197 state in `BC.Spec.Aes` block convention -/
def toState (x : BitVec 128) : BitVec 128 := rev128 x
/-- FIPS-197 state → register -/
def ofState (s : BitVec 128) : BitVec 128 := rev128 s

/-- MOVDQU load: `mem` is the 16-byte array (element 0 most significant); result in lane order -/
def _mm_loadu_si128 (mem : BitVec 128) : BitVec 128 := rev128 mem
/-- MOVDQU store: the 16-byte array written to memory -/
def _mm_storeu_si128 (x : BitVec 128) : BitVec 128 := rev128 x

/-- PXOR -/
def _mm_xor_si128 (a b : BitVec 128) : BitVec 128 := a ^^^ b

/-- dword `i` (0 = bits 31:0) of a register -/
def dword (x : BitVec 128) (i : Nat) : BitVec 32 := (x >>> (32 * i)).setWidth 32

/-- assemble a register from dwords 3,2,1,0 (bv_decide (config := { timeout := 600 })-friendly: no `++` chain) -/
def ofDwords (d3 d2 d1 d0 : BitVec 32) : BitVec 128 :=
  (d3.setWidth 128 <<< 96) ||| (d2.setWidth 128 <<< 64) ||| (d1.setWidth 128 <<< 32) ||| d0.setWidth 128

/-- PSHUFD: `DEST[32i+31:32i] ← SRC dword (ORDER[2i+1:2i])` -/
def _mm_shuffle_epi32 (a : BitVec 128) (imm8 : BitVec 8) : BitVec 128 :=
  ofDwords (dword a ((imm8 >>> 6) &&& 3#8).toNat) (dword a ((imm8 >>> 4) &&& 3#8).toNat)
           (dword a ((imm8 >>> 2) &&& 3#8).toNat) (dword a (imm8 &&& 3#8).toNat)

/-- PSLLDQ: shift the whole register left by `imm8` **bytes** (`imm8 > 15` gives 0) -/
def _mm_slli_si128 (a : BitVec 128) (imm8 : Nat) : BitVec 128 :=
  if imm8 > 15 then 0#128 else a <<< (8 * imm8)

/-- AESENC: `STATE ← SRC1; STATE ← ShiftRows(STATE); STATE ← SubBytes(STATE); STATE ← MixColumns(STATE);
DEST ← STATE xor RoundKey` -/
def _mm_aesenc_si128 (a roundKey : BitVec 128) : BitVec 128 :=
  ofState (mixColumns (subBytes (shiftRows (toState a)))) ^^^ roundKey

/-- AESENCLAST: ShiftRows; SubBytes; xor RoundKey -/
def _mm_aesenclast_si128 (a roundKey : BitVec 128) : BitVec 128 :=
  ofState (subBytes (shiftRows (toState a))) ^^^ roundKey

/-- AESDEC: InvShiftRows; InvSubBytes; InvMixColumns; xor RoundKey -/
def _mm_aesdec_si128 (a roundKey : BitVec 128) : BitVec 128 :=
  ofState (invMixColumns (invSubBytes (invShiftRows (toState a)))) ^^^ roundKey

/-- AESDECLAST: InvShiftRows; InvSubBytes; xor RoundKey -/
def _mm_aesdeclast_si128 (a roundKey : BitVec 128) : BitVec 128 :=
  ofState (invSubBytes (invShiftRows (toState a))) ^^^ roundKey

/-- AESIMC: `DEST ← InvMixColumns(SRC)` -/
def _mm_aesimc_si128 (a : BitVec 128) : BitVec 128 :=
  ofState (invMixColumns (toState a))

/-- `SubWord` of the SDM on a register dword (little-endian: bits 7:0 are the first byte).  FIPS-197
`SubWord` works on big-endian words, so the conversion is a `bswap32` on the way in and out
(`Proofs/AesNi`: `subWordLE = subWord`, the substitution being bytewise). -/
def subWordLE (x : BitVec 32) : BitVec 32 := bswap32 (subWord (bswap32 x))

/-- `RotWord` of the SDM: `RotWord(X) = [X[7:0], X[31:8]]`, i.e. a rotation right by 8 of the
little-endian dword (= FIPS-197 RotWord, a rotation left by 8, of the big-endian word). -/
def rotWordLE (x : BitVec 32) : BitVec 32 := x.rotateRight 8

/-- AESKEYGENASSIST: with `X3..X0` the dwords of SRC and `RCON = zext imm8`:
`DEST[31:0] ← SubWord(X1); DEST[63:32] ← RotWord(SubWord(X1)) xor RCON;
 DEST[95:64] ← SubWord(X3); DEST[127:96] ← RotWord(SubWord(X3)) xor RCON` -/
def _mm_aeskeygenassist_si128 (a : BitVec 128) (imm8 : BitVec 8) : BitVec 128 :=
  let x1 := dword a 1
  let x3 := dword a 3
  let rcon := imm8.setWidth 32
  ofDwords (rotWordLE (subWordLE x3) ^^^ rcon) (subWordLE x3) (rotWordLE (subWordLE x1) ^^^ rcon) (subWordLE x1)

/-
Which harness operation runs which instruction on the host CPU (so that the correspondence runs
validate these transcriptions):

  _mm_loadu_si128 / _mm_storeu_si128   every `enc`/`dec`/`hazmat` line (byte order of block and key)
  _mm_xor_si128                        `enc`/`dec` (whitening), key expansion
  _mm_aesenc_si128                     `hazmat cipher_round`, `hazmat cipher_round_par`, `enc`
  _mm_aesenclast_si128                 `enc` (last round)
  _mm_aesdec_si128                     `hazmat equiv_inv_cipher_round`, `…_par`, `dec`
  _mm_aesdeclast_si128                 `dec` (last round)
  _mm_aesimc_si128                     `hazmat inv_mix_columns`, `hazmat mix_columns` (three times), `dec` (inv_keys)
  _mm_aeskeygenassist_si128            `enc`/`dec`/`new` of every key size (imm8 = 01,02,…,36; 00 for AES-256)
  _mm_shuffle_epi32 (ff, 55, aa)       key expansion: ff AES-128/256/192, 55 AES-192, aa AES-256
  _mm_slli_si128 (4)                   key expansion of every size
-/
end BC.X86
