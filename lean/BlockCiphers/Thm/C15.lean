import BlockCiphers.History
import BlockCiphers.Gen.Decls
/-
C15 — results depend only on key and input, not on call history or threads.
-/
namespace BC.Thm.C15
open BC BC.History

/-- (i) computing operations never change the world -/
theorem enc_leaves_world (w : World) (id : String) (d : Bytes) : (step w (.enc id d)).1 = w := by
  simp only [step]; split <;> rfl
theorem dec_leaves_world (w : World) (id : String) (d : Bytes) : (step w (.dec id d)).1 = w := by
  simp only [step]; split <;> rfl

/-- every instance in a world satisfies `P` -/
def AllInst (P : Inst → Prop) (w : World) : Prop := ∀ p ∈ w, P p.2

theorem lookup_mem {w : World} {id : String} {i : Inst} (h : lookup w id = some i) : ∃ p ∈ w, p.2 = i := by
  unfold lookup at h
  cases hf : w.find? (fun p => p.1 == id) with
  | none => simp [hf] at h
  | some p =>
    simp [hf] at h
    exact ⟨p, List.mem_of_find?_eq_some hf, h⟩

/-- (ii) in ANY reachable world, an `enc`/`dec` on instance `id` returns exactly what a freshly
constructed cipher with that instance's key returns on the same input: the result is a function of
(type, key, input) only — whatever operations were performed before on this or any other instance. -/
theorem result_is_fresh (w : World) (id : String) (d : Bytes) (i : Inst) (h : lookup w id = some i) :
    (step w (.enc id d)).2 = fresh i.model i.key false d ∧ (step w (.dec id d)).2 = fresh i.model i.key true d := by
  simp [step, h]

/-- an instance's (model, key) pair only ever comes from a `construct` (or a clone of one): the key
recorded in the world for `id` is the key it was constructed with.  Invariant: every instance in
the world is keyed with a key its own model accepts. -/
def Keyed (i : Inst) : Prop := (i.model.new i.key).isSome = true

theorem remove_all {P : Inst → Prop} {w : World} (h : AllInst P w) (id : String) : AllInst P (remove w id) := by
  intro p hp; exact h p (List.mem_filter.mp hp).1

theorem step_preserves_keyed (w : World) (op : Op) (h : AllInst Keyed w) : AllInst Keyed (step w op).1 := by
  cases op with
  | construct id m key =>
    simp only [step]
    split
    · exact h
    · rename_i kd hk
      intro p hp
      rcases List.mem_cons.mp hp with rfl | hp
      · simp [Keyed, hk]
      · exact remove_all h id p hp
  | clone dst src =>
    simp only [step]
    split
    · rename_i i hi
      split
      · intro p hp
        rcases List.mem_cons.mp hp with rfl | hp
        · obtain ⟨q, hq, rfl⟩ := lookup_mem hi
          exact h q hq
        · exact remove_all h dst p hp
      · exact h
    · exact h
  | drop id => exact remove_all h id
  | enc id d => rw [enc_leaves_world]; exact h
  | dec id d => rw [dec_leaves_world]; exact h

/-- lift to every history: after any finite sequence of operations from the empty world, every
instance is properly keyed (so `fresh` never takes its error branch for a live instance). -/
theorem run_preserves_keyed (ops : List Op) (w : World) (h : AllInst Keyed w) : AllInst Keyed (run w ops).1 := by
  induction ops generalizing w with
  | nil => exact h
  | cons op rest ih =>
    simp only [run]
    exact ih _ (step_preserves_keyed w op h)

theorem empty_keyed : AllInst Keyed [] := by intro p hp; cases hp

/-- the source-level premise of the model: outside test modules the workspace contains no construct
through which one call could influence a later one, except (1) the `cpufeatures::new!` cache cell of the
AES autodetect / hazmat modules (modelled by (iv) below), (2) raw-pointer casts of the *output* block
pointer the caller lent mutably (`as *mut`), (3) a by-value `transmute` of freshly computed round keys.
Re-extracted from /repo on every run; a new occurrence breaks this theorem. -/
theorem shared_state_inventory : BC.Gen.sharedMut =
    [("aes", "aes/src/armv8/encdec.rs", "as *mut"), ("aes", "aes/src/autodetect.rs", "cpufeatures::new!"),
     ("aes", "aes/src/hazmat.rs", "cpufeatures::new!"), ("aes", "aes/src/ni/expand.rs", "transmute"),
     ("aes", "aes/src/ni/hazmat.rs", "as *mut"), ("kuznyechik", "kuznyechik/src/neon/backends.rs", "as *mut"),
     ("kuznyechik", "kuznyechik/src/sse2/backends.rs", "as *mut")] := by decide +kernel

/-- (iii) two threads: any interleaving of computing operations on a shared world yields, for each
operation, the same output as running it alone — because computing operations commute with
everything (they do not change the world). -/
theorem compute_commutes (w : World) (id₁ id₂ : String) (d₁ d₂ : Bytes) :
    (step (step w (.enc id₁ d₁)).1 (.enc id₂ d₂)).2 = (step w (.enc id₂ d₂)).2 := by
  rw [enc_leaves_world]

/-! ### (iv) the CPU-feature cache cell (`cpufeatures::new!`): UNINIT | 0 | 1 with atomic load/store.
Each thread performs: load; if UNINIT then compute `detect` and store it.  Invariant over all
interleavings of any number of threads: the cell is UNINIT or holds `detect`; hence every `get`
returns `detect`. -/

inductive Cell | uninit | val (b : Bool)
  deriving DecidableEq

/-- per-thread program counter -/
inductive Pc | start | loaded (c : Cell) | done (r : Bool)

/-- one atomic step of one thread (`detect` is a constant of the process) -/
def tstep (detect : Bool) (cell : Cell) : Pc → Cell × Pc
  | .start => (cell, .loaded cell)                         -- atomic load
  | .loaded .uninit => (.val detect, .done detect)         -- compute + atomic store
  | .loaded (.val b) => (cell, .done b)                    -- cached value
  | .done r => (cell, .done r)

def CellOk (detect : Bool) : Cell → Prop
  | .uninit => True
  | .val b => b = detect

def PcOk (detect : Bool) : Pc → Prop
  | .start => True
  | .loaded c => CellOk detect c
  | .done r => r = detect

theorem tstep_inv (detect : Bool) (cell : Cell) (pc : Pc) (hc : CellOk detect cell) (hp : PcOk detect pc) :
    CellOk detect (tstep detect cell pc).1 ∧ PcOk detect (tstep detect cell pc).2 := by
  cases pc with
  | start => exact ⟨hc, hc⟩
  | loaded c =>
    cases c with
    | uninit => exact ⟨rfl, rfl⟩
    | val b => exact ⟨hc, hp⟩
  | done r => exact ⟨hc, hp⟩

/-- a schedule is a list of thread indices; the system state is the cell and every thread's pc -/
def sched (detect : Bool) : Cell × List Pc → List Nat → Cell × List Pc
  | s, [] => s
  | (cell, pcs), t :: rest =>
    match pcs[t]? with
    | none => sched detect (cell, pcs) rest
    | some pc =>
      let (cell', pc') := tstep detect cell pc
      sched detect (cell', pcs.set t pc') rest

theorem sched_inv (detect : Bool) (s : List Nat) (cell : Cell) (pcs : List Pc)
    (hc : CellOk detect cell) (hp : ∀ pc ∈ pcs, PcOk detect pc) :
    CellOk detect (sched detect (cell, pcs) s).1 ∧ ∀ pc ∈ (sched detect (cell, pcs) s).2, PcOk detect pc := by
  induction s generalizing cell pcs with
  | nil => exact ⟨hc, hp⟩
  | cons t rest ih =>
    simp only [sched]
    cases hg : pcs[t]? with
    | none => exact ih cell pcs hc hp
    | some pc =>
      have hpc : PcOk detect pc := hp pc (List.mem_of_getElem? hg)
      obtain ⟨h1, h2⟩ := tstep_inv detect cell pc hc hpc
      apply ih _ _ h1
      intro q hq
      rcases List.mem_or_eq_of_mem_set hq with hq | rfl
      · exact hp q hq
      · exact h2

/-- for every number of threads and EVERY interleaving, every thread that finished got `detect` -/
theorem detection_race_free (detect : Bool) (n : Nat) (s : List Nat) :
    ∀ pc ∈ (sched detect (.uninit, List.replicate n .start) s).2, ∀ r, pc = .done r → r = detect := by
  have h := (sched_inv detect s .uninit (List.replicate n .start) trivial
    (by intro pc hpc; rw [List.eq_of_mem_replicate hpc]; trivial)).2
  intro pc hpc r hr
  have := h pc hpc
  rw [hr] at this
  exact this

end BC.Thm.C15
