/-
C17 — theorem file (property theorems only).  Filled in as the models it needs are merged; see DESIGN §7 C17.
-/
namespace BC.Thm.C17
end BC.Thm.C17
