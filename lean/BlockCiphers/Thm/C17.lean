import BlockCiphers.Proofs.AesNi
import BlockCiphers.Proofs.AesSpec
import BlockCiphers.Proofs.AesFs64Hazmat
import BlockCiphers.Proofs.AesFs32Hazmat
import BlockCiphers.Proofs.AesArmv8
/-
C17 — AES hazmat round functions equal the FIPS-197 round transformations
GENERATED statement file (tools/gen_thm.py): every theorem below restates, verbatim, a theorem of a Proofs/ module
and is proved by applying it.  ONLY property theorems and non-vacuity examples live in Thm/.
AES-NI implementation and the fixslice64 / fixslice32 software implementations: full.  ARMv8: not modelled.
-/

namespace BC.AesNi
open BC BC.X86 BC.Spec.Aes
theorem C17.cipher_round_eq (b k : BitVec 128) :
    cipher_round b k = mixColumns (shiftRows (subBytes b)) ^^^ k :=
  _root_.BC.AesNi.cipher_round_eq b k
end BC.AesNi

namespace BC.AesNi
open BC BC.X86 BC.Spec.Aes
theorem C17.equiv_inv_cipher_round_eq (b k : BitVec 128) :
    equiv_inv_cipher_round b k = invMixColumns (invShiftRows (invSubBytes b)) ^^^ k :=
  _root_.BC.AesNi.equiv_inv_cipher_round_eq b k
end BC.AesNi

namespace BC.AesNi
open BC BC.X86 BC.Spec.Aes
theorem C17.mix_columns_eq (b : BitVec 128) : mix_columns b = mixColumns b :=
  _root_.BC.AesNi.mix_columns_eq b
end BC.AesNi

namespace BC.AesNi
open BC BC.X86 BC.Spec.Aes
theorem C17.inv_mix_columns_eq (b : BitVec 128) : inv_mix_columns b = invMixColumns b :=
  _root_.BC.AesNi.inv_mix_columns_eq b
end BC.AesNi

namespace BC.AesNi
open BC BC.X86 BC.Spec.Aes
theorem C17.inv_mix_columns_mix_columns (b : BitVec 128) : inv_mix_columns (mix_columns b) = b :=
  _root_.BC.AesNi.inv_mix_columns_mix_columns b
end BC.AesNi

namespace BC.AesNi
open BC BC.X86 BC.Spec.Aes
theorem C17.mix_columns_inv_mix_columns (b : BitVec 128) : mix_columns (inv_mix_columns b) = b :=
  _root_.BC.AesNi.mix_columns_inv_mix_columns b
end BC.AesNi

namespace BC.AesNi
open BC BC.X86 BC.Spec.Aes
/-- `cipher_round_par` on 8 blocks and 8 round keys = 8 independent `cipher_round` calls -/
theorem C17.cipher_round_par_eq (b0 b1 b2 b3 b4 b5 b6 b7 k0 k1 k2 k3 k4 k5 k6 k7 : BitVec 128) :
    cipher_round_par [b0, b1, b2, b3, b4, b5, b6, b7] [k0, k1, k2, k3, k4, k5, k6, k7] =
      [cipher_round b0 k0, cipher_round b1 k1, cipher_round b2 k2, cipher_round b3 k3,
       cipher_round b4 k4, cipher_round b5 k5, cipher_round b6 k6, cipher_round b7 k7] :=
  _root_.BC.AesNi.cipher_round_par_eq b0 b1 b2 b3 b4 b5 b6 b7 k0 k1 k2 k3 k4 k5 k6 k7
end BC.AesNi

namespace BC.AesNi
open BC BC.X86 BC.Spec.Aes
theorem C17.equiv_inv_cipher_round_par_eq (b0 b1 b2 b3 b4 b5 b6 b7 k0 k1 k2 k3 k4 k5 k6 k7 : BitVec 128) :
    equiv_inv_cipher_round_par [b0, b1, b2, b3, b4, b5, b6, b7] [k0, k1, k2, k3, k4, k5, k6, k7] =
      [equiv_inv_cipher_round b0 k0, equiv_inv_cipher_round b1 k1, equiv_inv_cipher_round b2 k2,
       equiv_inv_cipher_round b3 k3, equiv_inv_cipher_round b4 k4, equiv_inv_cipher_round b5 k5,
       equiv_inv_cipher_round b6 k6, equiv_inv_cipher_round b7 k7] :=
  _root_.BC.AesNi.equiv_inv_cipher_round_par_eq b0 b1 b2 b3 b4 b5 b6 b7 k0 k1 k2 k3 k4 k5 k6 k7
end BC.AesNi

namespace BC.Spec.Aes
theorem C17.invMixColumns_mixColumns (s : BitVec 128) : invMixColumns (mixColumns s) = s :=
  _root_.BC.Spec.Aes.invMixColumns_mixColumns s
end BC.Spec.Aes

namespace BC.Spec.Aes
theorem C17.mixColumns_invMixColumns (s : BitVec 128) : mixColumns (invMixColumns s) = s :=
  _root_.BC.Spec.Aes.mixColumns_invMixColumns s
end BC.Spec.Aes

namespace BC.AesFs64
open BC.Spec.Aes
theorem C17.fs64_hazmat_cipher_round (block round_key : BitVec 128) :
    hazmat.cipher_round block round_key = mixColumns (shiftRows (subBytes block)) ^^^ round_key :=
  _root_.BC.AesFs64.hazmat_cipher_round block round_key
end BC.AesFs64

namespace BC.AesFs64
open BC.Spec.Aes
theorem C17.fs64_hazmat_equiv_inv_cipher_round (block round_key : BitVec 128) :
    hazmat.equiv_inv_cipher_round block round_key =
      invMixColumns (invShiftRows (invSubBytes block)) ^^^ round_key :=
  _root_.BC.AesFs64.hazmat_equiv_inv_cipher_round block round_key
end BC.AesFs64

namespace BC.AesFs64
open BC.Spec.Aes
theorem C17.fs64_hazmat_mix_columns (block : BitVec 128) : hazmat.mix_columns block = mixColumns block :=
  _root_.BC.AesFs64.hazmat_mix_columns block
end BC.AesFs64

namespace BC.AesFs64
open BC.Spec.Aes
theorem C17.fs64_hazmat_inv_mix_columns (block : BitVec 128) : hazmat.inv_mix_columns block = invMixColumns block :=
  _root_.BC.AesFs64.hazmat_inv_mix_columns block
end BC.AesFs64

namespace BC.AesFs64
open BC.Spec.Aes
theorem C17.fs64_hazmat_cipher_round_par4 (chunk keys : Batch) :
    hazmat.cipher_round_par4 chunk keys =
      ⟨mixColumns (shiftRows (subBytes chunk.b0)) ^^^ keys.b0, mixColumns (shiftRows (subBytes chunk.b1)) ^^^ keys.b1,
       mixColumns (shiftRows (subBytes chunk.b2)) ^^^ keys.b2, mixColumns (shiftRows (subBytes chunk.b3)) ^^^ keys.b3⟩ :=
  _root_.BC.AesFs64.hazmat_cipher_round_par4 chunk keys
end BC.AesFs64

namespace BC.AesFs64
open BC.Spec.Aes
theorem C17.fs64_hazmat_equiv_inv_cipher_round_par4 (chunk keys : Batch) :
    hazmat.equiv_inv_cipher_round_par4 chunk keys =
      ⟨invMixColumns (invShiftRows (invSubBytes chunk.b0)) ^^^ keys.b0,
       invMixColumns (invShiftRows (invSubBytes chunk.b1)) ^^^ keys.b1,
       invMixColumns (invShiftRows (invSubBytes chunk.b2)) ^^^ keys.b2,
       invMixColumns (invShiftRows (invSubBytes chunk.b3)) ^^^ keys.b3⟩ :=
  _root_.BC.AesFs64.hazmat_equiv_inv_cipher_round_par4 chunk keys
end BC.AesFs64

namespace BC.AesFs64
open BC.Spec.Aes
/-- the parallel form is the single-block form in every lane -/
theorem C17.fs64_hazmat_par4_eq_single (chunk keys : Batch) :
    hazmat.cipher_round_par4 chunk keys =
      ⟨hazmat.cipher_round chunk.b0 keys.b0, hazmat.cipher_round chunk.b1 keys.b1,
       hazmat.cipher_round chunk.b2 keys.b2, hazmat.cipher_round chunk.b3 keys.b3⟩ ∧
    hazmat.equiv_inv_cipher_round_par4 chunk keys =
      ⟨hazmat.equiv_inv_cipher_round chunk.b0 keys.b0, hazmat.equiv_inv_cipher_round chunk.b1 keys.b1,
       hazmat.equiv_inv_cipher_round chunk.b2 keys.b2, hazmat.equiv_inv_cipher_round chunk.b3 keys.b3⟩ :=
  _root_.BC.AesFs64.hazmat_par4_eq_single chunk keys
end BC.AesFs64

namespace BC.AesFs32
open BC.Spec.Aes
theorem C17.fs32_hazmat_cipher_round (block round_key : BitVec 128) :
    hazmat.cipher_round block round_key = mixColumns (shiftRows (subBytes block)) ^^^ round_key :=
  _root_.BC.AesFs32.hazmat_cipher_round block round_key
end BC.AesFs32

namespace BC.AesFs32
open BC.Spec.Aes
theorem C17.fs32_hazmat_equiv_inv_cipher_round (block round_key : BitVec 128) :
    hazmat.equiv_inv_cipher_round block round_key =
      invMixColumns (invShiftRows (invSubBytes block)) ^^^ round_key :=
  _root_.BC.AesFs32.hazmat_equiv_inv_cipher_round block round_key
end BC.AesFs32

namespace BC.AesFs32
open BC.Spec.Aes
theorem C17.fs32_hazmat_mix_columns (block : BitVec 128) : hazmat.mix_columns block = mixColumns block :=
  _root_.BC.AesFs32.hazmat_mix_columns block
end BC.AesFs32

namespace BC.AesFs32
open BC.Spec.Aes
theorem C17.fs32_hazmat_inv_mix_columns (block : BitVec 128) : hazmat.inv_mix_columns block = invMixColumns block :=
  _root_.BC.AesFs32.hazmat_inv_mix_columns block
end BC.AesFs32

namespace BC.AesArmv8
open BC BC.X86 BC.Arm BC.Spec.Aes BC.AesNi
theorem C17.armv8_cipher_round_eq (b k : BitVec 128) :
    cipher_round b k = mixColumns (shiftRows (subBytes b)) ^^^ k :=
  _root_.BC.AesArmv8.cipher_round_eq b k
end BC.AesArmv8

namespace BC.AesArmv8
open BC BC.X86 BC.Arm BC.Spec.Aes BC.AesNi
theorem C17.armv8_equiv_inv_cipher_round_eq (b k : BitVec 128) :
    equiv_inv_cipher_round b k = invMixColumns (invShiftRows (invSubBytes b)) ^^^ k :=
  _root_.BC.AesArmv8.equiv_inv_cipher_round_eq b k
end BC.AesArmv8

namespace BC.AesArmv8
open BC BC.X86 BC.Arm BC.Spec.Aes BC.AesNi
theorem C17.armv8_mix_columns_eq (b : BitVec 128) : mix_columns b = mixColumns b :=
  _root_.BC.AesArmv8.mix_columns_eq b
end BC.AesArmv8

namespace BC.AesArmv8
open BC BC.X86 BC.Arm BC.Spec.Aes BC.AesNi
theorem C17.armv8_inv_mix_columns_eq (b : BitVec 128) : inv_mix_columns b = invMixColumns b :=
  _root_.BC.AesArmv8.inv_mix_columns_eq b
end BC.AesArmv8

namespace BC.AesArmv8
open BC BC.X86 BC.Arm BC.Spec.Aes BC.AesNi
theorem C17.armv8_inv_mix_columns_mix_columns (b : BitVec 128) : inv_mix_columns (mix_columns b) = b :=
  _root_.BC.AesArmv8.inv_mix_columns_mix_columns b
end BC.AesArmv8

namespace BC.AesArmv8
open BC BC.X86 BC.Arm BC.Spec.Aes BC.AesNi
theorem C17.armv8_mix_columns_inv_mix_columns (b : BitVec 128) : mix_columns (inv_mix_columns b) = b :=
  _root_.BC.AesArmv8.mix_columns_inv_mix_columns b
end BC.AesArmv8

namespace BC.AesArmv8
open BC BC.X86 BC.Arm BC.Spec.Aes BC.AesNi
/-- `cipher_round_par` on 8 blocks and 8 round keys = 8 independent `cipher_round` calls -/
theorem C17.armv8_cipher_round_par_eq (b0 b1 b2 b3 b4 b5 b6 b7 k0 k1 k2 k3 k4 k5 k6 k7 : BitVec 128) :
    cipher_round_par [b0, b1, b2, b3, b4, b5, b6, b7] [k0, k1, k2, k3, k4, k5, k6, k7] =
      [cipher_round b0 k0, cipher_round b1 k1, cipher_round b2 k2, cipher_round b3 k3,
       cipher_round b4 k4, cipher_round b5 k5, cipher_round b6 k6, cipher_round b7 k7] :=
  _root_.BC.AesArmv8.cipher_round_par_eq b0 b1 b2 b3 b4 b5 b6 b7 k0 k1 k2 k3 k4 k5 k6 k7
end BC.AesArmv8

namespace BC.AesArmv8
open BC BC.X86 BC.Arm BC.Spec.Aes BC.AesNi
theorem C17.armv8_equiv_inv_cipher_round_par_eq (b0 b1 b2 b3 b4 b5 b6 b7 k0 k1 k2 k3 k4 k5 k6 k7 : BitVec 128) :
    equiv_inv_cipher_round_par [b0, b1, b2, b3, b4, b5, b6, b7] [k0, k1, k2, k3, k4, k5, k6, k7] =
      [equiv_inv_cipher_round b0 k0, equiv_inv_cipher_round b1 k1, equiv_inv_cipher_round b2 k2,
       equiv_inv_cipher_round b3 k3, equiv_inv_cipher_round b4 k4, equiv_inv_cipher_round b5 k5,
       equiv_inv_cipher_round b6 k6, equiv_inv_cipher_round b7 k7] :=
  _root_.BC.AesArmv8.equiv_inv_cipher_round_par_eq b0 b1 b2 b3 b4 b5 b6 b7 k0 k1 k2 k3 k4 k5 k6 k7
end BC.AesArmv8
