/-
C08 — theorem file (property theorems only).  Filled in as the models it needs are merged; see DESIGN §7 C08.
-/
namespace BC.Thm.C08
end BC.Thm.C08
