import BlockCiphers.Proofs.GenTables
import BlockCiphers.Proofs.SerpentSpec
import BlockCiphers.Proofs.TwofishSpec
import BlockCiphers.Proofs.Cast6Spec
import BlockCiphers.Proofs.Serpent
import BlockCiphers.Proofs.GenFuncsSerpent
/-
C08 — Serpent, Twofish and CAST-256 conform, including variable key sizes
GENERATED statement file (tools/gen_thm.py): every theorem below restates, verbatim, a theorem of a Proofs/ module
and is proved by applying it.  ONLY property theorems and non-vacuity examples live in Thm/.
-/

namespace BC.GenFuncs.Serpent
open BC.Gen.Fn
theorem C08.src_serpent_sbox_e0_eq (w : BC.Serpent.Words) :
    serpent_sbox_e0 w.w0 w.w1 w.w2 w.w3 = tup (BC.Serpent.sboxE0 w) :=
  _root_.BC.GenFuncs.Serpent.sbox_e0_eq w
end BC.GenFuncs.Serpent

namespace BC.GenFuncs.Serpent
open BC.Gen.Fn
theorem C08.src_serpent_sbox_e1_eq (w : BC.Serpent.Words) :
    serpent_sbox_e1 w.w0 w.w1 w.w2 w.w3 = tup (BC.Serpent.sboxE1 w) :=
  _root_.BC.GenFuncs.Serpent.sbox_e1_eq w
end BC.GenFuncs.Serpent

namespace BC.GenFuncs.Serpent
open BC.Gen.Fn
theorem C08.src_serpent_sbox_e2_eq (w : BC.Serpent.Words) :
    serpent_sbox_e2 w.w0 w.w1 w.w2 w.w3 = tup (BC.Serpent.sboxE2 w) :=
  _root_.BC.GenFuncs.Serpent.sbox_e2_eq w
end BC.GenFuncs.Serpent

namespace BC.GenFuncs.Serpent
open BC.Gen.Fn
theorem C08.src_serpent_sbox_e3_eq (w : BC.Serpent.Words) :
    serpent_sbox_e3 w.w0 w.w1 w.w2 w.w3 = tup (BC.Serpent.sboxE3 w) :=
  _root_.BC.GenFuncs.Serpent.sbox_e3_eq w
end BC.GenFuncs.Serpent

namespace BC.GenFuncs.Serpent
open BC.Gen.Fn
theorem C08.src_serpent_sbox_e4_eq (w : BC.Serpent.Words) :
    serpent_sbox_e4 w.w0 w.w1 w.w2 w.w3 = tup (BC.Serpent.sboxE4 w) :=
  _root_.BC.GenFuncs.Serpent.sbox_e4_eq w
end BC.GenFuncs.Serpent

namespace BC.GenFuncs.Serpent
open BC.Gen.Fn
theorem C08.src_serpent_sbox_e5_eq (w : BC.Serpent.Words) :
    serpent_sbox_e5 w.w0 w.w1 w.w2 w.w3 = tup (BC.Serpent.sboxE5 w) :=
  _root_.BC.GenFuncs.Serpent.sbox_e5_eq w
end BC.GenFuncs.Serpent

namespace BC.GenFuncs.Serpent
open BC.Gen.Fn
theorem C08.src_serpent_sbox_e6_eq (w : BC.Serpent.Words) :
    serpent_sbox_e6 w.w0 w.w1 w.w2 w.w3 = tup (BC.Serpent.sboxE6 w) :=
  _root_.BC.GenFuncs.Serpent.sbox_e6_eq w
end BC.GenFuncs.Serpent

namespace BC.GenFuncs.Serpent
open BC.Gen.Fn
theorem C08.src_serpent_sbox_e7_eq (w : BC.Serpent.Words) :
    serpent_sbox_e7 w.w0 w.w1 w.w2 w.w3 = tup (BC.Serpent.sboxE7 w) :=
  _root_.BC.GenFuncs.Serpent.sbox_e7_eq w
end BC.GenFuncs.Serpent

namespace BC.GenFuncs.Serpent
open BC.Gen.Fn
theorem C08.src_serpent_sbox_d0_eq (w : BC.Serpent.Words) :
    serpent_sbox_d0 w.w0 w.w1 w.w2 w.w3 = tup (BC.Serpent.sboxD0 w) :=
  _root_.BC.GenFuncs.Serpent.sbox_d0_eq w
end BC.GenFuncs.Serpent

namespace BC.GenFuncs.Serpent
open BC.Gen.Fn
theorem C08.src_serpent_sbox_d1_eq (w : BC.Serpent.Words) :
    serpent_sbox_d1 w.w0 w.w1 w.w2 w.w3 = tup (BC.Serpent.sboxD1 w) :=
  _root_.BC.GenFuncs.Serpent.sbox_d1_eq w
end BC.GenFuncs.Serpent

namespace BC.GenFuncs.Serpent
open BC.Gen.Fn
theorem C08.src_serpent_sbox_d2_eq (w : BC.Serpent.Words) :
    serpent_sbox_d2 w.w0 w.w1 w.w2 w.w3 = tup (BC.Serpent.sboxD2 w) :=
  _root_.BC.GenFuncs.Serpent.sbox_d2_eq w
end BC.GenFuncs.Serpent

namespace BC.GenFuncs.Serpent
open BC.Gen.Fn
theorem C08.src_serpent_sbox_d3_eq (w : BC.Serpent.Words) :
    serpent_sbox_d3 w.w0 w.w1 w.w2 w.w3 = tup (BC.Serpent.sboxD3 w) :=
  _root_.BC.GenFuncs.Serpent.sbox_d3_eq w
end BC.GenFuncs.Serpent

namespace BC.GenFuncs.Serpent
open BC.Gen.Fn
theorem C08.src_serpent_sbox_d4_eq (w : BC.Serpent.Words) :
    serpent_sbox_d4 w.w0 w.w1 w.w2 w.w3 = tup (BC.Serpent.sboxD4 w) :=
  _root_.BC.GenFuncs.Serpent.sbox_d4_eq w
end BC.GenFuncs.Serpent

namespace BC.GenFuncs.Serpent
open BC.Gen.Fn
theorem C08.src_serpent_sbox_d5_eq (w : BC.Serpent.Words) :
    serpent_sbox_d5 w.w0 w.w1 w.w2 w.w3 = tup (BC.Serpent.sboxD5 w) :=
  _root_.BC.GenFuncs.Serpent.sbox_d5_eq w
end BC.GenFuncs.Serpent

namespace BC.GenFuncs.Serpent
open BC.Gen.Fn
theorem C08.src_serpent_sbox_d6_eq (w : BC.Serpent.Words) :
    serpent_sbox_d6 w.w0 w.w1 w.w2 w.w3 = tup (BC.Serpent.sboxD6 w) :=
  _root_.BC.GenFuncs.Serpent.sbox_d6_eq w
end BC.GenFuncs.Serpent

namespace BC.GenFuncs.Serpent
open BC.Gen.Fn
theorem C08.src_serpent_sbox_d7_eq (w : BC.Serpent.Words) :
    serpent_sbox_d7 w.w0 w.w1 w.w2 w.w3 = tup (BC.Serpent.sboxD7 w) :=
  _root_.BC.GenFuncs.Serpent.sbox_d7_eq w
end BC.GenFuncs.Serpent

namespace BC.GenFuncs.Serpent
open BC.Gen.Fn
theorem C08.src_serpent_linear_transform_eq (w : BC.Serpent.Words) :
    serpent_linear_transform w.w0 w.w1 w.w2 w.w3 = tup (BC.Serpent.linearTransform w) :=
  _root_.BC.GenFuncs.Serpent.linear_transform_eq w
end BC.GenFuncs.Serpent

namespace BC.GenFuncs.Serpent
open BC.Gen.Fn
theorem C08.src_serpent_linear_transform_inv_eq (w : BC.Serpent.Words) :
    serpent_linear_transform_inv w.w0 w.w1 w.w2 w.w3 = tup (BC.Serpent.linearTransformInv w) :=
  _root_.BC.GenFuncs.Serpent.linear_transform_inv_eq w
end BC.GenFuncs.Serpent

namespace BC.GenFuncs.Serpent
open BC.Gen.Fn
theorem C08.src_serpent_xor_eq (a k : BC.Serpent.Words) :
    serpent_xor a.w0 a.w1 a.w2 a.w3 k.w0 k.w1 k.w2 k.w3 = tup (BC.Serpent.xor a k) :=
  _root_.BC.GenFuncs.Serpent.xor_eq a k
end BC.GenFuncs.Serpent

namespace BC.GenFuncs.Serpent
open BC.Gen.Fn
theorem C08.src_serpent_read_words_eq (b : BitVec 128) :
    serpent_read_words b = tup (BC.Serpent.readWords b) :=
  _root_.BC.GenFuncs.Serpent.read_words_eq b
end BC.GenFuncs.Serpent

namespace BC.GenFuncs.Serpent
open BC.Gen.Fn
theorem C08.src_serpent_write_words_eq (w : BC.Serpent.Words) :
    serpent_write_words w.w0 w.w1 w.w2 w.w3 = BC.Serpent.writeWords w :=
  _root_.BC.GenFuncs.Serpent.write_words_eq w
end BC.GenFuncs.Serpent

namespace BC.GenTables
open BC.Gen
theorem C08.cast6_S1_eq : cast6_S1.toList = nats32 BC.Cast6.S1 :=
  _root_.BC.GenTables.cast6_S1_eq
end BC.GenTables

namespace BC.GenTables
open BC.Gen
theorem C08.cast6_S2_eq : cast6_S2.toList = nats32 BC.Cast6.S2 :=
  _root_.BC.GenTables.cast6_S2_eq
end BC.GenTables

namespace BC.GenTables
open BC.Gen
theorem C08.cast6_S3_eq : cast6_S3.toList = nats32 BC.Cast6.S3 :=
  _root_.BC.GenTables.cast6_S3_eq
end BC.GenTables

namespace BC.GenTables
open BC.Gen
theorem C08.cast6_S4_eq : cast6_S4.toList = nats32 BC.Cast6.S4 :=
  _root_.BC.GenTables.cast6_S4_eq
end BC.GenTables

namespace BC.GenTables
open BC.Gen
theorem C08.cast6_TM_eq : cast6_TM.toList = nats32 BC.Cast6.TM :=
  _root_.BC.GenTables.cast6_TM_eq
end BC.GenTables

namespace BC.GenTables
open BC.Gen
theorem C08.cast6_TR_eq : cast6_TR.toList = nats8 BC.Cast6.TR :=
  _root_.BC.GenTables.cast6_TR_eq
end BC.GenTables

namespace BC.GenTables
open BC.Gen
theorem C08.twofish_QORD_eq : twofish_QORD.toList = (BC.Twofish.QORD.toList.map Array.toList).flatten :=
  _root_.BC.GenTables.twofish_QORD_eq
end BC.GenTables

namespace BC.GenTables
open BC.Gen
theorem C08.twofish_QBOX_eq : twofish_QBOX.toList =
    ((BC.Twofish.QBOX.toList.map (fun q => (q.toList.map nats8).flatten))).flatten :=
  _root_.BC.GenTables.twofish_QBOX_eq
end BC.GenTables

namespace BC.GenTables
open BC.Gen
theorem C08.twofish_RS_eq : twofish_RS.toList = (BC.Twofish.RS.toList.map nats8).flatten :=
  _root_.BC.GenTables.twofish_RS_eq
end BC.GenTables

namespace BC.GenTables
open BC.Gen
theorem C08.twofish_MDS_POLY_eq : twofish_MDS_POLY = BC.Twofish.MDS_POLY.toNat :=
  _root_.BC.GenTables.twofish_MDS_POLY_eq
end BC.GenTables

namespace BC.GenTables
open BC.Gen
theorem C08.serpent_PHI_eq : serpent_PHI = BC.Serpent.PHI.toNat :=
  _root_.BC.GenTables.serpent_PHI_eq
end BC.GenTables

namespace BC.Serpent
open BC.Spec.Serpent
/-- Serpent as implemented = bitslice-mode Serpent of the submission, for every key of 16..32 bytes -/
theorem C08.serpent_encrypt_eq_spec (key : Bytes) (h1 : 16 ≤ key.length) (h2 : key.length ≤ 32) (blk : BitVec 128) :
    Serpent.encrypt (keySchedule key) blk = Spec.Serpent.encrypt key blk :=
  _root_.BC.Serpent.encrypt_eq_spec key h1 h2 blk
end BC.Serpent

namespace BC.Serpent
open BC.Spec.Serpent
theorem C08.serpent_decrypt_eq_spec (key : Bytes) (h1 : 16 ≤ key.length) (h2 : key.length ≤ 32) (blk : BitVec 128) :
    Serpent.decrypt (keySchedule key) blk = Spec.Serpent.decrypt key blk :=
  _root_.BC.Serpent.decrypt_eq_spec key h1 h2 blk
end BC.Serpent

namespace BC.Serpent
open BC.Spec.Serpent
theorem C08.expandKey_eq_padKey (key : Bytes) (h1 : 16 ≤ key.length) (h2 : key.length ≤ 32) :
    expandKey key (key.length * 8) = padKey key :=
  _root_.BC.Serpent.expandKey_eq_padKey key h1 h2
end BC.Serpent

namespace BC.Serpent
open BC.Spec.Serpent
/-- `expand_key` for the 16 short lengths 16..31: `key ++ [0x01] ++ zeros` -/
theorem C08.expandKey_short (key : Bytes) (h1 : 16 ≤ key.length) (h2 : key.length < 32) :
    expandKey key (key.length * 8) = key ++ 0x01#8 :: List.replicate (31 - key.length) 0x00#8 :=
  _root_.BC.Serpent.expandKey_short key h1 h2
end BC.Serpent

namespace BC.Serpent
open BC.Spec.Serpent
/-- `expand_key` for a 256-bit key: unchanged -/
theorem C08.expandKey_full (key : Bytes) (h : key.length = 32) : expandKey key (key.length * 8) = key :=
  _root_.BC.Serpent.expandKey_full key h
end BC.Serpent

namespace BC.Serpent
open BC.Spec.Serpent
/-- the guard of `new_from_slice` -/
theorem C08.serpent_accepts_iff (n : Nat) : accepts n = true ↔ 16 ≤ n ∧ n ≤ 32 :=
  _root_.BC.Serpent.accepts_iff n
end BC.Serpent

namespace BC.Serpent
theorem C08.encrypt_eq_encryptLoop (rk : RoundKeys) (blk : BitVec 128) : encrypt rk blk = encryptLoop rk blk :=
  _root_.BC.Serpent.encrypt_eq_encryptLoop rk blk
end BC.Serpent

namespace BC.Serpent
theorem C08.decrypt_eq_decryptLoop (rk : RoundKeys) (blk : BitVec 128) : decrypt rk blk = decryptLoop rk blk :=
  _root_.BC.Serpent.decrypt_eq_decryptLoop rk blk
end BC.Serpent

namespace BC.Twofish
open BC.Spec
/-- **Impl = Spec** (encryption): for every key of 16, 24 or 32 bytes and every block, the model of the Rust
`encrypt_block` is Twofish encryption as defined in the paper. -/
theorem C08.twofish_encrypt_eq_spec (key : Array (BitVec 8)) (hk : key.size = 16 ∨ key.size = 24 ∨ key.size = 32)
    (b : BitVec 128) : encrypt (keySchedule key) b = Spec.Twofish.encrypt key b :=
  _root_.BC.Twofish.encrypt_eq_spec key hk b
end BC.Twofish

namespace BC.Twofish
open BC.Spec
/-- **Impl = Spec** (decryption): the model of `decrypt_block` is the inverse of the paper's encryption. -/
theorem C08.decrypt_spec_encrypt (key : Array (BitVec 8)) (hk : key.size = 16 ∨ key.size = 24 ∨ key.size = 32)
    (b : BitVec 128) : decrypt (keySchedule key) (Spec.Twofish.encrypt key b) = b :=
  _root_.BC.Twofish.decrypt_spec_encrypt key hk b
end BC.Twofish

namespace BC.Twofish
open BC.Spec
theorem C08.spec_encrypt_decrypt (key : Array (BitVec 8)) (hk : key.size = 16 ∨ key.size = 24 ∨ key.size = 32)
    (b : BitVec 128) : Spec.Twofish.encrypt key (decrypt (keySchedule key) b) = b :=
  _root_.BC.Twofish.spec_encrypt_decrypt key hk b
end BC.Twofish

namespace BC.Twofish
open BC.Spec
theorem C08.sbox0_eq_q0 : ∀ x : BitVec 8, sbox 0 x = Spec.Twofish.q0 x :=
  _root_.BC.Twofish.sbox0_eq_q0
end BC.Twofish

namespace BC.Twofish
open BC.Spec
theorem C08.sbox1_eq_q1 : ∀ x : BitVec 8, sbox 1 x = Spec.Twofish.q1 x :=
  _root_.BC.Twofish.sbox1_eq_q1
end BC.Twofish

namespace BC.Cast6
open BC.Spec.Cast6
/-- CAST-256 as implemented = RFC 2612, for every key of 16/20/24/28/32 bytes -/
theorem C08.cast6_encrypt_eq_spec (key : Bytes) (h : accepts key.length = true) (blk : BitVec 128) :
    Cast6.encrypt (keySchedule key) blk = Spec.Cast6.encrypt key blk :=
  _root_.BC.Cast6.encrypt_eq_spec key h blk
end BC.Cast6

namespace BC.Cast6
open BC.Spec.Cast6
theorem C08.cast6_decrypt_eq_spec (key : Bytes) (h : accepts key.length = true) (blk : BitVec 128) :
    Cast6.decrypt (keySchedule key) blk = Spec.Cast6.decrypt key blk :=
  _root_.BC.Cast6.decrypt_eq_spec key h blk
end BC.Cast6

namespace BC.Cast6
open BC.Spec.Cast6
/-- the padded key is the key followed by zero bytes, 32 bytes in all -/
theorem C08.padKey_spec (key : Bytes) (h : accepts key.length = true) :
    padKey key = key ++ List.replicate (32 - key.length) 0#8 ∧ (padKey key).length = 32 :=
  _root_.BC.Cast6.padKey_spec key h
end BC.Cast6

namespace BC.Cast6
open BC.Spec.Cast6
/-- the five accepted lengths -/
theorem C08.cast6_accepts_iff (n : Nat) : accepts n = true ↔ n = 16 ∨ n = 20 ∨ n = 24 ∨ n = 28 ∨ n = 32 :=
  _root_.BC.Cast6.accepts_iff n
end BC.Cast6
