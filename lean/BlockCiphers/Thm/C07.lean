/-
C07 — theorem file (property theorems only).  Filled in as the models it needs are merged; see DESIGN §7 C07.
-/
namespace BC.Thm.C07
end BC.Thm.C07
