import BlockCiphers.Proofs.KuznyechikCompact
import BlockCiphers.Proofs.Kuznyechik
import BlockCiphers.Proofs.GenTables
import BlockCiphers.Proofs.MagmaSpec
import BlockCiphers.Proofs.BeltSpec
import BlockCiphers.Proofs.KuznyechikNeonModels
/-
C07 — Kuznyechik, Magma/GOST 28147-89 and BelT conform to their standards
GENERATED statement file (tools/gen_thm.py): every theorem below restates, verbatim, a theorem of a Proofs/ module
and is proved by applying it.  ONLY property theorems and non-vacuity examples live in Thm/.
Magma / Gost89 for ALL S-box sets (the set is a parameter, not required to be bijective) and BelT block: full.
Kuznyechik: all four backend models (compact, big_soft, SSE2, NEON) = GOST R 34.12-2015 (Spec/Kuznyechik.lean), both directions.
-/

namespace BC.Kuznyechik.Compact
open BC.Spec.Kuznyechik
/-- C07: the compact backend encrypts as GOST R 34.12-2015 §4.4.1, for every key and block -/
theorem C07.kuz_compact_encrypt_eq_spec (key : BitVec 256) (b : BitVec 128) :
    encrypt_block (expand key) b = Spec.Kuznyechik.encrypt key b :=
  _root_.BC.Kuznyechik.Compact.encrypt_eq_spec key b
end BC.Kuznyechik.Compact

namespace BC.Kuznyechik.Compact
open BC.Spec.Kuznyechik
/-- C07: the compact backend decrypts as GOST R 34.12-2015 §4.4.2, for every key and block -/
theorem C07.kuz_compact_decrypt_eq_spec (key : BitVec 256) (b : BitVec 128) :
    decrypt_block (expand key) b = Spec.Kuznyechik.decrypt key b :=
  _root_.BC.Kuznyechik.Compact.decrypt_eq_spec key b
end BC.Kuznyechik.Compact

namespace BC.Kuznyechik.Soft
open BC.Spec.Kuznyechik
theorem C07.kuz_soft_encrypt_eq_spec (key : BitVec 256) (b : BitVec 128) :
    encrypt_block (expand_enc_keys key) b = Spec.Kuznyechik.encrypt key b :=
  _root_.BC.Kuznyechik.Soft.encrypt_eq_spec key b
end BC.Kuznyechik.Soft

namespace BC.Kuznyechik.Sse2
open BC.Spec.Kuznyechik
theorem C07.kuz_sse2_encrypt_eq_spec (key : BitVec 256) (b : BitVec 128) :
    encrypt_block (expand_enc_keys key) b = Spec.Kuznyechik.encrypt key b :=
  _root_.BC.Kuznyechik.Sse2.encrypt_eq_spec key b
end BC.Kuznyechik.Sse2

namespace BC.Kuznyechik.Neon
open BC.Spec.Kuznyechik
theorem C07.kuz_neon_encrypt_eq_spec (key : BitVec 256) (b : BitVec 128) :
    encrypt_block (expand_enc_keys key) b = Spec.Kuznyechik.encrypt key b :=
  _root_.BC.Kuznyechik.Neon.encrypt_eq_spec key b
end BC.Kuznyechik.Neon

namespace BC.Kuznyechik.Soft
open BC.Spec.Kuznyechik
theorem C07.kuz_soft_decrypt_eq_spec (key : BitVec 256) (b : BitVec 128) :
    decrypt_block (inv_enc_keys (expand_enc_keys key)) b = Spec.Kuznyechik.decrypt key b :=
  _root_.BC.Kuznyechik.Soft.decrypt_eq_spec key b
end BC.Kuznyechik.Soft

namespace BC.Kuznyechik.Sse2
open BC.Spec.Kuznyechik
theorem C07.kuz_sse2_decrypt_eq_spec (key : BitVec 256) (b : BitVec 128) :
    decrypt_block (inv_enc_keys (expand_enc_keys key)) b = Spec.Kuznyechik.decrypt key b :=
  _root_.BC.Kuznyechik.Sse2.decrypt_eq_spec key b
end BC.Kuznyechik.Sse2

namespace BC.Kuznyechik.Neon
open BC.Spec.Kuznyechik
theorem C07.kuz_neon_decrypt_eq_spec (key : BitVec 256) (b : BitVec 128) :
    decrypt_block (inv_enc_keys (expand_enc_keys key)) b = Spec.Kuznyechik.decrypt key b :=
  _root_.BC.Kuznyechik.Neon.decrypt_eq_spec key b
end BC.Kuznyechik.Neon

namespace BC.GenTables
open BC.Gen
theorem C07.kuznyechik_P_eq : kuznyechik_P.toList = nats8 BC.Kuznyechik.P.toArray :=
  _root_.BC.GenTables.kuznyechik_P_eq
end BC.GenTables

namespace BC.GenTables
open BC.Gen
theorem C07.magma_Tc26_eq : magma_Tc26_SBOX.toList = sboxNats BC.Magma.Tc26 :=
  _root_.BC.GenTables.magma_Tc26_eq
end BC.GenTables

namespace BC.GenTables
open BC.Gen
theorem C07.magma_TestSbox_eq : magma_TestSbox_SBOX.toList = sboxNats BC.Magma.TestSbox :=
  _root_.BC.GenTables.magma_TestSbox_eq
end BC.GenTables

namespace BC.GenTables
open BC.Gen
theorem C07.magma_CryptoProA_eq : magma_CryptoProA_SBOX.toList = sboxNats BC.Magma.CryptoProA :=
  _root_.BC.GenTables.magma_CryptoProA_eq
end BC.GenTables

namespace BC.GenTables
open BC.Gen
theorem C07.magma_CryptoProB_eq : magma_CryptoProB_SBOX.toList = sboxNats BC.Magma.CryptoProB :=
  _root_.BC.GenTables.magma_CryptoProB_eq
end BC.GenTables

namespace BC.GenTables
open BC.Gen
theorem C07.magma_CryptoProC_eq : magma_CryptoProC_SBOX.toList = sboxNats BC.Magma.CryptoProC :=
  _root_.BC.GenTables.magma_CryptoProC_eq
end BC.GenTables

namespace BC.GenTables
open BC.Gen
theorem C07.magma_CryptoProD_eq : magma_CryptoProD_SBOX.toList = sboxNats BC.Magma.CryptoProD :=
  _root_.BC.GenTables.magma_CryptoProD_eq
end BC.GenTables

namespace BC.GenTables
open BC.Gen
theorem C07.belt_H5_eq : belt_block_H5.toList = nats32 BC.Belt.H5 :=
  _root_.BC.GenTables.belt_H5_eq
end BC.GenTables

namespace BC.GenTables
open BC.Gen
theorem C07.belt_H13_eq : belt_block_H13.toList = nats32 BC.Belt.H13 :=
  _root_.BC.GenTables.belt_H13_eq
end BC.GenTables

namespace BC.GenTables
open BC.Gen
theorem C07.belt_H21_eq : belt_block_H21.toList = nats32 BC.Belt.H21 :=
  _root_.BC.GenTables.belt_H21_eq
end BC.GenTables

namespace BC.GenTables
open BC.Gen
theorem C07.belt_H29_eq : belt_block_H29.toList = nats32 BC.Belt.H29 :=
  _root_.BC.GenTables.belt_H29_eq
end BC.GenTables

namespace BC.Magma
/-- C07 (Magma / GOST 28147-89): for EVERY S-box set, key and block the crate's encryption is the
32-round network `E` of the standard over that set -/
theorem C07.gost89_encrypt_eq_spec (sbox : SmallSbox) (key : BitVec 256) (b : BitVec 64) :
    encrypt sbox (new key) b = Spec.Magma.E sbox key b :=
  _root_.BC.Magma.encrypt_eq_spec sbox key b
end BC.Magma

namespace BC.Magma
theorem C07.gost89_decrypt_eq_spec (sbox : SmallSbox) (key : BitVec 256) (b : BitVec 64) :
    decrypt sbox (new key) b = Spec.Magma.D sbox key b :=
  _root_.BC.Magma.decrypt_eq_spec sbox key b
end BC.Magma

namespace BC.Magma
/-- every entry of the expanded table, for EVERY S-box set -/
theorem C07.genExpSbox_get (sbox : SmallSbox) (t : Fin 4 × Fin 16 × Fin 16) :
    expRd (genExpSbox sbox) (expPos t) = expVal sbox t :=
  _root_.BC.Magma.genExpSbox_get sbox t
end BC.Magma

namespace BC.Magma
/-- C07 for `Magma = Gost89<Tc26>` -/
theorem C07.magma_encrypt_eq_spec (key : BitVec 256) (b : BitVec 64) :
    encrypt Tc26 (new key) b = Spec.Magma.magmaE key b :=
  _root_.BC.Magma.magma_encrypt_eq_spec key b
end BC.Magma

namespace BC.Magma
theorem C07.magma_decrypt_eq_spec (key : BitVec 256) (b : BitVec 64) :
    decrypt Tc26 (new key) b = Spec.Magma.magmaD key b :=
  _root_.BC.Magma.magma_decrypt_eq_spec key b
end BC.Magma

namespace BC.Belt
/-- C07 (BelT): `BeltBlock::encrypt_block` (= `belt_block_raw` on the little-endian words) is belt-block
encryption of STB 34.101.31 §6.1.3, for every key and block -/
theorem C07.belt_encrypt_eq_spec (K : BitVec 256) (X : BitVec 128) :
    encrypt (new K) X = Spec.Belt.blockEnc K X :=
  _root_.BC.Belt.encrypt_eq_spec K X
end BC.Belt

namespace BC.Belt
/-- C07 (BelT): `BeltBlock::decrypt_block` is belt-block decryption of §6.1.4 -/
theorem C07.belt_decrypt_eq_spec (K : BitVec 256) (Y : BitVec 128) :
    decrypt (new K) Y = Spec.Belt.blockDec K Y :=
  _root_.BC.Belt.decrypt_eq_spec K Y
end BC.Belt

namespace BC.Models.KuznyechikNeon
open BC BC.Kuznyechik
/-- `NeonKuznyechik` = `Kuznyechik` of the registry, as values, for every key string -/
theorem C07.neon_new_eq (k : Bytes) : kuznyechik.new k = Models.Kuznyechik.kuznyechik.new k :=
  _root_.BC.Models.KuznyechikNeon.new_eq k
end BC.Models.KuznyechikNeon

namespace BC.Models.KuznyechikNeon
open BC BC.Kuznyechik
theorem C07.neon_newEnc_eq (k : Bytes) : kuznyechikEnc.new k = Models.Kuznyechik.kuznyechikEnc.new k :=
  _root_.BC.Models.KuznyechikNeon.newEnc_eq k
end BC.Models.KuznyechikNeon

namespace BC.Models.KuznyechikNeon
open BC BC.Kuznyechik
theorem C07.neon_newDec_eq (k : Bytes) : kuznyechikDec.new k = Models.Kuznyechik.kuznyechikDec.new k :=
  _root_.BC.Models.KuznyechikNeon.newDec_eq k
end BC.Models.KuznyechikNeon
