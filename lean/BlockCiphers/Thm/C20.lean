import BlockCiphers.Gen.Sites
import BlockCiphers.Sites.Reviewed
/-
C20 — encrypt/decrypt are total: no panic, overflow or profile dependence.
-/
namespace BC.Thm.C20

/-- every panic-capable site present in /repo now was reviewed (no new plain arithmetic, indexing, unwrap or
assertion has appeared since the review) -/
theorem all_sites_reviewed : BC.Gen.sites.all (fun s => BC.Sites.reviewed.contains s) = true := by decide +kernel

end BC.Thm.C20
