/-
C20 — theorem file (property theorems only).  Filled in as the models it needs are merged; see DESIGN §7 C20.
-/
namespace BC.Thm.C20
end BC.Thm.C20
