import BlockCiphers.Proofs.Sites
import BlockCiphers.Proofs.IdeaC20
import BlockCiphers.Proofs.IdeaInv
import BlockCiphers.Proofs.TwofishC20
import BlockCiphers.Proofs.AriaDiffuse
import BlockCiphers.Proofs.BeltSpec
import BlockCiphers.Proofs.CamelliaSpec
import BlockCiphers.Proofs.Cast6
import BlockCiphers.Proofs.Gift
import BlockCiphers.Proofs.Rc5Spec
import BlockCiphers.Proofs.SerpentSpec
import BlockCiphers.Proofs.Sm4Spec
import BlockCiphers.Proofs.MagmaSpec
import BlockCiphers.Proofs.DesSpecSbox
/-
C20 — encrypt/decrypt are total: no panic, overflow or profile dependence
GENERATED statement file (tools/gen_thm.py): every theorem below restates, verbatim, a theorem of a Proofs/ module
and is proved by applying it.  ONLY property theorems and non-vacuity examples live in Thm/.
(1) the inventory theorem: every panic-capable site of /repo (re-extracted now) is in the reviewed list; (2) the no-overflow / in-range lemmas
of the data-dependent sites: IDEA (mul, add, key rotation, mul_inv Euclid loop with every dev-profile panic made explicit, for all 65536 operands),
Twofish, ARIA/Camellia carry-free products, BelT/CAST-256/SM4/Magma/DES table indices, RC5 key_into_words and table indices (all w, r, b),
Serpent padding index, GIFT ror shift amounts.  Sites that depend on loop counters and constants only are executed identically on every call:
the dev-profile run of the correspondence covers them exhaustively.
-/

namespace BC.Sites
/-- soundness of the merge: whatever the order of the lists, `true` means inclusion -/
theorem C20.subsetSorted_sound : ∀ (f : Nat) (a b : List Site), subsetSorted f a b = true → ∀ x ∈ a, x ∈ b :=
  _root_.BC.Sites.subsetSorted_sound
end BC.Sites

namespace BC.Sites
theorem C20.sites_merge : subsetSorted (BC.Gen.sites.length + reviewed.length) BC.Gen.sites reviewed = true :=
  _root_.BC.Sites.sites_merge
end BC.Sites

namespace BC.Sites
/-- every panic-capable site present in /repo now was reviewed (no new plain arithmetic, indexing, unwrap or
assertion has appeared since the review) -/
theorem C20.all_sites_reviewed : ∀ s ∈ BC.Gen.sites, s ∈ reviewed :=
  _root_.BC.Sites.all_sites_reviewed
end BC.Sites

namespace BC.Sites
/-- non-vacuity: the inventory is not empty (≈ 980 sites at the pinned commit) -/
theorem C20.sites_nonempty : 900 < BC.Gen.sites.length :=
  _root_.BC.Sites.sites_nonempty
end BC.Sites

namespace BC.Idea
/-- expand_key: `(u16::from(key[2*i]) << 8) + u16::from(key[2*i+1])` -/
theorem C20.c20_expand_bytes (hi lo : BitVec 8) :
    BitVec.uaddOverflow (hi.setWidth 16 <<< 8 : BitVec 16) (lo.setWidth 16) = false :=
  _root_.BC.Idea.c20_expand_bytes hi lo
end BC.Idea

namespace BC.Idea
/-- expand_key: the subtractions `i - 15`, `i - 7`, `i - 14`, `i - 6` do not underflow and read entries that
were written before (`< i`), for `8 ≤ i < 52` -/
theorem C20.c20_expand_idx (i : Nat) (h8 : 8 ≤ i) (h : i < 52) :
    ((i + 1) % 8 = 0 → 15 ≤ i) ∧ 7 ≤ i ∧ ((i + 2) % 8 < 2 → 14 ≤ i) ∧ 6 ≤ i ∧
    expandIdxA i < i ∧ expandIdxB i < i :=
  _root_.BC.Idea.c20_expand_idx i h8 h
end BC.Idea

namespace BC.Idea
/-- expand_key: `(a << 9) + (b >> 7)` -/
theorem C20.c20_expand_rot (a b : BitVec 16) : BitVec.uaddOverflow (a <<< 9) (b >>> 7) = false :=
  _root_.BC.Idea.c20_expand_rot a b
end BC.Idea

namespace BC.Idea
/-- invert_sub_keys: `k - j`, `l + m`, `l + n`, `l + 3`, `j + 3` (first loop), `l + 5`, `j + 5` (second loop) -/
theorem C20.c20_invert_idx (i : Nat) :
    (i ≤ ROUNDS → i * 6 ≤ ROUNDS * 6 ∧ ROUNDS * 6 - i * 6 + 3 < 52 ∧ i * 6 + 3 < 52) ∧
    (i < ROUNDS → i * 6 ≤ (ROUNDS - 1) * 6 ∧ (ROUNDS - 1) * 6 - i * 6 + 5 < 52 ∧ i * 6 + 5 < 52) :=
  _root_.BC.Idea.c20_invert_idx i
end BC.Idea

namespace BC.Idea
/-- crypt: `sub_keys[j .. j + 5]`, `j = i * 6`, `i < 8` -/
theorem C20.c20_crypt_idx (i : Nat) (h : i < ROUNDS) : i * 6 + 5 < LENGTH_SUB_KEYS :=
  _root_.BC.Idea.c20_crypt_idx i h
end BC.Idea

namespace BC.Idea
/-- mul: `MAXIM - y`, `MAXIM - x` -/
theorem C20.c20_mul_maxim_sub (y : BitVec 16) : BitVec.usubOverflow MAXIM (y.setWidth 32) = false :=
  _root_.BC.Idea.c20_mul_maxim_sub y
end BC.Idea

namespace BC.Idea
/-- mul: `x * y` in `u32` -/
theorem C20.c20_mul_prod (a b : BitVec 16) :
    BitVec.umulOverflow (a.setWidth 32 : BitVec 32) (b.setWidth 32) = false :=
  _root_.BC.Idea.c20_mul_prod a b
end BC.Idea

namespace BC.Idea
/-- mul: `((c & ONE) as i32) - ((c >> 16) as i32)` -/
theorem C20.c20_mul_i32_sub (c : BitVec 32) : BitVec.ssubOverflow (c &&& ONE) (c >>> 16) = false :=
  _root_.BC.Idea.c20_mul_i32_sub c
end BC.Idea

namespace BC.Idea
/-- mul: `r += MAXIM as i32` (executed when `r < 0`) -/
theorem C20.c20_mul_i32_add (c : BitVec 32) (h : ((c &&& ONE) - (c >>> 16)).slt 0#32 = true) :
    BitVec.saddOverflow ((c &&& ONE) - (c >>> 16)) MAXIM = false :=
  _root_.BC.Idea.c20_mul_i32_add c h
end BC.Idea

namespace BC.Idea
/-- add: `u32::from(a) + u32::from(b)` -/
theorem C20.c20_add (a b : BitVec 16) :
    BitVec.uaddOverflow (a.setWidth 32 : BitVec 32) (b.setWidth 32) = false :=
  _root_.BC.Idea.c20_add a b
end BC.Idea

namespace BC.Idea
/-- add_inv: `FUYI - u32::from(a)` -/
theorem C20.c20_add_inv (a : BitVec 16) : BitVec.usubOverflow FUYI (a.setWidth 32) = false :=
  _root_.BC.Idea.c20_add_inv a
end BC.Idea

namespace BC.Idea
/-- C20-SITE `mul_inv`: no panic site is reached and the loop ends, for every `a`. -/
theorem C20.mulInvChecked_eq (a : BitVec 16) : mulInvChecked a = some (mulInv a) :=
  _root_.BC.Idea.mulInvChecked_eq a
end BC.Idea

namespace BC.Twofish
/-- `QBOX[i]` with `i = QORD[y][z]`: the entries of `QORD` are 0 or 1 -/
theorem C20.c20_qord_lt : ∀ (y : Fin 4) (z : Fin 5), qord y.val z.val < 2 :=
  _root_.BC.Twofish.c20_qord_lt
end BC.Twofish

namespace BC.Twofish
/-- sbox: the four table indices `a1, b1, a3, b3` are `< 16` (for both tables, all 256 inputs) -/
theorem C20.c20_sbox_idx : ∀ (i : Fin 2) (x : BitVec 8),
    (sboxTrace i.val x).a1.toNat < 16 ∧ (sboxTrace i.val x).b1.toNat < 16 ∧
    (sboxTrace i.val x).a3.toNat < 16 ∧ (sboxTrace i.val x).b3.toNat < 16 :=
  _root_.BC.Twofish.c20_sbox_idx
end BC.Twofish

namespace BC.Twofish
/-- sbox: `(b4 << 4) + a4` does not overflow `u8` (for both tables, all 256 inputs) -/
theorem C20.c20_sbox_add : ∀ (i : Fin 2) (x : BitVec 8),
    BitVec.uaddOverflow ((sboxTrace i.val x).b4 <<< 4) (sboxTrace i.val x).a4 = false :=
  _root_.BC.Twofish.c20_sbox_add
end BC.Twofish

namespace BC.Twofish
/-- h: the byte indices into the key, `offset ≤ 1`, key length `8 k` -/
theorem C20.c20_h_idx (k offset : Nat) (ho : offset ≤ 1) (hk : k = 2 ∨ k = 3 ∨ k = 4) :
    (k = 4 → 4 * (6 + offset) + 3 < 8 * k) ∧ (k ≥ 3 → 4 * (4 + offset) + 3 < 8 * k) ∧
    4 * (2 + offset) + 3 < 8 * k ∧ 4 * offset + 3 < 8 * k :=
  _root_.BC.Twofish.c20_h_idx k offset ho hk
end BC.Twofish

namespace BC.Twofish
/-- g_func: `self.s[4 * (z - self.start - 1) + y]` for `start < z < 5`, `y < 4` -/
theorem C20.c20_g_idx (start z y : Nat) (hs : start ≤ 2) (hz1 : start + 1 ≤ z) (hz : z < 5) (hy : y < 4) :
    start + 1 ≤ z ∧ 4 * (z - start - 1) + y < 16 :=
  _root_.BC.Twofish.c20_g_idx start z y hs hz1 hz hy
end BC.Twofish

namespace BC.Twofish
/-- g_func: `x >> (8 * y)` -/
theorem C20.c20_g_shift (y : Nat) (hy : y < 4) : 8 * y < 32 :=
  _root_.BC.Twofish.c20_g_shift y hy
end BC.Twofish

namespace BC.Twofish
/-- key_schedule: `rho * (2 * x)` and `rho * (2 * x + 1)` in `u32`, `x < 20` -/
theorem C20.c20_rho (x : Nat) (hx : x < 20) :
    2 * x + 1 < 2 ^ 32 ∧ rho.toNat * (2 * x) < 2 ^ 32 ∧ rho.toNat * (2 * x + 1) < 2 ^ 32 :=
  _root_.BC.Twofish.c20_rho x hx
end BC.Twofish

namespace BC.Twofish
/-- key_schedule: `self.k[2 * x]`, `self.k[2 * x + 1]` -/
theorem C20.c20_ks_idx (x : Nat) (hx : x < 20) : 2 * x + 1 < 40 :=
  _root_.BC.Twofish.c20_ks_idx x hx
end BC.Twofish

namespace BC.Twofish
/-- key_schedule: `key[i*8..i*8+8]` and `self.s[i*4..(i+1)*4]` for `i < k = len / 8` -/
theorem C20.c20_ks_slices (len i : Nat) (hl : len = 16 ∨ len = 24 ∨ len = 32) (hi : i < len / 8) :
    i * 8 + 8 ≤ len ∧ (i + 1) * 4 ≤ 16 :=
  _root_.BC.Twofish.c20_ks_slices len i hl hi
end BC.Twofish

namespace BC.Twofish
/-- encrypt_block / decrypt_block: `self.k[4 * r + 8 .. 4 * r + 11]` -/
theorem C20.c20_round_idx (r : Nat) (hr : r < 8) : 4 * r + 8 + 3 < 40 :=
  _root_.BC.Twofish.c20_round_idx r hr
end BC.Twofish

namespace BC.Aria
open BC.Spec.Aria (A concat byteOf)
/-- C20: none of the sixteen products of `diffuse` overflows a `u128`: a constant whose bytes are 0/1
times a byte value ≤ 255 is at most `0x01…01 * 255 = 0xff…ff`. -/
theorem C20.diffuse_mul_no_overflow (b : BitVec 8) :
    ∀ c ∈ DIFFUSE_CONSTS, c.toNat * b.toNat < 2 ^ 128 :=
  _root_.BC.Aria.diffuse_mul_no_overflow b
end BC.Aria

namespace BC.Belt
/-- C20: the four table indices of `g!` are < 256 -/
theorem C20.g_index_lt (u : BitVec 32) :
    ((u >>> 24) &&& 0xFF#32).toNat < 256 ∧ ((u >>> 16) &&& 0xFF#32).toNat < 256 ∧
    ((u >>> 8) &&& 0xFF#32).toNat < 256 ∧ (u &&& 0xFF#32).toNat < 256 :=
  _root_.BC.Belt.g_index_lt u
end BC.Belt

namespace BC.Camellia
open BC.Spec.Camellia (F FL FLINV hi64 lo64 join rotHi rotLo computeKA computeKB Subkeys subkeys128
  subkeys256 MASK8 MASK32 MASK64 sbox1 sbox2 sbox3 sbox4)
/-- C20: none of the eight products of `f` overflows a `u64` (dev-profile `*` does not panic) -/
theorem C20.f_mul_no_overflow (t : BitVec 8) :
    0x0101010001000001 * t.toNat < 2 ^ 64 ∧ 0x0001010101010000 * t.toNat < 2 ^ 64 ∧
    0x0100010100010100 * t.toNat < 2 ^ 64 ∧ 0x0101000100000101 * t.toNat < 2 ^ 64 ∧
    0x0001010100010101 * t.toNat < 2 ^ 64 ∧ 0x0100010101000101 * t.toNat < 2 ^ 64 ∧
    0x0101000101010001 * t.toNat < 2 ^ 64 ∧ 0x0101010001010100 * t.toNat < 2 ^ 64 :=
  _root_.BC.Camellia.f_mul_no_overflow t
end BC.Camellia

namespace BC.Cast6
/-- the four indices used by `f1!/f2!/f3!` are below 256 -/
theorem C20.sb_index_lt (i : BitVec 32) :
    (i >>> 24).toNat < 256 ∧ ((i >>> 16) &&& 0xff#32).toNat < 256 ∧
    ((i >>> 8) &&& 0xff#32).toNat < 256 ∧ (i &&& 0xff#32).toNat < 256 :=
  _root_.BC.Cast6.sb_index_lt i
end BC.Cast6

namespace BC.Gift
/-- every amount `y` with `0 < y < 32` keeps both shifts of `ror` in range (`y < 32` and `32 - y < 32`) and the
subtraction from underflowing; the call sites use `y ∈ {8, 16, 20, 24}` -/
theorem C20.ror_shift_amounts_in_range : ∀ y ∈ [8, 16, 20, 24], 0 < y ∧ y < 32 ∧ 32 - y < 32 ∧ y ≤ 32 :=
  _root_.BC.Gift.ror_shift_amounts_in_range
end BC.Gift

namespace BC.Gift
/-- for in-range amounts the shift formula is the rotation -/
theorem C20.ror_eq_rotateRight (x : BitVec 32) (y : Nat) (_h0 : 0 < y) (h1 : y < 32) : ror x y = x.rotateRight y :=
  _root_.BC.Gift.ror_eq_rotateRight x y _h0 h1
end BC.Gift

namespace BC.Rc5
open BC
theorem C20.kiw_index_lt {w : Nat} (h8 : 8 ≤ w) (b i : Nat) (hi : i < b) : i / wordBytes w < keyWords w b :=
  _root_.BC.Rc5.kiw_index_lt h8 b i hi
end BC.Rc5

namespace BC.Rc5
open BC
/-- **C20** (`key_into_words`, the plain `+`): for every key, no addition overflows -/
theorem C20.keyIntoWords_no_overflow {w : Nat} (hw : w % 8 = 0) (h8 : 8 ≤ w) (key : Bytes) :
    KiwNoOverflow w key key.length (Array.replicate (keyWords w key.length) 0) :=
  _root_.BC.Rc5.keyIntoWords_no_overflow hw h8 key
end BC.Rc5

namespace BC.Rc5
open BC
theorem C20.enc_index_lt (r i : Nat) (hi : i ≤ r) : 2 * i + 1 < tableSize r :=
  _root_.BC.Rc5.enc_index_lt r i hi
end BC.Rc5

namespace BC.Serpent
open BC.Spec.Serpent
/-- `key[byte_i]` and `1 << bit_i` in `expand_key` are in range whenever they are executed -/
theorem C20.expandKey_byte_index_lt (lenBits : Nat) (h : lenBits < 256) : lenBits / 8 < 32 ∧ lenBits % 8 < 8 :=
  _root_.BC.Serpent.expandKey_byte_index_lt lenBits h
end BC.Serpent

namespace BC.Sm4
open BC.Spec
/-- every S-box look-up is in range -/
theorem C20.sm4_sbox_index_lt (b : BitVec 8) : b.toNat < SBOX.size :=
  _root_.BC.Sm4.sbox_index_lt b
end BC.Sm4

namespace BC.Magma
/-- C20: the index of `apply_sbox` is < 256 -/
theorem C20.sboxIndex_lt (a : BitVec 32) (i : Fin 4) : (sboxIndex a i).toNat < 256 :=
  _root_.BC.Magma.sboxIndex_lt a i
end BC.Magma

namespace BC.Magma
/-- `u8` sum of a nibble and a shifted nibble = concatenation (C20: no overflow) -/
theorem C20.pair_nibbles (lo hi : BitVec 4) : lo.setWidth 8 + (hi.setWidth 8 <<< 4) = hi ++ lo :=
  _root_.BC.Magma.pair_nibbles lo hi
end BC.Magma

namespace BC.Des
open BC.Spec.Des (S sboxes)
/-- every table entry is below 16 (so `<< (60 - 4 i)` loses nothing and the boxes do not overlap) -/
theorem C20.sboxAt_lt : ∀ i : Fin 8, ∀ v : BitVec 6, sboxAt i.val (v.setWidth 64) < 16#64 :=
  _root_.BC.Des.sboxAt_lt
end BC.Des

namespace BC.Des
open BC.Spec.Des (S sboxes)
/-- each inner array has 64 entries: the index `val & 0x3F` is always in range (C20) -/
theorem C20.SBOXES_inner_size : ∀ i : Fin 8, (SBOXES.getD i.val #[]).size = 64 :=
  _root_.BC.Des.SBOXES_inner_size
end BC.Des
