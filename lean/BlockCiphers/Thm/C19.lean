import BlockCiphers.Gen.Decls
/-
C19 — Debug / AlgorithmName output is key independent and names the algorithm.
The statements are over `Gen.fmtImpls`, which the translator re-extracts from /repo on every run:
they are theorems about the text that is in the repository now.  The concrete strings each type
prints are additionally compared with the model's strings by the correspondence (`debug`, `algname`
lines) and with the expected identifiers by the direct oracle of the check.
-/
namespace BC.Thm.C19
open BC.Gen

def lower (s : String) : String := s.map Char.toLower

/-- the identifier a `Debug` impl for source type text `ty` must start with -/
def baseIdent (ty : String) : String := ty

/-- does the impl name its own type?
 * macro-generated impls (`$name`): the output is `concat!(stringify!($name), …)` / `stringify!($name)`
 * `Gost89<S>`: `Magma` for the Tc26 set, otherwise `Gost89<` ++ S::NAME ++ `>`
 * `RC5<W, R, B>`: the format string `RC5 - {}/{}/{}` fed with the word type name, `R`, and `B`
 * everything else: a literal that starts (case-insensitively) with the type text (`Blowfish<BE>`, `Xtea`~`XTEA`). -/
def namesOwnType (e : FmtImpl) : Bool :=
  if e.ty.startsWith "$" then e.usesStringify
  else if e.ty.startsWith "Gost89<" then
    (e.literals == ["Tc26", "Magma { ... }", "Gost89<", "> { ... }"] && e.kind == "Debug") ||
    (e.literals == ["Tc26", "Magma", "Gost89<", ">"] && e.kind == "AlgorithmName")
  else if e.ty.startsWith "RC5<" then
    (e.literals == ["RC5 - {}/{}/{} {{ ... }}"] || e.literals == ["RC5 - {}/{}/{}"]) &&
      e.usesTypeName && e.unsignedArgs == ["R", "B"]
  else if e.kind == "AlgorithmName" && e.ty.startsWith "Kuznyechik" then
    e.literals == ["Kuznyechik"]
  else e.literals.any (fun l => (lower l).startsWith (lower (baseIdent e.ty)))

/-- (a) no `Debug::fmt` body reads `self`: the output cannot depend on the key. -/
theorem debug_never_reads_self : ∀ e ∈ fmtImpls, e.kind = "Debug" → e.readsSelf = false := by decide +kernel

/-- `write_alg_name` is an associated function without `self`; its body never mentions one either. -/
theorem algname_never_reads_self : ∀ e ∈ fmtImpls, e.kind = "AlgorithmName" → e.readsSelf = false := by decide +kernel

/-- (b) every `Debug` impl names its own type. -/
theorem debug_names_own_type : ∀ e ∈ fmtImpls, e.kind = "Debug" → namesOwnType e = true := by decide +kernel

/-- (c) every `AlgorithmName` impl names the algorithm with its parameters (variant / key size are part
of the identifier; RC5 prints word type, rounds `R` and key length `B`). -/
theorem algname_names_algorithm : ∀ e ∈ fmtImpls, e.kind = "AlgorithmName" → namesOwnType e = true := by decide +kernel

/-- the extraction saw every crate's impls (83 at the pinned commit; never fewer than one per crate). -/
theorem impls_present : ∀ c ∈ ["aes", "aria", "belt-block", "blowfish", "camellia", "cast5", "cast6", "des", "gift",
    "idea", "kuznyechik", "magma", "rc2", "rc5", "serpent", "sm4", "speck", "threefish", "twofish", "xtea"],
    (fmtImpls.any (fun e => e.crate == c && e.kind == "AlgorithmName")) = true := by decide +kernel

/-- non-vacuity: the predicate rejects the two defects that were fixed (D2, D3 of DESIGN §8). -/
def d2 : FmtImpl := ⟨"des", "TdesEde3", "Debug", false, ["TdesEee3 { ... }"], false, false, []⟩
def d3 : FmtImpl := ⟨"rc5", "RC5<W, R, B>", "Debug", false, ["RC5 - {}/{}/{} {{ ... }}"], false, true, ["R", "R"]⟩
example : namesOwnType d2 = false := by decide +kernel
example : namesOwnType d3 = false := by decide +kernel
end BC.Thm.C19
