/-
C06 — theorem file (property theorems only).  Filled in as the models it needs are merged; see DESIGN §7 C06.
-/
namespace BC.Thm.C06
end BC.Thm.C06
