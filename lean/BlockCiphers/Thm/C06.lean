import BlockCiphers.Proofs.GenTables
import BlockCiphers.Proofs.AriaSpec
import BlockCiphers.Proofs.CamelliaSpec
import BlockCiphers.Proofs.Sm4Spec
/-
C06 — ARIA, Camellia and SM4 conform to RFC 5794, RFC 3713 and GB/T 32907
GENERATED statement file (tools/gen_thm.py): every theorem below restates, verbatim, a theorem of a Proofs/ module
and is proved by applying it.  ONLY property theorems and non-vacuity examples live in Thm/.
-/

namespace BC.GenTables
open BC.Gen
theorem C06.aria_SB1_eq : aria_SB1.toList = nats8 BC.Aria.SB1T :=
  _root_.BC.GenTables.aria_SB1_eq
end BC.GenTables

namespace BC.GenTables
open BC.Gen
theorem C06.aria_SB2_eq : aria_SB2.toList = nats8 BC.Aria.SB2T :=
  _root_.BC.GenTables.aria_SB2_eq
end BC.GenTables

namespace BC.GenTables
open BC.Gen
theorem C06.aria_SB3_eq : aria_SB3.toList = nats8 BC.Aria.SB3T :=
  _root_.BC.GenTables.aria_SB3_eq
end BC.GenTables

namespace BC.GenTables
open BC.Gen
theorem C06.aria_SB4_eq : aria_SB4.toList = nats8 BC.Aria.SB4T :=
  _root_.BC.GenTables.aria_SB4_eq
end BC.GenTables

namespace BC.GenTables
open BC.Gen
theorem C06.aria_DIFFUSE_CONSTS_eq : aria_DIFFUSE_CONSTS.toList = BC.Aria.DIFFUSE_CONSTS.map BitVec.toNat :=
  _root_.BC.GenTables.aria_DIFFUSE_CONSTS_eq
end BC.GenTables

namespace BC.GenTables
open BC.Gen
theorem C06.aria_C_eq : [aria_C1, aria_C2, aria_C3] = [BC.Aria.C1, BC.Aria.C2, BC.Aria.C3].map BitVec.toNat :=
  _root_.BC.GenTables.aria_C_eq
end BC.GenTables

namespace BC.GenTables
open BC.Gen
theorem C06.camellia_SBOXES_eq : camellia_SBOXES.toList =
    nats8 BC.Camellia.SBOX1 ++ nats8 BC.Camellia.SBOX2 ++ nats8 BC.Camellia.SBOX3 ++ nats8 BC.Camellia.SBOX4 :=
  _root_.BC.GenTables.camellia_SBOXES_eq
end BC.GenTables

namespace BC.GenTables
open BC.Gen
theorem C06.camellia_SIGMAS_eq : camellia_SIGMAS.toList =
    [BC.Camellia.SIGMA0, BC.Camellia.SIGMA1, BC.Camellia.SIGMA2, BC.Camellia.SIGMA3, BC.Camellia.SIGMA4, BC.Camellia.SIGMA5].map BitVec.toNat :=
  _root_.BC.GenTables.camellia_SIGMAS_eq
end BC.GenTables

namespace BC.GenTables
open BC.Gen
theorem C06.sm4_SBOX_eq : sm4_SBOX.toList = nats8 BC.Sm4.SBOX :=
  _root_.BC.GenTables.sm4_SBOX_eq
end BC.GenTables

namespace BC.GenTables
open BC.Gen
theorem C06.sm4_FK_eq : sm4_FK.toList = nats32 BC.Sm4.FK :=
  _root_.BC.GenTables.sm4_FK_eq
end BC.GenTables

namespace BC.GenTables
open BC.Gen
theorem C06.sm4_CK_eq : sm4_CK.toList = nats32 BC.Sm4.CK :=
  _root_.BC.GenTables.sm4_CK_eq
end BC.GenTables

namespace BC.Aria
open BC.Spec.Aria (A SL1 SL2 FO FE concat byteOf)
theorem C06.encrypt128_eq_spec (K b : BitVec 128) : encrypt128 K b = Spec.Aria.encrypt128 K b :=
  _root_.BC.Aria.encrypt128_eq_spec K b
end BC.Aria

namespace BC.Aria
open BC.Spec.Aria (A SL1 SL2 FO FE concat byteOf)
theorem C06.decrypt128_eq_spec (K b : BitVec 128) : decrypt128 K b = Spec.Aria.decrypt128 K b :=
  _root_.BC.Aria.decrypt128_eq_spec K b
end BC.Aria

namespace BC.Aria
open BC.Spec.Aria (A SL1 SL2 FO FE concat byteOf)
theorem C06.encrypt192_eq_spec (K : BitVec 192) (b : BitVec 128) : encrypt192 K b = Spec.Aria.encrypt192 K b :=
  _root_.BC.Aria.encrypt192_eq_spec K b
end BC.Aria

namespace BC.Aria
open BC.Spec.Aria (A SL1 SL2 FO FE concat byteOf)
theorem C06.decrypt192_eq_spec (K : BitVec 192) (b : BitVec 128) : decrypt192 K b = Spec.Aria.decrypt192 K b :=
  _root_.BC.Aria.decrypt192_eq_spec K b
end BC.Aria

namespace BC.Aria
open BC.Spec.Aria (A SL1 SL2 FO FE concat byteOf)
theorem C06.encrypt256_eq_spec (K : BitVec 256) (b : BitVec 128) : encrypt256 K b = Spec.Aria.encrypt256 K b :=
  _root_.BC.Aria.encrypt256_eq_spec K b
end BC.Aria

namespace BC.Aria
open BC.Spec.Aria (A SL1 SL2 FO FE concat byteOf)
theorem C06.decrypt256_eq_spec (K : BitVec 256) (b : BitVec 128) : decrypt256 K b = Spec.Aria.decrypt256 K b :=
  _root_.BC.Aria.decrypt256_eq_spec K b
end BC.Aria

namespace BC.Camellia
open BC.Spec.Camellia (F FL FLINV hi64 lo64 join rotHi rotLo computeKA computeKB Subkeys subkeys128
  subkeys256 MASK8 MASK32 MASK64 sbox1 sbox2 sbox3 sbox4)
theorem C06.camellia_encrypt128_eq_spec (K b : BitVec 128) : encrypt128 K b = Spec.Camellia.encrypt128 K b :=
  _root_.BC.Camellia.encrypt128_eq_spec K b
end BC.Camellia

namespace BC.Camellia
open BC.Spec.Camellia (F FL FLINV hi64 lo64 join rotHi rotLo computeKA computeKB Subkeys subkeys128
  subkeys256 MASK8 MASK32 MASK64 sbox1 sbox2 sbox3 sbox4)
theorem C06.camellia_decrypt128_eq_spec (K b : BitVec 128) : decrypt128 K b = Spec.Camellia.decrypt128 K b :=
  _root_.BC.Camellia.decrypt128_eq_spec K b
end BC.Camellia

namespace BC.Camellia
open BC.Spec.Camellia (F FL FLINV hi64 lo64 join rotHi rotLo computeKA computeKB Subkeys subkeys128
  subkeys256 MASK8 MASK32 MASK64 sbox1 sbox2 sbox3 sbox4)
theorem C06.camellia_encrypt192_eq_spec (K : BitVec 192) (b : BitVec 128) : encrypt192 K b = Spec.Camellia.encrypt192 K b :=
  _root_.BC.Camellia.encrypt192_eq_spec K b
end BC.Camellia

namespace BC.Camellia
open BC.Spec.Camellia (F FL FLINV hi64 lo64 join rotHi rotLo computeKA computeKB Subkeys subkeys128
  subkeys256 MASK8 MASK32 MASK64 sbox1 sbox2 sbox3 sbox4)
theorem C06.camellia_decrypt192_eq_spec (K : BitVec 192) (b : BitVec 128) : decrypt192 K b = Spec.Camellia.decrypt192 K b :=
  _root_.BC.Camellia.decrypt192_eq_spec K b
end BC.Camellia

namespace BC.Camellia
open BC.Spec.Camellia (F FL FLINV hi64 lo64 join rotHi rotLo computeKA computeKB Subkeys subkeys128
  subkeys256 MASK8 MASK32 MASK64 sbox1 sbox2 sbox3 sbox4)
theorem C06.camellia_encrypt256_eq_spec (K : BitVec 256) (b : BitVec 128) : encrypt256 K b = Spec.Camellia.encrypt256 K b :=
  _root_.BC.Camellia.encrypt256_eq_spec K b
end BC.Camellia

namespace BC.Camellia
open BC.Spec.Camellia (F FL FLINV hi64 lo64 join rotHi rotLo computeKA computeKB Subkeys subkeys128
  subkeys256 MASK8 MASK32 MASK64 sbox1 sbox2 sbox3 sbox4)
theorem C06.camellia_decrypt256_eq_spec (K : BitVec 256) (b : BitVec 128) : decrypt256 K b = Spec.Camellia.decrypt256 K b :=
  _root_.BC.Camellia.decrypt256_eq_spec K b
end BC.Camellia

namespace BC.Sm4
open BC.Spec
/-- C06 (SM4): the crate's encryption is GB/T 32907-2016 encryption, for every key and block -/
theorem C06.sm4_encrypt_eq_spec (MK X : BitVec 128) : encrypt (new MK) X = Spec.Sm4.encrypt MK X :=
  _root_.BC.Sm4.encrypt_eq_spec MK X
end BC.Sm4

namespace BC.Sm4
open BC.Spec
/-- C06 (SM4): the crate's decryption is GB/T 32907-2016 decryption -/
theorem C06.sm4_decrypt_eq_spec (MK Y : BitVec 128) : decrypt (new MK) Y = Spec.Sm4.decrypt MK Y :=
  _root_.BC.Sm4.decrypt_eq_spec MK Y
end BC.Sm4

namespace BC.Sm4
open BC.Spec
/-- `CK[i]` bytes are `(4i + j) · 7 mod 256` -/
theorem C06.CK_eq : ∀ i : Fin 32, CK.getD i.val 0 = Spec.Sm4.CK i.val :=
  _root_.BC.Sm4.CK_eq
end BC.Sm4
