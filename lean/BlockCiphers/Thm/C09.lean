/-
C09 — theorem file (property theorems only).  Filled in as the models it needs are merged; see DESIGN §7 C09.
-/
namespace BC.Thm.C09
end BC.Thm.C09
