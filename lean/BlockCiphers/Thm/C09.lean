import BlockCiphers.Proofs.GenTables
import BlockCiphers.Proofs.BlowfishSpec
import BlockCiphers.Proofs.Blowfish
import BlockCiphers.Proofs.Cast5Spec
import BlockCiphers.Proofs.Cast5
import BlockCiphers.Proofs.IdeaSpec
import BlockCiphers.Proofs.Rc2Spec
import BlockCiphers.Proofs.Rc2
import BlockCiphers.Proofs.Xtea
/-
C09 — Blowfish, CAST5, IDEA, RC2 and XTEA conform to their specifications
GENERATED statement file (tools/gen_thm.py): every theorem below restates, verbatim, a theorem of a Proofs/ module
and is proved by applying it.  ONLY property theorems and non-vacuity examples live in Thm/.
XTEA: the Rust is the published algorithm transcribed (32 cycles as 4x8, key word by sum&3 / (sum>>11)&3); its model is Impl/Xtea.lean and
the round-trip theorem is in C01; there is no separate specification text to equate it with.
-/

namespace BC.GenTables
open BC.Gen
theorem C09.blowfish_P_eq : blowfish_P.toList = nats32 BC.Blowfish.Consts.P :=
  _root_.BC.GenTables.blowfish_P_eq
end BC.GenTables

namespace BC.GenTables
open BC.Gen
theorem C09.blowfish_S_eq : blowfish_S.toList = nats32 BC.Blowfish.Consts.S :=
  _root_.BC.GenTables.blowfish_S_eq
end BC.GenTables

namespace BC.GenTables
open BC.Gen
theorem C09.cast5_S1_eq : cast5_S1.toList = nats32 BC.Cast5.Consts.S1 :=
  _root_.BC.GenTables.cast5_S1_eq
end BC.GenTables

namespace BC.GenTables
open BC.Gen
theorem C09.cast5_S2_eq : cast5_S2.toList = nats32 BC.Cast5.Consts.S2 :=
  _root_.BC.GenTables.cast5_S2_eq
end BC.GenTables

namespace BC.GenTables
open BC.Gen
theorem C09.cast5_S3_eq : cast5_S3.toList = nats32 BC.Cast5.Consts.S3 :=
  _root_.BC.GenTables.cast5_S3_eq
end BC.GenTables

namespace BC.GenTables
open BC.Gen
theorem C09.cast5_S4_eq : cast5_S4.toList = nats32 BC.Cast5.Consts.S4 :=
  _root_.BC.GenTables.cast5_S4_eq
end BC.GenTables

namespace BC.GenTables
open BC.Gen
theorem C09.cast5_S5_eq : cast5_S5.toList = nats32 BC.Cast5.Consts.S5 :=
  _root_.BC.GenTables.cast5_S5_eq
end BC.GenTables

namespace BC.GenTables
open BC.Gen
theorem C09.cast5_S6_eq : cast5_S6.toList = nats32 BC.Cast5.Consts.S6 :=
  _root_.BC.GenTables.cast5_S6_eq
end BC.GenTables

namespace BC.GenTables
open BC.Gen
theorem C09.cast5_S7_eq : cast5_S7.toList = nats32 BC.Cast5.Consts.S7 :=
  _root_.BC.GenTables.cast5_S7_eq
end BC.GenTables

namespace BC.GenTables
open BC.Gen
theorem C09.cast5_S8_eq : cast5_S8.toList = nats32 BC.Cast5.Consts.S8 :=
  _root_.BC.GenTables.cast5_S8_eq
end BC.GenTables

namespace BC.GenTables
open BC.Gen
theorem C09.rc2_PI_TABLE_eq : rc2_PI_TABLE.toList = nats8 BC.Rc2.PI_TABLE :=
  _root_.BC.GenTables.rc2_PI_TABLE_eq
end BC.GenTables

namespace BC.GenTables
open BC.Gen
theorem C09.idea_MAXIM_eq : idea_MAXIM = BC.Idea.MAXIM.toNat :=
  _root_.BC.GenTables.idea_MAXIM_eq
end BC.GenTables

namespace BC.Blowfish
/-- C09: for every key length 4..56, `new` yields the published key schedule -/
theorem C09.blowfish_new_eq_spec (key : Array (BitVec 8)) (h : accepts key.size = true) :
    new key = some (Spec.keySchedule key) :=
  _root_.BC.Blowfish.new_eq_spec key h
end BC.Blowfish

namespace BC.Blowfish
/-- C09: `encrypt` of the crate = Blowfish encryption as published, for every state -/
theorem C09.blowfish_encrypt_eq_spec (st : State) (x : LR) : encrypt st x = Spec.encrypt st x :=
  _root_.BC.Blowfish.encrypt_eq_spec st x
end BC.Blowfish

namespace BC.Blowfish
/-- C09: `decrypt` of the crate = Blowfish decryption as published (P in reverse order) -/
theorem C09.blowfish_decrypt_eq_spec (st : State) (x : LR) : decrypt st x = Spec.decrypt st x :=
  _root_.BC.Blowfish.decrypt_eq_spec st x
end BC.Blowfish

namespace BC.Blowfish
/-- C09: for every non-empty buffer and every legal offset standing for word position `j` of the
cyclic stream, `next_u32_wrap` returns big-endian word `j` and an offset standing for word `j+1` -/
theorem C09.next_u32_wrap_spec (buf : Array (BitVec 8)) (h : 0 < buf.size) (off j : Nat)
    (hi : PosInv buf off (4 * j)) :
    (next_u32_wrap buf off).v = Spec.cycWord buf j
      ∧ PosInv buf (next_u32_wrap buf off).off (4 * (j + 1)) :=
  _root_.BC.Blowfish.next_u32_wrap_spec buf h off j hi
end BC.Blowfish

namespace BC.Blowfish
theorem C09.encryptBlock_LE (st : State) (b : BitVec 64) :
    encryptBlock .LE st b = bswapHalves (encryptBlock .BE st (bswapHalves b)) :=
  _root_.BC.Blowfish.encryptBlock_LE st b
end BC.Blowfish

namespace BC.Blowfish
theorem C09.decryptBlock_LE (st : State) (b : BitVec 64) :
    decryptBlock .LE st b = bswapHalves (decryptBlock .BE st (bswapHalves b)) :=
  _root_.BC.Blowfish.decryptBlock_LE st b
end BC.Blowfish

namespace BC.Blowfish
theorem C09.blowfish_new_isSome_iff (key : Array (BitVec 8)) : (new key).isSome ↔ 4 ≤ key.size ∧ key.size ≤ 56 :=
  _root_.BC.Blowfish.new_isSome_iff key
end BC.Blowfish

namespace BC.Cast5
/-- C09: for every accepted key, `encrypt_block` / `decrypt_block` are RFC 2144's algorithm with the
round count of §2.5 -/
theorem C09.cast5_encrypt_new_eq_spec (key : Bytes) (ks : Keys) (h : new key = some ks) (b : BitVec 64) :
    encrypt ks b = Spec.encrypt ks (Spec.rounds (8 * key.length)) b :=
  _root_.BC.Cast5.encrypt_new_eq_spec key ks h b
end BC.Cast5

namespace BC.Cast5
theorem C09.cast5_decrypt_new_eq_spec (key : Bytes) (ks : Keys) (h : new key = some ks) (b : BitVec 64) :
    decrypt ks b = Spec.decrypt ks (Spec.rounds (8 * key.length)) b :=
  _root_.BC.Cast5.decrypt_new_eq_spec key ks h b
end BC.Cast5

namespace BC.Cast5
/-- the round count of the instance built from `key` is the RFC's rule on the key size in bits -/
theorem C09.nRounds_new (key : Bytes) (ks : Keys) (h : new key = some ks) :
    nRounds ks = Spec.rounds (8 * key.length) :=
  _root_.BC.Cast5.nRounds_new key ks h
end BC.Cast5

namespace BC.Cast5
/-- RFC 2144 §2.5: 12 rounds for key sizes up to and including 80 bits, 16 rounds above -/
theorem C09.small_key_iff (n : Nat) : small_key n = true ↔ 8 * n ≤ 80 :=
  _root_.BC.Cast5.small_key_iff n
end BC.Cast5

namespace BC.Cast5
/-- RFC 2144 §2.5: a short key is the 128-bit key obtained by padding with zero bytes — the schedule of
a key of 11..15 bytes is the schedule of the padded 16-byte key (same round count) -/
theorem C09.new_padded (key : Bytes) (h1 : 11 ≤ key.length) (h2 : key.length ≤ 16) :
    new key = new (pad key) :=
  _root_.BC.Cast5.new_padded key h1 h2
end BC.Cast5

namespace BC.Cast5
theorem C09.cast5_new_isSome_iff (key : Bytes) : (new key).isSome ↔ 5 ≤ key.length ∧ key.length ≤ 16 :=
  _root_.BC.Cast5.new_isSome_iff key
end BC.Cast5

namespace BC.Idea
open BC.Spec
/-- **Impl = Spec** (encryption), all keys, all blocks -/
theorem C09.idea_encrypt_eq_spec (key : BitVec 128) (b : BitVec 64) :
    encrypt (new key) b = Spec.Idea.encrypt key b :=
  _root_.BC.Idea.encrypt_eq_spec key b
end BC.Idea

namespace BC.Idea
open BC.Spec
/-- **Impl = Spec** (decryption): `decrypt_block` is the standard's data path with the key schedule `dec_keys`,
and `dec_keys` is the decryption key schedule of Table 13.4 for `Z key` (`new_isDecKeys`). -/
theorem C09.idea_decrypt_eq_spec (key : BitVec 128) (b : BitVec 64) :
    decrypt (new key) b = Spec.Idea.cryptWith (keyFn (new key).dec) b :=
  _root_.BC.Idea.decrypt_eq_spec key b
end BC.Idea

namespace BC.Idea
open BC.Spec
/-- **`expand_key` = the 52 sub-keys of the standard** (25-bit left rotations of the 128-bit key) -/
theorem C09.expandKey_eq_Z (key : BitVec 128) (i : Nat) (h : i < 52) :
    (expandKey key).getD i 0#16 = Spec.Idea.Z key i :=
  _root_.BC.Idea.expandKey_eq_Z key i h
end BC.Idea

namespace BC.Idea
open BC.Spec
theorem C09.new_isDecKeys (key : BitVec 128) :
    Spec.Idea.IsDecKeys (Spec.Idea.Z key) (keyFn (new key).dec) :=
  _root_.BC.Idea.new_isDecKeys key
end BC.Idea

namespace BC.Rc2
open BC.Spec.Rc2
/-- **C09**: `Rc2::new_with_eff_key_len(key, t1)` then `encrypt_block` / `decrypt_block` compute RFC 2268
with `T1 = t1` (every key, every effective length — in particular 1..=128 bytes, 1..=1024 bits) -/
theorem C09.rc2eff_encrypt_conforms (key : Bytes) (t1 : Nat) (blk : Bytes) (h : blk.length = 8) :
    liftBlock 8 (encrypt (newWithEffKeyLen key t1)) blk = BC.Spec.Rc2.encrypt key t1 blk :=
  _root_.BC.Rc2.rc2eff_encrypt_conforms key t1 blk h
end BC.Rc2

namespace BC.Rc2
open BC.Spec.Rc2
theorem C09.rc2eff_decrypt_conforms (key : Bytes) (t1 : Nat) (blk : Bytes) (h : blk.length = 8) :
    liftBlock 8 (decrypt (newWithEffKeyLen key t1)) blk = BC.Spec.Rc2.decrypt key t1 blk :=
  _root_.BC.Rc2.rc2eff_decrypt_conforms key t1 blk h
end BC.Rc2

namespace BC.Rc2
open BC.Spec.Rc2
/-- **C09 + C11**: `Rc2::new_from_slice(key)` (1..=128 bytes) is RFC 2268 with `T1 = 8·len` -/
theorem C09.rc2_conforms (key : Bytes) (hk : 1 ≤ key.length ∧ key.length ≤ 128) (blk : Bytes) (h : blk.length = 8) :
    ∃ ks, newFromSlice key = some ks ∧
      liftBlock 8 (encrypt ks) blk = BC.Spec.Rc2.encrypt key (8 * key.length) blk ∧
      liftBlock 8 (decrypt ks) blk = BC.Spec.Rc2.decrypt key (8 * key.length) blk :=
  _root_.BC.Rc2.rc2_conforms key hk blk h
end BC.Rc2

namespace BC.Rc2
open BC.Spec.Rc2
/-- the statement in the form of the property: all key lengths 1..128, all effective lengths 1..1024
(exactly the arguments for which `new_with_eff_key_len` returns, `effPanic_none_iff`) -/
theorem C09.expandKey_eq_spec_domain (key : Bytes) (t1 : Nat)
    (_hk : 1 ≤ key.length ∧ key.length ≤ 128) (_ht : 1 ≤ t1 ∧ t1 ≤ 1024) :
    newWithEffKeyLen key t1 = BC.Spec.Rc2.expandKey key t1 :=
  _root_.BC.Rc2.expandKey_eq_spec_domain key t1 _hk _ht
end BC.Rc2

namespace BC.Rc2
/-- **C11**: `new_from_slice key` succeeds exactly for 1..=128 bytes and is `new_with_eff_key_len key (8·len)` -/
theorem C09.newFromSlice_eq (key : Bytes) (h : 1 ≤ key.length ∧ key.length ≤ 128) :
    newFromSlice key = some (newWithEffKeyLen key (8 * key.length)) :=
  _root_.BC.Rc2.newFromSlice_eq key h
end BC.Rc2
