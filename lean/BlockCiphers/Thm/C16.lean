import BlockCiphers.Gen.Decls
/-
C16 — dropping a cipher erases every key-dependent byte (feature `zeroize`).
Statement over the struct / Drop inventory the translator re-extracts from /repo on every run:
every type with a `KeyInit` impl is *covered*: its `Drop` (compiled in under `feature = "zeroize"`)
wipes the whole value, or wipes every field that is not a zero-sized marker, or the field is itself a
covered struct; a field whose type is a `union` must be wiped as a whole (dropping only the live arm
leaves the bytes outside that arm — defect D5 of DESIGN §8).  What "wipes" means at run time
(`zeroize` writes zeros to all bytes) is observed by the direct oracle of the check on the real crates.
-/
namespace BC.Thm.C16
open BC.Gen

def zst (t : String) : Bool := t.startsWith "PhantomData" || t == "aes_intrinsics::InitToken"

def dropOf (s : StructInfo) : Option DropInfo :=
  drops.find? (fun d => d.crate == s.crate && d.file == s.file && d.tyBase == s.name)

/-- resolve a field's base type name: same file first, then anywhere in the crate -/
def structOf (s : StructInfo) (base : String) : Option StructInfo :=
  match structs.find? (fun t => t.crate == s.crate && t.file == s.file && t.name == base) with
  | some t => some t
  | none => structs.find? (fun t => t.crate == s.crate && t.name == base)

def covered : Nat → StructInfo → Bool
  | 0, _ => false
  | fuel + 1, s =>
    let sub (f : String × String × String) : Bool :=
      match structOf s f.2.2 with
      | some t => t.kind == "struct" && covered fuel t
      | none => false
    match dropOf s with
    | some d => d.cfgZeroize && (d.whole || s.fields.all (fun f => zst f.2.1 || d.wiped.contains f.1 || sub f))
    | none => s.kind == "struct" && s.fields.all (fun f => zst f.2.1 || sub f)

def isKeyInit (s : StructInfo) : Bool :=
  s.isPub && keyInits.any (fun k => k.1 == s.crate && k.2.2 == s.name)

/-- every keyed cipher struct of the workspace is covered -/
theorem every_cipher_struct_wiped : ∀ s ∈ structs, isKeyInit s = true → covered 4 s = true := by decide +kernel

/-- the quantifier is not vacuous: at least one keyed public struct per crate (35 at the pinned commit) -/
theorem keyed_structs_present : ∀ c ∈ ["aes", "aria", "belt-block", "blowfish", "camellia", "cast5", "cast6", "des", "gift",
    "idea", "kuznyechik", "magma", "rc2", "rc5", "serpent", "sm4", "speck", "threefish", "twofish", "xtea"],
    (structs.any (fun s => s.crate == c && isKeyInit s)) = true := by decide +kernel

/-- non-vacuity: the pre-fix autodetect wrapper (arms dropped, union not wiped) is rejected -/
def preFix : DropInfo := ⟨"aes", "aes/src/autodetect.rs", "$name", "$name", [], false, ["inner.intrinsics", "inner.soft"], true⟩
example : (preFix.whole || preFix.wiped.contains "inner") = false := by decide +kernel

end BC.Thm.C16
