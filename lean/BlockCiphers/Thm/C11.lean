import BlockCiphers.Gen.Decls
/-
C11 — key-length contract.  `Gen.accepts_*` are the guards of the `new_from_slice` overrides as the
translator reads them from /repo now; the right-hand sides are the lengths the property states.
Types without an override use `KeyInit::new_from_slice`'s default (`len == KeySize`), which the
correspondence checks for every length 0..=300 on every registry type.
-/
namespace BC.Thm.C11
open BC.Gen

theorem blowfish_lengths (n : Nat) : accepts_blowfish_Blowfish_T_ n = true ↔ 4 ≤ n ∧ n ≤ 56 := by
  simp [accepts_blowfish_Blowfish_T_]
theorem cast5_lengths (n : Nat) : accepts_cast5_Cast5 n = true ↔ 5 ≤ n ∧ n ≤ 16 := by
  simp [accepts_cast5_Cast5]
theorem cast6_lengths (n : Nat) : accepts_cast6_Cast6 n = true ↔ n ∈ [16, 20, 24, 28, 32] := by
  simp [accepts_cast6_Cast6, or_assoc]
theorem rc2_lengths (n : Nat) : accepts_rc2_Rc2 n = true ↔ 1 ≤ n ∧ n ≤ 128 := by
  simp [accepts_rc2_Rc2]; omega
theorem serpent_lengths (n : Nat) : accepts_serpent_Serpent n = true ↔ 16 ≤ n ∧ n ≤ 32 := by
  simp [accepts_serpent_Serpent]
theorem twofish_lengths (n : Nat) : accepts_twofish_Twofish n = true ↔ n ∈ [16, 24, 32] := by
  simp [accepts_twofish_Twofish, or_assoc]
theorem xtea_lengths (n : Nat) : accepts_xtea_Xtea n = true ↔ n = 16 := by
  simp [accepts_xtea_Xtea]

/-- exactly these seven types override `new_from_slice` -/
theorem overrides : guardTypes = [("blowfish", "Blowfish<T>"), ("cast5", "Cast5"), ("cast6", "Cast6"),
    ("rc2", "Rc2"), ("serpent", "Serpent"), ("twofish", "Twofish"), ("xtea", "Xtea")] := by decide

example : accepts_blowfish_Blowfish_T_ 4 = true ∧ accepts_blowfish_Blowfish_T_ 57 = false := by decide

end BC.Thm.C11
