import BlockCiphers.Proofs.BlowfishSpec
import BlockCiphers.Proofs.GenTables
/-
C14 — bcrypt (eksblowfish) key-setup primitives follow Provos–Mazières
GENERATED statement file (tools/gen_thm.py): every theorem below restates, verbatim, a theorem of a Proofs/ module
and is proved by applying it.  ONLY property theorems and non-vacuity examples live in Thm/.
-/

namespace BC.GenTables
open BC.Gen
theorem C14.bcrypt_blowfish_P_eq : blowfish_P.toList = nats32 BC.Blowfish.Consts.P :=
  _root_.BC.GenTables.blowfish_P_eq
end BC.GenTables

namespace BC.GenTables
open BC.Gen
theorem C14.bcrypt_blowfish_S_eq : blowfish_S.toList = nats32 BC.Blowfish.Consts.S :=
  _root_.BC.GenTables.blowfish_S_eq
end BC.GenTables

namespace BC.Blowfish
/-- the 4-entries-per-pass S loop with the running salt offset = the reference 2-entries loop with
the salt indexed as a cyclic stream of big-endian words; every non-empty salt and key (any lengths,
also not multiples of 4) -/
theorem C14.salted_expand_key_eq_spec (st : State) (salt key : Array (BitVec 8))
    (hs : 0 < salt.size) (hk : 0 < key.size) :
    salted_expand_key st salt key = Spec.expandKey st salt key :=
  _root_.BC.Blowfish.salted_expand_key_eq_spec st salt key hs hk
end BC.Blowfish

namespace BC.Blowfish
/-- for every salt consisting of zero bytes only: the unsalted key expansion is the salted one.
(The Rust panics on an empty salt or key — `next_u32_wrap` indexes `buf[0]` — so on the Rust side the
statement is about `salt.len() ≥ 1`, `key.len() ≥ 1`; the total model satisfies it for all lengths.) -/
theorem C14.bc_expand_key_eq_salted (st : State) (salt key : Array (BitVec 8)) (hz : ∀ i : Nat, salt[i]! = 0#8) :
    bc_expand_key st key = salted_expand_key st salt key :=
  _root_.BC.Blowfish.bc_expand_key_eq_salted st salt key hz
end BC.Blowfish

namespace BC.Blowfish
/-- the salt-length condition made explicit: `n` zero bytes, any `n` (the Rust needs `n ≥ 1`) -/
theorem C14.bc_expand_key_eq_salted_zeros (st : State) (n : Nat) (key : Array (BitVec 8)) :
    bc_expand_key st key = salted_expand_key st (Array.replicate n 0#8) key :=
  _root_.BC.Blowfish.bc_expand_key_eq_salted_zeros st n key
end BC.Blowfish

namespace BC.Blowfish
/-- the state of `Blowfish::new(key)` is `bc_expand_key` applied to `bc_init_state` -/
theorem C14.new_eq_bc_expand_key (key : Array (BitVec 8)) (h : accepts key.size = true) :
    new key = some (bc_expand_key bc_init_state key) :=
  _root_.BC.Blowfish.new_eq_bc_expand_key key h
end BC.Blowfish

namespace BC.Blowfish
theorem C14.bc_encrypt_eq_encrypt (st : State) (x : LR) : bc_encrypt st x = encrypt st x :=
  _root_.BC.Blowfish.bc_encrypt_eq_encrypt st x
end BC.Blowfish

namespace BC.Blowfish
theorem C14.bc_encrypt_eq_spec (st : State) (x : LR) : bc_encrypt st x = Spec.encrypt st x :=
  _root_.BC.Blowfish.bc_encrypt_eq_spec st x
end BC.Blowfish

namespace BC.Blowfish
/-- every finite sequence of (non-panicking) primitive calls, from every starting state, gives the same
states and outputs in the crate's model as in the published algorithm — the cost loop of bcrypt
(`2^cost` × `expand key; expand salt`) is one instance -/
theorem C14.history_eq_spec (ops : List Op) (hv : ∀ o ∈ ops, o.valid) (h : Hist) :
    ops.foldl implStep h = ops.foldl specStep h :=
  _root_.BC.Blowfish.history_eq_spec ops hv h
end BC.Blowfish
