/-
C14 — theorem file (property theorems only).  Filled in as the models it needs are merged; see DESIGN §7 C14.
-/
namespace BC.Thm.C14
end BC.Thm.C14
