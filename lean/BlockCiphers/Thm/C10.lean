import BlockCiphers.Proofs.Rc5Spec
import BlockCiphers.Proofs.SpeckKeys
import BlockCiphers.Proofs.Rc5SpeckC01
/-
C10 — RC5, Speck, Threefish and GIFT-128 conform for every parameterisation.
RC5 and Speck: full (`Impl = Spec` for all parameters).  Threefish, GIFT: added when their models are merged.
-/
namespace BC.Thm.C10
open BC

/-- RC5-w/r/b for the five word types, EVERY round count `r`, EVERY key length `b` (0 included) and key, every block:
the constants are Rivest's `P_w = Odd((e−2)2^w)`, `Q_w = Odd((φ−1)2^w)`, the expanded table is Rivest's `S`, and
encryption / decryption are Rivest's. -/
theorem rc5_conforms (w : Nat) (hw : w ∈ Rc5.widths) (r b : Nat) (key : Bytes) (hb : key.length = b) (blk : Bytes) :
    Spec.Rc5.IsP w (Rc5.P w).toNat ∧ Spec.Rc5.IsQ w (Rc5.Q w).toNat ∧
    (Rc5.substituteKey w r b key).toList = Spec.Rc5.expand r b (Rc5.P w) (Rc5.Q w) key ∧
    Rc5.encryptBlock (Rc5.substituteKey w r b key) r blk
      = Spec.Rc5.encryptBytes (Spec.Rc5.expand r b (Rc5.P w) (Rc5.Q w) key) r blk ∧
    Rc5.decryptBlock (Rc5.substituteKey w r b key) r blk
      = Spec.Rc5.decryptBytes (Spec.Rc5.expand r b (Rc5.P w) (Rc5.Q w) key) r blk :=
  Rc5.rc5_computes_spec w hw r b key hb blk

example : (8 : Nat) ∈ Rc5.widths ∧ (128 : Nat) ∈ Rc5.widths := by decide

/-- the ten Speck types are the ten rows of the Simon&Speck paper's parameter table, and for every key and block
`encrypt_block` / `decrypt_block` after `KeyInit::new` are the paper's Speck with the paper's key schedule. -/
theorem speck_conforms : ∀ p ∈ Speck.all, Spec.Speck.ofParams p ∈ Spec.Speck.table ∧
    ∀ key b : Bytes,
    Speck.encryptBlock p (Speck.keySchedule p key) b
      = Spec.Speck.encryptBytes p.n p.alpha p.beta p.rounds
          (fun j => (Spec.Speck.roundKeys p.n p.m p.alpha p.beta p.rounds key).getD j 0) b ∧
    Speck.decryptBlock p (Speck.keySchedule p key) b
      = Spec.Speck.decryptBytes p.n p.alpha p.beta p.rounds
          (fun j => (Spec.Speck.roundKeys p.n p.m p.alpha p.beta p.rounds key).getD j 0) b :=
  Speck.speck_all_compute_spec

example : Speck.all.length = 10 := by decide

end BC.Thm.C10
