import BlockCiphers.Proofs.GiftConf
import BlockCiphers.Proofs.GenTables
import BlockCiphers.Proofs.Rc5Spec
import BlockCiphers.Proofs.SpeckKeys
import BlockCiphers.Proofs.ThreefishSpec
import BlockCiphers.Proofs.Threefish
import BlockCiphers.Proofs.GenFuncsGift
import BlockCiphers.Proofs.GenFuncsThreefish
/-
C10 — RC5, Speck, Threefish and GIFT-128 conform for every parameterisation
GENERATED statement file (tools/gen_thm.py): every theorem below restates, verbatim, a theorem of a Proofs/ module
and is proved by applying it.  ONLY property theorems and non-vacuity examples live in Thm/.
RC5, Speck, Threefish, GIFT-128 (fixsliced implementation = the CHES 2017 bit-permutation specification, all keys and blocks): full.
Every constant table of the four crates as it is in /repo now = the table of the model (GenTables).
-/

namespace BC.GenFuncs.Gift
open BC.Gen.Fn
theorem C10.src_gift_byte_ror_2_eq (x : BitVec 32) :
    gift_byte_ror_2 x = BC.Gift.byteRor2 x :=
  _root_.BC.GenFuncs.Gift.byte_ror_2_eq x
end BC.GenFuncs.Gift

namespace BC.GenFuncs.Gift
open BC.Gen.Fn
theorem C10.src_gift_byte_ror_4_eq (x : BitVec 32) :
    gift_byte_ror_4 x = BC.Gift.byteRor4 x :=
  _root_.BC.GenFuncs.Gift.byte_ror_4_eq x
end BC.GenFuncs.Gift

namespace BC.GenFuncs.Gift
open BC.Gen.Fn
theorem C10.src_gift_byte_ror_6_eq (x : BitVec 32) :
    gift_byte_ror_6 x = BC.Gift.byteRor6 x :=
  _root_.BC.GenFuncs.Gift.byte_ror_6_eq x
end BC.GenFuncs.Gift

namespace BC.GenFuncs.Gift
open BC.Gen.Fn
theorem C10.src_gift_half_ror_4_eq (x : BitVec 32) :
    gift_half_ror_4 x = BC.Gift.halfRor4 x :=
  _root_.BC.GenFuncs.Gift.half_ror_4_eq x
end BC.GenFuncs.Gift

namespace BC.GenFuncs.Gift
open BC.Gen.Fn
theorem C10.src_gift_half_ror_8_eq (x : BitVec 32) :
    gift_half_ror_8 x = BC.Gift.halfRor8 x :=
  _root_.BC.GenFuncs.Gift.half_ror_8_eq x
end BC.GenFuncs.Gift

namespace BC.GenFuncs.Gift
open BC.Gen.Fn
theorem C10.src_gift_half_ror_12_eq (x : BitVec 32) :
    gift_half_ror_12 x = BC.Gift.halfRor12 x :=
  _root_.BC.GenFuncs.Gift.half_ror_12_eq x
end BC.GenFuncs.Gift

namespace BC.GenFuncs.Gift
open BC.Gen.Fn
theorem C10.src_gift_nibble_ror_1_eq (x : BitVec 32) :
    gift_nibble_ror_1 x = BC.Gift.nibbleRor1 x :=
  _root_.BC.GenFuncs.Gift.nibble_ror_1_eq x
end BC.GenFuncs.Gift

namespace BC.GenFuncs.Gift
open BC.Gen.Fn
theorem C10.src_gift_nibble_ror_2_eq (x : BitVec 32) :
    gift_nibble_ror_2 x = BC.Gift.nibbleRor2 x :=
  _root_.BC.GenFuncs.Gift.nibble_ror_2_eq x
end BC.GenFuncs.Gift

namespace BC.GenFuncs.Gift
open BC.Gen.Fn
theorem C10.src_gift_nibble_ror_3_eq (x : BitVec 32) :
    gift_nibble_ror_3 x = BC.Gift.nibbleRor3 x :=
  _root_.BC.GenFuncs.Gift.nibble_ror_3_eq x
end BC.GenFuncs.Gift

namespace BC.GenFuncs.Gift
open BC.Gen.Fn
theorem C10.src_gift_rearrange_rkey_0_eq (x : BitVec 32) :
    gift_rearrange_rkey_0 x = BC.Gift.rearrangeRkey0 x :=
  _root_.BC.GenFuncs.Gift.rearrange_rkey_0_eq x
end BC.GenFuncs.Gift

namespace BC.GenFuncs.Gift
open BC.Gen.Fn
theorem C10.src_gift_rearrange_rkey_1_eq (x : BitVec 32) :
    gift_rearrange_rkey_1 x = BC.Gift.rearrangeRkey1 x :=
  _root_.BC.GenFuncs.Gift.rearrange_rkey_1_eq x
end BC.GenFuncs.Gift

namespace BC.GenFuncs.Gift
open BC.Gen.Fn
theorem C10.src_gift_rearrange_rkey_2_eq (x : BitVec 32) :
    gift_rearrange_rkey_2 x = BC.Gift.rearrangeRkey2 x :=
  _root_.BC.GenFuncs.Gift.rearrange_rkey_2_eq x
end BC.GenFuncs.Gift

namespace BC.GenFuncs.Gift
open BC.Gen.Fn
theorem C10.src_gift_rearrange_rkey_3_eq (x : BitVec 32) :
    gift_rearrange_rkey_3 x = BC.Gift.rearrangeRkey3 x :=
  _root_.BC.GenFuncs.Gift.rearrange_rkey_3_eq x
end BC.GenFuncs.Gift

namespace BC.GenFuncs.Gift
open BC.Gen.Fn
theorem C10.src_gift_key_update_eq (x : BitVec 32) :
    gift_key_update x = BC.Gift.keyUpdate x :=
  _root_.BC.GenFuncs.Gift.key_update_eq x
end BC.GenFuncs.Gift

namespace BC.GenFuncs.Gift
open BC.Gen.Fn
theorem C10.src_gift_key_triple_update_0_eq (x : BitVec 32) :
    gift_key_triple_update_0 x = BC.Gift.keyTripleUpdate0 x :=
  _root_.BC.GenFuncs.Gift.key_triple_update_0_eq x
end BC.GenFuncs.Gift

namespace BC.GenFuncs.Gift
open BC.Gen.Fn
theorem C10.src_gift_key_double_update_1_eq (x : BitVec 32) :
    gift_key_double_update_1 x = BC.Gift.keyDoubleUpdate1 x :=
  _root_.BC.GenFuncs.Gift.key_double_update_1_eq x
end BC.GenFuncs.Gift

namespace BC.GenFuncs.Gift
open BC.Gen.Fn
theorem C10.src_gift_key_triple_update_1_eq (x : BitVec 32) :
    gift_key_triple_update_1 x = BC.Gift.keyTripleUpdate1 x :=
  _root_.BC.GenFuncs.Gift.key_triple_update_1_eq x
end BC.GenFuncs.Gift

namespace BC.GenFuncs.Gift
open BC.Gen.Fn
theorem C10.src_gift_key_double_update_2_eq (x : BitVec 32) :
    gift_key_double_update_2 x = BC.Gift.keyDoubleUpdate2 x :=
  _root_.BC.GenFuncs.Gift.key_double_update_2_eq x
end BC.GenFuncs.Gift

namespace BC.GenFuncs.Gift
open BC.Gen.Fn
theorem C10.src_gift_key_triple_update_2_eq (x : BitVec 32) :
    gift_key_triple_update_2 x = BC.Gift.keyTripleUpdate2 x :=
  _root_.BC.GenFuncs.Gift.key_triple_update_2_eq x
end BC.GenFuncs.Gift

namespace BC.GenFuncs.Gift
open BC.Gen.Fn
theorem C10.src_gift_key_double_update_3_eq (x : BitVec 32) :
    gift_key_double_update_3 x = BC.Gift.keyDoubleUpdate3 x :=
  _root_.BC.GenFuncs.Gift.key_double_update_3_eq x
end BC.GenFuncs.Gift

namespace BC.GenFuncs.Gift
open BC.Gen.Fn
theorem C10.src_gift_key_triple_update_3_eq (x : BitVec 32) :
    gift_key_triple_update_3 x = BC.Gift.keyTripleUpdate3 x :=
  _root_.BC.GenFuncs.Gift.key_triple_update_3_eq x
end BC.GenFuncs.Gift

namespace BC.GenFuncs.Gift
open BC.Gen.Fn
theorem C10.src_gift_key_double_update_4_eq (x : BitVec 32) :
    gift_key_double_update_4 x = BC.Gift.keyDoubleUpdate4 x :=
  _root_.BC.GenFuncs.Gift.key_double_update_4_eq x
end BC.GenFuncs.Gift

namespace BC.GenFuncs.Gift
open BC.Gen.Fn
theorem C10.src_gift_key_triple_update_4_eq (x : BitVec 32) :
    gift_key_triple_update_4 x = BC.Gift.keyTripleUpdate4 x :=
  _root_.BC.GenFuncs.Gift.key_triple_update_4_eq x
end BC.GenFuncs.Gift

namespace BC.GenFuncs.Gift
open BC.Gen.Fn
theorem C10.src_gift_sbox_eq (a b c d : BitVec 32) :
    gift_sbox a b c d = tup (BC.Gift.sbox a b c d) :=
  _root_.BC.GenFuncs.Gift.sbox_eq a b c d
end BC.GenFuncs.Gift

namespace BC.GenFuncs.Gift
open BC.Gen.Fn
theorem C10.src_gift_inv_sbox_eq (a b c d : BitVec 32) :
    gift_inv_sbox a b c d = tup (BC.Gift.invSbox a b c d) :=
  _root_.BC.GenFuncs.Gift.inv_sbox_eq a b c d
end BC.GenFuncs.Gift

namespace BC.GenFuncs.Gift
open BC.Gen.Fn
theorem C10.src_gift_packing_eq (x : BitVec 128) :
    gift_packing x = tup (BC.Gift.packing x) :=
  _root_.BC.GenFuncs.Gift.packing_eq x
end BC.GenFuncs.Gift

namespace BC.GenFuncs.Gift
open BC.Gen.Fn
theorem C10.src_gift_unpacking_eq (s : BC.Gift.St) :
    gift_unpacking s.s0 s.s1 s.s2 s.s3 = BC.Gift.unpacking s :=
  _root_.BC.GenFuncs.Gift.unpacking_eq s
end BC.GenFuncs.Gift

namespace BC.GenFuncs.Gift
open BC.Gen.Fn
theorem C10.src_gift_quintuple_round_eq (s : BC.Gift.St) (k0 k1 k2 k3 k4 k5 k6 k7 k8 k9 c0 c1 c2 c3 c4 : BitVec 32) :
    gift_quintuple_round s.s0 s.s1 s.s2 s.s3 k0 k1 k2 k3 k4 k5 k6 k7 k8 k9 c0 c1 c2 c3 c4 = tup (BC.Gift.quintupleCore s ⟨k0, k1, k2, k3, k4, k5, k6, k7, k8, k9, c0, c1, c2, c3, c4⟩) :=
  _root_.BC.GenFuncs.Gift.quintuple_round_eq s k0 k1 k2 k3 k4 k5 k6 k7 k8 k9 c0 c1 c2 c3 c4
end BC.GenFuncs.Gift

namespace BC.GenFuncs.Gift
open BC.Gen.Fn
theorem C10.src_gift_inv_quintuple_round_eq (s : BC.Gift.St) (k0 k1 k2 k3 k4 k5 k6 k7 k8 k9 c0 c1 c2 c3 c4 : BitVec 32) :
    gift_inv_quintuple_round s.s0 s.s1 s.s2 s.s3 k0 k1 k2 k3 k4 k5 k6 k7 k8 k9 c0 c1 c2 c3 c4 = tup (BC.Gift.invQuintupleCore s ⟨k0, k1, k2, k3, k4, k5, k6, k7, k8, k9, c0, c1, c2, c3, c4⟩) :=
  _root_.BC.GenFuncs.Gift.inv_quintuple_round_eq s k0 k1 k2 k3 k4 k5 k6 k7 k8 k9 c0 c1 c2 c3 c4
end BC.GenFuncs.Gift

namespace BC.GenFuncs.Threefish
open BC.Gen.Fn
theorem C10.src_threefish_mix_eq (r : BitVec 8) (x0 x1 : BitVec 64) :
    threefish_mix r x0 x1 = BC.Threefish.mix r x0 x1 :=
  _root_.BC.GenFuncs.Threefish.mix_eq r x0 x1
end BC.GenFuncs.Threefish

namespace BC.GenFuncs.Threefish
open BC.Gen.Fn
theorem C10.src_threefish_inv_mix_eq (r : BitVec 8) (y0 y1 : BitVec 64) :
    threefish_inv_mix r y0 y1 = BC.Threefish.invMix r y0 y1 :=
  _root_.BC.GenFuncs.Threefish.inv_mix_eq r y0 y1
end BC.GenFuncs.Threefish

namespace BC.Gift.Conf
open BC.Gift
open BC.Spec.Gift (keyU keyV keyAt constAt lfsr step)
/-- the Rust's `encrypt_block` after `KeyInit::new(key)` is GIFT-128 encryption of the paper: all keys, all blocks -/
theorem C10.gift_encrypt_eq_spec (key b : BitVec 128) :
    encrypt (precomputeRkeys key) b = BC.Spec.Gift.encrypt key b :=
  _root_.BC.Gift.Conf.encrypt_eq_spec key b
end BC.Gift.Conf

namespace BC.Gift.Conf
open BC.Gift
open BC.Spec.Gift (keyU keyV keyAt constAt lfsr step)
/-- the Rust's `decrypt_block` after `KeyInit::new(key)` is GIFT-128 decryption: all keys, all blocks -/
theorem C10.gift_decrypt_eq_spec (key y : BitVec 128) :
    decrypt (precomputeRkeys key) y = BC.Spec.Gift.decrypt key y :=
  _root_.BC.Gift.Conf.decrypt_eq_spec key y
end BC.Gift.Conf

namespace BC.Gift.Conf
open BC.Gift
open BC.Spec.Gift (keyU keyV keyAt constAt lfsr step)
theorem C10.gift_spec_decrypt_encrypt (key b : BitVec 128) : BC.Spec.Gift.decrypt key (BC.Spec.Gift.encrypt key b) = b :=
  _root_.BC.Gift.Conf.spec_decrypt_encrypt key b
end BC.Gift.Conf

namespace BC.Gift.Conf
open BC.Gift
open BC.Spec.Gift (keyU keyV keyAt constAt lfsr step)
/-- the spec's decryption inverts the spec's encryption, and vice versa -/
theorem C10.gift_spec_encrypt_decrypt (key y : BitVec 128) : BC.Spec.Gift.encrypt key (BC.Spec.Gift.decrypt key y) = y :=
  _root_.BC.Gift.Conf.spec_encrypt_decrypt key y
end BC.Gift.Conf

namespace BC.GenTables
open BC.Gen
theorem C10.threefish_R256_eq : threefish_R256.toList = (BC.Threefish.R256.toList.map nats8).flatten :=
  _root_.BC.GenTables.threefish_R256_eq
end BC.GenTables

namespace BC.GenTables
open BC.Gen
theorem C10.threefish_R512_eq : threefish_R512.toList = (BC.Threefish.R512.toList.map nats8).flatten :=
  _root_.BC.GenTables.threefish_R512_eq
end BC.GenTables

namespace BC.GenTables
open BC.Gen
theorem C10.threefish_R1024_eq : threefish_R1024.toList = (BC.Threefish.R1024.toList.map nats8).flatten :=
  _root_.BC.GenTables.threefish_R1024_eq
end BC.GenTables

namespace BC.GenTables
open BC.Gen
theorem C10.threefish_P256_eq : threefish_P256.toList = nats8 BC.Threefish.P256 :=
  _root_.BC.GenTables.threefish_P256_eq
end BC.GenTables

namespace BC.GenTables
open BC.Gen
theorem C10.threefish_P512_eq : threefish_P512.toList = nats8 BC.Threefish.P512 :=
  _root_.BC.GenTables.threefish_P512_eq
end BC.GenTables

namespace BC.GenTables
open BC.Gen
theorem C10.threefish_P1024_eq : threefish_P1024.toList = nats8 BC.Threefish.P1024 :=
  _root_.BC.GenTables.threefish_P1024_eq
end BC.GenTables

namespace BC.GenTables
open BC.Gen
theorem C10.threefish_C240_eq : threefish_C240 = BC.Threefish.C240.toNat :=
  _root_.BC.GenTables.threefish_C240_eq
end BC.GenTables

namespace BC.GenTables
open BC.Gen
theorem C10.gift_GIFT_RC_eq : gift_GIFT_RC.toList = nats32 BC.Gift.GIFT_RC :=
  _root_.BC.GenTables.gift_GIFT_RC_eq
end BC.GenTables

namespace BC.Rc5
open BC
/-- **C10 (RC5)**: for each of the five word types, every `r`, every key length `b` and key, every block:
the constants are Rivest's, the expanded table is Rivest's `S`, and `encrypt_block`/`decrypt_block` are
Rivest's encryption/decryption. -/
theorem C10.rc5_computes_spec (w : Nat) (hw : w ∈ widths) (r b : Nat) (key : Bytes) (hb : key.length = b)
    (blk : Bytes) :
    Spec.Rc5.IsP w (P w).toNat ∧ Spec.Rc5.IsQ w (Q w).toNat ∧
    (substituteKey w r b key).toList = Spec.Rc5.expand r b (P w) (Q w) key ∧
    encryptBlock (substituteKey w r b key) r blk
      = Spec.Rc5.encryptBytes (Spec.Rc5.expand r b (P w) (Q w) key) r blk ∧
    decryptBlock (substituteKey w r b key) r blk
      = Spec.Rc5.decryptBytes (Spec.Rc5.expand r b (P w) (Q w) key) r blk :=
  _root_.BC.Rc5.rc5_computes_spec w hw r b key hb blk
end BC.Rc5

namespace BC.Speck
open BC
theorem C10.speck_all_compute_spec : ∀ p ∈ all, Spec.Speck.ofParams p ∈ Spec.Speck.table ∧
    ∀ key b : Bytes,
    encryptBlock p (keySchedule p key) b
      = Spec.Speck.encryptBytes p.n p.alpha p.beta p.rounds
          (fun j => (Spec.Speck.roundKeys p.n p.m p.alpha p.beta p.rounds key).getD j 0) b ∧
    decryptBlock p (keySchedule p key) b
      = Spec.Speck.decryptBytes p.n p.alpha p.beta p.rounds
          (fun j => (Spec.Speck.roundKeys p.n p.m p.alpha p.beta p.rounds key).getD j 0) b :=
  _root_.BC.Speck.speck_all_compute_spec
end BC.Speck

namespace BC.Threefish
open BC.Spec.Threefish
theorem C10.threefish256_eq_spec (K T P : Bytes) (hK : K.length = 32) (hT : T.length = 16) (hP : P.length = 32) :
    encryptBlock (newWithTweak tf256 K T) P = encrypt threefish256 K T P :=
  _root_.BC.Threefish.threefish256_eq_spec K T P hK hT hP
end BC.Threefish

namespace BC.Threefish
open BC.Spec.Threefish
theorem C10.threefish512_eq_spec (K T P : Bytes) (hK : K.length = 64) (hT : T.length = 16) (hP : P.length = 64) :
    encryptBlock (newWithTweak tf512 K T) P = encrypt threefish512 K T P :=
  _root_.BC.Threefish.threefish512_eq_spec K T P hK hT hP
end BC.Threefish

namespace BC.Threefish
open BC.Spec.Threefish
theorem C10.threefish1024_eq_spec (K T P : Bytes) (hK : K.length = 128) (hT : T.length = 16) (hP : P.length = 128) :
    encryptBlock (newWithTweak tf1024 K T) P = encrypt threefish1024 K T P :=
  _root_.BC.Threefish.threefish1024_eq_spec K T P hK hT hP
end BC.Threefish

namespace BC.Threefish
open BC.Spec.Threefish
/-- the plain keyed constructor is the specified cipher under the all-zero tweak -/
theorem C10.threefish256_new_eq_spec (K P : Bytes) (hK : K.length = 32) (hP : P.length = 32) :
    encryptBlock (new tf256 K) P = encrypt threefish256 K (List.replicate 16 0#8) P :=
  _root_.BC.Threefish.threefish256_new_eq_spec K P hK hP
end BC.Threefish

namespace BC.Threefish
open BC.Spec.Threefish
theorem C10.threefish512_new_eq_spec (K P : Bytes) (hK : K.length = 64) (hP : P.length = 64) :
    encryptBlock (new tf512 K) P = encrypt threefish512 K (List.replicate 16 0#8) P :=
  _root_.BC.Threefish.threefish512_new_eq_spec K P hK hP
end BC.Threefish

namespace BC.Threefish
open BC.Spec.Threefish
theorem C10.threefish1024_new_eq_spec (K P : Bytes) (hK : K.length = 128) (hP : P.length = 128) :
    encryptBlock (new tf1024 K) P = encrypt threefish1024 K (List.replicate 16 0#8) P :=
  _root_.BC.Threefish.threefish1024_new_eq_spec K P hK hP
end BC.Threefish

namespace BC.Threefish
open BC.Spec.Threefish
/-- `decrypt_block` inverts the specified encryption -/
theorem C10.threefish256_decrypt_spec (K T P : Bytes) (hK : K.length = 32) (hT : T.length = 16) (hP : P.length = 32) :
    decryptBlock (newWithTweak tf256 K T) (encrypt threefish256 K T P) = P :=
  _root_.BC.Threefish.threefish256_decrypt_spec K T P hK hT hP
end BC.Threefish

namespace BC.Threefish
open BC.Spec.Threefish
theorem C10.threefish512_decrypt_spec (K T P : Bytes) (hK : K.length = 64) (hT : T.length = 16) (hP : P.length = 64) :
    decryptBlock (newWithTweak tf512 K T) (encrypt threefish512 K T P) = P :=
  _root_.BC.Threefish.threefish512_decrypt_spec K T P hK hT hP
end BC.Threefish

namespace BC.Threefish
open BC.Spec.Threefish
theorem C10.threefish1024_decrypt_spec (K T P : Bytes) (hK : K.length = 128) (hT : T.length = 16) (hP : P.length = 128) :
    decryptBlock (newWithTweak tf1024 K T) (encrypt threefish1024 K T P) = P :=
  _root_.BC.Threefish.threefish1024_decrypt_spec K T P hK hT hP
end BC.Threefish

namespace BC.Threefish
open BC.Spec.Threefish
/-- the crate's `P256` is the inverse of π for N_w = 4 (and equal to it: an involution) -/
theorem C10.perm256_inverse : ∀ i, i < 4 →
    threefish256.π (tf256.permAt i) = i ∧ tf256.permAt (threefish256.π i) = i ∧ tf256.permAt i = threefish256.π i :=
  _root_.BC.Threefish.perm256_inverse
end BC.Threefish

namespace BC.Threefish
open BC.Spec.Threefish
/-- the crate's `P512` is the inverse of π for N_w = 8 (and differs from π) -/
theorem C10.perm512_inverse : ∀ i, i < 8 →
    threefish512.π (tf512.permAt i) = i ∧ tf512.permAt (threefish512.π i) = i :=
  _root_.BC.Threefish.perm512_inverse
end BC.Threefish

namespace BC.Threefish
open BC.Spec.Threefish
/-- the crate's `P1024` is the inverse of π for N_w = 16 -/
theorem C10.perm1024_inverse : ∀ i, i < 16 →
    threefish1024.π (tf1024.permAt i) = i ∧ tf1024.permAt (threefish1024.π i) = i :=
  _root_.BC.Threefish.perm1024_inverse
end BC.Threefish

namespace BC.Threefish
theorem C10.encryptBlock_storeWords {p : Params} (c : Cipher p) (b : Vector (BitVec 64) p.nw) :
    encryptBlock c (storeWords b) = storeWords (encryptU64 c b) :=
  _root_.BC.Threefish.encryptBlock_storeWords c b
end BC.Threefish

namespace BC.Threefish
theorem C10.decryptBlock_storeWords {p : Params} (c : Cipher p) (b : Vector (BitVec 64) p.nw) :
    decryptBlock c (storeWords b) = storeWords (decryptU64 c b) :=
  _root_.BC.Threefish.decryptBlock_storeWords c b
end BC.Threefish

namespace BC.Threefish
/-- `KeyInit::new key = new_with_tweak(key, [0; 16])`, i.e. tweak words `(0, 0)` -/
theorem C10.new_eq_newWithTweak (p : Params) (key : Bytes) : new p key = newWithTweak p key (List.replicate 16 0#8) :=
  _root_.BC.Threefish.new_eq_newWithTweak p key
end BC.Threefish
