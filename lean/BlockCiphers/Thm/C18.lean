import BlockCiphers.Proofs.BeltWide
import BlockCiphers.Proofs.BeltWideSpec
/-
C18 — BelT wide-block encryption conforms and rejects short input untouched
GENERATED statement file (tools/gen_thm.py): every theorem below restates, verbatim, a theorem of a Proofs/ module
and is proved by applying it.  ONLY property theorems and non-vacuity examples live in Thm/.
-/

namespace BC.Belt
open Spec.Belt (blockAt xorB)
/-- C18: on the 64-bit target `belt_wblock_enc` is belt-wblock encryption of STB 34.101.31 §6.2.3 for every
input of at least 32 bytes (any length) -/
theorem C18.wblockEnc_eq_spec (K : BitVec 256) (d : Bytes) (h32 : 32 ≤ d.length) (hu : d.length < 2 ^ 64) :
    wblockEnc d (toKey K) = (.ok, Spec.Belt.wblockEnc K d) :=
  _root_.BC.Belt.wblockEnc_eq_spec K d h32 hu
end BC.Belt

namespace BC.Belt
open Spec.Belt (blockAt xorB)
/-- C18: `belt_wblock_dec` is belt-wblock decryption of §6.2.4 -/
theorem C18.wblockDec_eq_spec (K : BitVec 256) (d : Bytes) (h32 : 32 ≤ d.length) (hu : d.length < 2 ^ 64) :
    wblockDec d (toKey K) = (.ok, Spec.Belt.wblockDec K d) :=
  _root_.BC.Belt.wblockDec_eq_spec K d h32 hu
end BC.Belt

namespace BC.Belt
open Spec.Belt (blockAt xorB)
/-- the same on a 32-bit target (`usize` = 4 bytes): the round counter `i ≤ 2n` fits -/
theorem C18.wblockEnc32_eq_spec (K : BitVec 256) (d : Bytes) (h32 : 32 ≤ d.length) (hu : d.length < 2 ^ 32) :
    wblockEncU 4 d (toKey K) = (.ok, Spec.Belt.wblockEnc K d) :=
  _root_.BC.Belt.wblockEnc32_eq_spec K d h32 hu
end BC.Belt

namespace BC.Belt
open Spec.Belt (blockAt xorB)
theorem C18.wblockDec32_eq_spec (K : BitVec 256) (d : Bytes) (h32 : 32 ≤ d.length) (hu : d.length < 2 ^ 32) :
    wblockDecU 4 d (toKey K) = (.ok, Spec.Belt.wblockDec K d) :=
  _root_.BC.Belt.wblockDec32_eq_spec K d h32 hu
end BC.Belt

namespace BC.Belt
open Spec.Belt (blockAt xorB)
/-- hence both targets compute the same function -/
theorem C18.wblockEnc_width_independent (K : BitVec 256) (d : Bytes) (h32 : 32 ≤ d.length) (hu : d.length < 2 ^ 32) :
    wblockEncU 4 d (toKey K) = wblockEncU 8 d (toKey K) :=
  _root_.BC.Belt.wblockEnc_width_independent K d h32 hu
end BC.Belt

namespace BC.Belt
theorem C18.wblockDec_wblockEnc' (data : Bytes) (key : Key) (h : 32 ≤ data.length) :
    wblockDec (wblockEnc data key).2 key = (.ok, data) :=
  _root_.BC.Belt.wblockDec_wblockEnc data key h
end BC.Belt

namespace BC.Belt
theorem C18.wblockEnc_wblockDec' (data : Bytes) (key : Key) (h : 32 ≤ data.length) :
    wblockEnc (wblockDec data key).2 key = (.ok, data) :=
  _root_.BC.Belt.wblockEnc_wblockDec data key h
end BC.Belt

namespace BC.Belt
theorem C18.wblockEnc_short (data : Bytes) (key : Key) (h : data.length < 32) :
    wblockEnc data key = (.invalidLength, data) :=
  _root_.BC.Belt.wblockEnc_short data key h
end BC.Belt

namespace BC.Belt
theorem C18.wblockDec_short (data : Bytes) (key : Key) (h : data.length < 32) :
    wblockDec data key = (.invalidLength, data) :=
  _root_.BC.Belt.wblockDec_short data key h
end BC.Belt

namespace BC.Belt
theorem C18.wblockEnc_ok (data : Bytes) (key : Key) (h : 32 ≤ data.length) : (wblockEnc data key).1 = .ok :=
  _root_.BC.Belt.wblockEnc_ok data key h
end BC.Belt

namespace BC.Belt
theorem C18.wblockDec_ok (data : Bytes) (key : Key) (h : 32 ≤ data.length) : (wblockDec data key).1 = .ok :=
  _root_.BC.Belt.wblockDec_ok data key h
end BC.Belt
