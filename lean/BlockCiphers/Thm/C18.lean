/-
C18 — theorem file (property theorems only).  Filled in as the models it needs are merged; see DESIGN §7 C18.
-/
namespace BC.Thm.C18
end BC.Thm.C18
