import BlockCiphers.Gen.Decls
/-
C12 — encrypt-only, decrypt-only, converted and cloned instances agree.
-/
namespace BC.Thm.C12
open BC.Gen

/-- union-arm discipline of the AES autodetect wrappers (re-extracted from /repo on every run): in every
`if token.get() { A } else { B }` (construction, `Clone`, `From<&Enc>`, enc/dec dispatch, `Drop`) branch `A` touches
only the `intrinsics` arm and branch `B` only the `soft` arm — the arm that was written at construction under the
same token.  (A wrong arm is undefined behaviour whose effect depends on the optimiser: it is invisible in the
`opt-level = 2` builds of this host and visible at `opt-level = 0`, which is why the check also runs an O0 build.) -/
theorem arm_discipline : ∀ b ∈ tokenBranches, b.2.2.1 = ["intrinsics"] ∧ b.2.2.2 = ["soft"] := by decide +kernel

/-- the dispatch sites are seen (construction ×3, Clone ×3, From<&Enc> ×2, enc ×2, dec ×2, Drop ×3):
the inventory is not empty -/
theorem arm_sites_present : 15 ≤ tokenBranches.length := by decide +kernel

end BC.Thm.C12
