/-
C12 — theorem file (property theorems only).  Filled in as the models it needs are merged; see DESIGN §7 C12.
-/
namespace BC.Thm.C12
end BC.Thm.C12
