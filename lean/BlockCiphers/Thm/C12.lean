import BlockCiphers.Proofs.Kuznyechik
import BlockCiphers.Proofs.AesNi
import BlockCiphers.Proofs.AesNiBytes
import BlockCiphers.Proofs.AesArmv8
import BlockCiphers.Proofs.AesArmv8Bytes
import BlockCiphers.Proofs.KuznyechikNeonModels
import BlockCiphers.Gen.Decls
/-
C12 — encrypt-only, decrypt-only, converted and cloned instances agree
GENERATED statement file (tools/gen_thm.py): every theorem below restates, verbatim, a theorem of a Proofs/ module
and is proved by applying it.  ONLY property theorems and non-vacuity examples live in Thm/.
AES-NI model: Enc/Dec/combined, clones and conversions all compute the combined cipher's functions; union-arm discipline of the autodetect
wrappers over the source.  Kuznyechik routes: by correspondence (14 routes x 3 backends) until its model is merged.
-/

namespace BC.Kuznyechik.Compact
open BC.Spec.Kuznyechik
/-- conversions keep the round keys: the converted instances run the same functions on the same keys -/
theorem C12.kuz_compact_conv_keys (e : EncKeys) : (EncDecKeys.fromEnc e).keys = e.keys ∧ (DecKeys.fromEnc e).keys = e.keys :=
  _root_.BC.Kuznyechik.Compact.conv_keys e
end BC.Kuznyechik.Compact

namespace BC.Kuznyechik.Compact
open BC.Spec.Kuznyechik
/-- `Kuznyechik::from(KuznyechikEnc::new(key))` and `KuznyechikDec::from(…)`: decrypting with the converted keys inverts
encrypting with the encrypt-only keys (and with the combined keys) -/
theorem C12.kuz_compact_conv_roundtrip (key : BitVec 256) (b : BitVec 128) :
    decrypt_block (DecKeys.fromEnc (EncKeys.new key)).keys (encrypt_block (EncKeys.new key).keys b) = b ∧
    decrypt_block (EncDecKeys.fromEnc (EncKeys.new key)).keys (encrypt_block (EncKeys.new key).keys b) = b ∧
    encrypt_block (EncKeys.new key).keys (decrypt_block (DecKeys.fromEnc (EncKeys.new key)).keys b) = b :=
  _root_.BC.Kuznyechik.Compact.conv_roundtrip key b
end BC.Kuznyechik.Compact

namespace BC.Kuznyechik.Soft
open BC.Spec.Kuznyechik
/-- the combined type keeps the encryption keys and stores the same decryption keys as the decrypt-only type -/
theorem C12.kuz_soft_conv_keys (e : EncKeys) :
    (EncDecKeys.fromEnc e).enc = e.keys ∧ (EncDecKeys.fromEnc e).dec = (DecKeys.fromEnc e).keys ∧
    (DecKeys.fromEnc e).keys = inv_enc_keys e.keys :=
  _root_.BC.Kuznyechik.Soft.conv_keys e
end BC.Kuznyechik.Soft

namespace BC.Kuznyechik.Soft
open BC.Spec.Kuznyechik
/-- every route to an encrypting / decrypting instance computes the compact (= standard) function -/
theorem C12.kuz_soft_conv_enc (key : BitVec 256) (b : BitVec 128) :
    encrypt_block (EncDecKeys.fromEnc (EncKeys.new key)).enc b = Compact.encrypt_block (Compact.expand key) b ∧
    encrypt_block (EncKeys.new key).keys b = Compact.encrypt_block (Compact.expand key) b :=
  _root_.BC.Kuznyechik.Soft.conv_enc key b
end BC.Kuznyechik.Soft

namespace BC.Kuznyechik.Soft
open BC.Spec.Kuznyechik
theorem C12.kuz_soft_conv_dec (key : BitVec 256) (b : BitVec 128) :
    decrypt_block (EncDecKeys.fromEnc (EncKeys.new key)).dec b = Compact.decrypt_block (Compact.expand key) b ∧
    decrypt_block (DecKeys.fromEnc (EncKeys.new key)).keys b = Compact.decrypt_block (Compact.expand key) b :=
  _root_.BC.Kuznyechik.Soft.conv_dec key b
end BC.Kuznyechik.Soft

namespace BC.Kuznyechik.Sse2
open BC.Spec.Kuznyechik
theorem C12.kuz_sse2_conv_keys (e : EncKeys) :
    (EncDecKeys.fromEnc e).enc = e.keys ∧ (EncDecKeys.fromEnc e).dec = (DecKeys.fromEnc e).keys ∧
    (DecKeys.fromEnc e).keys = inv_enc_keys e.keys :=
  _root_.BC.Kuznyechik.Sse2.conv_keys e
end BC.Kuznyechik.Sse2

namespace BC.Kuznyechik.Sse2
open BC.Spec.Kuznyechik
theorem C12.kuz_sse2_conv_enc (key : BitVec 256) (b : BitVec 128) :
    encrypt_block (EncDecKeys.fromEnc (EncKeys.new key)).enc b = Compact.encrypt_block (Compact.expand key) b ∧
    encrypt_block (EncKeys.new key).keys b = Compact.encrypt_block (Compact.expand key) b :=
  _root_.BC.Kuznyechik.Sse2.conv_enc key b
end BC.Kuznyechik.Sse2

namespace BC.Kuznyechik.Sse2
open BC.Spec.Kuznyechik
theorem C12.kuz_sse2_conv_dec (key : BitVec 256) (b : BitVec 128) :
    decrypt_block (EncDecKeys.fromEnc (EncKeys.new key)).dec b = Compact.decrypt_block (Compact.expand key) b ∧
    decrypt_block (DecKeys.fromEnc (EncKeys.new key)).keys b = Compact.decrypt_block (Compact.expand key) b :=
  _root_.BC.Kuznyechik.Sse2.conv_dec key b
end BC.Kuznyechik.Sse2

namespace BC.Kuznyechik.Neon
open BC.Spec.Kuznyechik
theorem C12.kuz_neon_conv_keys (e : EncKeys) :
    (EncDecKeys.fromEnc e).enc = e.keys ∧ (EncDecKeys.fromEnc e).dec = (DecKeys.fromEnc e).keys ∧
    (DecKeys.fromEnc e).keys = inv_enc_keys e.keys :=
  _root_.BC.Kuznyechik.Neon.conv_keys e
end BC.Kuznyechik.Neon

namespace BC.Kuznyechik.Neon
open BC.Spec.Kuznyechik
theorem C12.kuz_neon_conv_enc (key : BitVec 256) (b : BitVec 128) :
    encrypt_block (EncDecKeys.fromEnc (EncKeys.new key)).enc b = Compact.encrypt_block (Compact.expand key) b ∧
    encrypt_block (EncKeys.new key).keys b = Compact.encrypt_block (Compact.expand key) b :=
  _root_.BC.Kuznyechik.Neon.conv_enc key b
end BC.Kuznyechik.Neon

namespace BC.Kuznyechik.Neon
open BC.Spec.Kuznyechik
theorem C12.kuz_neon_conv_dec (key : BitVec 256) (b : BitVec 128) :
    decrypt_block (EncDecKeys.fromEnc (EncKeys.new key)).dec b = Compact.decrypt_block (Compact.expand key) b ∧
    decrypt_block (DecKeys.fromEnc (EncKeys.new key)).keys b = Compact.decrypt_block (Compact.expand key) b :=
  _root_.BC.Kuznyechik.Neon.conv_dec key b
end BC.Kuznyechik.Neon

namespace BC.AesNi
open BC BC.X86 BC.Spec.Aes
theorem C12.Enc.clone_eq (e : Enc) : e.clone = e :=
  _root_.BC.AesNi.Enc.clone_eq e
end BC.AesNi

namespace BC.AesNi
open BC BC.X86 BC.Spec.Aes
theorem C12.Dec.clone_eq (d : Dec) : d.clone = d :=
  _root_.BC.AesNi.Dec.clone_eq d
end BC.AesNi

namespace BC.AesNi
open BC BC.X86 BC.Spec.Aes
theorem C12.Combined.clone_eq (c : Combined) : c.clone = c :=
  _root_.BC.AesNi.Combined.clone_eq c
end BC.AesNi

namespace BC.AesNi
open BC BC.X86 BC.Spec.Aes
/-- the encrypt-only type encrypts like the combined type, the decrypt-only type decrypts like it,
whatever conversion produced them (`new`, `From<Enc>`, `From<&Enc>`, clones before or after) -/
theorem C12.enc_only_eq128 (key b : BitVec 128) : (Enc.new128 key).encrypt_block b = encrypt128 key b :=
  _root_.BC.AesNi.enc_only_eq128 key b
end BC.AesNi

namespace BC.AesNi
open BC BC.X86 BC.Spec.Aes
theorem C12.dec_only_eq128 (key b : BitVec 128) : (Dec.new128 key).decrypt_block b = decrypt128 key b :=
  _root_.BC.AesNi.dec_only_eq128 key b
end BC.AesNi

namespace BC.AesNi
open BC BC.X86 BC.Spec.Aes
theorem C12.enc_only_eq192 (key : BitVec 192) (b : BitVec 128) : (Enc.new192 key).encrypt_block b = encrypt192 key b :=
  _root_.BC.AesNi.enc_only_eq192 key b
end BC.AesNi

namespace BC.AesNi
open BC BC.X86 BC.Spec.Aes
theorem C12.dec_only_eq192 (key : BitVec 192) (b : BitVec 128) : (Dec.new192 key).decrypt_block b = decrypt192 key b :=
  _root_.BC.AesNi.dec_only_eq192 key b
end BC.AesNi

namespace BC.AesNi
open BC BC.X86 BC.Spec.Aes
theorem C12.enc_only_eq256 (key : BitVec 256) (b : BitVec 128) : (Enc.new256 key).encrypt_block b = encrypt256 key b :=
  _root_.BC.AesNi.enc_only_eq256 key b
end BC.AesNi

namespace BC.AesNi
open BC BC.X86 BC.Spec.Aes
theorem C12.dec_only_eq256 (key : BitVec 256) (b : BitVec 128) : (Dec.new256 key).decrypt_block b = decrypt256 key b :=
  _root_.BC.AesNi.dec_only_eq256 key b
end BC.AesNi

namespace BC.AesNi
open BC BC.X86 BC.Spec.Aes
theorem C12.combined_from_enc_clone (e : Enc) : (Combined.fromEnc e).clone = Combined.fromEnc e.clone :=
  _root_.BC.AesNi.combined_from_enc_clone e
end BC.AesNi

namespace BC.AesNi
open BC BC.X86 BC.Spec.Aes
theorem C12.dec_from_enc_clone (e : Enc) : (Dec.fromEnc e).clone = Dec.fromEnc e.clone :=
  _root_.BC.AesNi.dec_from_enc_clone e
end BC.AesNi

namespace BC.AesNi
open BC BC.X86 BC.Spec.Aes
theorem C12.combined_dec_eq (e : Enc) : (Combined.fromEnc e).decrypt = Dec.fromEnc e :=
  _root_.BC.AesNi.combined_dec_eq e
end BC.AesNi

namespace BC.AesNi
open BC BC.X86 BC.Spec.Aes
theorem C12.combined_enc_eq (e : Enc) : (Combined.fromEnc e).encrypt = e :=
  _root_.BC.AesNi.combined_enc_eq e
end BC.AesNi

namespace BC.AesNi
open BC BC.X86 BC.Spec.Aes
open BC.Models.Aes
/-- C12 at the registry level: the Enc-only and Dec-only instances of a key are the two halves of the
combined instance (so they encrypt / decrypt exactly like it) -/
theorem C12.newEnc_newDec_halves (f : Fam) (k : Bytes) :
    newCombined f k = (newEnc f k).map (fun e => { encrypt := e, decrypt := Dec.fromEnc e }) ∧
    newDec f k = (newCombined f k).map (·.decrypt) ∧
    newEnc f k = (newCombined f k).map (·.encrypt) :=
  _root_.BC.AesNi.newEnc_newDec_halves f k
end BC.AesNi

namespace BC.AesArmv8
open BC BC.X86 BC.Arm BC.Spec.Aes BC.AesNi
theorem C12.armv8_Enc.clone_eq (e : Enc) : e.clone = e :=
  _root_.BC.AesArmv8.Enc.clone_eq e
end BC.AesArmv8

namespace BC.AesArmv8
open BC BC.X86 BC.Arm BC.Spec.Aes BC.AesNi
theorem C12.armv8_Dec.clone_eq (d : Dec) : d.clone = d :=
  _root_.BC.AesArmv8.Dec.clone_eq d
end BC.AesArmv8

namespace BC.AesArmv8
open BC BC.X86 BC.Arm BC.Spec.Aes BC.AesNi
theorem C12.armv8_Combined.clone_eq (c : Combined) : c.clone = c :=
  _root_.BC.AesArmv8.Combined.clone_eq c
end BC.AesArmv8

namespace BC.AesArmv8
open BC BC.X86 BC.Arm BC.Spec.Aes BC.AesNi
/-- the encrypt-only type encrypts like the combined type, the decrypt-only type decrypts like it -/
theorem C12.armv8_enc_only_eq128 (key b : BitVec 128) : (Enc.new128 key).encrypt_block b = encrypt128 key b :=
  _root_.BC.AesArmv8.enc_only_eq128 key b
end BC.AesArmv8

namespace BC.AesArmv8
open BC BC.X86 BC.Arm BC.Spec.Aes BC.AesNi
theorem C12.armv8_dec_only_eq128 (key b : BitVec 128) : (Dec.new128 key).decrypt_block b = decrypt128 key b :=
  _root_.BC.AesArmv8.dec_only_eq128 key b
end BC.AesArmv8

namespace BC.AesArmv8
open BC BC.X86 BC.Arm BC.Spec.Aes BC.AesNi
theorem C12.armv8_enc_only_eq192 (key : BitVec 192) (b : BitVec 128) : (Enc.new192 key).encrypt_block b = encrypt192 key b :=
  _root_.BC.AesArmv8.enc_only_eq192 key b
end BC.AesArmv8

namespace BC.AesArmv8
open BC BC.X86 BC.Arm BC.Spec.Aes BC.AesNi
theorem C12.armv8_dec_only_eq192 (key : BitVec 192) (b : BitVec 128) : (Dec.new192 key).decrypt_block b = decrypt192 key b :=
  _root_.BC.AesArmv8.dec_only_eq192 key b
end BC.AesArmv8

namespace BC.AesArmv8
open BC BC.X86 BC.Arm BC.Spec.Aes BC.AesNi
theorem C12.armv8_enc_only_eq256 (key : BitVec 256) (b : BitVec 128) : (Enc.new256 key).encrypt_block b = encrypt256 key b :=
  _root_.BC.AesArmv8.enc_only_eq256 key b
end BC.AesArmv8

namespace BC.AesArmv8
open BC BC.X86 BC.Arm BC.Spec.Aes BC.AesNi
theorem C12.armv8_dec_only_eq256 (key : BitVec 256) (b : BitVec 128) : (Dec.new256 key).decrypt_block b = decrypt256 key b :=
  _root_.BC.AesArmv8.dec_only_eq256 key b
end BC.AesArmv8

namespace BC.AesArmv8
open BC BC.X86 BC.Arm BC.Spec.Aes BC.AesNi
/-- the direct constructors are the conversions of the encrypt-only instance (any key length `L`, any `N`) -/
theorem C12.armv8_combined_new_eq_fromEnc (key : Bytes) (n : Nat) : Combined.new key n = Combined.fromEnc (Enc.new key n) :=
  _root_.BC.AesArmv8.combined_new_eq_fromEnc key n
end BC.AesArmv8

namespace BC.AesArmv8
open BC BC.X86 BC.Arm BC.Spec.Aes BC.AesNi
theorem C12.armv8_dec_new_eq_fromEnc (key : Bytes) (n : Nat) : Dec.new key n = Dec.fromEnc (Enc.new key n) :=
  _root_.BC.AesArmv8.dec_new_eq_fromEnc key n
end BC.AesArmv8

namespace BC.AesArmv8
open BC BC.X86 BC.Arm BC.Spec.Aes BC.AesNi
theorem C12.armv8_combined_from_enc_clone (e : Enc) : (Combined.fromEnc e).clone = Combined.fromEnc e.clone :=
  _root_.BC.AesArmv8.combined_from_enc_clone e
end BC.AesArmv8

namespace BC.AesArmv8
open BC BC.X86 BC.Arm BC.Spec.Aes BC.AesNi
theorem C12.armv8_dec_from_enc_clone (e : Enc) : (Dec.fromEnc e).clone = Dec.fromEnc e.clone :=
  _root_.BC.AesArmv8.dec_from_enc_clone e
end BC.AesArmv8

namespace BC.AesArmv8
open BC BC.X86 BC.Arm BC.Spec.Aes BC.AesNi
theorem C12.armv8_combined_dec_eq (e : Enc) : (Combined.fromEnc e).decrypt = Dec.fromEnc e :=
  _root_.BC.AesArmv8.combined_dec_eq e
end BC.AesArmv8

namespace BC.AesArmv8
open BC BC.X86 BC.Arm BC.Spec.Aes BC.AesNi
theorem C12.armv8_combined_enc_eq (e : Enc) : (Combined.fromEnc e).encrypt = e :=
  _root_.BC.AesArmv8.combined_enc_eq e
end BC.AesArmv8

namespace BC.AesArmv8
open BC BC.X86 BC.Spec.Aes BC.AesNi
open BC.Models.Aes BC.Models.AesArmv8
/-- C12 at the registry level: the Enc-only and Dec-only instances of a key are the two halves of the
combined instance (so they encrypt / decrypt exactly like it) -/
theorem C12.armv8_newEnc_newDec_halves (f : Fam) (k : Bytes) :
    Models.AesArmv8.newCombined f k =
      (Models.AesArmv8.newEnc f k).map (fun e => { encrypt := e, decrypt := Dec.fromEnc e }) ∧
    Models.AesArmv8.newDec f k = (Models.AesArmv8.newCombined f k).map (·.decrypt) ∧
    Models.AesArmv8.newEnc f k = (Models.AesArmv8.newCombined f k).map (·.encrypt) :=
  _root_.BC.AesArmv8.newEnc_newDec_halves f k
end BC.AesArmv8

namespace BC.AesArmv8
open BC BC.X86 BC.Spec.Aes BC.AesNi
open BC.Models.Aes BC.Models.AesArmv8
/-- C12: every route of the `route` line reaches an instance that encrypts / decrypts like the combined type
built directly from the key -/
theorem C12.armv8_route_instances (k : Bytes) (n : Nat) :
    Combined.fromEnc (Enc.new k n) = Combined.new k n ∧
    Dec.fromEnc (Enc.new k n) = Dec.new k n ∧
    (Combined.new k n).clone = Combined.new k n ∧ (Enc.new k n).clone = Enc.new k n ∧
    (Dec.new k n).clone = Dec.new k n ∧
    (Combined.fromEnc (Enc.new k n)).clone = Combined.new k n ∧ (Dec.fromEnc (Enc.new k n)).clone = Dec.new k n ∧
    Combined.fromEnc (Enc.new k n).clone = Combined.new k n ∧ Dec.fromEnc (Enc.new k n).clone = Dec.new k n ∧
    (Combined.new k n).decrypt = Dec.new k n ∧ (Combined.new k n).encrypt = Enc.new k n :=
  _root_.BC.AesArmv8.route_instances k n
end BC.AesArmv8

namespace BC.Models.KuznyechikNeon
open BC BC.Kuznyechik
/-- `NeonKuznyechik` = `Kuznyechik` of the registry, as values, for every key string -/
theorem C12.neon_new_eq (k : Bytes) : kuznyechik.new k = Models.Kuznyechik.kuznyechik.new k :=
  _root_.BC.Models.KuznyechikNeon.new_eq k
end BC.Models.KuznyechikNeon

namespace BC.Models.KuznyechikNeon
open BC BC.Kuznyechik
theorem C12.neon_newEnc_eq (k : Bytes) : kuznyechikEnc.new k = Models.Kuznyechik.kuznyechikEnc.new k :=
  _root_.BC.Models.KuznyechikNeon.newEnc_eq k
end BC.Models.KuznyechikNeon

namespace BC.Models.KuznyechikNeon
open BC BC.Kuznyechik
theorem C12.neon_newDec_eq (k : Bytes) : kuznyechikDec.new k = Models.Kuznyechik.kuznyechikDec.new k :=
  _root_.BC.Models.KuznyechikNeon.newDec_eq k
end BC.Models.KuznyechikNeon

namespace BC.Models.KuznyechikNeon
open BC BC.Kuznyechik
/-- C12 for the NEON key types: every route of the `route` line reaches the freshly keyed cipher of its target type —
`c.*` → `Kuznyechik::new`, `e.*` → `KuznyechikEnc::new`, `d.*` → `KuznyechikDec::new` (all defined through
`EncKeys::new` in lib.rs; `Clone` is the identity on the model values) -/
theorem C12.neon_routeKeyed_fresh (e : EncKeys) :
    (∀ r ∈ ["c.new", "c.from_e", "c.from_eref", "c.clone", "c.clone_from_e", "c.from_eclone"],
      routeKeyed r e = some (keyedC (Neon.EncDecKeys.fromEnc e))) ∧
    (∀ r ∈ ["e.new", "e.clone"], routeKeyed r e = some (keyedE e)) ∧
    (∀ r ∈ ["d.new", "d.from_e", "d.from_eref", "d.clone", "d.clone_from_e", "d.from_eclone"],
      routeKeyed r e = some (keyedD (Neon.DecKeys.fromEnc e))) :=
  _root_.BC.Models.KuznyechikNeon.routeKeyed_fresh e
end BC.Models.KuznyechikNeon

namespace BC.Models.KuznyechikNeon
open BC BC.Kuznyechik
/-- the three lists above are all the routes of the line protocol -/
theorem C12.neon_routes_complete : ∀ r ∈ Models.Aes.routeNames,
    r ∈ ["c.new", "c.from_e", "c.from_eref", "c.clone", "c.clone_from_e", "c.from_eclone"] ++ ["e.new", "e.clone"] ++
      ["d.new", "d.from_e", "d.from_eref", "d.clone", "d.clone_from_e", "d.from_eclone"] :=
  _root_.BC.Models.KuznyechikNeon.routes_complete
end BC.Models.KuznyechikNeon

namespace BC.Thm.C12
open BC.Gen

/-- union-arm discipline of the AES autodetect wrappers (re-extracted from /repo on every run): in every
`if token.get() { A } else { B }` (construction, `Clone`, `From<&Enc>`, enc/dec dispatch, `Drop`) branch `A` touches
only the `intrinsics` arm and branch `B` only the `soft` arm — the arm that was written at construction under the
same token.  (A wrong arm is undefined behaviour whose effect depends on the optimiser: it is invisible in the
`opt-level = 2` builds of this host and visible at `opt-level = 0`, which is why the check also runs an O0 build.) -/
theorem arm_discipline : ∀ b ∈ tokenBranches, b.2.2.1 = ["intrinsics"] ∧ b.2.2.2 = ["soft"] := by decide +kernel

/-- the dispatch sites are seen (construction ×3, Clone ×3, From<&Enc> ×2, enc ×2, dec ×2, Drop ×3):
the inventory is not empty -/
theorem arm_sites_present : 15 ≤ tokenBranches.length := by decide +kernel

end BC.Thm.C12

