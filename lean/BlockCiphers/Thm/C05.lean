/-
C05 — theorem file (property theorems only).  Filled in as the models it needs are merged; see DESIGN §7 C05.
-/
namespace BC.Thm.C05
end BC.Thm.C05
