import BlockCiphers.Proofs.GenTables
import BlockCiphers.Proofs.DesSpec
import BlockCiphers.Proofs.DesCompl
import BlockCiphers.Proofs.DesSpecPerm
import BlockCiphers.Proofs.DesSpecSbox
import BlockCiphers.Proofs.DesPermute
import BlockCiphers.Proofs.GenFuncsDes
/-
C05 — DES and Triple-DES conform to FIPS 46-3 / SP 800-67 and their key relations
GENERATED statement file (tools/gen_thm.py): every theorem below restates, verbatim, a theorem of a Proofs/ module
and is proved by applying it.  ONLY property theorems and non-vacuity examples live in Thm/.
-/

namespace BC.GenFuncs.Des
open BC.Gen.Fn
theorem C05.src_des_pc1_eq (x : BitVec 64) : des_pc1 x = BC.Des.pc1 x :=
  _root_.BC.GenFuncs.Des.pc1_eq x
end BC.GenFuncs.Des

namespace BC.GenFuncs.Des
open BC.Gen.Fn
theorem C05.src_des_pc2_eq (x : BitVec 64) : des_pc2 x = BC.Des.pc2 x :=
  _root_.BC.GenFuncs.Des.pc2_eq x
end BC.GenFuncs.Des

namespace BC.GenFuncs.Des
open BC.Gen.Fn
theorem C05.src_des_fp_eq (x : BitVec 64) : des_fp x = BC.Des.fp x :=
  _root_.BC.GenFuncs.Des.fp_eq x
end BC.GenFuncs.Des

namespace BC.GenFuncs.Des
open BC.Gen.Fn
theorem C05.src_des_ip_eq (x : BitVec 64) : des_ip x = BC.Des.ip x :=
  _root_.BC.GenFuncs.Des.ip_eq x
end BC.GenFuncs.Des

namespace BC.GenFuncs.Des
open BC.Gen.Fn
theorem C05.src_des_e_eq (x : BitVec 64) : des_e x = BC.Des.e x :=
  _root_.BC.GenFuncs.Des.e_eq x
end BC.GenFuncs.Des

namespace BC.GenFuncs.Des
open BC.Gen.Fn
theorem C05.src_des_p_eq (x : BitVec 64) : des_p x = BC.Des.p x :=
  _root_.BC.GenFuncs.Des.p_eq x
end BC.GenFuncs.Des

namespace BC.GenFuncs.Des
open BC.Gen.Fn
theorem C05.src_des_sbox_entry : ∀ i : Fin 8, ∀ n : Fin 64,
    BC.Gen.tblAt BC.Gen.des_SBOXES (64 * i.val + n.val) 8 = (BC.Des.SBOXES.getD i.val #[]).getD n.val 0#8 :=
  _root_.BC.GenFuncs.Des.sbox_entry
end BC.GenFuncs.Des

namespace BC.GenFuncs.Des
open BC.Gen.Fn
theorem C05.src_des_mask_lt (v : BitVec 64) : (v &&& 0x3f#64).toNat < 64 :=
  _root_.BC.GenFuncs.Des.mask_lt v
end BC.GenFuncs.Des

namespace BC.GenFuncs.Des
open BC.Gen.Fn
theorem C05.src_des_sbox_at (i : Nat) (hi : i < 8) (v : BitVec 64) :
    (BC.Gen.tblAt BC.Gen.des_SBOXES (64 * i + (v &&& 0x3f#64).toNat) 8).setWidth 64 = BC.Des.sboxAt i (v &&& 0x3f#64) :=
  _root_.BC.GenFuncs.Des.sbox_at i hi v
end BC.GenFuncs.Des

namespace BC.GenFuncs.Des
open BC.Gen.Fn
theorem C05.src_des_apply_sboxes_eq (x : BitVec 64) : des_apply_sboxes x = BC.Des.applySboxes x :=
  _root_.BC.GenFuncs.Des.apply_sboxes_eq x
end BC.GenFuncs.Des

namespace BC.GenFuncs.Des
open BC.Gen.Fn
theorem C05.src_des_f_eq (x k : BitVec 64) : des_f x k = BC.Des.f x k :=
  _root_.BC.GenFuncs.Des.f_eq x k
end BC.GenFuncs.Des

namespace BC.GenFuncs.Des
open BC.Gen.Fn
theorem C05.src_des_round_eq (x k : BitVec 64) : des_round x k = BC.Des.round x k :=
  _root_.BC.GenFuncs.Des.round_eq x k
end BC.GenFuncs.Des

namespace BC.GenTables
open BC.Gen
theorem C05.des_SHIFTS_eq : des_SHIFTS.toList = BC.Des.SHIFTS :=
  _root_.BC.GenTables.des_SHIFTS_eq
end BC.GenTables

namespace BC.GenTables
open BC.Gen
theorem C05.des_SBOXES_eq : des_SBOXES.toList = (BC.Des.SBOXES.toList.map nats8).flatten :=
  _root_.BC.GenTables.des_SBOXES_eq
end BC.GenTables

namespace BC.Des
open BC.Spec.Des (permute PC1 PC2 E P IP FP LR iteration schedule roundKeys cipher)
/-- C05: `Des::new(key).encrypt_block(b)` = FIPS 46-3 DES encryption, for every key and block -/
theorem C05.desEnc_eq_spec (key b : BitVec 64) : desEnc key b = BC.Spec.Des.des key b :=
  _root_.BC.Des.desEnc_eq_spec key b
end BC.Des

namespace BC.Des
open BC.Spec.Des (permute PC1 PC2 E P IP FP LR iteration schedule roundKeys cipher)
/-- C05: `Des::new(key).decrypt_block(b)` = FIPS 46-3 DES decryption, for every key and block -/
theorem C05.desDec_eq_spec (key b : BitVec 64) : desDec key b = BC.Spec.Des.desInv key b :=
  _root_.BC.Des.desDec_eq_spec key b
end BC.Des

namespace BC.Des
open BC.Spec.Des (permute PC1 PC2 E P IP FP LR iteration schedule roundKeys cipher)
theorem C05.ede3Enc_eq_spec (key : BitVec 192) (b : BitVec 64) :
    ede3Enc (Tdes3.new key) b = BC.Spec.Des.tdeaEnc (k1of3 key) (k2of3 key) (k3of3 key) b :=
  _root_.BC.Des.ede3Enc_eq_spec key b
end BC.Des

namespace BC.Des
open BC.Spec.Des (permute PC1 PC2 E P IP FP LR iteration schedule roundKeys cipher)
theorem C05.ede3Dec_eq_spec (key : BitVec 192) (b : BitVec 64) :
    ede3Dec (Tdes3.new key) b = BC.Spec.Des.tdeaDec (k1of3 key) (k2of3 key) (k3of3 key) b :=
  _root_.BC.Des.ede3Dec_eq_spec key b
end BC.Des

namespace BC.Des
open BC.Spec.Des (permute PC1 PC2 E P IP FP LR iteration schedule roundKeys cipher)
theorem C05.eee3Enc_eq_spec (key : BitVec 192) (b : BitVec 64) :
    eee3Enc (Tdes3.new key) b = BC.Spec.Des.eeeEnc (k1of3 key) (k2of3 key) (k3of3 key) b :=
  _root_.BC.Des.eee3Enc_eq_spec key b
end BC.Des

namespace BC.Des
open BC.Spec.Des (permute PC1 PC2 E P IP FP LR iteration schedule roundKeys cipher)
theorem C05.eee3Dec_eq_spec (key : BitVec 192) (b : BitVec 64) :
    eee3Dec (Tdes3.new key) b = BC.Spec.Des.eeeDec (k1of3 key) (k2of3 key) (k3of3 key) b :=
  _root_.BC.Des.eee3Dec_eq_spec key b
end BC.Des

namespace BC.Des
open BC.Spec.Des (permute PC1 PC2 E P IP FP LR iteration schedule roundKeys cipher)
/-- two-key forms: keying option 2, `K3 = K1` -/
theorem C05.ede2Enc_eq_spec (key : BitVec 128) (b : BitVec 64) :
    ede2Enc (Tdes2.new key) b = BC.Spec.Des.tdeaEnc (k1of2 key) (k2of2 key) (k1of2 key) b :=
  _root_.BC.Des.ede2Enc_eq_spec key b
end BC.Des

namespace BC.Des
open BC.Spec.Des (permute PC1 PC2 E P IP FP LR iteration schedule roundKeys cipher)
theorem C05.ede2Dec_eq_spec (key : BitVec 128) (b : BitVec 64) :
    ede2Dec (Tdes2.new key) b = BC.Spec.Des.tdeaDec (k1of2 key) (k2of2 key) (k1of2 key) b :=
  _root_.BC.Des.ede2Dec_eq_spec key b
end BC.Des

namespace BC.Des
open BC.Spec.Des (permute PC1 PC2 E P IP FP LR iteration schedule roundKeys cipher)
theorem C05.eee2Enc_eq_spec (key : BitVec 128) (b : BitVec 64) :
    eee2Enc (Tdes2.new key) b = BC.Spec.Des.eeeEnc (k1of2 key) (k2of2 key) (k1of2 key) b :=
  _root_.BC.Des.eee2Enc_eq_spec key b
end BC.Des

namespace BC.Des
open BC.Spec.Des (permute PC1 PC2 E P IP FP LR iteration schedule roundKeys cipher)
theorem C05.eee2Dec_eq_spec (key : BitVec 128) (b : BitVec 64) :
    eee2Dec (Tdes2.new key) b = BC.Spec.Des.eeeDec (k1of2 key) (k2of2 key) (k1of2 key) b :=
  _root_.BC.Des.eee2Dec_eq_spec key b
end BC.Des

namespace BC.Des
open BC.Spec.Des (permute PC1 PC2 E P IP FP LR iteration schedule roundKeys cipher)
theorem C05.genKeys_parity (k : BitVec 64) : genKeys k = genKeys (k ||| 0x0101010101010101#64) :=
  _root_.BC.Des.genKeys_parity k
end BC.Des

namespace BC.Des
open BC.Spec.Des (permute PC1 PC2 E P IP FP LR iteration schedule roundKeys cipher)
/-- EDE with all three parts equal is single DES (the backward-compatibility property of SP 800-67 §3.2) -/
theorem C05.ede3_equal_parts (k b : BitVec 64) :
    ede3Enc (Tdes3.new (k ++ k ++ k)) b = desEnc k b :=
  _root_.BC.Des.ede3_equal_parts k b
end BC.Des

namespace BC.Des
open BC.Spec.Des (permute PC1 PC2 E P IP FP LR iteration schedule roundKeys cipher)
theorem C05.ede2_equal_parts (k b : BitVec 64) :
    ede2Enc (Tdes2.new (k ++ k)) b = desEnc k b :=
  _root_.BC.Des.ede2_equal_parts k b
end BC.Des

namespace BC.Des
open BC.Spec.Des (permute PC1 PC2 E P IP FP LR iteration schedule roundKeys cipher)
/-- the two-key form is the three-key form with the first part repeated as third part -/
theorem C05.ede2_eq_ede3 (k1 k2 b : BitVec 64) :
    ede2Enc (Tdes2.new (k1 ++ k2)) b = ede3Enc (Tdes3.new (k1 ++ k2 ++ k1)) b :=
  _root_.BC.Des.ede2_eq_ede3 k1 k2 b
end BC.Des

namespace BC.Des
open BC.Spec.Des (permute PC1 PC2 E P IP FP LR iteration schedule roundKeys cipher)
theorem C05.ede2Dec_eq_ede3Dec (k1 k2 b : BitVec 64) :
    ede2Dec (Tdes2.new (k1 ++ k2)) b = ede3Dec (Tdes3.new (k1 ++ k2 ++ k1)) b :=
  _root_.BC.Des.ede2Dec_eq_ede3Dec k1 k2 b
end BC.Des

namespace BC.Des
open BC.Spec.Des (permute PC1 PC2 E P IP FP LR iteration schedule roundKeys cipher)
theorem C05.eee2_eq_eee3 (k1 k2 b : BitVec 64) :
    eee2Enc (Tdes2.new (k1 ++ k2)) b = eee3Enc (Tdes3.new (k1 ++ k2 ++ k1)) b :=
  _root_.BC.Des.eee2_eq_eee3 k1 k2 b
end BC.Des

namespace BC.Des
/-- complementation property of the Rust model: `Des(¬k).encrypt(¬b) = ¬Des(k).encrypt(b)` -/
theorem C05.desEnc_complement (k b : BitVec 64) : desEnc (~~~k) (~~~b) = ~~~desEnc k b :=
  _root_.BC.Des.desEnc_complement k b
end BC.Des

namespace BC.Des
theorem C05.desDec_complement (k b : BitVec 64) : desDec (~~~k) (~~~b) = ~~~desDec k b :=
  _root_.BC.Des.desDec_complement k b
end BC.Des

namespace BC.Des
open BC.Spec.Des (permute bit IP FP E P PC1 PC2)
theorem C05.ip_eq_table (x : BitVec 64) : ip x = permute IP 64 x :=
  _root_.BC.Des.ip_eq_table x
end BC.Des

namespace BC.Des
open BC.Spec.Des (permute bit IP FP E P PC1 PC2)
theorem C05.fp_eq_table (x : BitVec 64) : fp x = permute FP 64 x :=
  _root_.BC.Des.fp_eq_table x
end BC.Des

namespace BC.Des
open BC.Spec.Des (permute bit IP FP E P PC1 PC2)
/-- `e` reads R from the top 32 bits and returns E(R) in the top 48 bits (no hypothesis needed) -/
theorem C05.e_eq_table (x : BitVec 64) :
    e x = (permute E 48 (x.extractLsb' 32 32)).setWidth 64 <<< 16 :=
  _root_.BC.Des.e_eq_table x
end BC.Des

namespace BC.Des
open BC.Spec.Des (permute bit IP FP E P PC1 PC2)
/-- `p`: reads the S-box output from the top 32 bits, returns P(.) in the top 32 bits.
Holds for every u64 (the low 32 bits are never read), so no range hypothesis is needed. -/
theorem C05.p_eq_table (x : BitVec 64) :
    p x = (permute P 32 (x.extractLsb' 32 32)).setWidth 64 <<< 32 :=
  _root_.BC.Des.p_eq_table x
end BC.Des

namespace BC.Des
open BC.Spec.Des (permute bit IP FP E P PC1 PC2)
/-- `pc1`: PC-1 of the key in the top 56 bits -/
theorem C05.pc1_eq_table (k : BitVec 64) :
    pc1 k = (permute PC1 56 k).setWidth 64 <<< 8 :=
  _root_.BC.Des.pc1_eq_table k
end BC.Des

namespace BC.Des
open BC.Spec.Des (permute bit IP FP E P PC1 PC2)
/-- `pc2`: reads C‖D from the top 56 bits, returns PC-2(C‖D) in the top 48 bits.
Holds for every u64 (the low 8 bits are never read), so no range hypothesis is needed. -/
theorem C05.pc2_eq_table (x : BitVec 64) :
    pc2 x = (permute PC2 48 (x.extractLsb' 8 56)).setWidth 64 <<< 16 :=
  _root_.BC.Des.pc2_eq_table x
end BC.Des

namespace BC.Des
open BC.Spec.Des (S sboxes)
/-- all 8 × 64 entries: `SBOXES[i][v] = S_{i+1}(v)` -/
theorem C05.sboxAt_eq_S : ∀ i : Fin 8, ∀ v : BitVec 6,
    sboxAt i.val (v.setWidth 64) = (S i.val v).setWidth 64 :=
  _root_.BC.Des.sboxAt_eq_S
end BC.Des

namespace BC.Spec.Des
/-- the textbook reading of a permutation / selection table -/
theorem C05.permute_getMsbD {w : Nat} (table : List Nat) (x : BitVec w) (j : Nat) (hj : j < table.length) :
    (permute table table.length x).getMsbD j = bit x (table.getD j 0) :=
  _root_.BC.Spec.Des.permute_getMsbD table x j hj
end BC.Spec.Des
