import BlockCiphers.Proofs.AesNi
import BlockCiphers.Proofs.AesNiBytes
import BlockCiphers.Proofs.AesNiPar
import BlockCiphers.Proofs.AesSboxTable
import BlockCiphers.Proofs.AesFixslice
import BlockCiphers.Proofs.GenFuncsFs64
import BlockCiphers.Proofs.GenFuncsFs32
import BlockCiphers.Proofs.AesArmv8
import BlockCiphers.Proofs.AesArmv8Bytes
import BlockCiphers.Proofs.AesArmv8Par
import BlockCiphers.Proofs.AesArmv8GenTables
/-
C02 — AES types compute FIPS-197 under every backend and key size
GENERATED statement file (tools/gen_thm.py): every theorem below restates, verbatim, a theorem of a Proofs/ module
and is proved by applying it.  ONLY property theorems and non-vacuity examples live in Thm/.
AES-NI model = FIPS-197 (Spec/Aes.lean: computed S-box, MixColumns as the matrix product, KeyExpansion) for the three key sizes, all keys,
all blocks, both directions, incl. the 9-lane parallel form; fixslice64 and fixslice32, normal and compact = FIPS-197 likewise (soft_conforms_N).
ARMv8 Cryptography Extensions backend (Impl/AesArmv8.lean; its source text is executed by the harness over software intrinsics): = FIPS-197 for the three key sizes (armv8_*).
-/

namespace BC.GenFuncs.AesFs64
open BC.Gen.Fn
open BC.AesFs64 in
theorem C02.src_fs64_sub_bytes_eq (s : BC.AesFs64.St) :
    fs64_sub_bytes s.s0 s.s1 s.s2 s.s3 s.s4 s.s5 s.s6 s.s7 = tup (BC.AesFs64.sub_bytes s) :=
  _root_.BC.GenFuncs.AesFs64.sub_bytes_eq s
end BC.GenFuncs.AesFs64

namespace BC.GenFuncs.AesFs64
open BC.Gen.Fn
theorem C02.src_fs64_inv_sub_bytes_eq (s : BC.AesFs64.St) :
    fs64_inv_sub_bytes s.s0 s.s1 s.s2 s.s3 s.s4 s.s5 s.s6 s.s7 = tup (BC.AesFs64.inv_sub_bytes s) :=
  _root_.BC.GenFuncs.AesFs64.inv_sub_bytes_eq s
end BC.GenFuncs.AesFs64

namespace BC.GenFuncs.AesFs64
open BC.Gen.Fn
theorem C02.src_fs64_sub_bytes_nots_eq (s : BC.AesFs64.St) :
    fs64_sub_bytes_nots s.s0 s.s1 s.s2 s.s3 s.s4 s.s5 s.s6 s.s7 = tup (BC.AesFs64.sub_bytes_nots s) :=
  _root_.BC.GenFuncs.AesFs64.sub_bytes_nots_eq s
end BC.GenFuncs.AesFs64

namespace BC.GenFuncs.AesFs64
open BC.Gen.Fn
theorem C02.src_fs64_shift_rows_1_eq (s : BC.AesFs64.St) :
    fs64_shift_rows_1 s.s0 s.s1 s.s2 s.s3 s.s4 s.s5 s.s6 s.s7 = tup (BC.AesFs64.shift_rows_1 s) :=
  _root_.BC.GenFuncs.AesFs64.shift_rows_1_eq s
end BC.GenFuncs.AesFs64

namespace BC.GenFuncs.AesFs64
open BC.Gen.Fn
theorem C02.src_fs64_inv_shift_rows_1_eq (s : BC.AesFs64.St) :
    fs64_inv_shift_rows_1 s.s0 s.s1 s.s2 s.s3 s.s4 s.s5 s.s6 s.s7 = tup (BC.AesFs64.inv_shift_rows_1 s) :=
  _root_.BC.GenFuncs.AesFs64.inv_shift_rows_1_eq s
end BC.GenFuncs.AesFs64

namespace BC.GenFuncs.AesFs64
open BC.Gen.Fn
theorem C02.src_fs64_shift_rows_2_eq (s : BC.AesFs64.St) :
    fs64_shift_rows_2 s.s0 s.s1 s.s2 s.s3 s.s4 s.s5 s.s6 s.s7 = tup (BC.AesFs64.shift_rows_2 s) :=
  _root_.BC.GenFuncs.AesFs64.shift_rows_2_eq s
end BC.GenFuncs.AesFs64

namespace BC.GenFuncs.AesFs64
open BC.Gen.Fn
theorem C02.src_fs64_inv_shift_rows_2_eq (s : BC.AesFs64.St) :
    fs64_inv_shift_rows_2 s.s0 s.s1 s.s2 s.s3 s.s4 s.s5 s.s6 s.s7 = tup (BC.AesFs64.inv_shift_rows_2 s) :=
  _root_.BC.GenFuncs.AesFs64.inv_shift_rows_2_eq s
end BC.GenFuncs.AesFs64

namespace BC.GenFuncs.AesFs64
open BC.Gen.Fn
theorem C02.src_fs64_shift_rows_3_eq (s : BC.AesFs64.St) :
    fs64_shift_rows_3 s.s0 s.s1 s.s2 s.s3 s.s4 s.s5 s.s6 s.s7 = tup (BC.AesFs64.shift_rows_3 s) :=
  _root_.BC.GenFuncs.AesFs64.shift_rows_3_eq s
end BC.GenFuncs.AesFs64

namespace BC.GenFuncs.AesFs64
open BC.Gen.Fn
theorem C02.src_fs64_inv_shift_rows_3_eq (s : BC.AesFs64.St) :
    fs64_inv_shift_rows_3 s.s0 s.s1 s.s2 s.s3 s.s4 s.s5 s.s6 s.s7 = tup (BC.AesFs64.inv_shift_rows_3 s) :=
  _root_.BC.GenFuncs.AesFs64.inv_shift_rows_3_eq s
end BC.GenFuncs.AesFs64

namespace BC.GenFuncs.AesFs64
open BC.Gen.Fn
theorem C02.src_fs64_mix_columns_0_eq (s : BC.AesFs64.St) :
    fs64_mix_columns_0 s.s0 s.s1 s.s2 s.s3 s.s4 s.s5 s.s6 s.s7 = tup (BC.AesFs64.mix_columns_0 s) :=
  _root_.BC.GenFuncs.AesFs64.mix_columns_0_eq s
end BC.GenFuncs.AesFs64

namespace BC.GenFuncs.AesFs64
open BC.Gen.Fn
theorem C02.src_fs64_inv_mix_columns_0_eq (s : BC.AesFs64.St) :
    fs64_inv_mix_columns_0 s.s0 s.s1 s.s2 s.s3 s.s4 s.s5 s.s6 s.s7 = tup (BC.AesFs64.inv_mix_columns_0 s) :=
  _root_.BC.GenFuncs.AesFs64.inv_mix_columns_0_eq s
end BC.GenFuncs.AesFs64

namespace BC.GenFuncs.AesFs64
open BC.Gen.Fn
theorem C02.src_fs64_mix_columns_1_eq (s : BC.AesFs64.St) :
    fs64_mix_columns_1 s.s0 s.s1 s.s2 s.s3 s.s4 s.s5 s.s6 s.s7 = tup (BC.AesFs64.mix_columns_1 s) :=
  _root_.BC.GenFuncs.AesFs64.mix_columns_1_eq s
end BC.GenFuncs.AesFs64

namespace BC.GenFuncs.AesFs64
open BC.Gen.Fn
theorem C02.src_fs64_inv_mix_columns_1_eq (s : BC.AesFs64.St) :
    fs64_inv_mix_columns_1 s.s0 s.s1 s.s2 s.s3 s.s4 s.s5 s.s6 s.s7 = tup (BC.AesFs64.inv_mix_columns_1 s) :=
  _root_.BC.GenFuncs.AesFs64.inv_mix_columns_1_eq s
end BC.GenFuncs.AesFs64

namespace BC.GenFuncs.AesFs64
open BC.Gen.Fn
theorem C02.src_fs64_mix_columns_2_eq (s : BC.AesFs64.St) :
    fs64_mix_columns_2 s.s0 s.s1 s.s2 s.s3 s.s4 s.s5 s.s6 s.s7 = tup (BC.AesFs64.mix_columns_2 s) :=
  _root_.BC.GenFuncs.AesFs64.mix_columns_2_eq s
end BC.GenFuncs.AesFs64

namespace BC.GenFuncs.AesFs64
open BC.Gen.Fn
theorem C02.src_fs64_inv_mix_columns_2_eq (s : BC.AesFs64.St) :
    fs64_inv_mix_columns_2 s.s0 s.s1 s.s2 s.s3 s.s4 s.s5 s.s6 s.s7 = tup (BC.AesFs64.inv_mix_columns_2 s) :=
  _root_.BC.GenFuncs.AesFs64.inv_mix_columns_2_eq s
end BC.GenFuncs.AesFs64

namespace BC.GenFuncs.AesFs64
open BC.Gen.Fn
theorem C02.src_fs64_mix_columns_3_eq (s : BC.AesFs64.St) :
    fs64_mix_columns_3 s.s0 s.s1 s.s2 s.s3 s.s4 s.s5 s.s6 s.s7 = tup (BC.AesFs64.mix_columns_3 s) :=
  _root_.BC.GenFuncs.AesFs64.mix_columns_3_eq s
end BC.GenFuncs.AesFs64

namespace BC.GenFuncs.AesFs64
open BC.Gen.Fn
theorem C02.src_fs64_inv_mix_columns_3_eq (s : BC.AesFs64.St) :
    fs64_inv_mix_columns_3 s.s0 s.s1 s.s2 s.s3 s.s4 s.s5 s.s6 s.s7 = tup (BC.AesFs64.inv_mix_columns_3 s) :=
  _root_.BC.GenFuncs.AesFs64.inv_mix_columns_3_eq s
end BC.GenFuncs.AesFs64

namespace BC.GenFuncs.AesFs64
open BC.Gen.Fn
theorem C02.src_fs64_add_round_key_eq (s k : BC.AesFs64.St) :
    fs64_add_round_key s.s0 s.s1 s.s2 s.s3 s.s4 s.s5 s.s6 s.s7 k.s0 k.s1 k.s2 k.s3 k.s4 k.s5 k.s6 k.s7 = tup (BC.AesFs64.add_round_key s k) :=
  _root_.BC.GenFuncs.AesFs64.add_round_key_eq s k
end BC.GenFuncs.AesFs64

namespace BC.GenFuncs.AesFs64
open BC.Gen.Fn
theorem C02.src_fs64_rotate_rows_1_eq (x : BitVec 64) :
    fs64_rotate_rows_1 x = BC.AesFs64.rotate_rows_1 x :=
  _root_.BC.GenFuncs.AesFs64.rotate_rows_1_eq x
end BC.GenFuncs.AesFs64

namespace BC.GenFuncs.AesFs64
open BC.Gen.Fn
theorem C02.src_fs64_rotate_rows_2_eq (x : BitVec 64) :
    fs64_rotate_rows_2 x = BC.AesFs64.rotate_rows_2 x :=
  _root_.BC.GenFuncs.AesFs64.rotate_rows_2_eq x
end BC.GenFuncs.AesFs64

namespace BC.GenFuncs.AesFs64
open BC.Gen.Fn
theorem C02.src_fs64_rotate_rows_and_columns_1_1_eq (x : BitVec 64) :
    fs64_rotate_rows_and_columns_1_1 x = BC.AesFs64.rotate_rows_and_columns_1_1 x :=
  _root_.BC.GenFuncs.AesFs64.rotate_rows_and_columns_1_1_eq x
end BC.GenFuncs.AesFs64

namespace BC.GenFuncs.AesFs64
open BC.Gen.Fn
theorem C02.src_fs64_rotate_rows_and_columns_1_2_eq (x : BitVec 64) :
    fs64_rotate_rows_and_columns_1_2 x = BC.AesFs64.rotate_rows_and_columns_1_2 x :=
  _root_.BC.GenFuncs.AesFs64.rotate_rows_and_columns_1_2_eq x
end BC.GenFuncs.AesFs64

namespace BC.GenFuncs.AesFs64
open BC.Gen.Fn
theorem C02.src_fs64_rotate_rows_and_columns_1_3_eq (x : BitVec 64) :
    fs64_rotate_rows_and_columns_1_3 x = BC.AesFs64.rotate_rows_and_columns_1_3 x :=
  _root_.BC.GenFuncs.AesFs64.rotate_rows_and_columns_1_3_eq x
end BC.GenFuncs.AesFs64

namespace BC.GenFuncs.AesFs64
open BC.Gen.Fn
theorem C02.src_fs64_rotate_rows_and_columns_2_2_eq (x : BitVec 64) :
    fs64_rotate_rows_and_columns_2_2 x = BC.AesFs64.rotate_rows_and_columns_2_2 x :=
  _root_.BC.GenFuncs.AesFs64.rotate_rows_and_columns_2_2_eq x
end BC.GenFuncs.AesFs64

namespace BC.GenFuncs.AesFs64
open BC.Gen.Fn
theorem C02.src_fs64_delta_swap_1_eq (a : BitVec 64) (sh : BitVec 32) (m : BitVec 64) :
    fs64_delta_swap_1 a sh m = BC.AesFs64.delta_swap_1 a sh.toNat m :=
  _root_.BC.GenFuncs.AesFs64.delta_swap_1_eq a sh m
end BC.GenFuncs.AesFs64

namespace BC.GenFuncs.AesFs64
open BC.Gen.Fn
theorem C02.src_fs64_delta_swap_2_eq (a b : BitVec 64) (sh : BitVec 32) (m : BitVec 64) :
    fs64_delta_swap_2 a b sh m = ((BC.AesFs64.delta_swap_2 a b sh.toNat m).a, (BC.AesFs64.delta_swap_2 a b sh.toNat m).b) :=
  _root_.BC.GenFuncs.AesFs64.delta_swap_2_eq a b sh m
end BC.GenFuncs.AesFs64

namespace BC.GenFuncs.AesFs64
open BC.Gen.Fn
theorem C02.src_fs64_bitslice_eq (i0 i1 i2 i3 : BitVec 128) :
    fs64_bitslice i0 i1 i2 i3 = tup (BC.AesFs64.bitslice i0 i1 i2 i3) :=
  _root_.BC.GenFuncs.AesFs64.bitslice_eq i0 i1 i2 i3
end BC.GenFuncs.AesFs64

namespace BC.GenFuncs.AesFs32
open BC.Gen.Fn
open BC.AesFs32 in
theorem C02.src_fs32_sub_bytes_eq (s : BC.AesFs32.St) :
    fs32_sub_bytes s.s0 s.s1 s.s2 s.s3 s.s4 s.s5 s.s6 s.s7 = tup (BC.AesFs32.sub_bytes s) :=
  _root_.BC.GenFuncs.AesFs32.sub_bytes_eq s
end BC.GenFuncs.AesFs32

namespace BC.GenFuncs.AesFs32
open BC.Gen.Fn
theorem C02.src_fs32_inv_sub_bytes_eq (s : BC.AesFs32.St) :
    fs32_inv_sub_bytes s.s0 s.s1 s.s2 s.s3 s.s4 s.s5 s.s6 s.s7 = tup (BC.AesFs32.inv_sub_bytes s) :=
  _root_.BC.GenFuncs.AesFs32.inv_sub_bytes_eq s
end BC.GenFuncs.AesFs32

namespace BC.GenFuncs.AesFs32
open BC.Gen.Fn
theorem C02.src_fs32_sub_bytes_nots_eq (s : BC.AesFs32.St) :
    fs32_sub_bytes_nots s.s0 s.s1 s.s2 s.s3 s.s4 s.s5 s.s6 s.s7 = tup (BC.AesFs32.sub_bytes_nots s) :=
  _root_.BC.GenFuncs.AesFs32.sub_bytes_nots_eq s
end BC.GenFuncs.AesFs32

namespace BC.GenFuncs.AesFs32
open BC.Gen.Fn
theorem C02.src_fs32_shift_rows_1_eq (s : BC.AesFs32.St) :
    fs32_shift_rows_1 s.s0 s.s1 s.s2 s.s3 s.s4 s.s5 s.s6 s.s7 = tup (BC.AesFs32.shift_rows_1 s) :=
  _root_.BC.GenFuncs.AesFs32.shift_rows_1_eq s
end BC.GenFuncs.AesFs32

namespace BC.GenFuncs.AesFs32
open BC.Gen.Fn
theorem C02.src_fs32_inv_shift_rows_1_eq (s : BC.AesFs32.St) :
    fs32_inv_shift_rows_1 s.s0 s.s1 s.s2 s.s3 s.s4 s.s5 s.s6 s.s7 = tup (BC.AesFs32.inv_shift_rows_1 s) :=
  _root_.BC.GenFuncs.AesFs32.inv_shift_rows_1_eq s
end BC.GenFuncs.AesFs32

namespace BC.GenFuncs.AesFs32
open BC.Gen.Fn
theorem C02.src_fs32_shift_rows_2_eq (s : BC.AesFs32.St) :
    fs32_shift_rows_2 s.s0 s.s1 s.s2 s.s3 s.s4 s.s5 s.s6 s.s7 = tup (BC.AesFs32.shift_rows_2 s) :=
  _root_.BC.GenFuncs.AesFs32.shift_rows_2_eq s
end BC.GenFuncs.AesFs32

namespace BC.GenFuncs.AesFs32
open BC.Gen.Fn
theorem C02.src_fs32_inv_shift_rows_2_eq (s : BC.AesFs32.St) :
    fs32_inv_shift_rows_2 s.s0 s.s1 s.s2 s.s3 s.s4 s.s5 s.s6 s.s7 = tup (BC.AesFs32.inv_shift_rows_2 s) :=
  _root_.BC.GenFuncs.AesFs32.inv_shift_rows_2_eq s
end BC.GenFuncs.AesFs32

namespace BC.GenFuncs.AesFs32
open BC.Gen.Fn
theorem C02.src_fs32_shift_rows_3_eq (s : BC.AesFs32.St) :
    fs32_shift_rows_3 s.s0 s.s1 s.s2 s.s3 s.s4 s.s5 s.s6 s.s7 = tup (BC.AesFs32.shift_rows_3 s) :=
  _root_.BC.GenFuncs.AesFs32.shift_rows_3_eq s
end BC.GenFuncs.AesFs32

namespace BC.GenFuncs.AesFs32
open BC.Gen.Fn
theorem C02.src_fs32_inv_shift_rows_3_eq (s : BC.AesFs32.St) :
    fs32_inv_shift_rows_3 s.s0 s.s1 s.s2 s.s3 s.s4 s.s5 s.s6 s.s7 = tup (BC.AesFs32.inv_shift_rows_3 s) :=
  _root_.BC.GenFuncs.AesFs32.inv_shift_rows_3_eq s
end BC.GenFuncs.AesFs32

namespace BC.GenFuncs.AesFs32
open BC.Gen.Fn
theorem C02.src_fs32_mix_columns_0_eq (s : BC.AesFs32.St) :
    fs32_mix_columns_0 s.s0 s.s1 s.s2 s.s3 s.s4 s.s5 s.s6 s.s7 = tup (BC.AesFs32.mix_columns_0 s) :=
  _root_.BC.GenFuncs.AesFs32.mix_columns_0_eq s
end BC.GenFuncs.AesFs32

namespace BC.GenFuncs.AesFs32
open BC.Gen.Fn
theorem C02.src_fs32_inv_mix_columns_0_eq (s : BC.AesFs32.St) :
    fs32_inv_mix_columns_0 s.s0 s.s1 s.s2 s.s3 s.s4 s.s5 s.s6 s.s7 = tup (BC.AesFs32.inv_mix_columns_0 s) :=
  _root_.BC.GenFuncs.AesFs32.inv_mix_columns_0_eq s
end BC.GenFuncs.AesFs32

namespace BC.GenFuncs.AesFs32
open BC.Gen.Fn
theorem C02.src_fs32_mix_columns_1_eq (s : BC.AesFs32.St) :
    fs32_mix_columns_1 s.s0 s.s1 s.s2 s.s3 s.s4 s.s5 s.s6 s.s7 = tup (BC.AesFs32.mix_columns_1 s) :=
  _root_.BC.GenFuncs.AesFs32.mix_columns_1_eq s
end BC.GenFuncs.AesFs32

namespace BC.GenFuncs.AesFs32
open BC.Gen.Fn
theorem C02.src_fs32_inv_mix_columns_1_eq (s : BC.AesFs32.St) :
    fs32_inv_mix_columns_1 s.s0 s.s1 s.s2 s.s3 s.s4 s.s5 s.s6 s.s7 = tup (BC.AesFs32.inv_mix_columns_1 s) :=
  _root_.BC.GenFuncs.AesFs32.inv_mix_columns_1_eq s
end BC.GenFuncs.AesFs32

namespace BC.GenFuncs.AesFs32
open BC.Gen.Fn
theorem C02.src_fs32_mix_columns_2_eq (s : BC.AesFs32.St) :
    fs32_mix_columns_2 s.s0 s.s1 s.s2 s.s3 s.s4 s.s5 s.s6 s.s7 = tup (BC.AesFs32.mix_columns_2 s) :=
  _root_.BC.GenFuncs.AesFs32.mix_columns_2_eq s
end BC.GenFuncs.AesFs32

namespace BC.GenFuncs.AesFs32
open BC.Gen.Fn
theorem C02.src_fs32_inv_mix_columns_2_eq (s : BC.AesFs32.St) :
    fs32_inv_mix_columns_2 s.s0 s.s1 s.s2 s.s3 s.s4 s.s5 s.s6 s.s7 = tup (BC.AesFs32.inv_mix_columns_2 s) :=
  _root_.BC.GenFuncs.AesFs32.inv_mix_columns_2_eq s
end BC.GenFuncs.AesFs32

namespace BC.GenFuncs.AesFs32
open BC.Gen.Fn
theorem C02.src_fs32_mix_columns_3_eq (s : BC.AesFs32.St) :
    fs32_mix_columns_3 s.s0 s.s1 s.s2 s.s3 s.s4 s.s5 s.s6 s.s7 = tup (BC.AesFs32.mix_columns_3 s) :=
  _root_.BC.GenFuncs.AesFs32.mix_columns_3_eq s
end BC.GenFuncs.AesFs32

namespace BC.GenFuncs.AesFs32
open BC.Gen.Fn
theorem C02.src_fs32_inv_mix_columns_3_eq (s : BC.AesFs32.St) :
    fs32_inv_mix_columns_3 s.s0 s.s1 s.s2 s.s3 s.s4 s.s5 s.s6 s.s7 = tup (BC.AesFs32.inv_mix_columns_3 s) :=
  _root_.BC.GenFuncs.AesFs32.inv_mix_columns_3_eq s
end BC.GenFuncs.AesFs32

namespace BC.GenFuncs.AesFs32
open BC.Gen.Fn
theorem C02.src_fs32_add_round_key_eq (s k : BC.AesFs32.St) :
    fs32_add_round_key s.s0 s.s1 s.s2 s.s3 s.s4 s.s5 s.s6 s.s7 k.s0 k.s1 k.s2 k.s3 k.s4 k.s5 k.s6 k.s7 = tup (BC.AesFs32.add_round_key s k) :=
  _root_.BC.GenFuncs.AesFs32.add_round_key_eq s k
end BC.GenFuncs.AesFs32

namespace BC.GenFuncs.AesFs32
open BC.Gen.Fn
theorem C02.src_fs32_rotate_rows_1_eq (x : BitVec 32) :
    fs32_rotate_rows_1 x = BC.AesFs32.rotate_rows_1 x :=
  _root_.BC.GenFuncs.AesFs32.rotate_rows_1_eq x
end BC.GenFuncs.AesFs32

namespace BC.GenFuncs.AesFs32
open BC.Gen.Fn
theorem C02.src_fs32_rotate_rows_2_eq (x : BitVec 32) :
    fs32_rotate_rows_2 x = BC.AesFs32.rotate_rows_2 x :=
  _root_.BC.GenFuncs.AesFs32.rotate_rows_2_eq x
end BC.GenFuncs.AesFs32

namespace BC.GenFuncs.AesFs32
open BC.Gen.Fn
theorem C02.src_fs32_rotate_rows_and_columns_1_1_eq (x : BitVec 32) :
    fs32_rotate_rows_and_columns_1_1 x = BC.AesFs32.rotate_rows_and_columns_1_1 x :=
  _root_.BC.GenFuncs.AesFs32.rotate_rows_and_columns_1_1_eq x
end BC.GenFuncs.AesFs32

namespace BC.GenFuncs.AesFs32
open BC.Gen.Fn
theorem C02.src_fs32_rotate_rows_and_columns_1_2_eq (x : BitVec 32) :
    fs32_rotate_rows_and_columns_1_2 x = BC.AesFs32.rotate_rows_and_columns_1_2 x :=
  _root_.BC.GenFuncs.AesFs32.rotate_rows_and_columns_1_2_eq x
end BC.GenFuncs.AesFs32

namespace BC.GenFuncs.AesFs32
open BC.Gen.Fn
theorem C02.src_fs32_rotate_rows_and_columns_1_3_eq (x : BitVec 32) :
    fs32_rotate_rows_and_columns_1_3 x = BC.AesFs32.rotate_rows_and_columns_1_3 x :=
  _root_.BC.GenFuncs.AesFs32.rotate_rows_and_columns_1_3_eq x
end BC.GenFuncs.AesFs32

namespace BC.GenFuncs.AesFs32
open BC.Gen.Fn
theorem C02.src_fs32_rotate_rows_and_columns_2_2_eq (x : BitVec 32) :
    fs32_rotate_rows_and_columns_2_2 x = BC.AesFs32.rotate_rows_and_columns_2_2 x :=
  _root_.BC.GenFuncs.AesFs32.rotate_rows_and_columns_2_2_eq x
end BC.GenFuncs.AesFs32

namespace BC.GenFuncs.AesFs32
open BC.Gen.Fn
theorem C02.src_fs32_delta_swap_1_eq (a : BitVec 32) (sh : BitVec 32) (m : BitVec 32) :
    fs32_delta_swap_1 a sh m = BC.AesFs32.delta_swap_1 a sh.toNat m :=
  _root_.BC.GenFuncs.AesFs32.delta_swap_1_eq a sh m
end BC.GenFuncs.AesFs32

namespace BC.GenFuncs.AesFs32
open BC.Gen.Fn
theorem C02.src_fs32_delta_swap_2_eq (a b : BitVec 32) (sh : BitVec 32) (m : BitVec 32) :
    fs32_delta_swap_2 a b sh m = ((BC.AesFs32.delta_swap_2 a b sh.toNat m).a, (BC.AesFs32.delta_swap_2 a b sh.toNat m).b) :=
  _root_.BC.GenFuncs.AesFs32.delta_swap_2_eq a b sh m
end BC.GenFuncs.AesFs32

namespace BC.GenFuncs.AesFs32
open BC.Gen.Fn
theorem C02.src_fs32_bitslice_eq (i0 i1 : BitVec 128) :
    fs32_bitslice i0 i1 = tup (BC.AesFs32.bitslice i0 i1) :=
  _root_.BC.GenFuncs.AesFs32.bitslice_eq i0 i1
end BC.GenFuncs.AesFs32

namespace BC.AesNi
open BC BC.X86 BC.Spec.Aes
theorem C02.encrypt128_eq_spec (key : BitVec 128) (b : BitVec 128) :
    encrypt128 key b = Spec.Aes.encrypt (unpackBE 16 key) b :=
  _root_.BC.AesNi.encrypt128_eq_spec key b
end BC.AesNi

namespace BC.AesNi
open BC BC.X86 BC.Spec.Aes
theorem C02.decrypt128_eq_spec (key : BitVec 128) (b : BitVec 128) :
    decrypt128 key b = Spec.Aes.decrypt (unpackBE 16 key) b :=
  _root_.BC.AesNi.decrypt128_eq_spec key b
end BC.AesNi

namespace BC.AesNi
open BC BC.X86 BC.Spec.Aes
theorem C02.encrypt192_eq_spec (key : BitVec 192) (b : BitVec 128) :
    encrypt192 key b = Spec.Aes.encrypt (unpackBE 24 key) b :=
  _root_.BC.AesNi.encrypt192_eq_spec key b
end BC.AesNi

namespace BC.AesNi
open BC BC.X86 BC.Spec.Aes
theorem C02.decrypt192_eq_spec (key : BitVec 192) (b : BitVec 128) :
    decrypt192 key b = Spec.Aes.decrypt (unpackBE 24 key) b :=
  _root_.BC.AesNi.decrypt192_eq_spec key b
end BC.AesNi

namespace BC.AesNi
open BC BC.X86 BC.Spec.Aes
theorem C02.encrypt256_eq_spec (key : BitVec 256) (b : BitVec 128) :
    encrypt256 key b = Spec.Aes.encrypt (unpackBE 32 key) b :=
  _root_.BC.AesNi.encrypt256_eq_spec key b
end BC.AesNi

namespace BC.AesNi
open BC BC.X86 BC.Spec.Aes
theorem C02.decrypt256_eq_spec (key : BitVec 256) (b : BitVec 128) :
    decrypt256 key b = Spec.Aes.decrypt (unpackBE 32 key) b :=
  _root_.BC.AesNi.decrypt256_eq_spec key b
end BC.AesNi

namespace BC.AesNi
open BC BC.X86 BC.Spec.Aes
open BC.Models.Aes
/-- `new_from_slice` accepts exactly the key length of the family (C11 for the AES types) -/
theorem C02.newEnc_isSome (f : Fam) (k : Bytes) : (newEnc f k).isSome ↔ k.length = f.keyLen :=
  _root_.BC.AesNi.newEnc_isSome f k
end BC.AesNi

namespace BC.AesNi
open BC BC.X86 BC.Spec.Aes
open BC.Models.Aes
/-- what an accepted key produces, per family: the combined type computes FIPS-197 in both directions -/
theorem C02.newCombined_spec (f : Fam) (k : Bytes) (h : k.length = f.keyLen) :
    ∃ c, newCombined f k = some c ∧
      (∀ b, c.encrypt_block b = Spec.Aes.encrypt k b) ∧ (∀ b, c.decrypt_block b = Spec.Aes.decrypt k b) :=
  _root_.BC.AesNi.newCombined_spec f k h
end BC.AesNi

namespace BC.AesNi
open BC BC.X86
/-- `encrypt_par` = lane-wise `encrypt` whenever the key array has one of the three legal sizes -/
theorem C02.encrypt_par_eq_map (keys bs : List (BitVec 128)) (h : keys.length = 11 ∨ keys.length = 13 ∨ keys.length = 15) :
    encrypt_par keys bs = bs.map (encrypt keys) :=
  _root_.BC.AesNi.encrypt_par_eq_map keys bs h
end BC.AesNi

namespace BC.AesNi
open BC BC.X86
/-- `decrypt_par` = lane-wise `decrypt` whenever the key array has one of the three legal sizes -/
theorem C02.decrypt_par_eq_map (keys bs : List (BitVec 128)) (h : keys.length = 11 ∨ keys.length = 13 ∨ keys.length = 15) :
    decrypt_par keys bs = bs.map (decrypt keys) :=
  _root_.BC.AesNi.decrypt_par_eq_map keys bs h
end BC.AesNi

namespace BC.Spec.Aes
theorem C02.sboxT_eq (x : BitVec 8) : sboxT x = sbox x :=
  _root_.BC.Spec.Aes.sboxT_eq x
end BC.Spec.Aes

namespace BC.Spec.Aes
theorem C02.invSboxT_eq (x : BitVec 8) : invSboxT x = invSbox x :=
  _root_.BC.Spec.Aes.invSboxT_eq x
end BC.Spec.Aes

namespace BC.AesSoft
open BC BC.Spec.Aes
/-- C02: every software backend computes FIPS-197 AES-128 on single blocks -/
theorem C02.soft_conforms_128 (kb : Bytes) (h : kb.length = 16) (x : BitVec 128) :
    (AesFs64.single (AesFs64.aes128_encrypt (AesFs64.rkFn (AesFs64.aes128_key_schedule (packBE 16 kb)))) x = Spec.Aes.encrypt kb x ∧ AesFs64.single (AesFs64.aes128_decrypt (AesFs64.rkFn (AesFs64.aes128_key_schedule (packBE 16 kb)))) x = Spec.Aes.decrypt kb x) ∧
    (AesFs64.single (AesFs64.aes128_encrypt_compact (AesFs64.rkFn (AesFs64.aes128_key_schedule_compact (packBE 16 kb)))) x = Spec.Aes.encrypt kb x ∧ AesFs64.single (AesFs64.aes128_decrypt_compact (AesFs64.rkFn (AesFs64.aes128_key_schedule_compact (packBE 16 kb)))) x = Spec.Aes.decrypt kb x) ∧
    (AesFs32.single (AesFs32.aes128_encrypt (AesFs32.rkFn (AesFs32.aes128_key_schedule (packBE 16 kb)))) x = Spec.Aes.encrypt kb x ∧ AesFs32.single (AesFs32.aes128_decrypt (AesFs32.rkFn (AesFs32.aes128_key_schedule (packBE 16 kb)))) x = Spec.Aes.decrypt kb x) ∧
    (AesFs32.single (AesFs32.aes128_encrypt_compact (AesFs32.rkFn (AesFs32.aes128_key_schedule_compact (packBE 16 kb)))) x = Spec.Aes.encrypt kb x ∧ AesFs32.single (AesFs32.aes128_decrypt_compact (AesFs32.rkFn (AesFs32.aes128_key_schedule_compact (packBE 16 kb)))) x = Spec.Aes.decrypt kb x) :=
  _root_.BC.AesSoft.soft_conforms_128 kb h x
end BC.AesSoft

namespace BC.AesSoft
open BC BC.Spec.Aes
/-- C02: every software backend computes FIPS-197 AES-192 on single blocks -/
theorem C02.soft_conforms_192 (kb : Bytes) (h : kb.length = 24) (x : BitVec 128) :
    (AesFs64.single (AesFs64.aes192_encrypt (AesFs64.rkFn (AesFs64.aes192_key_schedule (packBE 24 kb)))) x = Spec.Aes.encrypt kb x ∧ AesFs64.single (AesFs64.aes192_decrypt (AesFs64.rkFn (AesFs64.aes192_key_schedule (packBE 24 kb)))) x = Spec.Aes.decrypt kb x) ∧
    (AesFs64.single (AesFs64.aes192_encrypt_compact (AesFs64.rkFn (AesFs64.aes192_key_schedule_compact (packBE 24 kb)))) x = Spec.Aes.encrypt kb x ∧ AesFs64.single (AesFs64.aes192_decrypt_compact (AesFs64.rkFn (AesFs64.aes192_key_schedule_compact (packBE 24 kb)))) x = Spec.Aes.decrypt kb x) ∧
    (AesFs32.single (AesFs32.aes192_encrypt (AesFs32.rkFn (AesFs32.aes192_key_schedule (packBE 24 kb)))) x = Spec.Aes.encrypt kb x ∧ AesFs32.single (AesFs32.aes192_decrypt (AesFs32.rkFn (AesFs32.aes192_key_schedule (packBE 24 kb)))) x = Spec.Aes.decrypt kb x) ∧
    (AesFs32.single (AesFs32.aes192_encrypt_compact (AesFs32.rkFn (AesFs32.aes192_key_schedule_compact (packBE 24 kb)))) x = Spec.Aes.encrypt kb x ∧ AesFs32.single (AesFs32.aes192_decrypt_compact (AesFs32.rkFn (AesFs32.aes192_key_schedule_compact (packBE 24 kb)))) x = Spec.Aes.decrypt kb x) :=
  _root_.BC.AesSoft.soft_conforms_192 kb h x
end BC.AesSoft

namespace BC.AesSoft
open BC BC.Spec.Aes
/-- C02: every software backend computes FIPS-197 AES-256 on single blocks -/
theorem C02.soft_conforms_256 (kb : Bytes) (h : kb.length = 32) (x : BitVec 128) :
    (AesFs64.single (AesFs64.aes256_encrypt (AesFs64.rkFn (AesFs64.aes256_key_schedule (packBE 32 kb)))) x = Spec.Aes.encrypt kb x ∧ AesFs64.single (AesFs64.aes256_decrypt (AesFs64.rkFn (AesFs64.aes256_key_schedule (packBE 32 kb)))) x = Spec.Aes.decrypt kb x) ∧
    (AesFs64.single (AesFs64.aes256_encrypt_compact (AesFs64.rkFn (AesFs64.aes256_key_schedule_compact (packBE 32 kb)))) x = Spec.Aes.encrypt kb x ∧ AesFs64.single (AesFs64.aes256_decrypt_compact (AesFs64.rkFn (AesFs64.aes256_key_schedule_compact (packBE 32 kb)))) x = Spec.Aes.decrypt kb x) ∧
    (AesFs32.single (AesFs32.aes256_encrypt (AesFs32.rkFn (AesFs32.aes256_key_schedule (packBE 32 kb)))) x = Spec.Aes.encrypt kb x ∧ AesFs32.single (AesFs32.aes256_decrypt (AesFs32.rkFn (AesFs32.aes256_key_schedule (packBE 32 kb)))) x = Spec.Aes.decrypt kb x) ∧
    (AesFs32.single (AesFs32.aes256_encrypt_compact (AesFs32.rkFn (AesFs32.aes256_key_schedule_compact (packBE 32 kb)))) x = Spec.Aes.encrypt kb x ∧ AesFs32.single (AesFs32.aes256_decrypt_compact (AesFs32.rkFn (AesFs32.aes256_key_schedule_compact (packBE 32 kb)))) x = Spec.Aes.decrypt kb x) :=
  _root_.BC.AesSoft.soft_conforms_256 kb h x
end BC.AesSoft

namespace BC.AesArmv8
open BC BC.X86 BC.Arm BC.Spec.Aes BC.AesNi
theorem C02.armv8_encrypt128_eq_spec (key : BitVec 128) (b : BitVec 128) :
    encrypt128 key b = Spec.Aes.encrypt (unpackBE 16 key) b :=
  _root_.BC.AesArmv8.encrypt128_eq_spec key b
end BC.AesArmv8

namespace BC.AesArmv8
open BC BC.X86 BC.Arm BC.Spec.Aes BC.AesNi
theorem C02.armv8_decrypt128_eq_spec (key : BitVec 128) (b : BitVec 128) :
    decrypt128 key b = Spec.Aes.decrypt (unpackBE 16 key) b :=
  _root_.BC.AesArmv8.decrypt128_eq_spec key b
end BC.AesArmv8

namespace BC.AesArmv8
open BC BC.X86 BC.Arm BC.Spec.Aes BC.AesNi
theorem C02.armv8_encrypt192_eq_spec (key : BitVec 192) (b : BitVec 128) :
    encrypt192 key b = Spec.Aes.encrypt (unpackBE 24 key) b :=
  _root_.BC.AesArmv8.encrypt192_eq_spec key b
end BC.AesArmv8

namespace BC.AesArmv8
open BC BC.X86 BC.Arm BC.Spec.Aes BC.AesNi
theorem C02.armv8_decrypt192_eq_spec (key : BitVec 192) (b : BitVec 128) :
    decrypt192 key b = Spec.Aes.decrypt (unpackBE 24 key) b :=
  _root_.BC.AesArmv8.decrypt192_eq_spec key b
end BC.AesArmv8

namespace BC.AesArmv8
open BC BC.X86 BC.Arm BC.Spec.Aes BC.AesNi
theorem C02.armv8_encrypt256_eq_spec (key : BitVec 256) (b : BitVec 128) :
    encrypt256 key b = Spec.Aes.encrypt (unpackBE 32 key) b :=
  _root_.BC.AesArmv8.encrypt256_eq_spec key b
end BC.AesArmv8

namespace BC.AesArmv8
open BC BC.X86 BC.Arm BC.Spec.Aes BC.AesNi
theorem C02.armv8_decrypt256_eq_spec (key : BitVec 256) (b : BitVec 128) :
    decrypt256 key b = Spec.Aes.decrypt (unpackBE 32 key) b :=
  _root_.BC.AesArmv8.decrypt256_eq_spec key b
end BC.AesArmv8

namespace BC.AesArmv8
open BC BC.X86 BC.Arm BC.Spec.Aes BC.AesNi
/-- `expand_key` = FIPS-197 KeyExpansion: register `r` of the result, read back from memory, is round key `r` -/
theorem C02.armv8_expand_key128_eq_keyExpansion (key : BitVec 128) (r : Nat) (hr : r ≤ 10) :
    vst1q_u8 ((expand_key (unpackBE 16 key) 11).getD r 0#128) =
      roundKey (keyExpansion 4 10 (keyWords (unpackBE 16 key))) r :=
  _root_.BC.AesArmv8.expand_key128_eq_keyExpansion key r hr
end BC.AesArmv8

namespace BC.AesArmv8
open BC BC.X86 BC.Arm BC.Spec.Aes BC.AesNi
theorem C02.armv8_expand_key192_eq_keyExpansion (key : BitVec 192) (r : Nat) (hr : r ≤ 12) :
    vst1q_u8 ((expand_key (unpackBE 24 key) 13).getD r 0#128) =
      roundKey (keyExpansion 6 12 (keyWords (unpackBE 24 key))) r :=
  _root_.BC.AesArmv8.expand_key192_eq_keyExpansion key r hr
end BC.AesArmv8

namespace BC.AesArmv8
open BC BC.X86 BC.Arm BC.Spec.Aes BC.AesNi
theorem C02.armv8_expand_key256_eq_keyExpansion (key : BitVec 256) (r : Nat) (hr : r ≤ 14) :
    vst1q_u8 ((expand_key (unpackBE 32 key) 15).getD r 0#128) =
      roundKey (keyExpansion 8 14 (keyWords (unpackBE 32 key))) r :=
  _root_.BC.AesArmv8.expand_key256_eq_keyExpansion key r hr
end BC.AesArmv8

namespace BC.AesArmv8
open BC BC.X86 BC.Spec.Aes BC.AesNi
open BC.Models.Aes BC.Models.AesArmv8
/-- `new_from_slice` accepts exactly the key length of the family (C11 for the ARMv8 AES types) -/
theorem C02.armv8_newEnc_isSome (f : Fam) (k : Bytes) : (Models.AesArmv8.newEnc f k).isSome ↔ k.length = f.keyLen :=
  _root_.BC.AesArmv8.newEnc_isSome f k
end BC.AesArmv8

namespace BC.AesArmv8
open BC BC.X86 BC.Spec.Aes BC.AesNi
open BC.Models.Aes BC.Models.AesArmv8
/-- what an accepted key produces, per family: the combined type computes FIPS-197 in both directions -/
theorem C02.armv8_newCombined_spec (f : Fam) (k : Bytes) (h : k.length = f.keyLen) :
    ∃ c, Models.AesArmv8.newCombined f k = some c ∧
      (∀ b, c.encrypt_block b = Spec.Aes.encrypt k b) ∧ (∀ b, c.decrypt_block b = Spec.Aes.decrypt k b) :=
  _root_.BC.AesArmv8.newCombined_spec f k h
end BC.AesArmv8

namespace BC.AesArmv8
open BC BC.X86 BC.Spec.Aes BC.AesNi
/-- the same in the shape of `Proofs/AesNiBytes.lean` (fixed-size key packed from the byte string) -/
theorem C02.armv8_encrypt128_bytes (key : Bytes) (h : key.length = 16) (b : BitVec 128) :
    encrypt128 (packBE 16 key) b = Spec.Aes.encrypt key b :=
  _root_.BC.AesArmv8.encrypt128_bytes key h b
end BC.AesArmv8

namespace BC.AesArmv8
open BC BC.X86 BC.Spec.Aes BC.AesNi
theorem C02.armv8_decrypt128_bytes (key : Bytes) (h : key.length = 16) (b : BitVec 128) :
    decrypt128 (packBE 16 key) b = Spec.Aes.decrypt key b :=
  _root_.BC.AesArmv8.decrypt128_bytes key h b
end BC.AesArmv8

namespace BC.AesArmv8
open BC BC.X86 BC.Spec.Aes BC.AesNi
theorem C02.armv8_encrypt192_bytes (key : Bytes) (h : key.length = 24) (b : BitVec 128) :
    encrypt192 (packBE 24 key) b = Spec.Aes.encrypt key b :=
  _root_.BC.AesArmv8.encrypt192_bytes key h b
end BC.AesArmv8

namespace BC.AesArmv8
open BC BC.X86 BC.Spec.Aes BC.AesNi
theorem C02.armv8_decrypt192_bytes (key : Bytes) (h : key.length = 24) (b : BitVec 128) :
    decrypt192 (packBE 24 key) b = Spec.Aes.decrypt key b :=
  _root_.BC.AesArmv8.decrypt192_bytes key h b
end BC.AesArmv8

namespace BC.AesArmv8
open BC BC.X86 BC.Spec.Aes BC.AesNi
theorem C02.armv8_encrypt256_bytes (key : Bytes) (h : key.length = 32) (b : BitVec 128) :
    encrypt256 (packBE 32 key) b = Spec.Aes.encrypt key b :=
  _root_.BC.AesArmv8.encrypt256_bytes key h b
end BC.AesArmv8

namespace BC.AesArmv8
open BC BC.X86 BC.Spec.Aes BC.AesNi
theorem C02.armv8_decrypt256_bytes (key : Bytes) (h : key.length = 32) (b : BitVec 128) :
    decrypt256 (packBE 32 key) b = Spec.Aes.decrypt key b :=
  _root_.BC.AesArmv8.decrypt256_bytes key h b
end BC.AesArmv8

namespace BC.AesArmv8
open BC BC.X86 BC.Arm
/-- `encrypt_par` = lane-wise `encrypt` whenever the key array has one of the three legal sizes -/
theorem C02.armv8_encrypt_par_eq_map (keys bs : List (BitVec 128)) (h : keys.length = 11 ∨ keys.length = 13 ∨ keys.length = 15) :
    encrypt_par keys bs = bs.map (encrypt keys) :=
  _root_.BC.AesArmv8.encrypt_par_eq_map keys bs h
end BC.AesArmv8

namespace BC.AesArmv8
open BC BC.X86 BC.Arm
/-- `decrypt_par` = lane-wise `decrypt` whenever the key array has one of the three legal sizes -/
theorem C02.armv8_decrypt_par_eq_map (keys bs : List (BitVec 128)) (h : keys.length = 11 ∨ keys.length = 13 ∨ keys.length = 15) :
    decrypt_par keys bs = bs.map (decrypt keys) :=
  _root_.BC.AesArmv8.decrypt_par_eq_map keys bs h
end BC.AesArmv8

namespace BC.GenTables
open BC.Gen
/-- `ROUND_CONSTS` of the repository = `ROUND_CONSTS` of `Impl/AesArmv8.lean` -/
theorem C02.aes_armv8_ROUND_CONSTS_eq : aes_ROUND_CONSTS.toList = BC.AesArmv8.ROUND_CONSTS.map BitVec.toNat :=
  _root_.BC.GenTables.aes_armv8_ROUND_CONSTS_eq
end BC.GenTables

namespace BC.GenTables
open BC.Gen
/-- `BLOCK_WORDS = 4` (`column_reg`: four 32-bit columns per register, `expand_columns`: `n * 4` columns) and
`WORD_SIZE = 4` (`key_columns`: 4-byte chunks, `nk = key.length / 4`) -/
theorem C02.aes_armv8_word_consts : aes_BLOCK_WORDS = 4 ∧ aes_WORD_SIZE = 4 :=
  _root_.BC.GenTables.aes_armv8_word_consts
end BC.GenTables
