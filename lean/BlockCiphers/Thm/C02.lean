/-
C02 — theorem file (property theorems only).  Filled in as the models it needs are merged; see DESIGN §7 C02.
-/
namespace BC.Thm.C02
end BC.Thm.C02
