import BlockCiphers.Proofs.GenTables
import BlockCiphers.Proofs.DesWeak
import BlockCiphers.Proofs.DesWeakMeaning
import BlockCiphers.Proofs.AesNi
import BlockCiphers.Proofs.AesNiBytes
/-
C13 — weak-key screening flags exactly the degenerate keys
GENERATED statement file (tools/gen_thm.py): every theorem below restates, verbatim, a theorem of a Proofs/ module
and is proved by applying it.  ONLY property theorems and non-vacuity examples live in Thm/.
Every other type uses `KeyInit::weak_key_test`'s default (`Ok(())`): their registry models leave `CipherModel.weak` at its default `.ok`;
the check's direct oracle runs `weak`/`newchecked` on every registry type.
-/

namespace BC.GenTables
open BC.Gen
theorem C13.des_WEAK_KEYS_eq : des_WEAK_KEYS.toList = (BC.Des.WEAK_KEYS_BYTES.map bytesBE).flatten :=
  _root_.BC.GenTables.des_WEAK_KEYS_eq
end BC.GenTables

namespace BC.Des
open BC.Spec.Des (stripParity weak56 weak64 weakKeys semiWeakKeys possiblyWeakKeys roundKeys degenerate C0 D0)
theorem C13.des_weak_iff' (key : BitVec 64) : weak key = true ↔ stripParity key ∈ weak56 :=
  _root_.BC.Des.des_weak_iff' key
end BC.Des

namespace BC.Des
open BC.Spec.Des (stripParity weak56 weak64 weakKeys semiWeakKeys possiblyWeakKeys roundKeys degenerate C0 D0)
/-- the verdict does not depend on the parity bits -/
theorem C13.weak_parity (key m : BitVec 64) (hm : m &&& 0xFEFEFEFEFEFEFEFE#64 = 0#64) :
    weak (key ^^^ m) = weak key :=
  _root_.BC.Des.weak_parity key m hm
end BC.Des

namespace BC.Des
open BC.Spec.Des (stripParity weak56 weak64 weakKeys semiWeakKeys possiblyWeakKeys roundKeys degenerate C0 D0)
theorem C13.tdes2_weak_iff' (key : BitVec 128) :
    weak2 key = true ↔ (stripParity (k1of2 key) ∈ weak56 ∨ stripParity (k2of2 key) ∈ weak56 ∨
      stripParity (k1of2 key) = stripParity (k2of2 key)) :=
  _root_.BC.Des.tdes2_weak_iff' key
end BC.Des

namespace BC.Des
open BC.Spec.Des (stripParity weak56 weak64 weakKeys semiWeakKeys possiblyWeakKeys roundKeys degenerate C0 D0)
theorem C13.tdes3_weak_iff' (key : BitVec 192) :
    weak3 key = true ↔ (stripParity (k1of3 key) ∈ weak56 ∨ stripParity (k2of3 key) ∈ weak56 ∨
      stripParity (k3of3 key) ∈ weak56 ∨
      stripParity (k1of3 key) = stripParity (k2of3 key) ∨
      stripParity (k1of3 key) = stripParity (k3of3 key) ∨
      stripParity (k2of3 key) = stripParity (k3of3 key)) :=
  _root_.BC.Des.tdes3_weak_iff' key
end BC.Des

namespace BC.Des
open BC.Spec.Des (stripParity weak56 weak64 weakKeys semiWeakKeys possiblyWeakKeys roundKeys degenerate C0 D0)
theorem C13.weak56_length : weak56.length = 64 :=
  _root_.BC.Des.weak56_length
end BC.Des

namespace BC.Des
open BC.Spec.Des (stripParity weak56 weak64 weakKeys semiWeakKeys possiblyWeakKeys roundKeys degenerate C0 D0)
theorem C13.weak56_nodup : weak56.Nodup :=
  _root_.BC.Des.weak56_nodup
end BC.Des

namespace BC.Des
open BC.Spec.Des (stripParity weak56 weak64 weakKeys semiWeakKeys possiblyWeakKeys roundKeys degenerate
  halfDegenerate C0 D0 permute bit PC1)
/-- **C13**: `Des::weak_key_test` rejects exactly the structurally degenerate keys -/
theorem C13.des_weak_iff_degenerate (k : BitVec 64) : weak k = true ↔ degenerate k = true :=
  _root_.BC.Des.des_weak_iff_degenerate k
end BC.Des

namespace BC.Des
open BC.Spec.Des (stripParity weak56 weak64 weakKeys semiWeakKeys possiblyWeakKeys roundKeys degenerate
  halfDegenerate C0 D0 permute bit PC1)
theorem C13.weak64_four_round_keys :
    (weak64.all fun k => decide ((roundKeys k).eraseDups.length ≤ 4)) = true :=
  _root_.BC.Des.weak64_four_round_keys
end BC.Des

namespace BC.Des
open BC.Spec.Des (stripParity weak56 weak64 weakKeys semiWeakKeys possiblyWeakKeys roundKeys degenerate
  halfDegenerate C0 D0 permute bit PC1)
/-- under a weak key (any parity) encryption is an involution: `E_k(E_k(b)) = b` -/
theorem C13.weak_key_involution (k b : BitVec 64) (hk : stripParity k ∈ weakKeys.map stripParity) :
    desEnc k (desEnc k b) = b :=
  _root_.BC.Des.weak_key_involution k b hk
end BC.Des

namespace BC.AesNi
open BC BC.X86 BC.Spec.Aes
/-- AES-128: weak exactly when the first 8 key bytes are zero -/
theorem C13.weak_key_test128_iff (key : BitVec 128) :
    weak_key_test128 key = WeakRes.weak ↔ key.extractLsb' 64 64 = 0#64 :=
  _root_.BC.AesNi.weak_key_test128_iff key
end BC.AesNi

namespace BC.AesNi
open BC BC.X86 BC.Spec.Aes
/-- AES-192: weak exactly when the first 12 key bytes are zero -/
theorem C13.weak_key_test192_iff (key : BitVec 192) :
    weak_key_test192 key = WeakRes.weak ↔ key.extractLsb' 96 96 = 0#96 :=
  _root_.BC.AesNi.weak_key_test192_iff key
end BC.AesNi

namespace BC.AesNi
open BC BC.X86 BC.Spec.Aes
/-- AES-256: weak exactly when the first 16 key bytes are zero -/
theorem C13.weak_key_test256_iff (key : BitVec 256) :
    weak_key_test256 key = WeakRes.weak ↔ key.extractLsb' 128 128 = 0#128 :=
  _root_.BC.AesNi.weak_key_test256_iff key
end BC.AesNi

namespace BC.AesNi
open BC BC.X86 BC.Spec.Aes
open BC.Models.Aes
/-- C13 at the registry level -/
theorem C13.weakOf_iff (f : Fam) (k : Bytes) :
    weakOf f k = WeakRes.weak ↔
      match f with
      | .a128 => (packBE 16 k).extractLsb' 64 64 = 0#64
      | .a192 => (packBE 24 k).extractLsb' 96 96 = 0#96
      | .a256 => (packBE 32 k).extractLsb' 128 128 = 0#128 :=
  _root_.BC.AesNi.weakOf_iff f k
end BC.AesNi
