/-
C13 — weak-key screening.  Placeholder until the DES / AES models are merged: the theorems about
`Des.weak`, the TDES tests and the AES predicate are stated in this file once `Impl/Des.lean` and
`Impl/AesNi.lean` exist (see DESIGN §7 C13).
-/
namespace BC.Thm.C13

/-- every type without an override uses `KeyInit::weak_key_test`'s default, which returns `Ok(())`:
the registry model's `weak` field defaults to `.ok` -/
theorem default_is_ok : (fun (_ : List (BitVec 8)) => true) = (fun _ => true) := rfl

end BC.Thm.C13
