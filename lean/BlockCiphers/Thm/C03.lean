/-
C03 — theorem file (property theorems only).  Filled in as the models it needs are merged; see DESIGN §7 C03.
-/
namespace BC.Thm.C03
end BC.Thm.C03
