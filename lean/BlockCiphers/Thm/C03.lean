import BlockCiphers.Proofs.Kuznyechik
import BlockCiphers.Proofs.AesFixslice
import BlockCiphers.Proofs.AesNiBytes
import BlockCiphers.Proofs.Serpent
import BlockCiphers.Proofs.AesArmv8
/-
C03 — cipher output is independent of backend, cfg flags and cargo features
GENERATED statement file (tools/gen_thm.py): every theorem below restates, verbatim, a theorem of a Proofs/ module
and is proved by applying it.  ONLY property theorems and non-vacuity examples live in Thm/.
AES: the four software backends agree with each other (soft_backends_agree_N) and, like the AES-NI model (encryptN_bytes), equal FIPS-197;
Serpent: unrolled = looped.  Kuznyechik: big_soft = SSE2 = NEON model = compact for all keys and blocks (fused-table lemmas, linearity of L).  Features: no cfg(feature) occurs
inside any enc/dec/new path except zeroize in Drop (Gen.drops) — checked by running every configuration on the same lines.
-/

namespace BC.Kuznyechik
open BC.Spec.Kuznyechik
/-- C03 (encryption): big_soft = sse2 = neon-model = compact_soft -/
theorem C03.kuz_backends_encrypt_agree (key : BitVec 256) (b : BitVec 128) :
    Soft.encrypt_block (Soft.expand_enc_keys key) b = Compact.encrypt_block (Compact.expand key) b ∧
    Sse2.encrypt_block (Sse2.expand_enc_keys key) b = Compact.encrypt_block (Compact.expand key) b ∧
    Neon.encrypt_block (Neon.expand_enc_keys key) b = Compact.encrypt_block (Compact.expand key) b :=
  _root_.BC.Kuznyechik.backends_encrypt_agree key b
end BC.Kuznyechik

namespace BC.Kuznyechik
open BC.Spec.Kuznyechik
/-- C03 (decryption, each table backend with its own pre-transformed keys) -/
theorem C03.kuz_backends_decrypt_agree (key : BitVec 256) (b : BitVec 128) :
    Soft.decrypt_block (Soft.inv_enc_keys (Soft.expand_enc_keys key)) b = Compact.decrypt_block (Compact.expand key) b ∧
    Sse2.decrypt_block (Sse2.inv_enc_keys (Sse2.expand_enc_keys key)) b = Compact.decrypt_block (Compact.expand key) b ∧
    Neon.decrypt_block (Neon.inv_enc_keys (Neon.expand_enc_keys key)) b = Compact.decrypt_block (Compact.expand key) b :=
  _root_.BC.Kuznyechik.backends_decrypt_agree key b
end BC.Kuznyechik

namespace BC.Kuznyechik
open BC.Spec.Kuznyechik
/-- the three table backends store the same round keys (as 128-bit little-endian values) -/
theorem C03.kuz_table_backends_keys_agree (key : BitVec 256) :
    Soft.expand_enc_keys key = Sse2.expand_enc_keys key ∧ Sse2.expand_enc_keys key = Neon.expand_enc_keys key ∧
    Soft.inv_enc_keys (Soft.expand_enc_keys key) = Sse2.inv_enc_keys (Sse2.expand_enc_keys key) ∧
    Sse2.inv_enc_keys (Sse2.expand_enc_keys key) = Neon.inv_enc_keys (Neon.expand_enc_keys key) :=
  _root_.BC.Kuznyechik.table_backends_keys_agree key
end BC.Kuznyechik

namespace BC.Kuznyechik
open BC.Spec.Kuznyechik
/-- the stored encryption keys of the table backends are the iteration keys K1..K10, byte-reversed; the stored
decryption keys are K10, L⁻¹(K9), …, L⁻¹(K2), K1, byte-reversed -/
theorem C03.kuz_table_backends_keys (key : BitVec 256) :
    Soft.expand_enc_keys key = (Compact.expand key).map rev128 ∧
    Soft.inv_enc_keys (Soft.expand_enc_keys key) =
      (let k := Compact.expand key
       ⟨rev128 k.k9, rev128 (Linv k.k8), rev128 (Linv k.k7), rev128 (Linv k.k6), rev128 (Linv k.k5),
        rev128 (Linv k.k4), rev128 (Linv k.k3), rev128 (Linv k.k2), rev128 (Linv k.k1), rev128 k.k0⟩) :=
  _root_.BC.Kuznyechik.table_backends_keys key
end BC.Kuznyechik

namespace BC.AesSoft
open BC BC.Spec.Aes
/-- C03: the software backends agree (fixslice64 normal is the reference) -/
theorem C03.soft_backends_agree_128 (kb : Bytes) (h : kb.length = 16) (x : BitVec 128) :
    AesFs64.single (AesFs64.aes128_encrypt_compact (AesFs64.rkFn (AesFs64.aes128_key_schedule_compact (packBE 16 kb)))) x = AesFs64.single (AesFs64.aes128_encrypt (AesFs64.rkFn (AesFs64.aes128_key_schedule (packBE 16 kb)))) x ∧ AesFs64.single (AesFs64.aes128_decrypt_compact (AesFs64.rkFn (AesFs64.aes128_key_schedule_compact (packBE 16 kb)))) x = AesFs64.single (AesFs64.aes128_decrypt (AesFs64.rkFn (AesFs64.aes128_key_schedule (packBE 16 kb)))) x ∧
    AesFs32.single (AesFs32.aes128_encrypt (AesFs32.rkFn (AesFs32.aes128_key_schedule (packBE 16 kb)))) x = AesFs64.single (AesFs64.aes128_encrypt (AesFs64.rkFn (AesFs64.aes128_key_schedule (packBE 16 kb)))) x ∧ AesFs32.single (AesFs32.aes128_decrypt (AesFs32.rkFn (AesFs32.aes128_key_schedule (packBE 16 kb)))) x = AesFs64.single (AesFs64.aes128_decrypt (AesFs64.rkFn (AesFs64.aes128_key_schedule (packBE 16 kb)))) x ∧
    AesFs32.single (AesFs32.aes128_encrypt_compact (AesFs32.rkFn (AesFs32.aes128_key_schedule_compact (packBE 16 kb)))) x = AesFs64.single (AesFs64.aes128_encrypt (AesFs64.rkFn (AesFs64.aes128_key_schedule (packBE 16 kb)))) x ∧ AesFs32.single (AesFs32.aes128_decrypt_compact (AesFs32.rkFn (AesFs32.aes128_key_schedule_compact (packBE 16 kb)))) x = AesFs64.single (AesFs64.aes128_decrypt (AesFs64.rkFn (AesFs64.aes128_key_schedule (packBE 16 kb)))) x :=
  _root_.BC.AesSoft.soft_backends_agree_128 kb h x
end BC.AesSoft

namespace BC.AesSoft
open BC BC.Spec.Aes
/-- C03: the software backends agree (fixslice64 normal is the reference) -/
theorem C03.soft_backends_agree_192 (kb : Bytes) (h : kb.length = 24) (x : BitVec 128) :
    AesFs64.single (AesFs64.aes192_encrypt_compact (AesFs64.rkFn (AesFs64.aes192_key_schedule_compact (packBE 24 kb)))) x = AesFs64.single (AesFs64.aes192_encrypt (AesFs64.rkFn (AesFs64.aes192_key_schedule (packBE 24 kb)))) x ∧ AesFs64.single (AesFs64.aes192_decrypt_compact (AesFs64.rkFn (AesFs64.aes192_key_schedule_compact (packBE 24 kb)))) x = AesFs64.single (AesFs64.aes192_decrypt (AesFs64.rkFn (AesFs64.aes192_key_schedule (packBE 24 kb)))) x ∧
    AesFs32.single (AesFs32.aes192_encrypt (AesFs32.rkFn (AesFs32.aes192_key_schedule (packBE 24 kb)))) x = AesFs64.single (AesFs64.aes192_encrypt (AesFs64.rkFn (AesFs64.aes192_key_schedule (packBE 24 kb)))) x ∧ AesFs32.single (AesFs32.aes192_decrypt (AesFs32.rkFn (AesFs32.aes192_key_schedule (packBE 24 kb)))) x = AesFs64.single (AesFs64.aes192_decrypt (AesFs64.rkFn (AesFs64.aes192_key_schedule (packBE 24 kb)))) x ∧
    AesFs32.single (AesFs32.aes192_encrypt_compact (AesFs32.rkFn (AesFs32.aes192_key_schedule_compact (packBE 24 kb)))) x = AesFs64.single (AesFs64.aes192_encrypt (AesFs64.rkFn (AesFs64.aes192_key_schedule (packBE 24 kb)))) x ∧ AesFs32.single (AesFs32.aes192_decrypt_compact (AesFs32.rkFn (AesFs32.aes192_key_schedule_compact (packBE 24 kb)))) x = AesFs64.single (AesFs64.aes192_decrypt (AesFs64.rkFn (AesFs64.aes192_key_schedule (packBE 24 kb)))) x :=
  _root_.BC.AesSoft.soft_backends_agree_192 kb h x
end BC.AesSoft

namespace BC.AesSoft
open BC BC.Spec.Aes
/-- C03: the software backends agree (fixslice64 normal is the reference) -/
theorem C03.soft_backends_agree_256 (kb : Bytes) (h : kb.length = 32) (x : BitVec 128) :
    AesFs64.single (AesFs64.aes256_encrypt_compact (AesFs64.rkFn (AesFs64.aes256_key_schedule_compact (packBE 32 kb)))) x = AesFs64.single (AesFs64.aes256_encrypt (AesFs64.rkFn (AesFs64.aes256_key_schedule (packBE 32 kb)))) x ∧ AesFs64.single (AesFs64.aes256_decrypt_compact (AesFs64.rkFn (AesFs64.aes256_key_schedule_compact (packBE 32 kb)))) x = AesFs64.single (AesFs64.aes256_decrypt (AesFs64.rkFn (AesFs64.aes256_key_schedule (packBE 32 kb)))) x ∧
    AesFs32.single (AesFs32.aes256_encrypt (AesFs32.rkFn (AesFs32.aes256_key_schedule (packBE 32 kb)))) x = AesFs64.single (AesFs64.aes256_encrypt (AesFs64.rkFn (AesFs64.aes256_key_schedule (packBE 32 kb)))) x ∧ AesFs32.single (AesFs32.aes256_decrypt (AesFs32.rkFn (AesFs32.aes256_key_schedule (packBE 32 kb)))) x = AesFs64.single (AesFs64.aes256_decrypt (AesFs64.rkFn (AesFs64.aes256_key_schedule (packBE 32 kb)))) x ∧
    AesFs32.single (AesFs32.aes256_encrypt_compact (AesFs32.rkFn (AesFs32.aes256_key_schedule_compact (packBE 32 kb)))) x = AesFs64.single (AesFs64.aes256_encrypt (AesFs64.rkFn (AesFs64.aes256_key_schedule (packBE 32 kb)))) x ∧ AesFs32.single (AesFs32.aes256_decrypt_compact (AesFs32.rkFn (AesFs32.aes256_key_schedule_compact (packBE 32 kb)))) x = AesFs64.single (AesFs64.aes256_decrypt (AesFs64.rkFn (AesFs64.aes256_key_schedule (packBE 32 kb)))) x :=
  _root_.BC.AesSoft.soft_backends_agree_256 kb h x
end BC.AesSoft

namespace BC.AesNi
open BC BC.X86 BC.Spec.Aes
theorem C03.encrypt128_bytes (key : Bytes) (h : key.length = 16) (b : BitVec 128) :
    encrypt128 (packBE 16 key) b = Spec.Aes.encrypt key b :=
  _root_.BC.AesNi.encrypt128_bytes key h b
end BC.AesNi

namespace BC.AesNi
open BC BC.X86 BC.Spec.Aes
theorem C03.decrypt128_bytes (key : Bytes) (h : key.length = 16) (b : BitVec 128) :
    decrypt128 (packBE 16 key) b = Spec.Aes.decrypt key b :=
  _root_.BC.AesNi.decrypt128_bytes key h b
end BC.AesNi

namespace BC.AesNi
open BC BC.X86 BC.Spec.Aes
theorem C03.encrypt192_bytes (key : Bytes) (h : key.length = 24) (b : BitVec 128) :
    encrypt192 (packBE 24 key) b = Spec.Aes.encrypt key b :=
  _root_.BC.AesNi.encrypt192_bytes key h b
end BC.AesNi

namespace BC.AesNi
open BC BC.X86 BC.Spec.Aes
theorem C03.decrypt192_bytes (key : Bytes) (h : key.length = 24) (b : BitVec 128) :
    decrypt192 (packBE 24 key) b = Spec.Aes.decrypt key b :=
  _root_.BC.AesNi.decrypt192_bytes key h b
end BC.AesNi

namespace BC.AesNi
open BC BC.X86 BC.Spec.Aes
theorem C03.encrypt256_bytes (key : Bytes) (h : key.length = 32) (b : BitVec 128) :
    encrypt256 (packBE 32 key) b = Spec.Aes.encrypt key b :=
  _root_.BC.AesNi.encrypt256_bytes key h b
end BC.AesNi

namespace BC.AesNi
open BC BC.X86 BC.Spec.Aes
theorem C03.decrypt256_bytes (key : Bytes) (h : key.length = 32) (b : BitVec 128) :
    decrypt256 (packBE 32 key) b = Spec.Aes.decrypt key b :=
  _root_.BC.AesNi.decrypt256_bytes key h b
end BC.AesNi

namespace BC.Serpent
theorem C03.unroll31_eq_loop31 (body : Words → Nat → Words) (b : Words) : unroll31 body b = loop31 body b :=
  _root_.BC.Serpent.unroll31_eq_loop31 body b
end BC.Serpent

namespace BC.Serpent
theorem C03.encrypt_eq_encryptLoop (rk : RoundKeys) (blk : BitVec 128) : encrypt rk blk = encryptLoop rk blk :=
  _root_.BC.Serpent.encrypt_eq_encryptLoop rk blk
end BC.Serpent

namespace BC.Serpent
theorem C03.decrypt_eq_decryptLoop (rk : RoundKeys) (blk : BitVec 128) : decrypt rk blk = decryptLoop rk blk :=
  _root_.BC.Serpent.decrypt_eq_decryptLoop rk blk
end BC.Serpent

namespace BC.AesArmv8
open BC BC.X86 BC.Arm BC.Spec.Aes BC.AesNi
/-- C03 corollary: the ARMv8 backend and the AES-NI backend compute the same function -/
theorem C03.armv8_encrypt128_eq_ni (key b : BitVec 128) : encrypt128 key b = AesNi.encrypt128 key b :=
  _root_.BC.AesArmv8.encrypt128_eq_ni key b
end BC.AesArmv8

namespace BC.AesArmv8
open BC BC.X86 BC.Arm BC.Spec.Aes BC.AesNi
theorem C03.armv8_decrypt128_eq_ni (key b : BitVec 128) : decrypt128 key b = AesNi.decrypt128 key b :=
  _root_.BC.AesArmv8.decrypt128_eq_ni key b
end BC.AesArmv8

namespace BC.AesArmv8
open BC BC.X86 BC.Arm BC.Spec.Aes BC.AesNi
theorem C03.armv8_encrypt192_eq_ni (key : BitVec 192) (b : BitVec 128) : encrypt192 key b = AesNi.encrypt192 key b :=
  _root_.BC.AesArmv8.encrypt192_eq_ni key b
end BC.AesArmv8

namespace BC.AesArmv8
open BC BC.X86 BC.Arm BC.Spec.Aes BC.AesNi
theorem C03.armv8_decrypt192_eq_ni (key : BitVec 192) (b : BitVec 128) : decrypt192 key b = AesNi.decrypt192 key b :=
  _root_.BC.AesArmv8.decrypt192_eq_ni key b
end BC.AesArmv8

namespace BC.AesArmv8
open BC BC.X86 BC.Arm BC.Spec.Aes BC.AesNi
theorem C03.armv8_encrypt256_eq_ni (key : BitVec 256) (b : BitVec 128) : encrypt256 key b = AesNi.encrypt256 key b :=
  _root_.BC.AesArmv8.encrypt256_eq_ni key b
end BC.AesArmv8

namespace BC.AesArmv8
open BC BC.X86 BC.Arm BC.Spec.Aes BC.AesNi
theorem C03.armv8_decrypt256_eq_ni (key : BitVec 256) (b : BitVec 128) : decrypt256 key b = AesNi.decrypt256 key b :=
  _root_.BC.AesArmv8.decrypt256_eq_ni key b
end BC.AesArmv8

namespace BC.AesArmv8
open BC BC.X86 BC.Arm BC.Spec.Aes BC.AesNi
/-- the ARMv8 and AES-NI hazmat functions agree (C03 for `aes::hazmat`) -/
theorem C03.armv8_cipher_round_eq_ni (b k : BitVec 128) : cipher_round b k = AesNi.cipher_round b k :=
  _root_.BC.AesArmv8.cipher_round_eq_ni b k
end BC.AesArmv8

namespace BC.AesArmv8
open BC BC.X86 BC.Arm BC.Spec.Aes BC.AesNi
theorem C03.armv8_equiv_inv_cipher_round_eq_ni (b k : BitVec 128) :
    equiv_inv_cipher_round b k = AesNi.equiv_inv_cipher_round b k :=
  _root_.BC.AesArmv8.equiv_inv_cipher_round_eq_ni b k
end BC.AesArmv8

namespace BC.AesArmv8
open BC BC.X86 BC.Arm BC.Spec.Aes BC.AesNi
theorem C03.armv8_mix_columns_eq_ni (b : BitVec 128) : mix_columns b = AesNi.mix_columns b :=
  _root_.BC.AesArmv8.mix_columns_eq_ni b
end BC.AesArmv8

namespace BC.AesArmv8
open BC BC.X86 BC.Arm BC.Spec.Aes BC.AesNi
theorem C03.armv8_inv_mix_columns_eq_ni (b : BitVec 128) : inv_mix_columns b = AesNi.inv_mix_columns b :=
  _root_.BC.AesArmv8.inv_mix_columns_eq_ni b
end BC.AesArmv8
