import BlockCiphers.Proofs.KuznyechikCompact
import BlockCiphers.Proofs.Kuznyechik
import BlockCiphers.Proofs.Gift
import BlockCiphers.Proofs.Xtea
import BlockCiphers.Proofs.Rc5SpeckC01
import BlockCiphers.Proofs.Des
import BlockCiphers.Proofs.Blowfish
import BlockCiphers.Proofs.Cast5
import BlockCiphers.Proofs.Serpent
import BlockCiphers.Proofs.Cast6
import BlockCiphers.Proofs.Threefish
import BlockCiphers.Proofs.Rc2
import BlockCiphers.Proofs.Camellia
import BlockCiphers.Proofs.Aria
import BlockCiphers.Proofs.Sm4
import BlockCiphers.Proofs.Magma
import BlockCiphers.Proofs.Belt
import BlockCiphers.Proofs.BeltWide
import BlockCiphers.Proofs.Twofish
import BlockCiphers.Proofs.Idea
import BlockCiphers.Proofs.AesSpec
import BlockCiphers.Proofs.AesNi
import BlockCiphers.Proofs.AesFixslice
import BlockCiphers.Proofs.AesArmv8
import BlockCiphers.Proofs.AesArmv8Bytes
/-
C01 — decryption inverts encryption for every cipher, key, block and backend
GENERATED statement file (tools/gen_thm.py): every theorem below restates, verbatim, a theorem of a Proofs/ module
and is proved by applying it.  ONLY property theorems and non-vacuity examples live in Thm/.
One theorem (pair) per cipher model, for ALL keys of every accepted length and ALL blocks; Threefish for all tweaks; BelT wide block
for all inputs of at least 32 bytes; AES at the FIPS-197 level (all Nr, all expanded keys) and for the AES-NI model.
AES: FIPS-197 level, AES-NI model and the four fixslice backends (64/32-bit, normal/compact).
Kuznyechik: the compact backend and the three table backends (big_soft, SSE2, NEON model), each with its own pre-transformed decryption keys.
-/

namespace BC.Kuznyechik.Compact
open BC.Spec.Kuznyechik
/-- C01: decryption inverts encryption for every key and block -/
theorem C01.kuz_compact_decrypt_encrypt (key : BitVec 256) (b : BitVec 128) :
    decrypt_block (expand key) (encrypt_block (expand key) b) = b :=
  _root_.BC.Kuznyechik.Compact.decrypt_encrypt key b
end BC.Kuznyechik.Compact

namespace BC.Kuznyechik.Compact
open BC.Spec.Kuznyechik
/-- C01, the other order -/
theorem C01.kuz_compact_encrypt_decrypt (key : BitVec 256) (b : BitVec 128) :
    encrypt_block (expand key) (decrypt_block (expand key) b) = b :=
  _root_.BC.Kuznyechik.Compact.encrypt_decrypt key b
end BC.Kuznyechik.Compact

namespace BC.Kuznyechik.Compact
open BC.Spec.Kuznyechik
/-- C01 for ANY ten round keys: `decrypt_block` undoes `encrypt_block` -/
theorem C01.kuz_compact_decrypt_encrypt_keys (k : RoundKeys) (b : BitVec 128) : decrypt_block k (encrypt_block k b) = b :=
  _root_.BC.Kuznyechik.Compact.decrypt_encrypt_keys k b
end BC.Kuznyechik.Compact

namespace BC.Kuznyechik.Compact
open BC.Spec.Kuznyechik
theorem C01.kuz_compact_encrypt_decrypt_keys (k : RoundKeys) (b : BitVec 128) : encrypt_block k (decrypt_block k b) = b :=
  _root_.BC.Kuznyechik.Compact.encrypt_decrypt_keys k b
end BC.Kuznyechik.Compact

namespace BC.Kuznyechik.Soft
open BC.Spec.Kuznyechik
theorem C01.kuz_soft_decrypt_encrypt (key : BitVec 256) (b : BitVec 128) :
    decrypt_block (inv_enc_keys (expand_enc_keys key)) (encrypt_block (expand_enc_keys key) b) = b :=
  _root_.BC.Kuznyechik.Soft.decrypt_encrypt key b
end BC.Kuznyechik.Soft

namespace BC.Kuznyechik.Sse2
open BC.Spec.Kuznyechik
theorem C01.kuz_sse2_decrypt_encrypt (key : BitVec 256) (b : BitVec 128) :
    decrypt_block (inv_enc_keys (expand_enc_keys key)) (encrypt_block (expand_enc_keys key) b) = b :=
  _root_.BC.Kuznyechik.Sse2.decrypt_encrypt key b
end BC.Kuznyechik.Sse2

namespace BC.Kuznyechik.Neon
open BC.Spec.Kuznyechik
theorem C01.kuz_neon_decrypt_encrypt (key : BitVec 256) (b : BitVec 128) :
    decrypt_block (inv_enc_keys (expand_enc_keys key)) (encrypt_block (expand_enc_keys key) b) = b :=
  _root_.BC.Kuznyechik.Neon.decrypt_encrypt key b
end BC.Kuznyechik.Neon

namespace BC.Kuznyechik.Soft
open BC.Spec.Kuznyechik
theorem C01.kuz_soft_encrypt_decrypt (key : BitVec 256) (b : BitVec 128) :
    encrypt_block (expand_enc_keys key) (decrypt_block (inv_enc_keys (expand_enc_keys key)) b) = b :=
  _root_.BC.Kuznyechik.Soft.encrypt_decrypt key b
end BC.Kuznyechik.Soft

namespace BC.Kuznyechik.Sse2
open BC.Spec.Kuznyechik
theorem C01.kuz_sse2_encrypt_decrypt (key : BitVec 256) (b : BitVec 128) :
    encrypt_block (expand_enc_keys key) (decrypt_block (inv_enc_keys (expand_enc_keys key)) b) = b :=
  _root_.BC.Kuznyechik.Sse2.encrypt_decrypt key b
end BC.Kuznyechik.Sse2

namespace BC.Kuznyechik.Neon
open BC.Spec.Kuznyechik
theorem C01.kuz_neon_encrypt_decrypt (key : BitVec 256) (b : BitVec 128) :
    encrypt_block (expand_enc_keys key) (decrypt_block (inv_enc_keys (expand_enc_keys key)) b) = b :=
  _root_.BC.Kuznyechik.Neon.encrypt_decrypt key b
end BC.Kuznyechik.Neon

namespace BC.Gift
/-- C01 for `Gift128`: every 16-byte key, every block -/
theorem C01.gift_decrypt_encrypt (key b : BitVec 128) :
    decrypt (precomputeRkeys key) (encrypt (precomputeRkeys key) b) = b :=
  _root_.BC.Gift.decrypt_encrypt key b
end BC.Gift

namespace BC.Gift
theorem C01.gift_encrypt_decrypt (key b : BitVec 128) :
    encrypt (precomputeRkeys key) (decrypt (precomputeRkeys key) b) = b :=
  _root_.BC.Gift.encrypt_decrypt key b
end BC.Gift

namespace BC.Gift
/-- `decrypt_block (encrypt_block b) = b` for EVERY round-key array (in particular every `precompute_rkeys key`) -/
theorem C01.gift_decrypt_encrypt_rk (rk : Array (BitVec 32)) (b : BitVec 128) : decrypt rk (encrypt rk b) = b :=
  _root_.BC.Gift.decrypt_encrypt_rk rk b
end BC.Gift

namespace BC.Gift
theorem C01.gift_encrypt_decrypt_rk (rk : Array (BitVec 32)) (b : BitVec 128) : encrypt rk (decrypt rk b) = b :=
  _root_.BC.Gift.encrypt_decrypt_rk rk b
end BC.Gift

namespace BC.Xtea
theorem C01.decrypt_encrypt (k : Key) (b : BitVec 64) : decrypt k (encrypt k b) = b :=
  _root_.BC.Xtea.decrypt_encrypt k b
end BC.Xtea

namespace BC.Models
theorem C01.rc5_mk_roundTrips (w r b : Nat) (hw : w % 8 = 0) (key : Bytes) (hk : key.length = b) :
    RoundTrips (Rc5.mk w r b) key :=
  _root_.BC.Models.rc5_mk_roundTrips w r b hw key hk
end BC.Models

namespace BC.Models
/-- every type of the harness menu (and, by `rc5_mk_roundTrips`, every other `RC5<W,R,B>`) -/
theorem C01.rc5_menu_roundTrips : ∀ t ∈ Rc5.menu, ∀ key : Bytes, key.length = t.2.2 →
    RoundTrips (Rc5.mk t.1 t.2.1 t.2.2) key :=
  _root_.BC.Models.rc5_menu_roundTrips
end BC.Models

namespace BC.Models
theorem C01.speck_mk_roundTrips : ∀ p ∈ BC.Speck.all, ∀ key : Bytes, key.length = p.keyBytes →
    RoundTrips (Speck.mk p) key :=
  _root_.BC.Models.speck_mk_roundTrips
end BC.Models

namespace BC.Des
/-- Des: `decrypt_block (encrypt_block b) = b` for every 64-bit key -/
theorem C01.des_decrypt_encrypt (key b : BitVec 64) : desDec key (desEnc key b) = b :=
  _root_.BC.Des.decrypt_encrypt key b
end BC.Des

namespace BC.Des
theorem C01.des_encrypt_decrypt (key b : BitVec 64) : desEnc key (desDec key b) = b :=
  _root_.BC.Des.encrypt_decrypt key b
end BC.Des

namespace BC.Des
/-- key-level statements (the form used by `Thm/C01`) -/
theorem C01.tdesEde3_dec_enc (key : BitVec 192) (b : BitVec 64) :
    ede3Dec (Tdes3.new key) (ede3Enc (Tdes3.new key) b) = b :=
  _root_.BC.Des.tdesEde3_dec_enc key b
end BC.Des

namespace BC.Des
theorem C01.tdesEde3_enc_dec (key : BitVec 192) (b : BitVec 64) :
    ede3Enc (Tdes3.new key) (ede3Dec (Tdes3.new key) b) = b :=
  _root_.BC.Des.tdesEde3_enc_dec key b
end BC.Des

namespace BC.Des
theorem C01.tdesEee3_dec_enc (key : BitVec 192) (b : BitVec 64) :
    eee3Dec (Tdes3.new key) (eee3Enc (Tdes3.new key) b) = b :=
  _root_.BC.Des.tdesEee3_dec_enc key b
end BC.Des

namespace BC.Des
theorem C01.tdesEee3_enc_dec (key : BitVec 192) (b : BitVec 64) :
    eee3Enc (Tdes3.new key) (eee3Dec (Tdes3.new key) b) = b :=
  _root_.BC.Des.tdesEee3_enc_dec key b
end BC.Des

namespace BC.Des
theorem C01.tdesEde2_dec_enc (key : BitVec 128) (b : BitVec 64) :
    ede2Dec (Tdes2.new key) (ede2Enc (Tdes2.new key) b) = b :=
  _root_.BC.Des.tdesEde2_dec_enc key b
end BC.Des

namespace BC.Des
theorem C01.tdesEde2_enc_dec (key : BitVec 128) (b : BitVec 64) :
    ede2Enc (Tdes2.new key) (ede2Dec (Tdes2.new key) b) = b :=
  _root_.BC.Des.tdesEde2_enc_dec key b
end BC.Des

namespace BC.Des
theorem C01.tdesEee2_dec_enc (key : BitVec 128) (b : BitVec 64) :
    eee2Dec (Tdes2.new key) (eee2Enc (Tdes2.new key) b) = b :=
  _root_.BC.Des.tdesEee2_dec_enc key b
end BC.Des

namespace BC.Des
theorem C01.tdesEee2_enc_dec (key : BitVec 128) (b : BitVec 64) :
    eee2Enc (Tdes2.new key) (eee2Dec (Tdes2.new key) b) = b :=
  _root_.BC.Des.tdesEee2_enc_dec key b
end BC.Des

namespace BC.Blowfish
/-- C01 for Blowfish, every state (so every key of every length), both byte orders -/
theorem C01.blowfish_decrypt_encrypt (bo : ByteOrder) (st : State) (b : BitVec 64) :
    decryptBlock bo st (encryptBlock bo st b) = b :=
  _root_.BC.Blowfish.decrypt_encrypt bo st b
end BC.Blowfish

namespace BC.Blowfish
theorem C01.blowfish_encrypt_decrypt (bo : ByteOrder) (st : State) (b : BitVec 64) :
    encryptBlock bo st (decryptBlock bo st b) = b :=
  _root_.BC.Blowfish.encrypt_decrypt bo st b
end BC.Blowfish

namespace BC.Blowfish
/-- … in particular for the state of every accepted key -/
theorem C01.blowfish_decrypt_encrypt_key (bo : ByteOrder) (key : Array (BitVec 8)) (st : State) (_h : new key = some st)
    (b : BitVec 64) : decryptBlock bo st (encryptBlock bo st b) = b :=
  _root_.BC.Blowfish.decrypt_encrypt_key bo key st _h b
end BC.Blowfish

namespace BC.Blowfish
theorem C01.blowfish_encrypt_decrypt_key (bo : ByteOrder) (key : Array (BitVec 8)) (st : State) (_h : new key = some st)
    (b : BitVec 64) : encryptBlock bo st (decryptBlock bo st b) = b :=
  _root_.BC.Blowfish.encrypt_decrypt_key bo key st _h b
end BC.Blowfish

namespace BC.Cast5
/-- … in particular for the schedule of every accepted key (5..16 bytes) -/
theorem C01.cast5_decrypt_encrypt_key (key : Bytes) (ks : Keys) (_h : new key = some ks) (b : BitVec 64) :
    decrypt ks (encrypt ks b) = b :=
  _root_.BC.Cast5.decrypt_encrypt_key key ks _h b
end BC.Cast5

namespace BC.Cast5
theorem C01.cast5_encrypt_decrypt_key (key : Bytes) (ks : Keys) (_h : new key = some ks) (b : BitVec 64) :
    encrypt ks (decrypt ks b) = b :=
  _root_.BC.Cast5.encrypt_decrypt_key key ks _h b
end BC.Cast5

namespace BC.Serpent
/-- every key (of any length; in particular each of the 17 accepted lengths 16..=32), every block -/
theorem C01.serpent_decrypt_encrypt_key (key : Bytes) (blk : BitVec 128) :
    decrypt (keySchedule key) (encrypt (keySchedule key) blk) = blk :=
  _root_.BC.Serpent.decrypt_encrypt_key key blk
end BC.Serpent

namespace BC.Serpent
theorem C01.serpent_encrypt_decrypt_key (key : Bytes) (blk : BitVec 128) :
    encrypt (keySchedule key) (decrypt (keySchedule key) blk) = blk :=
  _root_.BC.Serpent.encrypt_decrypt_key key blk
end BC.Serpent

namespace BC.Serpent
/-- looped configuration, arbitrary round keys -/
theorem C01.serpent_loop_decrypt_encrypt (rk : RoundKeys) (blk : BitVec 128) :
    decryptLoop rk (encryptLoop rk blk) = blk :=
  _root_.BC.Serpent.decryptLoop_encryptLoop rk blk
end BC.Serpent

namespace BC.Cast6
/-- every key (any byte string; in particular the lengths 16/20/24/28/32), every block -/
theorem C01.cast6_decrypt_encrypt_key (key : Bytes) (blk : BitVec 128) :
    decrypt (keySchedule key) (encrypt (keySchedule key) blk) = blk :=
  _root_.BC.Cast6.decrypt_encrypt_key key blk
end BC.Cast6

namespace BC.Cast6
theorem C01.cast6_encrypt_decrypt_key (key : Bytes) (blk : BitVec 128) :
    encrypt (keySchedule key) (decrypt (keySchedule key) blk) = blk :=
  _root_.BC.Cast6.encrypt_decrypt_key key blk
end BC.Cast6

namespace BC.Threefish
/-- **C01, byte API** (`encrypt_block` then `decrypt_block`), every key, every tweak, every block -/
theorem C01.decryptBlock_encryptBlock {p : Params} {q : Nat → Nat} (hv : Valid p q) (c : Cipher p)
    (b : Bytes) (hb : b.length = 8 * p.nw) : decryptBlock c (encryptBlock c b) = b :=
  _root_.BC.Threefish.decryptBlock_encryptBlock hv c b hb
end BC.Threefish

namespace BC.Threefish
theorem C01.encryptBlock_decryptBlock {p : Params} {q : Nat → Nat} (hv : Valid p q) (c : Cipher p)
    (b : Bytes) (hb : b.length = 8 * p.nw) : encryptBlock c (decryptBlock c b) = b :=
  _root_.BC.Threefish.encryptBlock_decryptBlock hv c b hb
end BC.Threefish

namespace BC.Threefish
open BC.Spec.Threefish in
theorem C01.tf256_decrypt_encrypt (key tweak block : Bytes) (hb : block.length = 32) :
    decryptBlock (newWithTweak tf256 key tweak) (encryptBlock (newWithTweak tf256 key tweak) block) = block :=
  _root_.BC.Threefish.tf256_decrypt_encrypt key tweak block hb
end BC.Threefish

namespace BC.Threefish
open BC.Spec.Threefish in
theorem C01.tf256_encrypt_decrypt (key tweak block : Bytes) (hb : block.length = 32) :
    encryptBlock (newWithTweak tf256 key tweak) (decryptBlock (newWithTweak tf256 key tweak) block) = block :=
  _root_.BC.Threefish.tf256_encrypt_decrypt key tweak block hb
end BC.Threefish

namespace BC.Threefish
theorem C01.tf512_decrypt_encrypt (key tweak block : Bytes) (hb : block.length = 64) :
    decryptBlock (newWithTweak tf512 key tweak) (encryptBlock (newWithTweak tf512 key tweak) block) = block :=
  _root_.BC.Threefish.tf512_decrypt_encrypt key tweak block hb
end BC.Threefish

namespace BC.Threefish
theorem C01.tf512_encrypt_decrypt (key tweak block : Bytes) (hb : block.length = 64) :
    encryptBlock (newWithTweak tf512 key tweak) (decryptBlock (newWithTweak tf512 key tweak) block) = block :=
  _root_.BC.Threefish.tf512_encrypt_decrypt key tweak block hb
end BC.Threefish

namespace BC.Threefish
theorem C01.tf1024_decrypt_encrypt (key tweak block : Bytes) (hb : block.length = 128) :
    decryptBlock (newWithTweak tf1024 key tweak) (encryptBlock (newWithTweak tf1024 key tweak) block) = block :=
  _root_.BC.Threefish.tf1024_decrypt_encrypt key tweak block hb
end BC.Threefish

namespace BC.Threefish
theorem C01.tf1024_encrypt_decrypt (key tweak block : Bytes) (hb : block.length = 128) :
    encryptBlock (newWithTweak tf1024 key tweak) (decryptBlock (newWithTweak tf1024 key tweak) block) = block :=
  _root_.BC.Threefish.tf1024_encrypt_decrypt key tweak block hb
end BC.Threefish

namespace BC.Rc2
/-- … in particular for every key and every effective key length -/
theorem C01.rc2_decrypt_encrypt_eff (key : Bytes) (t1 : Nat) (b : BitVec 64) :
    decrypt (newWithEffKeyLen key t1) (encrypt (newWithEffKeyLen key t1) b) = b :=
  _root_.BC.Rc2.decrypt_encrypt_eff key t1 b
end BC.Rc2

namespace BC.Rc2
theorem C01.rc2_encrypt_decrypt_eff (key : Bytes) (t1 : Nat) (b : BitVec 64) :
    encrypt (newWithEffKeyLen key t1) (decrypt (newWithEffKeyLen key t1) b) = b :=
  _root_.BC.Rc2.encrypt_decrypt_eff key t1 b
end BC.Rc2

namespace BC.Camellia
theorem C01.camellia_decrypt_encrypt128 (key b : BitVec 128) : decrypt128 key (encrypt128 key b) = b :=
  _root_.BC.Camellia.decrypt_encrypt128 key b
end BC.Camellia

namespace BC.Camellia
theorem C01.camellia_encrypt_decrypt128 (key b : BitVec 128) : encrypt128 key (decrypt128 key b) = b :=
  _root_.BC.Camellia.encrypt_decrypt128 key b
end BC.Camellia

namespace BC.Camellia
theorem C01.camellia_decrypt_encrypt192 (key : BitVec 192) (b : BitVec 128) : decrypt192 key (encrypt192 key b) = b :=
  _root_.BC.Camellia.decrypt_encrypt192 key b
end BC.Camellia

namespace BC.Camellia
theorem C01.camellia_encrypt_decrypt192 (key : BitVec 192) (b : BitVec 128) : encrypt192 key (decrypt192 key b) = b :=
  _root_.BC.Camellia.encrypt_decrypt192 key b
end BC.Camellia

namespace BC.Camellia
theorem C01.camellia_decrypt_encrypt256 (key : BitVec 256) (b : BitVec 128) : decrypt256 key (encrypt256 key b) = b :=
  _root_.BC.Camellia.decrypt_encrypt256 key b
end BC.Camellia

namespace BC.Camellia
theorem C01.camellia_encrypt_decrypt256 (key : BitVec 256) (b : BitVec 128) : encrypt256 key (decrypt256 key b) = b :=
  _root_.BC.Camellia.encrypt_decrypt256 key b
end BC.Camellia

namespace BC.Aria
theorem C01.aria_decrypt_encrypt128 (k b : BitVec 128) : decrypt128 k (encrypt128 k b) = b :=
  _root_.BC.Aria.decrypt_encrypt128 k b
end BC.Aria

namespace BC.Aria
theorem C01.aria_encrypt_decrypt128 (k b : BitVec 128) : encrypt128 k (decrypt128 k b) = b :=
  _root_.BC.Aria.encrypt_decrypt128 k b
end BC.Aria

namespace BC.Aria
theorem C01.aria_decrypt_encrypt192 (k : BitVec 192) (b : BitVec 128) : decrypt192 k (encrypt192 k b) = b :=
  _root_.BC.Aria.decrypt_encrypt192 k b
end BC.Aria

namespace BC.Aria
theorem C01.aria_encrypt_decrypt192 (k : BitVec 192) (b : BitVec 128) : encrypt192 k (decrypt192 k b) = b :=
  _root_.BC.Aria.encrypt_decrypt192 k b
end BC.Aria

namespace BC.Aria
theorem C01.aria_decrypt_encrypt256 (k : BitVec 256) (b : BitVec 128) : decrypt256 k (encrypt256 k b) = b :=
  _root_.BC.Aria.decrypt_encrypt256 k b
end BC.Aria

namespace BC.Aria
theorem C01.aria_encrypt_decrypt256 (k : BitVec 256) (b : BitVec 128) : encrypt256 k (decrypt256 k b) = b :=
  _root_.BC.Aria.encrypt_decrypt256 k b
end BC.Aria

namespace BC.Sm4
theorem C01.sm4_decrypt_encrypt_key (key : BitVec 128) (b : BitVec 128) :
    decrypt (new key) (encrypt (new key) b) = b :=
  _root_.BC.Sm4.decrypt_encrypt_key key b
end BC.Sm4

namespace BC.Sm4
theorem C01.sm4_encrypt_decrypt_key (key : BitVec 128) (b : BitVec 128) :
    encrypt (new key) (decrypt (new key) b) = b :=
  _root_.BC.Sm4.encrypt_decrypt_key key b
end BC.Sm4

namespace BC.Magma
theorem C01.gost89_decrypt_encrypt_key (sbox : SmallSbox) (key : BitVec 256) (b : BitVec 64) :
    decrypt sbox (new key) (encrypt sbox (new key) b) = b :=
  _root_.BC.Magma.decrypt_encrypt_key sbox key b
end BC.Magma

namespace BC.Magma
theorem C01.gost89_encrypt_decrypt_key (sbox : SmallSbox) (key : BitVec 256) (b : BitVec 64) :
    encrypt sbox (new key) (decrypt sbox (new key) b) = b :=
  _root_.BC.Magma.encrypt_decrypt_key sbox key b
end BC.Magma

namespace BC.Belt
theorem C01.belt_decrypt_encrypt_key (key : BitVec 256) (b : BitVec 128) :
    decrypt (new key) (encrypt (new key) b) = b :=
  _root_.BC.Belt.decrypt_encrypt_key key b
end BC.Belt

namespace BC.Belt
theorem C01.belt_encrypt_decrypt_key (key : BitVec 256) (b : BitVec 128) :
    encrypt (new key) (decrypt (new key) b) = b :=
  _root_.BC.Belt.encrypt_decrypt_key key b
end BC.Belt

namespace BC.Belt
theorem C01.wblockDec_wblockEnc (data : Bytes) (key : Key) (h : 32 ≤ data.length) :
    wblockDec (wblockEnc data key).2 key = (.ok, data) :=
  _root_.BC.Belt.wblockDec_wblockEnc data key h
end BC.Belt

namespace BC.Belt
theorem C01.wblockEnc_wblockDec (data : Bytes) (key : Key) (h : 32 ≤ data.length) :
    wblockEnc (wblockDec data key).2 key = (.ok, data) :=
  _root_.BC.Belt.wblockEnc_wblockDec data key h
end BC.Belt

namespace BC.Twofish
theorem C01.twofish_decrypt_encrypt_key (key : Array (BitVec 8)) (b : BitVec 128) :
    decrypt (keySchedule key) (encrypt (keySchedule key) b) = b :=
  _root_.BC.Twofish.decrypt_encrypt_key key b
end BC.Twofish

namespace BC.Twofish
theorem C01.twofish_encrypt_decrypt_key (key : Array (BitVec 8)) (b : BitVec 128) :
    encrypt (keySchedule key) (decrypt (keySchedule key) b) = b :=
  _root_.BC.Twofish.encrypt_decrypt_key key b
end BC.Twofish

namespace BC.Idea
/-- C01 for IDEA: all 2^128 keys, all blocks -/
theorem C01.idea_decrypt_encrypt (key : BitVec 128) (b : BitVec 64) :
    decrypt (new key) (encrypt (new key) b) = b :=
  _root_.BC.Idea.decrypt_encrypt key b
end BC.Idea

namespace BC.Idea
theorem C01.idea_encrypt_decrypt (key : BitVec 128) (b : BitVec 64) :
    encrypt (new key) (decrypt (new key) b) = b :=
  _root_.BC.Idea.encrypt_decrypt key b
end BC.Idea

namespace BC.Spec.Aes
/-- **C01 (specification level)**: InvCipher undoes Cipher — all round counts, all key schedules, all blocks -/
theorem C01.invCipher_cipher (nr : Nat) (w : Array (BitVec 32)) (b : BitVec 128) :
    invCipher nr w (cipher nr w b) = b :=
  _root_.BC.Spec.Aes.invCipher_cipher nr w b
end BC.Spec.Aes

namespace BC.Spec.Aes
theorem C01.cipher_invCipher (nr : Nat) (w : Array (BitVec 32)) (b : BitVec 128) :
    cipher nr w (invCipher nr w b) = b :=
  _root_.BC.Spec.Aes.cipher_invCipher nr w b
end BC.Spec.Aes

namespace BC.AesNi
open BC BC.X86 BC.Spec.Aes
theorem C01.decrypt128_encrypt128 (key b : BitVec 128) : decrypt128 key (encrypt128 key b) = b :=
  _root_.BC.AesNi.decrypt128_encrypt128 key b
end BC.AesNi

namespace BC.AesNi
open BC BC.X86 BC.Spec.Aes
theorem C01.encrypt128_decrypt128 (key b : BitVec 128) : encrypt128 key (decrypt128 key b) = b :=
  _root_.BC.AesNi.encrypt128_decrypt128 key b
end BC.AesNi

namespace BC.AesNi
open BC BC.X86 BC.Spec.Aes
theorem C01.decrypt192_encrypt192 (key : BitVec 192) (b : BitVec 128) : decrypt192 key (encrypt192 key b) = b :=
  _root_.BC.AesNi.decrypt192_encrypt192 key b
end BC.AesNi

namespace BC.AesNi
open BC BC.X86 BC.Spec.Aes
theorem C01.encrypt192_decrypt192 (key : BitVec 192) (b : BitVec 128) : encrypt192 key (decrypt192 key b) = b :=
  _root_.BC.AesNi.encrypt192_decrypt192 key b
end BC.AesNi

namespace BC.AesNi
open BC BC.X86 BC.Spec.Aes
theorem C01.decrypt256_encrypt256 (key : BitVec 256) (b : BitVec 128) : decrypt256 key (encrypt256 key b) = b :=
  _root_.BC.AesNi.decrypt256_encrypt256 key b
end BC.AesNi

namespace BC.AesNi
open BC BC.X86 BC.Spec.Aes
theorem C01.encrypt256_decrypt256 (key : BitVec 256) (b : BitVec 128) : encrypt256 key (decrypt256 key b) = b :=
  _root_.BC.AesNi.encrypt256_decrypt256 key b
end BC.AesNi

namespace BC.AesSoft
open BC BC.Spec.Aes
/-- C01: single-block round trip for arbitrary round-key arrays (hence all keys), all four backends -/
theorem C01.soft_roundtrip_128 (rk : Nat → AesFs64.St) (rk' : Nat → AesFs32.St) (x : BitVec 128) :
    (AesFs64.single (AesFs64.aes128_decrypt rk) (AesFs64.single (AesFs64.aes128_encrypt rk) x) = x ∧ AesFs64.single (AesFs64.aes128_encrypt rk) (AesFs64.single (AesFs64.aes128_decrypt rk) x) = x) ∧
    (AesFs64.single (AesFs64.aes128_decrypt_compact rk) (AesFs64.single (AesFs64.aes128_encrypt_compact rk) x) = x ∧ AesFs64.single (AesFs64.aes128_encrypt_compact rk) (AesFs64.single (AesFs64.aes128_decrypt_compact rk) x) = x) ∧
    (AesFs32.single (AesFs32.aes128_decrypt rk') (AesFs32.single (AesFs32.aes128_encrypt rk') x) = x ∧ AesFs32.single (AesFs32.aes128_encrypt rk') (AesFs32.single (AesFs32.aes128_decrypt rk') x) = x) ∧
    (AesFs32.single (AesFs32.aes128_decrypt_compact rk') (AesFs32.single (AesFs32.aes128_encrypt_compact rk') x) = x ∧ AesFs32.single (AesFs32.aes128_encrypt_compact rk') (AesFs32.single (AesFs32.aes128_decrypt_compact rk') x) = x) :=
  _root_.BC.AesSoft.soft_roundtrip_128 rk rk' x
end BC.AesSoft

namespace BC.AesSoft
open BC BC.Spec.Aes
/-- C01: single-block round trip for arbitrary round-key arrays (hence all keys), all four backends -/
theorem C01.soft_roundtrip_192 (rk : Nat → AesFs64.St) (rk' : Nat → AesFs32.St) (x : BitVec 128) :
    (AesFs64.single (AesFs64.aes192_decrypt rk) (AesFs64.single (AesFs64.aes192_encrypt rk) x) = x ∧ AesFs64.single (AesFs64.aes192_encrypt rk) (AesFs64.single (AesFs64.aes192_decrypt rk) x) = x) ∧
    (AesFs64.single (AesFs64.aes192_decrypt_compact rk) (AesFs64.single (AesFs64.aes192_encrypt_compact rk) x) = x ∧ AesFs64.single (AesFs64.aes192_encrypt_compact rk) (AesFs64.single (AesFs64.aes192_decrypt_compact rk) x) = x) ∧
    (AesFs32.single (AesFs32.aes192_decrypt rk') (AesFs32.single (AesFs32.aes192_encrypt rk') x) = x ∧ AesFs32.single (AesFs32.aes192_encrypt rk') (AesFs32.single (AesFs32.aes192_decrypt rk') x) = x) ∧
    (AesFs32.single (AesFs32.aes192_decrypt_compact rk') (AesFs32.single (AesFs32.aes192_encrypt_compact rk') x) = x ∧ AesFs32.single (AesFs32.aes192_encrypt_compact rk') (AesFs32.single (AesFs32.aes192_decrypt_compact rk') x) = x) :=
  _root_.BC.AesSoft.soft_roundtrip_192 rk rk' x
end BC.AesSoft

namespace BC.AesSoft
open BC BC.Spec.Aes
/-- C01: single-block round trip for arbitrary round-key arrays (hence all keys), all four backends -/
theorem C01.soft_roundtrip_256 (rk : Nat → AesFs64.St) (rk' : Nat → AesFs32.St) (x : BitVec 128) :
    (AesFs64.single (AesFs64.aes256_decrypt rk) (AesFs64.single (AesFs64.aes256_encrypt rk) x) = x ∧ AesFs64.single (AesFs64.aes256_encrypt rk) (AesFs64.single (AesFs64.aes256_decrypt rk) x) = x) ∧
    (AesFs64.single (AesFs64.aes256_decrypt_compact rk) (AesFs64.single (AesFs64.aes256_encrypt_compact rk) x) = x ∧ AesFs64.single (AesFs64.aes256_encrypt_compact rk) (AesFs64.single (AesFs64.aes256_decrypt_compact rk) x) = x) ∧
    (AesFs32.single (AesFs32.aes256_decrypt rk') (AesFs32.single (AesFs32.aes256_encrypt rk') x) = x ∧ AesFs32.single (AesFs32.aes256_encrypt rk') (AesFs32.single (AesFs32.aes256_decrypt rk') x) = x) ∧
    (AesFs32.single (AesFs32.aes256_decrypt_compact rk') (AesFs32.single (AesFs32.aes256_encrypt_compact rk') x) = x ∧ AesFs32.single (AesFs32.aes256_encrypt_compact rk') (AesFs32.single (AesFs32.aes256_decrypt_compact rk') x) = x) :=
  _root_.BC.AesSoft.soft_roundtrip_256 rk rk' x
end BC.AesSoft

namespace BC.AesArmv8
open BC BC.X86 BC.Arm BC.Spec.Aes BC.AesNi
theorem C01.armv8_decrypt128_encrypt128 (key b : BitVec 128) : decrypt128 key (encrypt128 key b) = b :=
  _root_.BC.AesArmv8.decrypt128_encrypt128 key b
end BC.AesArmv8

namespace BC.AesArmv8
open BC BC.X86 BC.Arm BC.Spec.Aes BC.AesNi
theorem C01.armv8_encrypt128_decrypt128 (key b : BitVec 128) : encrypt128 key (decrypt128 key b) = b :=
  _root_.BC.AesArmv8.encrypt128_decrypt128 key b
end BC.AesArmv8

namespace BC.AesArmv8
open BC BC.X86 BC.Arm BC.Spec.Aes BC.AesNi
theorem C01.armv8_decrypt192_encrypt192 (key : BitVec 192) (b : BitVec 128) : decrypt192 key (encrypt192 key b) = b :=
  _root_.BC.AesArmv8.decrypt192_encrypt192 key b
end BC.AesArmv8

namespace BC.AesArmv8
open BC BC.X86 BC.Arm BC.Spec.Aes BC.AesNi
theorem C01.armv8_encrypt192_decrypt192 (key : BitVec 192) (b : BitVec 128) : encrypt192 key (decrypt192 key b) = b :=
  _root_.BC.AesArmv8.encrypt192_decrypt192 key b
end BC.AesArmv8

namespace BC.AesArmv8
open BC BC.X86 BC.Arm BC.Spec.Aes BC.AesNi
theorem C01.armv8_decrypt256_encrypt256 (key : BitVec 256) (b : BitVec 128) : decrypt256 key (encrypt256 key b) = b :=
  _root_.BC.AesArmv8.decrypt256_encrypt256 key b
end BC.AesArmv8

namespace BC.AesArmv8
open BC BC.X86 BC.Arm BC.Spec.Aes BC.AesNi
theorem C01.armv8_encrypt256_decrypt256 (key : BitVec 256) (b : BitVec 128) : encrypt256 key (decrypt256 key b) = b :=
  _root_.BC.AesArmv8.encrypt256_decrypt256 key b
end BC.AesArmv8

namespace BC.AesArmv8
open BC BC.X86 BC.Spec.Aes BC.AesNi
open BC.Models.Aes BC.Models.AesArmv8
/-- C01 at the registry level -/
theorem C01.armv8_newCombined_roundtrip (f : Fam) (k : Bytes) (h : k.length = f.keyLen) :
    ∃ c, Models.AesArmv8.newCombined f k = some c ∧
      (∀ b, c.decrypt_block (c.encrypt_block b) = b) ∧ (∀ b, c.encrypt_block (c.decrypt_block b) = b) :=
  _root_.BC.AesArmv8.newCombined_roundtrip f k h
end BC.AesArmv8
