import BlockCiphers.Proofs.Xtea
import BlockCiphers.Proofs.Rc5SpeckC01
/-
C01 — decryption inverts encryption.  ONLY property theorems and non-vacuity examples live here.
One theorem per cipher model; `Thm.C01` grows with the list of models (the registry entries that are
still outside it are listed in the evidence under `no_model_lines_by_cipher`).
-/
namespace BC.Thm.C01

/-- XTEA: for every 128-bit key and every block, `decrypt (encrypt b) = b`. -/
theorem xtea_dec_enc (key : BitVec 128) (b : BitVec 64) :
    Xtea.decrypt (Xtea.keyOfBits key) (Xtea.encrypt (Xtea.keyOfBits key) b) = b :=
  Xtea.decrypt_encrypt _ b

/-- RC5: every `RC5<W,R,B>` (any word size that is a multiple of 8 bits, any rounds, any key length): a key of the
accepted length yields an instance whose `dec` inverts its `enc` and vice versa on every block. -/
theorem rc5_round_trip (w r b : Nat) (hw : w % 8 = 0) (key : Bytes) (hk : key.length = b) :
    Models.RoundTrips (Models.Rc5.mk w r b) key :=
  Models.rc5_mk_roundTrips w r b hw key hk

/-- the ten Speck types -/
theorem speck_round_trip : ∀ p ∈ BC.Speck.all, ∀ key : Bytes, key.length = p.keyBytes →
    Models.RoundTrips (Models.Speck.mk p) key :=
  Models.speck_mk_roundTrips

end BC.Thm.C01
