import BlockCiphers.Proofs.Xtea
/-
C01 — decryption inverts encryption.  ONLY property theorems and non-vacuity examples live here.
One theorem per cipher model; `Thm.C01` grows with the list of models (the registry entries that are
still outside it are listed in the evidence under `no_model_lines_by_cipher`).
-/
namespace BC.Thm.C01

/-- XTEA: for every 128-bit key and every block, `decrypt (encrypt b) = b`. -/
theorem xtea_dec_enc (key : BitVec 128) (b : BitVec 64) :
    Xtea.decrypt (Xtea.keyOfBits key) (Xtea.encrypt (Xtea.keyOfBits key) b) = b :=
  Xtea.decrypt_encrypt _ b

end BC.Thm.C01
