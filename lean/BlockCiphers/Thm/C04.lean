/-
C04 — theorem file (property theorems only).  Filled in as the models it needs are merged; see DESIGN §7 C04.
-/
namespace BC.Thm.C04
end BC.Thm.C04
