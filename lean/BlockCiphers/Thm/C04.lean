import BlockCiphers.Proofs.Kuznyechik
import BlockCiphers.Proofs.AesNiPar
import BlockCiphers.Proofs.AesFs64Lanes
import BlockCiphers.Proofs.AesFs64Aes128
import BlockCiphers.Proofs.AesFs64Aes192
import BlockCiphers.Proofs.AesFs64Aes256
import BlockCiphers.Proofs.AesFs32Lanes
import BlockCiphers.Proofs.AesArmv8
import BlockCiphers.Proofs.AesArmv8Par
import BlockCiphers.Proofs.KuznyechikNeonModels
/-
C04 — multi-block and buffer-to-buffer calls equal per-block calls
GENERATED statement file (tools/gen_thm.py): every theorem below restates, verbatim, a theorem of a Proofs/ module
and is proved by applying it.  ONLY property theorems and non-vacuity examples live in Thm/.
AES-NI: the unrolled 9-lane parallel form = map of the single-block function for any number of lanes; fixslice: block j of a batch result
depends only on block j (lane_indep) and a batch under one key = map of the single-block function (uniform).  Every other cipher has
ParBlocksSize = 1: its multi-block call is the cipher crate's loop over encrypt_block (modelled as `map` in History.fresh).  The memory part
(nothing outside the output blocks is written) is observed by canaries only — partial, see DESIGN §7 C04.
-/

namespace BC.Kuznyechik
open BC.Spec.Kuznyechik
/-- big_soft: `encrypt_blocks` (ParBlocksSize 3) / `decrypt_blocks` (ParBlocksSize 1) -/
theorem C04.kuz_soft_blocks_eq_map (k : RoundKeys) (bs : List (BitVec 128)) :
    procBlocks Soft.parEnc (Soft.encrypt_par_blocks k) (Soft.encrypt_block k) bs = bs.map (Soft.encrypt_block k) ∧
    procBlocks Soft.parDec (fun bs => bs.map (Soft.decrypt_block k)) (Soft.decrypt_block k) bs =
      bs.map (Soft.decrypt_block k) :=
  _root_.BC.Kuznyechik.Soft.blocks_eq_map k bs
end BC.Kuznyechik

namespace BC.Kuznyechik
open BC.Spec.Kuznyechik
/-- sse2: `encrypt_blocks` / `decrypt_blocks` (ParBlocksSize 4) -/
theorem C04.kuz_sse2_blocks_eq_map (k : RoundKeys) (bs : List (BitVec 128)) :
    procBlocks Sse2.parEnc (Sse2.encrypt_par_blocks k) (Sse2.encrypt_block k) bs = bs.map (Sse2.encrypt_block k) ∧
    procBlocks Sse2.parDec (Sse2.decrypt_par_blocks k) (Sse2.decrypt_block k) bs = bs.map (Sse2.decrypt_block k) :=
  _root_.BC.Kuznyechik.Sse2.blocks_eq_map k bs
end BC.Kuznyechik

namespace BC.Kuznyechik
open BC.Spec.Kuznyechik
/-- neon model: `encrypt_blocks` / `decrypt_blocks` (ParBlocksSize 8) -/
theorem C04.kuz_neon_blocks_eq_map (k : RoundKeys) (bs : List (BitVec 128)) :
    procBlocks Neon.parEnc (Neon.encrypt_par_blocks k) (Neon.encrypt_block k) bs = bs.map (Neon.encrypt_block k) ∧
    procBlocks Neon.parDec (Neon.decrypt_par_blocks k) (Neon.decrypt_block k) bs = bs.map (Neon.decrypt_block k) :=
  _root_.BC.Kuznyechik.Neon.blocks_eq_map k bs
end BC.Kuznyechik

namespace BC.Kuznyechik
open BC.Spec.Kuznyechik
/-- compact_soft: ParBlocksSize 1 -/
theorem C04.kuz_compact_blocks_eq_map (k : RoundKeys) (bs : List (BitVec 128)) :
    procBlocks 1 (fun bs => bs.map (Compact.encrypt_block k)) (Compact.encrypt_block k) bs =
      bs.map (Compact.encrypt_block k) ∧
    procBlocks 1 (fun bs => bs.map (Compact.decrypt_block k)) (Compact.decrypt_block k) bs =
      bs.map (Compact.decrypt_block k) :=
  _root_.BC.Kuznyechik.Compact.blocks_eq_map k bs
end BC.Kuznyechik

namespace BC.AesNi
open BC BC.X86
/-- `encrypt_par` = lane-wise `encrypt` whenever the key array has one of the three legal sizes -/
theorem C04.ni_encrypt_par_eq_map (keys bs : List (BitVec 128)) (h : keys.length = 11 ∨ keys.length = 13 ∨ keys.length = 15) :
    encrypt_par keys bs = bs.map (encrypt keys) :=
  _root_.BC.AesNi.encrypt_par_eq_map keys bs h
end BC.AesNi

namespace BC.AesNi
open BC BC.X86
/-- `decrypt_par` = lane-wise `decrypt` whenever the key array has one of the three legal sizes -/
theorem C04.ni_decrypt_par_eq_map (keys bs : List (BitVec 128)) (h : keys.length = 11 ∨ keys.length = 13 ∨ keys.length = 15) :
    decrypt_par keys bs = bs.map (decrypt keys) :=
  _root_.BC.AesNi.decrypt_par_eq_map keys bs h
end BC.AesNi

namespace BC.AesFs64
open BC.Spec.Aes
/-- C04: block `j` of the result depends only on block `j` of the input (any round keys) -/
theorem C04.aes128_encrypt_lane_indep (rk : Nat → St) (x y : Batch) :
    (x.b0 = y.b0 → (aes128_encrypt rk x).b0 = (aes128_encrypt rk y).b0) ∧ (x.b1 = y.b1 → (aes128_encrypt rk x).b1 = (aes128_encrypt rk y).b1) ∧
    (x.b2 = y.b2 → (aes128_encrypt rk x).b2 = (aes128_encrypt rk y).b2) ∧ (x.b3 = y.b3 → (aes128_encrypt rk x).b3 = (aes128_encrypt rk y).b3) :=
  _root_.BC.AesFs64.aes128_encrypt_lane_indep rk x y
end BC.AesFs64

namespace BC.AesFs64
open BC.Spec.Aes
/-- C04: block `j` of the result depends only on block `j` of the input (any round keys) -/
theorem C04.aes128_decrypt_lane_indep (rk : Nat → St) (x y : Batch) :
    (x.b0 = y.b0 → (aes128_decrypt rk x).b0 = (aes128_decrypt rk y).b0) ∧ (x.b1 = y.b1 → (aes128_decrypt rk x).b1 = (aes128_decrypt rk y).b1) ∧
    (x.b2 = y.b2 → (aes128_decrypt rk x).b2 = (aes128_decrypt rk y).b2) ∧ (x.b3 = y.b3 → (aes128_decrypt rk x).b3 = (aes128_decrypt rk y).b3) :=
  _root_.BC.AesFs64.aes128_decrypt_lane_indep rk x y
end BC.AesFs64

namespace BC.AesFs64
open BC.Spec.Aes
/-- C04: block `j` of the result depends only on block `j` of the input (any round keys) -/
theorem C04.aes192_encrypt_lane_indep (rk : Nat → St) (x y : Batch) :
    (x.b0 = y.b0 → (aes192_encrypt rk x).b0 = (aes192_encrypt rk y).b0) ∧ (x.b1 = y.b1 → (aes192_encrypt rk x).b1 = (aes192_encrypt rk y).b1) ∧
    (x.b2 = y.b2 → (aes192_encrypt rk x).b2 = (aes192_encrypt rk y).b2) ∧ (x.b3 = y.b3 → (aes192_encrypt rk x).b3 = (aes192_encrypt rk y).b3) :=
  _root_.BC.AesFs64.aes192_encrypt_lane_indep rk x y
end BC.AesFs64

namespace BC.AesFs64
open BC.Spec.Aes
/-- C04: block `j` of the result depends only on block `j` of the input (any round keys) -/
theorem C04.aes192_decrypt_lane_indep (rk : Nat → St) (x y : Batch) :
    (x.b0 = y.b0 → (aes192_decrypt rk x).b0 = (aes192_decrypt rk y).b0) ∧ (x.b1 = y.b1 → (aes192_decrypt rk x).b1 = (aes192_decrypt rk y).b1) ∧
    (x.b2 = y.b2 → (aes192_decrypt rk x).b2 = (aes192_decrypt rk y).b2) ∧ (x.b3 = y.b3 → (aes192_decrypt rk x).b3 = (aes192_decrypt rk y).b3) :=
  _root_.BC.AesFs64.aes192_decrypt_lane_indep rk x y
end BC.AesFs64

namespace BC.AesFs64
open BC.Spec.Aes
/-- C04: block `j` of the result depends only on block `j` of the input (any round keys) -/
theorem C04.aes256_encrypt_lane_indep (rk : Nat → St) (x y : Batch) :
    (x.b0 = y.b0 → (aes256_encrypt rk x).b0 = (aes256_encrypt rk y).b0) ∧ (x.b1 = y.b1 → (aes256_encrypt rk x).b1 = (aes256_encrypt rk y).b1) ∧
    (x.b2 = y.b2 → (aes256_encrypt rk x).b2 = (aes256_encrypt rk y).b2) ∧ (x.b3 = y.b3 → (aes256_encrypt rk x).b3 = (aes256_encrypt rk y).b3) :=
  _root_.BC.AesFs64.aes256_encrypt_lane_indep rk x y
end BC.AesFs64

namespace BC.AesFs64
open BC.Spec.Aes
/-- C04: block `j` of the result depends only on block `j` of the input (any round keys) -/
theorem C04.aes256_decrypt_lane_indep (rk : Nat → St) (x y : Batch) :
    (x.b0 = y.b0 → (aes256_decrypt rk x).b0 = (aes256_decrypt rk y).b0) ∧ (x.b1 = y.b1 → (aes256_decrypt rk x).b1 = (aes256_decrypt rk y).b1) ∧
    (x.b2 = y.b2 → (aes256_decrypt rk x).b2 = (aes256_decrypt rk y).b2) ∧ (x.b3 = y.b3 → (aes256_decrypt rk x).b3 = (aes256_decrypt rk y).b3) :=
  _root_.BC.AesFs64.aes256_decrypt_lane_indep rk x y
end BC.AesFs64

namespace BC.AesFs64
open BC.Spec.Aes
/-- C04: block `j` of the result depends only on block `j` of the input (any round keys) -/
theorem C04.aes128_encrypt_compact_lane_indep (rk : Nat → St) (x y : Batch) :
    (x.b0 = y.b0 → (aes128_encrypt_compact rk x).b0 = (aes128_encrypt_compact rk y).b0) ∧ (x.b1 = y.b1 → (aes128_encrypt_compact rk x).b1 = (aes128_encrypt_compact rk y).b1) ∧
    (x.b2 = y.b2 → (aes128_encrypt_compact rk x).b2 = (aes128_encrypt_compact rk y).b2) ∧ (x.b3 = y.b3 → (aes128_encrypt_compact rk x).b3 = (aes128_encrypt_compact rk y).b3) :=
  _root_.BC.AesFs64.aes128_encrypt_compact_lane_indep rk x y
end BC.AesFs64

namespace BC.AesFs64
open BC.Spec.Aes
/-- C04: block `j` of the result depends only on block `j` of the input (any round keys) -/
theorem C04.aes128_decrypt_compact_lane_indep (rk : Nat → St) (x y : Batch) :
    (x.b0 = y.b0 → (aes128_decrypt_compact rk x).b0 = (aes128_decrypt_compact rk y).b0) ∧ (x.b1 = y.b1 → (aes128_decrypt_compact rk x).b1 = (aes128_decrypt_compact rk y).b1) ∧
    (x.b2 = y.b2 → (aes128_decrypt_compact rk x).b2 = (aes128_decrypt_compact rk y).b2) ∧ (x.b3 = y.b3 → (aes128_decrypt_compact rk x).b3 = (aes128_decrypt_compact rk y).b3) :=
  _root_.BC.AesFs64.aes128_decrypt_compact_lane_indep rk x y
end BC.AesFs64

namespace BC.AesFs64
open BC.Spec.Aes
/-- lane-uniform keys: the batch call is the single-block function in every lane (C04 `encs = map enc`) -/
theorem C04.aes128_encrypt_uniform (rk : Nat → St) (k : Nat → BitVec 128)
    (h : ∀ r, r ≤ 10 → rk r = fsKey 10 r (uniformKeys k r)) (b : Batch) :
    aes128_encrypt rk b = b.map (cipherK 10 k) ∧ ∀ x, single (aes128_encrypt rk) x = cipherK 10 k x :=
  _root_.BC.AesFs64.aes128_encrypt_uniform rk k h b
end BC.AesFs64

namespace BC.AesFs64
open BC.Spec.Aes
/-- lane-uniform keys: the batch call is the single-block function in every lane (C04 `encs = map enc`) -/
theorem C04.aes128_decrypt_uniform (rk : Nat → St) (k : Nat → BitVec 128)
    (h : ∀ r, r ≤ 10 → rk r = fsKey 10 r (uniformKeys k r)) (b : Batch) :
    aes128_decrypt rk b = b.map (invCipherK 10 k) ∧ ∀ x, single (aes128_decrypt rk) x = invCipherK 10 k x :=
  _root_.BC.AesFs64.aes128_decrypt_uniform rk k h b
end BC.AesFs64

namespace BC.AesFs64
open BC.Spec.Aes
/-- lane-uniform keys: the batch call is the single-block function in every lane (C04 `encs = map enc`) -/
theorem C04.aes192_encrypt_uniform (rk : Nat → St) (k : Nat → BitVec 128)
    (h : ∀ r, r ≤ 12 → rk r = fsKey 12 r (uniformKeys k r)) (b : Batch) :
    aes192_encrypt rk b = b.map (cipherK 12 k) ∧ ∀ x, single (aes192_encrypt rk) x = cipherK 12 k x :=
  _root_.BC.AesFs64.aes192_encrypt_uniform rk k h b
end BC.AesFs64

namespace BC.AesFs64
open BC.Spec.Aes
/-- lane-uniform keys: the batch call is the single-block function in every lane (C04 `encs = map enc`) -/
theorem C04.aes256_encrypt_uniform (rk : Nat → St) (k : Nat → BitVec 128)
    (h : ∀ r, r ≤ 14 → rk r = fsKey 14 r (uniformKeys k r)) (b : Batch) :
    aes256_encrypt rk b = b.map (cipherK 14 k) ∧ ∀ x, single (aes256_encrypt rk) x = cipherK 14 k x :=
  _root_.BC.AesFs64.aes256_encrypt_uniform rk k h b
end BC.AesFs64

namespace BC.AesFs64
open BC.Spec.Aes
/-- C04: slot 0 of a batch call = `soft.rs` single-block call on that block -/
theorem C04.aes128_encrypt_lane0 (rk : Nat → St) (b : Batch) : (aes128_encrypt rk b).b0 = single (aes128_encrypt rk) b.b0 :=
  _root_.BC.AesFs64.aes128_encrypt_lane0 rk b
end BC.AesFs64

namespace BC.AesArmv8
open BC BC.X86 BC.Arm
/-- `encrypt_par` = lane-wise `encrypt` whenever the key array has one of the three legal sizes -/
theorem C04.armv8_encrypt_par_eq_map (keys bs : List (BitVec 128)) (h : keys.length = 11 ∨ keys.length = 13 ∨ keys.length = 15) :
    encrypt_par keys bs = bs.map (encrypt keys) :=
  _root_.BC.AesArmv8.encrypt_par_eq_map keys bs h
end BC.AesArmv8

namespace BC.AesArmv8
open BC BC.X86 BC.Arm
/-- `decrypt_par` = lane-wise `decrypt` whenever the key array has one of the three legal sizes -/
theorem C04.armv8_decrypt_par_eq_map (keys bs : List (BitVec 128)) (h : keys.length = 11 ∨ keys.length = 13 ∨ keys.length = 15) :
    decrypt_par keys bs = bs.map (decrypt keys) :=
  _root_.BC.AesArmv8.decrypt_par_eq_map keys bs h
end BC.AesArmv8

namespace BC.AesArmv8
open BC BC.X86 BC.Arm BC.Spec.Aes BC.AesNi
theorem C04.armv8_encrypt_par128 (key : BitVec 128) (bs : List (BitVec 128)) :
    encrypt_par (Enc.new128 key).keys bs = bs.map (encrypt128 key) :=
  _root_.BC.AesArmv8.encrypt_par128 key bs
end BC.AesArmv8

namespace BC.AesArmv8
open BC BC.X86 BC.Arm BC.Spec.Aes BC.AesNi
theorem C04.armv8_decrypt_par128 (key : BitVec 128) (bs : List (BitVec 128)) :
    decrypt_par (Dec.new128 key).keys bs = bs.map (decrypt128 key) :=
  _root_.BC.AesArmv8.decrypt_par128 key bs
end BC.AesArmv8

namespace BC.AesArmv8
open BC BC.X86 BC.Arm BC.Spec.Aes BC.AesNi
theorem C04.armv8_encrypt_par192 (key : BitVec 192) (bs : List (BitVec 128)) :
    encrypt_par (Enc.new192 key).keys bs = bs.map (encrypt192 key) :=
  _root_.BC.AesArmv8.encrypt_par192 key bs
end BC.AesArmv8

namespace BC.AesArmv8
open BC BC.X86 BC.Arm BC.Spec.Aes BC.AesNi
theorem C04.armv8_decrypt_par192 (key : BitVec 192) (bs : List (BitVec 128)) :
    decrypt_par (Dec.new192 key).keys bs = bs.map (decrypt192 key) :=
  _root_.BC.AesArmv8.decrypt_par192 key bs
end BC.AesArmv8

namespace BC.AesArmv8
open BC BC.X86 BC.Arm BC.Spec.Aes BC.AesNi
theorem C04.armv8_encrypt_par256 (key : BitVec 256) (bs : List (BitVec 128)) :
    encrypt_par (Enc.new256 key).keys bs = bs.map (encrypt256 key) :=
  _root_.BC.AesArmv8.encrypt_par256 key bs
end BC.AesArmv8

namespace BC.AesArmv8
open BC BC.X86 BC.Arm BC.Spec.Aes BC.AesNi
theorem C04.armv8_decrypt_par256 (key : BitVec 256) (bs : List (BitVec 128)) :
    decrypt_par (Dec.new256 key).keys bs = bs.map (decrypt256 key) :=
  _root_.BC.AesArmv8.decrypt_par256 key bs
end BC.AesArmv8

namespace BC.Models.KuznyechikNeon
open BC BC.Kuznyechik
/-- C04 for the `neonblocks` line: the block loop over the parallel functions is the block-wise map -/
theorem C04.neon_blocks_eq_map (k : RoundKeys) (bs : List (BitVec 128)) :
    procBlocks Neon.parEnc (Neon.encrypt_par_blocks k) (Neon.encrypt_block k) bs = bs.map (Neon.encrypt_block k) ∧
    procBlocks Neon.parDec (Neon.decrypt_par_blocks k) (Neon.decrypt_block k) bs = bs.map (Neon.decrypt_block k) :=
  _root_.BC.Models.KuznyechikNeon.blocks_eq_map k bs
end BC.Models.KuznyechikNeon
