import BlockCiphers.Prelude.Bytes
import BlockCiphers.Prelude.SmbUtil
/-
Model of /repo/sm4/src/lib.rs + consts.rs (SM4, GB/T 32907-2016; 128-bit block, 128-bit key,
big-endian words).  Mirrors the Rust as written: `tau` (four S-box look-ups on the big-endian bytes),
`el`, `el_prime`, `t`, `t_prime`, the key schedule and both block functions as 8 iterations of four
in-place word updates, output words written in reverse order.

C20-SITES (plain arithmetic / indexing in the Rust):
-- C20-SITE: tau: SBOX[buf[j] as usize] : index is a `u8`, table has 256 entries (`SBOX_size`).
-- C20-SITE: KeyInit::new: CK[i * 4 + j], rk[i * 4 + j] with i < 8, j < 4 : index ≤ 31 < 32 (`CK_size`).
-- C20-SITE: encrypt_block: rk[i * 4 + j] : as above.
-- C20-SITE: decrypt_block: rk[31 - (i * 4 + j)] : i*4+j ≤ 31, so the subtraction cannot underflow and
--           the index is ≤ 31.
-- C20-SITE: key[0..4].try_into().unwrap() etc. : slices of a 16-byte array with constant bounds.
-/
namespace BC.Sm4

/-- `consts.rs: SBOX` -/
def SBOX : Array (BitVec 8) := #[
  0xd6#8, 0x90#8, 0xe9#8, 0xfe#8, 0xcc#8, 0xe1#8, 0x3d#8, 0xb7#8, 0x16#8, 0xb6#8, 0x14#8, 0xc2#8, 0x28#8, 0xfb#8, 0x2c#8, 0x05#8,
  0x2b#8, 0x67#8, 0x9a#8, 0x76#8, 0x2a#8, 0xbe#8, 0x04#8, 0xc3#8, 0xaa#8, 0x44#8, 0x13#8, 0x26#8, 0x49#8, 0x86#8, 0x06#8, 0x99#8,
  0x9c#8, 0x42#8, 0x50#8, 0xf4#8, 0x91#8, 0xef#8, 0x98#8, 0x7a#8, 0x33#8, 0x54#8, 0x0b#8, 0x43#8, 0xed#8, 0xcf#8, 0xac#8, 0x62#8,
  0xe4#8, 0xb3#8, 0x1c#8, 0xa9#8, 0xc9#8, 0x08#8, 0xe8#8, 0x95#8, 0x80#8, 0xdf#8, 0x94#8, 0xfa#8, 0x75#8, 0x8f#8, 0x3f#8, 0xa6#8,
  0x47#8, 0x07#8, 0xa7#8, 0xfc#8, 0xf3#8, 0x73#8, 0x17#8, 0xba#8, 0x83#8, 0x59#8, 0x3c#8, 0x19#8, 0xe6#8, 0x85#8, 0x4f#8, 0xa8#8,
  0x68#8, 0x6b#8, 0x81#8, 0xb2#8, 0x71#8, 0x64#8, 0xda#8, 0x8b#8, 0xf8#8, 0xeb#8, 0x0f#8, 0x4b#8, 0x70#8, 0x56#8, 0x9d#8, 0x35#8,
  0x1e#8, 0x24#8, 0x0e#8, 0x5e#8, 0x63#8, 0x58#8, 0xd1#8, 0xa2#8, 0x25#8, 0x22#8, 0x7c#8, 0x3b#8, 0x01#8, 0x21#8, 0x78#8, 0x87#8,
  0xd4#8, 0x00#8, 0x46#8, 0x57#8, 0x9f#8, 0xd3#8, 0x27#8, 0x52#8, 0x4c#8, 0x36#8, 0x02#8, 0xe7#8, 0xa0#8, 0xc4#8, 0xc8#8, 0x9e#8,
  0xea#8, 0xbf#8, 0x8a#8, 0xd2#8, 0x40#8, 0xc7#8, 0x38#8, 0xb5#8, 0xa3#8, 0xf7#8, 0xf2#8, 0xce#8, 0xf9#8, 0x61#8, 0x15#8, 0xa1#8,
  0xe0#8, 0xae#8, 0x5d#8, 0xa4#8, 0x9b#8, 0x34#8, 0x1a#8, 0x55#8, 0xad#8, 0x93#8, 0x32#8, 0x30#8, 0xf5#8, 0x8c#8, 0xb1#8, 0xe3#8,
  0x1d#8, 0xf6#8, 0xe2#8, 0x2e#8, 0x82#8, 0x66#8, 0xca#8, 0x60#8, 0xc0#8, 0x29#8, 0x23#8, 0xab#8, 0x0d#8, 0x53#8, 0x4e#8, 0x6f#8,
  0xd5#8, 0xdb#8, 0x37#8, 0x45#8, 0xde#8, 0xfd#8, 0x8e#8, 0x2f#8, 0x03#8, 0xff#8, 0x6a#8, 0x72#8, 0x6d#8, 0x6c#8, 0x5b#8, 0x51#8,
  0x8d#8, 0x1b#8, 0xaf#8, 0x92#8, 0xbb#8, 0xdd#8, 0xbc#8, 0x7f#8, 0x11#8, 0xd9#8, 0x5c#8, 0x41#8, 0x1f#8, 0x10#8, 0x5a#8, 0xd8#8,
  0x0a#8, 0xc1#8, 0x31#8, 0x88#8, 0xa5#8, 0xcd#8, 0x7b#8, 0xbd#8, 0x2d#8, 0x74#8, 0xd0#8, 0x12#8, 0xb8#8, 0xe5#8, 0xb4#8, 0xb0#8,
  0x89#8, 0x69#8, 0x97#8, 0x4a#8, 0x0c#8, 0x96#8, 0x77#8, 0x7e#8, 0x65#8, 0xb9#8, 0xf1#8, 0x09#8, 0xc5#8, 0x6e#8, 0xc6#8, 0x84#8,
  0x18#8, 0xf0#8, 0x7d#8, 0xec#8, 0x3a#8, 0xdc#8, 0x4d#8, 0x20#8, 0x79#8, 0xee#8, 0x5f#8, 0x3e#8, 0xd7#8, 0xcb#8, 0x39#8, 0x48#8]

theorem SBOX_size : SBOX.size = 256 := by decide +kernel

/-- `consts.rs: FK` -/
def FK : Array (BitVec 32) := #[0xa3b1bac6#32, 0x56aa3350#32, 0x677d9197#32, 0xb27022dc#32]

/-- `consts.rs: CK` -/
def CK : Array (BitVec 32) := #[
  0x00070e15#32, 0x1c232a31#32, 0x383f464d#32, 0x545b6269#32, 0x70777e85#32, 0x8c939aa1#32, 0xa8afb6bd#32, 0xc4cbd2d9#32,
  0xe0e7eef5#32, 0xfc030a11#32, 0x181f262d#32, 0x343b4249#32, 0x50575e65#32, 0x6c737a81#32, 0x888f969d#32, 0xa4abb2b9#32,
  0xc0c7ced5#32, 0xdce3eaf1#32, 0xf8ff060d#32, 0x141b2229#32, 0x30373e45#32, 0x4c535a61#32, 0x686f767d#32, 0x848b9299#32,
  0xa0a7aeb5#32, 0xbcc3cad1#32, 0xd8dfe6ed#32, 0xf4fb0209#32, 0x10171e25#32, 0x2c333a41#32, 0x484f565d#32, 0x646b7279#32]

theorem CK_size : CK.size = 32 := by decide

/-- `SBOX[b as usize]` (in range because `b : u8`) -/
def sbox (b : BitVec 8) : BitVec 8 := SBOX.getD b.toNat 0

/-- `fn tau`: S-box on each byte of the big-endian representation -/
def tau (a : BitVec 32) : BitVec 32 :=
  sbox (a.extractLsb' 24 8) ++ sbox (a.extractLsb' 16 8) ++ sbox (a.extractLsb' 8 8) ++
    sbox (a.extractLsb' 0 8)

/-- `fn el` -/
def el (b : BitVec 32) : BitVec 32 :=
  b ^^^ b.rotateLeft 2 ^^^ b.rotateLeft 10 ^^^ b.rotateLeft 18 ^^^ b.rotateLeft 24

/-- `fn el_prime` -/
def el_prime (b : BitVec 32) : BitVec 32 := b ^^^ b.rotateLeft 13 ^^^ b.rotateLeft 23

/-- `fn t` -/
def t (v : BitVec 32) : BitVec 32 := el (tau v)

/-- `fn t_prime` -/
def t_prime (v : BitVec 32) : BitVec 32 := el_prime (tau v)

/-- four 32-bit words `x[0..4]` / `k[0..4]` -/
structure X where
  x0 : BitVec 32
  x1 : BitVec 32
  x2 : BitVec 32
  x3 : BitVec 32

/-- body of the key-schedule loop (the four `k[j] ^= t_prime(..)` updates) -/
def ksStep (i : Nat) (k : X) : X :=
  let k0 := k.x0 ^^^ t_prime (k.x1 ^^^ k.x2 ^^^ k.x3 ^^^ CK.getD (i * 4) 0)
  let k1 := k.x1 ^^^ t_prime (k.x2 ^^^ k.x3 ^^^ k0 ^^^ CK.getD (i * 4 + 1) 0)
  let k2 := k.x2 ^^^ t_prime (k.x3 ^^^ k0 ^^^ k1 ^^^ CK.getD (i * 4 + 2) 0)
  let k3 := k.x3 ^^^ t_prime (k0 ^^^ k1 ^^^ k2 ^^^ CK.getD (i * 4 + 3) 0)
  { x0 := k0, x1 := k1, x2 := k2, x3 := k3 }

/-- state of the key-schedule loop: `k` and the part of `rk` written so far -/
structure KsSt where
  k : X
  rk : Array (BitVec 32)

/-- one iteration: update `k`, then `rk[i*4..i*4+4] = k` -/
def ksIter (i : Nat) (s : KsSt) : KsSt :=
  let k := ksStep i s.k
  { k := k,
    rk := (((s.rk.setIfInBounds (i * 4) k.x0).setIfInBounds (i * 4 + 1) k.x1).setIfInBounds (i * 4 + 2) k.x2).setIfInBounds
      (i * 4 + 3) k.x3 }

/-- `struct Sm4 { rk: [u32; 32] }` -/
structure Sm4 where
  rk : Array (BitVec 32)

/-- `KeyInit::new` -/
def new (key : BitVec 128) : Sm4 :=
  let mk0 := key.extractLsb' 96 32
  let mk1 := key.extractLsb' 64 32
  let mk2 := key.extractLsb' 32 32
  let mk3 := key.extractLsb' 0 32
  let k : X := { x0 := mk0 ^^^ FK.getD 0 0, x1 := mk1 ^^^ FK.getD 1 0, x2 := mk2 ^^^ FK.getD 2 0,
                 x3 := mk3 ^^^ FK.getD 3 0 }
  let s := forRange 0 8 ksIter { k := k, rk := Array.replicate 32 0#32 }
  { rk := s.rk }

/-- `rk[i]` -/
def Sm4.get (c : Sm4) (i : Nat) : BitVec 32 := c.rk.getD i 0

def load (b : BitVec 128) : X :=
  { x0 := b.extractLsb' 96 32, x1 := b.extractLsb' 64 32, x2 := b.extractLsb' 32 32,
    x3 := b.extractLsb' 0 32 }

/-- the output is written `x[3], x[2], x[1], x[0]` -/
def storeRev (x : X) : BitVec 128 := x.x3 ++ x.x2 ++ x.x1 ++ x.x0

/-- body of the encryption loop for an arbitrary round-key function -/
def encIter (rk : Nat → BitVec 32) (i : Nat) (x : X) : X :=
  let x0 := x.x0 ^^^ t (x.x1 ^^^ x.x2 ^^^ x.x3 ^^^ rk (i * 4))
  let x1 := x.x1 ^^^ t (x.x2 ^^^ x.x3 ^^^ x0 ^^^ rk (i * 4 + 1))
  let x2 := x.x2 ^^^ t (x.x3 ^^^ x0 ^^^ x1 ^^^ rk (i * 4 + 2))
  let x3 := x.x3 ^^^ t (x0 ^^^ x1 ^^^ x2 ^^^ rk (i * 4 + 3))
  { x0 := x0, x1 := x1, x2 := x2, x3 := x3 }

/-- body of the decryption loop -/
def decIter (rk : Nat → BitVec 32) (i : Nat) (x : X) : X :=
  let x0 := x.x0 ^^^ t (x.x1 ^^^ x.x2 ^^^ x.x3 ^^^ rk (31 - i * 4))
  let x1 := x.x1 ^^^ t (x.x2 ^^^ x.x3 ^^^ x0 ^^^ rk (31 - (i * 4 + 1)))
  let x2 := x.x2 ^^^ t (x.x3 ^^^ x0 ^^^ x1 ^^^ rk (31 - (i * 4 + 2)))
  let x3 := x.x3 ^^^ t (x0 ^^^ x1 ^^^ x2 ^^^ rk (31 - (i * 4 + 3)))
  { x0 := x0, x1 := x1, x2 := x2, x3 := x3 }

/-- `encrypt_block` over an arbitrary round-key function `rk : index → word` -/
def encryptRk (rk : Nat → BitVec 32) (b : BitVec 128) : BitVec 128 :=
  storeRev (forRange 0 8 (encIter rk) (load b))

/-- `decrypt_block` over an arbitrary round-key function -/
def decryptRk (rk : Nat → BitVec 32) (b : BitVec 128) : BitVec 128 :=
  storeRev (forRange 0 8 (decIter rk) (load b))

/-- `BlockCipherEncBackend::encrypt_block` -/
def encrypt (c : Sm4) (b : BitVec 128) : BitVec 128 := encryptRk c.get b

/-- `BlockCipherDecBackend::decrypt_block` -/
def decrypt (c : Sm4) (b : BitVec 128) : BitVec 128 := decryptRk c.get b

/-- `new_from_slice`: key size is `U16` -/
def accepts (n : Nat) : Bool := n == 16

end BC.Sm4
