import BlockCiphers.Prelude.Bytes
import BlockCiphers.Impl.Cast5Consts
/-
Model of /repo/cast5/src/{lib.rs, schedule.rs} (CAST5 / CAST-128, RFC 2144; 64-bit block, key of
5..16 bytes zero-padded to 16; 12 rounds for keys of at most 10 bytes, 16 rounds otherwise).
Mirrors the Rust as written: the key schedule is the statement-by-statement transcription of
`schedule::key_schedule` (generated from the Rust text), `f1!/f2!/f3!`, the unrolled rounds.

-- C20-SITE: get_i!: `$x[$i / 4]` with literal i ≤ 15 (index ≤ 3), `8 * (3 - i % 4)` ≤ 24 (no overflow,
--            shift < 32), result `& 0xff` < 256 indexes a 256-entry table.
-- C20-SITE: Cast5::key_schedule: `key[0..4]` … `key[12..16]` : the slice passed has exactly 16 bytes
--            (either the 16-byte key or `padded_key`), so the ranges and the `try_into().unwrap()` hold.
-- C20-SITE: new_from_slice: `padded_key[..key.len()]` : only reached when `key.len() < 16`.
-- C20-SITE: key_schedule (lib.rs): `self.masking[..].clone_from_slice(&k[..])` : both have 16 entries;
--            `self.rotate[i]` with `i` from `k.iter().enumerate()`, `k.len() = 16`.
-- C20-SITE: f1!/f2!/f3!: `(i >> 24) as usize`, `((i >> k) & 0xff) as usize` < 256; `rotate_left` takes any amount.
-- C20-SITE: encrypt_block / decrypt_block: `masking[n]`, `rotate[n]` with literal n ≤ 15; `b[0..4]`, `b[4..8]` of an 8-byte block.
-/
namespace BC.Cast5

/-- `Cast5 { masking: [u32; 16], rotate: [u8; 16], small_key: bool }` -/
structure Keys where
  masking : Array (BitVec 32)
  rotate : Array (BitVec 8)
  small_key : Bool

/-- the pair `(l, r)` threaded through the rounds -/
structure LR where
  l : BitVec 32
  r : BitVec 32
  deriving DecidableEq

/-! ### schedule.rs -/

/-- `get_i!(x, i)` = `((x[i / 4] >> (8 * (3 - (i % 4)))) & 0xff) as usize` -/
def gi (x : Array (BitVec 32)) (i : Nat) : Nat :=
  ((x[i / 4]! >>> (8 * (3 - i % 4))) &&& 0xff#32).toNat

/-- the three `&mut [u32]` arguments of `schedule::key_schedule` -/
structure Sch where
  x : Array (BitVec 32)
  z : Array (BitVec 32)
  k : Array (BitVec 32)

/-- `pub fn key_schedule(x: &mut [u32], z: &mut [u32], k: &mut [u32])` -/
def key_schedule (s : Sch) : Sch :=
  let x := s.x
  let z := s.z
  let k := s.k
  let z := z.set! 0 (x[0]! ^^^ Consts.S5[gi x 13]! ^^^ Consts.S6[gi x 15]! ^^^ Consts.S7[gi x 12]! ^^^ Consts.S8[gi x 14]! ^^^ Consts.S7[gi x 8]!)
  let z := z.set! 1 (x[2]! ^^^ Consts.S5[gi z 0]! ^^^ Consts.S6[gi z 2]! ^^^ Consts.S7[gi z 1]! ^^^ Consts.S8[gi z 3]! ^^^ Consts.S8[gi x 10]!)
  let z := z.set! 2 (x[3]! ^^^ Consts.S5[gi z 7]! ^^^ Consts.S6[gi z 6]! ^^^ Consts.S7[gi z 5]! ^^^ Consts.S8[gi z 4]! ^^^ Consts.S5[gi x 9]!)
  let z := z.set! 3 (x[1]! ^^^ Consts.S5[gi z 10]! ^^^ Consts.S6[gi z 9]! ^^^ Consts.S7[gi z 11]! ^^^ Consts.S8[gi z 8]! ^^^ Consts.S6[gi x 11]!)
  let k := k.set! 0 (Consts.S5[gi z 8]! ^^^ Consts.S6[gi z 9]! ^^^ Consts.S7[gi z 7]! ^^^ Consts.S8[gi z 6]! ^^^ Consts.S5[gi z 2]!)
  let k := k.set! 1 (Consts.S5[gi z 10]! ^^^ Consts.S6[gi z 11]! ^^^ Consts.S7[gi z 5]! ^^^ Consts.S8[gi z 4]! ^^^ Consts.S6[gi z 6]!)
  let k := k.set! 2 (Consts.S5[gi z 12]! ^^^ Consts.S6[gi z 13]! ^^^ Consts.S7[gi z 3]! ^^^ Consts.S8[gi z 2]! ^^^ Consts.S7[gi z 9]!)
  let k := k.set! 3 (Consts.S5[gi z 14]! ^^^ Consts.S6[gi z 15]! ^^^ Consts.S7[gi z 1]! ^^^ Consts.S8[gi z 0]! ^^^ Consts.S8[gi z 12]!)
  let x := x.set! 0 (z[2]! ^^^ Consts.S5[gi z 5]! ^^^ Consts.S6[gi z 7]! ^^^ Consts.S7[gi z 4]! ^^^ Consts.S8[gi z 6]! ^^^ Consts.S7[gi z 0]!)
  let x := x.set! 1 (z[0]! ^^^ Consts.S5[gi x 0]! ^^^ Consts.S6[gi x 2]! ^^^ Consts.S7[gi x 1]! ^^^ Consts.S8[gi x 3]! ^^^ Consts.S8[gi z 2]!)
  let x := x.set! 2 (z[1]! ^^^ Consts.S5[gi x 7]! ^^^ Consts.S6[gi x 6]! ^^^ Consts.S7[gi x 5]! ^^^ Consts.S8[gi x 4]! ^^^ Consts.S5[gi z 1]!)
  let x := x.set! 3 (z[3]! ^^^ Consts.S5[gi x 10]! ^^^ Consts.S6[gi x 9]! ^^^ Consts.S7[gi x 11]! ^^^ Consts.S8[gi x 8]! ^^^ Consts.S6[gi z 3]!)
  let k := k.set! 4 (Consts.S5[gi x 3]! ^^^ Consts.S6[gi x 2]! ^^^ Consts.S7[gi x 12]! ^^^ Consts.S8[gi x 13]! ^^^ Consts.S5[gi x 8]!)
  let k := k.set! 5 (Consts.S5[gi x 1]! ^^^ Consts.S6[gi x 0]! ^^^ Consts.S7[gi x 14]! ^^^ Consts.S8[gi x 15]! ^^^ Consts.S6[gi x 13]!)
  let k := k.set! 6 (Consts.S5[gi x 7]! ^^^ Consts.S6[gi x 6]! ^^^ Consts.S7[gi x 8]! ^^^ Consts.S8[gi x 9]! ^^^ Consts.S7[gi x 3]!)
  let k := k.set! 7 (Consts.S5[gi x 5]! ^^^ Consts.S6[gi x 4]! ^^^ Consts.S7[gi x 10]! ^^^ Consts.S8[gi x 11]! ^^^ Consts.S8[gi x 7]!)
  let z := z.set! 0 (x[0]! ^^^ Consts.S5[gi x 13]! ^^^ Consts.S6[gi x 15]! ^^^ Consts.S7[gi x 12]! ^^^ Consts.S8[gi x 14]! ^^^ Consts.S7[gi x 8]!)
  let z := z.set! 1 (x[2]! ^^^ Consts.S5[gi z 0]! ^^^ Consts.S6[gi z 2]! ^^^ Consts.S7[gi z 1]! ^^^ Consts.S8[gi z 3]! ^^^ Consts.S8[gi x 10]!)
  let z := z.set! 2 (x[3]! ^^^ Consts.S5[gi z 7]! ^^^ Consts.S6[gi z 6]! ^^^ Consts.S7[gi z 5]! ^^^ Consts.S8[gi z 4]! ^^^ Consts.S5[gi x 9]!)
  let z := z.set! 3 (x[1]! ^^^ Consts.S5[gi z 10]! ^^^ Consts.S6[gi z 9]! ^^^ Consts.S7[gi z 11]! ^^^ Consts.S8[gi z 8]! ^^^ Consts.S6[gi x 11]!)
  let k := k.set! 8 (Consts.S5[gi z 3]! ^^^ Consts.S6[gi z 2]! ^^^ Consts.S7[gi z 12]! ^^^ Consts.S8[gi z 13]! ^^^ Consts.S5[gi z 9]!)
  let k := k.set! 9 (Consts.S5[gi z 1]! ^^^ Consts.S6[gi z 0]! ^^^ Consts.S7[gi z 14]! ^^^ Consts.S8[gi z 15]! ^^^ Consts.S6[gi z 12]!)
  let k := k.set! 10 (Consts.S5[gi z 7]! ^^^ Consts.S6[gi z 6]! ^^^ Consts.S7[gi z 8]! ^^^ Consts.S8[gi z 9]! ^^^ Consts.S7[gi z 2]!)
  let k := k.set! 11 (Consts.S5[gi z 5]! ^^^ Consts.S6[gi z 4]! ^^^ Consts.S7[gi z 10]! ^^^ Consts.S8[gi z 11]! ^^^ Consts.S8[gi z 6]!)
  let x := x.set! 0 (z[2]! ^^^ Consts.S5[gi z 5]! ^^^ Consts.S6[gi z 7]! ^^^ Consts.S7[gi z 4]! ^^^ Consts.S8[gi z 6]! ^^^ Consts.S7[gi z 0]!)
  let x := x.set! 1 (z[0]! ^^^ Consts.S5[gi x 0]! ^^^ Consts.S6[gi x 2]! ^^^ Consts.S7[gi x 1]! ^^^ Consts.S8[gi x 3]! ^^^ Consts.S8[gi z 2]!)
  let x := x.set! 2 (z[1]! ^^^ Consts.S5[gi x 7]! ^^^ Consts.S6[gi x 6]! ^^^ Consts.S7[gi x 5]! ^^^ Consts.S8[gi x 4]! ^^^ Consts.S5[gi z 1]!)
  let x := x.set! 3 (z[3]! ^^^ Consts.S5[gi x 10]! ^^^ Consts.S6[gi x 9]! ^^^ Consts.S7[gi x 11]! ^^^ Consts.S8[gi x 8]! ^^^ Consts.S6[gi z 3]!)
  let k := k.set! 12 (Consts.S5[gi x 8]! ^^^ Consts.S6[gi x 9]! ^^^ Consts.S7[gi x 7]! ^^^ Consts.S8[gi x 6]! ^^^ Consts.S5[gi x 3]!)
  let k := k.set! 13 (Consts.S5[gi x 10]! ^^^ Consts.S6[gi x 11]! ^^^ Consts.S7[gi x 5]! ^^^ Consts.S8[gi x 4]! ^^^ Consts.S6[gi x 7]!)
  let k := k.set! 14 (Consts.S5[gi x 12]! ^^^ Consts.S6[gi x 13]! ^^^ Consts.S7[gi x 3]! ^^^ Consts.S8[gi x 2]! ^^^ Consts.S7[gi x 8]!)
  let k := k.set! 15 (Consts.S5[gi x 14]! ^^^ Consts.S6[gi x 15]! ^^^ Consts.S7[gi x 1]! ^^^ Consts.S8[gi x 0]! ^^^ Consts.S8[gi x 13]!)
  { x := x, z := z, k := k }

/-! ### lib.rs -/

/-- `Cast5::init_state(key_len)` only fixes `small_key = key_len <= 10` -/
def small_key (key_len : Nat) : Bool := key_len ≤ 10

/-- `fn key_schedule(&mut self, key: &[u8])` on the 16 (padded) key bytes, given `small_key` -/
def keySchedule (sk : Bool) (key : BitVec 128) : Keys :=
  let x : Array (BitVec 32) :=
    #[key.extractLsb' 96 32, key.extractLsb' 64 32, key.extractLsb' 32 32, key.extractLsb' 0 32]
  let z : Array (BitVec 32) := Array.replicate 4 0#32
  let k : Array (BitVec 32) := Array.replicate 16 0#32
  let s1 := key_schedule { x := x, z := z, k := k }
  let masking := s1.k
  let s2 := key_schedule s1
  { masking := masking, rotate := s2.k.map (fun ki => (ki &&& 0x1f#32).setWidth 8), small_key := sk }

/-- the guard of `new_from_slice`: `key.len() < 5 || key.len() > 16` is an error -/
def accepts (n : Nat) : Bool := !(n < 5 || n > 16)

/-- `padded_key[..key.len()].copy_from_slice(key)` (identity on 16-byte keys) -/
def pad (key : Bytes) : Bytes := key ++ List.replicate (16 - key.length) 0#8

/-- `KeyInit::new_from_slice` -/
def new (key : Bytes) : Option Keys :=
  if accepts key.length then some (keySchedule (small_key key.length) (packBE 16 (pad key))) else none

/-- the S-box index bytes of `i` -/
def f1 (d m : BitVec 32) (r : BitVec 8) : BitVec 32 :=
  let i := (m + d).rotateLeft r.toNat
  ((Consts.S1[(i >>> 24).toNat]! ^^^ Consts.S2[((i >>> 16) &&& 0xff#32).toNat]!)
    - Consts.S3[((i >>> 8) &&& 0xff#32).toNat]!) + Consts.S4[(i &&& 0xff#32).toNat]!

def f2 (d m : BitVec 32) (r : BitVec 8) : BitVec 32 :=
  let i := (m ^^^ d).rotateLeft r.toNat
  ((Consts.S1[(i >>> 24).toNat]! - Consts.S2[((i >>> 16) &&& 0xff#32).toNat]!)
    + Consts.S3[((i >>> 8) &&& 0xff#32).toNat]!) ^^^ Consts.S4[(i &&& 0xff#32).toNat]!

def f3 (d m : BitVec 32) (r : BitVec 8) : BitVec 32 :=
  let i := (m - d).rotateLeft r.toNat
  ((Consts.S1[(i >>> 24).toNat]! + Consts.S2[((i >>> 16) &&& 0xff#32).toNat]!)
    ^^^ Consts.S3[((i >>> 8) &&& 0xff#32).toNat]!) - Consts.S4[(i &&& 0xff#32).toNat]!

/-- `let (l, r) = (r, l ^ f1!(r, m, rot));` -/
def round1 (m : BitVec 32) (rot : BitVec 8) (x : LR) : LR := { l := x.r, r := x.l ^^^ f1 x.r m rot }
def round2 (m : BitVec 32) (rot : BitVec 8) (x : LR) : LR := { l := x.r, r := x.l ^^^ f2 x.r m rot }
def round3 (m : BitVec 32) (rot : BitVec 8) (x : LR) : LR := { l := x.r, r := x.l ^^^ f3 x.r m rot }

/-- the 12 or 16 unrolled rounds of `encrypt_block` -/
def encRounds (ks : Keys) (x : LR) : LR :=
  let x := round1 ks.masking[0]! ks.rotate[0]! x
  let x := round2 ks.masking[1]! ks.rotate[1]! x
  let x := round3 ks.masking[2]! ks.rotate[2]! x
  let x := round1 ks.masking[3]! ks.rotate[3]! x
  let x := round2 ks.masking[4]! ks.rotate[4]! x
  let x := round3 ks.masking[5]! ks.rotate[5]! x
  let x := round1 ks.masking[6]! ks.rotate[6]! x
  let x := round2 ks.masking[7]! ks.rotate[7]! x
  let x := round3 ks.masking[8]! ks.rotate[8]! x
  let x := round1 ks.masking[9]! ks.rotate[9]! x
  let x := round2 ks.masking[10]! ks.rotate[10]! x
  let x := round3 ks.masking[11]! ks.rotate[11]! x
  if ks.small_key then x else
    let x := round1 ks.masking[12]! ks.rotate[12]! x
    let x := round2 ks.masking[13]! ks.rotate[13]! x
    let x := round3 ks.masking[14]! ks.rotate[14]! x
    let x := round1 ks.masking[15]! ks.rotate[15]! x
    x

/-- the 16 or 12 unrolled rounds of `decrypt_block` -/
def decRounds (ks : Keys) (x : LR) : LR :=
  let x := if ks.small_key then x else
    let x := round1 ks.masking[15]! ks.rotate[15]! x
    let x := round3 ks.masking[14]! ks.rotate[14]! x
    let x := round2 ks.masking[13]! ks.rotate[13]! x
    let x := round1 ks.masking[12]! ks.rotate[12]! x
    x
  let x := round3 ks.masking[11]! ks.rotate[11]! x
  let x := round2 ks.masking[10]! ks.rotate[10]! x
  let x := round1 ks.masking[9]! ks.rotate[9]! x
  let x := round3 ks.masking[8]! ks.rotate[8]! x
  let x := round2 ks.masking[7]! ks.rotate[7]! x
  let x := round1 ks.masking[6]! ks.rotate[6]! x
  let x := round3 ks.masking[5]! ks.rotate[5]! x
  let x := round2 ks.masking[4]! ks.rotate[4]! x
  let x := round1 ks.masking[3]! ks.rotate[3]! x
  let x := round3 ks.masking[2]! ks.rotate[2]! x
  let x := round2 ks.masking[1]! ks.rotate[1]! x
  let x := round1 ks.masking[0]! ks.rotate[0]! x
  x

def readBlock (b : BitVec 64) : LR := { l := b.extractLsb' 32 32, r := b.extractLsb' 0 32 }
/-- `block[0..4] = r.to_be_bytes(); block[4..8] = l.to_be_bytes()` -/
def writeBlock (x : LR) : BitVec 64 := x.r ++ x.l

def encrypt (ks : Keys) (b : BitVec 64) : BitVec 64 := writeBlock (encRounds ks (readBlock b))
def decrypt (ks : Keys) (b : BitVec 64) : BitVec 64 := writeBlock (decRounds ks (readBlock b))

end BC.Cast5
