import BlockCiphers.Prelude.Bytes
import BlockCiphers.Api
import BlockCiphers.Prelude.X86Intrinsics
/-
Model of the AES-NI backend of the `aes` crate, mirroring the Rust as written:

  /repo/aes/src/ni/expand.rs   aes128_expand_key / aes192_expand_key / aes256_expand_key / inv_keys
  /repo/aes/src/ni/encdec.rs   encrypt / decrypt / encrypt_par / decrypt_par
  /repo/aes/src/ni/hazmat.rs   cipher_round(_par) / equiv_inv_cipher_round(_par) / mix_columns / inv_mix_columns
  /repo/aes/src/lib.rs         weak_key_test
  /repo/aes/src/ni.rs, macros.rs, autodetect.rs   the Enc / Dec / combined types and their conversions

`__m128i` is `BitVec 128` in x86 lane order (see `Prelude/X86Intrinsics.lean`); keys and blocks are
`BitVec (8*n)` with array element 0 in the most significant byte.  `[__m128i; N]` is a `List` of length
`N`; `zeroed()` is `List.replicate N 0`; `keys[i] = v` is `List.set`; `keys[i]` is `getD i 0`.

C20-SITE: aes128_expand_key::expand_round: `keys[pos - 1]`, `keys[pos]` : pos ∈ {1..10} literal, array of 11
C20-SITE: aes256_expand_key::expand_round: `keys[pos - 2]`, `keys[pos - 1]`, `keys[pos]`, `keys[pos + 1]` : pos ∈ {2,4,…,12}, array of 15
C20-SITE: aes256_expand_key::expand_round_last: `keys[pos - 2]`, `keys[pos - 1]`, `keys[pos]` : pos = 14, array of 15
C20-SITE: aes192_expand_key: `t[..key.len()]` : 24 ≤ 32; `t.as_ptr().offset(16)` reads t[16..32]; shuffle: `a[i]`, i ∈ {0,1}, `b[0]` on [u64; 2]
C20-SITE: inv_keys: `keys[N - 1]`, `1..N - 1`, `keys[N - 1 - i]`, `inv_keys[N - 1]` : N ∈ {11,13,15} (const generic), 1 ≤ i ≤ N-2 so no underflow
C20-SITE: encrypt/decrypt: `keys[0]`, `keys[1..KEYS - 1]`, `keys[KEYS - 1]` : `assert!(KEYS == 11 || KEYS == 13 || KEYS == 15)` holds for the three instantiations
C20-SITE: encrypt_par/decrypt_par: `keys[1]`…`keys[13]` guarded by `KEYS >= 13`, `KEYS == 15`; load/store `p.add(i)`, i < N::USIZE
C20-SITE: weak_key_test: `key[..8]`, `key[8..12]`, `key[8..16]` with N ∈ {16,24,32}; `try_into().unwrap()` on slices of exactly 8/4 bytes; `unreachable!()` only for other N (never instantiated)
-/
namespace BC.AesNi
open BC.X86

/-! ### expand.rs -/

/-- `aes128_expand_key::expand_round::<RK>` on the value `keys[pos - 1]`; the result is stored in `keys[pos]` -/
def expand_round128 (rk : BitVec 8) (t1 : BitVec 128) : BitVec 128 :=
  let t2 := _mm_aeskeygenassist_si128 t1 rk
  let t2 := _mm_shuffle_epi32 t2 0xff#8
  let t3 := _mm_slli_si128 t1 0x4
  let t1 := _mm_xor_si128 t1 t3
  let t3 := _mm_slli_si128 t3 0x4
  let t1 := _mm_xor_si128 t1 t3
  let t3 := _mm_slli_si128 t3 0x4
  let t1 := _mm_xor_si128 t1 t3
  let t1 := _mm_xor_si128 t1 t2
  t1

/-- `expand_round::<RK>(keys, pos)` -/
def expand_round128_at (rk : BitVec 8) (keys : List (BitVec 128)) (pos : Nat) : List (BitVec 128) :=
  keys.set pos (expand_round128 rk (keys.getD (pos - 1) 0#128))

def aes128_expand_key (key : BitVec 128) : List (BitVec 128) :=
  let keys := List.replicate 11 0#128
  let k := _mm_loadu_si128 key
  let keys := keys.set 0 k
  let keys := expand_round128_at 0x01#8 keys 1
  let keys := expand_round128_at 0x02#8 keys 2
  let keys := expand_round128_at 0x04#8 keys 3
  let keys := expand_round128_at 0x08#8 keys 4
  let keys := expand_round128_at 0x10#8 keys 5
  let keys := expand_round128_at 0x20#8 keys 6
  let keys := expand_round128_at 0x40#8 keys 7
  let keys := expand_round128_at 0x80#8 keys 8
  let keys := expand_round128_at 0x1B#8 keys 9
  let keys := expand_round128_at 0x36#8 keys 10
  keys

/-- `aes192_expand_key::shuffle(a, b, i)`: `transmute([a_u64[i], b_u64[0]])`; u64 lane 0 = bits 63:0 -/
def shuffle192 (a b : BitVec 128) (i : Nat) : BitVec 128 :=
  let ai : BitVec 64 := (a >>> (64 * i)).setWidth 64
  let b0 : BitVec 64 := b.setWidth 64
  (b0.setWidth 128 <<< 64) ||| ai.setWidth 128

/-- `aes192_expand_key::expand_round::<RK>(t1, t3)`, first component of the result -/
def expand_round192_t1 (rk : BitVec 8) (t1 t3 : BitVec 128) : BitVec 128 :=
  let t2 := _mm_aeskeygenassist_si128 t3 rk
  let t2 := _mm_shuffle_epi32 t2 0x55#8
  let t4 := _mm_slli_si128 t1 0x4
  let t1 := _mm_xor_si128 t1 t4
  let t4 := _mm_slli_si128 t4 0x4
  let t1 := _mm_xor_si128 t1 t4
  let t4 := _mm_slli_si128 t4 0x4
  let t1 := _mm_xor_si128 t1 t4
  let t1 := _mm_xor_si128 t1 t2
  t1

/-- second component: continues from the new `t1` -/
def expand_round192_t3 (rk : BitVec 8) (t1 t3 : BitVec 128) : BitVec 128 :=
  let t1 := expand_round192_t1 rk t1 t3
  let t2 := _mm_shuffle_epi32 t1 0xff#8
  let t4 := _mm_slli_si128 t3 0x4
  let t3 := _mm_xor_si128 t3 t4
  let t3 := _mm_xor_si128 t3 t2
  t3

def expand_round192 (rk : BitVec 8) (t1 t3 : BitVec 128) : BitVec 128 × BitVec 128 :=
  (expand_round192_t1 rk t1 t3, expand_round192_t3 rk t1 t3)

def aes192_expand_key (key : BitVec 192) : List (BitVec 128) :=
  let keys := List.replicate 13 0#128
  -- t = [0u8; 32]; t[..24] = key;  k0 = loadu(t), k1l = loadu(t + 16)
  let t : BitVec 256 := key.setWidth 256 <<< 64
  let k0 := _mm_loadu_si128 (t.extractLsb' 128 128)
  let k1l := _mm_loadu_si128 (t.extractLsb' 0 128)
  let keys := keys.set 0 k0
  let r := expand_round192 0x01#8 k0 k1l
  let k1_2 := r.1; let k2r := r.2
  let keys := keys.set 1 (shuffle192 k1l k1_2 0)
  let keys := keys.set 2 (shuffle192 k1_2 k2r 1)
  let r := expand_round192 0x02#8 k1_2 k2r
  let k3 := r.1; let k4l := r.2
  let keys := keys.set 3 k3
  let r := expand_round192 0x04#8 k3 k4l
  let k4_5 := r.1; let k5r := r.2
  let k4 := shuffle192 k4l k4_5 0
  let k5 := shuffle192 k4_5 k5r 1
  let keys := keys.set 4 k4
  let keys := keys.set 5 k5
  let r := expand_round192 0x08#8 k4_5 k5r
  let k6 := r.1; let k7l := r.2
  let keys := keys.set 6 k6
  let r := expand_round192 0x10#8 k6 k7l
  let k7_8 := r.1; let k8r := r.2
  let keys := keys.set 7 (shuffle192 k7l k7_8 0)
  let keys := keys.set 8 (shuffle192 k7_8 k8r 1)
  let r := expand_round192 0x20#8 k7_8 k8r
  let k9 := r.1; let k10l := r.2
  let keys := keys.set 9 k9
  let r := expand_round192 0x40#8 k9 k10l
  let k10_11 := r.1; let k11r := r.2
  let keys := keys.set 10 (shuffle192 k10l k10_11 0)
  let keys := keys.set 11 (shuffle192 k10_11 k11r 1)
  let r := expand_round192 0x80#8 k10_11 k11r
  let k12 := r.1
  let keys := keys.set 12 k12
  keys

/-- first half of `aes256_expand_key::expand_round` (= whole of `expand_round_last`): new `keys[pos]`
from `t1 = keys[pos-2]`, `t3 = keys[pos-1]` -/
def expand_round256_a (rk : BitVec 8) (t1 t3 : BitVec 128) : BitVec 128 :=
  let t2 := _mm_aeskeygenassist_si128 t3 rk
  let t2 := _mm_shuffle_epi32 t2 0xff#8
  let t4 := _mm_slli_si128 t1 0x4
  let t1 := _mm_xor_si128 t1 t4
  let t4 := _mm_slli_si128 t4 0x4
  let t1 := _mm_xor_si128 t1 t4
  let t4 := _mm_slli_si128 t4 0x4
  let t1 := _mm_xor_si128 t1 t4
  let t1 := _mm_xor_si128 t1 t2
  t1

/-- second half of `expand_round`: new `keys[pos+1]` from the new `t1 = keys[pos]` and `t3 = keys[pos-1]` -/
def expand_round256_b (t1 t3 : BitVec 128) : BitVec 128 :=
  let t4 := _mm_aeskeygenassist_si128 t1 0x00#8
  let t2 := _mm_shuffle_epi32 t4 0xaa#8
  let t4 := _mm_slli_si128 t3 0x4
  let t3 := _mm_xor_si128 t3 t4
  let t4 := _mm_slli_si128 t4 0x4
  let t3 := _mm_xor_si128 t3 t4
  let t4 := _mm_slli_si128 t4 0x4
  let t3 := _mm_xor_si128 t3 t4
  let t3 := _mm_xor_si128 t3 t2
  t3

def expand_round256_at (rk : BitVec 8) (keys : List (BitVec 128)) (pos : Nat) : List (BitVec 128) :=
  let t1 := keys.getD (pos - 2) 0#128
  let t3 := keys.getD (pos - 1) 0#128
  let t1 := expand_round256_a rk t1 t3
  let keys := keys.set pos t1
  let t3 := expand_round256_b t1 t3
  keys.set (pos + 1) t3

def expand_round256_last_at (rk : BitVec 8) (keys : List (BitVec 128)) (pos : Nat) : List (BitVec 128) :=
  let t1 := keys.getD (pos - 2) 0#128
  let t3 := keys.getD (pos - 1) 0#128
  keys.set pos (expand_round256_a rk t1 t3)

def aes256_expand_key (key : BitVec 256) : List (BitVec 128) :=
  let keys := List.replicate 15 0#128
  let keys := keys.set 0 (_mm_loadu_si128 (key.extractLsb' 128 128))
  let keys := keys.set 1 (_mm_loadu_si128 (key.extractLsb' 0 128))
  let keys := expand_round256_at 0x01#8 keys 2
  let keys := expand_round256_at 0x02#8 keys 4
  let keys := expand_round256_at 0x04#8 keys 6
  let keys := expand_round256_at 0x08#8 keys 8
  let keys := expand_round256_at 0x10#8 keys 10
  let keys := expand_round256_at 0x20#8 keys 12
  let keys := expand_round256_last_at 0x40#8 keys 14
  keys

/-- `inv_keys::<N>`: `inv[0] = keys[N-1]; for i in 1..N-1 { inv[i] = aesimc(keys[N-1-i]) }; inv[N-1] = keys[0]` -/
def inv_keys (keys : List (BitVec 128)) : List (BitVec 128) :=
  let n := keys.length
  let inv := List.replicate n 0#128
  let inv := inv.set 0 (keys.getD (n - 1) 0#128)
  let inv := (List.range' 1 (n - 2)).foldl
    (fun inv i => inv.set i (_mm_aesimc_si128 (keys.getD (n - 1 - i) 0#128))) inv
  inv.set (n - 1) (keys.getD 0 0#128)

/-! ### encdec.rs -/

/-- `encrypt::<KEYS>` (single block) -/
def encrypt (keys : List (BitVec 128)) (block : BitVec 128) : BitVec 128 :=
  let n := keys.length
  let b := _mm_loadu_si128 block
  let b := _mm_xor_si128 b (keys.getD 0 0#128)
  let b := ((keys.drop 1).take (n - 2)).foldl (fun b key => _mm_aesenc_si128 b key) b
  let b := _mm_aesenclast_si128 b (keys.getD (n - 1) 0#128)
  _mm_storeu_si128 b

/-- `decrypt::<KEYS>` (single block) -/
def decrypt (keys : List (BitVec 128)) (block : BitVec 128) : BitVec 128 :=
  let n := keys.length
  let b := _mm_loadu_si128 block
  let b := _mm_xor_si128 b (keys.getD 0 0#128)
  let b := ((keys.drop 1).take (n - 2)).foldl (fun b key => _mm_aesdec_si128 b key) b
  let b := _mm_aesdeclast_si128 b (keys.getD (n - 1) 0#128)
  _mm_storeu_si128 b

def load (blocks : List (BitVec 128)) : List (BitVec 128) := blocks.map _mm_loadu_si128
def store (b : List (BitVec 128)) : List (BitVec 128) := b.map _mm_storeu_si128
def xor (blocks : List (BitVec 128)) (key : BitVec 128) := blocks.map (fun b => _mm_xor_si128 b key)
def aesenc (blocks : List (BitVec 128)) (key : BitVec 128) := blocks.map (fun b => _mm_aesenc_si128 b key)
def aesenclast (blocks : List (BitVec 128)) (key : BitVec 128) := blocks.map (fun b => _mm_aesenclast_si128 b key)
def aesdec (blocks : List (BitVec 128)) (key : BitVec 128) := blocks.map (fun b => _mm_aesdec_si128 b key)
def aesdeclast (blocks : List (BitVec 128)) (key : BitVec 128) := blocks.map (fun b => _mm_aesdeclast_si128 b key)

/-- `encrypt_par::<KEYS, ParBlocks>` as written (unrolled over the keys, `ParBlocks` lanes = list
elements; the crate instantiates 9 lanes).  `Proofs/AesNi`: equal to `blocks.map (encrypt keys)` for
`KEYS ∈ {11, 13, 15}`. -/
def encrypt_par (keys : List (BitVec 128)) (blocks : List (BitVec 128)) : List (BitVec 128) :=
  let n := keys.length
  let k (i : Nat) := keys.getD i 0#128
  let b := load blocks
  let b := xor b (k 0)
  let b := aesenc b (k 1)
  let b := aesenc b (k 2)
  let b := aesenc b (k 3)
  let b := aesenc b (k 4)
  let b := aesenc b (k 5)
  let b := aesenc b (k 6)
  let b := aesenc b (k 7)
  let b := aesenc b (k 8)
  let b := aesenc b (k 9)
  let b := if n ≥ 13 then aesenc (aesenc b (k 10)) (k 11) else b
  let b := if n = 15 then aesenc (aesenc b (k 12)) (k 13) else b
  let b := aesenclast b (k (n - 1))
  store b

def decrypt_par (keys : List (BitVec 128)) (blocks : List (BitVec 128)) : List (BitVec 128) :=
  let n := keys.length
  let k (i : Nat) := keys.getD i 0#128
  let b := load blocks
  let b := xor b (k 0)
  let b := aesdec b (k 1)
  let b := aesdec b (k 2)
  let b := aesdec b (k 3)
  let b := aesdec b (k 4)
  let b := aesdec b (k 5)
  let b := aesdec b (k 6)
  let b := aesdec b (k 7)
  let b := aesdec b (k 8)
  let b := aesdec b (k 9)
  let b := if n ≥ 13 then aesdec (aesdec b (k 10)) (k 11) else b
  let b := if n = 15 then aesdec (aesdec b (k 12)) (k 13) else b
  let b := aesdeclast b (k (n - 1))
  store b

/-! ### ni/hazmat.rs -/

def cipher_round (block round_key : BitVec 128) : BitVec 128 :=
  let b := _mm_loadu_si128 block
  let k := _mm_loadu_si128 round_key
  let out := _mm_aesenc_si128 b k
  _mm_storeu_si128 out

def equiv_inv_cipher_round (block round_key : BitVec 128) : BitVec 128 :=
  let b := _mm_loadu_si128 block
  let k := _mm_loadu_si128 round_key
  let out := _mm_aesdec_si128 b k
  _mm_storeu_si128 out

/-- `cipher_round_par`: `for i in 0..8 { xmm_blocks[i] = aesenc(xmm_blocks[i], xmm_keys[i]) }` -/
def cipher_round_par (blocks round_keys : List (BitVec 128)) : List (BitVec 128) :=
  let xmm_keys := load round_keys
  let xmm_blocks := load blocks
  let xmm_blocks := (List.range 8).foldl
    (fun xb i => xb.set i (_mm_aesenc_si128 (xb.getD i 0#128) (xmm_keys.getD i 0#128))) xmm_blocks
  store xmm_blocks

def equiv_inv_cipher_round_par (blocks round_keys : List (BitVec 128)) : List (BitVec 128) :=
  let xmm_keys := load round_keys
  let xmm_blocks := load blocks
  let xmm_blocks := (List.range 8).foldl
    (fun xb i => xb.set i (_mm_aesdec_si128 (xb.getD i 0#128) (xmm_keys.getD i 0#128))) xmm_blocks
  store xmm_blocks

/-- "Emulate mix columns by performing three inverse mix columns operations" -/
def mix_columns (block : BitVec 128) : BitVec 128 :=
  let state := _mm_loadu_si128 block
  let state := _mm_aesimc_si128 state
  let state := _mm_aesimc_si128 state
  let state := _mm_aesimc_si128 state
  _mm_storeu_si128 state

def inv_mix_columns (block : BitVec 128) : BitVec 128 :=
  let b := _mm_loadu_si128 block
  let out := _mm_aesimc_si128 b
  _mm_storeu_si128 out

/-! ### lib.rs `weak_key_test::<N>` (`from_ne_bytes` = little-endian on x86; the result only depends on
whether the value is zero, so the endianness is immaterial — proved in `Proofs/AesNi`) -/

def weak_key_test128 (key : BitVec 128) : WeakRes :=
  let t : BitVec 64 := bswap64 (key.extractLsb' 64 64)
  if t = 0#64 then .weak else .ok

def weak_key_test192 (key : BitVec 192) : WeakRes :=
  let t1 : BitVec 64 := bswap64 (key.extractLsb' 128 64)
  let t2 : BitVec 32 := bswap32 (key.extractLsb' 96 32)
  let t := t1 ||| t2.setWidth 64
  if t = 0#64 then .weak else .ok

def weak_key_test256 (key : BitVec 256) : WeakRes :=
  let t1 : BitVec 64 := bswap64 (key.extractLsb' 192 64)
  let t2 : BitVec 64 := bswap64 (key.extractLsb' 128 64)
  let t := t1 ||| t2
  if t = 0#64 then .weak else .ok

/-! ### ni.rs / macros.rs / autodetect.rs: the public types

A backend instance is its round-key array.  `AesNBackEnc::new = expand`, `AesNBackDec::from(enc) =
inv_keys(enc.keys)`, `AesNEnc { backend }`, `AesNDec { backend }`, `AesN { encrypt, decrypt }`.
The autodetect wrapper holds `(inner, token)`; on this host the token is always the `intrinsics` arm
(the `soft` arm is the fixslice model, owned by another module), and every `Clone`/`From`/`Drop`
dispatches on the same token, so the wrapper is the identity on the model instance. -/

structure Enc where
  keys : List (BitVec 128)

structure Dec where
  keys : List (BitVec 128)

structure Combined where
  encrypt : Enc
  decrypt : Dec

/-- `impl From<AesNBackEnc> for AesNBackDec` / `impl From<&AesNEnc> for AesNDec` (`enc.backend.clone().into()`) -/
def Dec.fromEnc (e : Enc) : Dec := { keys := inv_keys e.keys }
/-- `impl From<AesNEnc> for AesN` and `From<&AesNEnc>` (`decrypt = encrypt.into(); encrypt = encrypt.clone()`) -/
def Combined.fromEnc (e : Enc) : Combined := { encrypt := e, decrypt := Dec.fromEnc e }

def Enc.clone (e : Enc) : Enc := { keys := e.keys }
def Dec.clone (d : Dec) : Dec := { keys := d.keys }
def Combined.clone (c : Combined) : Combined := { encrypt := c.encrypt.clone, decrypt := c.decrypt.clone }

def Enc.new128 (key : BitVec 128) : Enc := { keys := aes128_expand_key key }
def Enc.new192 (key : BitVec 192) : Enc := { keys := aes192_expand_key key }
def Enc.new256 (key : BitVec 256) : Enc := { keys := aes256_expand_key key }
/-- `AesNDec::new(key) = AesNEnc::new(key).into()` -/
def Dec.new128 (key : BitVec 128) : Dec := Dec.fromEnc (Enc.new128 key)
def Dec.new192 (key : BitVec 192) : Dec := Dec.fromEnc (Enc.new192 key)
def Dec.new256 (key : BitVec 256) : Dec := Dec.fromEnc (Enc.new256 key)
/-- `AesN::new(key)`: `encrypt = AesNEnc::new(key); decrypt = AesNDec::from(&encrypt)` -/
def Combined.new128 (key : BitVec 128) : Combined := Combined.fromEnc (Enc.new128 key)
def Combined.new192 (key : BitVec 192) : Combined := Combined.fromEnc (Enc.new192 key)
def Combined.new256 (key : BitVec 256) : Combined := Combined.fromEnc (Enc.new256 key)

def Enc.encrypt_block (e : Enc) (b : BitVec 128) : BitVec 128 := encrypt e.keys b
def Dec.decrypt_block (d : Dec) (b : BitVec 128) : BitVec 128 := decrypt d.keys b
def Combined.encrypt_block (c : Combined) (b : BitVec 128) : BitVec 128 := c.encrypt.encrypt_block b
def Combined.decrypt_block (c : Combined) (b : BitVec 128) : BitVec 128 := c.decrypt.decrypt_block b

/-- end-to-end single-block functions of the three key sizes -/
def encrypt128 (key : BitVec 128) (b : BitVec 128) : BitVec 128 := (Combined.new128 key).encrypt_block b
def decrypt128 (key : BitVec 128) (b : BitVec 128) : BitVec 128 := (Combined.new128 key).decrypt_block b
def encrypt192 (key : BitVec 192) (b : BitVec 128) : BitVec 128 := (Combined.new192 key).encrypt_block b
def decrypt192 (key : BitVec 192) (b : BitVec 128) : BitVec 128 := (Combined.new192 key).decrypt_block b
def encrypt256 (key : BitVec 256) (b : BitVec 128) : BitVec 128 := (Combined.new256 key).encrypt_block b
def decrypt256 (key : BitVec 256) (b : BitVec 128) : BitVec 128 := (Combined.new256 key).decrypt_block b

end BC.AesNi
