import BlockCiphers.Prelude.Bytes
import BlockCiphers.Api
import BlockCiphers.Prelude.ArmIntrinsics
import BlockCiphers.Impl.AesNi
/-
Model of the ARMv8 Cryptography-Extensions backend of the `aes` crate, mirroring the Rust as written:

  /repo/aes/src/armv8/expand.rs   expand_key::<L, N> (one generic word loop for L = 16/24/32), sub_word,
                                  ROUND_CONSTS, inv_expanded_keys::<N>
  /repo/aes/src/armv8/encdec.rs   encrypt / decrypt / encrypt_par / decrypt_par (ParBlocks = 21 / 19 / 17)
  /repo/aes/src/armv8/hazmat.rs   cipher_round(_par) / equiv_inv_cipher_round(_par) / mix_columns / inv_mix_columns
  /repo/aes/src/armv8.rs, macros.rs   the Enc / Dec / combined types and their conversions
  /repo/aes/src/lib.rs            weak_key_test (shared with every backend: the model is `AesNi.weak_key_test*`)

`uint8x16_t` is a `BitVec 128` register image (see `Prelude/ArmIntrinsics.lean`); blocks are `BitVec 128` with
array element 0 in the most significant byte; a key `&[u8; L]` is a `Bytes` list of length `L` (the code is generic in
`L`, so is the model).  `[uint8x16_t; N]` is a `List` of length `N`; the `[u32]` view `columns` of that array
(`slice::from_raw_parts_mut(expanded_keys.as_mut_ptr().cast(), N * 4)`, little-endian AArch64) is a
`List (BitVec 32)` of length `4N` whose element `4r + j` is 32-bit element `j` of register `r`.

C20-SITE: expand_key: `N * BLOCK_WORDS` : N ∈ {11,13,15}, BLOCK_WORDS = 4
C20-SITE: expand_key: `columns[i] = from_ne_bytes(chunk)` : i < L/4 ≤ 8 < 4N; `chunk.try_into().unwrap()` on chunks_exact(4) chunks
C20-SITE: expand_key: `L / WORD_SIZE` : WORD_SIZE = 4 ≠ 0
C20-SITE: expand_key: `columns[i - 1]`, `columns[i - nk]`, `columns[i]` : nk ≤ i < 4N so neither subtraction underflows, all < 4N
C20-SITE: expand_key: `i % nk`, `i / nk` : nk ∈ {4,6,8} ≠ 0
C20-SITE: expand_key: `ROUND_CONSTS[i / nk - 1]` : i ≥ nk gives i/nk ≥ 1; i < 4N gives i/nk ≤ 10 (L=16: 43/4), 8 (L=24: 51/6), 7 (L=32: 59/8); array of 10  (lemma `AesArmv8.rcon_index_ok`)
C20-SITE: expand_key: `assert!((L == 16 && N == 11) || (L == 24 && N == 13) || (L == 32 && N == 15))` : the three instantiations of armv8.rs
C20-SITE: inv_expanded_keys: `keys[N - 1]`, `1..N - 1`, `keys[N - 1 - i]`, `inv_keys[N - 1]` : N ∈ {11,13,15}, 1 ≤ i ≤ N-2
C20-SITE: encrypt/decrypt: `keys[..KEYS - 2]`, `keys[KEYS - 2]`, `keys[KEYS - 1]` : `assert!(KEYS == 11 || KEYS == 13 || KEYS == 15)` holds for the three instantiations
C20-SITE: encrypt_par/decrypt_par: `keys[0]`…`keys[8]`, `keys[9]`, `keys[10]` guarded by `KEYS >= 13`, `keys[11]`, `keys[12]` by `KEYS == 15`; `in_ptr.add(i)`, `out_ptr.add(i)`, `blocks[i]` with i < ParBlocks::USIZE
C20-SITE: hazmat *_par: `blocks[i]`, `round_keys[i]` : i < 8 on `Block8`
-/
namespace BC.AesArmv8
open BC.Arm BC.X86

/-! ### expand.rs -/

/-- `const ROUND_CONSTS: [u32; 10]` (copied from /repo/aes/src/armv8/expand.rs) -/
def ROUND_CONSTS : List (BitVec 32) :=
  [0x01#32, 0x02#32, 0x04#32, 0x08#32, 0x10#32, 0x20#32, 0x40#32, 0x80#32, 0x1b#32, 0x36#32]

/-- `sub_word`: "Sub bytes for a single AES word": AESE with an all-zero round key on the word replicated
in the four lanes, lane 0 of the result -/
def sub_word (input : BitVec 32) : BitVec 32 :=
  let input := vreinterpretq_u8_u32 (vdupq_n_u32 input)
  let sub_input := vaeseq_u8 input (vdupq_n_u8 0#8)
  vgetq_lane_u32 (vreinterpretq_u32_u8 sub_input) 0

/-- `key.chunks_exact(WORD_SIZE)` mapped through `u32::from_ne_bytes` (little-endian: the first byte of
the chunk is the least significant) -/
def key_columns : Bytes → List (BitVec 32)
  | a :: b :: c :: d :: rest => (d ++ c ++ b ++ a) :: key_columns rest
  | _ => []

/-- `for (i, chunk) in ….enumerate() { columns[i] = … }`, `i` starting at the given index -/
def store_columns : List (BitVec 32) → Nat → List (BitVec 32) → List (BitVec 32)
  | [], _, columns => columns
  | w :: ws, i, columns => store_columns ws (i + 1) (columns.set i w)

/-- body of `for i in nk..(N * BLOCK_WORDS)` -/
def expand_word (nk : Nat) (columns : List (BitVec 32)) (i : Nat) : List (BitVec 32) :=
  let word := columns.getD (i - 1) 0#32
  let word :=
    if i % nk = 0 then (sub_word word).rotateRight 8 ^^^ ROUND_CONSTS.getD (i / nk - 1) 0#32
    else if nk > 6 ∧ i % nk = 4 then sub_word word
    else word
  columns.set i (columns.getD (i - nk) 0#32 ^^^ word)

/-- the `columns` slice at the end of `expand_key::<L, N>` (`L = key.length`, `N = n`) -/
def expand_columns (key : Bytes) (n : Nat) : List (BitVec 32) :=
  let columns := List.replicate (n * 4) 0#32     -- `mem::zeroed()`
  let columns := store_columns (key_columns key) 0 columns
  let nk := key.length / 4
  (List.range' nk (n * 4 - nk)).foldl (expand_word nk) columns

/-- register `r` of an array whose `u32` view is `columns` -/
def column_reg (columns : List (BitVec 32)) (r : Nat) : BitVec 128 :=
  ofDwords (columns.getD (4 * r + 3) 0#32) (columns.getD (4 * r + 2) 0#32)
    (columns.getD (4 * r + 1) 0#32) (columns.getD (4 * r) 0#32)

/-- `expand_key::<L, N>(key) -> [uint8x16_t; N]` -/
def expand_key (key : Bytes) (n : Nat) : List (BitVec 128) :=
  let columns := expand_columns key n
  (List.range n).map (column_reg columns)

/-- `inv_expanded_keys::<N>`: `inv[0] = keys[N-1]; for i in 1..N-1 { inv[i] = vaesimcq_u8(keys[N-1-i]) }; inv[N-1] = keys[0]` -/
def inv_expanded_keys (keys : List (BitVec 128)) : List (BitVec 128) :=
  let n := keys.length
  let inv := List.replicate n 0#128
  let inv := inv.set 0 (keys.getD (n - 1) 0#128)
  let inv := (List.range' 1 (n - 2)).foldl
    (fun inv i => inv.set i (vaesimcq_u8 (keys.getD (n - 1 - i) 0#128))) inv
  inv.set (n - 1) (keys.getD 0 0#128)

/-! ### encdec.rs -/

/-- `encrypt::<KEYS>` (single block) -/
def encrypt (keys : List (BitVec 128)) (block : BitVec 128) : BitVec 128 :=
  let n := keys.length
  let b := vld1q_u8 block
  let b := (keys.take (n - 2)).foldl (fun b key => vaesmcq_u8 (vaeseq_u8 b key)) b
  let b := vaeseq_u8 b (keys.getD (n - 2) 0#128)
  let b := veorq_u8 b (keys.getD (n - 1) 0#128)
  vst1q_u8 b

/-- `decrypt::<KEYS>` (single block) -/
def decrypt (keys : List (BitVec 128)) (block : BitVec 128) : BitVec 128 :=
  let n := keys.length
  let b := vld1q_u8 block
  let b := (keys.take (n - 2)).foldl (fun b key => vaesimcq_u8 (vaesdq_u8 b key)) b
  let b := vaesdq_u8 b (keys.getD (n - 2) 0#128)
  let b := veorq_u8 b (keys.getD (n - 1) 0#128)
  vst1q_u8 b

/-- `encrypt_par::par_round`: `for block in blocks { *block = vaesmcq_u8(vaeseq_u8(*block, key)) }` -/
def enc_par_round (key : BitVec 128) (blocks : List (BitVec 128)) : List (BitVec 128) :=
  blocks.map (fun b => vaesmcq_u8 (vaeseq_u8 b key))

/-- `decrypt_par::par_round` -/
def dec_par_round (key : BitVec 128) (blocks : List (BitVec 128)) : List (BitVec 128) :=
  blocks.map (fun b => vaesimcq_u8 (vaesdq_u8 b key))

/-- `encrypt_par::<KEYS, ParBlocks>` as written (key loop unrolled by hand, `if KEYS >= 13`, `if KEYS == 15`);
`ParBlocks` lanes = list elements (the crate instantiates 21 / 19 / 17 lanes).
`Proofs/AesArmv8Par`: equal to `blocks.map (encrypt keys)` for `KEYS ∈ {11, 13, 15}` and any number of lanes. -/
def encrypt_par (keys : List (BitVec 128)) (blocks : List (BitVec 128)) : List (BitVec 128) :=
  let n := keys.length
  let k (i : Nat) := keys.getD i 0#128
  let b := blocks.map vld1q_u8
  let b := enc_par_round (k 0) b
  let b := enc_par_round (k 1) b
  let b := enc_par_round (k 2) b
  let b := enc_par_round (k 3) b
  let b := enc_par_round (k 4) b
  let b := enc_par_round (k 5) b
  let b := enc_par_round (k 6) b
  let b := enc_par_round (k 7) b
  let b := enc_par_round (k 8) b
  let b := if n ≥ 13 then enc_par_round (k 10) (enc_par_round (k 9) b) else b
  let b := if n = 15 then enc_par_round (k 12) (enc_par_round (k 11) b) else b
  b.map (fun x => vst1q_u8 (veorq_u8 (vaeseq_u8 x (k (n - 2))) (k (n - 1))))

def decrypt_par (keys : List (BitVec 128)) (blocks : List (BitVec 128)) : List (BitVec 128) :=
  let n := keys.length
  let k (i : Nat) := keys.getD i 0#128
  let b := blocks.map vld1q_u8
  let b := dec_par_round (k 0) b
  let b := dec_par_round (k 1) b
  let b := dec_par_round (k 2) b
  let b := dec_par_round (k 3) b
  let b := dec_par_round (k 4) b
  let b := dec_par_round (k 5) b
  let b := dec_par_round (k 6) b
  let b := dec_par_round (k 7) b
  let b := dec_par_round (k 8) b
  let b := if n ≥ 13 then dec_par_round (k 10) (dec_par_round (k 9) b) else b
  let b := if n = 15 then dec_par_round (k 12) (dec_par_round (k 11) b) else b
  b.map (fun x => vst1q_u8 (veorq_u8 (vaesdq_u8 x (k (n - 2))) (k (n - 1))))

/-! ### armv8/hazmat.rs -/

/-- "AES single round encryption (all-zero round key, deferred until the end)", AESMC, then XOR of the key -/
def cipher_round (block round_key : BitVec 128) : BitVec 128 :=
  let b := vld1q_u8 block
  let k := vld1q_u8 round_key
  let state := vaeseq_u8 b (vdupq_n_u8 0#8)
  let state := vaesmcq_u8 state
  let state := veorq_u8 state k
  vst1q_u8 state

def equiv_inv_cipher_round (block round_key : BitVec 128) : BitVec 128 :=
  let b := vld1q_u8 block
  let k := vld1q_u8 round_key
  let state := vaesdq_u8 b (vdupq_n_u8 0#8)
  let state := vaesimcq_u8 state
  let state := veorq_u8 state k
  vst1q_u8 state

/-- `cipher_round_par`: `for i in 0..8 { blocks[i] = … }` (loads and stores per lane, in place) -/
def cipher_round_par (blocks round_keys : List (BitVec 128)) : List (BitVec 128) :=
  (List.range 8).foldl (fun bl i =>
    let state := vld1q_u8 (bl.getD i 0#128)
    let state := vaeseq_u8 state (vdupq_n_u8 0#8)
    let state := vaesmcq_u8 state
    let state := veorq_u8 state (vld1q_u8 (round_keys.getD i 0#128))
    bl.set i (vst1q_u8 state)) blocks

def equiv_inv_cipher_round_par (blocks round_keys : List (BitVec 128)) : List (BitVec 128) :=
  (List.range 8).foldl (fun bl i =>
    let state := vld1q_u8 (bl.getD i 0#128)
    let state := vaesdq_u8 state (vdupq_n_u8 0#8)
    let state := vaesimcq_u8 state
    let state := veorq_u8 state (vld1q_u8 (round_keys.getD i 0#128))
    bl.set i (vst1q_u8 state)) blocks

def mix_columns (block : BitVec 128) : BitVec 128 :=
  let b := vld1q_u8 block
  let out := vaesmcq_u8 b
  vst1q_u8 out

def inv_mix_columns (block : BitVec 128) : BitVec 128 :=
  let b := vld1q_u8 block
  let out := vaesimcq_u8 b
  vst1q_u8 out

/-! ### armv8.rs / macros.rs: the public types

`impl_backends!`: `AesNBackEnc { keys }` with `new(key) = expand_key(key)`; `AesNBackDec { keys }` with
`From<AesNBackEnc>` = `inv_expanded_keys(&enc.keys)` and `new(key) = From::from(AesNBackEnc::new(key))`.
`define_aes_impl!`: `AesN { encrypt, decrypt }`, `AesNEnc { backend }`, `AesNDec { backend }`:
  `AesN::new(key)`:            `encrypt = BackEnc::new(key); decrypt = BackDec::from(encrypt.clone())`
  `AesN::from(AesNEnc | &AesNEnc)`: `encrypt = enc.backend.clone(); decrypt = encrypt.clone().into()`
  `AesNEnc::new(key)`:         `backend = BackEnc::new(key)`
  `AesNDec::new(key)`:         `encrypt = BackEnc::new(key); backend = encrypt.clone().into()`
  `AesNDec::from(AesNEnc)` = `Self::from(&enc)`;  `AesNDec::from(&AesNEnc)`: `backend = enc.backend.clone().into()`
All `#[derive(Clone)]`.  The types are used directly (the `autodetect` wrapper of an AArch64 build adds the same
token dispatch as on x86, modelled with the NI backend). -/

structure Enc where
  keys : List (BitVec 128)

structure Dec where
  keys : List (BitVec 128)

structure Combined where
  encrypt : Enc
  decrypt : Dec

def Enc.clone (e : Enc) : Enc := { keys := e.keys }
def Dec.clone (d : Dec) : Dec := { keys := d.keys }
def Combined.clone (c : Combined) : Combined := { encrypt := c.encrypt.clone, decrypt := c.decrypt.clone }

/-- `impl From<AesNBackEnc> for AesNBackDec` (and `From<AesNEnc>` / `From<&AesNEnc>` for `AesNDec`, which clone the
backend first) -/
def Dec.fromEnc (e : Enc) : Dec := { keys := inv_expanded_keys e.clone.keys }
/-- `impl From<AesNEnc> for AesN` and `From<&AesNEnc>` -/
def Combined.fromEnc (e : Enc) : Combined :=
  let encrypt := e.clone
  { encrypt := encrypt, decrypt := Dec.fromEnc encrypt.clone }

/-- `AesNBackEnc::new` / `AesNEnc::new` for a key of `L = key.length` bytes and `N = n` round keys -/
def Enc.new (key : Bytes) (n : Nat) : Enc := { keys := expand_key key n }
/-- `AesNDec::new(key)` -/
def Dec.new (key : Bytes) (n : Nat) : Dec := Dec.fromEnc (Enc.new key n).clone
/-- `AesN::new(key)` -/
def Combined.new (key : Bytes) (n : Nat) : Combined :=
  let encrypt := Enc.new key n
  { encrypt := encrypt, decrypt := Dec.fromEnc encrypt.clone }

def Enc.encrypt_block (e : Enc) (b : BitVec 128) : BitVec 128 := encrypt e.keys b
def Dec.decrypt_block (d : Dec) (b : BitVec 128) : BitVec 128 := decrypt d.keys b
def Combined.encrypt_block (c : Combined) (b : BitVec 128) : BitVec 128 := c.encrypt.encrypt_block b
def Combined.decrypt_block (c : Combined) (b : BitVec 128) : BitVec 128 := c.decrypt.decrypt_block b

/-- the three instantiations of `define_aes_impl!` on fixed-size keys (array element 0 most significant) -/
def Enc.new128 (key : BitVec 128) : Enc := Enc.new (unpackBE 16 key) 11
def Enc.new192 (key : BitVec 192) : Enc := Enc.new (unpackBE 24 key) 13
def Enc.new256 (key : BitVec 256) : Enc := Enc.new (unpackBE 32 key) 15
def Dec.new128 (key : BitVec 128) : Dec := Dec.new (unpackBE 16 key) 11
def Dec.new192 (key : BitVec 192) : Dec := Dec.new (unpackBE 24 key) 13
def Dec.new256 (key : BitVec 256) : Dec := Dec.new (unpackBE 32 key) 15
def Combined.new128 (key : BitVec 128) : Combined := Combined.new (unpackBE 16 key) 11
def Combined.new192 (key : BitVec 192) : Combined := Combined.new (unpackBE 24 key) 13
def Combined.new256 (key : BitVec 256) : Combined := Combined.new (unpackBE 32 key) 15

/-- end-to-end single-block functions of the three key sizes -/
def encrypt128 (key : BitVec 128) (b : BitVec 128) : BitVec 128 := (Combined.new128 key).encrypt_block b
def decrypt128 (key : BitVec 128) (b : BitVec 128) : BitVec 128 := (Combined.new128 key).decrypt_block b
def encrypt192 (key : BitVec 192) (b : BitVec 128) : BitVec 128 := (Combined.new192 key).encrypt_block b
def decrypt192 (key : BitVec 192) (b : BitVec 128) : BitVec 128 := (Combined.new192 key).decrypt_block b
def encrypt256 (key : BitVec 256) (b : BitVec 128) : BitVec 128 := (Combined.new256 key).encrypt_block b
def decrypt256 (key : BitVec 256) (b : BitVec 128) : BitVec 128 := (Combined.new256 key).decrypt_block b

end BC.AesArmv8
