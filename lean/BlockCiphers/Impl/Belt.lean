import BlockCiphers.Prelude.Bytes
import BlockCiphers.Prelude.SmbUtil
/-
Model of /repo/belt-block/src/{lib.rs, cipher_impl.rs, consts.rs} (BelT, STB 34.101.31-2020:
128-bit block, 256-bit key, little-endian words; `belt_block_raw`, `BeltBlock`, wide-block
`belt_wblock_enc` / `belt_wblock_dec`).

Mirrored as written: the four extended tables `H5 H13 H21 H29`, `g5 g13 g21` (macro `g!`), `key_idx`,
the eight rounds of `belt_block_raw` with the nine updates and three swaps, `BeltBlock::decrypt_block`
of cipher_impl.rs, and the wide-block functions on byte slices of any length (`chunks_exact`,
`copy_within`, `split_at_mut`, `xor_set`, the `usize` round counter `i.to_le_bytes()`).

-- C20-SITE: g!: $a[((u >> 24) & 0xFF) as usize] … : index ≤ 0xFF, tables have 256 entries (`H5_size` …).
-- C20-SITE: key_idx: key[(7 * i - delta - 1) % 8] : callers use i ∈ 1..9, delta ∈ 0..=6, so
--           7*i - delta - 1 ≥ 0 (no `usize` underflow) and `% 8` keeps the index in range.
-- C20-SITE: belt_block_raw: `a + key_idx(..)`, `b + c + ..`, `a -= ..`, `b += e`, `c -= e`, `d += ..` :
--           all on `Wrapping<u32>` (wrapping by type); `i as u32` with i ≤ 8.
-- C20-SITE: belt_wblock_enc/dec: `2 * BLOCK_SIZE` constant; `len.div_ceil(16)`; `2 * n + 1` :
--           n ≤ len/16 + 1 and len ≤ isize::MAX, no overflow; `data[..len - 1]` : len ≥ 32;
--           `data[len - 2 * BLOCK_SIZE..]`, `len - BLOCK_SIZE` : len ≥ 32; `split_at_mut(16)` on a
--           32-byte slice; `tail2.copy_from_slice(&s)` : both 16 bytes;
--           `Block::try_from(&data[tail_pos..]).unwrap()` : exactly 16 bytes;
--           `data.copy_within(16.., 0)`, `data.copy_within(..tail_pos, 16)` : in range for len ≥ 16.
-- C20-SITE: to_u32 / from_u32: `assert_eq!(src.len(), 4 * N)` : callers pass 16- and 32-byte arrays.
-/
namespace BC.Belt

/-- `consts.rs: H5` -/
def H5 : Array (BitVec 32) := #[
  0x00001620#32, 0x00001280#32, 0x00001740#32, 0x00001900#32, 0x00000140#32, 0x00000100#32, 0x00001EA0#32, 0x00000760#32,
  0x000006C0#32, 0x00000DA0#32, 0x00000000#32, 0x000011C0#32, 0x00000B00#32, 0x00000940#32, 0x00000BA0#32, 0x00001C80#32,
  0x000010A0#32, 0x00000080#32, 0x00001F40#32, 0x000013A0#32, 0x00000360#32, 0x000016C0#32, 0x000018E0#32, 0x00001580#32,
  0x000004A0#32, 0x000005C0#32, 0x00000E40#32, 0x00001840#32, 0x00000040#32, 0x00001FA0#32, 0x000019C0#32, 0x000001A0#32,
  0x00000B60#32, 0x00001C60#32, 0x00001AC0#32, 0x00000240#32, 0x000002E0#32, 0x00001720#32, 0x00000C20#32, 0x00001020#32,
  0x00001FC0#32, 0x00000CE0#32, 0x000010C0#32, 0x000015A0#32, 0x00000E20#32, 0x00000D60#32, 0x00001120#32, 0x00000160#32,
  0x00000B80#32, 0x00001600#32, 0x00001800#32, 0x00001FE0#32, 0x00000660#32, 0x00001860#32, 0x00000AC0#32, 0x00001700#32,
  0x000006A0#32, 0x00001880#32, 0x000000A0#32, 0x000015C0#32, 0x00001B00#32, 0x00001C00#32, 0x00000FE0#32, 0x00001320#32,
  0x00001C20#32, 0x00000560#32, 0x00001B80#32, 0x00000340#32, 0x00001C40#32, 0x00001040#32, 0x00000AE0#32, 0x00001D80#32,
  0x00000E00#32, 0x000007E0#32, 0x00001980#32, 0x00001E00#32, 0x000012A0#32, 0x00001DC0#32, 0x000011A0#32, 0x00001E20#32,
  0x00001820#32, 0x00001560#32, 0x00000EC0#32, 0x00000700#32, 0x000013E0#32, 0x00001CC0#32, 0x00000F00#32, 0x00001940#32,
  0x00001EE0#32, 0x000018C0#32, 0x00001F00#32, 0x00000C00#32, 0x00001AA0#32, 0x00001760#32, 0x00001380#32, 0x000009E0#32,
  0x00001E60#32, 0x00000780#32, 0x00000CA0#32, 0x00000F60#32, 0x00000C60#32, 0x00000F80#32, 0x00000600#32, 0x00000D40#32,
  0x00001BA0#32, 0x000009C0#32, 0x000014E0#32, 0x00000F20#32, 0x000013C0#32, 0x00001640#32, 0x000007A0#32, 0x00000620#32,
  0x000007C0#32, 0x00001300#32, 0x000016A0#32, 0x00000DC0#32, 0x000004E0#32, 0x00001A60#32, 0x00001780#32, 0x000019E0#32,
  0x00000B20#32, 0x000003C0#32, 0x00000300#32, 0x000003E0#32, 0x00000980#32, 0x00000B40#32, 0x000016E0#32, 0x00001260#32,
  0x00001D20#32, 0x00001BC0#32, 0x00001CE0#32, 0x00000580#32, 0x000011E0#32, 0x00000180#32, 0x000001E0#32, 0x000014C0#32,
  0x000005A0#32, 0x00001B60#32, 0x00000920#32, 0x00001E80#32, 0x00000DE0#32, 0x00000E60#32, 0x000012C0#32, 0x000008E0#32,
  0x000000C0#32, 0x000000E0#32, 0x00000A60#32, 0x000002C0#32, 0x00001DA0#32, 0x00000480#32, 0x00000F40#32, 0x000006E0#32,
  0x00000720#32, 0x00001960#32, 0x00001460#32, 0x00001060#32, 0x00000060#32, 0x00001520#32, 0x00001160#32, 0x00001EC0#32,
  0x00001240#32, 0x000017A0#32, 0x00001360#32, 0x00000380#32, 0x00001CA0#32, 0x00001A20#32, 0x00000820#32, 0x00000020#32,
  0x00000A80#32, 0x000008A0#32, 0x00001F60#32, 0x00001920#32, 0x00000BC0#32, 0x000009A0#32, 0x000001C0#32, 0x00001E40#32,
  0x00000D00#32, 0x00000400#32, 0x00001000#32, 0x00001540#32, 0x00000440#32, 0x00000FA0#32, 0x00000C80#32, 0x000005E0#32,
  0x000004C0#32, 0x000010E0#32, 0x00001F20#32, 0x00000680#32, 0x00001200#32, 0x00000800#32, 0x00000AA0#32, 0x00000220#32,
  0x000017C0#32, 0x00000640#32, 0x000012E0#32, 0x00000260#32, 0x00000860#32, 0x00001F80#32, 0x00001340#32, 0x00000900#32,
  0x00001400#32, 0x00000540#32, 0x00001100#32, 0x00000BE0#32, 0x00000320#32, 0x00000960#32, 0x00000120#32, 0x00001420#32,
  0x00000FC0#32, 0x000019A0#32, 0x00001480#32, 0x00001A00#32, 0x000002A0#32, 0x00000880#32, 0x000015E0#32, 0x00001180#32,
  0x000014A0#32, 0x00001080#32, 0x00000A00#32, 0x000017E0#32, 0x00000CC0#32, 0x00001A40#32, 0x00001D00#32, 0x00001140#32,
  0x00001440#32, 0x00001AE0#32, 0x000008C0#32, 0x00000A40#32, 0x00000840#32, 0x00001500#32, 0x00001BE0#32, 0x00001660#32,
  0x00000D20#32, 0x00000E80#32, 0x000018A0#32, 0x00000A20#32, 0x00001D60#32, 0x00000460#32, 0x00000520#32, 0x00000420#32,
  0x00001A80#32, 0x00001DE0#32, 0x00001B20#32, 0x00001680#32, 0x00000740#32, 0x00000C40#32, 0x00000500#32, 0x00000EA0#32,
  0x00001220#32, 0x00000280#32, 0x00000200#32, 0x00001D40#32, 0x00000EE0#32, 0x00000D80#32, 0x00001B40#32, 0x000003A0#32]

theorem H5_size : H5.size = 256 := by decide +kernel

/-- `consts.rs: H13` -/
def H13 : Array (BitVec 32) := #[
  0x00162000#32, 0x00128000#32, 0x00174000#32, 0x00190000#32, 0x00014000#32, 0x00010000#32, 0x001EA000#32, 0x00076000#32,
  0x0006C000#32, 0x000DA000#32, 0x00000000#32, 0x0011C000#32, 0x000B0000#32, 0x00094000#32, 0x000BA000#32, 0x001C8000#32,
  0x0010A000#32, 0x00008000#32, 0x001F4000#32, 0x0013A000#32, 0x00036000#32, 0x0016C000#32, 0x0018E000#32, 0x00158000#32,
  0x0004A000#32, 0x0005C000#32, 0x000E4000#32, 0x00184000#32, 0x00004000#32, 0x001FA000#32, 0x0019C000#32, 0x0001A000#32,
  0x000B6000#32, 0x001C6000#32, 0x001AC000#32, 0x00024000#32, 0x0002E000#32, 0x00172000#32, 0x000C2000#32, 0x00102000#32,
  0x001FC000#32, 0x000CE000#32, 0x0010C000#32, 0x0015A000#32, 0x000E2000#32, 0x000D6000#32, 0x00112000#32, 0x00016000#32,
  0x000B8000#32, 0x00160000#32, 0x00180000#32, 0x001FE000#32, 0x00066000#32, 0x00186000#32, 0x000AC000#32, 0x00170000#32,
  0x0006A000#32, 0x00188000#32, 0x0000A000#32, 0x0015C000#32, 0x001B0000#32, 0x001C0000#32, 0x000FE000#32, 0x00132000#32,
  0x001C2000#32, 0x00056000#32, 0x001B8000#32, 0x00034000#32, 0x001C4000#32, 0x00104000#32, 0x000AE000#32, 0x001D8000#32,
  0x000E0000#32, 0x0007E000#32, 0x00198000#32, 0x001E0000#32, 0x0012A000#32, 0x001DC000#32, 0x0011A000#32, 0x001E2000#32,
  0x00182000#32, 0x00156000#32, 0x000EC000#32, 0x00070000#32, 0x0013E000#32, 0x001CC000#32, 0x000F0000#32, 0x00194000#32,
  0x001EE000#32, 0x0018C000#32, 0x001F0000#32, 0x000C0000#32, 0x001AA000#32, 0x00176000#32, 0x00138000#32, 0x0009E000#32,
  0x001E6000#32, 0x00078000#32, 0x000CA000#32, 0x000F6000#32, 0x000C6000#32, 0x000F8000#32, 0x00060000#32, 0x000D4000#32,
  0x001BA000#32, 0x0009C000#32, 0x0014E000#32, 0x000F2000#32, 0x0013C000#32, 0x00164000#32, 0x0007A000#32, 0x00062000#32,
  0x0007C000#32, 0x00130000#32, 0x0016A000#32, 0x000DC000#32, 0x0004E000#32, 0x001A6000#32, 0x00178000#32, 0x0019E000#32,
  0x000B2000#32, 0x0003C000#32, 0x00030000#32, 0x0003E000#32, 0x00098000#32, 0x000B4000#32, 0x0016E000#32, 0x00126000#32,
  0x001D2000#32, 0x001BC000#32, 0x001CE000#32, 0x00058000#32, 0x0011E000#32, 0x00018000#32, 0x0001E000#32, 0x0014C000#32,
  0x0005A000#32, 0x001B6000#32, 0x00092000#32, 0x001E8000#32, 0x000DE000#32, 0x000E6000#32, 0x0012C000#32, 0x0008E000#32,
  0x0000C000#32, 0x0000E000#32, 0x000A6000#32, 0x0002C000#32, 0x001DA000#32, 0x00048000#32, 0x000F4000#32, 0x0006E000#32,
  0x00072000#32, 0x00196000#32, 0x00146000#32, 0x00106000#32, 0x00006000#32, 0x00152000#32, 0x00116000#32, 0x001EC000#32,
  0x00124000#32, 0x0017A000#32, 0x00136000#32, 0x00038000#32, 0x001CA000#32, 0x001A2000#32, 0x00082000#32, 0x00002000#32,
  0x000A8000#32, 0x0008A000#32, 0x001F6000#32, 0x00192000#32, 0x000BC000#32, 0x0009A000#32, 0x0001C000#32, 0x001E4000#32,
  0x000D0000#32, 0x00040000#32, 0x00100000#32, 0x00154000#32, 0x00044000#32, 0x000FA000#32, 0x000C8000#32, 0x0005E000#32,
  0x0004C000#32, 0x0010E000#32, 0x001F2000#32, 0x00068000#32, 0x00120000#32, 0x00080000#32, 0x000AA000#32, 0x00022000#32,
  0x0017C000#32, 0x00064000#32, 0x0012E000#32, 0x00026000#32, 0x00086000#32, 0x001F8000#32, 0x00134000#32, 0x00090000#32,
  0x00140000#32, 0x00054000#32, 0x00110000#32, 0x000BE000#32, 0x00032000#32, 0x00096000#32, 0x00012000#32, 0x00142000#32,
  0x000FC000#32, 0x0019A000#32, 0x00148000#32, 0x001A0000#32, 0x0002A000#32, 0x00088000#32, 0x0015E000#32, 0x00118000#32,
  0x0014A000#32, 0x00108000#32, 0x000A0000#32, 0x0017E000#32, 0x000CC000#32, 0x001A4000#32, 0x001D0000#32, 0x00114000#32,
  0x00144000#32, 0x001AE000#32, 0x0008C000#32, 0x000A4000#32, 0x00084000#32, 0x00150000#32, 0x001BE000#32, 0x00166000#32,
  0x000D2000#32, 0x000E8000#32, 0x0018A000#32, 0x000A2000#32, 0x001D6000#32, 0x00046000#32, 0x00052000#32, 0x00042000#32,
  0x001A8000#32, 0x001DE000#32, 0x001B2000#32, 0x00168000#32, 0x00074000#32, 0x000C4000#32, 0x00050000#32, 0x000EA000#32,
  0x00122000#32, 0x00028000#32, 0x00020000#32, 0x001D4000#32, 0x000EE000#32, 0x000D8000#32, 0x001B4000#32, 0x0003A000#32]

theorem H13_size : H13.size = 256 := by decide +kernel

/-- `consts.rs: H21` -/
def H21 : Array (BitVec 32) := #[
  0x16200000#32, 0x12800000#32, 0x17400000#32, 0x19000000#32, 0x01400000#32, 0x01000000#32, 0x1EA00000#32, 0x07600000#32,
  0x06C00000#32, 0x0DA00000#32, 0x00000000#32, 0x11C00000#32, 0x0B000000#32, 0x09400000#32, 0x0BA00000#32, 0x1C800000#32,
  0x10A00000#32, 0x00800000#32, 0x1F400000#32, 0x13A00000#32, 0x03600000#32, 0x16C00000#32, 0x18E00000#32, 0x15800000#32,
  0x04A00000#32, 0x05C00000#32, 0x0E400000#32, 0x18400000#32, 0x00400000#32, 0x1FA00000#32, 0x19C00000#32, 0x01A00000#32,
  0x0B600000#32, 0x1C600000#32, 0x1AC00000#32, 0x02400000#32, 0x02E00000#32, 0x17200000#32, 0x0C200000#32, 0x10200000#32,
  0x1FC00000#32, 0x0CE00000#32, 0x10C00000#32, 0x15A00000#32, 0x0E200000#32, 0x0D600000#32, 0x11200000#32, 0x01600000#32,
  0x0B800000#32, 0x16000000#32, 0x18000000#32, 0x1FE00000#32, 0x06600000#32, 0x18600000#32, 0x0AC00000#32, 0x17000000#32,
  0x06A00000#32, 0x18800000#32, 0x00A00000#32, 0x15C00000#32, 0x1B000000#32, 0x1C000000#32, 0x0FE00000#32, 0x13200000#32,
  0x1C200000#32, 0x05600000#32, 0x1B800000#32, 0x03400000#32, 0x1C400000#32, 0x10400000#32, 0x0AE00000#32, 0x1D800000#32,
  0x0E000000#32, 0x07E00000#32, 0x19800000#32, 0x1E000000#32, 0x12A00000#32, 0x1DC00000#32, 0x11A00000#32, 0x1E200000#32,
  0x18200000#32, 0x15600000#32, 0x0EC00000#32, 0x07000000#32, 0x13E00000#32, 0x1CC00000#32, 0x0F000000#32, 0x19400000#32,
  0x1EE00000#32, 0x18C00000#32, 0x1F000000#32, 0x0C000000#32, 0x1AA00000#32, 0x17600000#32, 0x13800000#32, 0x09E00000#32,
  0x1E600000#32, 0x07800000#32, 0x0CA00000#32, 0x0F600000#32, 0x0C600000#32, 0x0F800000#32, 0x06000000#32, 0x0D400000#32,
  0x1BA00000#32, 0x09C00000#32, 0x14E00000#32, 0x0F200000#32, 0x13C00000#32, 0x16400000#32, 0x07A00000#32, 0x06200000#32,
  0x07C00000#32, 0x13000000#32, 0x16A00000#32, 0x0DC00000#32, 0x04E00000#32, 0x1A600000#32, 0x17800000#32, 0x19E00000#32,
  0x0B200000#32, 0x03C00000#32, 0x03000000#32, 0x03E00000#32, 0x09800000#32, 0x0B400000#32, 0x16E00000#32, 0x12600000#32,
  0x1D200000#32, 0x1BC00000#32, 0x1CE00000#32, 0x05800000#32, 0x11E00000#32, 0x01800000#32, 0x01E00000#32, 0x14C00000#32,
  0x05A00000#32, 0x1B600000#32, 0x09200000#32, 0x1E800000#32, 0x0DE00000#32, 0x0E600000#32, 0x12C00000#32, 0x08E00000#32,
  0x00C00000#32, 0x00E00000#32, 0x0A600000#32, 0x02C00000#32, 0x1DA00000#32, 0x04800000#32, 0x0F400000#32, 0x06E00000#32,
  0x07200000#32, 0x19600000#32, 0x14600000#32, 0x10600000#32, 0x00600000#32, 0x15200000#32, 0x11600000#32, 0x1EC00000#32,
  0x12400000#32, 0x17A00000#32, 0x13600000#32, 0x03800000#32, 0x1CA00000#32, 0x1A200000#32, 0x08200000#32, 0x00200000#32,
  0x0A800000#32, 0x08A00000#32, 0x1F600000#32, 0x19200000#32, 0x0BC00000#32, 0x09A00000#32, 0x01C00000#32, 0x1E400000#32,
  0x0D000000#32, 0x04000000#32, 0x10000000#32, 0x15400000#32, 0x04400000#32, 0x0FA00000#32, 0x0C800000#32, 0x05E00000#32,
  0x04C00000#32, 0x10E00000#32, 0x1F200000#32, 0x06800000#32, 0x12000000#32, 0x08000000#32, 0x0AA00000#32, 0x02200000#32,
  0x17C00000#32, 0x06400000#32, 0x12E00000#32, 0x02600000#32, 0x08600000#32, 0x1F800000#32, 0x13400000#32, 0x09000000#32,
  0x14000000#32, 0x05400000#32, 0x11000000#32, 0x0BE00000#32, 0x03200000#32, 0x09600000#32, 0x01200000#32, 0x14200000#32,
  0x0FC00000#32, 0x19A00000#32, 0x14800000#32, 0x1A000000#32, 0x02A00000#32, 0x08800000#32, 0x15E00000#32, 0x11800000#32,
  0x14A00000#32, 0x10800000#32, 0x0A000000#32, 0x17E00000#32, 0x0CC00000#32, 0x1A400000#32, 0x1D000000#32, 0x11400000#32,
  0x14400000#32, 0x1AE00000#32, 0x08C00000#32, 0x0A400000#32, 0x08400000#32, 0x15000000#32, 0x1BE00000#32, 0x16600000#32,
  0x0D200000#32, 0x0E800000#32, 0x18A00000#32, 0x0A200000#32, 0x1D600000#32, 0x04600000#32, 0x05200000#32, 0x04200000#32,
  0x1A800000#32, 0x1DE00000#32, 0x1B200000#32, 0x16800000#32, 0x07400000#32, 0x0C400000#32, 0x05000000#32, 0x0EA00000#32,
  0x12200000#32, 0x02800000#32, 0x02000000#32, 0x1D400000#32, 0x0EE00000#32, 0x0D800000#32, 0x1B400000#32, 0x03A00000#32]

theorem H21_size : H21.size = 256 := by decide +kernel

/-- `consts.rs: H29` -/
def H29 : Array (BitVec 32) := #[
  0x20000016#32, 0x80000012#32, 0x40000017#32, 0x00000019#32, 0x40000001#32, 0x00000001#32, 0xA000001E#32, 0x60000007#32,
  0xC0000006#32, 0xA000000D#32, 0x00000000#32, 0xC0000011#32, 0x0000000B#32, 0x40000009#32, 0xA000000B#32, 0x8000001C#32,
  0xA0000010#32, 0x80000000#32, 0x4000001F#32, 0xA0000013#32, 0x60000003#32, 0xC0000016#32, 0xE0000018#32, 0x80000015#32,
  0xA0000004#32, 0xC0000005#32, 0x4000000E#32, 0x40000018#32, 0x40000000#32, 0xA000001F#32, 0xC0000019#32, 0xA0000001#32,
  0x6000000B#32, 0x6000001C#32, 0xC000001A#32, 0x40000002#32, 0xE0000002#32, 0x20000017#32, 0x2000000C#32, 0x20000010#32,
  0xC000001F#32, 0xE000000C#32, 0xC0000010#32, 0xA0000015#32, 0x2000000E#32, 0x6000000D#32, 0x20000011#32, 0x60000001#32,
  0x8000000B#32, 0x00000016#32, 0x00000018#32, 0xE000001F#32, 0x60000006#32, 0x60000018#32, 0xC000000A#32, 0x00000017#32,
  0xA0000006#32, 0x80000018#32, 0xA0000000#32, 0xC0000015#32, 0x0000001B#32, 0x0000001C#32, 0xE000000F#32, 0x20000013#32,
  0x2000001C#32, 0x60000005#32, 0x8000001B#32, 0x40000003#32, 0x4000001C#32, 0x40000010#32, 0xE000000A#32, 0x8000001D#32,
  0x0000000E#32, 0xE0000007#32, 0x80000019#32, 0x0000001E#32, 0xA0000012#32, 0xC000001D#32, 0xA0000011#32, 0x2000001E#32,
  0x20000018#32, 0x60000015#32, 0xC000000E#32, 0x00000007#32, 0xE0000013#32, 0xC000001C#32, 0x0000000F#32, 0x40000019#32,
  0xE000001E#32, 0xC0000018#32, 0x0000001F#32, 0x0000000C#32, 0xA000001A#32, 0x60000017#32, 0x80000013#32, 0xE0000009#32,
  0x6000001E#32, 0x80000007#32, 0xA000000C#32, 0x6000000F#32, 0x6000000C#32, 0x8000000F#32, 0x00000006#32, 0x4000000D#32,
  0xA000001B#32, 0xC0000009#32, 0xE0000014#32, 0x2000000F#32, 0xC0000013#32, 0x40000016#32, 0xA0000007#32, 0x20000006#32,
  0xC0000007#32, 0x00000013#32, 0xA0000016#32, 0xC000000D#32, 0xE0000004#32, 0x6000001A#32, 0x80000017#32, 0xE0000019#32,
  0x2000000B#32, 0xC0000003#32, 0x00000003#32, 0xE0000003#32, 0x80000009#32, 0x4000000B#32, 0xE0000016#32, 0x60000012#32,
  0x2000001D#32, 0xC000001B#32, 0xE000001C#32, 0x80000005#32, 0xE0000011#32, 0x80000001#32, 0xE0000001#32, 0xC0000014#32,
  0xA0000005#32, 0x6000001B#32, 0x20000009#32, 0x8000001E#32, 0xE000000D#32, 0x6000000E#32, 0xC0000012#32, 0xE0000008#32,
  0xC0000000#32, 0xE0000000#32, 0x6000000A#32, 0xC0000002#32, 0xA000001D#32, 0x80000004#32, 0x4000000F#32, 0xE0000006#32,
  0x20000007#32, 0x60000019#32, 0x60000014#32, 0x60000010#32, 0x60000000#32, 0x20000015#32, 0x60000011#32, 0xC000001E#32,
  0x40000012#32, 0xA0000017#32, 0x60000013#32, 0x80000003#32, 0xA000001C#32, 0x2000001A#32, 0x20000008#32, 0x20000000#32,
  0x8000000A#32, 0xA0000008#32, 0x6000001F#32, 0x20000019#32, 0xC000000B#32, 0xA0000009#32, 0xC0000001#32, 0x4000001E#32,
  0x0000000D#32, 0x00000004#32, 0x00000010#32, 0x40000015#32, 0x40000004#32, 0xA000000F#32, 0x8000000C#32, 0xE0000005#32,
  0xC0000004#32, 0xE0000010#32, 0x2000001F#32, 0x80000006#32, 0x00000012#32, 0x00000008#32, 0xA000000A#32, 0x20000002#32,
  0xC0000017#32, 0x40000006#32, 0xE0000012#32, 0x60000002#32, 0x60000008#32, 0x8000001F#32, 0x40000013#32, 0x00000009#32,
  0x00000014#32, 0x40000005#32, 0x00000011#32, 0xE000000B#32, 0x20000003#32, 0x60000009#32, 0x20000001#32, 0x20000014#32,
  0xC000000F#32, 0xA0000019#32, 0x80000014#32, 0x0000001A#32, 0xA0000002#32, 0x80000008#32, 0xE0000015#32, 0x80000011#32,
  0xA0000014#32, 0x80000010#32, 0x0000000A#32, 0xE0000017#32, 0xC000000C#32, 0x4000001A#32, 0x0000001D#32, 0x40000011#32,
  0x40000014#32, 0xE000001A#32, 0xC0000008#32, 0x4000000A#32, 0x40000008#32, 0x00000015#32, 0xE000001B#32, 0x60000016#32,
  0x2000000D#32, 0x8000000E#32, 0xA0000018#32, 0x2000000A#32, 0x6000001D#32, 0x60000004#32, 0x20000005#32, 0x20000004#32,
  0x8000001A#32, 0xE000001D#32, 0x2000001B#32, 0x80000016#32, 0x40000007#32, 0x4000000C#32, 0x00000005#32, 0xA000000E#32,
  0x20000012#32, 0x80000002#32, 0x00000002#32, 0x4000001D#32, 0xE000000E#32, 0x8000000D#32, 0x4000001B#32, 0xA0000003#32]

theorem H29_size : H29.size = 256 := by decide +kernel

/-- `T[x as usize]` for an index that has been masked to 8 bits -/
def tab (T : Array (BitVec 32)) (x : BitVec 32) : BitVec 32 := T.getD x.toNat 0

/-- `g!(g5: (H29, H21, H13, H5))` -/
def g5 (u : BitVec 32) : BitVec 32 :=
  tab H29 ((u >>> 24) &&& 0xFF#32) ^^^ tab H21 ((u >>> 16) &&& 0xFF#32) ^^^
    tab H13 ((u >>> 8) &&& 0xFF#32) ^^^ tab H5 (u &&& 0xFF#32)

/-- `g!(g13: (H5, H29, H21, H13))` -/
def g13 (u : BitVec 32) : BitVec 32 :=
  tab H5 ((u >>> 24) &&& 0xFF#32) ^^^ tab H29 ((u >>> 16) &&& 0xFF#32) ^^^
    tab H21 ((u >>> 8) &&& 0xFF#32) ^^^ tab H13 (u &&& 0xFF#32)

/-- `g!(g21: (H13, H5, H29, H21))` -/
def g21 (u : BitVec 32) : BitVec 32 :=
  tab H13 ((u >>> 24) &&& 0xFF#32) ^^^ tab H5 ((u >>> 16) &&& 0xFF#32) ^^^
    tab H29 ((u >>> 8) &&& 0xFF#32) ^^^ tab H21 (u &&& 0xFF#32)

/-- `key: [u32; 8]` -/
abbrev Key := Vector (BitVec 32) 8

/-- `fn key_idx` (`usize` subtraction modelled by truncated subtraction: callers never underflow) -/
def key_idx (key : Key) (i delta : Nat) : BitVec 32 :=
  key[(7 * i - delta - 1) % 8]'(Nat.mod_lt _ (by decide))

/-- the four words `a b c d` -/
structure W4 where
  a : BitVec 32
  b : BitVec 32
  c : BitVec 32
  d : BitVec 32

/-- body of the loop of `belt_block_raw` (steps 5.1 – 5.12) -/
def encRound (key : Key) (i : Nat) (s : W4) : W4 :=
  let a := s.a; let b := s.b; let c := s.c; let d := s.d
  let b := b ^^^ g5 (a + key_idx key i 6)
  let c := c ^^^ g21 (d + key_idx key i 5)
  let a := a - g13 (b + key_idx key i 4)
  let e := g21 (b + c + key_idx key i 3) ^^^ BitVec.ofNat 32 i
  let b := b + e
  let c := c - e
  let d := d + g13 (c + key_idx key i 2)
  let b := b ^^^ g21 (a + key_idx key i 1)
  let c := c ^^^ g5 (d + key_idx key i 0)
  -- swap(a, b); swap(c, d); swap(b, c)
  { a := b, b := d, c := a, d := c }

/-- `pub fn belt_block_raw(x: [u32; 4], key: &[u32; 8]) -> [u32; 4]` (result `[b, d, a, c]`) -/
def belt_block_raw (x : W4) (key : Key) : W4 :=
  let s := forRange 1 8 (encRound key) x
  { a := s.b, b := s.d, c := s.a, d := s.c }

/-- body of the loop of `BeltBlock::decrypt_block` -/
def decRound (key : Key) (i : Nat) (s : W4) : W4 :=
  let a := s.a; let b := s.b; let c := s.c; let d := s.d
  let b := b ^^^ g5 (a + key_idx key i 0)
  let c := c ^^^ g21 (d + key_idx key i 1)
  let a := a - g13 (b + key_idx key i 2)
  let e := g21 (b + c + key_idx key i 3) ^^^ BitVec.ofNat 32 i
  let b := b + e
  let c := c - e
  let d := d + g13 (c + key_idx key i 4)
  let b := b ^^^ g21 (a + key_idx key i 5)
  let c := c ^^^ g5 (d + key_idx key i 6)
  -- swap(a, b); swap(c, d); swap(a, d)
  { a := c, b := a, c := d, d := b }

/-- the word part of `decrypt_block` (result `[c, a, d, b]`) -/
def belt_block_raw_dec (x : W4) (key : Key) : W4 :=
  let s := forRangeRev 1 8 (decRound key) x
  { a := s.c, b := s.a, c := s.d, d := s.b }

/-- `to_u32::<4>` of a 16-byte block (little-endian words) -/
def toU32x4 (b : BitVec 128) : W4 :=
  { a := bswap32 (b.extractLsb' 96 32), b := bswap32 (b.extractLsb' 64 32),
    c := bswap32 (b.extractLsb' 32 32), d := bswap32 (b.extractLsb' 0 32) }

/-- `from_u32::<16>` -/
def fromU32x4 (w : W4) : BitVec 128 := bswap32 w.a ++ bswap32 w.b ++ bswap32 w.c ++ bswap32 w.d

/-- `to_u32::<8>` of a 32-byte key -/
def toKey (k : BitVec 256) : Key :=
  Vector.ofFn (fun i : Fin 8 => bswap32 ((k >>> (32 * (7 - i.val))).setWidth 32))

/-- `struct BeltBlock { key: [u32; 8] }` -/
structure BeltBlock where
  key : Key

/-- `KeyInit::new` -/
def new (k : BitVec 256) : BeltBlock := { key := toKey k }

/-- `BlockCipherEncBackend::encrypt_block` -/
def encrypt (c : BeltBlock) (b : BitVec 128) : BitVec 128 :=
  fromU32x4 (belt_block_raw (toU32x4 b) c.key)

/-- `BlockCipherDecBackend::decrypt_block` -/
def decrypt (c : BeltBlock) (b : BitVec 128) : BitVec 128 :=
  fromU32x4 (belt_block_raw_dec (toU32x4 b) c.key)

def accepts (n : Nat) : Bool := n == 32

/-! ### wide block (`belt_wblock_enc`, `belt_wblock_dec`) on byte strings of any length -/

/-- `slice.chunks_exact(n)` (the remainder is dropped) -/
def chunksExact {α : Type} (n : Nat) (l : List α) : List (List α) :=
  if _h : n = 0 ∨ l.length < n then [] else l.take n :: chunksExact n (l.drop n)
termination_by l.length
decreasing_by simp only [List.length_drop]; omega

/-- `fn xor_set(block: &mut [u8], val: &[u8])` and `fn xor(block: Block, val: &[u8]) -> Block`:
`zip` stops at the shorter operand, the rest of `block` is kept -/
def xorSet : Bytes → Bytes → Bytes
  | a :: as, b :: bs => (a ^^^ b) :: xorSet as bs
  | [], _ => []
  | as, [] => as

/-- `data[lo..hi]` -/
def slice (data : Bytes) (lo hi : Nat) : Bytes := (data.take hi).drop lo

/-- write `val` at `data[pos .. pos + val.len()]` -/
def setSlice (data : Bytes) (pos : Nat) (val : Bytes) : Bytes :=
  data.take pos ++ val ++ data.drop (pos + val.length)

/-- `data.copy_within(lo..hi, dest)` (memmove semantics) -/
def copyWithin (data : Bytes) (lo hi dest : Nat) : Bytes := setSlice data dest (slice data lo hi)

/-- apply `f` to the sub-slice `data[lo..hi]` in place -/
def modifySlice (data : Bytes) (lo hi : Nat) (f : Bytes → Bytes) : Bytes :=
  setSlice data lo (f (slice data lo hi))

/-- `Block::default()` -/
def zeroBlock : Bytes := List.replicate 16 0#8

/-- `from_u32::<16>(&belt_block_raw(to_u32(&s), key))` on a 16-byte string -/
def rawBytes (key : Key) (s : Bytes) : Bytes :=
  unpackBE 16 (fromU32x4 (belt_block_raw (toU32x4 (packBE 16 s)) key))

/-- `i.to_le_bytes()` for `i : usize` of `ub` bytes (8 on the 64-bit target of the harness) -/
def usizeLE (ub : Nat) (i : Nat) : Bytes := (unpackBE ub (BitVec.ofNat (8 * ub) i)).reverse

/-- body of the loop of `belt_wblock_enc` (`len = data.len()`) -/
def wblockEncRound (ub : Nat) (key : Key) (len : Nat) (i : Nat) (data : Bytes) : Bytes :=
  let s := (chunksExact 16 (slice data 0 (len - 1))).foldl xorSet zeroBlock
  let data := copyWithin data 16 len 0
  -- (tail1, tail2) = data[len - 32..].split_at_mut(16)
  let data := setSlice data (len - 16) s
  let s := rawBytes key s
  let data := modifySlice data (len - 32) (len - 16) (fun t => xorSet t s)
  let data := modifySlice data (len - 32) (len - 16) (fun t => xorSet t (usizeLE ub i))
  data

/-- body of the loop of `belt_wblock_dec` -/
def wblockDecRound (ub : Nat) (key : Key) (len : Nat) (i : Nat) (data : Bytes) : Bytes :=
  let tail_pos := len - 16
  let s := slice data tail_pos len
  let data := copyWithin data 0 tail_pos 16
  let s_enc := rawBytes key s
  let data := modifySlice data tail_pos len (fun t => xorSet t s_enc)
  let data := modifySlice data tail_pos len (fun t => xorSet t (usizeLE ub i))
  let r1 := ((chunksExact 16 (slice data 0 (len - 1))).drop 1).foldl xorSet s
  setSlice data 0 r1

/-- `Result<(), InvalidLengthError>` -/
inductive WRes | ok | invalidLength
  deriving DecidableEq, Repr

/-- `belt_wblock_enc(data, key)`: the result and the buffer after the call -/
def wblockEncU (ub : Nat) (data : Bytes) (key : Key) : WRes × Bytes :=
  if data.length < 2 * 16 then (.invalidLength, data) else
  let len := data.length
  let n := (len + 15) / 16   -- len.div_ceil(16)
  (.ok, forRange 1 (2 * n) (wblockEncRound ub key len) data)

/-- `belt_wblock_dec(data, key)` -/
def wblockDecU (ub : Nat) (data : Bytes) (key : Key) : WRes × Bytes :=
  if data.length < 2 * 16 then (.invalidLength, data) else
  let len := data.length
  let n := (len + 15) / 16
  (.ok, forRangeRev 1 (2 * n) (wblockDecRound ub key len) data)

/-- the 64-bit target (`usize` = 8 bytes) -/
def wblockEnc (data : Bytes) (key : Key) : WRes × Bytes := wblockEncU 8 data key
def wblockDec (data : Bytes) (key : Key) : WRes × Bytes := wblockDecU 8 data key

end BC.Belt
