import BlockCiphers.Prelude.Bytes
/-
Model of /repo/cast6/src/{lib.rs,consts.rs} (CAST-256 / CAST6, RFC 2612; 128-bit block, keys of
16/20/24/28/32 bytes, big-endian words).  Mirrors the Rust: the macros `f1!/f2!/f3!`, `forward_quad`,
`reverse_quad`, `forward_octave`, `key_schedule` (with the tables `TM`, `TR` and their slicing
`TM[16*i..][..8]`, `TM[16*i+8..][..8]`, `TR[16*(i%2)..][..8]`, `TR[16*(i%2)+8..][..8]`), zero padding of
short keys, and the twelve explicit quad-round calls of `encrypt_block` / `decrypt_block`.

C20-SITE: f1!/f2!/f3!: `S1[(i >> 24) as usize]`, `S2[((i >> 16) & 0xff) as usize]`, … : index `< 256`
          = table length (`sb_index_lt`, `S1_size` …).
C20-SITE: f1!/f2!/f3!: `rotate_left(u32::from(r))` : `rotate_left` reduces the amount mod 32, no panic.
C20-SITE: key_schedule: `16 * i`, `16 * (i % 2)`, `m_idx + 8`, `r_idx + 8` with `i < 12`: at most 184 / 24.
C20-SITE: key_schedule: `TM[m_idx..][..8]`, `TM[m_idx + 8..][..8]` : `16*11 + 8 + 8 = 192 = TM.len()`;
          `TR[r_idx..][..8]`, `TR[r_idx + 8..][..8]` : `16 + 8 + 8 = 32 = TR.len()` (`TM_size`, `TR_size`).
C20-SITE: key_schedule: `self.masking[i]`, `self.rotate[i][0..4]` : `i < 12`.
C20-SITE: key_schedule: `(a & 0x1f) as u8` : value `< 32`, lossless.
C20-SITE: forward_octave: `m[0..8]`, `r[0..8]` : slices of length 8 by construction.
C20-SITE: new_from_slice: `padded_key[..key.len()].copy_from_slice(key)` : `key.len() ∈ {16,20,24,28,32} ≤ 32`.
C20-SITE: to_u32s: `assert_eq!(src.len(), 4 * N)` : called with 32 bytes / N = 8 and 16 bytes / N = 4;
          to_u8s: `assert_eq!(4 * src.len(), N)` : 4 words / N = 16.
-/
namespace BC.Cast6

/-- `consts::S1` of /repo/cast6/src/consts.rs -/
def S1 : Array (BitVec 32) := #[
  0x30fb40d4#32, 0x9fa0ff0b#32, 0x6beccd2f#32, 0x3f258c7a#32, 0x1e213f2f#32, 0x9c004dd3#32, 0x6003e540#32, 0xcf9fc949#32,
  0xbfd4af27#32, 0x88bbbdb5#32, 0xe2034090#32, 0x98d09675#32, 0x6e63a0e0#32, 0x15c361d2#32, 0xc2e7661d#32, 0x22d4ff8e#32,
  0x28683b6f#32, 0xc07fd059#32, 0xff2379c8#32, 0x775f50e2#32, 0x43c340d3#32, 0xdf2f8656#32, 0x887ca41a#32, 0xa2d2bd2d#32,
  0xa1c9e0d6#32, 0x346c4819#32, 0x61b76d87#32, 0x22540f2f#32, 0x2abe32e1#32, 0xaa54166b#32, 0x22568e3a#32, 0xa2d341d0#32,
  0x66db40c8#32, 0xa784392f#32, 0x004dff2f#32, 0x2db9d2de#32, 0x97943fac#32, 0x4a97c1d8#32, 0x527644b7#32, 0xb5f437a7#32,
  0xb82cbaef#32, 0xd751d159#32, 0x6ff7f0ed#32, 0x5a097a1f#32, 0x827b68d0#32, 0x90ecf52e#32, 0x22b0c054#32, 0xbc8e5935#32,
  0x4b6d2f7f#32, 0x50bb64a2#32, 0xd2664910#32, 0xbee5812d#32, 0xb7332290#32, 0xe93b159f#32, 0xb48ee411#32, 0x4bff345d#32,
  0xfd45c240#32, 0xad31973f#32, 0xc4f6d02e#32, 0x55fc8165#32, 0xd5b1caad#32, 0xa1ac2dae#32, 0xa2d4b76d#32, 0xc19b0c50#32,
  0x882240f2#32, 0x0c6e4f38#32, 0xa4e4bfd7#32, 0x4f5ba272#32, 0x564c1d2f#32, 0xc59c5319#32, 0xb949e354#32, 0xb04669fe#32,
  0xb1b6ab8a#32, 0xc71358dd#32, 0x6385c545#32, 0x110f935d#32, 0x57538ad5#32, 0x6a390493#32, 0xe63d37e0#32, 0x2a54f6b3#32,
  0x3a787d5f#32, 0x6276a0b5#32, 0x19a6fcdf#32, 0x7a42206a#32, 0x29f9d4d5#32, 0xf61b1891#32, 0xbb72275e#32, 0xaa508167#32,
  0x38901091#32, 0xc6b505eb#32, 0x84c7cb8c#32, 0x2ad75a0f#32, 0x874a1427#32, 0xa2d1936b#32, 0x2ad286af#32, 0xaa56d291#32,
  0xd7894360#32, 0x425c750d#32, 0x93b39e26#32, 0x187184c9#32, 0x6c00b32d#32, 0x73e2bb14#32, 0xa0bebc3c#32, 0x54623779#32,
  0x64459eab#32, 0x3f328b82#32, 0x7718cf82#32, 0x59a2cea6#32, 0x04ee002e#32, 0x89fe78e6#32, 0x3fab0950#32, 0x325ff6c2#32,
  0x81383f05#32, 0x6963c5c8#32, 0x76cb5ad6#32, 0xd49974c9#32, 0xca180dcf#32, 0x380782d5#32, 0xc7fa5cf6#32, 0x8ac31511#32,
  0x35e79e13#32, 0x47da91d0#32, 0xf40f9086#32, 0xa7e2419e#32, 0x31366241#32, 0x051ef495#32, 0xaa573b04#32, 0x4a805d8d#32,
  0x548300d0#32, 0x00322a3c#32, 0xbf64cddf#32, 0xba57a68e#32, 0x75c6372b#32, 0x50afd341#32, 0xa7c13275#32, 0x915a0bf5#32,
  0x6b54bfab#32, 0x2b0b1426#32, 0xab4cc9d7#32, 0x449ccd82#32, 0xf7fbf265#32, 0xab85c5f3#32, 0x1b55db94#32, 0xaad4e324#32,
  0xcfa4bd3f#32, 0x2deaa3e2#32, 0x9e204d02#32, 0xc8bd25ac#32, 0xeadf55b3#32, 0xd5bd9e98#32, 0xe31231b2#32, 0x2ad5ad6c#32,
  0x954329de#32, 0xadbe4528#32, 0xd8710f69#32, 0xaa51c90f#32, 0xaa786bf6#32, 0x22513f1e#32, 0xaa51a79b#32, 0x2ad344cc#32,
  0x7b5a41f0#32, 0xd37cfbad#32, 0x1b069505#32, 0x41ece491#32, 0xb4c332e6#32, 0x032268d4#32, 0xc9600acc#32, 0xce387e6d#32,
  0xbf6bb16c#32, 0x6a70fb78#32, 0x0d03d9c9#32, 0xd4df39de#32, 0xe01063da#32, 0x4736f464#32, 0x5ad328d8#32, 0xb347cc96#32,
  0x75bb0fc3#32, 0x98511bfb#32, 0x4ffbcc35#32, 0xb58bcf6a#32, 0xe11f0abc#32, 0xbfc5fe4a#32, 0xa70aec10#32, 0xac39570a#32,
  0x3f04442f#32, 0x6188b153#32, 0xe0397a2e#32, 0x5727cb79#32, 0x9ceb418f#32, 0x1cacd68d#32, 0x2ad37c96#32, 0x0175cb9d#32,
  0xc69dff09#32, 0xc75b65f0#32, 0xd9db40d8#32, 0xec0e7779#32, 0x4744ead4#32, 0xb11c3274#32, 0xdd24cb9e#32, 0x7e1c54bd#32,
  0xf01144f9#32, 0xd2240eb1#32, 0x9675b3fd#32, 0xa3ac3755#32, 0xd47c27af#32, 0x51c85f4d#32, 0x56907596#32, 0xa5bb15e6#32,
  0x580304f0#32, 0xca042cf1#32, 0x011a37ea#32, 0x8dbfaadb#32, 0x35ba3e4a#32, 0x3526ffa0#32, 0xc37b4d09#32, 0xbc306ed9#32,
  0x98a52666#32, 0x5648f725#32, 0xff5e569d#32, 0x0ced63d0#32, 0x7c63b2cf#32, 0x700b45e1#32, 0xd5ea50f1#32, 0x85a92872#32,
  0xaf1fbda7#32, 0xd4234870#32, 0xa7870bf3#32, 0x2d3b4d79#32, 0x42e04198#32, 0x0cd0ede7#32, 0x26470db8#32, 0xf881814c#32,
  0x474d6ad7#32, 0x7c0c5e5c#32, 0xd1231959#32, 0x381b7298#32, 0xf5d2f4db#32, 0xab838653#32, 0x6e2f1e23#32, 0x83719c9e#32,
  0xbd91e046#32, 0x9a56456e#32, 0xdc39200c#32, 0x20c8c571#32, 0x962bda1c#32, 0xe1e696ff#32, 0xb141ab08#32, 0x7cca89b9#32,
  0x1a69e783#32, 0x02cc4843#32, 0xa2f7c579#32, 0x429ef47d#32, 0x427b169c#32, 0x5ac9f049#32, 0xdd8f0f00#32, 0x5c8165bf#32]

/-- `consts::S2` of /repo/cast6/src/consts.rs -/
def S2 : Array (BitVec 32) := #[
  0x1f201094#32, 0xef0ba75b#32, 0x69e3cf7e#32, 0x393f4380#32, 0xfe61cf7a#32, 0xeec5207a#32, 0x55889c94#32, 0x72fc0651#32,
  0xada7ef79#32, 0x4e1d7235#32, 0xd55a63ce#32, 0xde0436ba#32, 0x99c430ef#32, 0x5f0c0794#32, 0x18dcdb7d#32, 0xa1d6eff3#32,
  0xa0b52f7b#32, 0x59e83605#32, 0xee15b094#32, 0xe9ffd909#32, 0xdc440086#32, 0xef944459#32, 0xba83ccb3#32, 0xe0c3cdfb#32,
  0xd1da4181#32, 0x3b092ab1#32, 0xf997f1c1#32, 0xa5e6cf7b#32, 0x01420ddb#32, 0xe4e7ef5b#32, 0x25a1ff41#32, 0xe180f806#32,
  0x1fc41080#32, 0x179bee7a#32, 0xd37ac6a9#32, 0xfe5830a4#32, 0x98de8b7f#32, 0x77e83f4e#32, 0x79929269#32, 0x24fa9f7b#32,
  0xe113c85b#32, 0xacc40083#32, 0xd7503525#32, 0xf7ea615f#32, 0x62143154#32, 0x0d554b63#32, 0x5d681121#32, 0xc866c359#32,
  0x3d63cf73#32, 0xcee234c0#32, 0xd4d87e87#32, 0x5c672b21#32, 0x071f6181#32, 0x39f7627f#32, 0x361e3084#32, 0xe4eb573b#32,
  0x602f64a4#32, 0xd63acd9c#32, 0x1bbc4635#32, 0x9e81032d#32, 0x2701f50c#32, 0x99847ab4#32, 0xa0e3df79#32, 0xba6cf38c#32,
  0x10843094#32, 0x2537a95e#32, 0xf46f6ffe#32, 0xa1ff3b1f#32, 0x208cfb6a#32, 0x8f458c74#32, 0xd9e0a227#32, 0x4ec73a34#32,
  0xfc884f69#32, 0x3e4de8df#32, 0xef0e0088#32, 0x3559648d#32, 0x8a45388c#32, 0x1d804366#32, 0x721d9bfd#32, 0xa58684bb#32,
  0xe8256333#32, 0x844e8212#32, 0x128d8098#32, 0xfed33fb4#32, 0xce280ae1#32, 0x27e19ba5#32, 0xd5a6c252#32, 0xe49754bd#32,
  0xc5d655dd#32, 0xeb667064#32, 0x77840b4d#32, 0xa1b6a801#32, 0x84db26a9#32, 0xe0b56714#32, 0x21f043b7#32, 0xe5d05860#32,
  0x54f03084#32, 0x066ff472#32, 0xa31aa153#32, 0xdadc4755#32, 0xb5625dbf#32, 0x68561be6#32, 0x83ca6b94#32, 0x2d6ed23b#32,
  0xeccf01db#32, 0xa6d3d0ba#32, 0xb6803d5c#32, 0xaf77a709#32, 0x33b4a34c#32, 0x397bc8d6#32, 0x5ee22b95#32, 0x5f0e5304#32,
  0x81ed6f61#32, 0x20e74364#32, 0xb45e1378#32, 0xde18639b#32, 0x881ca122#32, 0xb96726d1#32, 0x8049a7e8#32, 0x22b7da7b#32,
  0x5e552d25#32, 0x5272d237#32, 0x79d2951c#32, 0xc60d894c#32, 0x488cb402#32, 0x1ba4fe5b#32, 0xa4b09f6b#32, 0x1ca815cf#32,
  0xa20c3005#32, 0x8871df63#32, 0xb9de2fcb#32, 0x0cc6c9e9#32, 0x0beeff53#32, 0xe3214517#32, 0xb4542835#32, 0x9f63293c#32,
  0xee41e729#32, 0x6e1d2d7c#32, 0x50045286#32, 0x1e6685f3#32, 0xf33401c6#32, 0x30a22c95#32, 0x31a70850#32, 0x60930f13#32,
  0x73f98417#32, 0xa1269859#32, 0xec645c44#32, 0x52c877a9#32, 0xcdff33a6#32, 0xa02b1741#32, 0x7cbad9a2#32, 0x2180036f#32,
  0x50d99c08#32, 0xcb3f4861#32, 0xc26bd765#32, 0x64a3f6ab#32, 0x80342676#32, 0x25a75e7b#32, 0xe4e6d1fc#32, 0x20c710e6#32,
  0xcdf0b680#32, 0x17844d3b#32, 0x31eef84d#32, 0x7e0824e4#32, 0x2ccb49eb#32, 0x846a3bae#32, 0x8ff77888#32, 0xee5d60f6#32,
  0x7af75673#32, 0x2fdd5cdb#32, 0xa11631c1#32, 0x30f66f43#32, 0xb3faec54#32, 0x157fd7fa#32, 0xef8579cc#32, 0xd152de58#32,
  0xdb2ffd5e#32, 0x8f32ce19#32, 0x306af97a#32, 0x02f03ef8#32, 0x99319ad5#32, 0xc242fa0f#32, 0xa7e3ebb0#32, 0xc68e4906#32,
  0xb8da230c#32, 0x80823028#32, 0xdcdef3c8#32, 0xd35fb171#32, 0x088a1bc8#32, 0xbec0c560#32, 0x61a3c9e8#32, 0xbca8f54d#32,
  0xc72feffa#32, 0x22822e99#32, 0x82c570b4#32, 0xd8d94e89#32, 0x8b1c34bc#32, 0x301e16e6#32, 0x273be979#32, 0xb0ffeaa6#32,
  0x61d9b8c6#32, 0x00b24869#32, 0xb7ffce3f#32, 0x08dc283b#32, 0x43daf65a#32, 0xf7e19798#32, 0x7619b72f#32, 0x8f1c9ba4#32,
  0xdc8637a0#32, 0x16a7d3b1#32, 0x9fc393b7#32, 0xa7136eeb#32, 0xc6bcc63e#32, 0x1a513742#32, 0xef6828bc#32, 0x520365d6#32,
  0x2d6a77ab#32, 0x3527ed4b#32, 0x821fd216#32, 0x095c6e2e#32, 0xdb92f2fb#32, 0x5eea29cb#32, 0x145892f5#32, 0x91584f7f#32,
  0x5483697b#32, 0x2667a8cc#32, 0x85196048#32, 0x8c4bacea#32, 0x833860d4#32, 0x0d23e0f9#32, 0x6c387e8a#32, 0x0ae6d249#32,
  0xb284600c#32, 0xd835731d#32, 0xdcb1c647#32, 0xac4c56ea#32, 0x3ebd81b3#32, 0x230eabb0#32, 0x6438bc87#32, 0xf0b5b1fa#32,
  0x8f5ea2b3#32, 0xfc184642#32, 0x0a036b7a#32, 0x4fb089bd#32, 0x649da589#32, 0xa345415e#32, 0x5c038323#32, 0x3e5d3bb9#32,
  0x43d79572#32, 0x7e6dd07c#32, 0x06dfdf1e#32, 0x6c6cc4ef#32, 0x7160a539#32, 0x73bfbe70#32, 0x83877605#32, 0x4523ecf1#32]

/-- `consts::S3` of /repo/cast6/src/consts.rs -/
def S3 : Array (BitVec 32) := #[
  0x8defc240#32, 0x25fa5d9f#32, 0xeb903dbf#32, 0xe810c907#32, 0x47607fff#32, 0x369fe44b#32, 0x8c1fc644#32, 0xaececa90#32,
  0xbeb1f9bf#32, 0xeefbcaea#32, 0xe8cf1950#32, 0x51df07ae#32, 0x920e8806#32, 0xf0ad0548#32, 0xe13c8d83#32, 0x927010d5#32,
  0x11107d9f#32, 0x07647db9#32, 0xb2e3e4d4#32, 0x3d4f285e#32, 0xb9afa820#32, 0xfade82e0#32, 0xa067268b#32, 0x8272792e#32,
  0x553fb2c0#32, 0x489ae22b#32, 0xd4ef9794#32, 0x125e3fbc#32, 0x21fffcee#32, 0x825b1bfd#32, 0x9255c5ed#32, 0x1257a240#32,
  0x4e1a8302#32, 0xbae07fff#32, 0x528246e7#32, 0x8e57140e#32, 0x3373f7bf#32, 0x8c9f8188#32, 0xa6fc4ee8#32, 0xc982b5a5#32,
  0xa8c01db7#32, 0x579fc264#32, 0x67094f31#32, 0xf2bd3f5f#32, 0x40fff7c1#32, 0x1fb78dfc#32, 0x8e6bd2c1#32, 0x437be59b#32,
  0x99b03dbf#32, 0xb5dbc64b#32, 0x638dc0e6#32, 0x55819d99#32, 0xa197c81c#32, 0x4a012d6e#32, 0xc5884a28#32, 0xccc36f71#32,
  0xb843c213#32, 0x6c0743f1#32, 0x8309893c#32, 0x0feddd5f#32, 0x2f7fe850#32, 0xd7c07f7e#32, 0x02507fbf#32, 0x5afb9a04#32,
  0xa747d2d0#32, 0x1651192e#32, 0xaf70bf3e#32, 0x58c31380#32, 0x5f98302e#32, 0x727cc3c4#32, 0x0a0fb402#32, 0x0f7fef82#32,
  0x8c96fdad#32, 0x5d2c2aae#32, 0x8ee99a49#32, 0x50da88b8#32, 0x8427f4a0#32, 0x1eac5790#32, 0x796fb449#32, 0x8252dc15#32,
  0xefbd7d9b#32, 0xa672597d#32, 0xada840d8#32, 0x45f54504#32, 0xfa5d7403#32, 0xe83ec305#32, 0x4f91751a#32, 0x925669c2#32,
  0x23efe941#32, 0xa903f12e#32, 0x60270df2#32, 0x0276e4b6#32, 0x94fd6574#32, 0x927985b2#32, 0x8276dbcb#32, 0x02778176#32,
  0xf8af918d#32, 0x4e48f79e#32, 0x8f616ddf#32, 0xe29d840e#32, 0x842f7d83#32, 0x340ce5c8#32, 0x96bbb682#32, 0x93b4b148#32,
  0xef303cab#32, 0x984faf28#32, 0x779faf9b#32, 0x92dc560d#32, 0x224d1e20#32, 0x8437aa88#32, 0x7d29dc96#32, 0x2756d3dc#32,
  0x8b907cee#32, 0xb51fd240#32, 0xe7c07ce3#32, 0xe566b4a1#32, 0xc3e9615e#32, 0x3cf8209d#32, 0x6094d1e3#32, 0xcd9ca341#32,
  0x5c76460e#32, 0x00ea983b#32, 0xd4d67881#32, 0xfd47572c#32, 0xf76cedd9#32, 0xbda8229c#32, 0x127dadaa#32, 0x438a074e#32,
  0x1f97c090#32, 0x081bdb8a#32, 0x93a07ebe#32, 0xb938ca15#32, 0x97b03cff#32, 0x3dc2c0f8#32, 0x8d1ab2ec#32, 0x64380e51#32,
  0x68cc7bfb#32, 0xd90f2788#32, 0x12490181#32, 0x5de5ffd4#32, 0xdd7ef86a#32, 0x76a2e214#32, 0xb9a40368#32, 0x925d958f#32,
  0x4b39fffa#32, 0xba39aee9#32, 0xa4ffd30b#32, 0xfaf7933b#32, 0x6d498623#32, 0x193cbcfa#32, 0x27627545#32, 0x825cf47a#32,
  0x61bd8ba0#32, 0xd11e42d1#32, 0xcead04f4#32, 0x127ea392#32, 0x10428db7#32, 0x8272a972#32, 0x9270c4a8#32, 0x127de50b#32,
  0x285ba1c8#32, 0x3c62f44f#32, 0x35c0eaa5#32, 0xe805d231#32, 0x428929fb#32, 0xb4fcdf82#32, 0x4fb66a53#32, 0x0e7dc15b#32,
  0x1f081fab#32, 0x108618ae#32, 0xfcfd086d#32, 0xf9ff2889#32, 0x694bcc11#32, 0x236a5cae#32, 0x12deca4d#32, 0x2c3f8cc5#32,
  0xd2d02dfe#32, 0xf8ef5896#32, 0xe4cf52da#32, 0x95155b67#32, 0x494a488c#32, 0xb9b6a80c#32, 0x5c8f82bc#32, 0x89d36b45#32,
  0x3a609437#32, 0xec00c9a9#32, 0x44715253#32, 0x0a874b49#32, 0xd773bc40#32, 0x7c34671c#32, 0x02717ef6#32, 0x4feb5536#32,
  0xa2d02fff#32, 0xd2bf60c4#32, 0xd43f03c0#32, 0x50b4ef6d#32, 0x07478cd1#32, 0x006e1888#32, 0xa2e53f55#32, 0xb9e6d4bc#32,
  0xa2048016#32, 0x97573833#32, 0xd7207d67#32, 0xde0f8f3d#32, 0x72f87b33#32, 0xabcc4f33#32, 0x7688c55d#32, 0x7b00a6b0#32,
  0x947b0001#32, 0x570075d2#32, 0xf9bb88f8#32, 0x8942019e#32, 0x4264a5ff#32, 0x856302e0#32, 0x72dbd92b#32, 0xee971b69#32,
  0x6ea22fde#32, 0x5f08ae2b#32, 0xaf7a616d#32, 0xe5c98767#32, 0xcf1febd2#32, 0x61efc8c2#32, 0xf1ac2571#32, 0xcc8239c2#32,
  0x67214cb8#32, 0xb1e583d1#32, 0xb7dc3e62#32, 0x7f10bdce#32, 0xf90a5c38#32, 0x0ff0443d#32, 0x606e6dc6#32, 0x60543a49#32,
  0x5727c148#32, 0x2be98a1d#32, 0x8ab41738#32, 0x20e1be24#32, 0xaf96da0f#32, 0x68458425#32, 0x99833be5#32, 0x600d457d#32,
  0x282f9350#32, 0x8334b362#32, 0xd91d1120#32, 0x2b6d8da0#32, 0x642b1e31#32, 0x9c305a00#32, 0x52bce688#32, 0x1b03588a#32,
  0xf7baefd5#32, 0x4142ed9c#32, 0xa4315c11#32, 0x83323ec5#32, 0xdfef4636#32, 0xa133c501#32, 0xe9d3531c#32, 0xee353783#32]

/-- `consts::S4` of /repo/cast6/src/consts.rs -/
def S4 : Array (BitVec 32) := #[
  0x9db30420#32, 0x1fb6e9de#32, 0xa7be7bef#32, 0xd273a298#32, 0x4a4f7bdb#32, 0x64ad8c57#32, 0x85510443#32, 0xfa020ed1#32,
  0x7e287aff#32, 0xe60fb663#32, 0x095f35a1#32, 0x79ebf120#32, 0xfd059d43#32, 0x6497b7b1#32, 0xf3641f63#32, 0x241e4adf#32,
  0x28147f5f#32, 0x4fa2b8cd#32, 0xc9430040#32, 0x0cc32220#32, 0xfdd30b30#32, 0xc0a5374f#32, 0x1d2d00d9#32, 0x24147b15#32,
  0xee4d111a#32, 0x0fca5167#32, 0x71ff904c#32, 0x2d195ffe#32, 0x1a05645f#32, 0x0c13fefe#32, 0x081b08ca#32, 0x05170121#32,
  0x80530100#32, 0xe83e5efe#32, 0xac9af4f8#32, 0x7fe72701#32, 0xd2b8ee5f#32, 0x06df4261#32, 0xbb9e9b8a#32, 0x7293ea25#32,
  0xce84ffdf#32, 0xf5718801#32, 0x3dd64b04#32, 0xa26f263b#32, 0x7ed48400#32, 0x547eebe6#32, 0x446d4ca0#32, 0x6cf3d6f5#32,
  0x2649abdf#32, 0xaea0c7f5#32, 0x36338cc1#32, 0x503f7e93#32, 0xd3772061#32, 0x11b638e1#32, 0x72500e03#32, 0xf80eb2bb#32,
  0xabe0502e#32, 0xec8d77de#32, 0x57971e81#32, 0xe14f6746#32, 0xc9335400#32, 0x6920318f#32, 0x081dbb99#32, 0xffc304a5#32,
  0x4d351805#32, 0x7f3d5ce3#32, 0xa6c866c6#32, 0x5d5bcca9#32, 0xdaec6fea#32, 0x9f926f91#32, 0x9f46222f#32, 0x3991467d#32,
  0xa5bf6d8e#32, 0x1143c44f#32, 0x43958302#32, 0xd0214eeb#32, 0x022083b8#32, 0x3fb6180c#32, 0x18f8931e#32, 0x281658e6#32,
  0x26486e3e#32, 0x8bd78a70#32, 0x7477e4c1#32, 0xb506e07c#32, 0xf32d0a25#32, 0x79098b02#32, 0xe4eabb81#32, 0x28123b23#32,
  0x69dead38#32, 0x1574ca16#32, 0xdf871b62#32, 0x211c40b7#32, 0xa51a9ef9#32, 0x0014377b#32, 0x041e8ac8#32, 0x09114003#32,
  0xbd59e4d2#32, 0xe3d156d5#32, 0x4fe876d5#32, 0x2f91a340#32, 0x557be8de#32, 0x00eae4a7#32, 0x0ce5c2ec#32, 0x4db4bba6#32,
  0xe756bdff#32, 0xdd3369ac#32, 0xec17b035#32, 0x06572327#32, 0x99afc8b0#32, 0x56c8c391#32, 0x6b65811c#32, 0x5e146119#32,
  0x6e85cb75#32, 0xbe07c002#32, 0xc2325577#32, 0x893ff4ec#32, 0x5bbfc92d#32, 0xd0ec3b25#32, 0xb7801ab7#32, 0x8d6d3b24#32,
  0x20c763ef#32, 0xc366a5fc#32, 0x9c382880#32, 0x0ace3205#32, 0xaac9548a#32, 0xeca1d7c7#32, 0x041afa32#32, 0x1d16625a#32,
  0x6701902c#32, 0x9b757a54#32, 0x31d477f7#32, 0x9126b031#32, 0x36cc6fdb#32, 0xc70b8b46#32, 0xd9e66a48#32, 0x56e55a79#32,
  0x026a4ceb#32, 0x52437eff#32, 0x2f8f76b4#32, 0x0df980a5#32, 0x8674cde3#32, 0xedda04eb#32, 0x17a9be04#32, 0x2c18f4df#32,
  0xb7747f9d#32, 0xab2af7b4#32, 0xefc34d20#32, 0x2e096b7c#32, 0x1741a254#32, 0xe5b6a035#32, 0x213d42f6#32, 0x2c1c7c26#32,
  0x61c2f50f#32, 0x6552daf9#32, 0xd2c231f8#32, 0x25130f69#32, 0xd8167fa2#32, 0x0418f2c8#32, 0x001a96a6#32, 0x0d1526ab#32,
  0x63315c21#32, 0x5e0a72ec#32, 0x49bafefd#32, 0x187908d9#32, 0x8d0dbd86#32, 0x311170a7#32, 0x3e9b640c#32, 0xcc3e10d7#32,
  0xd5cad3b6#32, 0x0caec388#32, 0xf73001e1#32, 0x6c728aff#32, 0x71eae2a1#32, 0x1f9af36e#32, 0xcfcbd12f#32, 0xc1de8417#32,
  0xac07be6b#32, 0xcb44a1d8#32, 0x8b9b0f56#32, 0x013988c3#32, 0xb1c52fca#32, 0xb4be31cd#32, 0xd8782806#32, 0x12a3a4e2#32,
  0x6f7de532#32, 0x58fd7eb6#32, 0xd01ee900#32, 0x24adffc2#32, 0xf4990fc5#32, 0x9711aac5#32, 0x001d7b95#32, 0x82e5e7d2#32,
  0x109873f6#32, 0x00613096#32, 0xc32d9521#32, 0xada121ff#32, 0x29908415#32, 0x7fbb977f#32, 0xaf9eb3db#32, 0x29c9ed2a#32,
  0x5ce2a465#32, 0xa730f32c#32, 0xd0aa3fe8#32, 0x8a5cc091#32, 0xd49e2ce7#32, 0x0ce454a9#32, 0xd60acd86#32, 0x015f1919#32,
  0x77079103#32, 0xdea03af6#32, 0x78a8565e#32, 0xdee356df#32, 0x21f05cbe#32, 0x8b75e387#32, 0xb3c50651#32, 0xb8a5c3ef#32,
  0xd8eeb6d2#32, 0xe523be77#32, 0xc2154529#32, 0x2f69efdf#32, 0xafe67afb#32, 0xf470c4b2#32, 0xf3e0eb5b#32, 0xd6cc9876#32,
  0x39e4460c#32, 0x1fda8538#32, 0x1987832f#32, 0xca007367#32, 0xa99144f8#32, 0x296b299e#32, 0x492fc295#32, 0x9266beab#32,
  0xb5676e69#32, 0x9bd3ddda#32, 0xdf7e052f#32, 0xdb25701c#32, 0x1b5e51ee#32, 0xf65324e6#32, 0x6afce36c#32, 0x0316cc04#32,
  0x8644213e#32, 0xb7dc59d0#32, 0x7965291f#32, 0xccd6fd43#32, 0x41823979#32, 0x932bcdf6#32, 0xb657c34d#32, 0x4edfd282#32,
  0x7ae5290c#32, 0x3cb9536b#32, 0x851e20fe#32, 0x9833557e#32, 0x13ecf0b0#32, 0xd3ffb372#32, 0x3f85c5c1#32, 0x0aef7ed2#32]

/-- `consts::TM` of /repo/cast6/src/consts.rs -/
def TM : Array (BitVec 32) := #[
  0x5a827999#32, 0xc95c653a#32, 0x383650db#32, 0xa7103c7c#32, 0x15ea281d#32, 0x84c413be#32, 0xf39dff5f#32, 0x6277eb00#32,
  0xd151d6a1#32, 0x402bc242#32, 0xaf05ade3#32, 0x1ddf9984#32, 0x8cb98525#32, 0xfb9370c6#32, 0x6a6d5c67#32, 0xd9474808#32,
  0x482133a9#32, 0xb6fb1f4a#32, 0x25d50aeb#32, 0x94aef68c#32, 0x0388e22d#32, 0x7262cdce#32, 0xe13cb96f#32, 0x5016a510#32,
  0xbef090b1#32, 0x2dca7c52#32, 0x9ca467f3#32, 0x0b7e5394#32, 0x7a583f35#32, 0xe9322ad6#32, 0x580c1677#32, 0xc6e60218#32,
  0x35bfedb9#32, 0xa499d95a#32, 0x1373c4fb#32, 0x824db09c#32, 0xf1279c3d#32, 0x600187de#32, 0xcedb737f#32, 0x3db55f20#32,
  0xac8f4ac1#32, 0x1b693662#32, 0x8a432203#32, 0xf91d0da4#32, 0x67f6f945#32, 0xd6d0e4e6#32, 0x45aad087#32, 0xb484bc28#32,
  0x235ea7c9#32, 0x9238936a#32, 0x01127f0b#32, 0x6fec6aac#32, 0xdec6564d#32, 0x4da041ee#32, 0xbc7a2d8f#32, 0x2b541930#32,
  0x9a2e04d1#32, 0x0907f072#32, 0x77e1dc13#32, 0xe6bbc7b4#32, 0x5595b355#32, 0xc46f9ef6#32, 0x33498a97#32, 0xa2237638#32,
  0x10fd61d9#32, 0x7fd74d7a#32, 0xeeb1391b#32, 0x5d8b24bc#32, 0xcc65105d#32, 0x3b3efbfe#32, 0xaa18e79f#32, 0x18f2d340#32,
  0x87ccbee1#32, 0xf6a6aa82#32, 0x65809623#32, 0xd45a81c4#32, 0x43346d65#32, 0xb20e5906#32, 0x20e844a7#32, 0x8fc23048#32,
  0xfe9c1be9#32, 0x6d76078a#32, 0xdc4ff32b#32, 0x4b29decc#32, 0xba03ca6d#32, 0x28ddb60e#32, 0x97b7a1af#32, 0x06918d50#32,
  0x756b78f1#32, 0xe4456492#32, 0x531f5033#32, 0xc1f93bd4#32, 0x30d32775#32, 0x9fad1316#32, 0x0e86feb7#32, 0x7d60ea58#32,
  0xec3ad5f9#32, 0x5b14c19a#32, 0xc9eead3b#32, 0x38c898dc#32, 0xa7a2847d#32, 0x167c701e#32, 0x85565bbf#32, 0xf4304760#32,
  0x630a3301#32, 0xd1e41ea2#32, 0x40be0a43#32, 0xaf97f5e4#32, 0x1e71e185#32, 0x8d4bcd26#32, 0xfc25b8c7#32, 0x6affa468#32,
  0xd9d99009#32, 0x48b37baa#32, 0xb78d674b#32, 0x266752ec#32, 0x95413e8d#32, 0x041b2a2e#32, 0x72f515cf#32, 0xe1cf0170#32,
  0x50a8ed11#32, 0xbf82d8b2#32, 0x2e5cc453#32, 0x9d36aff4#32, 0x0c109b95#32, 0x7aea8736#32, 0xe9c472d7#32, 0x589e5e78#32,
  0xc7784a19#32, 0x365235ba#32, 0xa52c215b#32, 0x14060cfc#32, 0x82dff89d#32, 0xf1b9e43e#32, 0x6093cfdf#32, 0xcf6dbb80#32,
  0x3e47a721#32, 0xad2192c2#32, 0x1bfb7e63#32, 0x8ad56a04#32, 0xf9af55a5#32, 0x68894146#32, 0xd7632ce7#32, 0x463d1888#32,
  0xb5170429#32, 0x23f0efca#32, 0x92cadb6b#32, 0x01a4c70c#32, 0x707eb2ad#32, 0xdf589e4e#32, 0x4e3289ef#32, 0xbd0c7590#32,
  0x2be66131#32, 0x9ac04cd2#32, 0x099a3873#32, 0x78742414#32, 0xe74e0fb5#32, 0x5627fb56#32, 0xc501e6f7#32, 0x33dbd298#32,
  0xa2b5be39#32, 0x118fa9da#32, 0x8069957b#32, 0xef43811c#32, 0x5e1d6cbd#32, 0xccf7585e#32, 0x3bd143ff#32, 0xaaab2fa0#32,
  0x19851b41#32, 0x885f06e2#32, 0xf738f283#32, 0x6612de24#32, 0xd4ecc9c5#32, 0x43c6b566#32, 0xb2a0a107#32, 0x217a8ca8#32,
  0x90547849#32, 0xff2e63ea#32, 0x6e084f8b#32, 0xdce23b2c#32, 0x4bbc26cd#32, 0xba96126e#32, 0x296ffe0f#32, 0x9849e9b0#32,
  0x0723d551#32, 0x75fdc0f2#32, 0xe4d7ac93#32, 0x53b19834#32, 0xc28b83d5#32, 0x31656f76#32, 0xa03f5b17#32, 0x0f1946b8#32]

/-- `consts::TR` of /repo/cast6/src/consts.rs -/
def TR : Array (BitVec 8) := #[
  0x13#8, 0x04#8, 0x15#8, 0x06#8, 0x17#8, 0x08#8, 0x19#8, 0x0a#8, 0x1b#8, 0x0c#8, 0x1d#8, 0x0e#8, 0x1f#8, 0x10#8, 0x01#8, 0x12#8,
  0x03#8, 0x14#8, 0x05#8, 0x16#8, 0x07#8, 0x18#8, 0x09#8, 0x1a#8, 0x0b#8, 0x1c#8, 0x0d#8, 0x1e#8, 0x0f#8, 0x00#8, 0x11#8, 0x02#8]
/-- table look-up `S[x as usize]` (all call sites have `x < 256`) -/
def sb (t : Array (BitVec 32)) (x : BitVec 32) : BitVec 32 := t.getD x.toNat 0#32

/-- `f1!(D, m, r)` -/
def f1 (d m : BitVec 32) (r : BitVec 8) : BitVec 32 :=
  let i := (m + d).rotateLeft r.toNat
  ((sb S1 (i >>> 24) ^^^ sb S2 ((i >>> 16) &&& 0xff#32)) - sb S3 ((i >>> 8) &&& 0xff#32)) +
    sb S4 (i &&& 0xff#32)

/-- `f2!(D, m, r)` -/
def f2 (d m : BitVec 32) (r : BitVec 8) : BitVec 32 :=
  let i := (m ^^^ d).rotateLeft r.toNat
  ((sb S1 (i >>> 24) - sb S2 ((i >>> 16) &&& 0xff#32)) + sb S3 ((i >>> 8) &&& 0xff#32)) ^^^
    sb S4 (i &&& 0xff#32)

/-- `f3!(D, m, r)` -/
def f3 (d m : BitVec 32) (r : BitVec 8) : BitVec 32 :=
  let i := (m - d).rotateLeft r.toNat
  ((sb S1 (i >>> 24) + sb S2 ((i >>> 16) &&& 0xff#32)) ^^^ sb S3 ((i >>> 8) &&& 0xff#32)) -
    sb S4 (i &&& 0xff#32)

/-- `beta: [u32; 4]` -/
structure Quad where
  a : BitVec 32
  b : BitVec 32
  c : BitVec 32
  d : BitVec 32
  deriving DecidableEq, Repr

/-- `kappa: [u32; 8]` -/
structure Kappa where
  a : BitVec 32
  b : BitVec 32
  c : BitVec 32
  d : BitVec 32
  e : BitVec 32
  f : BitVec 32
  g : BitVec 32
  h : BitVec 32
  deriving DecidableEq, Repr

/-- one row `masking[i] : [u32; 4]` -/
structure Km where
  m0 : BitVec 32
  m1 : BitVec 32
  m2 : BitVec 32
  m3 : BitVec 32
  deriving DecidableEq, Repr

/-- one row `rotate[i] : [u8; 4]` -/
structure Kr where
  r0 : BitVec 8
  r1 : BitVec 8
  r2 : BitVec 8
  r3 : BitVec 8
  deriving DecidableEq, Repr

def Km.zero : Km := ⟨0#32, 0#32, 0#32, 0#32⟩
def Kr.zero : Kr := ⟨0#8, 0#8, 0#8, 0#8⟩

/-- `forward_quad(beta, m, r)` -/
def forwardQuad (beta : Quad) (m : Km) (r : Kr) : Quad :=
  let c := beta.c ^^^ f1 beta.d m.m0 r.r0
  let b := beta.b ^^^ f2 c m.m1 r.r1
  let a := beta.a ^^^ f3 b m.m2 r.r2
  let d := beta.d ^^^ f1 a m.m3 r.r3
  ⟨a, b, c, d⟩

/-- `reverse_quad(beta, m, r)` -/
def reverseQuad (beta : Quad) (m : Km) (r : Kr) : Quad :=
  let d := beta.d ^^^ f1 beta.a m.m3 r.r3
  let a := beta.a ^^^ f3 beta.b m.m2 r.r2
  let b := beta.b ^^^ f2 beta.c m.m1 r.r1
  let c := beta.c ^^^ f1 d m.m0 r.r0
  ⟨a, b, c, d⟩

/-- `forward_octave(kappa, m, r)`; `m`, `r` are the 8-element slices -/
def forwardOctave (k : Kappa) (m : List (BitVec 32)) (r : List (BitVec 8)) : Kappa :=
  let g := k.g ^^^ f1 k.h (m.getD 0 0#32) (r.getD 0 0#8)
  let f := k.f ^^^ f2 g (m.getD 1 0#32) (r.getD 1 0#8)
  let e := k.e ^^^ f3 f (m.getD 2 0#32) (r.getD 2 0#8)
  let d := k.d ^^^ f1 e (m.getD 3 0#32) (r.getD 3 0#8)
  let c := k.c ^^^ f2 d (m.getD 4 0#32) (r.getD 4 0#8)
  let b := k.b ^^^ f3 c (m.getD 5 0#32) (r.getD 5 0#8)
  let a := k.a ^^^ f1 b (m.getD 6 0#32) (r.getD 6 0#8)
  let h := k.h ^^^ f2 a (m.getD 7 0#32) (r.getD 7 0#8)
  ⟨a, b, c, d, e, f, g, h⟩

/-- `&T[start..][..8]` -/
def slice8 {α : Type} (t : Array α) (start : Nat) : List α := (t.toList.drop start).take 8

/-- `struct Cast6 { masking: [[u32; 4]; 12], rotate: [[u8; 4]; 12] }` -/
structure Cast6 where
  masking : List Km
  rotate : List Kr

def Cast6.km (c : Cast6) (i : Nat) : Km := c.masking.getD i Km.zero
def Cast6.kr (c : Cast6) (i : Nat) : Kr := c.rotate.getD i Kr.zero

/-- state of the `for i in 0..12` loop of `key_schedule` -/
structure KsState where
  kappa : Kappa
  masking : List Km
  rotate : List Kr

/-- body of `for i in 0..12` -/
def ksStep (s : KsState) (i : Nat) : KsState :=
  let mIdx := 16 * i
  let rIdx := 16 * (i % 2)
  let kappa := forwardOctave s.kappa (slice8 TM mIdx) (slice8 TR rIdx)
  let kappa := forwardOctave kappa (slice8 TM (mIdx + 8)) (slice8 TR (rIdx + 8))
  { kappa := kappa
    masking := s.masking.set i ⟨kappa.h, kappa.f, kappa.d, kappa.b⟩
    rotate := s.rotate.set i ⟨(kappa.a &&& 0x1f#32).setWidth 8, (kappa.c &&& 0x1f#32).setWidth 8,
                              (kappa.e &&& 0x1f#32).setWidth 8, (kappa.g &&& 0x1f#32).setWidth 8⟩ }

/-- `u32::from_be_bytes(src[4*i .. 4*i+4])` (the `i`-th item of `src.chunks_exact(4)` in `to_u32s`) -/
def beWord (src : Bytes) (i : Nat) : BitVec 32 :=
  ((src.getD (4 * i) 0#8).setWidth 32 <<< 24) ||| ((src.getD (4 * i + 1) 0#8).setWidth 32 <<< 16) |||
  ((src.getD (4 * i + 2) 0#8).setWidth 32 <<< 8) ||| (src.getD (4 * i + 3) 0#8).setWidth 32

/-- `to_u32s::<8>(key)` of the 32-byte padded key (big-endian words) -/
def kappaOfBytes (k : Bytes) : Kappa :=
  ⟨beWord k 0, beWord k 1, beWord k 2, beWord k 3, beWord k 4, beWord k 5, beWord k 6, beWord k 7⟩

/-- `key_schedule(&mut self, key: &[u8; 32])` on a struct initialised with zeros -/
def keyScheduleKappa (kappa : Kappa) : Cast6 :=
  let s := (List.range 12).foldl ksStep ⟨kappa, List.replicate 12 Km.zero, List.replicate 12 Kr.zero⟩
  ⟨s.masking, s.rotate⟩

/-- `padded_key[..key.len()].copy_from_slice(key)` on `[0u8; 32]` -/
def padKey (key : Bytes) : Bytes := key ++ List.replicate (32 - key.length) 0#8

/-- `new_from_slice` after the length guard -/
def keySchedule (key : Bytes) : Cast6 := keyScheduleKappa (kappaOfBytes (padKey key))

/-- `new_from_slice`: `![16, 20, 24, 28, 32].contains(&key.len())` is rejected -/
def accepts (n : Nat) : Bool := [16, 20, 24, 28, 32].contains n

/-- `to_u32s::<4>(block)` -/
def quadOfBits (b : BitVec 128) : Quad :=
  ⟨b.extractLsb' 96 32, b.extractLsb' 64 32, b.extractLsb' 32 32, b.extractLsb' 0 32⟩

/-- `to_u8s::<16>(&beta)` -/
def bitsOfQuad (q : Quad) : BitVec 128 := q.a ++ q.b ++ q.c ++ q.d

/-- `encrypt_block` on words: six forward quad-rounds, six reverse quad-rounds -/
def encryptQuad (c : Cast6) (beta : Quad) : Quad :=
  let beta := forwardQuad beta (c.km 0) (c.kr 0)
  let beta := forwardQuad beta (c.km 1) (c.kr 1)
  let beta := forwardQuad beta (c.km 2) (c.kr 2)
  let beta := forwardQuad beta (c.km 3) (c.kr 3)
  let beta := forwardQuad beta (c.km 4) (c.kr 4)
  let beta := forwardQuad beta (c.km 5) (c.kr 5)
  let beta := reverseQuad beta (c.km 6) (c.kr 6)
  let beta := reverseQuad beta (c.km 7) (c.kr 7)
  let beta := reverseQuad beta (c.km 8) (c.kr 8)
  let beta := reverseQuad beta (c.km 9) (c.kr 9)
  let beta := reverseQuad beta (c.km 10) (c.kr 10)
  let beta := reverseQuad beta (c.km 11) (c.kr 11)
  beta

/-- `decrypt_block` on words -/
def decryptQuad (c : Cast6) (beta : Quad) : Quad :=
  let beta := forwardQuad beta (c.km 11) (c.kr 11)
  let beta := forwardQuad beta (c.km 10) (c.kr 10)
  let beta := forwardQuad beta (c.km 9) (c.kr 9)
  let beta := forwardQuad beta (c.km 8) (c.kr 8)
  let beta := forwardQuad beta (c.km 7) (c.kr 7)
  let beta := forwardQuad beta (c.km 6) (c.kr 6)
  let beta := reverseQuad beta (c.km 5) (c.kr 5)
  let beta := reverseQuad beta (c.km 4) (c.kr 4)
  let beta := reverseQuad beta (c.km 3) (c.kr 3)
  let beta := reverseQuad beta (c.km 2) (c.kr 2)
  let beta := reverseQuad beta (c.km 1) (c.kr 1)
  let beta := reverseQuad beta (c.km 0) (c.kr 0)
  beta

def encrypt (c : Cast6) (blk : BitVec 128) : BitVec 128 := bitsOfQuad (encryptQuad c (quadOfBits blk))
def decrypt (c : Cast6) (blk : BitVec 128) : BitVec 128 := bitsOfQuad (decryptQuad c (quadOfBits blk))

end BC.Cast6
