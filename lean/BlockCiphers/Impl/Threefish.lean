import BlockCiphers.Prelude.Bytes
/-
Model of /repo/threefish/src/{lib.rs,consts.rs} (Threefish-256, Threefish-512, Threefish-1024).

ONE model, generic in the parameters of the `impl_threefish!` macro
(`$rounds`, `$n_w`, `$rot`, `$perm`); the three instantiations are `tf256`, `tf512`, `tf1024`.
The model mirrors the Rust as written:

* `new_with_tweak_u64`: `k[n_w] = fold(C240, xor)`, `t = [t0, t1, t0 ^ t1]`, the subkey table
  `sk[s][i]` for `s = 0 ..= rounds/4` with the three `if i == n_w - 3 / - 2 / - 1` arms;
* `encrypt_block_u64`: `block_prev = block.clone()`, then for every `j` the pair is read from
  `block_prev`, the subkey is added when `d % 4 == 0`, `mix`, and the results are **scattered**
  `block[perm[2j]] = f0; block[perm[2j+1]] = f1` (the table is applied on the *write* side);
* `decrypt_block_u64`: subtract the last subkey, then for `d` downwards **gather**
  `f = (block_prev[perm[2j]], block_prev[perm[2j+1]])`, `inv_mix`, subtract, write to `2j, 2j+1`;
* byte API (`new_with_tweak`, `encrypt_block`, `decrypt_block`): little-endian words around the u64 API;
* `KeyInit::new key = new_with_tweak(key, &Default::default())` (16 zero bytes).

Word vectors are `Vector (BitVec 64) n`.  All indexing in the Rust is plain `[]` on fixed-size arrays:

-- C20-SITE: new_with_tweak_u64: k[(s + i) % ($n_w + 1)], t[s % 3], t[(s + 1) % 3], sk[s][i] :
--           indices reduced mod the array length / loop bounds equal to the array lengths.
-- C20-SITE: new_with_tweak_u64: `$n_w - 3`, `s + i`, `s + 1` (plain usize arithmetic) : n_w ≥ 4, s ≤ 20, i < 16.
-- C20-SITE: encrypt/decrypt_block_u64: self.sk[d / 4] : d < rounds, the table has rounds/4 + 1 rows.
-- C20-SITE: encrypt/decrypt_block_u64: block_prev[2*j], [2*j+1], sk[..][2*j(+1)] : j < n_w/2.
-- C20-SITE: encrypt/decrypt_block_u64: $rot[d % 8][j] : 8 rows of n_w/2 entries (`rot_shape` in Proofs/ThreefishSpec.lean).
-- C20-SITE: encrypt/decrypt_block_u64: block[$perm[k] as usize] : every entry of P256/P512/P1024 is < n_w
--           (`Valid.perm_lt`, proved by `decide` for the three tables in Proofs/Threefish.lean).
-- C20-SITE: new_with_tweak / encrypt_block: `chunk.try_into().unwrap()` on `chunks_exact(8)` : always 8 bytes.
`rd` below is the total read (`0` out of range); the proofs only use it in range.
-/
namespace BC.Threefish

/-! ### consts.rs -/

/-- `C240` -/
def C240 : BitVec 64 := 0x1BD11BDAA9FC1A22#64

/-- `R256: [[u8; 2]; 8]` -/
def R256 : Array (Array (BitVec 8)) := #[
  #[14, 16], #[52, 57], #[23, 40], #[5, 37], #[25, 33], #[46, 12], #[58, 22], #[32, 32]]

/-- `R512: [[u8; 4]; 8]` -/
def R512 : Array (Array (BitVec 8)) := #[
  #[46, 36, 19, 37], #[33, 27, 14, 42], #[17, 49, 36, 39], #[44, 9, 54, 56],
  #[39, 30, 34, 24], #[13, 50, 10, 17], #[25, 29, 39, 43], #[8, 35, 56, 22]]

/-- `R1024: [[u8; 8]; 8]` -/
def R1024 : Array (Array (BitVec 8)) := #[
  #[24, 13, 8, 47, 8, 17, 22, 37], #[38, 19, 10, 55, 49, 18, 23, 52],
  #[33, 4, 51, 13, 34, 41, 59, 17], #[5, 20, 48, 41, 47, 28, 16, 25],
  #[41, 9, 37, 31, 12, 47, 44, 30], #[16, 34, 56, 51, 4, 53, 42, 41],
  #[31, 44, 47, 46, 19, 42, 44, 25], #[9, 48, 35, 52, 23, 31, 37, 20]]

/-- `P256: [u8; 4]` -/
def P256 : Array (BitVec 8) := #[0, 3, 2, 1]
/-- `P512: [u8; 8]` -/
def P512 : Array (BitVec 8) := #[6, 1, 0, 7, 2, 5, 4, 3]
/-- `P1024: [u8; 16]` -/
def P1024 : Array (BitVec 8) := #[0, 15, 2, 11, 6, 13, 4, 9, 14, 1, 8, 5, 10, 3, 12, 7]

/-! ### the macro parameters -/

/-- arguments of `impl_threefish!($name, $rounds, $n_w, $block_size, $rot, $perm, $doc_name)` -/
structure Params where
  name : String
  rounds : Nat
  nw : Nat
  rot : Array (Array (BitVec 8))
  perm : Array (BitVec 8)

def tf256 : Params := { name := "Threefish256", rounds := 72, nw := 4, rot := R256, perm := P256 }
def tf512 : Params := { name := "Threefish512", rounds := 72, nw := 8, rot := R512, perm := P512 }
def tf1024 : Params := { name := "Threefish1024", rounds := 80, nw := 16, rot := R1024, perm := P1024 }

/-- `$rot[d][j]` -/
def Params.rotAt (p : Params) (d j : Nat) : BitVec 8 := (p.rot.getD d #[]).getD j 0#8
/-- `$perm[k] as usize` -/
def Params.permAt (p : Params) (k : Nat) : Nat := (p.perm.getD k 0#8).toNat

/-! ### words -/

/-- total read of a word array (`0` when out of range; never out of range in this model) -/
def rd {n : Nat} (v : Vector (BitVec 64) n) (i : Nat) : BitVec 64 := if h : i < n then v[i] else 0#64

/-- `fn mix(r: u8, x: (u64, u64)) -> (u64, u64)` -/
def mix (r : BitVec 8) (x0 x1 : BitVec 64) : BitVec 64 × BitVec 64 :=
  let y0 := x0 + x1
  let y1 := x1.rotateLeft r.toNat ^^^ y0
  (y0, y1)

/-- `fn inv_mix(r: u8, y: (u64, u64)) -> (u64, u64)` -/
def invMix (r : BitVec 8) (y0 y1 : BitVec 64) : BitVec 64 × BitVec 64 :=
  let x1 := (y0 ^^^ y1).rotateRight r.toNat
  let x0 := y0 - x1
  (x0, x1)

/-! ### key schedule -/

/-- the struct `$name { sk: [[u64; $n_w]; $rounds / 4 + 1] }` -/
structure Cipher (p : Params) where
  sk : Vector (Vector (BitVec 64) p.nw) (p.rounds / 4 + 1)

/-- `self.sk[s]` -/
def Cipher.row {p : Params} (c : Cipher p) (s : Nat) : Vector (BitVec 64) p.nw :=
  if h : s < p.rounds / 4 + 1 then c.sk[s] else Vector.replicate p.nw 0#64

/-- `k`: the key words followed by `key.iter().fold(C240, BitXor::bitxor)` -/
def extKey {n : Nat} (key : Vector (BitVec 64) n) : Vector (BitVec 64) (n + 1) :=
  Vector.ofFn (fun i : Fin (n + 1) => if i.val < n then rd key i.val else key.foldl (· ^^^ ·) C240)

/-- `t = [tweak[0], tweak[1], tweak[0] ^ tweak[1]]` -/
def extTweak (t0 t1 : BitVec 64) : Vector (BitVec 64) 3 := #v[t0, t1, t0 ^^^ t1]

/-- the body of the inner loop of `new_with_tweak_u64`: the final value of `sk[s][i]` -/
def subkeyWord (nw : Nat) (k : Vector (BitVec 64) (nw + 1)) (t : Vector (BitVec 64) 3) (s i : Nat) :
    BitVec 64 :=
  let base := rd k ((s + i) % (nw + 1))
  if i = nw - 3 then base + rd t (s % 3)
  else if i = nw - 2 then base + rd t ((s + 1) % 3)
  else if i = nw - 1 then base + BitVec.ofNat 64 s
  else base

/-- `pub fn new_with_tweak_u64(key: &[u64; $n_w], tweak: &[u64; 2]) -> $name` -/
def newWithTweakU64 (p : Params) (key : Vector (BitVec 64) p.nw) (t0 t1 : BitVec 64) : Cipher p :=
  let k := extKey key
  let t := extTweak t0 t1
  { sk := Vector.ofFn (fun s : Fin (p.rounds / 4 + 1) =>
      Vector.ofFn (fun i : Fin p.nw => subkeyWord p.nw k t s.val i.val)) }

/-! ### the u64 API -/

/-- one iteration `d` of the outer loop of `encrypt_block_u64` (the inner `for j` loop writes in place
into `block`, reading from `block_prev`) -/
def encRound {p : Params} (c : Cipher p) (d : Nat) (block : Vector (BitVec 64) p.nw) :
    Vector (BitVec 64) p.nw :=
  let blockPrev := block
  (List.range (p.nw / 2)).foldl (fun blk j =>
    let v0 := rd blockPrev (2 * j)
    let v1 := rd blockPrev (2 * j + 1)
    let e0 := if d % 4 = 0 then v0 + rd (c.row (d / 4)) (2 * j) else v0
    let e1 := if d % 4 = 0 then v1 + rd (c.row (d / 4)) (2 * j + 1) else v1
    let r := p.rotAt (d % 8) j
    let f := mix r e0 e1
    let pi0 := p.permAt (2 * j)
    let pi1 := p.permAt (2 * j + 1)
    (blk.setIfInBounds pi0 f.1).setIfInBounds pi1 f.2) block

/-- `for (b, s) in block.iter_mut().zip(&self.sk[..]) { *b = b.wrapping_add(*s) }` -/
def addRow {n : Nat} (b s : Vector (BitVec 64) n) : Vector (BitVec 64) n := Vector.zipWith (· + ·) b s
def subRow {n : Nat} (b s : Vector (BitVec 64) n) : Vector (BitVec 64) n := Vector.zipWith (· - ·) b s

/-- `pub fn encrypt_block_u64(&self, block: &mut [u64; $n_w])` -/
def encryptU64 {p : Params} (c : Cipher p) (block : Vector (BitVec 64) p.nw) : Vector (BitVec 64) p.nw :=
  let b := (List.range p.rounds).foldl (fun blk d => encRound c d blk) block
  addRow b (c.row (p.rounds / 4))

/-- one iteration `d` of the outer loop of `decrypt_block_u64` -/
def decRound {p : Params} (c : Cipher p) (d : Nat) (block : Vector (BitVec 64) p.nw) :
    Vector (BitVec 64) p.nw :=
  let blockPrev := block
  (List.range (p.nw / 2)).foldl (fun blk j =>
    let pi0 := p.permAt (2 * j)
    let pi1 := p.permAt (2 * j + 1)
    let f0 := rd blockPrev pi0
    let f1 := rd blockPrev pi1
    let r := p.rotAt (d % 8) j
    let e := invMix r f0 f1
    if d % 4 = 0 then
      (blk.setIfInBounds (2 * j) (e.1 - rd (c.row (d / 4)) (2 * j))).setIfInBounds (2 * j + 1)
        (e.2 - rd (c.row (d / 4)) (2 * j + 1))
    else
      (blk.setIfInBounds (2 * j) e.1).setIfInBounds (2 * j + 1) e.2) block

/-- `pub fn decrypt_block_u64(&self, block: &mut [u64; $n_w])` (`for d in (0..$rounds).rev()`) -/
def decryptU64 {p : Params} (c : Cipher p) (block : Vector (BitVec 64) p.nw) : Vector (BitVec 64) p.nw :=
  let b := subRow block (c.row (p.rounds / 4))
  (List.range p.rounds).reverse.foldl (fun blk d => decRound c d blk) b

/-! ### the byte API (little-endian words) -/

/-- `u64::from_le_bytes(bs[o .. o+8])` -/
def le64 (bs : Bytes) (o : Nat) : BitVec 64 :=
  (bs.getD o 0#8).setWidth 64 ||| ((bs.getD (o + 1) 0#8).setWidth 64 <<< 8) |||
  ((bs.getD (o + 2) 0#8).setWidth 64 <<< 16) ||| ((bs.getD (o + 3) 0#8).setWidth 64 <<< 24) |||
  ((bs.getD (o + 4) 0#8).setWidth 64 <<< 32) ||| ((bs.getD (o + 5) 0#8).setWidth 64 <<< 40) |||
  ((bs.getD (o + 6) 0#8).setWidth 64 <<< 48) ||| ((bs.getD (o + 7) 0#8).setWidth 64 <<< 56)

/-- `for (vv, chunk) in v.iter_mut().zip(b.chunks_exact(8)) { *vv = u64::from_le_bytes(chunk) }` -/
def loadWords (n : Nat) (bs : Bytes) : Vector (BitVec 64) n :=
  Vector.ofFn (fun i : Fin n => le64 bs (8 * i.val))

/-- byte `k` of the output: `chunk.copy_from_slice(&vv.to_le_bytes())` for every word -/
def storeWords {n : Nat} (v : Vector (BitVec 64) n) : Bytes :=
  (List.range (8 * n)).map (fun k => (rd v (k / 8) >>> (8 * (k % 8))).setWidth 8)

/-- `pub fn new_with_tweak(key: &[u8; $n_w*8], tweak: &[u8; 16]) -> $name` -/
def newWithTweak (p : Params) (key tweak : Bytes) : Cipher p :=
  newWithTweakU64 p (loadWords p.nw key) (le64 tweak 0) (le64 tweak 8)

/-- `&Default::default()` for `[u8; 16]` -/
def zeroTweak : Bytes := List.replicate 16 0#8

/-- `KeyInit::new`: `Self::new_with_tweak(&tmp_key, &Default::default())` -/
def new (p : Params) (key : Bytes) : Cipher p := newWithTweak p key zeroTweak

/-- `BlockCipherEncBackend::encrypt_block` -/
def encryptBlock {p : Params} (c : Cipher p) (block : Bytes) : Bytes :=
  storeWords (encryptU64 c (loadWords p.nw block))

/-- `BlockCipherDecBackend::decrypt_block` -/
def decryptBlock {p : Params} (c : Cipher p) (block : Bytes) : Bytes :=
  storeWords (decryptU64 c (loadWords p.nw block))

/-- `KeyInit::new_from_slice` guard (`KeySize = $block_size` = `8 * $n_w` bytes) -/
def accepts (p : Params) (n : Nat) : Bool := n == 8 * p.nw

end BC.Threefish
