import BlockCiphers.Prelude.Bytes
/-
Model of the `gift-cipher` crate (/repo/gift/src/{lib.rs, primitives.rs, key_schedule.rs, consts.rs}):
GIFT-128 in the *fixsliced* representation (Adomnicai, Najm, Peyrin, "Fixslicing", CHES 2020).
Mirrors the Rust as written: `packing`/`unpacking` (SWAPMOVE networks), the bit-sliced S-box circuits
`sbox`/`inv_sbox` with the role swap of `s0`/`s3`, the shift-based rotation `ror`, the nibble/byte/half-word
rotations, `quintuple_round`/`inv_quintuple_round` (five differently shaped rounds), `precompute_rkeys` with
`rearrange_rkey_*`, `key_update`, `key_{double,triple}_update_*`, and `GIFT_RC` (copied from consts.rs).

Blocks and keys are `BitVec 128` whose most significant byte is byte 0 of the Rust array.

C20-SITE list (plain arithmetic / indexing / shifts that could panic in the dev profile):
-- C20-SITE: ror: `(*x) >> (*y)` and `*x << (32 - (*y))` : `y` is a literal at every call site:
--           16, 24, 8 (quintuple_round, inv_quintuple_round), 24, 16, 20 (key_*_update_{0,2}); so
--           0 < y < 32 and 0 < 32 - y < 32: no shift overflow, no subtraction underflow.  `ror` is `pub(crate)`,
--           never called with 0 or 32 (for which the Rust WOULD panic in the dev profile: `x << 32`).
--           (`Proofs/Gift.lean`: `ror_eq_rotateRight_*`.)
-- C20-SITE: swapmove / swapmovesingle: `>> n`, `<< n` with `n : u8` literal in
--           {1,3,4,6,8,9,12,15,16,18,24} < 32.
-- C20-SITE: byte_ror_*, half_ror_*, nibble_ror_*, key_update, key_*_update_*: literal shift amounts < 32.
-- C20-SITE: u32big / packing: `(x as u32) << 24|16|8` literal amounts; `|` cannot overflow.
-- C20-SITE: encrypt_block: `i * 2` for i ∈ {0,5,…,35} ≤ 70; `self.k[i*2..]` then `rkey[0..=9]`: index ≤ 79 < 80;
--           `GIFT_RC[i..]` then `rconst[0..=4]`: index ≤ 39 < 40.
-- C20-SITE: decrypt_block: `i -= 5` only while `i > 0`, i ∈ {35,30,…,5}: no underflow; same index bounds.
-- C20-SITE: precompute_rkeys: `rkey[i+4], rkey[i+5]` i ≤ 14 → ≤ 19; `rkey[i+7]` i ≤ 10 → ≤ 17;
--           `rkey[i-20] … rkey[i-11]`, `rkey[i+9]` for i ∈ {20,…,70}: 0 ≤ · ≤ 79; `key[12..16]` etc. of a [u8;16].
-/
namespace BC.Gift

/-! ### primitives.rs -/

/-- `u32big(&key[off..off+4])` of a 16-byte array held as `BitVec 128` -/
def u32big (x : BitVec 128) (off : Nat) : BitVec 32 := x.extractLsb' (96 - 8 * off) 32

/-- `ror(x, y) = (x >> y) | (x << (32 - y))`; only called with literal `y ∈ {8,16,20,24}` -/
def ror (x : BitVec 32) (y : Nat) : BitVec 32 := (x >>> y) ||| (x <<< (32 - y))

def byteRor2 (x : BitVec 32) : BitVec 32 := ((x >>> 2) &&& 0x3f3f3f3f#32) ||| ((x &&& 0x03030303#32) <<< 6)
def byteRor4 (x : BitVec 32) : BitVec 32 := ((x >>> 4) &&& 0x0f0f0f0f#32) ||| ((x &&& 0x0f0f0f0f#32) <<< 4)
def byteRor6 (x : BitVec 32) : BitVec 32 := ((x >>> 6) &&& 0x03030303#32) ||| ((x &&& 0x3f3f3f3f#32) <<< 2)
def halfRor4 (x : BitVec 32) : BitVec 32 := ((x >>> 4) &&& 0x0fff0fff#32) ||| ((x &&& 0x000f000f#32) <<< 12)
def halfRor8 (x : BitVec 32) : BitVec 32 := ((x >>> 8) &&& 0x00ff00ff#32) ||| ((x &&& 0x00ff00ff#32) <<< 8)
def halfRor12 (x : BitVec 32) : BitVec 32 := ((x >>> 12) &&& 0x000f000f#32) ||| ((x &&& 0x0fff0fff#32) <<< 4)
def nibbleRor1 (x : BitVec 32) : BitVec 32 := ((x >>> 1) &&& 0x77777777#32) ||| ((x &&& 0x11111111#32) <<< 3)
def nibbleRor2 (x : BitVec 32) : BitVec 32 := ((x >>> 2) &&& 0x33333333#32) ||| ((x &&& 0x33333333#32) <<< 2)
def nibbleRor3 (x : BitVec 32) : BitVec 32 := ((x >>> 3) &&& 0x11111111#32) ||| ((x &&& 0x77777777#32) <<< 1)

/-- `swapmove(&mut a, &mut b, mask, n)`: new `a` -/
def swapmoveA (a b mask : BitVec 32) (n : Nat) : BitVec 32 := a ^^^ (((b ^^^ (a >>> n)) &&& mask) <<< n)
/-- `swapmove(&mut a, &mut b, mask, n)`: new `b` -/
def swapmoveB (a b mask : BitVec 32) (n : Nat) : BitVec 32 := b ^^^ ((b ^^^ (a >>> n)) &&& mask)

/-- `swapmovesingle(&mut a, mask, n)`: `tmp = (a ^ (a >> n)) & mask; a ^= tmp; a ^= tmp << n` -/
def swapmovesingle (a mask : BitVec 32) (n : Nat) : BitVec 32 :=
  (a ^^^ ((a ^^^ (a >>> n)) &&& mask)) ^^^ (((a ^^^ (a >>> n)) &&& mask) <<< n)

/-- the four state words -/
structure St where
  s0 : BitVec 32
  s1 : BitVec 32
  s2 : BitVec 32
  s3 : BitVec 32
deriving DecidableEq, Repr

/-- `sbox(&mut a, &mut b, &mut c, &mut d)`; the result holds the new `(a, b, c, d)` in `(s0, s1, s2, s3)` -/
def sbox (a b c d : BitVec 32) : St :=
  let b := b ^^^ (a &&& c)          -- *s1 ^= *s0 & *s2;
  let a := a ^^^ (b &&& d)          -- *s0 ^= *s1 & *s3;
  let c := c ^^^ (a ||| b)          -- *s2 ^= *s0 | *s1;
  let d := d ^^^ c                  -- *s3 ^= *s2;
  let b := b ^^^ d                  -- *s1 ^= *s3;
  let d := d ^^^ 0xffffffff#32      -- *s3 ^= 0xffffffff;
  let c := c ^^^ (a &&& b)          -- *s2 ^= *s0 & *s1;
  ⟨a, b, c, d⟩

/-- `inv_sbox(&mut a, &mut b, &mut c, &mut d)` -/
def invSbox (a b c d : BitVec 32) : St :=
  let c := c ^^^ (d &&& b)          -- *s2 ^= *s3 & *s1;
  let a := a ^^^ 0xffffffff#32      -- *s0 ^= 0xffffffff;
  let b := b ^^^ a                  -- *s1 ^= *s0;
  let a := a ^^^ c                  -- *s0 ^= *s2;
  let c := c ^^^ (d ||| b)          -- *s2 ^= *s3 | *s1;
  let d := d ^^^ (b &&& a)          -- *s3 ^= *s1 & *s0;
  let b := b ^^^ (d &&& c)          -- *s1 ^= *s3 & *s2;
  ⟨a, b, c, d⟩

/-- `input[k] as u32` -/
def inB (x : BitVec 128) (k : Nat) : BitVec 32 := (x.extractLsb' (120 - 8 * k) 8).setWidth 32

/-- the word loaded by `packing` from bytes `i, j, k, l` -/
def loadWord (x : BitVec 128) (i j k l : Nat) : BitVec 32 :=
  (inB x i <<< 24) ||| (inB x j <<< 16) ||| (inB x k <<< 8) ||| inB x l

/-- the two `swapmovesingle` of `packing` applied to one word -/
def packWord (s : BitVec 32) : BitVec 32 :=
  swapmovesingle (swapmovesingle s 0x0a0a0a0a#32 3) 0x00cc00cc#32 6

/-- inverse order, as in `unpacking` -/
def unpackWord (s : BitVec 32) : BitVec 32 :=
  swapmovesingle (swapmovesingle s 0x00cc00cc#32 6) 0x0a0a0a0a#32 3

/-- the six `swapmove`s of `packing` -/
def packMix (s : St) : St :=
  let s0 := s.s0; let s1 := s.s1; let s2 := s.s2; let s3 := s.s3
  -- swapmove(&mut s0, &mut s1, 0x000f000f, 4);
  let a := swapmoveA s0 s1 0x000f000f#32 4; let b := swapmoveB s0 s1 0x000f000f#32 4
  let s0 := a; let s1 := b
  -- swapmove(&mut s0, &mut s2, 0x000f000f, 8);
  let a := swapmoveA s0 s2 0x000f000f#32 8; let b := swapmoveB s0 s2 0x000f000f#32 8
  let s0 := a; let s2 := b
  -- swapmove(&mut s0, &mut s3, 0x000f000f, 12);
  let a := swapmoveA s0 s3 0x000f000f#32 12; let b := swapmoveB s0 s3 0x000f000f#32 12
  let s0 := a; let s3 := b
  -- swapmove(&mut s1, &mut s2, 0x00f000f0, 4);
  let a := swapmoveA s1 s2 0x00f000f0#32 4; let b := swapmoveB s1 s2 0x00f000f0#32 4
  let s1 := a; let s2 := b
  -- swapmove(&mut s1, &mut s3, 0x00f000f0, 8);
  let a := swapmoveA s1 s3 0x00f000f0#32 8; let b := swapmoveB s1 s3 0x00f000f0#32 8
  let s1 := a; let s3 := b
  -- swapmove(&mut s2, &mut s3, 0x0f000f00, 4);
  let a := swapmoveA s2 s3 0x0f000f00#32 4; let b := swapmoveB s2 s3 0x0f000f00#32 4
  let s2 := a; let s3 := b
  ⟨s0, s1, s2, s3⟩

/-- the six `swapmove`s of `unpacking` (reverse order) -/
def unpackMix (s : St) : St :=
  let s0 := s.s0; let s1 := s.s1; let s2 := s.s2; let s3 := s.s3
  let a := swapmoveA s2 s3 0x0f000f00#32 4; let b := swapmoveB s2 s3 0x0f000f00#32 4
  let s2 := a; let s3 := b
  let a := swapmoveA s1 s3 0x00f000f0#32 8; let b := swapmoveB s1 s3 0x00f000f0#32 8
  let s1 := a; let s3 := b
  let a := swapmoveA s1 s2 0x00f000f0#32 4; let b := swapmoveB s1 s2 0x00f000f0#32 4
  let s1 := a; let s2 := b
  let a := swapmoveA s0 s3 0x000f000f#32 12; let b := swapmoveB s0 s3 0x000f000f#32 12
  let s0 := a; let s3 := b
  let a := swapmoveA s0 s2 0x000f000f#32 8; let b := swapmoveB s0 s2 0x000f000f#32 8
  let s0 := a; let s2 := b
  let a := swapmoveA s0 s1 0x000f000f#32 4; let b := swapmoveB s0 s1 0x000f000f#32 4
  let s0 := a; let s1 := b
  ⟨s0, s1, s2, s3⟩

/-- `packing(&mut state, input)` -/
def packing (x : BitVec 128) : St :=
  let s0 := loadWord x 6 7 14 15
  let s1 := loadWord x 4 5 12 13
  let s2 := loadWord x 2 3 10 11
  let s3 := loadWord x 0 1 8 9
  packMix ⟨packWord s0, packWord s1, packWord s2, packWord s3⟩

/-- `output[k] = v as u8` placed at byte `k` of the 16-byte result -/
def outB (v : BitVec 32) (k : Nat) : BitVec 128 := ((v.setWidth 8).setWidth 128) <<< (120 - 8 * k)

/-- `unpacking(&state, output)` -/
def unpacking (s : St) : BitVec 128 :=
  let t := unpackMix s
  let s3 := unpackWord t.s3
  let s2 := unpackWord t.s2
  let s1 := unpackWord t.s1
  let s0 := unpackWord t.s0
  outB (s3 >>> 24) 0 ||| outB ((s3 >>> 16) &&& 0xff#32) 1 |||
  outB (s2 >>> 24) 2 ||| outB ((s2 >>> 16) &&& 0xff#32) 3 |||
  outB (s1 >>> 24) 4 ||| outB ((s1 >>> 16) &&& 0xff#32) 5 |||
  outB (s0 >>> 24) 6 ||| outB ((s0 >>> 16) &&& 0xff#32) 7 |||
  outB ((s3 >>> 8) &&& 0xff#32) 8 ||| outB (s3 &&& 0xff#32) 9 |||
  outB ((s2 >>> 8) &&& 0xff#32) 10 ||| outB (s2 &&& 0xff#32) 11 |||
  outB ((s1 >>> 8) &&& 0xff#32) 12 ||| outB (s1 &&& 0xff#32) 13 |||
  outB ((s0 >>> 8) &&& 0xff#32) 14 ||| outB (s0 &&& 0xff#32) 15

/-! ### `quintuple_round`: the five round shapes, in the order of the Rust text -/

/-- round 0: `sbox(s0,s1,s2,s3); s3 = nibble_ror_1(s3); s1 = nibble_ror_2(s1); s2 = nibble_ror_3(s2);
s1 ^= rkey[0]; s2 ^= rkey[1]; s0 ^= rconst[0]` -/
def round0 (s : St) (ka kb rc : BitVec 32) : St :=
  let r := sbox s.s0 s.s1 s.s2 s.s3
  ⟨r.s0 ^^^ rc, nibbleRor2 r.s1 ^^^ ka, nibbleRor3 r.s2 ^^^ kb, nibbleRor1 r.s3⟩

/-- round 1: `sbox(s3,s1,s2,s0); s0 = half_ror_4(s0); s1 = half_ror_8(s1); s2 = half_ror_12(s2);
s1 ^= rkey[2]; s2 ^= rkey[3]; s3 ^= rconst[1]` -/
def round1 (s : St) (ka kb rc : BitVec 32) : St :=
  let r := sbox s.s3 s.s1 s.s2 s.s0
  ⟨halfRor4 r.s3, halfRor8 r.s1 ^^^ ka, halfRor12 r.s2 ^^^ kb, r.s0 ^^^ rc⟩

/-- round 2: `sbox(s0,s1,s2,s3); s3 = ror(s3,16); s2 = ror(s2,16); swapmovesingle(s1,0x55555555,1);
swapmovesingle(s2,0x00005555,1); swapmovesingle(s3,0x55550000,1); s1 ^= rkey[4]; s2 ^= rkey[5]; s0 ^= rconst[2]` -/
def round2 (s : St) (ka kb rc : BitVec 32) : St :=
  let r := sbox s.s0 s.s1 s.s2 s.s3
  ⟨r.s0 ^^^ rc, swapmovesingle r.s1 0x55555555#32 1 ^^^ ka,
   swapmovesingle (ror r.s2 16) 0x00005555#32 1 ^^^ kb, swapmovesingle (ror r.s3 16) 0x55550000#32 1⟩

/-- round 3: `sbox(s3,s1,s2,s0); s0 = byte_ror_6(s0); s1 = byte_ror_4(s1); s2 = byte_ror_2(s2);
s1 ^= rkey[6]; s2 ^= rkey[7]; s3 ^= rconst[3]` -/
def round3 (s : St) (ka kb rc : BitVec 32) : St :=
  let r := sbox s.s3 s.s1 s.s2 s.s0
  ⟨byteRor6 r.s3, byteRor4 r.s1 ^^^ ka, byteRor2 r.s2 ^^^ kb, r.s0 ^^^ rc⟩

/-- round 4: `sbox(s0,s1,s2,s3); s3 = ror(s3,24); s1 = ror(s1,16); s2 = ror(s2,8);
s1 ^= rkey[8]; s2 ^= rkey[9]; s0 ^= rconst[4]` -/
def round4 (s : St) (ka kb rc : BitVec 32) : St :=
  let r := sbox s.s0 s.s1 s.s2 s.s3
  ⟨r.s0 ^^^ rc, ror r.s1 16 ^^^ ka, ror r.s2 8 ^^^ kb, ror r.s3 24⟩

/-- `core::mem::swap(&mut s0, &mut s3)` -/
def swap03 (s : St) : St := ⟨s.s3, s.s1, s.s2, s.s0⟩

/-- ten round-key words `rkey[0..=9]` and five constants `rconst[0..=4]` of one quintuple round -/
structure QK where
  k0 : BitVec 32
  k1 : BitVec 32
  k2 : BitVec 32
  k3 : BitVec 32
  k4 : BitVec 32
  k5 : BitVec 32
  k6 : BitVec 32
  k7 : BitVec 32
  k8 : BitVec 32
  k9 : BitVec 32
  c0 : BitVec 32
  c1 : BitVec 32
  c2 : BitVec 32
  c3 : BitVec 32
  c4 : BitVec 32

/-- `quintuple_round` on explicit key words / constants -/
def quintupleCore (s : St) (q : QK) : St :=
  swap03 (round4 (round3 (round2 (round1 (round0 s q.k0 q.k1 q.c0) q.k2 q.k3 q.c1) q.k4 q.k5 q.c2)
    q.k6 q.k7 q.c3) q.k8 q.k9 q.c4)

/-! inverse rounds, in the order of `inv_quintuple_round` (each undoes the round of the same number) -/

/-- after `swap`: `s1 ^= rkey[8]; s2 ^= rkey[9]; s0 ^= rconst[4]; s3 = ror(s3,8); s1 = ror(s1,16);
s2 = ror(s2,24); inv_sbox(s3,s1,s2,s0)` -/
def invRound4 (s : St) (ka kb rc : BitVec 32) : St :=
  let r := invSbox (ror s.s3 8) (ror (s.s1 ^^^ ka) 16) (ror (s.s2 ^^^ kb) 24) (s.s0 ^^^ rc)
  ⟨r.s3, r.s1, r.s2, r.s0⟩

/-- `s1 ^= rkey[6]; s2 ^= rkey[7]; s3 ^= rconst[3]; s0 = byte_ror_2(s0); s1 = byte_ror_4(s1);
s2 = byte_ror_6(s2); inv_sbox(s0,s1,s2,s3)` -/
def invRound3 (s : St) (ka kb rc : BitVec 32) : St :=
  invSbox (byteRor2 s.s0) (byteRor4 (s.s1 ^^^ ka)) (byteRor6 (s.s2 ^^^ kb)) (s.s3 ^^^ rc)

/-- `s1 ^= rkey[4]; s2 ^= rkey[5]; s0 ^= rconst[2]; swapmovesingle(s3,0x55550000,1);
swapmovesingle(s1,0x55555555,1); swapmovesingle(s2,0x00005555,1); s3 = ror(s3,16); s2 = ror(s2,16);
inv_sbox(s3,s1,s2,s0)` -/
def invRound2 (s : St) (ka kb rc : BitVec 32) : St :=
  let r := invSbox (ror (swapmovesingle s.s3 0x55550000#32 1) 16) (swapmovesingle (s.s1 ^^^ ka) 0x55555555#32 1)
    (ror (swapmovesingle (s.s2 ^^^ kb) 0x00005555#32 1) 16) (s.s0 ^^^ rc)
  ⟨r.s3, r.s1, r.s2, r.s0⟩

/-- `s1 ^= rkey[2]; s2 ^= rkey[3]; s3 ^= rconst[1]; s0 = half_ror_12(s0); s1 = half_ror_8(s1);
s2 = half_ror_4(s2); inv_sbox(s0,s1,s2,s3)` -/
def invRound1 (s : St) (ka kb rc : BitVec 32) : St :=
  invSbox (halfRor12 s.s0) (halfRor8 (s.s1 ^^^ ka)) (halfRor4 (s.s2 ^^^ kb)) (s.s3 ^^^ rc)

/-- `s1 ^= rkey[0]; s2 ^= rkey[1]; s0 ^= rconst[0]; s3 = nibble_ror_3(s3); s1 = nibble_ror_2(s1);
s2 = nibble_ror_1(s2); inv_sbox(s3,s1,s2,s0)` -/
def invRound0 (s : St) (ka kb rc : BitVec 32) : St :=
  let r := invSbox (nibbleRor3 s.s3) (nibbleRor2 (s.s1 ^^^ ka)) (nibbleRor1 (s.s2 ^^^ kb)) (s.s0 ^^^ rc)
  ⟨r.s3, r.s1, r.s2, r.s0⟩

/-- `inv_quintuple_round` on explicit key words / constants -/
def invQuintupleCore (s : St) (q : QK) : St :=
  invRound0 (invRound1 (invRound2 (invRound3 (invRound4 (swap03 s) q.k8 q.k9 q.c4) q.k6 q.k7 q.c3)
    q.k4 q.k5 q.c2) q.k2 q.k3 q.c1) q.k0 q.k1 q.c0

/-! ### consts.rs -/

/-- `GIFT_RC` copied from /repo/gift/src/consts.rs -/
def GIFT_RC : Array (BitVec 32) := #[
  0x10000008#32, 0x80018000#32, 0x54000002#32, 0x01010181#32, 0x8000001f#32, 0x10888880#32, 0x6001e000#32, 0x51500002#32,
  0x03030180#32, 0x8000002f#32, 0x10088880#32, 0x60016000#32, 0x41500002#32, 0x03030080#32, 0x80000027#32, 0x10008880#32,
  0x4001e000#32, 0x11500002#32, 0x03020180#32, 0x8000002b#32, 0x10080880#32, 0x60014000#32, 0x01400002#32, 0x02020080#32,
  0x80000021#32, 0x10000080#32, 0x0001c000#32, 0x51000002#32, 0x03010180#32, 0x8000002e#32, 0x10088800#32, 0x60012000#32,
  0x40500002#32, 0x01030080#32, 0x80000006#32, 0x10008808#32, 0xc001a000#32, 0x14500002#32, 0x01020181#32, 0x8000001a#32]

theorem GIFT_RC_size : GIFT_RC.size = 40 := by decide

/-- the slices `&rkey[koff..]`, `&rconst[coff..]` read at the indices `quintuple_round` uses -/
def qkAt (rk : Array (BitVec 32)) (koff : Nat) (rc : Array (BitVec 32)) (coff : Nat) : QK :=
  { k0 := rk.getD (koff + 0) 0, k1 := rk.getD (koff + 1) 0, k2 := rk.getD (koff + 2) 0, k3 := rk.getD (koff + 3) 0,
    k4 := rk.getD (koff + 4) 0, k5 := rk.getD (koff + 5) 0, k6 := rk.getD (koff + 6) 0, k7 := rk.getD (koff + 7) 0,
    k8 := rk.getD (koff + 8) 0, k9 := rk.getD (koff + 9) 0,
    c0 := rc.getD (coff + 0) 0, c1 := rc.getD (coff + 1) 0, c2 := rc.getD (coff + 2) 0, c3 := rc.getD (coff + 3) 0,
    c4 := rc.getD (coff + 4) 0 }

/-- `quintuple_round(&mut state, &rkey[koff..], &rconst[coff..])` -/
def quintupleRound (s : St) (rk : Array (BitVec 32)) (koff : Nat) (rc : Array (BitVec 32)) (coff : Nat) : St :=
  quintupleCore s (qkAt rk koff rc coff)

/-- `inv_quintuple_round(&mut state, &rkey[koff..], &rconst[coff..])` -/
def invQuintupleRound (s : St) (rk : Array (BitVec 32)) (koff : Nat) (rc : Array (BitVec 32)) (coff : Nat) : St :=
  invQuintupleCore s (qkAt rk koff rc coff)

/-! ### key_schedule.rs -/

def rearrangeRkey0 (x : BitVec 32) : BitVec 32 :=
  swapmovesingle (swapmovesingle (swapmovesingle (swapmovesingle x 0x00550055#32 9) 0x000f000f#32 12)
    0x00003333#32 18) 0x000000ff#32 24

def rearrangeRkey1 (x : BitVec 32) : BitVec 32 :=
  swapmovesingle (swapmovesingle (swapmovesingle (swapmovesingle x 0x11111111#32 3) 0x03030303#32 6)
    0x000f000f#32 12) 0x000000ff#32 24

def rearrangeRkey2 (x : BitVec 32) : BitVec 32 :=
  swapmovesingle (swapmovesingle (swapmovesingle (swapmovesingle x 0x0000aaaa#32 15) 0x00003333#32 18)
    0x0000f0f0#32 12) 0x000000ff#32 24

def rearrangeRkey3 (x : BitVec 32) : BitVec 32 :=
  swapmovesingle (swapmovesingle (swapmovesingle (swapmovesingle x 0x0a0a0a0a#32 3) 0x00cc00cc#32 6)
    0x0000f0f0#32 12) 0x000000ff#32 24

def keyUpdate (x : BitVec 32) : BitVec 32 :=
  ((x >>> 12) &&& 0x0000000f#32) ||| ((x &&& 0x00000fff#32) <<< 4) |||
  ((x >>> 2) &&& 0x3fff0000#32) ||| ((x &&& 0x00030000#32) <<< 14)

def keyTripleUpdate0 (x : BitVec 32) : BitVec 32 :=
  ror (x &&& 0x33333333#32) 24 ||| ror (x &&& 0xcccccccc#32) 16

def keyDoubleUpdate1 (x : BitVec 32) : BitVec 32 :=
  ((x >>> 4) &&& 0x0f000f00#32) ||| ((x &&& 0x0f000f00#32) <<< 4) |||
  ((x >>> 6) &&& 0x00030003#32) ||| ((x &&& 0x003f003f#32) <<< 2)

def keyTripleUpdate1 (x : BitVec 32) : BitVec 32 :=
  ((x >>> 6) &&& 0x03000300#32) ||| ((x &&& 0x3f003f00#32) <<< 2) |||
  ((x >>> 5) &&& 0x00070007#32) ||| ((x &&& 0x001f001f#32) <<< 3)

def keyDoubleUpdate2 (x : BitVec 32) : BitVec 32 :=
  ror (x &&& 0xaaaaaaaa#32) 24 ||| ror (x &&& 0x55555555#32) 16

def keyTripleUpdate2 (x : BitVec 32) : BitVec 32 :=
  ror (x &&& 0x55555555#32) 24 ||| ror (x &&& 0xaaaaaaaa#32) 20

def keyDoubleUpdate3 (x : BitVec 32) : BitVec 32 :=
  ((x >>> 2) &&& 0x03030303#32) ||| ((x &&& 0x03030303#32) <<< 2) |||
  ((x >>> 1) &&& 0x70707070#32) ||| ((x &&& 0x10101010#32) <<< 3)

def keyTripleUpdate3 (x : BitVec 32) : BitVec 32 :=
  ((x >>> 18) &&& 0x00003030#32) ||| ((x &&& 0x01010101#32) <<< 3) |||
  ((x >>> 14) &&& 0x0000c0c0#32) ||| ((x &&& 0x0000e0e0#32) <<< 15) |||
  ((x >>> 1) &&& 0x07070707#32) ||| ((x &&& 0x00001010#32) <<< 19)

def keyDoubleUpdate4 (x : BitVec 32) : BitVec 32 :=
  ((x >>> 4) &&& 0x0fff0000#32) ||| ((x &&& 0x000f0000#32) <<< 12) |||
  ((x >>> 8) &&& 0x000000ff#32) ||| ((x &&& 0x000000ff#32) <<< 8)

def keyTripleUpdate4 (x : BitVec 32) : BitVec 32 :=
  ((x >>> 6) &&& 0x03ff0000#32) ||| ((x &&& 0x003f0000#32) <<< 10) |||
  ((x >>> 4) &&& 0x00000fff#32) ||| ((x &&& 0x0000000f#32) <<< 12)

/-- `rkey[i]` (the array always has 80 entries; see `precomputeRkeys_size`) -/
def rd (rk : Array (BitVec 32)) (i : Nat) : BitVec 32 := rk.getD i 0
/-- `rkey[i] = v` -/
def wr (rk : Array (BitVec 32)) (i : Nat) (v : BitVec 32) : Array (BitVec 32) := rk.setIfInBounds i v

/-- body of `for i in (0..16).step_by(2)` -/
def ksLoop1 (rk : Array (BitVec 32)) (i : Nat) : Array (BitVec 32) :=
  let rk := wr rk (i + 4) (rd rk (i + 1))
  wr rk (i + 5) (keyUpdate (rd rk i))

/-- body of `for i in (0..20).step_by(10)` -/
def ksLoop2 (rk : Array (BitVec 32)) (i : Nat) : Array (BitVec 32) :=
  let rk := wr rk i (rearrangeRkey0 (rd rk i))
  let rk := wr rk (i + 1) (rearrangeRkey0 (rd rk (i + 1)))
  let rk := wr rk (i + 2) (rearrangeRkey1 (rd rk (i + 2)))
  let rk := wr rk (i + 3) (rearrangeRkey1 (rd rk (i + 3)))
  let rk := wr rk (i + 4) (rearrangeRkey2 (rd rk (i + 4)))
  let rk := wr rk (i + 5) (rearrangeRkey2 (rd rk (i + 5)))
  let rk := wr rk (i + 6) (rearrangeRkey3 (rd rk (i + 6)))
  wr rk (i + 7) (rearrangeRkey3 (rd rk (i + 7)))

/-- body of `for i in (20..80).step_by(10)` -/
def ksLoop3 (rk : Array (BitVec 32)) (i : Nat) : Array (BitVec 32) :=
  let rk := wr rk i (rd rk (i - 19))
  let rk := wr rk (i + 1) (keyTripleUpdate0 (rd rk (i - 20)))
  let rk := wr rk (i + 2) (keyDoubleUpdate1 (rd rk (i - 17)))
  let rk := wr rk (i + 3) (keyTripleUpdate1 (rd rk (i - 18)))
  let rk := wr rk (i + 4) (keyDoubleUpdate2 (rd rk (i - 15)))
  let rk := wr rk (i + 5) (keyTripleUpdate2 (rd rk (i - 16)))
  let rk := wr rk (i + 6) (keyDoubleUpdate3 (rd rk (i - 13)))
  let rk := wr rk (i + 7) (keyTripleUpdate3 (rd rk (i - 14)))
  let rk := wr rk (i + 8) (keyDoubleUpdate4 (rd rk (i - 11)))
  let rk := wr rk (i + 9) (keyTripleUpdate4 (rd rk (i - 12)))
  let rk := wr rk i (swapmovesingle (rd rk i) 0x00003333#32 16)
  let rk := wr rk i (swapmovesingle (rd rk i) 0x55554444#32 1)
  wr rk (i + 1) (swapmovesingle (rd rk (i + 1)) 0x55551100#32 1)

/-- `precompute_rkeys(key)` -/
def precomputeRkeys (key : BitVec 128) : Array (BitVec 32) :=
  let rk := Array.replicate 80 0#32
  let rk := wr rk 0 (u32big key 12)
  let rk := wr rk 1 (u32big key 4)
  let rk := wr rk 2 (u32big key 8)
  let rk := wr rk 3 (u32big key 0)
  let rk := [0, 2, 4, 6, 8, 10, 12, 14].foldl ksLoop1 rk
  let rk := [0, 10].foldl ksLoop2 rk
  [20, 30, 40, 50, 60, 70].foldl ksLoop3 rk

/-! ### lib.rs -/

/-- `encrypt_block`: `for i in (0..40).step_by(5) { quintuple_round(&mut state, &self.k[i*2..], &GIFT_RC[i..]) }` -/
def encrypt (rk : Array (BitVec 32)) (b : BitVec 128) : BitVec 128 :=
  unpacking ([0, 5, 10, 15, 20, 25, 30, 35].foldl (fun s i => quintupleRound s rk (i * 2) GIFT_RC i) (packing b))

/-- `decrypt_block`: `i = 35; while i > 0 { inv_quintuple_round(.., &self.k[i*2..], &GIFT_RC[i..]); i -= 5 }`
then once more for `i = 0` -/
def decrypt (rk : Array (BitVec 32)) (b : BitVec 128) : BitVec 128 :=
  let s := [35, 30, 25, 20, 15, 10, 5].foldl (fun s i => invQuintupleRound s rk (i * 2) GIFT_RC i) (packing b)
  unpacking (invQuintupleRound s rk (0 * 2) GIFT_RC 0)

/-- `KeySize = U16`: `new_from_slice` accepts exactly 16 bytes -/
def accepts (n : Nat) : Bool := n == 16

end BC.Gift
