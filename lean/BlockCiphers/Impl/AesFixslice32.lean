import BlockCiphers.Prelude.Bytes
/-
Model of `/repo/aes/src/soft/fixslice32.rs` (fixsliced AES, 32-bit words, 2 blocks per bitsliced
state; selected by `cfg(not(target_pointer_width = "64"))`) and of the single-block / batch wrappers in `/repo/aes/src/soft.rs`, function by function.

* `State = [u32; 8]` is the structure `St` (8 fields, so that `bv_decide (config := { timeout := 600 })` can split it).
* `BatchBlocks = [Block; 2]` is the structure `Batch` of two `BitVec 128` (byte 0 of a block is the
  most significant byte of the `BitVec 128`).
* The flat round-key arrays `[u32; 88 | 104 | 120]` are only ever accessed through aligned slices
  `rkeys[rk_off..rk_off+8]` with `rk_off % 8 = 0`; they are modelled as `Nat → St` (encrypt/decrypt,
  index `rk_off / 8`) and as `Array St` (key schedules, 11 / 13 / 15 entries).
* `cfg(aes_compact)` selects different code inside the same functions; each such function has two
  Lean definitions, `f` (normal) and `f_compact`.
* The two Boyar–Peralta circuits are generated from the Rust text by `gen_sbox.py` (quoted at the end
  of `Impl/AesFixslice64.lean`), each at width 32 (`sub_bytes`) and width 1 (`sub_bytes_bit`).

-- C20-SITE: ror_distance: `(rows << 3) + (cols << 1)` : u32, rows ≤ 2, cols ≤ 3, value ≤ 22.
-- C20-SITE: xor_columns: `off_i - idx_xor` : usize; call sites have offset ≥ idx_xor (128: rk_off ≥ 8,
--           idx_xor = 8; 256: rk_off ≥ 16, idx_xor = 16).
-- C20-SITE: aes128_key_schedule: `rcon - 8`, `rcon - 7`, `rcon - 5`, `rcon - 4` only in the branch rcon ≥ 8.
-- C20-SITE: aes192_key_schedule: `rk_off - 8`, `rk_off - 16`: rk_off starts at 8 and is ≥ 16 at the `-16` sites.
-- C20-SITE: aesN_decrypt: `rk_off -= 8`: the loop leaves through `rk_off == 0` before it would go negative
--           (rk_off starts at a multiple of 8·(loop period) plus 8: 72 / 88 / 104).
-- C20-SITE: add_round_constant_bit: `state[bit]`, bit ∈ {rcon, rcon-8, rcon-7, rcon-5, rcon-4} ⊆ 0..7.
-- C20-SITE: memshift32 / slices `rkeys[rk_off..rk_off+8]`: rk_off + 8 ≤ len by the loop bounds
--           (the model's `Array` accessors are total: out of range reads give the zero state,
--            out of range writes are dropped; `*_size` lemmas show they never happen).
-/
namespace BC.AesFs32

/-- `State = [u32; 8]` -/
structure St where
  s0 : BitVec 32
  s1 : BitVec 32
  s2 : BitVec 32
  s3 : BitVec 32
  s4 : BitVec 32
  s5 : BitVec 32
  s6 : BitVec 32
  s7 : BitVec 32
  deriving DecidableEq, Repr

/-- `BatchBlocks = Array<Block, U2>` -/
structure Batch where
  b0 : BitVec 128
  b1 : BitVec 128
  deriving DecidableEq, Repr

def St.zero : St := ⟨0, 0, 0, 0, 0, 0, 0, 0⟩
instance : Inhabited St := ⟨St.zero⟩

/-- `for x in state.iter_mut() { f(x) }` -/
def St.map (f : BitVec 32 → BitVec 32) (s : St) : St :=
  ⟨f s.s0, f s.s1, f s.s2, f s.s3, f s.s4, f s.s5, f s.s6, f s.s7⟩

/-- `for i in 0..8 { out[i] = f(a[i], b[i]) }` -/
def St.zip (f : BitVec 32 → BitVec 32 → BitVec 32) (a b : St) : St :=
  ⟨f a.s0 b.s0, f a.s1 b.s1, f a.s2 b.s2, f a.s3 b.s3, f a.s4 b.s4, f a.s5 b.s5, f a.s6 b.s6, f a.s7 b.s7⟩

def St.zip3 (f : BitVec 32 → BitVec 32 → BitVec 32 → BitVec 32) (a b c : St) : St :=
  ⟨f a.s0 b.s0 c.s0, f a.s1 b.s1 c.s1, f a.s2 b.s2 c.s2, f a.s3 b.s3 c.s3,
   f a.s4 b.s4 c.s4, f a.s5 b.s5 c.s5, f a.s6 b.s6 c.s6, f a.s7 b.s7 c.s7⟩

/-- `state[i] = f(state[i])`; an index ≥ 8 would panic in Rust (see C20-SITE add_round_constant_bit) -/
def St.modify (s : St) (i : Nat) (f : BitVec 32 → BitVec 32) : St :=
  match i with
  | 0 => { s with s0 := f s.s0 }
  | 1 => { s with s1 := f s.s1 }
  | 2 => { s with s2 := f s.s2 }
  | 3 => { s with s3 := f s.s3 }
  | 4 => { s with s4 := f s.s4 }
  | 5 => { s with s5 := f s.s5 }
  | 6 => { s with s6 := f s.s6 }
  | 7 => { s with s7 := f s.s7 }
  | _ => s

/-! ### small helpers (`ror`, `ror_distance`, `rotate_rows_*`) -/

def ror (x : BitVec 32) (y : Nat) : BitVec 32 := x.rotateRight y

@[reducible] def ror_distance (rows cols : Nat) : Nat := (rows <<< 3) + (cols <<< 1)

def rotate_rows_1 (x : BitVec 32) : BitVec 32 := ror x (ror_distance 1 0)
def rotate_rows_2 (x : BitVec 32) : BitVec 32 := ror x (ror_distance 2 0)

def rotate_rows_and_columns_1_1 (x : BitVec 32) : BitVec 32 :=
  (ror x (ror_distance 1 1) &&& 0x3f3f3f3f#32) |||
  (ror x (ror_distance 0 1) &&& 0xc0c0c0c0#32)

/-- `cfg(not(aes_compact))` -/
def rotate_rows_and_columns_1_2 (x : BitVec 32) : BitVec 32 :=
  (ror x (ror_distance 1 2) &&& 0x0f0f0f0f#32) |||
  (ror x (ror_distance 0 2) &&& 0xf0f0f0f0#32)

/-- `cfg(not(aes_compact))` -/
def rotate_rows_and_columns_1_3 (x : BitVec 32) : BitVec 32 :=
  (ror x (ror_distance 1 3) &&& 0x03030303#32) |||
  (ror x (ror_distance 0 3) &&& 0xfcfcfcfc#32)

def rotate_rows_and_columns_2_2 (x : BitVec 32) : BitVec 32 :=
  (ror x (ror_distance 2 2) &&& 0x0f0f0f0f#32) |||
  (ror x (ror_distance 1 2) &&& 0xf0f0f0f0#32)

/-! ### delta swaps -/

def delta_swap_1 (a : BitVec 32) (shift : Nat) (mask : BitVec 32) : BitVec 32 :=
  let t := (a ^^^ (a >>> shift)) &&& mask
  a ^^^ (t ^^^ (t <<< shift))

/-- the two `&mut u32` of `delta_swap_2` -/
structure P64 where
  a : BitVec 32
  b : BitVec 32

def delta_swap_2 (a b : BitVec 32) (shift : Nat) (mask : BitVec 32) : P64 :=
  let t := (a ^^^ (b >>> shift)) &&& mask
  ⟨a ^^^ t, b ^^^ (t <<< shift)⟩

/-! ### S-box circuits (generated) -/

-- BEGIN generated by gen_sbox.py from /repo/aes/src/soft/fixslice32.rs (width 32)
/-- `sub_bytes` of fixslice32.rs (generated by gen_sbox.py; 113 gates) -/
def sub_bytes (s : St) : St :=
  let u7 := s.s0
  let u6 := s.s1
  let u5 := s.s2
  let u4 := s.s3
  let u3 := s.s4
  let u2 := s.s5
  let u1 := s.s6
  let u0 := s.s7
  let y14 := u3 ^^^ u5
  let y13 := u0 ^^^ u6
  let y12 := y13 ^^^ y14
  let t1 := u4 ^^^ y12
  let y15 := t1 ^^^ u5
  let t2 := y12 &&& y15
  let y6 := y15 ^^^ u7
  let y20 := t1 ^^^ u1
  let y9 := u0 ^^^ u3
  let y11 := y20 ^^^ y9
  let t12 := y9 &&& y11
  let y7 := u7 ^^^ y11
  let y8 := u0 ^^^ u5
  let t0 := u1 ^^^ u2
  let y10 := y15 ^^^ t0
  let y17 := y10 ^^^ y11
  let t13 := y14 &&& y17
  let t14 := t13 ^^^ t12
  let y19 := y10 ^^^ y8
  let t15 := y8 &&& y10
  let t16 := t15 ^^^ t12
  let y16 := t0 ^^^ y11
  let y21 := y13 ^^^ y16
  let t7 := y13 &&& y16
  let y18 := u0 ^^^ y16
  let y1 := t0 ^^^ u7
  let y4 := y1 ^^^ u3
  let t5 := y4 &&& u7
  let t6 := t5 ^^^ t2
  let t18 := t6 ^^^ t16
  let t22 := t18 ^^^ y19
  let y2 := y1 ^^^ u0
  let t10 := y2 &&& y7
  let t11 := t10 ^^^ t7
  let t20 := t11 ^^^ t16
  let t24 := t20 ^^^ y18
  let y5 := y1 ^^^ u6
  let t8 := y5 &&& y1
  let t9 := t8 ^^^ t7
  let t19 := t9 ^^^ t14
  let t23 := t19 ^^^ y21
  let y3 := y5 ^^^ y8
  let t3 := y3 &&& y6
  let t4 := t3 ^^^ t2
  let t17 := t4 ^^^ y20
  let t21 := t17 ^^^ t14
  let t26 := t21 &&& t23
  let t27 := t24 ^^^ t26
  let t31 := t22 ^^^ t26
  let t25 := t21 ^^^ t22
  let t28 := t25 &&& t27
  let t29 := t28 ^^^ t22
  let z14 := t29 &&& y2
  let z5 := t29 &&& y7
  let t30 := t23 ^^^ t24
  let t32 := t31 &&& t30
  let t33 := t32 ^^^ t24
  let t35 := t27 ^^^ t33
  let t36 := t24 &&& t35
  let t38 := t27 ^^^ t36
  let t39 := t29 &&& t38
  let t40 := t25 ^^^ t39
  let t43 := t29 ^^^ t40
  let z3 := t43 &&& y16
  let tc12 := z3 ^^^ z5
  let z12 := t43 &&& y13
  let z13 := t40 &&& y5
  let z4 := t40 &&& y1
  let tc6 := z3 ^^^ z4
  let t34 := t23 ^^^ t33
  let t37 := t36 ^^^ t34
  let t41 := t40 ^^^ t37
  let z8 := t41 &&& y10
  let z17 := t41 &&& y8
  let t44 := t33 ^^^ t37
  let z0 := t44 &&& y15
  let z9 := t44 &&& y12
  let z10 := t37 &&& y3
  let z1 := t37 &&& y6
  let tc5 := z1 ^^^ z0
  let tc11 := tc6 ^^^ tc5
  let z11 := t33 &&& y4
  let t42 := t29 ^^^ t33
  let t45 := t42 ^^^ t41
  let z7 := t45 &&& y17
  let tc8 := z7 ^^^ tc6
  let z16 := t45 &&& y14
  let z6 := t42 &&& y11
  let tc16 := z6 ^^^ tc8
  let z15 := t42 &&& y9
  let tc20 := z15 ^^^ tc16
  let tc1 := z15 ^^^ z16
  let tc2 := z10 ^^^ tc1
  let tc21 := tc2 ^^^ z11
  let tc3 := z9 ^^^ tc2
  let s0 := tc3 ^^^ tc16
  let s3 := tc3 ^^^ tc11
  let s1 := s3 ^^^ tc16
  let tc13 := z13 ^^^ tc1
  let z2 := t33 &&& u7
  let tc4 := z0 ^^^ z2
  let tc7 := z12 ^^^ tc4
  let tc9 := z8 ^^^ tc7
  let tc10 := tc8 ^^^ tc9
  let tc17 := z14 ^^^ tc10
  let s5 := tc21 ^^^ tc17
  let tc26 := tc17 ^^^ tc20
  let s2 := tc26 ^^^ z17
  let tc14 := tc4 ^^^ tc12
  let tc18 := tc13 ^^^ tc14
  let s6 := tc10 ^^^ tc18
  let s7 := z12 ^^^ tc18
  let s4 := tc14 ^^^ s3
  { s0 := s7, s1 := s6, s2 := s5, s3 := s4, s4 := s3, s5 := s2, s6 := s1, s7 := s0 }

/-- the gate list of `sub_bytes` at width 1: bit `i` of the byte plays the role of `state[i]` -/
def sub_bytes_bit (x : BitVec 8) : BitVec 8 :=
  let u7 := x.extractLsb' 0 1
  let u6 := x.extractLsb' 1 1
  let u5 := x.extractLsb' 2 1
  let u4 := x.extractLsb' 3 1
  let u3 := x.extractLsb' 4 1
  let u2 := x.extractLsb' 5 1
  let u1 := x.extractLsb' 6 1
  let u0 := x.extractLsb' 7 1
  let y14 := u3 ^^^ u5
  let y13 := u0 ^^^ u6
  let y12 := y13 ^^^ y14
  let t1 := u4 ^^^ y12
  let y15 := t1 ^^^ u5
  let t2 := y12 &&& y15
  let y6 := y15 ^^^ u7
  let y20 := t1 ^^^ u1
  let y9 := u0 ^^^ u3
  let y11 := y20 ^^^ y9
  let t12 := y9 &&& y11
  let y7 := u7 ^^^ y11
  let y8 := u0 ^^^ u5
  let t0 := u1 ^^^ u2
  let y10 := y15 ^^^ t0
  let y17 := y10 ^^^ y11
  let t13 := y14 &&& y17
  let t14 := t13 ^^^ t12
  let y19 := y10 ^^^ y8
  let t15 := y8 &&& y10
  let t16 := t15 ^^^ t12
  let y16 := t0 ^^^ y11
  let y21 := y13 ^^^ y16
  let t7 := y13 &&& y16
  let y18 := u0 ^^^ y16
  let y1 := t0 ^^^ u7
  let y4 := y1 ^^^ u3
  let t5 := y4 &&& u7
  let t6 := t5 ^^^ t2
  let t18 := t6 ^^^ t16
  let t22 := t18 ^^^ y19
  let y2 := y1 ^^^ u0
  let t10 := y2 &&& y7
  let t11 := t10 ^^^ t7
  let t20 := t11 ^^^ t16
  let t24 := t20 ^^^ y18
  let y5 := y1 ^^^ u6
  let t8 := y5 &&& y1
  let t9 := t8 ^^^ t7
  let t19 := t9 ^^^ t14
  let t23 := t19 ^^^ y21
  let y3 := y5 ^^^ y8
  let t3 := y3 &&& y6
  let t4 := t3 ^^^ t2
  let t17 := t4 ^^^ y20
  let t21 := t17 ^^^ t14
  let t26 := t21 &&& t23
  let t27 := t24 ^^^ t26
  let t31 := t22 ^^^ t26
  let t25 := t21 ^^^ t22
  let t28 := t25 &&& t27
  let t29 := t28 ^^^ t22
  let z14 := t29 &&& y2
  let z5 := t29 &&& y7
  let t30 := t23 ^^^ t24
  let t32 := t31 &&& t30
  let t33 := t32 ^^^ t24
  let t35 := t27 ^^^ t33
  let t36 := t24 &&& t35
  let t38 := t27 ^^^ t36
  let t39 := t29 &&& t38
  let t40 := t25 ^^^ t39
  let t43 := t29 ^^^ t40
  let z3 := t43 &&& y16
  let tc12 := z3 ^^^ z5
  let z12 := t43 &&& y13
  let z13 := t40 &&& y5
  let z4 := t40 &&& y1
  let tc6 := z3 ^^^ z4
  let t34 := t23 ^^^ t33
  let t37 := t36 ^^^ t34
  let t41 := t40 ^^^ t37
  let z8 := t41 &&& y10
  let z17 := t41 &&& y8
  let t44 := t33 ^^^ t37
  let z0 := t44 &&& y15
  let z9 := t44 &&& y12
  let z10 := t37 &&& y3
  let z1 := t37 &&& y6
  let tc5 := z1 ^^^ z0
  let tc11 := tc6 ^^^ tc5
  let z11 := t33 &&& y4
  let t42 := t29 ^^^ t33
  let t45 := t42 ^^^ t41
  let z7 := t45 &&& y17
  let tc8 := z7 ^^^ tc6
  let z16 := t45 &&& y14
  let z6 := t42 &&& y11
  let tc16 := z6 ^^^ tc8
  let z15 := t42 &&& y9
  let tc20 := z15 ^^^ tc16
  let tc1 := z15 ^^^ z16
  let tc2 := z10 ^^^ tc1
  let tc21 := tc2 ^^^ z11
  let tc3 := z9 ^^^ tc2
  let s0 := tc3 ^^^ tc16
  let s3 := tc3 ^^^ tc11
  let s1 := s3 ^^^ tc16
  let tc13 := z13 ^^^ tc1
  let z2 := t33 &&& u7
  let tc4 := z0 ^^^ z2
  let tc7 := z12 ^^^ tc4
  let tc9 := z8 ^^^ tc7
  let tc10 := tc8 ^^^ tc9
  let tc17 := z14 ^^^ tc10
  let s5 := tc21 ^^^ tc17
  let tc26 := tc17 ^^^ tc20
  let s2 := tc26 ^^^ z17
  let tc14 := tc4 ^^^ tc12
  let tc18 := tc13 ^^^ tc14
  let s6 := tc10 ^^^ tc18
  let s7 := z12 ^^^ tc18
  let s4 := tc14 ^^^ s3
  (s7.setWidth 8 <<< 0) |||
  (s6.setWidth 8 <<< 1) |||
  (s5.setWidth 8 <<< 2) |||
  (s4.setWidth 8 <<< 3) |||
  (s3.setWidth 8 <<< 4) |||
  (s2.setWidth 8 <<< 5) |||
  (s1.setWidth 8 <<< 6) |||
  (s0.setWidth 8 <<< 7)

/-- `inv_sub_bytes` of fixslice32.rs (generated by gen_sbox.py; 127 gates) -/
def inv_sub_bytes (s : St) : St :=
  let u7 := s.s0
  let u6 := s.s1
  let u5 := s.s2
  let u4 := s.s3
  let u3 := s.s4
  let u2 := s.s5
  let u1 := s.s6
  let u0 := s.s7
  let t23 := u0 ^^^ u3
  let t8 := u1 ^^^ t23
  let m2 := t23 &&& t8
  let t4 := u4 ^^^ t8
  let t22 := u1 ^^^ u3
  let t2 := u0 ^^^ u1
  let t1 := u3 ^^^ u4
  let t9 := u7 ^^^ t1
  let m7 := t22 &&& t9
  let t24 := u4 ^^^ u7
  let t10 := t2 ^^^ t24
  let m14 := t2 &&& t10
  let r5 := u6 ^^^ u7
  let t3 := t1 ^^^ r5
  let t13 := t2 ^^^ r5
  let t19 := t22 ^^^ r5
  let t17 := u2 ^^^ t19
  let t25 := u2 ^^^ t1
  let r13 := u1 ^^^ u6
  let t20 := t24 ^^^ r13
  let m9 := t20 &&& t17
  let r17 := u2 ^^^ u5
  let t6 := t22 ^^^ r17
  let m1 := t13 &&& t6
  let y5 := u0 ^^^ r17
  let m4 := t19 &&& y5
  let m5 := m4 ^^^ m1
  let m17 := m5 ^^^ t24
  let r18 := u5 ^^^ u6
  let t27 := t1 ^^^ r18
  let t15 := t10 ^^^ t27
  let m11 := t1 &&& t15
  let m15 := m14 ^^^ m11
  let m21 := m17 ^^^ m15
  let m12 := t4 &&& t27
  let m13 := m12 ^^^ m11
  let t14 := t10 ^^^ r18
  let m3 := t14 ^^^ m1
  let m16 := m3 ^^^ m2
  let m20 := m16 ^^^ m13
  let r19 := u2 ^^^ u4
  let t16 := r13 ^^^ r19
  let t26 := t3 ^^^ t16
  let m6 := t3 &&& t16
  let m8 := t26 ^^^ m6
  let m18 := m8 ^^^ m7
  let m22 := m18 ^^^ m13
  let m25 := m22 &&& m20
  let m26 := m21 ^^^ m25
  let m10 := m9 ^^^ m6
  let m19 := m10 ^^^ m15
  let m23 := m19 ^^^ t25
  let m28 := m23 ^^^ m25
  let m24 := m22 ^^^ m23
  let m30 := m26 &&& m24
  let m39 := m23 ^^^ m30
  let m48 := m39 &&& y5
  let m57 := m39 &&& t19
  let m36 := m24 ^^^ m25
  let m31 := m20 &&& m23
  let m27 := m20 ^^^ m21
  let m32 := m27 &&& m31
  let m29 := m28 &&& m27
  let m37 := m21 ^^^ m29
  let m42 := m37 ^^^ m39
  let m52 := m42 &&& t15
  let m61 := m42 &&& t1
  let p0 := m52 ^^^ m61
  let p16 := m57 ^^^ m61
  let m60 := m37 &&& t20
  let m51 := m37 &&& t17
  let m33 := m27 ^^^ m25
  let m38 := m32 ^^^ m33
  let m43 := m37 ^^^ m38
  let m49 := m43 &&& t16
  let p6 := m49 ^^^ m60
  let p13 := m49 ^^^ m51
  let m58 := m43 &&& t3
  let m50 := m38 &&& t9
  let m59 := m38 &&& t22
  let p1 := m58 ^^^ m59
  let p7 := p0 ^^^ p1
  let m34 := m21 &&& m22
  let m35 := m24 &&& m34
  let m40 := m35 ^^^ m36
  let m41 := m38 ^^^ m40
  let m45 := m42 ^^^ m41
  let m53 := m45 &&& t27
  let p8 := m50 ^^^ m53
  let p23 := p7 ^^^ p8
  let m62 := m45 &&& t4
  let p14 := m49 ^^^ m62
  let s6 := p14 ^^^ p23
  let m54 := m41 &&& t10
  let p2 := m54 ^^^ m62
  let p22 := p2 ^^^ p7
  let s0 := p13 ^^^ p22
  let p17 := m58 ^^^ p2
  let p15 := m54 ^^^ m59
  let m63 := m41 &&& t2
  let m44 := m39 ^^^ m40
  let m46 := m44 &&& t6
  let p5 := m46 ^^^ m51
  let p18 := m63 ^^^ p5
  let p24 := p5 ^^^ p7
  let p12 := m46 ^^^ m48
  let s3 := p12 ^^^ p22
  let m55 := m44 &&& t13
  let p9 := m55 ^^^ m63
  let s7 := p9 ^^^ p16
  let m47 := m40 &&& t8
  let p3 := m47 ^^^ m50
  let p19 := p2 ^^^ p3
  let s5 := p19 ^^^ p24
  let p11 := p0 ^^^ p3
  let p26 := p9 ^^^ p11
  let m56 := m40 &&& t23
  let p4 := m48 ^^^ m56
  let p20 := p4 ^^^ p6
  let p29 := p15 ^^^ p20
  let s1 := p26 ^^^ p29
  let p10 := m57 ^^^ p4
  let p27 := p10 ^^^ p18
  let s4 := p23 ^^^ p27
  let p25 := p6 ^^^ p10
  let p28 := p11 ^^^ p25
  let s2 := p17 ^^^ p28
  { s0 := s7, s1 := s6, s2 := s5, s3 := s4, s4 := s3, s5 := s2, s6 := s1, s7 := s0 }

/-- the gate list of `inv_sub_bytes` at width 1: bit `i` of the byte plays the role of `state[i]` -/
def inv_sub_bytes_bit (x : BitVec 8) : BitVec 8 :=
  let u7 := x.extractLsb' 0 1
  let u6 := x.extractLsb' 1 1
  let u5 := x.extractLsb' 2 1
  let u4 := x.extractLsb' 3 1
  let u3 := x.extractLsb' 4 1
  let u2 := x.extractLsb' 5 1
  let u1 := x.extractLsb' 6 1
  let u0 := x.extractLsb' 7 1
  let t23 := u0 ^^^ u3
  let t8 := u1 ^^^ t23
  let m2 := t23 &&& t8
  let t4 := u4 ^^^ t8
  let t22 := u1 ^^^ u3
  let t2 := u0 ^^^ u1
  let t1 := u3 ^^^ u4
  let t9 := u7 ^^^ t1
  let m7 := t22 &&& t9
  let t24 := u4 ^^^ u7
  let t10 := t2 ^^^ t24
  let m14 := t2 &&& t10
  let r5 := u6 ^^^ u7
  let t3 := t1 ^^^ r5
  let t13 := t2 ^^^ r5
  let t19 := t22 ^^^ r5
  let t17 := u2 ^^^ t19
  let t25 := u2 ^^^ t1
  let r13 := u1 ^^^ u6
  let t20 := t24 ^^^ r13
  let m9 := t20 &&& t17
  let r17 := u2 ^^^ u5
  let t6 := t22 ^^^ r17
  let m1 := t13 &&& t6
  let y5 := u0 ^^^ r17
  let m4 := t19 &&& y5
  let m5 := m4 ^^^ m1
  let m17 := m5 ^^^ t24
  let r18 := u5 ^^^ u6
  let t27 := t1 ^^^ r18
  let t15 := t10 ^^^ t27
  let m11 := t1 &&& t15
  let m15 := m14 ^^^ m11
  let m21 := m17 ^^^ m15
  let m12 := t4 &&& t27
  let m13 := m12 ^^^ m11
  let t14 := t10 ^^^ r18
  let m3 := t14 ^^^ m1
  let m16 := m3 ^^^ m2
  let m20 := m16 ^^^ m13
  let r19 := u2 ^^^ u4
  let t16 := r13 ^^^ r19
  let t26 := t3 ^^^ t16
  let m6 := t3 &&& t16
  let m8 := t26 ^^^ m6
  let m18 := m8 ^^^ m7
  let m22 := m18 ^^^ m13
  let m25 := m22 &&& m20
  let m26 := m21 ^^^ m25
  let m10 := m9 ^^^ m6
  let m19 := m10 ^^^ m15
  let m23 := m19 ^^^ t25
  let m28 := m23 ^^^ m25
  let m24 := m22 ^^^ m23
  let m30 := m26 &&& m24
  let m39 := m23 ^^^ m30
  let m48 := m39 &&& y5
  let m57 := m39 &&& t19
  let m36 := m24 ^^^ m25
  let m31 := m20 &&& m23
  let m27 := m20 ^^^ m21
  let m32 := m27 &&& m31
  let m29 := m28 &&& m27
  let m37 := m21 ^^^ m29
  let m42 := m37 ^^^ m39
  let m52 := m42 &&& t15
  let m61 := m42 &&& t1
  let p0 := m52 ^^^ m61
  let p16 := m57 ^^^ m61
  let m60 := m37 &&& t20
  let m51 := m37 &&& t17
  let m33 := m27 ^^^ m25
  let m38 := m32 ^^^ m33
  let m43 := m37 ^^^ m38
  let m49 := m43 &&& t16
  let p6 := m49 ^^^ m60
  let p13 := m49 ^^^ m51
  let m58 := m43 &&& t3
  let m50 := m38 &&& t9
  let m59 := m38 &&& t22
  let p1 := m58 ^^^ m59
  let p7 := p0 ^^^ p1
  let m34 := m21 &&& m22
  let m35 := m24 &&& m34
  let m40 := m35 ^^^ m36
  let m41 := m38 ^^^ m40
  let m45 := m42 ^^^ m41
  let m53 := m45 &&& t27
  let p8 := m50 ^^^ m53
  let p23 := p7 ^^^ p8
  let m62 := m45 &&& t4
  let p14 := m49 ^^^ m62
  let s6 := p14 ^^^ p23
  let m54 := m41 &&& t10
  let p2 := m54 ^^^ m62
  let p22 := p2 ^^^ p7
  let s0 := p13 ^^^ p22
  let p17 := m58 ^^^ p2
  let p15 := m54 ^^^ m59
  let m63 := m41 &&& t2
  let m44 := m39 ^^^ m40
  let m46 := m44 &&& t6
  let p5 := m46 ^^^ m51
  let p18 := m63 ^^^ p5
  let p24 := p5 ^^^ p7
  let p12 := m46 ^^^ m48
  let s3 := p12 ^^^ p22
  let m55 := m44 &&& t13
  let p9 := m55 ^^^ m63
  let s7 := p9 ^^^ p16
  let m47 := m40 &&& t8
  let p3 := m47 ^^^ m50
  let p19 := p2 ^^^ p3
  let s5 := p19 ^^^ p24
  let p11 := p0 ^^^ p3
  let p26 := p9 ^^^ p11
  let m56 := m40 &&& t23
  let p4 := m48 ^^^ m56
  let p20 := p4 ^^^ p6
  let p29 := p15 ^^^ p20
  let s1 := p26 ^^^ p29
  let p10 := m57 ^^^ p4
  let p27 := p10 ^^^ p18
  let s4 := p23 ^^^ p27
  let p25 := p6 ^^^ p10
  let p28 := p11 ^^^ p25
  let s2 := p17 ^^^ p28
  (s7.setWidth 8 <<< 0) |||
  (s6.setWidth 8 <<< 1) |||
  (s5.setWidth 8 <<< 2) |||
  (s4.setWidth 8 <<< 3) |||
  (s3.setWidth 8 <<< 4) |||
  (s2.setWidth 8 <<< 5) |||
  (s1.setWidth 8 <<< 6) |||
  (s0.setWidth 8 <<< 7)

-- END generated

/-- `sub_bytes_nots`: the four NOTs omitted in `sub_bytes` -/
def sub_bytes_nots (s : St) : St :=
  { s with
    s0 := s.s0 ^^^ 0xffffffff#32
    s1 := s.s1 ^^^ 0xffffffff#32
    s5 := s.s5 ^^^ 0xffffffff#32
    s6 := s.s6 ^^^ 0xffffffff#32 }

/-! ### MixColumns (`define_mix_columns!`) -/

/-- body of `$name` in `define_mix_columns!` with `$first_rotate = r1`, `$second_rotate = r2` -/
def mix_columns_gen (r1 r2 : BitVec 32 → BitVec 32) (s : St) : St :=
  let a0 := s.s0; let a1 := s.s1; let a2 := s.s2; let a3 := s.s3
  let a4 := s.s4; let a5 := s.s5; let a6 := s.s6; let a7 := s.s7
  let b0 := r1 a0; let b1 := r1 a1; let b2 := r1 a2; let b3 := r1 a3
  let b4 := r1 a4; let b5 := r1 a5; let b6 := r1 a6; let b7 := r1 a7
  let c0 := a0 ^^^ b0; let c1 := a1 ^^^ b1; let c2 := a2 ^^^ b2; let c3 := a3 ^^^ b3
  let c4 := a4 ^^^ b4; let c5 := a5 ^^^ b5; let c6 := a6 ^^^ b6; let c7 := a7 ^^^ b7
  { s0 := b0 ^^^ c7 ^^^ r2 c0
    s1 := b1 ^^^ c0 ^^^ c7 ^^^ r2 c1
    s2 := b2 ^^^ c1 ^^^ r2 c2
    s3 := b3 ^^^ c2 ^^^ c7 ^^^ r2 c3
    s4 := b4 ^^^ c3 ^^^ c7 ^^^ r2 c4
    s5 := b5 ^^^ c4 ^^^ r2 c5
    s6 := b6 ^^^ c5 ^^^ r2 c6
    s7 := b7 ^^^ c6 ^^^ r2 c7 }

/-- body of `$name_inv` in `define_mix_columns!` -/
def inv_mix_columns_gen (r1 r2 : BitVec 32 → BitVec 32) (s : St) : St :=
  let a0 := s.s0; let a1 := s.s1; let a2 := s.s2; let a3 := s.s3
  let a4 := s.s4; let a5 := s.s5; let a6 := s.s6; let a7 := s.s7
  let b0 := r1 a0; let b1 := r1 a1; let b2 := r1 a2; let b3 := r1 a3
  let b4 := r1 a4; let b5 := r1 a5; let b6 := r1 a6; let b7 := r1 a7
  let c0 := a0 ^^^ b0; let c1 := a1 ^^^ b1; let c2 := a2 ^^^ b2; let c3 := a3 ^^^ b3
  let c4 := a4 ^^^ b4; let c5 := a5 ^^^ b5; let c6 := a6 ^^^ b6; let c7 := a7 ^^^ b7
  let d0 := a0 ^^^ c7
  let d1 := a1 ^^^ c0 ^^^ c7
  let d2 := a2 ^^^ c1
  let d3 := a3 ^^^ c2 ^^^ c7
  let d4 := a4 ^^^ c3 ^^^ c7
  let d5 := a5 ^^^ c4
  let d6 := a6 ^^^ c5
  let d7 := a7 ^^^ c6
  let e0 := c0 ^^^ d6
  let e1 := c1 ^^^ d6 ^^^ d7
  let e2 := c2 ^^^ d0 ^^^ d7
  let e3 := c3 ^^^ d1 ^^^ d6
  let e4 := c4 ^^^ d2 ^^^ d6 ^^^ d7
  let e5 := c5 ^^^ d3 ^^^ d7
  let e6 := c6 ^^^ d4
  let e7 := c7 ^^^ d5
  { s0 := d0 ^^^ e0 ^^^ r2 e0
    s1 := d1 ^^^ e1 ^^^ r2 e1
    s2 := d2 ^^^ e2 ^^^ r2 e2
    s3 := d3 ^^^ e3 ^^^ r2 e3
    s4 := d4 ^^^ e4 ^^^ r2 e4
    s5 := d5 ^^^ e5 ^^^ r2 e5
    s6 := d6 ^^^ e6 ^^^ r2 e6
    s7 := d7 ^^^ e7 ^^^ r2 e7 }

def mix_columns_0 : St → St := mix_columns_gen rotate_rows_1 rotate_rows_2
def inv_mix_columns_0 : St → St := inv_mix_columns_gen rotate_rows_1 rotate_rows_2
def mix_columns_1 : St → St := mix_columns_gen rotate_rows_and_columns_1_1 rotate_rows_and_columns_2_2
def inv_mix_columns_1 : St → St := inv_mix_columns_gen rotate_rows_and_columns_1_1 rotate_rows_and_columns_2_2
/-- `cfg(not(aes_compact))` -/
def mix_columns_2 : St → St := mix_columns_gen rotate_rows_and_columns_1_2 rotate_rows_2
def inv_mix_columns_2 : St → St := inv_mix_columns_gen rotate_rows_and_columns_1_2 rotate_rows_2
/-- `cfg(not(aes_compact))` -/
def mix_columns_3 : St → St := mix_columns_gen rotate_rows_and_columns_1_3 rotate_rows_and_columns_2_2
def inv_mix_columns_3 : St → St := inv_mix_columns_gen rotate_rows_and_columns_1_3 rotate_rows_and_columns_2_2

/-! ### ShiftRows -/

def shift_rows_1_w (x : BitVec 32) : BitVec 32 :=
  delta_swap_1 (delta_swap_1 x 4 0x0c0f0300#32) 2 0x33003300#32
def shift_rows_2_w (x : BitVec 32) : BitVec 32 :=
  delta_swap_1 x 4 0x0f000f00#32
def shift_rows_3_w (x : BitVec 32) : BitVec 32 :=
  delta_swap_1 (delta_swap_1 x 4 0x030f0c00#32) 2 0x33003300#32

/-- `cfg(any(not(aes_compact), feature = "hazmat"))` -/
def shift_rows_1 (s : St) : St := s.map shift_rows_1_w
def shift_rows_2 (s : St) : St := s.map shift_rows_2_w
def shift_rows_3 (s : St) : St := s.map shift_rows_3_w
def inv_shift_rows_1 (s : St) : St := shift_rows_3 s
def inv_shift_rows_2 (s : St) : St := shift_rows_2 s
/-- `cfg(not(aes_compact))` -/
def inv_shift_rows_3 (s : St) : St := shift_rows_1 s

/-! ### key-schedule helpers -/

def xor_columns_w (idx_ror : Nat) (prev cur : BitVec 32) : BitVec 32 :=
  let rk := prev ^^^ (0x03030303#32 &&& ror cur idx_ror)
  rk ^^^ (0xfcfcfcfc#32 &&& (rk <<< 2))
     ^^^ (0xf0f0f0f0#32 &&& (rk <<< 4))
     ^^^ (0xc0c0c0c0#32 &&& (rk <<< 6))

/-- `xor_columns` on the two 8-word slices it touches: `prev = rkeys[offset-idx_xor..]`, `cur = rkeys[offset..]` -/
def xor_columns_st (prev cur : St) (idx_ror : Nat) : St := St.zip (xor_columns_w idx_ror) prev cur

/-- total array accessors for `Array St` views of `rkeys` -/
def rd (a : Array St) (i : Nat) : St := a.getD i St.zero
def wr (a : Array St) (i : Nat) (v : St) : Array St := a.setIfInBounds i v
def upd (a : Array St) (i : Nat) (f : St → St) : Array St := wr a i (f (rd a i))

/-- `xor_columns(rkeys, offset, idx_xor, idx_ror)` -/
def xor_columns (rkeys : Array St) (offset idx_xor idx_ror : Nat) : Array St :=
  wr rkeys (offset / 8) (xor_columns_st (rd rkeys ((offset - idx_xor) / 8)) (rd rkeys (offset / 8)) idx_ror)

/-- `memshift32(buffer, src_offset)`: copy the 8 words at `src_offset` to `src_offset + 8` -/
def memshift32 (buffer : Array St) (src_offset : Nat) : Array St :=
  wr buffer (src_offset / 8 + 1) (rd buffer (src_offset / 8))

def add_round_key (state rkey : St) : St := St.zip (· ^^^ ·) state rkey

def add_round_constant_bit (state : St) (bit : Nat) : St :=
  state.modify bit (· ^^^ 0x0000c000#32)

/-! ### bitslice / inv_bitslice -/

/-- `u32::from_le_bytes(input[off..off+4])` of a 16-byte block (byte 0 = most significant byte of the `BitVec 128`) -/
def le32 (b : BitVec 128) (off : Nat) : BitVec 32 :=
  ((b.extractLsb' (8 * (15 - off)) 8).setWidth 32) |||
  ((b.extractLsb' (8 * (15 - (off + 1))) 8).setWidth 32 <<< 8) |||
  ((b.extractLsb' (8 * (15 - (off + 2))) 8).setWidth 32 <<< 16) |||
  ((b.extractLsb' (8 * (15 - (off + 3))) 8).setWidth 32 <<< 24)

/-- the three layers of bit-index swaps shared by `bitslice` and `inv_bitslice` -/
def index_swaps (t0 t1 t2 t3 t4 t5 t6 t7 : BitVec 32) : St :=
  let m0 := 0x55555555#32
  let p := delta_swap_2 t1 t0 1 m0; let t1 := p.a; let t0 := p.b
  let p := delta_swap_2 t3 t2 1 m0; let t3 := p.a; let t2 := p.b
  let p := delta_swap_2 t5 t4 1 m0; let t5 := p.a; let t4 := p.b
  let p := delta_swap_2 t7 t6 1 m0; let t7 := p.a; let t6 := p.b
  let m1 := 0x33333333#32
  let p := delta_swap_2 t2 t0 2 m1; let t2 := p.a; let t0 := p.b
  let p := delta_swap_2 t3 t1 2 m1; let t3 := p.a; let t1 := p.b
  let p := delta_swap_2 t6 t4 2 m1; let t6 := p.a; let t4 := p.b
  let p := delta_swap_2 t7 t5 2 m1; let t7 := p.a; let t5 := p.b
  let m2 := 0x0f0f0f0f#32
  let p := delta_swap_2 t4 t0 4 m2; let t4 := p.a; let t0 := p.b
  let p := delta_swap_2 t5 t1 4 m2; let t5 := p.a; let t1 := p.b
  let p := delta_swap_2 t6 t2 4 m2; let t6 := p.a; let t2 := p.b
  let p := delta_swap_2 t7 t3 4 m2; let t7 := p.a; let t3 := p.b
  ⟨t0, t1, t2, t3, t4, t5, t6, t7⟩

/-- `bitslice(output, input0, input1)` -/
def bitslice (input0 input1 : BitVec 128) : St :=
  let t0 := le32 input0 0x00
  let t2 := le32 input0 0x04
  let t4 := le32 input0 0x08
  let t6 := le32 input0 0x0c
  let t1 := le32 input1 0x00
  let t3 := le32 input1 0x04
  let t5 := le32 input1 0x08
  let t7 := le32 input1 0x0c
  index_swaps t0 t1 t2 t3 t4 t5 t6 t7

def bitsliceB (b : Batch) : St := bitslice b.b0 b.b1

/-- `output[off..off+4].copy_from_slice(&t.to_le_bytes())` (the bytes it writes, others zero) -/
def putLe32 (t : BitVec 32) (off : Nat) : BitVec 128 :=
  (((t.extractLsb' 0 8).setWidth 128) <<< (8 * (15 - off))) |||
  (((t.extractLsb' 8 8).setWidth 128) <<< (8 * (15 - (off + 1)))) |||
  (((t.extractLsb' 16 8).setWidth 128) <<< (8 * (15 - (off + 2)))) |||
  (((t.extractLsb' 24 8).setWidth 128) <<< (8 * (15 - (off + 3))))

/-- `inv_bitslice(input)` -/
def inv_bitslice (input : St) : Batch :=
  let t := index_swaps input.s0 input.s1 input.s2 input.s3 input.s4 input.s5 input.s6 input.s7
  { b0 := putLe32 t.s0 0x00 ||| putLe32 t.s2 0x04 ||| putLe32 t.s4 0x08 ||| putLe32 t.s6 0x0c
    b1 := putLe32 t.s1 0x00 ||| putLe32 t.s3 0x04 ||| putLe32 t.s5 0x08 ||| putLe32 t.s7 0x0c }

/-- `(lo..hi).step_by(step)` -/
def stepBy (lo hi step : Nat) : List Nat :=
  (List.range ((hi - lo + step - 1) / step)).map (fun j => lo + j * step)

/-! ### key schedules -/

/-- one iteration of `for rcon in 0..10` in `aes128_key_schedule` (returns the new `rkeys`, `rk_off`) -/
def aes128_ks_iter (st : Array St × Nat) (rcon : Nat) : Array St × Nat :=
  let rkeys := st.1; let rk_off := st.2
  let rkeys := memshift32 rkeys rk_off
  let rk_off := rk_off + 8
  let rkeys := upd rkeys (rk_off / 8) sub_bytes
  let rkeys := upd rkeys (rk_off / 8) sub_bytes_nots
  let rkeys :=
    if rcon < 8 then
      upd rkeys (rk_off / 8) (add_round_constant_bit · rcon)
    else
      let rkeys := upd rkeys (rk_off / 8) (add_round_constant_bit · (rcon - 8))
      let rkeys := upd rkeys (rk_off / 8) (add_round_constant_bit · (rcon - 7))
      let rkeys := upd rkeys (rk_off / 8) (add_round_constant_bit · (rcon - 5))
      upd rkeys (rk_off / 8) (add_round_constant_bit · (rcon - 4))
  let rkeys := xor_columns rkeys rk_off 8 (ror_distance 1 3)
  (rkeys, rk_off)

/-- `aes128_key_schedule` up to (excluding) the "Adjust to match fixslicing format" block -/
def aes128_key_schedule_raw (key : BitVec 128) : Array St :=
  let rkeys := Array.replicate 11 St.zero
  let rkeys := wr rkeys 0 (bitslice key key)
  ((List.range 10).foldl aes128_ks_iter (rkeys, 0)).1

/-- "Account for NOTs removed from sub_bytes": `for i in 1..n { sub_bytes_nots(&mut rkeys[i*8..i*8+8]) }` -/
def ks_nots (n : Nat) (rkeys : Array St) : Array St :=
  (List.range' 1 (n - 1)).foldl (fun rk i => upd rk (i * 8 / 8) sub_bytes_nots) rkeys

/-- `cfg(not(aes_compact))` adjustment of `aes128_key_schedule` -/
def aes128_ks_adjust (rkeys : Array St) : Array St :=
  let rkeys := (stepBy 8 72 32).foldl (fun rk i =>
    let rk := upd rk (i / 8) inv_shift_rows_1
    let rk := upd rk ((i + 8) / 8) inv_shift_rows_2
    upd rk ((i + 16) / 8) inv_shift_rows_3) rkeys
  upd rkeys (72 / 8) inv_shift_rows_1

/-- `cfg(aes_compact)` adjustment: `for i in (8..hi).step_by(16) { inv_shift_rows_1(rkeys[i..i+8]) }` -/
def ks_adjust_compact (hi : Nat) (rkeys : Array St) : Array St :=
  (stepBy 8 hi 16).foldl (fun rk i => upd rk (i / 8) inv_shift_rows_1) rkeys

def aes128_key_schedule (key : BitVec 128) : Array St :=
  ks_nots 11 (aes128_ks_adjust (aes128_key_schedule_raw key))

def aes128_key_schedule_compact (key : BitVec 128) : Array St :=
  ks_nots 11 (ks_adjust_compact 88 (aes128_key_schedule_raw key))

/-- the `let mut` variables of `aes192_key_schedule` -/
structure Ks192 where
  rkeys : Array St
  tmp : St
  rcon : Nat
  rk_off : Nat

def ks192_A (tmp prev : BitVec 32) : BitVec 32 :=
  (0x0f0f0f0f#32 &&& (tmp >>> 4)) ||| (0xf0f0f0f0#32 &&& (prev <<< 4))

def ks192_B (rk tmp : BitVec 32) : BitVec 32 :=
  let ti := rk
  let ti := ti ^^^ (0x30303030#32 &&& ror tmp (ror_distance 1 1))
  let ti := ti ^^^ (0xc0c0c0c0#32 &&& (ti <<< 2))
  ti

def ks192_spread (ti : BitVec 32) : BitVec 32 :=
  ti ^^^ (0xfcfcfcfc#32 &&& (ti <<< 2))
     ^^^ (0xf0f0f0f0#32 &&& (ti <<< 4))
     ^^^ (0xc0c0c0c0#32 &&& (ti <<< 6))

def ks192_C (rk16 ui : BitVec 32) : BitVec 32 :=
  let ti := (0x0f0f0f0f#32 &&& (rk16 >>> 4)) ||| (0xf0f0f0f0#32 &&& (ui <<< 4))
  let ti := ti ^^^ (0x03030303#32 &&& (ui >>> 6))
  ks192_spread ti

def ks192_D (rk16 rk8 tmp : BitVec 32) : BitVec 32 :=
  let ti := (0x0f0f0f0f#32 &&& (rk16 >>> 4)) ||| (0xf0f0f0f0#32 &&& (rk8 <<< 4))
  let ti := ti ^^^ (0x03030303#32 &&& ror tmp (ror_distance 1 3))
  ks192_spread ti

def ks192_E (ui ti : BitVec 32) : BitVec 32 :=
  let ti := ti ^^^ (0x30303030#32 &&& (ui >>> 2))
  let ti := ti ^^^ (0xc0c0c0c0#32 &&& (ti <<< 2))
  ti

/-- the `loop { … }` of `aes192_key_schedule` (fuel = upper bound on iterations; 4 are executed) -/
def aes192_ks_loop : Nat → Ks192 → Ks192
  | 0, v => v
  | fuel + 1, v =>
    let rkeys := v.rkeys; let tmp := v.tmp; let rcon := v.rcon; let rk_off := v.rk_off
    -- for i in 0..8 { rkeys[rk_off + i] = … tmp[i] >> 8 … rkeys[(rk_off - 8) + i] << 8 }
    let rkeys := wr rkeys (rk_off / 8) (St.zip ks192_A tmp (rd rkeys ((rk_off - 8) / 8)))
    let tmp := sub_bytes tmp
    let tmp := sub_bytes_nots tmp
    let tmp := add_round_constant_bit tmp rcon
    let rcon := rcon + 1
    let tmp := St.zip ks192_B (rd rkeys (rk_off / 8)) tmp
    let rkeys := wr rkeys (rk_off / 8) tmp
    let rk_off := rk_off + 8
    let tmp := St.zip ks192_C (rd rkeys ((rk_off - 16) / 8)) tmp
    let rkeys := wr rkeys (rk_off / 8) tmp
    let rk_off := rk_off + 8
    let tmp := sub_bytes tmp
    let tmp := sub_bytes_nots tmp
    let tmp := add_round_constant_bit tmp rcon
    let rcon := rcon + 1
    let rkeys := wr rkeys (rk_off / 8)
      (St.zip3 ks192_D (rd rkeys ((rk_off - 16) / 8)) (rd rkeys ((rk_off - 8) / 8)) tmp)
    let rk_off := rk_off + 8
    if rcon ≥ 8 then ⟨rkeys, tmp, rcon, rk_off⟩ else
    let tmp := St.zip ks192_E (rd rkeys ((rk_off - 8) / 8)) (rd rkeys ((rk_off - 16) / 8))
    aes192_ks_loop fuel ⟨rkeys, tmp, rcon, rk_off⟩

/-- `key[..16]` and `key[8..]` of a 24-byte key -/
def key192_lo (key : BitVec 192) : BitVec 128 := key.extractLsb' 64 128
def key192_hi (key : BitVec 192) : BitVec 128 := key.extractLsb' 0 128

def aes192_key_schedule_raw (key : BitVec 192) : Array St :=
  let rkeys := Array.replicate 13 St.zero
  let k0 := key192_lo key
  let k1 := key192_hi key
  let rkeys := wr rkeys 0 (bitslice k0 k0)
  let tmp := bitslice k1 k1
  (aes192_ks_loop 8 ⟨rkeys, tmp, 0, 8⟩).rkeys

/-- `cfg(not(aes_compact))` adjustment of `aes192_key_schedule` -/
def aes192_ks_adjust (rkeys : Array St) : Array St :=
  (stepBy 0 96 32).foldl (fun rk i =>
    let rk := upd rk ((i + 8) / 8) inv_shift_rows_1
    let rk := upd rk ((i + 16) / 8) inv_shift_rows_2
    upd rk ((i + 24) / 8) inv_shift_rows_3) rkeys

def aes192_key_schedule (key : BitVec 192) : Array St :=
  ks_nots 13 (aes192_ks_adjust (aes192_key_schedule_raw key))

def aes192_key_schedule_compact (key : BitVec 192) : Array St :=
  ks_nots 13 (ks_adjust_compact 104 (aes192_key_schedule_raw key))

/-- the `loop { … }` of `aes256_key_schedule`: state = (rkeys, rk_off, rcon) -/
def aes256_ks_loop : Nat → Array St → Nat → Nat → Array St
  | 0, rkeys, _, _ => rkeys
  | fuel + 1, rkeys, rk_off, rcon =>
    let rkeys := memshift32 rkeys rk_off
    let rk_off := rk_off + 8
    let rkeys := upd rkeys (rk_off / 8) sub_bytes
    let rkeys := upd rkeys (rk_off / 8) sub_bytes_nots
    let rkeys := upd rkeys (rk_off / 8) (add_round_constant_bit · rcon)
    let rkeys := xor_columns rkeys rk_off 16 (ror_distance 1 3)
    let rcon := rcon + 1
    if rcon == 7 then rkeys else
    let rkeys := memshift32 rkeys rk_off
    let rk_off := rk_off + 8
    let rkeys := upd rkeys (rk_off / 8) sub_bytes
    let rkeys := upd rkeys (rk_off / 8) sub_bytes_nots
    let rkeys := xor_columns rkeys rk_off 16 (ror_distance 0 3)
    aes256_ks_loop fuel rkeys rk_off rcon

/-- `key[..16]` and `key[16..]` of a 32-byte key -/
def key256_lo (key : BitVec 256) : BitVec 128 := key.extractLsb' 128 128
def key256_hi (key : BitVec 256) : BitVec 128 := key.extractLsb' 0 128

def aes256_key_schedule_raw (key : BitVec 256) : Array St :=
  let rkeys := Array.replicate 15 St.zero
  let k0 := key256_lo key
  let k1 := key256_hi key
  let rkeys := wr rkeys 0 (bitslice k0 k0)
  let rkeys := wr rkeys 1 (bitslice k1 k1)
  aes256_ks_loop 16 rkeys 8 0

/-- `cfg(not(aes_compact))` adjustment of `aes256_key_schedule` -/
def aes256_ks_adjust (rkeys : Array St) : Array St :=
  let rkeys := (stepBy 8 104 32).foldl (fun rk i =>
    let rk := upd rk (i / 8) inv_shift_rows_1
    let rk := upd rk ((i + 8) / 8) inv_shift_rows_2
    upd rk ((i + 16) / 8) inv_shift_rows_3) rkeys
  upd rkeys (104 / 8) inv_shift_rows_1

def aes256_key_schedule (key : BitVec 256) : Array St :=
  ks_nots 15 (aes256_ks_adjust (aes256_key_schedule_raw key))

def aes256_key_schedule_compact (key : BitVec 256) : Array St :=
  ks_nots 15 (ks_adjust_compact 120 (aes256_key_schedule_raw key))

/-- view of a key-schedule result as the `Nat → St` the encrypt / decrypt functions take -/
def rkFn (a : Array St) : Nat → St := fun i => rd a i

/-! ### encryption / decryption.  `rkeys (rk_off / 8)` is the slice `rkeys[rk_off..rk_off+8]`.
Every `loop { … break … }` is a fuel-recursive function (fuel 16 ≥ the 2–4 iterations executed);
`Proofs/AesFs32RoundTrip` unrolls them by `rfl`. -/

def aes128_encrypt_loop (rkeys : Nat → St) : Nat → Nat → St → St
  | 0, _, state => state
  | fuel + 1, rk_off, state =>
    let state := sub_bytes state
    let state := mix_columns_1 state
    let state := add_round_key state (rkeys (rk_off / 8))
    let rk_off := rk_off + 8
    if rk_off == 80 then state else
    let state := sub_bytes state
    let state := mix_columns_2 state
    let state := add_round_key state (rkeys (rk_off / 8))
    let rk_off := rk_off + 8
    let state := sub_bytes state
    let state := mix_columns_3 state
    let state := add_round_key state (rkeys (rk_off / 8))
    let rk_off := rk_off + 8
    let state := sub_bytes state
    let state := mix_columns_0 state
    let state := add_round_key state (rkeys (rk_off / 8))
    let rk_off := rk_off + 8
    aes128_encrypt_loop rkeys fuel rk_off state

def aes128_encrypt (rkeys : Nat → St) (blocks : Batch) : Batch :=
  let state := bitslice blocks.b0 blocks.b1
  let state := add_round_key state (rkeys 0)
  let state := aes128_encrypt_loop rkeys 16 8 state
  let state := shift_rows_2 state
  let state := sub_bytes state
  let state := add_round_key state (rkeys (80 / 8))
  inv_bitslice state

def aes128_encrypt_loop_compact (rkeys : Nat → St) : Nat → Nat → St → St
  | 0, _, state => state
  | fuel + 1, rk_off, state =>
    let state := sub_bytes state
    let state := mix_columns_1 state
    let state := add_round_key state (rkeys (rk_off / 8))
    let rk_off := rk_off + 8
    let state := shift_rows_2 state
    if rk_off == 80 then state else
    let state := sub_bytes state
    let state := mix_columns_0 state
    let state := add_round_key state (rkeys (rk_off / 8))
    let rk_off := rk_off + 8
    aes128_encrypt_loop_compact rkeys fuel rk_off state

def aes128_encrypt_compact (rkeys : Nat → St) (blocks : Batch) : Batch :=
  let state := bitslice blocks.b0 blocks.b1
  let state := add_round_key state (rkeys 0)
  let state := aes128_encrypt_loop_compact rkeys 16 8 state
  let state := sub_bytes state
  let state := add_round_key state (rkeys (80 / 8))
  inv_bitslice state

def aes128_decrypt_loop (rkeys : Nat → St) : Nat → Nat → St → St
  | 0, _, state => state
  | fuel + 1, rk_off, state =>
    let state := add_round_key state (rkeys (rk_off / 8))
    let state := inv_mix_columns_1 state
    let state := inv_sub_bytes state
    let rk_off := rk_off - 8
    if rk_off == 0 then state else
    let state := add_round_key state (rkeys (rk_off / 8))
    let state := inv_mix_columns_0 state
    let state := inv_sub_bytes state
    let rk_off := rk_off - 8
    let state := add_round_key state (rkeys (rk_off / 8))
    let state := inv_mix_columns_3 state
    let state := inv_sub_bytes state
    let rk_off := rk_off - 8
    let state := add_round_key state (rkeys (rk_off / 8))
    let state := inv_mix_columns_2 state
    let state := inv_sub_bytes state
    let rk_off := rk_off - 8
    aes128_decrypt_loop rkeys fuel rk_off state

def aes128_decrypt (rkeys : Nat → St) (blocks : Batch) : Batch :=
  let state := bitslice blocks.b0 blocks.b1
  let state := add_round_key state (rkeys (80 / 8))
  let state := inv_sub_bytes state
  let state := inv_shift_rows_2 state
  let state := aes128_decrypt_loop rkeys 16 72 state
  let state := add_round_key state (rkeys 0)
  inv_bitslice state

def aes128_decrypt_loop_compact (rkeys : Nat → St) : Nat → Nat → St → St
  | 0, _, state => state
  | fuel + 1, rk_off, state =>
    let state := inv_shift_rows_2 state
    let state := add_round_key state (rkeys (rk_off / 8))
    let state := inv_mix_columns_1 state
    let state := inv_sub_bytes state
    let rk_off := rk_off - 8
    if rk_off == 0 then state else
    let state := add_round_key state (rkeys (rk_off / 8))
    let state := inv_mix_columns_0 state
    let state := inv_sub_bytes state
    let rk_off := rk_off - 8
    aes128_decrypt_loop_compact rkeys fuel rk_off state

def aes128_decrypt_compact (rkeys : Nat → St) (blocks : Batch) : Batch :=
  let state := bitslice blocks.b0 blocks.b1
  let state := add_round_key state (rkeys (80 / 8))
  let state := inv_sub_bytes state
  let state := aes128_decrypt_loop_compact rkeys 16 72 state
  let state := add_round_key state (rkeys 0)
  inv_bitslice state

def aes192_encrypt_loop (rkeys : Nat → St) : Nat → Nat → St → St
  | 0, _, state => state
  | fuel + 1, rk_off, state =>
    let state := sub_bytes state
    let state := mix_columns_1 state
    let state := add_round_key state (rkeys (rk_off / 8))
    let rk_off := rk_off + 8
    let state := sub_bytes state
    let state := mix_columns_2 state
    let state := add_round_key state (rkeys (rk_off / 8))
    let rk_off := rk_off + 8
    let state := sub_bytes state
    let state := mix_columns_3 state
    let state := add_round_key state (rkeys (rk_off / 8))
    let rk_off := rk_off + 8
    if rk_off == 96 then state else
    let state := sub_bytes state
    let state := mix_columns_0 state
    let state := add_round_key state (rkeys (rk_off / 8))
    let rk_off := rk_off + 8
    aes192_encrypt_loop rkeys fuel rk_off state

def aes192_encrypt (rkeys : Nat → St) (blocks : Batch) : Batch :=
  let state := bitslice blocks.b0 blocks.b1
  let state := add_round_key state (rkeys 0)
  let state := aes192_encrypt_loop rkeys 16 8 state
  let state := sub_bytes state
  let state := add_round_key state (rkeys (96 / 8))
  inv_bitslice state

def aes192_encrypt_loop_compact (rkeys : Nat → St) : Nat → Nat → St → St
  | 0, _, state => state
  | fuel + 1, rk_off, state =>
    let state := sub_bytes state
    let state := mix_columns_1 state
    let state := add_round_key state (rkeys (rk_off / 8))
    let rk_off := rk_off + 8
    let state := shift_rows_2 state
    if rk_off == 96 then state else
    let state := sub_bytes state
    let state := mix_columns_0 state
    let state := add_round_key state (rkeys (rk_off / 8))
    let rk_off := rk_off + 8
    aes192_encrypt_loop_compact rkeys fuel rk_off state

def aes192_encrypt_compact (rkeys : Nat → St) (blocks : Batch) : Batch :=
  let state := bitslice blocks.b0 blocks.b1
  let state := add_round_key state (rkeys 0)
  let state := aes192_encrypt_loop_compact rkeys 16 8 state
  let state := sub_bytes state
  let state := add_round_key state (rkeys (96 / 8))
  inv_bitslice state

def aes192_decrypt_loop (rkeys : Nat → St) : Nat → Nat → St → St
  | 0, _, state => state
  | fuel + 1, rk_off, state =>
    let state := add_round_key state (rkeys (rk_off / 8))
    let state := inv_mix_columns_3 state
    let state := inv_sub_bytes state
    let rk_off := rk_off - 8
    let state := add_round_key state (rkeys (rk_off / 8))
    let state := inv_mix_columns_2 state
    let state := inv_sub_bytes state
    let rk_off := rk_off - 8
    let state := add_round_key state (rkeys (rk_off / 8))
    let state := inv_mix_columns_1 state
    let state := inv_sub_bytes state
    let rk_off := rk_off - 8
    if rk_off == 0 then state else
    let state := add_round_key state (rkeys (rk_off / 8))
    let state := inv_mix_columns_0 state
    let state := inv_sub_bytes state
    let rk_off := rk_off - 8
    aes192_decrypt_loop rkeys fuel rk_off state

def aes192_decrypt (rkeys : Nat → St) (blocks : Batch) : Batch :=
  let state := bitslice blocks.b0 blocks.b1
  let state := add_round_key state (rkeys (96 / 8))
  let state := inv_sub_bytes state
  let state := aes192_decrypt_loop rkeys 16 88 state
  let state := add_round_key state (rkeys 0)
  inv_bitslice state

def aes192_decrypt_loop_compact (rkeys : Nat → St) : Nat → Nat → St → St
  | 0, _, state => state
  | fuel + 1, rk_off, state =>
    let state := inv_shift_rows_2 state
    let state := add_round_key state (rkeys (rk_off / 8))
    let state := inv_mix_columns_1 state
    let state := inv_sub_bytes state
    let rk_off := rk_off - 8
    if rk_off == 0 then state else
    let state := add_round_key state (rkeys (rk_off / 8))
    let state := inv_mix_columns_0 state
    let state := inv_sub_bytes state
    let rk_off := rk_off - 8
    aes192_decrypt_loop_compact rkeys fuel rk_off state

def aes192_decrypt_compact (rkeys : Nat → St) (blocks : Batch) : Batch :=
  let state := bitslice blocks.b0 blocks.b1
  let state := add_round_key state (rkeys (96 / 8))
  let state := inv_sub_bytes state
  let state := aes192_decrypt_loop_compact rkeys 16 88 state
  let state := add_round_key state (rkeys 0)
  inv_bitslice state

def aes256_encrypt_loop (rkeys : Nat → St) : Nat → Nat → St → St
  | 0, _, state => state
  | fuel + 1, rk_off, state =>
    let state := sub_bytes state
    let state := mix_columns_1 state
    let state := add_round_key state (rkeys (rk_off / 8))
    let rk_off := rk_off + 8
    if rk_off == 112 then state else
    let state := sub_bytes state
    let state := mix_columns_2 state
    let state := add_round_key state (rkeys (rk_off / 8))
    let rk_off := rk_off + 8
    let state := sub_bytes state
    let state := mix_columns_3 state
    let state := add_round_key state (rkeys (rk_off / 8))
    let rk_off := rk_off + 8
    let state := sub_bytes state
    let state := mix_columns_0 state
    let state := add_round_key state (rkeys (rk_off / 8))
    let rk_off := rk_off + 8
    aes256_encrypt_loop rkeys fuel rk_off state

def aes256_encrypt (rkeys : Nat → St) (blocks : Batch) : Batch :=
  let state := bitslice blocks.b0 blocks.b1
  let state := add_round_key state (rkeys 0)
  let state := aes256_encrypt_loop rkeys 16 8 state
  let state := shift_rows_2 state
  let state := sub_bytes state
  let state := add_round_key state (rkeys (112 / 8))
  inv_bitslice state

def aes256_encrypt_loop_compact (rkeys : Nat → St) : Nat → Nat → St → St
  | 0, _, state => state
  | fuel + 1, rk_off, state =>
    let state := sub_bytes state
    let state := mix_columns_1 state
    let state := add_round_key state (rkeys (rk_off / 8))
    let rk_off := rk_off + 8
    let state := shift_rows_2 state
    if rk_off == 112 then state else
    let state := sub_bytes state
    let state := mix_columns_0 state
    let state := add_round_key state (rkeys (rk_off / 8))
    let rk_off := rk_off + 8
    aes256_encrypt_loop_compact rkeys fuel rk_off state

def aes256_encrypt_compact (rkeys : Nat → St) (blocks : Batch) : Batch :=
  let state := bitslice blocks.b0 blocks.b1
  let state := add_round_key state (rkeys 0)
  let state := aes256_encrypt_loop_compact rkeys 16 8 state
  let state := sub_bytes state
  let state := add_round_key state (rkeys (112 / 8))
  inv_bitslice state

def aes256_decrypt_loop (rkeys : Nat → St) : Nat → Nat → St → St
  | 0, _, state => state
  | fuel + 1, rk_off, state =>
    let state := add_round_key state (rkeys (rk_off / 8))
    let state := inv_mix_columns_1 state
    let state := inv_sub_bytes state
    let rk_off := rk_off - 8
    if rk_off == 0 then state else
    let state := add_round_key state (rkeys (rk_off / 8))
    let state := inv_mix_columns_0 state
    let state := inv_sub_bytes state
    let rk_off := rk_off - 8
    let state := add_round_key state (rkeys (rk_off / 8))
    let state := inv_mix_columns_3 state
    let state := inv_sub_bytes state
    let rk_off := rk_off - 8
    let state := add_round_key state (rkeys (rk_off / 8))
    let state := inv_mix_columns_2 state
    let state := inv_sub_bytes state
    let rk_off := rk_off - 8
    aes256_decrypt_loop rkeys fuel rk_off state

def aes256_decrypt (rkeys : Nat → St) (blocks : Batch) : Batch :=
  let state := bitslice blocks.b0 blocks.b1
  let state := add_round_key state (rkeys (112 / 8))
  let state := inv_sub_bytes state
  let state := inv_shift_rows_2 state
  let state := aes256_decrypt_loop rkeys 16 104 state
  let state := add_round_key state (rkeys 0)
  inv_bitslice state

def aes256_decrypt_loop_compact (rkeys : Nat → St) : Nat → Nat → St → St
  | 0, _, state => state
  | fuel + 1, rk_off, state =>
    let state := inv_shift_rows_2 state
    let state := add_round_key state (rkeys (rk_off / 8))
    let state := inv_mix_columns_1 state
    let state := inv_sub_bytes state
    let rk_off := rk_off - 8
    if rk_off == 0 then state else
    let state := add_round_key state (rkeys (rk_off / 8))
    let state := inv_mix_columns_0 state
    let state := inv_sub_bytes state
    let rk_off := rk_off - 8
    aes256_decrypt_loop_compact rkeys fuel rk_off state

def aes256_decrypt_compact (rkeys : Nat → St) (blocks : Batch) : Batch :=
  let state := bitslice blocks.b0 blocks.b1
  let state := add_round_key state (rkeys (112 / 8))
  let state := inv_sub_bytes state
  let state := aes256_decrypt_loop_compact rkeys 16 104 state
  let state := add_round_key state (rkeys 0)
  inv_bitslice state

/-! ### `soft.rs`: `encrypt_block` / `decrypt_block` put the block into slot 0 of a zeroed batch
(`BatchBlocks::default()`), run the 2-block function and return `res[0]`. -/

def single (f : Batch → Batch) (block : BitVec 128) : BitVec 128 :=
  (f { b0 := block, b1 := 0 }).b0

/-! ### hazmat (soft backend, `fixslice::hazmat`) -/
namespace hazmat

def bitslice_block (block : BitVec 128) : St := bitslice block block
def inv_bitslice_block (state : St) : BitVec 128 := (inv_bitslice state).b0

def cipher_round (block round_key : BitVec 128) : BitVec 128 :=
  let state := bitslice_block block
  let state := sub_bytes state
  let state := sub_bytes_nots state
  let state := shift_rows_1 state
  let state := mix_columns_0 state
  inv_bitslice_block state ^^^ round_key

def equiv_inv_cipher_round (block round_key : BitVec 128) : BitVec 128 :=
  let state := bitslice_block block
  let state := sub_bytes_nots state
  let state := inv_sub_bytes state
  let state := inv_shift_rows_1 state
  let state := inv_mix_columns_0 state
  inv_bitslice_block state ^^^ round_key

/-- one 2-block chunk of `cipher_round_par` -/
def cipher_round_par2 (chunk keys : Batch) : Batch :=
  let state := bitslice chunk.b0 chunk.b1
  let state := sub_bytes state
  let state := sub_bytes_nots state
  let state := shift_rows_1 state
  let state := mix_columns_0 state
  let res := inv_bitslice state
  ⟨res.b0 ^^^ keys.b0, res.b1 ^^^ keys.b1⟩

/-- one 2-block chunk of `equiv_inv_cipher_round_par` -/
def equiv_inv_cipher_round_par2 (chunk keys : Batch) : Batch :=
  let state := bitslice chunk.b0 chunk.b1
  let state := sub_bytes_nots state
  let state := inv_sub_bytes state
  let state := inv_shift_rows_1 state
  let state := inv_mix_columns_0 state
  let res := inv_bitslice state
  ⟨res.b0 ^^^ keys.b0, res.b1 ^^^ keys.b1⟩

def mix_columns (block : BitVec 128) : BitVec 128 :=
  inv_bitslice_block (mix_columns_0 (bitslice_block block))

def inv_mix_columns (block : BitVec 128) : BitVec 128 :=
  inv_bitslice_block (inv_mix_columns_0 (bitslice_block block))

end hazmat

end BC.AesFs32
