import BlockCiphers.Prelude.Bytes
/-
Model of /repo/twofish/src/lib.rs + consts.rs (Twofish, 128-bit block, 128/192/256-bit key,
little-endian 32-bit words).  Mirrors the Rust as written:

* `gf_mult`   : the shift-and-add loop on `(a, b, result)` (the `while a > 0` loop runs at most 8 times
  because `a >>= 1` each time; modelled with fuel 8);
* `sbox(i,x)` : the q-permutation computed from the four 4-bit rows `QBOX[i][0..4]`;
* `mds_column_mult`, `mds_mult`, `rs_mult`, `h` (with the `k == 4`, `k >= 3` guards and the byte offsets
  `4*(6+offset)` …), `g_func` (with the `QORD[y][z]` / `start` trick), `key_schedule`;
* `encrypt_block` / `decrypt_block` : whitening, 8 double rounds (no word swaps, as coded), output whitening.

`encryptWith g K` / `decryptWith g K` are the block functions for an arbitrary `g` and an arbitrary sub-key
vector; the cipher instantiates them with `g_func` and `self.k`.

The `c20_*` lemmas named below are in `Proofs/TwofishC20.lean`.

-- C20-SITE: gf_mult: b << 1, b <<= 1, a >>= 1 : shifts by a constant < 8 (never panic)
-- C20-SITE: sbox: QBOX[i] : i ∈ {0,1} — `QORD` entries and the literals of `h` (`c20_qord_lt`)
-- C20-SITE: sbox: QBOX[i][0][a1], QBOX[i][1][b1], QBOX[i][2][a3], QBOX[i][3][b3] : `c20_sbox_idx` (all four indices < 16, for all i, x)
-- C20-SITE: sbox: (b4 << 4) + a4 : `c20_sbox_add` (b4, a4 < 16, so the sum is < 256; for all i, x)
-- C20-SITE: mds_column_mult: match column { 0..3, _ => unreachable!() } : column is the loop counter 0..4 (control)
-- C20-SITE: mds_mult: y[i] : i < 4 (control)
-- C20-SITE: rs_mult: out[i], m[j], RS[i][j] : i < 4, j < 8, slices of length 4 and 8 (control)
-- C20-SITE: h: 4 * (6 + offset) + 3, 4 * (4 + offset) + 3, 4 * (2 + offset) + 3, 4 * offset + 3 as index of m :
--           `c20_h_idx` (offset ≤ 1: k = 4 ⇒ < 32, k ≥ 3 ⇒ < 24, always < 16 ≤ key length)
-- C20-SITE: g_func: QORD[y][self.start], QORD[y][z] : y < 4, start ≤ z < 5 (control, start ∈ {0,1,2})
-- C20-SITE: g_func: x >> (8 * y) : 8*y ≤ 24 < 32
-- C20-SITE: g_func: self.s[4 * (z - self.start - 1) + y] : `c20_g_idx` (z > start so no underflow; index ≤ 15)
-- C20-SITE: key_schedule: key.len() / 8 ; match k { 4, 3, 2, _ => unreachable!() } : length ∈ {16,24,32} by the guard
-- C20-SITE: key_schedule: rho * (2 * x), rho * (2 * x + 1) (u32) : `c20_rho` (x < 20 ⇒ ≤ 0x1010101 * 39 < 2^32)
-- C20-SITE: key_schedule: self.k[(2*x) as usize], self.k[(2*x+1) as usize] : ≤ 39 (control)
-- C20-SITE: key_schedule: key[i*8..i*8+8], self.s[i*4..(i+1)*4] : i < k ≤ 4 (`c20_ks_slices`)
-- C20-SITE: encrypt_block / decrypt_block: 4 * r + 8, k + 1, k + 2, k + 3 as index of self.k : `c20_round_idx` (r < 8 ⇒ ≤ 39)
-- C20-SITE: encrypt_block / decrypt_block: b[0..4] … try_into().unwrap() : slices of static length 4
-/
namespace BC.Twofish

/-- `consts.rs` `QORD` -/
def QORD : Array (Array Nat) := #[
  #[1, 1, 0, 0, 1],
  #[0, 1, 1, 0, 0],
  #[0, 0, 0, 1, 1],
  #[1, 0, 1, 1, 0]]

def qord (y z : Nat) : Nat := (QORD.getD y #[]).getD z 0

/-- `consts.rs` `QBOX` -/
def QBOX : Array (Array (Array (BitVec 8))) := #[
  #[
    #[0x8, 0x1, 0x7, 0xD, 0x6, 0xF, 0x3, 0x2, 0x0, 0xB, 0x5, 0x9, 0xE, 0xC, 0xA, 0x4],
    #[0xE, 0xC, 0xB, 0x8, 0x1, 0x2, 0x3, 0x5, 0xF, 0x4, 0xA, 0x6, 0x7, 0x0, 0x9, 0xD],
    #[0xB, 0xA, 0x5, 0xE, 0x6, 0xD, 0x9, 0x0, 0xC, 0x8, 0xF, 0x3, 0x2, 0x4, 0x7, 0x1],
    #[0xD, 0x7, 0xF, 0x4, 0x1, 0x2, 0x6, 0xE, 0x9, 0xB, 0x3, 0x0, 0x8, 0x5, 0xC, 0xA]],
  #[
    #[0x2, 0x8, 0xB, 0xD, 0xF, 0x7, 0x6, 0xE, 0x3, 0x1, 0x9, 0x4, 0x0, 0xA, 0xC, 0x5],
    #[0x1, 0xE, 0x2, 0xB, 0x4, 0xC, 0x3, 0x7, 0x6, 0xD, 0xA, 0x5, 0xF, 0x9, 0x0, 0x8],
    #[0x4, 0xC, 0x7, 0x5, 0x1, 0x6, 0x9, 0xA, 0x0, 0xE, 0xD, 0x8, 0x2, 0xB, 0x3, 0xF],
    #[0xB, 0x9, 0x5, 0x1, 0xC, 0x3, 0xD, 0xE, 0x6, 0x4, 0x7, 0xF, 0x2, 0x0, 0x8, 0xA]]]

/-- `QBOX[i][j][a as usize]` -/
def qbox (i j : Nat) (a : BitVec 8) : BitVec 8 := ((QBOX.getD i #[]).getD j #[]).getD a.toNat 0#8

/-- `consts.rs` `RS` -/
def RS : Array (Array (BitVec 8)) := #[
  #[0x01, 0xa4, 0x55, 0x87, 0x5a, 0x58, 0xdb, 0x9e],
  #[0xa4, 0x56, 0x82, 0xf3, 0x1e, 0xc6, 0x68, 0xe5],
  #[0x02, 0xa1, 0xfc, 0xc1, 0x47, 0xae, 0x3d, 0x19],
  #[0xa4, 0x55, 0x87, 0x5a, 0x58, 0xdb, 0x9e, 0x03]]

def rs (i j : Nat) : BitVec 8 := (RS.getD i #[]).getD j 0#8

def MDS_POLY : BitVec 8 := 0x69#8
def RS_POLY : BitVec 8 := 0x4d#8

/-- the `while a > 0` loop of `gf_mult` on `(a, b, result)`; `fuel` bounds the number of iterations -/
def gfLoop (p : BitVec 8) : Nat → BitVec 8 → BitVec 8 → BitVec 8 → BitVec 8
  | 0, _, _, result => result
  | fuel + 1, a, b, result =>
    if a = 0#8 then result else
    let result := if a &&& 1#8 = 1#8 then result ^^^ b else result
    let a := a >>> 1
    let b := if b &&& 0x80#8 = 0x80#8 then (b <<< 1) ^^^ p else b <<< 1
    gfLoop p fuel a b result

/-- `fn gf_mult(mut a: u8, mut b: u8, p: u8) -> u8`; `a >>= 1` in every iteration, so 8 iterations always
reach `a = 0` (`Proofs/TwofishSpec.lean` `gfLoop_fuel`: more fuel never changes the result) -/
def gfMult (a b p : BitVec 8) : BitVec 8 := gfLoop p 8 a b 0#8

/-- `fn sbox(i: usize, x: u8) -> u8` -/
def sbox (i : Nat) (x : BitVec 8) : BitVec 8 :=
  let a0 := (x >>> 4) &&& 15#8
  let b0 := x &&& 15#8
  let a1 := a0 ^^^ b0
  let b1 := (a0 ^^^ ((b0 <<< 3) ||| (b0 >>> 1)) ^^^ (a0 <<< 3)) &&& 15#8
  let a2 := qbox i 0 a1
  let b2 := qbox i 1 b1
  let a3 := a2 ^^^ b2
  let b3 := (a2 ^^^ ((b2 <<< 3) ||| (b2 >>> 1)) ^^^ (a2 <<< 3)) &&& 15#8
  let a4 := qbox i 2 a3
  let b4 := qbox i 3 b3
  (b4 <<< 4) + a4

/-- `u32::from_le_bytes([v0, v1, v2, v3])` -/
def leWord (v0 v1 v2 v3 : BitVec 8) : BitVec 32 :=
  v0.setWidth 32 ||| (v1.setWidth 32 <<< 8) ||| (v2.setWidth 32 <<< 16) ||| (v3.setWidth 32 <<< 24)

/-- byte `i` of `x.to_le_bytes()` -/
def leByte (x : BitVec 32) (i : Nat) : BitVec 8 := (x >>> (8 * i)).setWidth 8

/-- `fn mds_column_mult(x: u8, column: usize) -> u32` -/
def mdsColumnMult (x : BitVec 8) (column : Nat) : BitVec 32 :=
  let x5b := gfMult x 0x5b#8 MDS_POLY
  let xef := gfMult x 0xef#8 MDS_POLY
  match column with
  | 0 => leWord x x5b xef xef
  | 1 => leWord xef xef x5b x
  | 2 => leWord x5b xef x xef
  | 3 => leWord x5b x xef x5b
  | _ => 0#32  -- unreachable!()

/-- `fn mds_mult(y: [u8; 4]) -> u32` -/
def mdsMult (y0 y1 y2 y3 : BitVec 8) : BitVec 32 :=
  0#32 ^^^ mdsColumnMult y0 0 ^^^ mdsColumnMult y1 1 ^^^ mdsColumnMult y2 2 ^^^ mdsColumnMult y3 3

/-- `out[i]` of `fn rs_mult(m: &[u8], out: &mut [u8])`, `m` given as a function of the index `0..8` -/
def rsMultRow (m : Nat → BitVec 8) (i : Nat) : BitVec 8 :=
  (List.range 8).foldl (fun acc j => acc ^^^ gfMult (m j) (rs i j) RS_POLY) 0#8

/-- `fn h(x: u32, m: &[u8], k: usize, offset: usize) -> u32`; `m` is the key as a byte array -/
def h (x : BitVec 32) (m : Array (BitVec 8)) (k offset : Nat) : BitVec 32 :=
  let mm := fun (i : Nat) => m.getD i 0#8
  let y0 := leByte x 0
  let y1 := leByte x 1
  let y2 := leByte x 2
  let y3 := leByte x 3
  let y0 := if k = 4 then sbox 1 y0 ^^^ mm (4 * (6 + offset)) else y0
  let y1 := if k = 4 then sbox 0 y1 ^^^ mm (4 * (6 + offset) + 1) else y1
  let y2 := if k = 4 then sbox 0 y2 ^^^ mm (4 * (6 + offset) + 2) else y2
  let y3 := if k = 4 then sbox 1 y3 ^^^ mm (4 * (6 + offset) + 3) else y3
  let y0 := if k ≥ 3 then sbox 1 y0 ^^^ mm (4 * (4 + offset)) else y0
  let y1 := if k ≥ 3 then sbox 1 y1 ^^^ mm (4 * (4 + offset) + 1) else y1
  let y2 := if k ≥ 3 then sbox 0 y2 ^^^ mm (4 * (4 + offset) + 2) else y2
  let y3 := if k ≥ 3 then sbox 0 y3 ^^^ mm (4 * (4 + offset) + 3) else y3
  let a := 4 * (2 + offset)
  let b := 4 * offset
  let y0 := sbox 1 (sbox 0 (sbox 0 y0 ^^^ mm a) ^^^ mm b)
  let y1 := sbox 0 (sbox 0 (sbox 1 y1 ^^^ mm (a + 1)) ^^^ mm (b + 1))
  let y2 := sbox 1 (sbox 1 (sbox 0 y2 ^^^ mm (a + 2)) ^^^ mm (b + 2))
  let y3 := sbox 0 (sbox 1 (sbox 1 y3 ^^^ mm (a + 3)) ^^^ mm (b + 3))
  mdsMult y0 y1 y2 y3

/-- the `Twofish` struct -/
structure Keys where
  s : Array (BitVec 8)
  k : Vector (BitVec 32) 40
  start : Nat

/-- inner loop of `g_func`: `for z in start+1..5 { g ^= s[4*(z-start-1)+y]; g = sbox(QORD[y][z], g) }` -/
def gInner (s : Array (BitVec 8)) (start y : Nat) (g : BitVec 8) : BitVec 8 :=
  (List.range' (start + 1) (5 - (start + 1))).foldl
    (fun g z => sbox (qord y z) (g ^^^ s.getD (4 * (z - start - 1) + y) 0#8)) g

/-- `fn g_func(&self, x: u32) -> u32` -/
def gFunc (s : Array (BitVec 8)) (start : Nat) (x : BitVec 32) : BitVec 32 :=
  (List.range 4).foldl
    (fun result y =>
      let g := sbox (qord y start) ((x >>> (8 * y)).setWidth 8)
      let g := gInner s start y g
      result ^^^ mdsColumnMult g y)
    0#32

def rho : BitVec 32 := 0x1010101#32

/-- the two sub-keys written by iteration `x` of the first loop of `key_schedule` -/
def subkeyPair (key : Array (BitVec 8)) (k : Nat) (x : Nat) : List (BitVec 32) :=
  let xw : BitVec 32 := BitVec.ofNat 32 x
  let a := h (rho * (2#32 * xw)) key k 0
  let b := (h (rho * (2#32 * xw + 1#32)) key k 1).rotateLeft 8
  let v := a + b
  [v, (v + b).rotateLeft 9]

def subkeyList (key : Array (BitVec 8)) (k : Nat) : List (BitVec 32) :=
  (List.range 20).flatMap (subkeyPair key k)

theorem subkeyList_length (key : Array (BitVec 8)) (k : Nat) : (subkeyList key k).length = 40 := rfl

/-- `self.s` after the last loop of `key_schedule` (bytes `4*k..16` stay 0) -/
def sboxKey (key : Array (BitVec 8)) (k : Nat) : Array (BitVec 8) :=
  (List.range 16).toArray.map (fun idx =>
    let i := idx / 4
    if i < k then rsMultRow (fun j => key.getD (i * 8 + j) 0#8) (idx % 4) else 0#8)

/-- `fn key_schedule(&mut self, key: &[u8])` on the zero-initialised struct -/
def keySchedule (key : Array (BitVec 8)) : Keys :=
  let k := key.size / 8
  { s := sboxKey key k,
    k := ⟨(subkeyList key k).toArray, by simp [subkeyList_length]⟩,
    start := match k with
      | 4 => 0
      | 3 => 1
      | 2 => 2
      | _ => 0 }  -- unreachable!()

structure St where
  p0 : BitVec 32
  p1 : BitVec 32
  p2 : BitVec 32
  p3 : BitVec 32

/-- body of the round loop of `encrypt_block` -/
def encRound (g : BitVec 32 → BitVec 32) (K : Vector (BitVec 32) 40) (s : St) (r : Fin 8) : St :=
  let t1 := g (s.p1.rotateLeft 8)
  let t0 := g s.p0 + t1
  let p2 := (s.p2 ^^^ (t0 + K[4 * r.val + 8])).rotateRight 1
  let t2 := t1 + t0 + K[4 * r.val + 8 + 1]
  let p3 := s.p3.rotateLeft 1 ^^^ t2
  let t1 := g (p3.rotateLeft 8)
  let t0 := g p2 + t1
  let p0 := (s.p0 ^^^ (t0 + K[4 * r.val + 8 + 2])).rotateRight 1
  let t2 := t1 + t0 + K[4 * r.val + 8 + 3]
  let p1 := s.p1.rotateLeft 1 ^^^ t2
  { p0 := p0, p1 := p1, p2 := p2, p3 := p3 }

/-- body of the round loop of `decrypt_block` -/
def decRound (g : BitVec 32 → BitVec 32) (K : Vector (BitVec 32) 40) (c : St) (r : Fin 8) : St :=
  let t1 := g (c.p3.rotateLeft 8)
  let t0 := g c.p2 + t1
  let c0 := c.p0.rotateLeft 1 ^^^ (t0 + K[4 * r.val + 8 + 2])
  let t2 := t1 + t0 + K[4 * r.val + 8 + 3]
  let c1 := (c.p1 ^^^ t2).rotateRight 1
  let t1 := g (c1.rotateLeft 8)
  let t0 := g c0 + t1
  let c2 := c.p2.rotateLeft 1 ^^^ (t0 + K[4 * r.val + 8])
  let t2 := t1 + t0 + K[4 * r.val + 8 + 1]
  let c3 := (c.p3 ^^^ t2).rotateRight 1
  { p0 := c0, p1 := c1, p2 := c2, p3 := c3 }

/-- `0..8` -/
def roundIdx : List (Fin 8) := [0, 1, 2, 3, 4, 5, 6, 7]

/-- little-endian word `i` of the block (`u32::from_le_bytes(b[4i..4i+4])`) -/
def blockWord (b : BitVec 128) (i : Nat) : BitVec 32 := bswap32 ((b >>> (32 * (3 - i))).setWidth 32)

def storeWords (w0 w1 w2 w3 : BitVec 32) : BitVec 128 :=
  bswap32 w0 ++ bswap32 w1 ++ bswap32 w2 ++ bswap32 w3

/-- `encrypt_block` for an arbitrary `g` and sub-key vector -/
def encryptWith (g : BitVec 32 → BitVec 32) (K : Vector (BitVec 32) 40) (b : BitVec 128) : BitVec 128 :=
  let p : St := { p0 := blockWord b 0 ^^^ K[0], p1 := blockWord b 1 ^^^ K[1],
                  p2 := blockWord b 2 ^^^ K[2], p3 := blockWord b 3 ^^^ K[3] }
  let p := roundIdx.foldl (encRound g K) p
  storeWords (p.p2 ^^^ K[4]) (p.p3 ^^^ K[5]) (p.p0 ^^^ K[6]) (p.p1 ^^^ K[7])

/-- `decrypt_block` for an arbitrary `g` and sub-key vector -/
def decryptWith (g : BitVec 32 → BitVec 32) (K : Vector (BitVec 32) 40) (b : BitVec 128) : BitVec 128 :=
  let c : St := { p0 := blockWord b 2 ^^^ K[6], p1 := blockWord b 3 ^^^ K[7],
                  p2 := blockWord b 0 ^^^ K[4], p3 := blockWord b 1 ^^^ K[5] }
  let c := roundIdx.reverse.foldl (decRound g K) c
  storeWords (c.p0 ^^^ K[0]) (c.p1 ^^^ K[1]) (c.p2 ^^^ K[2]) (c.p3 ^^^ K[3])

def encrypt (ks : Keys) (b : BitVec 128) : BitVec 128 := encryptWith (gFunc ks.s ks.start) ks.k b
def decrypt (ks : Keys) (b : BitVec 128) : BitVec 128 := decryptWith (gFunc ks.s ks.start) ks.k b

/-- `new_from_slice`: `n != 16 && n != 24 && n != 32` is `InvalidLength` -/
def accepts (n : Nat) : Bool := n == 16 || n == 24 || n == 32

end BC.Twofish
