import BlockCiphers.Prelude.Bytes
/-
Model of /repo/serpent/src/{lib.rs,bitslice.rs,unroll.rs} (Serpent, 128-bit block, keys of 16..=32 bytes,
little-endian words, bitslice mode).  Mirrors the Rust function by function:

* `expand_key` (padding), the 140-word prekey array with `PHI` and `rotate_left(11)`, the S-box used for
  round key `i` (`(ROUNDS + 3 - i) % ROUNDS`, then `% 8` inside `apply_s`);
* `bitslice::sbox_e0..e7 / sbox_d0..d7` as straight-line programs on four `BitVec 32`
  (generated statement by statement from bitslice.rs; Rust names `w1..w4` are words 0..3);
* `linear_transform` / `linear_transform_inv`, `apply_s` / `apply_s_inv` (`index % 8`);
* `encrypt_block` / `decrypt_block`; the macro `unroll31!(i, body)` of unroll.rs in both configurations:
  `unroll31` (31 textual copies of the body with `i = 0, …, 30`; default build) and `loop31`
  (`for i in 0..31 { body }`, `--cfg serpent_no_unroll`).

C20-SITE: expand_key: `key[..source.len()].copy_from_slice(source)` : caller guards `16 ≤ len ≤ 32`, so the
          slice `..len` of a 32-byte array exists and has the length of `source`.
C20-SITE: expand_key: `key[byte_i]`, `1 << bit_i` : only executed if `len_bits < 256`, so `byte_i ≤ 31`;
          `bit_i = len_bits % 8 < 8` (u8 shift in range).  (`expandKey_byte_index_lt`)
C20-SITE: new_from_slice: `key.len() * 8` : `len ≤ 32`.
C20-SITE: new_from_slice: `words[slot - 8]` … `words[slot]`, `slot = i + 8`, `i < 132` : `slot ≤ 139 < 140`,
          `slot - 8 ≥ 0`.
C20-SITE: new_from_slice: `i as u32` : `i < 132`, lossless.
C20-SITE: new_from_slice: `ROUNDS + 3 - i` : `i ≤ 32 < 35` (no usize underflow); `words[4*i..][..4]` on the
          132-word tail: `4*i + 4 ≤ 132` for `i ≤ 32`; `k[4*i + l]`, `l < 4` likewise.
C20-SITE: apply_s / apply_s_inv: `_ => unreachable!()` : `index % 8 < 8` (`applyS_arm`, `applySInv_arm`).
C20-SITE: encrypt/decrypt: `self.round_keys[i]`, `i ≤ 32`; `30 - i` with `i ≤ 30`.
-/
namespace BC.Serpent

def PHI : BitVec 32 := 0x9e3779b9#32
def ROUNDS : Nat := 32

/-- `type Words = [u32; 4]` -/
structure Words where
  w0 : BitVec 32
  w1 : BitVec 32
  w2 : BitVec 32
  w3 : BitVec 32
  deriving DecidableEq, Repr

def Words.zero : Words := ⟨0#32, 0#32, 0#32, 0#32⟩
instance : Inhabited Words := ⟨Words.zero⟩

/-- `fn xor(b1, k)` -/
def xor (b1 k : Words) : Words :=
  ⟨b1.w0 ^^^ k.w0, b1.w1 ^^^ k.w1, b1.w2 ^^^ k.w2, b1.w3 ^^^ k.w3⟩

/-! ### bitslice.rs -/

/-- `bitslice::linear_transform` -/
def linearTransform (w : Words) : Words :=
  let w0 := w.w0.rotateLeft 13
  let w2 := w.w2.rotateLeft 3
  let w1 := w.w1 ^^^ (w0 ^^^ w2)
  let w3 := w.w3 ^^^ w2 ^^^ (w0 <<< 3)
  let w1 := w1.rotateLeft 1
  let w3 := w3.rotateLeft 7
  let w0 := w0 ^^^ (w1 ^^^ w3)
  let w2 := w2 ^^^ w3 ^^^ (w1 <<< 7)
  let w0 := w0.rotateLeft 5
  let w2 := w2.rotateLeft 22
  ⟨w0, w1, w2, w3⟩

/-- `bitslice::linear_transform_inv` -/
def linearTransformInv (w : Words) : Words :=
  let w2 := w.w2.rotateRight 22
  let w0 := w.w0.rotateRight 5
  let w2 := w2 ^^^ w.w3 ^^^ (w.w1 <<< 7)
  let w0 := w0 ^^^ (w.w1 ^^^ w.w3)
  let w3 := w.w3.rotateRight 7
  let w1 := w.w1.rotateRight 1
  let w3 := w3 ^^^ w2 ^^^ (w0 <<< 3)
  let w1 := w1 ^^^ (w0 ^^^ w2)
  let w2 := w2.rotateRight 3
  let w0 := w0.rotateRight 13
  ⟨w0, w1, w2, w3⟩

/-- `bitslice::sbox_e0` (Osvik circuit), statement by statement -/
def sboxE0 (w : Words) : Words :=
  let w1 := w.w0
  let w2 := w.w1
  let w3 := w.w2
  let w4 := w.w3
  let w4 := w4 ^^^ w1
  let t0 := w2
  let w2 := w2 &&& w4
  let t0 := t0 ^^^ w3
  let w2 := w2 ^^^ w1
  let w1 := w1 ||| w4
  let w1 := w1 ^^^ t0
  let t0 := t0 ^^^ w4
  let w4 := w4 ^^^ w3
  let w3 := w3 ||| w2
  let w3 := w3 ^^^ t0
  let t0 := ~~~t0
  let t0 := t0 ||| w2
  let w2 := w2 ^^^ w4
  let w2 := w2 ^^^ t0
  let w4 := w4 ||| w1
  let w2 := w2 ^^^ w4
  let t0 := t0 ^^^ w4
  ⟨w2, t0, w3, w1⟩

/-- `bitslice::sbox_e1` (Osvik circuit), statement by statement -/
def sboxE1 (w : Words) : Words :=
  let w1 := w.w0
  let w2 := w.w1
  let w3 := w.w2
  let w4 := w.w3
  let w1 := ~~~w1
  let w3 := ~~~w3
  let t0 := w1
  let w1 := w1 &&& w2
  let w3 := w3 ^^^ w1
  let w1 := w1 ||| w4
  let w4 := w4 ^^^ w3
  let w2 := w2 ^^^ w1
  let w1 := w1 ^^^ t0
  let t0 := t0 ||| w2
  let w2 := w2 ^^^ w4
  let w3 := w3 ||| w1
  let w3 := w3 &&& t0
  let w1 := w1 ^^^ w2
  let w2 := w2 &&& w3
  let w2 := w2 ^^^ w1
  let w1 := w1 &&& w3
  let t0 := t0 ^^^ w1
  ⟨w3, t0, w4, w2⟩

/-- `bitslice::sbox_e2` (Osvik circuit), statement by statement -/
def sboxE2 (w : Words) : Words :=
  let w1 := w.w0
  let w2 := w.w1
  let w3 := w.w2
  let w4 := w.w3
  let t0 := w1
  let w1 := w1 &&& w3
  let w1 := w1 ^^^ w4
  let w3 := w3 ^^^ w2
  let w3 := w3 ^^^ w1
  let w4 := w4 ||| t0
  let w4 := w4 ^^^ w2
  let t0 := t0 ^^^ w3
  let w2 := w4
  let w4 := w4 ||| t0
  let w4 := w4 ^^^ w1
  let w1 := w1 &&& w2
  let t0 := t0 ^^^ w1
  let w2 := w2 ^^^ w4
  let w2 := w2 ^^^ t0
  let t0 := ~~~t0
  ⟨w3, w4, w2, t0⟩

/-- `bitslice::sbox_e3` (Osvik circuit), statement by statement -/
def sboxE3 (w : Words) : Words :=
  let w1 := w.w0
  let w2 := w.w1
  let w3 := w.w2
  let w4 := w.w3
  let t0 := w1
  let w1 := w1 ||| w4
  let w4 := w4 ^^^ w2
  let w2 := w2 &&& t0
  let t0 := t0 ^^^ w3
  let w3 := w3 ^^^ w4
  let w4 := w4 &&& w1
  let t0 := t0 ||| w2
  let w4 := w4 ^^^ t0
  let w1 := w1 ^^^ w2
  let t0 := t0 &&& w1
  let w2 := w2 ^^^ w4
  let t0 := t0 ^^^ w3
  let w2 := w2 ||| w1
  let w2 := w2 ^^^ w3
  let w1 := w1 ^^^ w4
  let w3 := w2
  let w2 := w2 ||| w4
  let w1 := w1 ^^^ w2
  ⟨w1, w3, w4, t0⟩

/-- `bitslice::sbox_e4` (Osvik circuit), statement by statement -/
def sboxE4 (w : Words) : Words :=
  let w1 := w.w0
  let w2 := w.w1
  let w3 := w.w2
  let w4 := w.w3
  let w2 := w2 ^^^ w4
  let w4 := ~~~w4
  let w3 := w3 ^^^ w4
  let w4 := w4 ^^^ w1
  let t0 := w2
  let w2 := w2 &&& w4
  let w2 := w2 ^^^ w3
  let t0 := t0 ^^^ w4
  let w1 := w1 ^^^ t0
  let w3 := w3 &&& t0
  let w3 := w3 ^^^ w1
  let w1 := w1 &&& w2
  let w4 := w4 ^^^ w1
  let t0 := t0 ||| w2
  let t0 := t0 ^^^ w1
  let w1 := w1 ||| w4
  let w1 := w1 ^^^ w3
  let w3 := w3 &&& w4
  let w1 := ~~~w1
  let t0 := t0 ^^^ w3
  ⟨w2, t0, w1, w4⟩

/-- `bitslice::sbox_e5` (Osvik circuit), statement by statement -/
def sboxE5 (w : Words) : Words :=
  let w1 := w.w0
  let w2 := w.w1
  let w3 := w.w2
  let w4 := w.w3
  let w1 := w1 ^^^ w2
  let w2 := w2 ^^^ w4
  let w4 := ~~~w4
  let t0 := w2
  let w2 := w2 &&& w1
  let w3 := w3 ^^^ w4
  let w2 := w2 ^^^ w3
  let w3 := w3 ||| t0
  let t0 := t0 ^^^ w4
  let w4 := w4 &&& w2
  let w4 := w4 ^^^ w1
  let t0 := t0 ^^^ w2
  let t0 := t0 ^^^ w3
  let w3 := w3 ^^^ w1
  let w1 := w1 &&& w4
  let w3 := ~~~w3
  let w1 := w1 ^^^ t0
  let t0 := t0 ||| w4
  let t0 := t0 ^^^ w3
  let w3 := w1
  let w1 := w2
  let w2 := w4
  let w4 := t0
  ⟨w1, w2, w3, w4⟩

/-- `bitslice::sbox_e6` (Osvik circuit), statement by statement -/
def sboxE6 (w : Words) : Words :=
  let w1 := w.w0
  let w2 := w.w1
  let w3 := w.w2
  let w4 := w.w3
  let w3 := ~~~w3
  let t0 := w4
  let w4 := w4 &&& w1
  let w1 := w1 ^^^ t0
  let w4 := w4 ^^^ w3
  let w3 := w3 ||| t0
  let w2 := w2 ^^^ w4
  let w3 := w3 ^^^ w1
  let w1 := w1 ||| w2
  let w3 := w3 ^^^ w2
  let t0 := t0 ^^^ w1
  let w1 := w1 ||| w4
  let w1 := w1 ^^^ w3
  let t0 := t0 ^^^ w4
  let t0 := t0 ^^^ w1
  let w4 := ~~~w4
  let w3 := w3 &&& t0
  let w4 := w4 ^^^ w3
  let w3 := t0
  ⟨w1, w2, w3, w4⟩

/-- `bitslice::sbox_e7` (Osvik circuit), statement by statement -/
def sboxE7 (w : Words) : Words :=
  let w1 := w.w0
  let w2 := w.w1
  let w3 := w.w2
  let w4 := w.w3
  let t0 := w2
  let w2 := w2 ||| w3
  let w2 := w2 ^^^ w4
  let t0 := t0 ^^^ w3
  let w3 := w3 ^^^ w2
  let w4 := w4 ||| t0
  let w4 := w4 &&& w1
  let t0 := t0 ^^^ w3
  let w4 := w4 ^^^ w2
  let w2 := w2 ||| t0
  let w2 := w2 ^^^ w1
  let w1 := w1 ||| t0
  let w1 := w1 ^^^ w3
  let w2 := w2 ^^^ t0
  let w3 := w3 ^^^ w2
  let w2 := w2 &&& w1
  let w2 := w2 ^^^ t0
  let w3 := ~~~w3
  let w3 := w3 ||| w1
  let t0 := t0 ^^^ w3
  ⟨t0, w4, w2, w1⟩

/-- `bitslice::sbox_d0` (Osvik circuit), statement by statement -/
def sboxD0 (w : Words) : Words :=
  let w1 := w.w0
  let w2 := w.w1
  let w3 := w.w2
  let w4 := w.w3
  let w3 := ~~~w3
  let t0 := w2
  let w2 := w2 ||| w1
  let t0 := ~~~t0
  let w2 := w2 ^^^ w3
  let w3 := w3 ||| t0
  let w2 := w2 ^^^ w4
  let w1 := w1 ^^^ t0
  let w3 := w3 ^^^ w1
  let w1 := w1 &&& w4
  let t0 := t0 ^^^ w1
  let w1 := w1 ||| w2
  let w1 := w1 ^^^ w3
  let w4 := w4 ^^^ t0
  let w3 := w3 ^^^ w2
  let w4 := w4 ^^^ w1
  let w4 := w4 ^^^ w2
  let w3 := w3 &&& w4
  let t0 := t0 ^^^ w3
  ⟨w1, t0, w2, w4⟩

/-- `bitslice::sbox_d1` (Osvik circuit), statement by statement -/
def sboxD1 (w : Words) : Words :=
  let w1 := w.w0
  let w2 := w.w1
  let w3 := w.w2
  let w4 := w.w3
  let t0 := w2
  let w2 := w2 ^^^ w4
  let w4 := w4 &&& w2
  let t0 := t0 ^^^ w3
  let w4 := w4 ^^^ w1
  let w1 := w1 ||| w2
  let w3 := w3 ^^^ w4
  let w1 := w1 ^^^ t0
  let w1 := w1 ||| w3
  let w2 := w2 ^^^ w4
  let w1 := w1 ^^^ w2
  let w2 := w2 ||| w4
  let w2 := w2 ^^^ w1
  let t0 := ~~~t0
  let t0 := t0 ^^^ w2
  let w2 := w2 ||| w1
  let w2 := w2 ^^^ w1
  let w2 := w2 ||| t0
  let w4 := w4 ^^^ w2
  ⟨t0, w1, w4, w3⟩

/-- `bitslice::sbox_d2` (Osvik circuit), statement by statement -/
def sboxD2 (w : Words) : Words :=
  let w1 := w.w0
  let w2 := w.w1
  let w3 := w.w2
  let w4 := w.w3
  let w3 := w3 ^^^ w4
  let w4 := w4 ^^^ w1
  let t0 := w4
  let w4 := w4 &&& w3
  let w4 := w4 ^^^ w2
  let w2 := w2 ||| w3
  let w2 := w2 ^^^ t0
  let t0 := t0 &&& w4
  let w3 := w3 ^^^ w4
  let t0 := t0 &&& w1
  let t0 := t0 ^^^ w3
  let w3 := w3 &&& w2
  let w3 := w3 ||| w1
  let w4 := ~~~w4
  let w3 := w3 ^^^ w4
  let w1 := w1 ^^^ w4
  let w1 := w1 &&& w2
  let w4 := w4 ^^^ t0
  let w4 := w4 ^^^ w1
  ⟨w2, t0, w3, w4⟩

/-- `bitslice::sbox_d3` (Osvik circuit), statement by statement -/
def sboxD3 (w : Words) : Words :=
  let w1 := w.w0
  let w2 := w.w1
  let w3 := w.w2
  let w4 := w.w3
  let t0 := w3
  let w3 := w3 ^^^ w2
  let w1 := w1 ^^^ w3
  let t0 := t0 &&& w3
  let t0 := t0 ^^^ w1
  let w1 := w1 &&& w2
  let w2 := w2 ^^^ w4
  let w4 := w4 ||| t0
  let w3 := w3 ^^^ w4
  let w1 := w1 ^^^ w4
  let w2 := w2 ^^^ t0
  let w4 := w4 &&& w3
  let w4 := w4 ^^^ w2
  let w2 := w2 ^^^ w1
  let w2 := w2 ||| w3
  let w1 := w1 ^^^ w4
  let w2 := w2 ^^^ t0
  let w1 := w1 ^^^ w2
  ⟨w3, w2, w4, w1⟩

/-- `bitslice::sbox_d4` (Osvik circuit), statement by statement -/
def sboxD4 (w : Words) : Words :=
  let w1 := w.w0
  let w2 := w.w1
  let w3 := w.w2
  let w4 := w.w3
  let t0 := w3
  let w3 := w3 &&& w4
  let w3 := w3 ^^^ w2
  let w2 := w2 ||| w4
  let w2 := w2 &&& w1
  let t0 := t0 ^^^ w3
  let t0 := t0 ^^^ w2
  let w2 := w2 &&& w3
  let w1 := ~~~w1
  let w4 := w4 ^^^ t0
  let w2 := w2 ^^^ w4
  let w4 := w4 &&& w1
  let w4 := w4 ^^^ w3
  let w1 := w1 ^^^ w2
  let w3 := w3 &&& w1
  let w4 := w4 ^^^ w1
  let w3 := w3 ^^^ t0
  let w3 := w3 ||| w4
  let w4 := w4 ^^^ w1
  let w3 := w3 ^^^ w2
  ⟨w1, w4, w3, t0⟩

/-- `bitslice::sbox_d5` (Osvik circuit), statement by statement -/
def sboxD5 (w : Words) : Words :=
  let w1 := w.w0
  let w2 := w.w1
  let w3 := w.w2
  let w4 := w.w3
  let w2 := ~~~w2
  let t0 := w4
  let w3 := w3 ^^^ w2
  let w4 := w4 ||| w1
  let w4 := w4 ^^^ w3
  let w3 := w3 ||| w2
  let w3 := w3 &&& w1
  let t0 := t0 ^^^ w4
  let w3 := w3 ^^^ t0
  let t0 := t0 ||| w1
  let t0 := t0 ^^^ w2
  let w2 := w2 &&& w3
  let w2 := w2 ^^^ w4
  let t0 := t0 ^^^ w3
  let w4 := w4 &&& t0
  let t0 := t0 ^^^ w2
  let w4 := w4 ^^^ t0
  let t0 := ~~~t0
  let w4 := w4 ^^^ w1
  ⟨w2, t0, w4, w3⟩

/-- `bitslice::sbox_d6` (Osvik circuit), statement by statement -/
def sboxD6 (w : Words) : Words :=
  let w1 := w.w0
  let w2 := w.w1
  let w3 := w.w2
  let w4 := w.w3
  let w1 := w1 ^^^ w3
  let t0 := w3
  let w3 := w3 &&& w1
  let t0 := t0 ^^^ w4
  let w3 := ~~~w3
  let w4 := w4 ^^^ w2
  let w3 := w3 ^^^ w4
  let t0 := t0 ||| w1
  let w1 := w1 ^^^ w3
  let w4 := w4 ^^^ t0
  let t0 := t0 ^^^ w2
  let w2 := w2 &&& w4
  let w2 := w2 ^^^ w1
  let w1 := w1 ^^^ w4
  let w1 := w1 ||| w3
  let w4 := w4 ^^^ w2
  let t0 := t0 ^^^ w1
  ⟨w2, w3, t0, w4⟩

/-- `bitslice::sbox_d7` (Osvik circuit), statement by statement -/
def sboxD7 (w : Words) : Words :=
  let w1 := w.w0
  let w2 := w.w1
  let w3 := w.w2
  let w4 := w.w3
  let t0 := w3
  let w3 := w3 ^^^ w1
  let w1 := w1 &&& w4
  let t0 := t0 ||| w4
  let w3 := ~~~w3
  let w4 := w4 ^^^ w2
  let w2 := w2 ||| w1
  let w1 := w1 ^^^ w3
  let w3 := w3 &&& t0
  let w4 := w4 &&& t0
  let w2 := w2 ^^^ w3
  let w3 := w3 ^^^ w1
  let w1 := w1 ||| w3
  let t0 := t0 ^^^ w2
  let w1 := w1 ^^^ w4
  let w4 := w4 ^^^ t0
  let t0 := t0 ||| w1
  let w4 := w4 ^^^ w3
  let t0 := t0 ^^^ w3
  ⟨w4, w1, w2, t0⟩

/-- `bitslice::apply_s`: `match index % 8`; the `_ => unreachable!()` arm is dead (`applyS_arm`) -/
def applyS (index : Nat) (w : Words) : Words :=
  match index % 8 with
  | 0 => sboxE0 w
  | 1 => sboxE1 w
  | 2 => sboxE2 w
  | 3 => sboxE3 w
  | 4 => sboxE4 w
  | 5 => sboxE5 w
  | 6 => sboxE6 w
  | 7 => sboxE7 w
  | _ => w

/-- `bitslice::apply_s_inv` -/
def applySInv (index : Nat) (w : Words) : Words :=
  match index % 8 with
  | 0 => sboxD0 w
  | 1 => sboxD1 w
  | 2 => sboxD2 w
  | 3 => sboxD3 w
  | 4 => sboxD4 w
  | 5 => sboxD5 w
  | 6 => sboxD6 w
  | 7 => sboxD7 w
  | _ => w

/-! ### lib.rs: key schedule -/

/-- `fn expand_key(source, len_bits) -> [u8; 32]` -/
def expandKey (source : Bytes) (lenBits : Nat) : Bytes :=
  let key := source ++ List.replicate (32 - source.length) 0#8
  if lenBits < 256 then
    let byteI := lenBits / 8
    let bitI := lenBits % 8
    key.set byteI (key.getD byteI 0#8 ||| (1#8 <<< bitI))
  else key

/-- `u32::from_le_bytes(key[4*i .. 4*i+4])` (the `i`-th item of `key.chunks_exact(4)`) -/
def leWord (key : Bytes) (i : Nat) : BitVec 32 :=
  (key.getD (4 * i) 0#8).setWidth 32 ||| ((key.getD (4 * i + 1) 0#8).setWidth 32 <<< 8) |||
  ((key.getD (4 * i + 2) 0#8).setWidth 32 <<< 16) ||| ((key.getD (4 * i + 3) 0#8).setWidth 32 <<< 24)

/-- `let mut words = [0u32; 140]` with the first eight filled from the expanded key -/
def initWords (key : Bytes) : List (BitVec 32) :=
  (List.range 8).map (leWord key) ++ List.replicate 132 0#32

/-- body of `for i in 0..132` -/
def prekeyStep (words : List (BitVec 32)) (i : Nat) : List (BitVec 32) :=
  let slot := i + 8
  words.set slot
    ((words.getD (slot - 8) 0#32 ^^^ words.getD (slot - 5) 0#32 ^^^ words.getD (slot - 3) 0#32 ^^^
      words.getD (slot - 1) 0#32 ^^^ PHI ^^^ BitVec.ofNat 32 i).rotateLeft 11)

def prekeys (key : Bytes) : List (BitVec 32) := (List.range 132).foldl prekeyStep (initWords key)

/-- body of `for i in 0..r` on `words` (the whole 140-word array; `&words[8..]` is the `+ 8`):
`k[4*i .. 4*i+4] = apply_s((ROUNDS + 3 - i) % ROUNDS, words[8..][4*i..][..4])`; the later
`k.chunks_exact(4)` copy makes that quadruple `round_keys[i]`. -/
def roundKey (words : List (BitVec 32)) (i : Nat) : Words :=
  let sboxIndex := (ROUNDS + 3 - i) % ROUNDS
  applyS sboxIndex ⟨words.getD (8 + 4 * i) 0#32, words.getD (8 + 4 * i + 1) 0#32,
                    words.getD (8 + 4 * i + 2) 0#32, words.getD (8 + 4 * i + 3) 0#32⟩

/-- `type RoundKeys = [Words; ROUNDS + 1]` -/
abbrev RoundKeys := Array Words

/-- `rk[i]` (total; the schedule produces 33 entries, `keySchedule_size`) -/
def RoundKeys.get (rk : RoundKeys) (i : Nat) : Words := rk.getD i Words.zero

/-- `new_from_slice` after the length guard -/
def keySchedule (key : Bytes) : RoundKeys :=
  let ek := expandKey key (key.length * 8)
  let words := prekeys ek
  ((List.range (ROUNDS + 1)).map (roundKey words)).toArray

/-- `new_from_slice`: `key.len() < 16 || key.len() > 32` is rejected -/
def accepts (n : Nat) : Bool := !(n < 16 || n > 32)

/-! ### unroll.rs -/

/-- `unroll31!(i, body)` with `#[cfg(not(serpent_no_unroll))]`: the body is pasted 31 times, preceded by
`let i = 0;` … `let i = 30;`.  The body reads and writes the local `b`; here it is `body b i`. -/
def unroll31 (body : Words → Nat → Words) (b : Words) : Words :=
  let b := body b 0
  let b := body b 1
  let b := body b 2
  let b := body b 3
  let b := body b 4
  let b := body b 5
  let b := body b 6
  let b := body b 7
  let b := body b 8
  let b := body b 9
  let b := body b 10
  let b := body b 11
  let b := body b 12
  let b := body b 13
  let b := body b 14
  let b := body b 15
  let b := body b 16
  let b := body b 17
  let b := body b 18
  let b := body b 19
  let b := body b 20
  let b := body b 21
  let b := body b 22
  let b := body b 23
  let b := body b 24
  let b := body b 25
  let b := body b 26
  let b := body b 27
  let b := body b 28
  let b := body b 29
  let b := body b 30
  b

/-- `unroll31!(i, body)` with `#[cfg(serpent_no_unroll)]`: `for i in 0..31 { body }` -/
def loop31 (body : Words → Nat → Words) (b : Words) : Words := (List.range 31).foldl body b

/-! ### lib.rs: block functions -/

/-- `read_words`: four little-endian words -/
def readWords (src : BitVec 128) : Words :=
  ⟨bswap32 (src.extractLsb' 96 32), bswap32 (src.extractLsb' 64 32),
   bswap32 (src.extractLsb' 32 32), bswap32 (src.extractLsb' 0 32)⟩

/-- `write_words` -/
def writeWords (w : Words) : BitVec 128 :=
  bswap32 w.w0 ++ bswap32 w.w1 ++ bswap32 w.w2 ++ bswap32 w.w3

/-- body of `unroll31!` in `encrypt_block` -/
def encBody (rk : RoundKeys) (b : Words) (i : Nat) : Words :=
  let xb := xor b (rk.get i)
  let s := applyS i xb
  linearTransform s

/-- body of `unroll31!` in `decrypt_block` (`let i = 30 - i;` first) -/
def decBody (rk : RoundKeys) (b : Words) (i : Nat) : Words :=
  let i := 30 - i
  let s := linearTransformInv b
  let xb := applySInv i s
  xor xb (rk.get i)

/-- `encrypt_block` on words, parametrised by the expansion of `unroll31!` -/
def encryptWordsWith (u : (Words → Nat → Words) → Words → Words) (rk : RoundKeys) (b : Words) : Words :=
  let b := u (encBody rk) b
  let xb := xor b (rk.get (ROUNDS - 1))
  let s := applyS (ROUNDS - 1) xb
  xor s (rk.get ROUNDS)

/-- `decrypt_block` on words -/
def decryptWordsWith (u : (Words → Nat → Words) → Words → Words) (rk : RoundKeys) (b : Words) : Words :=
  let s := xor b (rk.get ROUNDS)
  let xb := applySInv (ROUNDS - 1) s
  let b := xor xb (rk.get (ROUNDS - 1))
  u (decBody rk) b

/-- default build (unrolled) -/
def encrypt (rk : RoundKeys) (blk : BitVec 128) : BitVec 128 :=
  writeWords (encryptWordsWith unroll31 rk (readWords blk))
def decrypt (rk : RoundKeys) (blk : BitVec 128) : BitVec 128 :=
  writeWords (decryptWordsWith unroll31 rk (readWords blk))

/-- `--cfg serpent_no_unroll` build -/
def encryptLoop (rk : RoundKeys) (blk : BitVec 128) : BitVec 128 :=
  writeWords (encryptWordsWith loop31 rk (readWords blk))
def decryptLoop (rk : RoundKeys) (blk : BitVec 128) : BitVec 128 :=
  writeWords (decryptWordsWith loop31 rk (readWords blk))

end BC.Serpent
