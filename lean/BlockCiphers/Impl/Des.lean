import BlockCiphers.Prelude.Bytes
/-
Model of the `des` crate: /repo/des/src/{consts.rs, utils.rs, des.rs, tdes.rs, lib.rs}.
Mirrors the Rust as written.  Every value is the Rust `u64` (`BitVec 64`); a block / single DES key is the
big-endian number of its 8 bytes (`u64::from_be_bytes`).

C20-SITE: utils.rs delta_swap: `a >> delta`, `b << delta` : delta is one of the literals 1,2,4,8,9,16,18,24,32,36 < 64
C20-SITE: utils.rs e: `block << (BLOCK_LEN - 1)`, `block >> (RESULT_LEN - 1)` : usize constants 31 and 47 (< 64, no underflow)
C20-SITE: utils.rs gen_keys: `SHIFTS[i]`, `keys[i]` : i in 0..16, both arrays have 16 entries
C20-SITE: utils.rs gen_keys: `(c << 28) | d) << 8`, `key >> 8`, `key >> 28` : constant shift amounts < 64 (u64 `<<` only checks the amount)
C20-SITE: utils.rs rotate: `28 - shift` (u8) : shift ∈ SHIFTS ⊆ {1,2}, no underflow; `val >> (28 - shift)`, `val <<= shift` amounts < 64
C20-SITE: utils.rs round: `0xFFFF_FFFF << 32` : u64 literal, amount 32 < 64 (bits shifted out are not an overflow for `<<`)
C20-SITE: utils.rs apply_sboxes: `58 - (i * 6)`, `60 - (i * 4)` (usize) : i ≤ 7 so 58-42 = 16 ≥ 0, 60-28 = 32 ≥ 0, amounts < 64;
          `sbox[val as usize]` : val = (..) & 0x3F ≤ 63 < 64 = sbox.len()  (`SBOXES_inner_size`, `sboxAt_lt` in Proofs/DesSpecSbox.lean)
C20-SITE: tdes.rs `key[..8].try_into().unwrap()` etc. : slices of fixed 16/24-byte arrays with literal bounds, length 8 always
-/
namespace BC.Des

/-- consts.rs `SHIFTS` -/
def SHIFTS : List Nat := [1, 1, 2, 2, 2, 2, 2, 2, 1, 2, 2, 2, 2, 2, 2, 1]

/-- consts.rs `SBOXES` (the re-arranged boxes: directly indexed by the six input bits) -/
def SBOXES : Array (Array (BitVec 8)) := #[
  #[14#8, 0#8, 4#8, 15#8, 13#8, 7#8, 1#8, 4#8, 2#8, 14#8, 15#8, 2#8, 11#8, 13#8, 8#8, 1#8,
    3#8, 10#8, 10#8, 6#8, 6#8, 12#8, 12#8, 11#8, 5#8, 9#8, 9#8, 5#8, 0#8, 3#8, 7#8, 8#8,
    4#8, 15#8, 1#8, 12#8, 14#8, 8#8, 8#8, 2#8, 13#8, 4#8, 6#8, 9#8, 2#8, 1#8, 11#8, 7#8,
    15#8, 5#8, 12#8, 11#8, 9#8, 3#8, 7#8, 14#8, 3#8, 10#8, 10#8, 0#8, 5#8, 6#8, 0#8, 13#8],
  #[15#8, 3#8, 1#8, 13#8, 8#8, 4#8, 14#8, 7#8, 6#8, 15#8, 11#8, 2#8, 3#8, 8#8, 4#8, 14#8,
    9#8, 12#8, 7#8, 0#8, 2#8, 1#8, 13#8, 10#8, 12#8, 6#8, 0#8, 9#8, 5#8, 11#8, 10#8, 5#8,
    0#8, 13#8, 14#8, 8#8, 7#8, 10#8, 11#8, 1#8, 10#8, 3#8, 4#8, 15#8, 13#8, 4#8, 1#8, 2#8,
    5#8, 11#8, 8#8, 6#8, 12#8, 7#8, 6#8, 12#8, 9#8, 0#8, 3#8, 5#8, 2#8, 14#8, 15#8, 9#8],
  #[10#8, 13#8, 0#8, 7#8, 9#8, 0#8, 14#8, 9#8, 6#8, 3#8, 3#8, 4#8, 15#8, 6#8, 5#8, 10#8,
    1#8, 2#8, 13#8, 8#8, 12#8, 5#8, 7#8, 14#8, 11#8, 12#8, 4#8, 11#8, 2#8, 15#8, 8#8, 1#8,
    13#8, 1#8, 6#8, 10#8, 4#8, 13#8, 9#8, 0#8, 8#8, 6#8, 15#8, 9#8, 3#8, 8#8, 0#8, 7#8,
    11#8, 4#8, 1#8, 15#8, 2#8, 14#8, 12#8, 3#8, 5#8, 11#8, 10#8, 5#8, 14#8, 2#8, 7#8, 12#8],
  #[7#8, 13#8, 13#8, 8#8, 14#8, 11#8, 3#8, 5#8, 0#8, 6#8, 6#8, 15#8, 9#8, 0#8, 10#8, 3#8,
    1#8, 4#8, 2#8, 7#8, 8#8, 2#8, 5#8, 12#8, 11#8, 1#8, 12#8, 10#8, 4#8, 14#8, 15#8, 9#8,
    10#8, 3#8, 6#8, 15#8, 9#8, 0#8, 0#8, 6#8, 12#8, 10#8, 11#8, 1#8, 7#8, 13#8, 13#8, 8#8,
    15#8, 9#8, 1#8, 4#8, 3#8, 5#8, 14#8, 11#8, 5#8, 12#8, 2#8, 7#8, 8#8, 2#8, 4#8, 14#8],
  #[2#8, 14#8, 12#8, 11#8, 4#8, 2#8, 1#8, 12#8, 7#8, 4#8, 10#8, 7#8, 11#8, 13#8, 6#8, 1#8,
    8#8, 5#8, 5#8, 0#8, 3#8, 15#8, 15#8, 10#8, 13#8, 3#8, 0#8, 9#8, 14#8, 8#8, 9#8, 6#8,
    4#8, 11#8, 2#8, 8#8, 1#8, 12#8, 11#8, 7#8, 10#8, 1#8, 13#8, 14#8, 7#8, 2#8, 8#8, 13#8,
    15#8, 6#8, 9#8, 15#8, 12#8, 0#8, 5#8, 9#8, 6#8, 10#8, 3#8, 4#8, 0#8, 5#8, 14#8, 3#8],
  #[12#8, 10#8, 1#8, 15#8, 10#8, 4#8, 15#8, 2#8, 9#8, 7#8, 2#8, 12#8, 6#8, 9#8, 8#8, 5#8,
    0#8, 6#8, 13#8, 1#8, 3#8, 13#8, 4#8, 14#8, 14#8, 0#8, 7#8, 11#8, 5#8, 3#8, 11#8, 8#8,
    9#8, 4#8, 14#8, 3#8, 15#8, 2#8, 5#8, 12#8, 2#8, 9#8, 8#8, 5#8, 12#8, 15#8, 3#8, 10#8,
    7#8, 11#8, 0#8, 14#8, 4#8, 1#8, 10#8, 7#8, 1#8, 6#8, 13#8, 0#8, 11#8, 8#8, 6#8, 13#8],
  #[4#8, 13#8, 11#8, 0#8, 2#8, 11#8, 14#8, 7#8, 15#8, 4#8, 0#8, 9#8, 8#8, 1#8, 13#8, 10#8,
    3#8, 14#8, 12#8, 3#8, 9#8, 5#8, 7#8, 12#8, 5#8, 2#8, 10#8, 15#8, 6#8, 8#8, 1#8, 6#8,
    1#8, 6#8, 4#8, 11#8, 11#8, 13#8, 13#8, 8#8, 12#8, 1#8, 3#8, 4#8, 7#8, 10#8, 14#8, 7#8,
    10#8, 9#8, 15#8, 5#8, 6#8, 0#8, 8#8, 15#8, 0#8, 14#8, 5#8, 2#8, 9#8, 3#8, 2#8, 12#8],
  #[13#8, 1#8, 2#8, 15#8, 8#8, 13#8, 4#8, 8#8, 6#8, 10#8, 15#8, 3#8, 11#8, 7#8, 1#8, 4#8,
    10#8, 12#8, 9#8, 5#8, 3#8, 6#8, 14#8, 11#8, 5#8, 0#8, 0#8, 14#8, 12#8, 9#8, 7#8, 2#8,
    7#8, 2#8, 11#8, 1#8, 4#8, 14#8, 1#8, 7#8, 9#8, 4#8, 12#8, 10#8, 14#8, 8#8, 2#8, 13#8,
    0#8, 15#8, 6#8, 12#8, 10#8, 9#8, 13#8, 0#8, 15#8, 3#8, 3#8, 5#8, 5#8, 6#8, 8#8, 11#8]
]
theorem SBOXES_size : SBOXES.size = 8 := by decide

/-- `sbox[val as usize]` for `sbox = SBOXES[i]`, widened by `u64::from` -/
def sboxAt (i : Nat) (val : BitVec 64) : BitVec 64 :=
  (((SBOXES.getD i #[]).getD val.toNat 0#8)).setWidth 64

/-- utils.rs `delta_swap` -/
def deltaSwap (a : BitVec 64) (delta : Nat) (mask : BitVec 64) : BitVec 64 :=
  let b := (a ^^^ (a >>> delta)) &&& mask
  a ^^^ b ^^^ (b <<< delta)

/-- utils.rs `pc1` -/
def pc1 (key : BitVec 64) : BitVec 64 :=
  let key := deltaSwap key 2 0x3333000033330000#64
  let key := deltaSwap key 4 0x0f0f0f0f00000000#64
  let key := deltaSwap key 8 0x009a000a00a200a8#64
  let key := deltaSwap key 16 0x00006c6c0000cccc#64
  let key := deltaSwap key 1 0x1045500500550550#64
  let key := deltaSwap key 32 0x00000000f0f0f5fa#64
  let key := deltaSwap key 8 0x00550055006a00aa#64
  let key := deltaSwap key 2 0x0000333330000300#64
  key &&& 0xFFFFFFFFFFFFFF00#64

/-- utils.rs `pc2` -/
def pc2 (key : BitVec 64) : BitVec 64 :=
  let key := key.rotateLeft 61
  let b1 := (key &&& 0x0021000002000000#64) >>> 7
  let b2 := (key &&& 0x0008020010080000#64) <<< 1
  let b3 := key &&& 0x0002200000000000#64
  let b4 := (key &&& 0x0000000000100020#64) <<< 19
  let b5 := ((key.rotateLeft 54 &&& 0x0005312400000011#64) * 0x0000000094200201#64)
    &&& 0xea40100880000000#64
  let b6 := ((key.rotateLeft 7 &&& 0x0022110000012001#64) * 0x0001000000610006#64)
    &&& 0x1185004400000000#64
  let b7 := ((key.rotateLeft 6 &&& 0x0000520040200002#64) * 0x00000080000000c1#64)
    &&& 0x0028811000200000#64
  let b8 := ((key &&& 0x01000004c0011100#64) * 0x0000000000004284#64) &&& 0x0400082244400000#64
  let b9 := ((key.rotateLeft 60 &&& 0x0000000000820280#64) * 0x0000000000089001#64)
    &&& 0x0000000110880000#64
  let b10 := ((key.rotateLeft 49 &&& 0x0000000000024084#64) * 0x0000000002040005#64)
    &&& 0x000000000a030000#64
  b1 ||| b2 ||| b3 ||| b4 ||| b5 ||| b6 ||| b7 ||| b8 ||| b9 ||| b10

/-- utils.rs `fp` -/
def fp (message : BitVec 64) : BitVec 64 :=
  let message := deltaSwap message 24 0x000000FF000000FF#64
  let message := deltaSwap message 24 0x00000000FF00FF00#64
  let message := deltaSwap message 36 0x000000000F0F0F0F#64
  let message := deltaSwap message 18 0x0000333300003333#64
  deltaSwap message 9 0x0055005500550055#64

/-- utils.rs `ip` -/
def ip (message : BitVec 64) : BitVec 64 :=
  let message := deltaSwap message 9 0x0055005500550055#64
  let message := deltaSwap message 18 0x0000333300003333#64
  let message := deltaSwap message 36 0x000000000F0F0F0F#64
  let message := deltaSwap message 24 0x00000000FF00FF00#64
  deltaSwap message 24 0x000000FF000000FF#64

/-- utils.rs `e` (BLOCK_LEN - 1 = 31, RESULT_LEN - 1 = 47) -/
def e (block : BitVec 64) : BitVec 64 :=
  let b1 := (block <<< 31) &&& 0x8000000000000000#64
  let b2 := (block >>> 1) &&& 0x7C00000000000000#64
  let b3 := (block >>> 3) &&& 0x03F0000000000000#64
  let b4 := (block >>> 5) &&& 0x000FC00000000000#64
  let b5 := (block >>> 7) &&& 0x00003F0000000000#64
  let b6 := (block >>> 9) &&& 0x000000FC00000000#64
  let b7 := (block >>> 11) &&& 0x00000003F0000000#64
  let b8 := (block >>> 13) &&& 0x000000000FC00000#64
  let b9 := (block >>> 15) &&& 0x00000000003E0000#64
  let b10 := (block >>> 47) &&& 0x0000000000010000#64
  b1 ||| b2 ||| b3 ||| b4 ||| b5 ||| b6 ||| b7 ||| b8 ||| b9 ||| b10

/-- utils.rs `p` -/
def p (block : BitVec 64) : BitVec 64 :=
  let block := block.rotateLeft 44
  let b1 := (block &&& 0x0000000000200000#64) <<< 32
  let b2 := (block &&& 0x0000000000480000#64) <<< 13
  let b3 := (block &&& 0x0000088000000000#64) <<< 12
  let b4 := (block &&& 0x0000002020120000#64) <<< 25
  let b5 := (block &&& 0x0000000442000000#64) <<< 14
  let b6 := (block &&& 0x0000000001800000#64) <<< 37
  let b7 := (block &&& 0x0000000004000000#64) <<< 24
  let b8 := ((block &&& 0x0000020280015000#64) * 0x0000020080800083#64) &&& 0x02000a6400000000#64
  let b9 := ((block.rotateLeft 29 &&& 0x01001400000000aa#64) * 0x0000210210008081#64)
    &&& 0x0902c01200000000#64
  let b10 := ((block &&& 0x0000000910040000#64) * 0x0000000c04000020#64) &&& 0x8410010000000000#64
  b1 ||| b2 ||| b3 ||| b4 ||| b5 ||| b6 ||| b7 ||| b8 ||| b9 ||| b10

/-- utils.rs `rotate`: left rotation of a 28-bit number held in a u64 -/
def rotate (val : BitVec 64) (shift : Nat) : BitVec 64 :=
  let topBits := val >>> (28 - shift)
  let val := val <<< shift
  (val ||| topBits) &&& 0x0FFFFFFF#64

/-- the `for i in 0..16` loop of `gen_keys` (one step per entry of `SHIFTS`) -/
def genKeysLoop (c d : BitVec 64) : List Nat → List (BitVec 64)
  | [] => []
  | s :: ss =>
    let c := rotate c s
    let d := rotate d s
    pc2 (((c <<< 28) ||| d) <<< 8) :: genKeysLoop c d ss

/-- utils.rs `gen_keys`: the 16 round keys (each 48 bits in the top of a u64) -/
def genKeys (key : BitVec 64) : List (BitVec 64) :=
  let key := pc1 key
  let key := key >>> 8
  genKeysLoop (key >>> 28) (key &&& 0x0FFFFFFF#64) SHIFTS

/-- one loop iteration of `apply_sboxes` -/
def sboxStep (input : BitVec 64) (output : BitVec 64) (i : Nat) : BitVec 64 :=
  let val := (input >>> (58 - i * 6)) &&& 0x3F#64
  output ||| (sboxAt i val <<< (60 - i * 4))

/-- utils.rs `apply_sboxes` -/
def applySboxes (input : BitVec 64) : BitVec 64 :=
  sboxStep input (sboxStep input (sboxStep input (sboxStep input (sboxStep input (sboxStep input
    (sboxStep input (sboxStep input 0#64 0) 1) 2) 3) 4) 5) 6) 7

/-- utils.rs `f` -/
def f (input key : BitVec 64) : BitVec 64 :=
  let val := e input
  let val := val ^^^ key
  let val := applySboxes val
  p val

/-- utils.rs `round` -/
def round (input key : BitVec 64) : BitVec 64 :=
  let l := input &&& 0xFFFFFFFF00000000#64
  let r := input <<< 32
  r ||| ((f r key ^^^ l) >>> 32)

/-- des.rs `Des::encrypt` (`keys` = `self.keys`) -/
def encrypt (keys : List (BitVec 64)) (data : BitVec 64) : BitVec 64 :=
  fp ((keys.foldl round (ip data)).rotateRight 32)

/-- des.rs `Des::decrypt` -/
def decrypt (keys : List (BitVec 64)) (data : BitVec 64) : BitVec 64 :=
  fp ((keys.reverse.foldl round (ip data)).rotateRight 32)

/-- `Des::new` + `encrypt_block` -/
def desEnc (key : BitVec 64) (b : BitVec 64) : BitVec 64 := encrypt (genKeys key) b
def desDec (key : BitVec 64) (b : BitVec 64) : BitVec 64 := decrypt (genKeys key) b

/-! ### tdes.rs -/

/-- `key[0..8]`, `key[8..16]`, `key[16..24]` of a 24-byte key as big-endian u64 -/
def k1of3 (key : BitVec 192) : BitVec 64 := key.extractLsb' 128 64
def k2of3 (key : BitVec 192) : BitVec 64 := key.extractLsb' 64 64
def k3of3 (key : BitVec 192) : BitVec 64 := key.extractLsb' 0 64
/-- `key[0..8]`, `key[8..16]` of a 16-byte key -/
def k1of2 (key : BitVec 128) : BitVec 64 := key.extractLsb' 64 64
def k2of2 (key : BitVec 128) : BitVec 64 := key.extractLsb' 0 64

/-- `TdesEde3`/`TdesEee3` instance: `d1, d2, d3` -/
structure Tdes3 where
  d1 : List (BitVec 64)
  d2 : List (BitVec 64)
  d3 : List (BitVec 64)

/-- `TdesEde2`/`TdesEee2` instance: `d1, d2` -/
structure Tdes2 where
  d1 : List (BitVec 64)
  d2 : List (BitVec 64)

def Tdes3.new (key : BitVec 192) : Tdes3 :=
  { d1 := genKeys (k1of3 key), d2 := genKeys (k2of3 key), d3 := genKeys (k3of3 key) }
def Tdes2.new (key : BitVec 128) : Tdes2 :=
  { d1 := genKeys (k1of2 key), d2 := genKeys (k2of2 key) }

def ede3Enc (t : Tdes3) (data : BitVec 64) : BitVec 64 := encrypt t.d3 (decrypt t.d2 (encrypt t.d1 data))
def ede3Dec (t : Tdes3) (data : BitVec 64) : BitVec 64 := decrypt t.d1 (encrypt t.d2 (decrypt t.d3 data))
def eee3Enc (t : Tdes3) (data : BitVec 64) : BitVec 64 := encrypt t.d3 (encrypt t.d2 (encrypt t.d1 data))
def eee3Dec (t : Tdes3) (data : BitVec 64) : BitVec 64 := decrypt t.d1 (decrypt t.d2 (decrypt t.d3 data))
def ede2Enc (t : Tdes2) (data : BitVec 64) : BitVec 64 := encrypt t.d1 (decrypt t.d2 (encrypt t.d1 data))
def ede2Dec (t : Tdes2) (data : BitVec 64) : BitVec 64 := decrypt t.d1 (encrypt t.d2 (decrypt t.d1 data))
def eee2Enc (t : Tdes2) (data : BitVec 64) : BitVec 64 := encrypt t.d1 (encrypt t.d2 (encrypt t.d1 data))
def eee2Dec (t : Tdes2) (data : BitVec 64) : BitVec 64 := decrypt t.d1 (decrypt t.d2 (decrypt t.d1 data))

/-! ### weak keys (lib.rs `weak_key_test`, `same_des_key`; consts.rs `WEAK_KEYS`; tdes.rs `weak_key_test2/3`) -/

/-- consts.rs `WEAK_KEYS`, the byte arrays as written (byte 0 = most significant byte here) -/
def WEAK_KEYS_BYTES : List (BitVec 64) := [
  0x0101010101010101#64, 0xFEFEFEFEFEFEFEFE#64, 0xE0E0E0E0F1F1F1F1#64, 0x1F1F1F1F0E0E0E0E#64,
  0x011F011F010E010E#64, 0x1F011F010E010E01#64, 0x01E001E001F101F1#64, 0xE001E001F101F101#64,
  0x01FE01FE01FE01FE#64, 0xFE01FE01FE01FE01#64, 0x1FE01FE00EF10EF1#64, 0xE01FE01FF10EF10E#64,
  0x1FFE1FFE0EFE0EFE#64, 0xFE1FFE1FFE0EFE0E#64, 0xE0FEE0FEF1FEF1FE#64, 0xFEE0FEE0FEF1FEF1#64,
  0x01011F1F01010E0E#64, 0x1F1F01010E0E0101#64, 0xE0E01F1FF1F10E0E#64, 0x0101E0E00101F1F1#64,
  0x1F1FE0E00E0EF1F1#64, 0xE0E0FEFEF1F1FEFE#64, 0x0101FEFE0101FEFE#64, 0x1F1FFEFE0E0EFEFE#64,
  0xE0FE011FF1FE010E#64, 0x011F1F01010E0E01#64, 0x1FE001FE0EF101FE#64, 0xE0FE1F01F1FE0E01#64,
  0x011FE0FE010EF1FE#64, 0x1FE0E01F0EF1F10E#64, 0xE0FEFEE0F1FEFEF1#64, 0x011FFEE0010EFEF1#64,
  0x1FE0FE010EF1FE01#64, 0xFE0101FEFE0101FE#64, 0x01E01FFE01F10EFE#64, 0x1FFE01E00EFE01F1#64,
  0xFE011FE0FE010EF1#64, 0xFE01E01FFE01F10E#64, 0x1FFEE0010EFEF101#64, 0xFE1F01E0FE0E01F1#64,
  0x01E0E00101F1F101#64, 0x1FFEFE1F0EFEFE0E#64, 0xFE1FE001FE0EF101#64, 0x01E0FE1F01F1FE0E#64,
  0xE00101E0F10101F1#64, 0xFE1F1FFEFE0E0EFE#64, 0x01FE1FE001FE0EF1#64, 0xE0011FFEF1010EFE#64,
  0xFEE0011FFEF1010E#64, 0x01FEE01F01FEF10E#64, 0xE001FE1FF101FE0E#64, 0xFEE01F01FEF10E01#64,
  0x01FEFE0101FEFE01#64, 0xE01F01FEF10E01FE#64, 0xFEE0E0FEFEF1F1FE#64, 0x1F01011F0E01010E#64,
  0xE01F1FE0F10E0EF1#64, 0xFEFE0101FEFE0101#64, 0x1F01E0FE0E01F1FE#64, 0xE01FFE01F10EFE01#64,
  0xFEFE1F1FFEFE0E0E#64, 0x1F01FEE00E01FEF1#64, 0xE0E00101F1F10101#64, 0xFEFEE0E0FEFEF1F1#64
]
theorem WEAK_KEYS_BYTES_length : WEAK_KEYS_BYTES.length = 64 := by decide

/-- `u64::from_ne_bytes` of 8 bytes given as their big-endian number: little-endian targets read the bytes
reversed.  Both the table (`as_ne_u64!`) and the candidate key go through this function. -/
def fromNe (le : Bool) (x : BitVec 64) : BitVec 64 := if le then bswap64 x else x

/-- consts.rs `WEAK_KEYS` as the `u64`s the target sees -/
def WEAK_KEYS (le : Bool) : List (BitVec 64) := WEAK_KEYS_BYTES.map (fromNe le)

/-- lib.rs `same_des_key` -/
def sameDesKey (k1 k2 : BitVec 64) : Bool := (k1 ^^^ k2) &&& 0xFEFEFEFEFEFEFEFE#64 == 0#64

/-- `u8::from(bool)` -/
def u8OfBool (b : Bool) : BitVec 8 := if b then 1#8 else 0#8

/-- lib.rs `weak_key_test` on the native-endian u64 (returns the u8 flag) -/
def weakKeyTestU64 (le : Bool) (key : BitVec 64) : BitVec 8 :=
  (WEAK_KEYS le).foldl (fun isWeak wk => isWeak ||| u8OfBool (sameDesKey key wk)) 0#8

/-- des.rs `Des::weak_key_test`: `true` = `Err(WeakKeyError)`; `key` = the 8 key bytes big-endian -/
def weakNe (le : Bool) (key : BitVec 64) : Bool :=
  weakKeyTestU64 le (fromNe le key) != 0#8

/-- tdes.rs `weak_key_test2` -/
def weak2Ne (le : Bool) (key : BitVec 128) : Bool :=
  let k1 := fromNe le (k1of2 key)
  let k2 := fromNe le (k2of2 key)
  let isWeak := 0#8
  let isWeak := isWeak ||| weakKeyTestU64 le k1
  let isWeak := isWeak ||| weakKeyTestU64 le k2
  let isWeak := isWeak ||| u8OfBool (sameDesKey k1 k2)
  isWeak != 0#8

/-- tdes.rs `weak_key_test3` -/
def weak3Ne (le : Bool) (key : BitVec 192) : Bool :=
  let k1 := fromNe le (k1of3 key)
  let k2 := fromNe le (k2of3 key)
  let k3 := fromNe le (k3of3 key)
  let isWeak := 0#8
  let isWeak := isWeak ||| weakKeyTestU64 le k1
  let isWeak := isWeak ||| weakKeyTestU64 le k2
  let isWeak := isWeak ||| weakKeyTestU64 le k3
  let isWeak := isWeak ||| u8OfBool (sameDesKey k1 k2)
  let isWeak := isWeak ||| u8OfBool (sameDesKey k1 k3)
  let isWeak := isWeak ||| u8OfBool (sameDesKey k2 k3)
  isWeak != 0#8

/-- the verification host is little-endian (x86_64); `Proofs/DesWeak.lean` shows the result does not depend
on the byte order -/
def weak (key : BitVec 64) : Bool := weakNe true key
def weak2 (key : BitVec 128) : Bool := weak2Ne true key
def weak3 (key : BitVec 192) : Bool := weak3Ne true key

/-- `new_from_slice` length guards -/
def accepts1 (n : Nat) : Bool := n == 8
def accepts2 (n : Nat) : Bool := n == 16
def accepts3 (n : Nat) : Bool := n == 24

end BC.Des
