import BlockCiphers.Prelude.Bytes
/-
Model of /repo/kuznyechik/src (Kuznyechik, GOST R 34.12-2015; 128-bit block, 256-bit key), mirroring the Rust as
written: `gft.rs`, `consts.rs`, `utils.rs`, `fused_tables.rs` and the four backends `compact_soft`, `big_soft`,
`sse2`, `neon`.

Two byte orders meet here:

* a 16-byte Rust array (`Block`, a row of a fused table, a `KEYGEN` entry) is, by the convention of
  `Prelude/Bytes.lean`, a `BitVec 128` whose MOST significant byte is array element 0 ("memory image");
  `getb m k` / `setb m k v` read / write array element `k`;
* a `u128` obtained by `u128::from_le_bytes`, an `__m128i` (x86 lane order) and a `uint8x16_t` (lane `i` = bits
  8i+7:8i) are `BitVec 128` with their numeric value, i.e. array element 0 in the LEAST significant byte.
  The conversion is `rev128` (16-byte reversal) and is written at every load/store, where the Rust has
  `from_le_bytes` / `to_le_bytes` / `_mm_loadu_si128` / `_mm_storeu_si128` / `vld1q_u8` / `vst1q_u8` / the
  pointer cast `&[u8; 65536] → &[[u128; 256]; 16]` (all targets that compile these backends natively are
  little-endian; `big_soft` on a big-endian target swaps the result of `transform`, see there).

NEON cannot be run in this sandbox: `Neon.*` is modelled from the source text at the same level as `Sse2.*`, and
the semantics of the intrinsics (`vqtbl4q_u8`, `vzip1q_u8`, `vzip2q_u8`, `vshlq_n_u16`, `vgetq_lane_u16`,
`vsubq_u8`, `vld1q_u8`, …) are ASSUMED as transcribed from the Arm ARM.

-- C20-SITE: gft.rs mul_gf256: `a << 1` on u8 : a shift amount < 8 never panics (bits shifted out are dropped)
-- C20-SITE: gft.rs mul_table_gf256: `i += 1`, `table[i]`, `i as u8` : i < 256 = table.len()
-- C20-SITE: consts.rs P_INV: `t[P[i] as usize]`, `i += 1` : P[i] < 256, i < 256
-- C20-SITE: utils.rs get_idx: `b.wrapping_sub(i) & 0x0F` : wrapping by construction, result < 16 = msg.len()
-- C20-SITE: utils.rs KEYGEN: `(n + 1) as u8`, `n += 1`, `i += 1` : n < 32, i < 16
-- C20-SITE: fused_tables.rs: `pos + k + 1`, `pos += 16`, `k -= 1` (guarded by `k > 0`), `table[pos + 15]` :
--           pos = 16·(256·i + j) ≤ 65520, so pos + 15 < 65536 = table.len(); the last `pos += 16` gives 65536 < 2^64
-- C20-SITE: compact_soft get_c(8 * n + 2 * i + 1) : n < 4, i < 4, index ≤ 31 < 32 = KEYGEN.len()
-- C20-SITE: compact_soft keys[2 * i + 1], `i - 1`, `9 - i`, `15 - i` : i ∈ 1..5 / 0..9 / 0..16, no underflow
-- C20-SITE: big_soft/sse2/neon expand_enc_keys: `cidx += 1` : cidx ≤ 32; KEYGEN[cidx] with cidx ≤ 31
-- C20-SITE: big_soft transform: `table[i][block[i] as usize]` : i < 16, byte < 256
-- C20-SITE: sse2/neon transform: `table.0.as_ptr().add(idx)` (raw-pointer 16-byte load) : idx = 16·(256·pos + byte)
--           ≤ 65520 fits the 16-bit lane (no bit lost by `_mm_slli_epi16(_, 4)` / `vshlq_n_u16(_, 4)`), is a
--           multiple of 16 (alignment `debug_assert`) and idx + 16 ≤ 65536 (theorems `Sse2.lind_lane`, `rind_lane`)
-- C20-SITE: inv_enc_keys `dec_keys[9 - i]` : i ∈ 1..9
-/
namespace BC.Kuznyechik

/- The two fused tables cost ≈ 1.5 s each to compute in the compiled driver.  They are therefore kept behind
`Thunk`s (computed on first use, then cached), and closed-term extraction is switched off for this file so that
the compiler does not hoist `ENC_TABLE.get` out of the functions into the start-up code of the executable. -/
set_option compiler.extract_closed false

/-! ## byte access -/

/-- array element `k` (0..15) of a 16-byte array in memory-image order -/
def getb (m : BitVec 128) (k : Nat) : BitVec 8 := (m >>> (8 * (15 - k))).setWidth 8

/-- `m[k] = v` -/
def setb (m : BitVec 128) (k : Nat) (v : BitVec 8) : BitVec 128 :=
  (m &&& ~~~(0xFF#128 <<< (8 * (15 - k)))) ||| (v.setWidth 128 <<< (8 * (15 - k)))

/-- the array `[f 0, f 1, …, f 15]` -/
def mapIdx (f : Nat → BitVec 8) : BitVec 128 :=
  (List.range 16).foldl (fun acc i => (acc <<< 8) ||| (f i).setWidth 128) 0#128

/-- 16-byte reversal: memory image ↔ little-endian numeric value (`from_le_bytes`, `to_le_bytes`, loads, stores) -/
def rev128 (x : BitVec 128) : BitVec 128 :=
  bswap64 (x.extractLsb' 0 64) ++ bswap64 (x.extractLsb' 64 64)

/-- byte `i` of `v.to_le_bytes()` / byte lane `i` of a vector register -/
def leByte (v : BitVec 128) (i : Nat) : BitVec 8 := v.extractLsb' (8 * i) 8

/-- `u128::from_le_bytes([f 0, …, f 15])` / the register with byte lanes `f 0 … f 15` -/
def ofLeBytes (f : Nat → BitVec 8) : BitVec 128 :=
  (List.range 16).foldl (fun acc i => (acc <<< 8) ||| (f (15 - i)).setWidth 128) 0#128

/-! ## gft.rs -/

/-- the `while b != 0` loop of `mul_gf256`; `b` is shifted right once per iteration, so 8 iterations suffice -/
def mul_gf256_loop : Nat → BitVec 8 → BitVec 8 → BitVec 8 → BitVec 8
  | 0, _, _, c => c
  | fuel + 1, a, b, c =>
    if b = 0#8 then c else
    let c := if b &&& 1#8 ≠ 0#8 then c ^^^ a else c
    let a := (a <<< 1) ^^^ (if a &&& 0x80#8 ≠ 0#8 then 0xC3#8 else 0x00#8)
    mul_gf256_loop fuel a (b >>> 1) c

def mul_gf256 (a b : BitVec 8) : BitVec 8 := mul_gf256_loop 8 a b 0#8

/-- `table[i] = mul_gf256(a, i as u8)` for `i` in 0..256 -/
def mul_table_gf256 (a : BitVec 8) : Vector (BitVec 8) 256 :=
  Vector.ofFn (fun i : Fin 256 => mul_gf256 a (BitVec.ofNat 8 i.val))

def GFT_16 : Vector (BitVec 8) 256 := mul_table_gf256 16#8
def GFT_32 : Vector (BitVec 8) 256 := mul_table_gf256 32#8
def GFT_133 : Vector (BitVec 8) 256 := mul_table_gf256 133#8
def GFT_148 : Vector (BitVec 8) 256 := mul_table_gf256 148#8
def GFT_192 : Vector (BitVec 8) 256 := mul_table_gf256 192#8
def GFT_194 : Vector (BitVec 8) 256 := mul_table_gf256 194#8
def GFT_251 : Vector (BitVec 8) 256 := mul_table_gf256 251#8

/-- `t[x as usize]` for a 256-entry table -/
def lut (t : Vector (BitVec 8) 256) (x : BitVec 8) : BitVec 8 := t[x.toNat]'(x.isLt)

/-! ## consts.rs -/

/-- `P`, COPIED from /repo/kuznyechik/src/consts.rs -/
def P_TABLE : Array (BitVec 8) := #[
  0xFC#8, 0xEE#8, 0xDD#8, 0x11#8, 0xCF#8, 0x6E#8, 0x31#8, 0x16#8, 0xFB#8, 0xC4#8, 0xFA#8, 0xDA#8, 0x23#8, 0xC5#8, 0x04#8, 0x4D#8,
  0xE9#8, 0x77#8, 0xF0#8, 0xDB#8, 0x93#8, 0x2E#8, 0x99#8, 0xBA#8, 0x17#8, 0x36#8, 0xF1#8, 0xBB#8, 0x14#8, 0xCD#8, 0x5F#8, 0xC1#8,
  0xF9#8, 0x18#8, 0x65#8, 0x5A#8, 0xE2#8, 0x5C#8, 0xEF#8, 0x21#8, 0x81#8, 0x1C#8, 0x3C#8, 0x42#8, 0x8B#8, 0x01#8, 0x8E#8, 0x4F#8,
  0x05#8, 0x84#8, 0x02#8, 0xAE#8, 0xE3#8, 0x6A#8, 0x8F#8, 0xA0#8, 0x06#8, 0x0B#8, 0xED#8, 0x98#8, 0x7F#8, 0xD4#8, 0xD3#8, 0x1F#8,
  0xEB#8, 0x34#8, 0x2C#8, 0x51#8, 0xEA#8, 0xC8#8, 0x48#8, 0xAB#8, 0xF2#8, 0x2A#8, 0x68#8, 0xA2#8, 0xFD#8, 0x3A#8, 0xCE#8, 0xCC#8,
  0xB5#8, 0x70#8, 0x0E#8, 0x56#8, 0x08#8, 0x0C#8, 0x76#8, 0x12#8, 0xBF#8, 0x72#8, 0x13#8, 0x47#8, 0x9C#8, 0xB7#8, 0x5D#8, 0x87#8,
  0x15#8, 0xA1#8, 0x96#8, 0x29#8, 0x10#8, 0x7B#8, 0x9A#8, 0xC7#8, 0xF3#8, 0x91#8, 0x78#8, 0x6F#8, 0x9D#8, 0x9E#8, 0xB2#8, 0xB1#8,
  0x32#8, 0x75#8, 0x19#8, 0x3D#8, 0xFF#8, 0x35#8, 0x8A#8, 0x7E#8, 0x6D#8, 0x54#8, 0xC6#8, 0x80#8, 0xC3#8, 0xBD#8, 0x0D#8, 0x57#8,
  0xDF#8, 0xF5#8, 0x24#8, 0xA9#8, 0x3E#8, 0xA8#8, 0x43#8, 0xC9#8, 0xD7#8, 0x79#8, 0xD6#8, 0xF6#8, 0x7C#8, 0x22#8, 0xB9#8, 0x03#8,
  0xE0#8, 0x0F#8, 0xEC#8, 0xDE#8, 0x7A#8, 0x94#8, 0xB0#8, 0xBC#8, 0xDC#8, 0xE8#8, 0x28#8, 0x50#8, 0x4E#8, 0x33#8, 0x0A#8, 0x4A#8,
  0xA7#8, 0x97#8, 0x60#8, 0x73#8, 0x1E#8, 0x00#8, 0x62#8, 0x44#8, 0x1A#8, 0xB8#8, 0x38#8, 0x82#8, 0x64#8, 0x9F#8, 0x26#8, 0x41#8,
  0xAD#8, 0x45#8, 0x46#8, 0x92#8, 0x27#8, 0x5E#8, 0x55#8, 0x2F#8, 0x8C#8, 0xA3#8, 0xA5#8, 0x7D#8, 0x69#8, 0xD5#8, 0x95#8, 0x3B#8,
  0x07#8, 0x58#8, 0xB3#8, 0x40#8, 0x86#8, 0xAC#8, 0x1D#8, 0xF7#8, 0x30#8, 0x37#8, 0x6B#8, 0xE4#8, 0x88#8, 0xD9#8, 0xE7#8, 0x89#8,
  0xE1#8, 0x1B#8, 0x83#8, 0x49#8, 0x4C#8, 0x3F#8, 0xF8#8, 0xFE#8, 0x8D#8, 0x53#8, 0xAA#8, 0x90#8, 0xCA#8, 0xD8#8, 0x85#8, 0x61#8,
  0x20#8, 0x71#8, 0x67#8, 0xA4#8, 0x2D#8, 0x2B#8, 0x09#8, 0x5B#8, 0xCB#8, 0x9B#8, 0x25#8, 0xD0#8, 0xBE#8, 0xE5#8, 0x6C#8, 0x52#8,
  0x59#8, 0xA6#8, 0x74#8, 0xD2#8, 0xE6#8, 0xF4#8, 0xB4#8, 0xC0#8, 0xD1#8, 0x66#8, 0xAF#8, 0xC2#8, 0x39#8, 0x4B#8, 0x63#8, 0xB6#8]

theorem P_TABLE_size : P_TABLE.size = 256 := by decide +kernel

def P : Vector (BitVec 8) 256 := ⟨P_TABLE, P_TABLE_size⟩

/-- `P_INV`, COMPUTED as the const block does: `t = [0; 256]; for i in 0..256 { t[P[i] as usize] = i as u8 }` -/
def P_INV : Vector (BitVec 8) 256 :=
  (List.range 256).foldl
    (fun t i => t.set (lut P (BitVec.ofNat 8 i)).toNat (BitVec.ofNat 8 i) (lut P (BitVec.ofNat 8 i)).isLt)
    (Vector.replicate 256 0#8)

/-! ## utils.rs -/

/-- `b.wrapping_sub(i) & 0x0F` on `usize` -/
def get_idx (b i : Nat) : Nat := ((BitVec.ofNat 64 b - BitVec.ofNat 64 i) &&& 0x0F#64).toNat

/-- `msg[get_idx(b, i)]` (the `as usize` is absorbed by `lut`) -/
def get_m (msg : BitVec 128) (b i : Nat) : BitVec 8 := getb msg (get_idx b i)

def l_step (msg : BitVec 128) (i : Nat) : BitVec 128 :=
  let x := getb msg (get_idx 15 i)
  let x := x ^^^ lut GFT_148 (get_m msg 14 i)
  let x := x ^^^ lut GFT_32 (get_m msg 13 i)
  let x := x ^^^ lut GFT_133 (get_m msg 12 i)
  let x := x ^^^ lut GFT_16 (get_m msg 11 i)
  let x := x ^^^ lut GFT_194 (get_m msg 10 i)
  let x := x ^^^ lut GFT_192 (get_m msg 9 i)
  let x := x ^^^ getb msg (get_idx 8 i)
  let x := x ^^^ lut GFT_251 (get_m msg 7 i)
  let x := x ^^^ getb msg (get_idx 6 i)
  let x := x ^^^ lut GFT_192 (get_m msg 5 i)
  let x := x ^^^ lut GFT_194 (get_m msg 4 i)
  let x := x ^^^ lut GFT_16 (get_m msg 3 i)
  let x := x ^^^ lut GFT_133 (get_m msg 2 i)
  let x := x ^^^ lut GFT_32 (get_m msg 1 i)
  let x := x ^^^ lut GFT_148 (get_m msg 0 i)
  setb msg (get_idx 15 i) x

/-- `for i in 0..16 { block = l_step(block, i) }` -/
def l_fwd (block : BitVec 128) : BitVec 128 := (List.range 16).foldl (fun b i => l_step b i) block

/-- `for i in 0..16 { block = l_step(block, 15 - i) }` -/
def l_bwd (block : BitVec 128) : BitVec 128 := (List.range 16).foldl (fun b i => l_step b (15 - i)) block

/-- `KEYGEN`, COMPUTED as the static initialiser does: `block[15] = (n + 1) as u8`, then the 16 `l_step`s -/
def KEYGEN : Vector (BitVec 128) 32 :=
  Vector.ofFn (fun n : Fin 32 => l_fwd (setb 0#128 15 (BitVec.ofNat 8 (n.val + 1))))

/-- the ten round keys (`[Block; 10]`, `[u128; 10]`, `[__m128i; 10]`, `[uint8x16_t; 10]`) -/
structure RoundKeys where
  k0 : BitVec 128
  k1 : BitVec 128
  k2 : BitVec 128
  k3 : BitVec 128
  k4 : BitVec 128
  k5 : BitVec 128
  k6 : BitVec 128
  k7 : BitVec 128
  k8 : BitVec 128
  k9 : BitVec 128
deriving DecidableEq

def RoundKeys.toList (k : RoundKeys) : List (BitVec 128) :=
  [k.k0, k.k1, k.k2, k.k3, k.k4, k.k5, k.k6, k.k7, k.k8, k.k9]

/-- `unroll_par!(j, { body })` written out for `j = 0 … n−1`, where `body` reads and writes lane `j` only: lanes
0..n−1 get the body, any further lane of the array is left untouched -/
def unroll_par (n : Nat) (body : BitVec 128 → BitVec 128) (lanes : List (BitVec 128)) : List (BitVec 128) :=
  (lanes.take n).map body ++ lanes.drop n

/-- `new_from_slice`: the key type is `Array<u8, U32>` -/
def accepts (n : Nat) : Bool := n == 32

/-- map a sixteen-byte array through a byte function (`for i in 0..16 { block[i] = f(block[i]) }`: iteration `i`
reads and writes element `i` only, so the order of the iterations is immaterial) -/
def mapBytes (f : BitVec 8 → BitVec 8) (m : BitVec 128) : BitVec 128 := mapIdx (fun i => f (getb m i))

/-! ## compact_soft -/
namespace Compact

/-- `for i in 0..16 { a[i] ^= b[i] }` -/
def x (a b : BitVec 128) : BitVec 128 := a ^^^ b

def lsx (block key : BitVec 128) : BitVec 128 :=
  let block := x block key
  -- s
  let block := mapBytes (lut P) block
  -- l
  l_fwd block

def lsx_inv (block key : BitVec 128) : BitVec 128 :=
  let block := x block key
  -- l_inv
  let block := l_bwd block
  -- s_inv (`block[15 - i] = P_INV[block[15 - i]]`, i in 0..16)
  mapBytes (lut P_INV) block

def get_c (n : Nat) (h : n < 32) : BitVec 128 := KEYGEN[n]

def f (k : BitVec 128 × BitVec 128) (n : Fin 4) : BitVec 128 × BitVec 128 :=
  (List.finRange 4).foldl (fun (k : BitVec 128 × BitVec 128) (i : Fin 4) =>
    let k1_cpy := lsx k.1 (get_c (8 * n.val + 2 * i.val) (by omega))
    let k2 := x k.2 k1_cpy
    let k2_cpy := lsx k2 (get_c (8 * n.val + 2 * i.val + 1) (by omega))
    let k1 := x k.1 k2_cpy
    (k1, k2)) k

/-- `expand`: `for i in 1..5 { f(&mut k1, &mut k2, i - 1); keys[2*i] = k1; keys[2*i+1] = k2 }` -/
def expand (key : BitVec 256) : RoundKeys :=
  let p0 := (key.extractLsb' 128 128, key.extractLsb' 0 128)
  let p1 := f p0 0
  let p2 := f p1 1
  let p3 := f p2 2
  let p4 := f p3 3
  { k0 := p0.1, k1 := p0.2, k2 := p1.1, k3 := p1.2, k4 := p2.1, k5 := p2.2,
    k6 := p3.1, k7 := p3.2, k8 := p4.1, k9 := p4.2 }

/-- `for i in 0..9 { lsx(&mut b, &self.0[i]) }; x(&mut b, &self.0[9])` -/
def encrypt_block (k : RoundKeys) (b : BitVec 128) : BitVec 128 :=
  let b := [k.k0, k.k1, k.k2, k.k3, k.k4, k.k5, k.k6, k.k7, k.k8].foldl lsx b
  x b k.k9

/-- `for i in 0..9 { lsx_inv(&mut b, &self.0[9 - i]) }; x(&mut b, &self.0[0])` -/
def decrypt_block (k : RoundKeys) (b : BitVec 128) : BitVec 128 :=
  let b := [k.k9, k.k8, k.k7, k.k6, k.k5, k.k4, k.k3, k.k2, k.k1].foldl lsx_inv b
  x b k.k0

/-- `EncKeys`, `EncDecKeys`, `DecKeys` all wrap the same `RoundKeys` -/
structure EncKeys where
  keys : RoundKeys
structure EncDecKeys where
  keys : RoundKeys
structure DecKeys where
  keys : RoundKeys

def EncKeys.new (key : BitVec 256) : EncKeys := ⟨expand key⟩
def EncDecKeys.fromEnc (e : EncKeys) : EncDecKeys := ⟨e.keys⟩
def DecKeys.fromEnc (e : EncKeys) : DecKeys := ⟨e.keys⟩

end Compact

/-! ## fused_tables.rs

The const fns fill a flat `[u8; 16 * 4096]`.  `pos` starts at 0 and grows by 16 per `j`-iteration, so during
iteration `(i, j)` it equals `16·(256·i + j)`, and the body reads and writes `table[pos .. pos + 16]` only.  The
model keeps the table as 4096 rows of 16 bytes (row `256·i + j` = `table[pos .. pos+16]`, memory image) and
mirrors the body on that window. -/

/-- one of the 16 `n`-iterations of `fused_enc_table` on the window `w = table[pos .. pos+16]` -/
def enc_row_step (w : BitVec 128) : BitVec 128 :=
  let x := getb w 15
  let x := x ^^^ lut GFT_148 (getb w 14)
  let x := x ^^^ lut GFT_32 (getb w 13)
  let x := x ^^^ lut GFT_133 (getb w 12)
  let x := x ^^^ lut GFT_16 (getb w 11)
  let x := x ^^^ lut GFT_194 (getb w 10)
  let x := x ^^^ lut GFT_192 (getb w 9)
  let x := x ^^^ getb w 8
  let x := x ^^^ lut GFT_251 (getb w 7)
  let x := x ^^^ getb w 6
  let x := x ^^^ lut GFT_192 (getb w 5)
  let x := x ^^^ lut GFT_194 (getb w 4)
  let x := x ^^^ lut GFT_16 (getb w 3)
  let x := x ^^^ lut GFT_133 (getb w 2)
  let x := x ^^^ lut GFT_32 (getb w 1)
  let x := x ^^^ lut GFT_148 (getb w 0)
  -- `let mut k = 15; while k > 0 { k -= 1; table[pos + k + 1] = table[pos + k]; }`
  let w := (List.range 15).foldl (fun w n => setb w (14 - n + 1) (getb w (14 - n))) w
  setb w 0 x

/-- row `(i, j)` of `fused_enc_table`: window zero, `table[pos + i] = P[j]`, 16 iterations -/
def enc_row (i : Nat) (j : BitVec 8) : BitVec 128 := iter enc_row_step 16 (setb 0#128 i (lut P j))

/-- one of the 16 `n`-iterations of `fused_dec_table` -/
def dec_row_step (w : BitVec 128) : BitVec 128 :=
  let x := getb w 0
  let x := x ^^^ lut GFT_148 (getb w 1)
  let x := x ^^^ lut GFT_32 (getb w 2)
  let x := x ^^^ lut GFT_133 (getb w 3)
  let x := x ^^^ lut GFT_16 (getb w 4)
  let x := x ^^^ lut GFT_194 (getb w 5)
  let x := x ^^^ lut GFT_192 (getb w 6)
  let x := x ^^^ getb w 7
  let x := x ^^^ lut GFT_251 (getb w 8)
  let x := x ^^^ getb w 9
  let x := x ^^^ lut GFT_192 (getb w 10)
  let x := x ^^^ lut GFT_194 (getb w 11)
  let x := x ^^^ lut GFT_16 (getb w 12)
  let x := x ^^^ lut GFT_133 (getb w 13)
  let x := x ^^^ lut GFT_32 (getb w 14)
  let x := x ^^^ lut GFT_148 (getb w 15)
  -- `let mut k = 0; while k < 15 { table[pos + k] = table[pos + k + 1]; k += 1; }`
  let w := (List.range 15).foldl (fun w k => setb w k (getb w (k + 1))) w
  setb w 15 x

def dec_row (i : Nat) (j : BitVec 8) : BitVec 128 := iter dec_row_step 16 (setb 0#128 i (lut P_INV j))

/-- `fused_enc_table()`: row `r = 256·i + j` (bytes `16r .. 16r+16` of the flat array), memory image -/
def fused_enc_table (_ : Unit) : Vector (BitVec 128) 4096 :=
  Vector.ofFn (fun r : Fin 4096 => enc_row (r.val / 256) (BitVec.ofNat 8 (r.val % 256)))

def fused_dec_table (_ : Unit) : Vector (BitVec 128) 4096 :=
  Vector.ofFn (fun r : Fin 4096 => dec_row (r.val / 256) (BitVec.ofNat 8 (r.val % 256)))

/-- `ENC_TABLE` as the backends read it: 128-bit little-endian loads of 16-byte rows (`&[[u128; 256]; 16]` cast
in `big_soft`, `_mm_load_si128` in `sse2`, `vld1q_u8` in `neon`); `ENC_TABLE.get` is the table -/
def ENC_TABLE : Thunk (Vector (BitVec 128) 4096) := Thunk.mk (fun u => (fused_enc_table u).map rev128)
def DEC_TABLE : Thunk (Vector (BitVec 128) 4096) := Thunk.mk (fun u => (fused_dec_table u).map rev128)

/-- `table[i][b]` of the `[[u128; 256]; 16]` view -/
def row (t : Vector (BitVec 128) 4096) (i : Fin 16) (b : BitVec 8) : BitVec 128 :=
  t[256 * i.val + b.toNat]'(by have := b.isLt; have := i.isLt; omega)

/-- the 128-bit load at BYTE offset `idx` of the flat table (`table.0.as_ptr().add(idx)`); the offsets produced
by `transform` are multiples of 16 (see the C20 note), so this is row `idx / 16` -/
def load_at (t : Vector (BitVec 128) 4096) (idx : BitVec 16) : BitVec 128 :=
  t[idx.toNat / 16]'(by have := idx.isLt; omega)

/-- `KEYGEN[i]` loaded as a 128-bit little-endian value (`u128::from_le_bytes`, `_mm_load_si128`, `vld1q_u8`) -/
def next_const (i : Nat) (h : i < 32) : BitVec 128 := rev128 KEYGEN[i]

/-- key types of the three table backends -/
structure EncKeys where
  keys : RoundKeys
structure EncDecKeys where
  enc : RoundKeys
  dec : RoundKeys
structure DecKeys where
  keys : RoundKeys

/-- the body shared (textually) by `expand_enc_keys` of big_soft / sse2 / neon, over that backend's `transform`:
`for i in 1..5 { for _ in 0..4 { t = k1 ^ next_const(cidx); cidx += 1; t = transform(t, &ENC_TABLE.get); k2 ^= t;
t = k2 ^ next_const(cidx); cidx += 1; t = transform(t, &ENC_TABLE.get); k1 ^= t; } … }`; during iteration
`(i, j)` the counter `cidx` is `8·(i−1) + 2·j` -/
def expand_inner (tr : BitVec 128 → BitVec 128) (k : BitVec 128 × BitVec 128) (n : Fin 4) :
    BitVec 128 × BitVec 128 :=
  (List.finRange 4).foldl (fun (k : BitVec 128 × BitVec 128) (j : Fin 4) =>
    let t := k.1 ^^^ next_const (8 * n.val + 2 * j.val) (by omega)
    let t := tr t
    let k2 := k.2 ^^^ t
    let t := k2 ^^^ next_const (8 * n.val + 2 * j.val + 1) (by omega)
    let t := tr t
    let k1 := k.1 ^^^ t
    (k1, k2)) k

def expand_with (tr : BitVec 128 → BitVec 128) (k1 k2 : BitVec 128) : RoundKeys :=
  let p0 := (k1, k2)
  let p1 := expand_inner tr p0 0
  let p2 := expand_inner tr p1 1
  let p3 := expand_inner tr p2 2
  let p4 := expand_inner tr p3 3
  { k0 := p0.1, k1 := p0.2, k2 := p1.1, k3 := p1.2, k4 := p2.1, k5 := p2.2,
    k6 := p3.1, k7 := p3.2, k8 := p4.1, k9 := p4.2 }

/-- `inv_enc_keys` over a backend's `sub_bytes(·, &P)` and `transform(·, &DEC_TABLE.get)`:
`dec[0] = enc[9]; for i in 1..9 { dec[9 - i] = transform(sub_bytes(enc[i], &P), &DEC_TABLE.get) }; dec[9] = enc[0]` -/
def inv_with (g : BitVec 128 → BitVec 128) (e : RoundKeys) : RoundKeys :=
  { k0 := e.k9, k1 := g e.k8, k2 := g e.k7, k3 := g e.k6, k4 := g e.k5, k5 := g e.k4, k6 := g e.k3,
    k7 := g e.k2, k8 := g e.k1, k9 := e.k0 }

/-! ## big_soft -/
namespace Soft

/-- `u128::from_le_bytes(block.to_le_bytes().map(|v| sbox[v as usize]))` -/
def sub_bytes (block : BitVec 128) (sbox : Vector (BitVec 8) 256) : BitVec 128 :=
  ofLeBytes (fun i => lut sbox (leByte block i))

/-- `for i in 0..16 { res ^= table[i][block[i] as usize] }` (little-endian target: no final `swap_bytes`) -/
def transform (block : BitVec 128) (table : Vector (BitVec 128) 4096) : BitVec 128 :=
  (List.finRange 16).foldl (fun res i => res ^^^ row table i (leByte block i.val)) 0#128

def expand_enc_keys (key : BitVec 256) : RoundKeys :=
  expand_with (fun t => transform t ENC_TABLE.get)
    (rev128 (key.extractLsb' 128 128)) (rev128 (key.extractLsb' 0 128))

def inv_enc_keys (enc_keys : RoundKeys) : RoundKeys :=
  inv_with (fun k => transform (sub_bytes k P) DEC_TABLE.get) enc_keys

def encrypt_block (k : RoundKeys) (block : BitVec 128) : BitVec 128 :=
  let b := rev128 block
  let b := [k.k0, k.k1, k.k2, k.k3, k.k4, k.k5, k.k6, k.k7, k.k8].foldl
    (fun b ki => transform (b ^^^ ki) ENC_TABLE.get) b
  let b := b ^^^ k.k9
  rev128 b

/-- number of lanes written out by this backend's `unroll_par!` macro -/
def unrollN : Nat := 3

/-- `encrypt_par_blocks` on an array of `ParBlocksSize` blocks: all lanes are loaded (`.map(from_le_bytes)`), the
`unroll_par!` lanes go through the rounds and are written to `blocks_out`; an output lane outside the macro would
not be written (in place: it keeps the input block) -/
def encrypt_par_blocks (k : RoundKeys) (blocks : List (BitVec 128)) : List (BitVec 128) :=
  let bs := blocks.map rev128
  let bs := [k.k0, k.k1, k.k2, k.k3, k.k4, k.k5, k.k6, k.k7, k.k8].foldl
    (fun bs ki => unroll_par unrollN (fun b => transform (b ^^^ ki) ENC_TABLE.get) bs) bs
  (bs.take unrollN).map (fun b => rev128 (b ^^^ k.k9)) ++ blocks.drop unrollN

def decrypt_block (k : RoundKeys) (block : BitVec 128) : BitVec 128 :=
  let b := rev128 block
  let b := b ^^^ k.k0
  let b := sub_bytes b P
  let b := transform b DEC_TABLE.get
  let b := [k.k1, k.k2, k.k3, k.k4, k.k5, k.k6, k.k7, k.k8].foldl
    (fun b ki => transform b DEC_TABLE.get ^^^ ki) b
  let b := sub_bytes b P_INV
  let b := b ^^^ k.k9
  rev128 b

/-- `ParBlocksSize` of big_soft's `EncBackend` (`consts::U3`) -/
def parEnc : Nat := 3
/-- `DecBackend::ParBlocksSize = U1`: there is no `decrypt_par_blocks` in big_soft -/
def parDec : Nat := 1

def EncKeys.new (key : BitVec 256) : EncKeys := ⟨expand_enc_keys key⟩
def EncDecKeys.fromEnc (e : EncKeys) : EncDecKeys := { dec := inv_enc_keys e.keys, enc := e.keys }
def DecKeys.fromEnc (e : EncKeys) : DecKeys := ⟨inv_enc_keys e.keys⟩

end Soft

/-! ## sse2 (intrinsics by their arithmetic meaning on the 128-bit register value) -/
namespace Sse2

/-- MOVDQU / MOVDQA load of a 16-byte array -/
def _mm_loadu_si128 (mem : BitVec 128) : BitVec 128 := rev128 mem
def _mm_storeu_si128 (v : BitVec 128) : BitVec 128 := rev128 v
def _mm_xor_si128 (a b : BitVec 128) : BitVec 128 := a ^^^ b
/-- PEXTRW, `as u16` -/
def _mm_extract_epi16 (v : BitVec 128) (k : Nat) : BitVec 16 := v.extractLsb' (16 * k) 16
/-- `_mm_set_epi8(e15, …, e0)`: the list is in argument order, `e15` first -/
def _mm_set_epi8 (es : List (BitVec 8)) : BitVec 128 :=
  es.foldl (fun acc e => (acc <<< 8) ||| e.setWidth 128) 0#128
def _mm_set_epi64x (e1 e0 : BitVec 64) : BitVec 128 := e1 ++ e0
/-- PUNPCKLBW: bytes a0 b0 a1 b1 … a7 b7 -/
def _mm_unpacklo_epi8 (a b : BitVec 128) : BitVec 128 :=
  ofLeBytes (fun n => if n % 2 = 0 then leByte a (n / 2) else leByte b (n / 2))
/-- PUNPCKHBW: bytes a8 b8 … a15 b15 -/
def _mm_unpackhi_epi8 (a b : BitVec 128) : BitVec 128 :=
  ofLeBytes (fun n => if n % 2 = 0 then leByte a (8 + n / 2) else leByte b (8 + n / 2))
/-- PSLLW: every 16-bit lane shifted left, bits shifted out of the lane are lost -/
def _mm_slli_epi16 (v : BitVec 128) (n : Nat) : BitVec 128 :=
  (List.range 8).foldl (fun acc k => (acc <<< 16) ||| ((_mm_extract_epi16 v (7 - k)) <<< n).setWidth 128) 0#128

def sub_bytes (block : BitVec 128) (sbox : Vector (BitVec 8) 256) : BitVec 128 :=
  let t0 := _mm_extract_epi16 block 0
  let t1 := _mm_extract_epi16 block 1
  let t2 := _mm_extract_epi16 block 2
  let t3 := _mm_extract_epi16 block 3
  let t4 := _mm_extract_epi16 block 4
  let t5 := _mm_extract_epi16 block 5
  let t6 := _mm_extract_epi16 block 6
  let t7 := _mm_extract_epi16 block 7
  let hi (t : BitVec 16) : BitVec 8 := lut sbox ((t >>> 8).setWidth 8)
  let lo (t : BitVec 16) : BitVec 8 := lut sbox ((t &&& 0xFF#16).setWidth 8)
  _mm_set_epi8 [hi t7, lo t7, hi t6, lo t6, hi t5, lo t5, hi t4, lo t4,
                hi t3, lo t3, hi t2, lo t2, hi t1, lo t1, hi t0, lo t0]

/-- `get!`: `_mm_load_si128(table.0.as_ptr().add(_mm_extract_epi16(ind, i) as u16 as usize))` -/
def get (table : Vector (BitVec 128) 4096) (ind : BitVec 128) (i : Nat) : BitVec 128 :=
  load_at table (_mm_extract_epi16 ind i)

def ind : BitVec 128 := _mm_set_epi64x 0x0f0e0d0c0b0a0908#64 0x0706050403020100#64

def transform (block : BitVec 128) (table : Vector (BitVec 128) 4096) : BitVec 128 :=
  let lind := _mm_slli_epi16 (_mm_unpacklo_epi8 block ind) 4
  let lt := get table lind 0
  let lt := _mm_xor_si128 lt (get table lind 1)
  let lt := _mm_xor_si128 lt (get table lind 2)
  let lt := _mm_xor_si128 lt (get table lind 3)
  let lt := _mm_xor_si128 lt (get table lind 4)
  let lt := _mm_xor_si128 lt (get table lind 5)
  let lt := _mm_xor_si128 lt (get table lind 6)
  let lt := _mm_xor_si128 lt (get table lind 7)
  let rind := _mm_slli_epi16 (_mm_unpackhi_epi8 block ind) 4
  let rt := get table rind 0
  let rt := _mm_xor_si128 rt (get table rind 1)
  let rt := _mm_xor_si128 rt (get table rind 2)
  let rt := _mm_xor_si128 rt (get table rind 3)
  let rt := _mm_xor_si128 rt (get table rind 4)
  let rt := _mm_xor_si128 rt (get table rind 5)
  let rt := _mm_xor_si128 rt (get table rind 6)
  let rt := _mm_xor_si128 rt (get table rind 7)
  _mm_xor_si128 lt rt

def expand_enc_keys (key : BitVec 256) : RoundKeys :=
  expand_with (fun t => transform t ENC_TABLE.get)
    (_mm_loadu_si128 (key.extractLsb' 128 128)) (_mm_loadu_si128 (key.extractLsb' 0 128))

def inv_enc_keys (enc_keys : RoundKeys) : RoundKeys :=
  inv_with (fun k => transform (sub_bytes k P) DEC_TABLE.get) enc_keys

def encrypt_block (k : RoundKeys) (block : BitVec 128) : BitVec 128 :=
  let b := _mm_loadu_si128 block
  let b := [k.k0, k.k1, k.k2, k.k3, k.k4, k.k5, k.k6, k.k7, k.k8].foldl
    (fun b ki => transform (_mm_xor_si128 b ki) ENC_TABLE.get) b
  let b := _mm_xor_si128 b k.k9
  _mm_storeu_si128 b

/-- number of lanes written out by this backend's `unroll_par!` macro -/
def unrollN : Nat := 4

/-- `encrypt_par_blocks` on an array of `ParBlocksSize` blocks: the `unroll_par!` lanes are loaded, go through the
rounds and are stored; a lane outside the macro would be neither loaded nor stored (in place: it keeps the input) -/
def encrypt_par_blocks (k : RoundKeys) (blocks : List (BitVec 128)) : List (BitVec 128) :=
  let bs := (blocks.take unrollN).map _mm_loadu_si128
  let bs := [k.k0, k.k1, k.k2, k.k3, k.k4, k.k5, k.k6, k.k7, k.k8].foldl
    (fun bs ki => unroll_par unrollN (fun b => transform (_mm_xor_si128 b ki) ENC_TABLE.get) bs) bs
  bs.map (fun b => _mm_storeu_si128 (_mm_xor_si128 b k.k9)) ++ blocks.drop unrollN

def decrypt_block (k : RoundKeys) (block : BitVec 128) : BitVec 128 :=
  let b := _mm_loadu_si128 block
  let b := _mm_xor_si128 b k.k0
  let b := sub_bytes b P
  let b := transform b DEC_TABLE.get
  let b := [k.k1, k.k2, k.k3, k.k4, k.k5, k.k6, k.k7, k.k8].foldl
    (fun b ki => _mm_xor_si128 (transform b DEC_TABLE.get) ki) b
  let b := sub_bytes b P_INV
  let b := _mm_xor_si128 b k.k9
  _mm_storeu_si128 b

/-- `decrypt_par_blocks`, same shape -/
def decrypt_par_blocks (k : RoundKeys) (blocks : List (BitVec 128)) : List (BitVec 128) :=
  let bs := (blocks.take unrollN).map _mm_loadu_si128
  let bs := unroll_par unrollN (fun b => transform (sub_bytes (_mm_xor_si128 b k.k0) P) DEC_TABLE.get) bs
  let bs := [k.k1, k.k2, k.k3, k.k4, k.k5, k.k6, k.k7, k.k8].foldl
    (fun bs ki => unroll_par unrollN (fun b => _mm_xor_si128 (transform b DEC_TABLE.get) ki) bs) bs
  bs.map (fun b => _mm_storeu_si128 (_mm_xor_si128 (sub_bytes b P_INV) k.k9)) ++ blocks.drop unrollN

/-- `ParBlocksSize = U4` for both directions -/
def parEnc : Nat := 4
def parDec : Nat := 4

def EncKeys.new (key : BitVec 256) : EncKeys := ⟨expand_enc_keys key⟩
def EncDecKeys.fromEnc (e : EncKeys) : EncDecKeys := { dec := inv_enc_keys e.keys, enc := e.keys }
def DecKeys.fromEnc (e : EncKeys) : DecKeys := ⟨inv_enc_keys e.keys⟩

end Sse2

/-! ## neon (NOT executable on this host; intrinsic semantics assumed from the Arm ARM) -/
namespace Neon

/-- LD1 {Vt.16B}: lane `i` = memory byte `i` -/
def vld1q_u8 (mem : BitVec 128) : BitVec 128 := rev128 mem
def vst1q_u8 (v : BitVec 128) : BitVec 128 := rev128 v
def veorq_u8 (a b : BitVec 128) : BitVec 128 := a ^^^ b
def vorrq_u8 (a b : BitVec 128) : BitVec 128 := a ||| b
def vdupq_n_u8 (v : BitVec 8) : BitVec 128 := ofLeBytes (fun _ => v)
/-- lane-wise wrapping subtraction -/
def vsubq_u8 (a b : BitVec 128) : BitVec 128 := ofLeBytes (fun i => leByte a i - leByte b i)
/-- ZIP1 / ZIP2 on bytes -/
def vzip1q_u8 (a b : BitVec 128) : BitVec 128 :=
  ofLeBytes (fun n => if n % 2 = 0 then leByte a (n / 2) else leByte b (n / 2))
def vzip2q_u8 (a b : BitVec 128) : BitVec 128 :=
  ofLeBytes (fun n => if n % 2 = 0 then leByte a (8 + n / 2) else leByte b (8 + n / 2))
def vgetq_lane_u16 (v : BitVec 128) (k : Nat) : BitVec 16 := v.extractLsb' (16 * k) 16
/-- SHL Vd.8H: every 16-bit lane shifted left -/
def vshlq_n_u16 (v : BitVec 128) (n : Nat) : BitVec 128 :=
  (List.range 8).foldl (fun acc k => (acc <<< 16) ||| ((vgetq_lane_u16 v (7 - k)) <<< n).setWidth 128) 0#128
/-- `vcombine_u8(vcreate_u8(lo), vcreate_u8(hi))` -/
def vcombine_u8 (lo hi : BitVec 64) : BitVec 128 := hi ++ lo
/-- `vreinterpretq_u16_u8`: same bits -/
def vreinterpretq_u16_u8 (v : BitVec 128) : BitVec 128 := v

/-- `uint8x16x4_t(vld1q_u8(&sbox[off]), vld1q_u8(&sbox[off+16]), vld1q_u8(&sbox[off+32]), vld1q_u8(&sbox[off+48]))`:
the 64 table bytes `sbox[off .. off+64]` -/
structure U8x16x4 where
  r0 : BitVec 128
  r1 : BitVec 128
  r2 : BitVec 128
  r3 : BitVec 128

/-- `vld1q_u8(&sbox[off] as *const u8)`: lanes `sbox[off] … sbox[off+15]` -/
def ld_sbox (sbox : Vector (BitVec 8) 256) (off : Nat) : BitVec 128 :=
  ofLeBytes (fun j => lut sbox (BitVec.ofNat 8 (off + j)))

def sbox_part (sbox : Vector (BitVec 8) 256) (off : Nat) : U8x16x4 :=
  ⟨ld_sbox sbox off, ld_sbox sbox (off + 16), ld_sbox sbox (off + 32), ld_sbox sbox (off + 48)⟩

/-- TBL with four table registers: lane = table byte `idx` if `idx < 64`, else 0 -/
def vqtbl4q_u8 (t : U8x16x4) (idx : BitVec 128) : BitVec 128 :=
  ofLeBytes (fun n =>
    let i := (leByte idx n).toNat
    if i < 16 then leByte t.r0 i else if i < 32 then leByte t.r1 (i - 16)
    else if i < 48 then leByte t.r2 (i - 32) else if i < 64 then leByte t.r3 (i - 48) else 0#8)

def sub_bytes (block : BitVec 128) (sbox : Vector (BitVec 8) 256) : BitVec 128 :=
  let value_vector := vdupq_n_u8 64#8
  let sbox_part1 := sbox_part sbox 0
  let sbox_part2 := sbox_part sbox 64
  let sbox_part3 := sbox_part sbox 128
  let sbox_part4 := sbox_part sbox 192
  let result1 := vqtbl4q_u8 sbox_part1 block
  let block_1 := vsubq_u8 block value_vector
  let result2 := vqtbl4q_u8 sbox_part2 block_1
  let block_2 := vsubq_u8 block_1 value_vector
  let result3 := vqtbl4q_u8 sbox_part3 block_2
  let block_3 := vsubq_u8 block_2 value_vector
  let result4 := vqtbl4q_u8 sbox_part4 block_3
  vorrq_u8 (vorrq_u8 result1 result2) (vorrq_u8 result3 result4)

/-- `get!`: `vld1q_u8(table.0.as_ptr().add(vgetq_lane_u16(ind, i) as usize))` -/
def get (table : Vector (BitVec 128) 4096) (ind : BitVec 128) (i : Nat) : BitVec 128 :=
  load_at table (vgetq_lane_u16 ind i)

def ind : BitVec 128 := vcombine_u8 0x0706050403020100#64 0x0f0e0d0c0b0a0908#64

def transform (block : BitVec 128) (table : Vector (BitVec 128) 4096) : BitVec 128 :=
  let test := vzip1q_u8 block ind
  let lind := vshlq_n_u16 (vreinterpretq_u16_u8 test) 4
  let lt := get table lind 0
  let lt := veorq_u8 lt (get table lind 1)
  let lt := veorq_u8 lt (get table lind 2)
  let lt := veorq_u8 lt (get table lind 3)
  let lt := veorq_u8 lt (get table lind 4)
  let lt := veorq_u8 lt (get table lind 5)
  let lt := veorq_u8 lt (get table lind 6)
  let lt := veorq_u8 lt (get table lind 7)
  let rind := vshlq_n_u16 (vreinterpretq_u16_u8 (vzip2q_u8 block ind)) 4
  let rt := get table rind 0
  let rt := veorq_u8 rt (get table rind 1)
  let rt := veorq_u8 rt (get table rind 2)
  let rt := veorq_u8 rt (get table rind 3)
  let rt := veorq_u8 rt (get table rind 4)
  let rt := veorq_u8 rt (get table rind 5)
  let rt := veorq_u8 rt (get table rind 6)
  let rt := veorq_u8 rt (get table rind 7)
  veorq_u8 lt rt

def expand_enc_keys (key : BitVec 256) : RoundKeys :=
  expand_with (fun t => transform t ENC_TABLE.get)
    (vld1q_u8 (key.extractLsb' 128 128)) (vld1q_u8 (key.extractLsb' 0 128))

def inv_enc_keys (enc_keys : RoundKeys) : RoundKeys :=
  inv_with (fun k => transform (sub_bytes k P) DEC_TABLE.get) enc_keys

def encrypt_block (k : RoundKeys) (block : BitVec 128) : BitVec 128 :=
  let b := vld1q_u8 block
  let b := [k.k0, k.k1, k.k2, k.k3, k.k4, k.k5, k.k6, k.k7, k.k8].foldl
    (fun b ki => transform (veorq_u8 b ki) ENC_TABLE.get) b
  let b := veorq_u8 b k.k9
  vst1q_u8 b

/-- number of lanes written out by this backend's `unroll_par!` macro -/
def unrollN : Nat := 8

/-- `encrypt_par_blocks` on an array of `ParBlocksSize` blocks (same shape as sse2) -/
def encrypt_par_blocks (k : RoundKeys) (blocks : List (BitVec 128)) : List (BitVec 128) :=
  let bs := (blocks.take unrollN).map vld1q_u8
  let bs := [k.k0, k.k1, k.k2, k.k3, k.k4, k.k5, k.k6, k.k7, k.k8].foldl
    (fun bs ki => unroll_par unrollN (fun b => transform (veorq_u8 b ki) ENC_TABLE.get) bs) bs
  bs.map (fun b => vst1q_u8 (veorq_u8 b k.k9)) ++ blocks.drop unrollN

def decrypt_block (k : RoundKeys) (block : BitVec 128) : BitVec 128 :=
  let b := vld1q_u8 block
  let b := veorq_u8 b k.k0
  let b := sub_bytes b P
  let b := transform b DEC_TABLE.get
  let b := [k.k1, k.k2, k.k3, k.k4, k.k5, k.k6, k.k7, k.k8].foldl
    (fun b ki => veorq_u8 (transform b DEC_TABLE.get) ki) b
  let b := sub_bytes b P_INV
  let b := veorq_u8 b k.k9
  vst1q_u8 b

/-- `decrypt_par_blocks`, same shape -/
def decrypt_par_blocks (k : RoundKeys) (blocks : List (BitVec 128)) : List (BitVec 128) :=
  let bs := (blocks.take unrollN).map vld1q_u8
  let bs := unroll_par unrollN (fun b => transform (sub_bytes (veorq_u8 b k.k0) P) DEC_TABLE.get) bs
  let bs := [k.k1, k.k2, k.k3, k.k4, k.k5, k.k6, k.k7, k.k8].foldl
    (fun bs ki => unroll_par unrollN (fun b => veorq_u8 (transform b DEC_TABLE.get) ki) bs) bs
  bs.map (fun b => vst1q_u8 (veorq_u8 (sub_bytes b P_INV) k.k9)) ++ blocks.drop unrollN

/-- `ParBlocksSize = consts::U8` for both directions -/
def parEnc : Nat := 8
def parDec : Nat := 8

def EncKeys.new (key : BitVec 256) : EncKeys := ⟨expand_enc_keys key⟩
def EncDecKeys.fromEnc (e : EncKeys) : EncDecKeys := { dec := inv_enc_keys e.keys, enc := e.keys }
def DecKeys.fromEnc (e : EncKeys) : DecKeys := ⟨inv_enc_keys e.keys⟩

end Neon

/-! ## the cipher crate's block loop (`BlockCtx::call`): chunks of `ParBlocksSize` through the parallel function,
the tail (fewer than `ParBlocksSize` blocks) through the single-block function -/

def procBlocks (par : Nat) (fpar : List (BitVec 128) → List (BitVec 128)) (f1 : BitVec 128 → BitVec 128)
    (bs : List (BitVec 128)) : List (BitVec 128) :=
  if _h : par ≤ 1 ∨ bs.length < par then bs.map f1
  else fpar (bs.take par) ++ procBlocks par fpar f1 (bs.drop par)
termination_by bs.length
decreasing_by simp only [List.length_drop]; omega

end BC.Kuznyechik
