import BlockCiphers.Prelude.Bytes
import BlockCiphers.Impl.BlowfishConsts
/-
Model of /repo/blowfish/src/lib.rs (Blowfish, 64-bit block, key of 4..56 bytes; `Blowfish<BE>` and
`Blowfish<LE>`; the bcrypt primitives behind the `bcrypt` feature).  Mirrors the Rust function by
function.

State: `p : [u32; 18]` and `s : [[u32; 256]; 4]`.  The model keeps `s` as ONE array of 1024 words in the
memory order of the Rust array, `self.s[i][j]` = `s[256*i + j]` (`sIdx`).  Every index the Rust forms is
in range (see the C20 list below), so nothing is lost by flattening.

Keys and salts are `Array (BitVec 8)` (the Rust `&[u8]`).

-- C20-SITE: next_u32_wrap: `buf[*offset]` : panics (index out of bounds) iff `buf` is empty; after the
--            wrap test `*offset < buf.len()` whenever `buf.len() > 0`.  `new_from_slice` only passes
--            4..=56 bytes; `bc_expand_key` / `salted_expand_key` are public and DO panic on an empty
--            key or an empty salt (`panicsOn`); the model functions are total and return the value
--            `buf[0]!` = 0 there, the driver prints `panic:index` like the harness.
-- C20-SITE: next_u32_wrap: `*offset += 1` : `*offset < buf.len() ≤ isize::MAX` before the increment.
-- C20-SITE: next_u32_wrap: `v << 8` : shift amount 8 < 32 (bits shifted out are meant to be dropped).
-- C20-SITE: expand_key / salted_expand_key: `self.p[i]` (i < 18), `self.p[2*i]`, `self.p[2*i+1]`
--            (i < 9, so ≤ 17), `self.s[i][2*j]`, `self.s[i][2*j+1]` (i < 4, j < 128, so ≤ 255),
--            `self.s[i][4*j+3]` (j < 64, so ≤ 255): all in range, no overflow of the small products.
-- C20-SITE: round_function: `(x >> 24) as usize` < 256 and `((x >> k) & 0xff) as usize` < 256.
-- C20-SITE: encrypt / decrypt: `self.p[2*i]`, `self.p[2*i+1]` with i < 8 resp. 1 ≤ i ≤ 8: ≤ 17.
-/
namespace BC.Blowfish

/-- `Blowfish<T>`: `p : [u32; 18]`, `s : [[u32; 256]; 4]` flattened (`s[i][j]` ↦ `s[256*i+j]`) -/
structure State where
  p : Array (BitVec 32)
  s : Array (BitVec 32)

/-- the `[u32; 2]` passed to `encrypt` / `decrypt` -/
structure LR where
  l : BitVec 32
  r : BitVec 32
  deriving DecidableEq

/-- the type parameter `T : ByteOrder` -/
inductive ByteOrder | BE | LE
  deriving DecidableEq

/-! ### `next_u32_wrap` -/

/-- loop state of `next_u32_wrap`: the accumulated word and `*offset` -/
structure Rd where
  v : BitVec 32
  off : Nat

/-- one pass of `for _ in 0..4 { if *offset >= buf.len() { *offset = 0 }  v = (v << 8) | buf[*offset] as u32; *offset += 1 }` -/
def rdStep (buf : Array (BitVec 8)) (a : Rd) : Rd :=
  let off := if a.off ≥ buf.size then 0 else a.off
  { v := (a.v <<< 8) ||| (buf[off]!).setWidth 32, off := off + 1 }

/-- `fn next_u32_wrap(buf: &[u8], offset: &mut usize) -> u32`; returns the word and the new offset -/
def next_u32_wrap (buf : Array (BitVec 8)) (offset : Nat) : Rd :=
  iter (rdStep buf) 4 { v := 0#32, off := offset }

/-- the Rust panics (index out of bounds) exactly on an empty buffer -/
def panicsOn (buf : Array (BitVec 8)) : Bool := buf.size == 0

/-! ### state access -/

/-- `Blowfish::init_state()` -/
def init_state : State := { p := Consts.P, s := Consts.S }

/-- flat index of `self.s[i][j]` -/
def sIdx (i j : Nat) : Nat := 256 * i + j

def setP (st : State) (i : Nat) (v : BitVec 32) : State := { st with p := st.p.set! i v }
def setS (st : State) (i j : Nat) (v : BitVec 32) : State := { st with s := st.s.set! (sIdx i j) v }

/-! ### `round_function`, `encrypt`, `decrypt` -/

/-- `fn round_function(&self, x: u32) -> u32` -/
def round_function (st : State) (x : BitVec 32) : BitVec 32 :=
  let a := st.s[sIdx 0 (x >>> 24).toNat]!
  let b := st.s[sIdx 1 ((x >>> 16) &&& 0xff#32).toNat]!
  let c := st.s[sIdx 2 ((x >>> 8) &&& 0xff#32).toNat]!
  let d := st.s[sIdx 3 (x &&& 0xff#32).toNat]!
  ((a + b) ^^^ c) + d

/-- body of `for i in 0..8` in `encrypt` -/
def encRound (st : State) (x : LR) (i : Nat) : LR :=
  let l := x.l ^^^ st.p[2 * i]!
  let r := x.r ^^^ round_function st l
  let r := r ^^^ st.p[2 * i + 1]!
  let l := l ^^^ round_function st r
  { l := l, r := r }

/-- `fn encrypt(&self, [l, r]: [u32; 2]) -> [u32; 2]` -/
def encrypt (st : State) (x : LR) : LR :=
  let y := (List.range 8).foldl (encRound st) x
  let l := y.l ^^^ st.p[16]!
  let r := y.r ^^^ st.p[17]!
  { l := r, r := l }

/-- body of `for i in (1..9).rev()` in `decrypt` -/
def decRound (st : State) (x : LR) (i : Nat) : LR :=
  let l := x.l ^^^ st.p[2 * i + 1]!
  let r := x.r ^^^ round_function st l
  let r := r ^^^ st.p[2 * i]!
  let l := l ^^^ round_function st r
  { l := l, r := r }

/-- `fn decrypt(&self, [l, r]: [u32; 2]) -> [u32; 2]` -/
def decrypt (st : State) (x : LR) : LR :=
  let y := (List.range' 1 8).reverse.foldl (decRound st) x
  let l := y.l ^^^ st.p[1]!
  let r := y.r ^^^ st.p[0]!
  { l := r, r := l }

/-! ### `expand_key` -/

/-- loop state of `for i in 0..18 { self.p[i] ^= next_u32_wrap(key, &mut key_pos) }` -/
structure KP where
  p : Array (BitVec 32)
  pos : Nat

def xorKeyStep (key : Array (BitVec 8)) (a : KP) (i : Nat) : KP :=
  let w := next_u32_wrap key a.pos
  { p := a.p.set! i (a.p[i]! ^^^ w.v), pos := w.off }

def xorKey (p : Array (BitVec 32)) (key : Array (BitVec 8)) : Array (BitVec 32) :=
  ((List.range 18).foldl (xorKeyStep key) { p := p, pos := 0 }).p

/-- loop state of the chained encryptions: the state being overwritten and the running `lr` -/
structure KS where
  st : State
  lr : LR

/-- `lr = self.encrypt(lr); self.p[2*i] = lr[0]; self.p[2*i+1] = lr[1];` -/
def pStep (a : KS) (i : Nat) : KS :=
  let lr := encrypt a.st a.lr
  { st := setP (setP a.st (2 * i) lr.l) (2 * i + 1) lr.r, lr := lr }

/-- `lr = self.encrypt(lr); self.s[i][2*j] = lr[0]; self.s[i][2*j+1] = lr[1];` -/
def sStep (i : Nat) (a : KS) (j : Nat) : KS :=
  let lr := encrypt a.st a.lr
  { st := setS (setS a.st i (2 * j) lr.l) i (2 * j + 1) lr.r, lr := lr }

/-- `fn expand_key(&mut self, key: &[u8])`: 18 key words, then 9 + 4·128 = 521 chained encryptions -/
def expand_key (st : State) (key : Array (BitVec 8)) : State :=
  let st := { st with p := xorKey st.p key }
  let a := (List.range 9).foldl pStep { st := st, lr := { l := 0#32, r := 0#32 } }
  let a := (List.range 4).foldl (fun a i => (List.range 128).foldl (sStep i) a) a
  a.st

/-- the guard of `new_from_slice`: `key.len() < 4 || key.len() > 56` is an error -/
def accepts (n : Nat) : Bool := !(n < 4 || n > 56)

/-- `KeyInit::new_from_slice` -/
def new (key : Array (BitVec 8)) : Option State :=
  if accepts key.size then some (expand_key init_state key) else none

/-! ### block interface (`T::read_u32_into`, `T::write_u32_into`) -/

/-- a word as read from / written to 4 bytes in byte order `bo`, relative to the big-endian packing -/
def wordIO (bo : ByteOrder) (x : BitVec 32) : BitVec 32 :=
  match bo with
  | .BE => x
  | .LE => bswap32 x

def readBlock (bo : ByteOrder) (b : BitVec 64) : LR :=
  { l := wordIO bo (b.extractLsb' 32 32), r := wordIO bo (b.extractLsb' 0 32) }

def writeBlock (bo : ByteOrder) (x : LR) : BitVec 64 := wordIO bo x.l ++ wordIO bo x.r

/-- `encrypt_block` -/
def encryptBlock (bo : ByteOrder) (st : State) (b : BitVec 64) : BitVec 64 :=
  writeBlock bo (encrypt st (readBlock bo b))

/-- `decrypt_block` -/
def decryptBlock (bo : ByteOrder) (st : State) (b : BitVec 64) : BitVec 64 :=
  writeBlock bo (decrypt st (readBlock bo b))

/-! ### bcrypt (`#[cfg(feature = "bcrypt")] impl Blowfish<BE>`) -/

/-- loop state of `salted_expand_key`: state, running `lr`, `salt_pos` -/
structure KSS where
  st : State
  lr : LR
  pos : Nat

/-- `lr[0] ^= next_u32_wrap(salt, &mut salt_pos); lr[1] ^= next_u32_wrap(salt, &mut salt_pos); lr = self.encrypt(lr);` -/
def saltEnc (salt : Array (BitVec 8)) (a : KSS) : KSS :=
  let w0 := next_u32_wrap salt a.pos
  let w1 := next_u32_wrap salt w0.off
  let lr := encrypt a.st { l := a.lr.l ^^^ w0.v, r := a.lr.r ^^^ w1.v }
  { a with lr := lr, pos := w1.off }

def spStep (salt : Array (BitVec 8)) (a : KSS) (i : Nat) : KSS :=
  let a := saltEnc salt a
  { a with st := setP (setP a.st (2 * i) a.lr.l) (2 * i + 1) a.lr.r }

/-- body of `for j in 0..64` (four S entries per pass) -/
def ssStep (salt : Array (BitVec 8)) (i : Nat) (a : KSS) (j : Nat) : KSS :=
  let a := saltEnc salt a
  let a := { a with st := setS (setS a.st i (4 * j) a.lr.l) i (4 * j + 1) a.lr.r }
  let a := saltEnc salt a
  { a with st := setS (setS a.st i (4 * j + 2) a.lr.l) i (4 * j + 3) a.lr.r }

/-- `pub fn salted_expand_key(&mut self, salt: &[u8], key: &[u8])` -/
def salted_expand_key (st : State) (salt key : Array (BitVec 8)) : State :=
  let st := { st with p := xorKey st.p key }
  let a := (List.range 9).foldl (spStep salt) { st := st, lr := { l := 0#32, r := 0#32 }, pos := 0 }
  let a := (List.range 4).foldl (fun a i => (List.range 64).foldl (ssStep salt i) a) a
  a.st

/-- `pub fn bc_init_state() -> Blowfish<BE>` -/
def bc_init_state : State := init_state

/-- `pub fn bc_encrypt(&self, lr: [u32; 2]) -> [u32; 2]` -/
def bc_encrypt (st : State) (lr : LR) : LR := encrypt st lr

/-- `pub fn bc_expand_key(&mut self, key: &[u8])` -/
def bc_expand_key (st : State) (key : Array (BitVec 8)) : State := expand_key st key

end BC.Blowfish
