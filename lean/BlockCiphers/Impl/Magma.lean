import BlockCiphers.Prelude.Bytes
import BlockCiphers.Prelude.SmbUtil
/-
Model of /repo/magma/src/lib.rs + sboxes.rs (GOST 28147-89 generic over the S-box set; `Magma` =
GOST R 34.12-2015 is the instance `Tc26`).  64-bit block, 256-bit key, big-endian words.

The S-box set is a *parameter* `sbox : SmallSbox` (eight tables of sixteen 4-bit values; the Rust type is
`[[u8; 16]; 8]`, the property speaks about 4-bit tables).  Mirrored as written: `gen_exp_sbox` (three
nested counting loops writing `out[i][j + (k << 4)]`), `apply_sbox` (the `+=` of four shifted bytes),
`g`, the `3 × forward + reversed` key order of `encrypt_block` and `forward + 3 × reversed` of
`decrypt_block`, output `v.1 ‖ v.0`.

-- C20-SITE: gen_exp_sbox: sbox[2 * i][j] + (sbox[2 * i + 1][k] << 4) : entries < 16, so the sum is
--           < 16 + 240 = 256 (no `u8` overflow; const evaluation would reject an overflow at compile
--           time); indices 2*i+1 ≤ 7, j,k ≤ 15, c = j + (k << 4) ≤ 255.
-- C20-SITE: apply_sbox: `0xffu32 << shft`, shft = 8*i ≤ 24 < 32; k = (a & mask) >> shft ≤ 0xff < 256
--           (`applySbox_index_lt` in Proofs/Magma.lean); `v += (.. as u32) << shft` : the four
--           summands occupy disjoint bytes, the sum is < 2^32 (`applySbox_eq_bytes`).
-- C20-SITE: encrypt_block/decrypt_block: self.key[i], i in 0..8 : in range.
-- C20-SITE: to_u32: chunk.try_into().unwrap() : chunks of exactly 4 bytes.
-/
namespace BC.Magma

/-- `for i in 0..n` with the bound kept in the index -/
def finLoop {α : Type} (n : Nat) (f : Fin n → α → α) (a : α) : α :=
  (List.finRange n).foldl (fun s i => f i s) a

/-- `for i in (0..n).rev()` -/
def finLoopRev {α : Type} (n : Nat) (f : Fin n → α → α) (a : α) : α :=
  (List.finRange n).reverse.foldl (fun s i => f i s) a

/-- `type SmallSbox = [[u8; 16]; 8]`, entries restricted to 4 bits -/
abbrev SmallSbox := Vector (Vector (BitVec 4) 16) 8
/-- `type ExpSbox = [[u8; 256]; 4]` -/
abbrev ExpSbox := Vector (Vector (BitVec 8) 256) 4

theorem idx_c_lt (j k : Fin 16) : j.val + (k.val <<< 4) < 256 := by
  have := j.isLt; have := k.isLt; rw [Nat.shiftLeft_eq]; omega

/-- `const fn gen_exp_sbox` -/
def genExpSbox (sbox : SmallSbox) : ExpSbox :=
  finLoop 4 (fun i out =>
    finLoop 16 (fun j out =>
      finLoop 16 (fun k out =>
        let v : BitVec 8 :=
          (sbox[2 * i.val]'(by omega))[j].setWidth 8 + ((sbox[2 * i.val + 1]'(by omega))[k].setWidth 8 <<< 4)
        let c : Fin 256 := ⟨j.val + (k.val <<< 4), idx_c_lt j k⟩
        out.set i (out[i].set c v)) out) out)
    (Vector.replicate 4 (Vector.replicate 256 0#8))

/-- the index `k` of `apply_sbox` as a `u32` -/
def sboxIndex (a : BitVec 32) (i : Fin 4) : BitVec 32 :=
  let shft := 8 * i.val
  (a &&& (0xff#32 <<< shft)) >>> shft

/-- `SboxExt::apply_sbox` for an expanded table.  `k as usize` indexes a 256-entry table; `k ≤ 0xff`, so
the truncation to 8 bits loses nothing (`sboxIndex_lt`). -/
def applySbox (exp : ExpSbox) (a : BitVec 32) : BitVec 32 :=
  finLoop 4 (fun i v =>
    let shft := 8 * i.val
    let k := sboxIndex a i
    v + ((exp[i][(k.setWidth 8).toNat]'((k.setWidth 8).isLt)).setWidth 32 <<< shft)) 0#32

/-- `SboxExt::g` -/
def g (exp : ExpSbox) (a k : BitVec 32) : BitVec 32 := (applySbox exp (a + k)).rotateLeft 11

/-- `struct Gost89 { key: [u32; 8] }` -/
structure Gost89 where
  key : Vector (BitVec 32) 8

/-- `KeyInit::new`: eight big-endian words -/
def new (key : BitVec 256) : Gost89 :=
  { key := Vector.ofFn (fun i : Fin 8 => (key >>> (32 * (7 - i.val))).setWidth 32) }

/-- the pair `v` -/
structure V where
  v0 : BitVec 32
  v1 : BitVec 32

/-- `v = (v.1, v.0 ^ S::g(v.1, self.key[i]))` -/
def round (exp : ExpSbox) (c : Gost89) (i : Fin 8) (v : V) : V :=
  { v0 := v.v1, v1 := v.v0 ^^^ g exp v.v1 c.key[i] }

def load (b : BitVec 64) : V := { v0 := b.extractLsb' 32 32, v1 := b.extractLsb' 0 32 }

/-- `block[0..4] = v.1`, `block[4..8] = v.0` -/
def store (v : V) : BitVec 64 := v.v1 ++ v.v0

/-- `encrypt_block` -/
def encryptExp (exp : ExpSbox) (c : Gost89) (b : BitVec 64) : BitVec 64 :=
  let v := load b
  let v := iter (finLoop 8 (round exp c)) 3 v
  let v := finLoopRev 8 (round exp c) v
  store v

/-- `decrypt_block` -/
def decryptExp (exp : ExpSbox) (c : Gost89) (b : BitVec 64) : BitVec 64 :=
  let v := load b
  let v := finLoop 8 (round exp c) v
  let v := iter (finLoopRev 8 (round exp c)) 3 v
  store v

/-- `Gost89<S>::encrypt_block` with `S::SBOX = sbox` (`EXP_SBOX = gen_exp_sbox(&SBOX)`) -/
def encrypt (sbox : SmallSbox) (c : Gost89) (b : BitVec 64) : BitVec 64 :=
  encryptExp (genExpSbox sbox) c b

def decrypt (sbox : SmallSbox) (c : Gost89) (b : BitVec 64) : BitVec 64 :=
  decryptExp (genExpSbox sbox) c b

/-- `new_from_slice`: key size is `U32` -/
def accepts (n : Nat) : Bool := n == 32

/-! ### the S-box sets bundled in `sboxes.rs` -/

/-- `sboxes.rs: impl Sbox for Tc26` (NAME = "Tc26") -/
def Tc26 : SmallSbox := #v[
  #v[12#4, 4#4, 6#4, 2#4, 10#4, 5#4, 11#4, 9#4, 14#4, 8#4, 13#4, 7#4, 0#4, 3#4, 15#4, 1#4],
  #v[6#4, 8#4, 2#4, 3#4, 9#4, 10#4, 5#4, 12#4, 1#4, 14#4, 4#4, 7#4, 11#4, 13#4, 0#4, 15#4],
  #v[11#4, 3#4, 5#4, 8#4, 2#4, 15#4, 10#4, 13#4, 14#4, 1#4, 7#4, 4#4, 12#4, 9#4, 6#4, 0#4],
  #v[12#4, 8#4, 2#4, 1#4, 13#4, 4#4, 15#4, 6#4, 7#4, 0#4, 10#4, 5#4, 3#4, 14#4, 9#4, 11#4],
  #v[7#4, 15#4, 5#4, 10#4, 8#4, 1#4, 6#4, 13#4, 0#4, 9#4, 3#4, 14#4, 11#4, 4#4, 2#4, 12#4],
  #v[5#4, 13#4, 15#4, 6#4, 9#4, 2#4, 12#4, 10#4, 11#4, 7#4, 8#4, 1#4, 4#4, 3#4, 14#4, 0#4],
  #v[8#4, 14#4, 2#4, 5#4, 6#4, 9#4, 1#4, 12#4, 15#4, 4#4, 11#4, 0#4, 13#4, 10#4, 3#4, 7#4],
  #v[1#4, 7#4, 14#4, 13#4, 0#4, 5#4, 8#4, 3#4, 4#4, 15#4, 10#4, 6#4, 9#4, 12#4, 11#4, 2#4]]

/-- `sboxes.rs: impl Sbox for TestSbox` (NAME = "TestSbox") -/
def TestSbox : SmallSbox := #v[
  #v[4#4, 10#4, 9#4, 2#4, 13#4, 8#4, 0#4, 14#4, 6#4, 11#4, 1#4, 12#4, 7#4, 15#4, 5#4, 3#4],
  #v[14#4, 11#4, 4#4, 12#4, 6#4, 13#4, 15#4, 10#4, 2#4, 3#4, 8#4, 1#4, 0#4, 7#4, 5#4, 9#4],
  #v[5#4, 8#4, 1#4, 13#4, 10#4, 3#4, 4#4, 2#4, 14#4, 15#4, 12#4, 7#4, 6#4, 0#4, 9#4, 11#4],
  #v[7#4, 13#4, 10#4, 1#4, 0#4, 8#4, 9#4, 15#4, 14#4, 4#4, 6#4, 12#4, 11#4, 2#4, 5#4, 3#4],
  #v[6#4, 12#4, 7#4, 1#4, 5#4, 15#4, 13#4, 8#4, 4#4, 10#4, 9#4, 14#4, 0#4, 3#4, 11#4, 2#4],
  #v[4#4, 11#4, 10#4, 0#4, 7#4, 2#4, 1#4, 13#4, 3#4, 6#4, 8#4, 5#4, 9#4, 12#4, 15#4, 14#4],
  #v[13#4, 11#4, 4#4, 1#4, 3#4, 15#4, 5#4, 9#4, 0#4, 10#4, 14#4, 7#4, 6#4, 8#4, 2#4, 12#4],
  #v[1#4, 15#4, 13#4, 0#4, 5#4, 7#4, 10#4, 4#4, 9#4, 2#4, 3#4, 14#4, 6#4, 11#4, 8#4, 12#4]]

/-- `sboxes.rs: impl Sbox for CryptoProA` (NAME = "CryptoProA") -/
def CryptoProA : SmallSbox := #v[
  #v[9#4, 6#4, 3#4, 2#4, 8#4, 11#4, 1#4, 7#4, 10#4, 4#4, 14#4, 15#4, 12#4, 0#4, 13#4, 5#4],
  #v[3#4, 7#4, 14#4, 9#4, 8#4, 10#4, 15#4, 0#4, 5#4, 2#4, 6#4, 12#4, 11#4, 4#4, 13#4, 1#4],
  #v[14#4, 4#4, 6#4, 2#4, 11#4, 3#4, 13#4, 8#4, 12#4, 15#4, 5#4, 10#4, 0#4, 7#4, 1#4, 9#4],
  #v[14#4, 7#4, 10#4, 12#4, 13#4, 1#4, 3#4, 9#4, 0#4, 2#4, 11#4, 4#4, 15#4, 8#4, 5#4, 6#4],
  #v[11#4, 5#4, 1#4, 9#4, 8#4, 13#4, 15#4, 0#4, 14#4, 4#4, 2#4, 3#4, 12#4, 7#4, 10#4, 6#4],
  #v[3#4, 10#4, 13#4, 12#4, 1#4, 2#4, 0#4, 11#4, 7#4, 5#4, 9#4, 4#4, 8#4, 15#4, 14#4, 6#4],
  #v[1#4, 13#4, 2#4, 9#4, 7#4, 10#4, 6#4, 0#4, 8#4, 12#4, 4#4, 5#4, 15#4, 3#4, 11#4, 14#4],
  #v[11#4, 10#4, 15#4, 5#4, 0#4, 12#4, 14#4, 8#4, 6#4, 2#4, 3#4, 9#4, 1#4, 7#4, 13#4, 4#4]]

/-- `sboxes.rs: impl Sbox for CryptoProB` (NAME = "CryptoProB") -/
def CryptoProB : SmallSbox := #v[
  #v[8#4, 4#4, 11#4, 1#4, 3#4, 5#4, 0#4, 9#4, 2#4, 14#4, 10#4, 12#4, 13#4, 6#4, 7#4, 15#4],
  #v[0#4, 1#4, 2#4, 10#4, 4#4, 13#4, 5#4, 12#4, 9#4, 7#4, 3#4, 15#4, 11#4, 8#4, 6#4, 14#4],
  #v[14#4, 12#4, 0#4, 10#4, 9#4, 2#4, 13#4, 11#4, 7#4, 5#4, 8#4, 15#4, 3#4, 6#4, 1#4, 4#4],
  #v[7#4, 5#4, 0#4, 13#4, 11#4, 6#4, 1#4, 2#4, 3#4, 10#4, 12#4, 15#4, 4#4, 14#4, 9#4, 8#4],
  #v[2#4, 7#4, 12#4, 15#4, 9#4, 5#4, 10#4, 11#4, 1#4, 4#4, 0#4, 13#4, 6#4, 8#4, 14#4, 3#4],
  #v[8#4, 3#4, 2#4, 6#4, 4#4, 13#4, 14#4, 11#4, 12#4, 1#4, 7#4, 15#4, 10#4, 0#4, 9#4, 5#4],
  #v[5#4, 2#4, 10#4, 11#4, 9#4, 1#4, 12#4, 3#4, 7#4, 4#4, 13#4, 0#4, 6#4, 15#4, 8#4, 14#4],
  #v[0#4, 4#4, 11#4, 14#4, 8#4, 3#4, 7#4, 1#4, 10#4, 2#4, 9#4, 6#4, 15#4, 13#4, 5#4, 12#4]]

/-- `sboxes.rs: impl Sbox for CryptoProC` (NAME = "CryptoProC") -/
def CryptoProC : SmallSbox := #v[
  #v[1#4, 11#4, 12#4, 2#4, 9#4, 13#4, 0#4, 15#4, 4#4, 5#4, 8#4, 14#4, 10#4, 7#4, 6#4, 3#4],
  #v[0#4, 1#4, 7#4, 13#4, 11#4, 4#4, 5#4, 2#4, 8#4, 14#4, 15#4, 12#4, 9#4, 10#4, 6#4, 3#4],
  #v[8#4, 2#4, 5#4, 0#4, 4#4, 9#4, 15#4, 10#4, 3#4, 7#4, 12#4, 13#4, 6#4, 14#4, 1#4, 11#4],
  #v[3#4, 6#4, 0#4, 1#4, 5#4, 13#4, 10#4, 8#4, 11#4, 2#4, 9#4, 7#4, 14#4, 15#4, 12#4, 4#4],
  #v[8#4, 13#4, 11#4, 0#4, 4#4, 5#4, 1#4, 2#4, 9#4, 3#4, 12#4, 14#4, 6#4, 15#4, 10#4, 7#4],
  #v[12#4, 9#4, 11#4, 1#4, 8#4, 14#4, 2#4, 4#4, 7#4, 3#4, 6#4, 5#4, 10#4, 0#4, 15#4, 13#4],
  #v[10#4, 9#4, 6#4, 8#4, 13#4, 14#4, 2#4, 0#4, 15#4, 3#4, 5#4, 11#4, 4#4, 1#4, 12#4, 7#4],
  #v[7#4, 4#4, 0#4, 5#4, 10#4, 2#4, 15#4, 14#4, 12#4, 6#4, 1#4, 11#4, 13#4, 9#4, 3#4, 8#4]]

/-- `sboxes.rs: impl Sbox for CryptoProD` (NAME = "CryptoProD") -/
def CryptoProD : SmallSbox := #v[
  #v[10#4, 4#4, 5#4, 6#4, 8#4, 1#4, 3#4, 7#4, 13#4, 12#4, 14#4, 0#4, 9#4, 2#4, 11#4, 15#4],
  #v[5#4, 15#4, 4#4, 0#4, 2#4, 13#4, 11#4, 9#4, 1#4, 7#4, 6#4, 3#4, 12#4, 14#4, 10#4, 8#4],
  #v[7#4, 15#4, 12#4, 14#4, 9#4, 4#4, 1#4, 0#4, 3#4, 11#4, 5#4, 2#4, 6#4, 10#4, 8#4, 13#4],
  #v[4#4, 10#4, 7#4, 12#4, 0#4, 15#4, 2#4, 8#4, 14#4, 1#4, 6#4, 5#4, 13#4, 11#4, 9#4, 3#4],
  #v[7#4, 6#4, 4#4, 11#4, 9#4, 12#4, 2#4, 10#4, 1#4, 8#4, 0#4, 14#4, 15#4, 13#4, 3#4, 5#4],
  #v[7#4, 6#4, 2#4, 4#4, 13#4, 9#4, 15#4, 0#4, 10#4, 1#4, 5#4, 11#4, 8#4, 14#4, 12#4, 3#4],
  #v[13#4, 14#4, 4#4, 1#4, 7#4, 0#4, 5#4, 10#4, 3#4, 12#4, 8#4, 15#4, 6#4, 2#4, 9#4, 11#4],
  #v[1#4, 3#4, 10#4, 9#4, 5#4, 11#4, 4#4, 15#4, 8#4, 6#4, 7#4, 14#4, 13#4, 0#4, 2#4, 12#4]]

/-- the user-supplied set of /verif/harness/src/special.rs `user_table()`:
row `i < 7`: `x ↦ ((2i+3)·x + i) mod 16`, row 7: `x ↦ (x·x + 7) mod 16` (not a permutation) -/
def UserSbox : SmallSbox :=
  Vector.ofFn (fun i : Fin 8 => Vector.ofFn (fun x : Fin 16 =>
    if i.val = 7 then BitVec.ofNat 4 ((x.val * x.val + 7) % 16)
    else BitVec.ofNat 4 (((2 * i.val + 3) * x.val + i.val) % 16)))

/-- `Sbox::NAME` drives `Debug` / `AlgorithmName` -/
def debugStr (name : String) : String :=
  if name = "Tc26" then "Magma { ... }" else "Gost89<" ++ name ++ "> { ... }"

def algNameStr (name : String) : String :=
  if name = "Tc26" then "Magma" else "Gost89<" ++ name ++ ">"

end BC.Magma
