import BlockCiphers.Prelude.Bytes
/-
Model of /repo/rc2/src/{lib.rs,consts.rs} (RC2, 64-bit block, key of 1..128 bytes, effective key length
`t1` bits).  Mirrors the Rust as written: `expand_key` (PI_TABLE, `t8`, `tm`, the two loops over the
128-byte `key_buffer`, little-endian pairing into 64 `u16`), `mix`/`mash`/`reverse_mix`/`reverse_mash`
with the running key index `j`, the `for i in 0..16 { mix; if i == 4 || i == 10 { mash } }` loops.

Panic sites of `Rc2::new_with_eff_key_len(key: &[u8], eff_key_len: usize)` — a *public*, non-`Result`
function whose preconditions are not checked (see `effPanic`; `new_from_slice` guards the key length and
passes `8·len`, so it never reaches them):

-- C20-SITE: expand_key: `(t1 + 7) >> 3` : plain `+`, overflows only for t1 > usize::MAX − 7  (PANICS there).
-- C20-SITE: expand_key: `8 + t1 - 8 * t8` : `8 + t1` overflows for t1 = usize::MAX − 7 (PANICS; larger t1 already
--           panicked one line earlier); otherwise 8·t8 ≤ t1 + 7 < 8 + t1 and 8·t8 ≥ t1, so the value is in
--           1..=8 (no underflow, and `(2u32).pow(..)` ≤ 256 never overflows).
-- C20-SITE: expand_key: `key_buffer[..key_len].copy_from_slice(..)` : PANICS (slice index) when key_len > 128.
-- C20-SITE: expand_key: `key_buffer[i - 1]`, `key_buffer[i - key_len]` for i in key_len..128 :
--           i − 1 underflows when key_len = 0 (PANICS: subtract with overflow); fine for 1 ≤ key_len ≤ 128.
-- C20-SITE: expand_key: `u32::from(a) + u32::from(b)` : ≤ 510, no overflow; `PI_TABLE[pos as usize]` : pos ≤ 255.
-- C20-SITE: expand_key: `key_buffer[128 - t8]` : PANICS for t8 = 0 (t1 = 0: index 128 out of bounds) and for
--           t8 > 128 (t1 > 1024: subtract with overflow); in range exactly for 1 ≤ t1 ≤ 1024.
-- C20-SITE: expand_key: `for i in (0..128 - t8).rev()`: `key_buffer[i + 1]`, `key_buffer[i + t8]` : i + t8 ≤ 127.
-- C20-SITE: expand_key: `(u16::from(hi) << 8) + u16::from(lo)` : ≤ 0xff00 + 0xff, no overflow; `2 * i + 1` ≤ 127.
-- C20-SITE: mix: `self.keys[*j]`, `*j += 1` : j runs 0..64, every read at j ≤ 63.
-- C20-SITE: reverse_mix: `*j -= 1` (three times, plain) : j ∈ {63,59,…,3} on entry so j ≥ 3; the fourth
--           decrement is `wrapping_sub` (j becomes usize::MAX after the last round and is never used again).
-- C20-SITE: mash/reverse_mash: `self.keys[(r & 63) as usize]` : masked to 0..63.
-/
namespace BC.Rc2

/-- `PI_TABLE: [u8; 256]` (consts.rs) -/
def PI_TABLE : Array (BitVec 8) := #[
  217, 120, 249, 196, 25, 221, 181, 237, 40, 233, 253, 121, 74, 160, 216, 157,
  198, 126, 55, 131, 43, 118, 83, 142, 98, 76, 100, 136, 68, 139, 251, 162,
  23, 154, 89, 245, 135, 179, 79, 19, 97, 69, 109, 141, 9, 129, 125, 50,
  189, 143, 64, 235, 134, 183, 123, 11, 240, 149, 33, 34, 92, 107, 78, 130,
  84, 214, 101, 147, 206, 96, 178, 28, 115, 86, 192, 20, 167, 140, 241, 220,
  18, 117, 202, 31, 59, 190, 228, 209, 66, 61, 212, 48, 163, 60, 182, 38,
  111, 191, 14, 218, 70, 105, 7, 87, 39, 242, 29, 155, 188, 148, 67, 3,
  248, 17, 199, 246, 144, 239, 62, 231, 6, 195, 213, 47, 200, 102, 30, 215,
  8, 232, 234, 222, 128, 82, 238, 247, 132, 170, 114, 172, 53, 77, 106, 42,
  150, 26, 210, 113, 90, 21, 73, 116, 75, 159, 208, 94, 4, 24, 164, 236,
  194, 224, 65, 110, 15, 81, 203, 204, 36, 145, 175, 80, 161, 244, 112, 57,
  153, 124, 58, 133, 35, 184, 180, 122, 252, 2, 54, 91, 37, 85, 151, 49,
  45, 93, 250, 152, 227, 138, 146, 174, 5, 223, 41, 16, 103, 108, 186, 201,
  211, 0, 230, 207, 225, 158, 168, 44, 99, 22, 1, 63, 88, 226, 137, 169,
  13, 56, 52, 27, 171, 51, 255, 176, 187, 72, 12, 95, 185, 177, 205, 46,
  197, 243, 219, 71, 229, 165, 156, 119, 10, 166, 32, 104, 254, 127, 193, 173]

theorem PI_TABLE_size : PI_TABLE.size = 256 := by decide +kernel

/-- `PI_TABLE[i]` for an index that is a byte (always in range) -/
def piByte (x : BitVec 8) : BitVec 8 := PI_TABLE[x.toNat]'(by rw [PI_TABLE_size]; exact x.isLt)

/-- `PI_TABLE[pos as usize]` for a `usize`/`u32` index (`0` out of range; never out of range here) -/
def piAt (i : Nat) : BitVec 8 := PI_TABLE.getD i 0#8

/-- total read of `key_buffer` -/
def rdb (v : Vector (BitVec 8) 128) (i : Nat) : BitVec 8 := if h : i < 128 then v[i] else 0#8

/-- first loop body: `pos = (u32::from(kb[i-1]) + u32::from(kb[i-key_len])) & 0xff; kb[i] = PI_TABLE[pos]` -/
def expandStep1 (keyLen : Nat) (kb : Vector (BitVec 8) 128) (i : Nat) : Vector (BitVec 8) 128 :=
  let pos : BitVec 32 := ((rdb kb (i - 1)).setWidth 32 + (rdb kb (i - keyLen)).setWidth 32) &&& 0xff#32
  kb.setIfInBounds i (piAt pos.toNat)

/-- second loop body: `pos = (kb[i+1] ^ kb[i+t8]) as usize; kb[i] = PI_TABLE[pos]` -/
def expandStep2 (t8 : Nat) (kb : Vector (BitVec 8) 128) (i : Nat) : Vector (BitVec 8) 128 :=
  let pos : BitVec 8 := rdb kb (i + 1) ^^^ rdb kb (i + t8)
  kb.setIfInBounds i (piAt pos.toNat)

/-- the 128-byte `key_buffer` at the end of `expand_key` -/
def expandBuffer (key : Bytes) (t1 : Nat) : Vector (BitVec 8) 128 :=
  let keyLen := key.length
  let t8 : Nat := (t1 + 7) >>> 3
  let tm : Nat := 255 % (2 ^ (8 + t1 - 8 * t8))
  -- `let mut key_buffer = [0; 128]; key_buffer[..key_len].copy_from_slice(&key[..key_len])`
  let kb : Vector (BitVec 8) 128 := Vector.ofFn (fun i : Fin 128 => key.getD i.val 0#8)
  -- `for i in key_len..128`
  let kb := (List.range' keyLen (128 - keyLen)).foldl (expandStep1 keyLen) kb
  -- `key_buffer[128 - t8] = PI_TABLE[(key_buffer[128 - t8] & tm as u8) as usize]`
  let kb := kb.setIfInBounds (128 - t8) (piAt (rdb kb (128 - t8) &&& BitVec.ofNat 8 tm).toNat)
  -- `for i in (0..128 - t8).rev()`
  (List.range (128 - t8)).reverse.foldl (expandStep2 t8) kb

/-- `fn expand_key(key: &[u8], t1: usize) -> [u16; 64]` -/
def expandKey (key : Bytes) (t1 : Nat) : Vector (BitVec 16) 64 :=
  let kb := expandBuffer key t1
  -- `result[i] = (u16::from(key_buffer[2*i+1]) << 8) + u16::from(key_buffer[2*i])`
  Vector.ofFn (fun i : Fin 64 =>
    ((rdb kb (2 * i.val + 1)).setWidth 16 <<< 8) + (rdb kb (2 * i.val)).setWidth 16)

/-- where `new_with_eff_key_len(key, t1)` panics, in program order (`none` = returns normally);
the strings are those of the harness' `panic_kind` -/
def effPanic (keyLen t1 : Nat) : Option String :=
  if t1 + 8 ≥ 2 ^ 64 then some "overflow"          -- `t1 + 7` (t1 > MAX−7) or `8 + t1` (t1 = MAX−7)
  else if keyLen > 128 then some "index"            -- `key_buffer[..key_len]`
  else if keyLen = 0 then some "overflow"           -- `i - 1` at i = 0
  else if (t1 + 7) >>> 3 = 0 then some "index"      -- `key_buffer[128 - 0]`
  else if (t1 + 7) >>> 3 > 128 then some "overflow" -- `128 - t8`
  else none

/-- the struct `Rc2 { keys: [u16; 64] }`; reads `self.keys[*j]` -/
def keyAt (k : Vector (BitVec 16) 64) (j : Nat) : BitVec 16 := if h : j < 64 then k[j] else 0#16

/-- `self.keys[(r & 63) as usize]` -/
def keyMasked (k : Vector (BitVec 16) 64) (r : BitVec 16) : BitVec 16 :=
  k[(r &&& 63#16).toNat]'(by
    have := and_toNat_le r 63#16
    have h : (63#16).toNat = 63 := by decide
    omega)

/-- `r: [u16; 4]` -/
structure St where
  r0 : BitVec 16
  r1 : BitVec 16
  r2 : BitVec 16
  r3 : BitVec 16
  deriving DecidableEq

/-- `(r, j)` threaded through `mix` / `reverse_mix` -/
structure Loop where
  r : St
  j : Nat

/-- `fn mix(&self, r: &mut [u16; 4], j: &mut usize)` -/
def mix (k : Vector (BitVec 16) 64) (l : Loop) : Loop :=
  let r0 := l.r.r0; let r1 := l.r.r1; let r2 := l.r.r2; let r3 := l.r.r3
  let j := l.j
  let r0 := r0 + keyAt k j + (r3 &&& r2) + (~~~r3 &&& r1)
  let j := j + 1
  let r0 := r0.rotateLeft 1
  let r1 := r1 + keyAt k j + (r0 &&& r3) + (~~~r0 &&& r2)
  let j := j + 1
  let r1 := r1.rotateLeft 2
  let r2 := r2 + keyAt k j + (r1 &&& r0) + (~~~r1 &&& r3)
  let j := j + 1
  let r2 := r2.rotateLeft 3
  let r3 := r3 + keyAt k j + (r2 &&& r1) + (~~~r2 &&& r0)
  let j := j + 1
  let r3 := r3.rotateLeft 5
  { r := { r0 := r0, r1 := r1, r2 := r2, r3 := r3 }, j := j }

/-- `fn mash(&self, r: &mut [u16; 4])` -/
def mash (k : Vector (BitVec 16) 64) (s : St) : St :=
  let r0 := s.r0 + keyMasked k s.r3
  let r1 := s.r1 + keyMasked k r0
  let r2 := s.r2 + keyMasked k r1
  let r3 := s.r3 + keyMasked k r2
  { r0 := r0, r1 := r1, r2 := r2, r3 := r3 }

/-- `fn reverse_mix(&self, r: &mut [u16; 4], j: &mut usize)`; the last `*j = j.wrapping_sub(1)` is
on `usize` (64 bit) -/
def reverseMix (k : Vector (BitVec 16) 64) (l : Loop) : Loop :=
  let r0 := l.r.r0; let r1 := l.r.r1; let r2 := l.r.r2; let r3 := l.r.r3
  let j := l.j
  let r3 := r3.rotateRight 5
  let r3 := r3 - keyAt k j - (r2 &&& r1) - (~~~r2 &&& r0)
  let j := j - 1
  let r2 := r2.rotateRight 3
  let r2 := r2 - keyAt k j - (r1 &&& r0) - (~~~r1 &&& r3)
  let j := j - 1
  let r1 := r1.rotateRight 2
  let r1 := r1 - keyAt k j - (r0 &&& r3) - (~~~r0 &&& r2)
  let j := j - 1
  let r0 := r0.rotateRight 1
  let r0 := r0 - keyAt k j - (r3 &&& r2) - (~~~r3 &&& r1)
  let j := (j + (2 ^ 64 - 1)) % 2 ^ 64
  { r := { r0 := r0, r1 := r1, r2 := r2, r3 := r3 }, j := j }

/-- `fn reverse_mash(&self, r: &mut [u16; 4])` -/
def reverseMash (k : Vector (BitVec 16) 64) (s : St) : St :=
  let r3 := s.r3 - keyMasked k s.r2
  let r2 := s.r2 - keyMasked k s.r1
  let r1 := s.r1 - keyMasked k s.r0
  let r0 := s.r0 - keyMasked k r3
  { r0 := r0, r1 := r1, r2 := r2, r3 := r3 }

/-- body of `for i in 0..16` in `encrypt_block` -/
def encIter (k : Vector (BitVec 16) 64) (l : Loop) (i : Nat) : Loop :=
  let l := mix k l
  if i = 4 ∨ i = 10 then { l with r := mash k l.r } else l

/-- body of `for i in 0..16` in `decrypt_block` -/
def decIter (k : Vector (BitVec 16) 64) (l : Loop) (i : Nat) : Loop :=
  let l := reverseMix k l
  if i = 4 ∨ i = 10 then { l with r := reverseMash k l.r } else l

/-- the word part of `encrypt_block`: `let mut j = 0; for i in 0..16 { … }` -/
def encryptWords (k : Vector (BitVec 16) 64) (s : St) : St :=
  ((List.range 16).foldl (encIter k) { r := s, j := 0 }).r

/-- the word part of `decrypt_block`: `let mut j = 63; for i in 0..16 { … }` -/
def decryptWords (k : Vector (BitVec 16) 64) (s : St) : St :=
  ((List.range 16).foldl (decIter k) { r := s, j := 63 }).r

/-- four `u16::from_le_bytes` -/
def load (b : BitVec 64) : St :=
  { r0 := bswap16 (b.extractLsb' 48 16), r1 := bswap16 (b.extractLsb' 32 16),
    r2 := bswap16 (b.extractLsb' 16 16), r3 := bswap16 (b.extractLsb' 0 16) }

/-- four `to_le_bytes` -/
def store (s : St) : BitVec 64 := bswap16 s.r0 ++ bswap16 s.r1 ++ bswap16 s.r2 ++ bswap16 s.r3

def encrypt (k : Vector (BitVec 16) 64) (b : BitVec 64) : BitVec 64 := store (encryptWords k (load b))
def decrypt (k : Vector (BitVec 16) 64) (b : BitVec 64) : BitVec 64 := store (decryptWords k (load b))

/-- `pub fn new_with_eff_key_len(key: &[u8], eff_key_len: usize) -> Self` (for arguments where it returns) -/
def newWithEffKeyLen (key : Bytes) (effKeyLen : Nat) : Vector (BitVec 16) 64 := expandKey key effKeyLen

/-- `new_from_slice` guard: `key.is_empty() || key.len() > 128` is the error case -/
def accepts (n : Nat) : Bool := decide (1 ≤ n ∧ n ≤ 128)

/-- `KeyInit::new_from_slice` -/
def newFromSlice (key : Bytes) : Option (Vector (BitVec 16) 64) :=
  if accepts key.length then some (newWithEffKeyLen key (key.length * 8)) else none

end BC.Rc2
