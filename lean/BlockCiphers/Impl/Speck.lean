import BlockCiphers.Prelude.WordBytes
/-
Model of /repo/speck/src/lib.rs: the macro `define_speck_impl!` and its ten invocations.

ONE model, generic in the macro arguments (`Params`): `$n` word bits, `$m` key words, `$alpha`, `$beta`,
`$mask`, `$rounds`, and the bit width `cw` of the carrier `$word_type` (u16/u32/u64).  Words are
`BitVec cw` — for Speck48 (`n = 24` in `u32`) and Speck96 (`n = 48` in `u64`) the carrier is wider than
the word and the code masks with `$mask`; the rotations `(x >> pos) | (x << (n - pos))` then leave
garbage above bit `n` (in `round_function` it is masked away at once, in `inverse_round_function` the
returned `x` and `y` keep it; `to_be_bytes` drops it).  The model does exactly the same.

Byte order as the code reads it: key = `l[m-2] ‖ … ‖ l[0] ‖ k[0]`, block = `x ‖ y`, each word big-endian
in `n/8` bytes.

-- C20-SITE: rotate_right/rotate_left: `x << ($n - pos)`, `x >> ($n - pos)`, `x << pos` : `pos` is the literal
--           α or β with 0 < pos < n ≤ bits($word_type), so `$n - pos` does not underflow and every shift
--           amount is < bits (`Proofs/Speck.lean: wf_all`, by `decide` over the ten invocations).
-- C20-SITE: new: `i.try_into().unwrap()` (usize → $word_type) : i < rounds - 1 ≤ 33 fits u16.
-- C20-SITE: new: `l[i + $m - 1]`, `k[i + 1]` for i < rounds-1 : i+m-1 ≤ rounds+m-3 < len(l) = m-1+rounds-1;
--           i+1 < rounds = len(k).   `key[($m - 2 - i) * ..]` for i < m-1 : m-2-i ≥ 0 (no usize underflow).
-- C20-SITE: from_be_bytes: `tmp[offset..].copy_from_slice(bytes)` : bytes.len() = n/8 = size_of - offset at
--           every call site (slices `a*(n/8) .. (a+1)*(n/8)`); to_be_bytes: `tmp[offset..].try_into().unwrap()`
--           has length n/8.
-/
namespace BC.Speck

/-- the arguments of one `define_speck_impl!` invocation (+ the width of `$word_type`) -/
structure Params where
  name : String
  blockBytes : Nat     -- $block_size
  keyBytes : Nat       -- $key_size
  cw : Nat             -- bits of $word_type
  n : Nat              -- $n
  m : Nat              -- $m
  alpha : Nat          -- $alpha
  beta : Nat           -- $beta
  mask : Nat           -- $mask
  rounds : Nat         -- $rounds
  deriving DecidableEq, Repr

/-- the ten invocations, copied from speck/src/lib.rs lines 219–348 -/
def speck32_64 : Params := ⟨"Speck32_64", 4, 8, 16, 16, 4, 7, 2, 0xFFFF, 22⟩
def speck48_72 : Params := ⟨"Speck48_72", 6, 9, 32, 24, 3, 8, 3, 0xFFFFFF, 22⟩
def speck48_96 : Params := ⟨"Speck48_96", 6, 12, 32, 24, 4, 8, 3, 0xFFFFFF, 23⟩
def speck64_96 : Params := ⟨"Speck64_96", 8, 12, 32, 32, 3, 8, 3, 0xFFFFFFFF, 26⟩
def speck64_128 : Params := ⟨"Speck64_128", 8, 16, 32, 32, 4, 8, 3, 0xFFFFFFFF, 27⟩
def speck96_96 : Params := ⟨"Speck96_96", 12, 12, 64, 48, 2, 8, 3, 0xFFFFFFFFFFFF, 28⟩
def speck96_144 : Params := ⟨"Speck96_144", 12, 18, 64, 48, 3, 8, 3, 0xFFFFFFFFFFFF, 29⟩
def speck128_128 : Params := ⟨"Speck128_128", 16, 16, 64, 64, 2, 8, 3, 0xFFFFFFFFFFFFFFFF, 32⟩
def speck128_192 : Params := ⟨"Speck128_192", 16, 24, 64, 64, 3, 8, 3, 0xFFFFFFFFFFFFFFFF, 33⟩
def speck128_256 : Params := ⟨"Speck128_256", 16, 32, 64, 64, 4, 8, 3, 0xFFFFFFFFFFFFFFFF, 34⟩

def all : List Params :=
  [speck32_64, speck48_72, speck48_96, speck64_96, speck64_128, speck96_96, speck96_144,
   speck128_128, speck128_192, speck128_256]

/-- `$name::from_be_bytes(bytes)`: the bytes are copied to the low end of a zeroed
`[u8; size_of::<$word_type>()]`, then `<$word_type>::from_be_bytes` -/
def fromBE (cw : Nat) (bytes : Bytes) : BitVec cw := BitVec.ofNat cw (bytesToNat bytes)

/-- `$name::to_be_bytes(word)`: the low `n/8` bytes of `word.to_be_bytes()` -/
def toBE {cw : Nat} (n : Nat) (x : BitVec cw) : Bytes := toBEn (n / 8) x.toNat

/-- `$name::rotate_right(x, pos) = (x >> pos) | (x << ($n - pos))` in the carrier type -/
def rotR {cw : Nat} (n : Nat) (x : BitVec cw) (pos : Nat) : BitVec cw :=
  (x >>> pos) ||| (x <<< (n - pos))

/-- `$name::rotate_left(x, pos) = (x << pos) | (x >> ($n - pos))` in the carrier type -/
def rotL {cw : Nat} (n : Nat) (x : BitVec cw) (pos : Nat) : BitVec cw :=
  (x <<< pos) ||| (x >>> (n - pos))

structure St (cw : Nat) where
  x : BitVec cw
  y : BitVec cw

/-- `round_function(k, x, y)` -/
def roundFunction (p : Params) (k : BitVec p.cw) (s : St p.cw) : St p.cw :=
  let mask := BitVec.ofNat p.cw p.mask
  let x := rotR p.n s.x p.alpha
  let x := (x + s.y) &&& mask
  let x := (x ^^^ k) &&& mask
  let y := rotL p.n s.y p.beta
  let y := (y ^^^ x) &&& mask
  { x := x, y := y }

/-- `inverse_round_function(k, x, y)` -/
def inverseRoundFunction (p : Params) (k : BitVec p.cw) (s : St p.cw) : St p.cw :=
  let mask := BitVec.ofNat p.cw p.mask
  let y := (s.y ^^^ s.x) &&& mask
  let y := rotR p.n y p.beta
  let x := (s.x ^^^ k) &&& mask
  let x := (x - y) &&& mask
  let x := rotL p.n x p.alpha
  { x := x, y := y }

/-- the two arrays of `KeyInit::new` -/
structure KS (cw : Nat) where
  k : Array (BitVec cw)
  l : Array (BitVec cw)

/-- `for i in 0..$m - 1 { l[i] = from_be_bytes(&key[($m-2-i)*($n/8) .. ($m-1-i)*($n/8)]) }` -/
def lInit (p : Params) (key : Bytes) : Nat → Array (BitVec p.cw) → Array (BitVec p.cw)
  | 0, l => l
  | i + 1, l =>
    (lInit p key i l).setIfInBounds i
      (fromBE p.cw (slice key ((p.m - 2 - i) * (p.n / 8)) ((p.m - 1 - i) * (p.n / 8))))

/-- body of `for i in 0..($rounds - 1)` -/
def ksStep (p : Params) (i : Nat) (s : KS p.cw) : KS p.cw :=
  let res := roundFunction p (BitVec.ofNat p.cw i) { x := s.l.getD i 0, y := s.k.getD i 0 }
  { l := s.l.setIfInBounds (i + p.m - 1) res.x, k := s.k.setIfInBounds (i + 1) res.y }

/-- iterations `0, 1, …, n-1` of the key-schedule loop -/
def ksLoop (p : Params) : Nat → KS p.cw → KS p.cw
  | 0, s => s
  | i + 1, s => ksStep p i (ksLoop p i s)

/-- `KeyInit::new`: the round keys `k` -/
def keySchedule (p : Params) (key : Bytes) : Array (BitVec p.cw) :=
  let k : Array (BitVec p.cw) := Array.replicate p.rounds 0
  let l : Array (BitVec p.cw) := Array.replicate (p.m - 1 + p.rounds - 1) 0
  let k := k.setIfInBounds 0 (fromBE p.cw (slice key ((p.m - 1) * (p.n / 8)) (p.m * (p.n / 8))))
  let l := lInit p key (p.m - 1) l
  (ksLoop p (p.rounds - 1) { k := k, l := l }).k

/-- rounds `0, 1, …, n-1` (`for i in 0..$rounds`) -/
def encLoop (p : Params) (k : Array (BitVec p.cw)) : Nat → St p.cw → St p.cw
  | 0, s => s
  | i + 1, s => roundFunction p (k.getD i 0) (encLoop p k i s)

/-- rounds `n-1, …, 1, 0` (`for i in (0..$rounds).rev()`) -/
def decLoop (p : Params) (k : Array (BitVec p.cw)) : Nat → St p.cw → St p.cw
  | 0, s => s
  | i + 1, s => decLoop p k i (inverseRoundFunction p (k.getD i 0) s)

def load (p : Params) (b : Bytes) : St p.cw :=
  { x := fromBE p.cw (slice b 0 (p.n / 8)), y := fromBE p.cw (slice b (p.n / 8) (2 * (p.n / 8))) }

def store (p : Params) (s : St p.cw) : Bytes := toBE p.n s.x ++ toBE p.n s.y

/-- `encrypt_block` -/
def encryptBlock (p : Params) (k : Array (BitVec p.cw)) (b : Bytes) : Bytes :=
  store p (encLoop p k p.rounds (load p b))

/-- `decrypt_block` -/
def decryptBlock (p : Params) (k : Array (BitVec p.cw)) (b : Bytes) : Bytes :=
  store p (decLoop p k p.rounds (load p b))

/-- `new_from_slice` length guard -/
def accepts (p : Params) (len : Nat) : Bool := len == p.keyBytes

end BC.Speck
