import BlockCiphers.Prelude.Bytes
/-
Model of /repo/xtea/src/lib.rs (XTEA, 64-bit block, 128-bit key, little-endian words).
Mirrors the Rust as written: four loops of eight cycles, `sum` carried through, key word chosen by
`sum & 3` / `(sum >> 11) & 3`.
-/
namespace BC.Xtea

def DELTA : BitVec 32 := 0x9e3779b9#32
def ROUNDS : Nat := 32

structure Key where
  k0 : BitVec 32
  k1 : BitVec 32
  k2 : BitVec 32
  k3 : BitVec 32

/-- `self.k[(i & 3) as usize]` -/
def Key.get (k : Key) (i : BitVec 32) : BitVec 32 :=
  let j := i &&& 3#32
  if j = 0#32 then k.k0 else if j = 1#32 then k.k1 else if j = 2#32 then k.k2 else k.k3

/-- `new_from_slice` after the length check: four little-endian words -/
def keyOfBits (key : BitVec 128) : Key :=
  { k0 := bswap32 (key.extractLsb' 96 32), k1 := bswap32 (key.extractLsb' 64 32),
    k2 := bswap32 (key.extractLsb' 32 32), k3 := bswap32 (key.extractLsb' 0 32) }

structure St where
  v0 : BitVec 32
  v1 : BitVec 32
  sum : BitVec 32

def mixf (v : BitVec 32) : BitVec 32 := ((v <<< 4) ^^^ (v >>> 5)) + v

def encCycle (k : Key) (s : St) : St :=
  let v0 := s.v0 + (mixf s.v1 ^^^ (s.sum + k.get s.sum))
  let sum := s.sum + DELTA
  let v1 := s.v1 + (mixf v0 ^^^ (sum + k.get (sum >>> 11)))
  { v0 := v0, v1 := v1, sum := sum }

def decCycle (k : Key) (s : St) : St :=
  let v1 := s.v1 - (mixf s.v0 ^^^ (s.sum + k.get (s.sum >>> 11)))
  let sum := s.sum - DELTA
  let v0 := s.v0 - (mixf v1 ^^^ (sum + k.get sum))
  { v0 := v0, v1 := v1, sum := sum }

def load (b : BitVec 64) (sum : BitVec 32) : St :=
  { v0 := bswap32 (b.extractLsb' 32 32), v1 := bswap32 (b.extractLsb' 0 32), sum := sum }

def store (s : St) : BitVec 64 := bswap32 s.v0 ++ bswap32 s.v1

def encWords (k : Key) (s : St) : St :=
  iter (encCycle k) 8 (iter (encCycle k) 8 (iter (encCycle k) 8 (iter (encCycle k) 8 s)))

def decWords (k : Key) (s : St) : St :=
  iter (decCycle k) 8 (iter (decCycle k) 8 (iter (decCycle k) 8 (iter (decCycle k) 8 s)))

def encrypt (k : Key) (b : BitVec 64) : BitVec 64 := store (encWords k (load b 0#32))

def decrypt (k : Key) (b : BitVec 64) : BitVec 64 :=
  store (decWords k (load b (DELTA * BitVec.ofNat 32 ROUNDS)))

/-- `new_from_slice`: the guard is the Rust's `key.len() != 16` -/
def accepts (n : Nat) : Bool := n == 16

end BC.Xtea
