import BlockCiphers.Prelude.WordBytes
/-
Model of /repo/rc5/src/lib.rs and /repo/rc5/src/primitives.rs  (`RC5<W, R, B>`).

ONE model, generic in the word width `w : Nat` (the Rust has `impl Word for u8/u16/u32/u64/u128`, i.e.
`w ∈ {8,16,32,64,128}`), the number of rounds `r` (`R: Unsigned, R < 256`) and the key length in bytes
`b` (`B < 256`).  Words are `BitVec w`.  Mirrors the Rust function by function:

  `Word::{P,Q,rotate_left,rotate_right}`   → `P`, `Q`, `rotlW`, `rotrW`
  `key_into_words`                         → `keyIntoWords`
  `initialize_expanded_key_table`          → `initTable`
  `mix_in`                                 → `mixIn`
  `substitute_key`                         → `substituteKey`
  `words_from_block` / `block_from_words`  → `wordsFromBlock` / `blockFromWords`
  `encrypt_block` / `decrypt_block`        → `encryptBlock` / `decryptBlock`

Everything is total (`getD`, `setIfInBounds`); that the indices are in range and that the plain `+` cannot
overflow is proved in `Proofs/Rc5Spec.lean` (names below).

-- C20-SITE: key_into_words: `key_as_words[i / W::Bytes::USIZE]` : i < b  ⇒  i/u < ⌈b/u⌉ = (b+u-1)/u = len
--           (`kiw_index_lt`)
-- C20-SITE: key_into_words: `x.rotate_left(W::EIGHT) + key[i].into()` (plain `+` of `Add`) : before byte `i`
--           is added the word holds only the (fewer than u) bytes with a larger index of the same word, so
--           `x < 2^(w-8)`, `rotl 8` is `· * 256` with a zero low byte and the sum is `< 2^w`; for `u8` the
--           word is 0 before its only byte is added.  PROVED for every key: `keyIntoWords_no_overflow`
--           (`V_step_eq`); the model uses the wrapping `+`.
-- C20-SITE: initialize_expanded_key_table: `expanded_key_table[i - 1]`, 1 ≤ i < len : in range.
-- C20-SITE: mix_in: `3 * max(len, len)` ≤ 3·512 no overflow; `(idx + 1) % len` : len(key_table) = 2(r+1) ≥ 2,
--           len(key_as_words) ≥ 1 because of the `empty_key` substitution — no division by zero, all four
--           index expressions stay `< len` (`mixStep_inv`: fields `ilt`, `jlt`, `sizeS`, `sizeL`).
-- C20-SITE: encrypt_block/decrypt_block: `key[2*i]`, `key[2*i+1]` for 1 ≤ i ≤ R : 2R+1 < 2(R+1) = len
--           (`enc_index_lt`, `size_substituteKey`).
-- C20-SITE: u64/u128 `rotate_left`: `n % size as u64` parses as `n % (size as u64)`, size = 64 ≠ 0.
-- C20-SITE: `<R as Unsigned>::to_u8()` / `<B as Unsigned>::to_u8()` : R, B < 256 by the where-clauses.
-/
namespace BC.Rc5

/-! ### `primitives.rs` -/

/-- `W::Bytes::USIZE` -/
def wordBytes (w : Nat) : Nat := w / 8

/-- `const P` of the five `impl Word` (primitives.rs); other widths have no instance (0 here) -/
def Pnat : Nat → Nat
  | 8 => 0xb7
  | 16 => 0xb7e1
  | 32 => 0xb7e15163
  | 64 => 0xb7e151628aed2a6b
  | 128 => 0xb7e151628aed2a6abf7158809cf4f3c7
  | _ => 0

/-- `const Q` of the five `impl Word` (primitives.rs) -/
def Qnat : Nat → Nat
  | 8 => 0x9f
  | 16 => 0x9e37
  | 32 => 0x9e3779b9
  | 64 => 0x9e3779b97f4a7c15
  | 128 => 0x9e3779b97f4a7c15f39cc0605cedc835
  | _ => 0

def P (w : Nat) : BitVec w := BitVec.ofNat w (Pnat w)
def Q (w : Nat) : BitVec w := BitVec.ofNat w (Qnat w)

/-- `Word::rotate_left(self, n: Self)`.
u8/u16: `uN::rotate_left(self, n as u32)`, u32: `u32::rotate_left(self, n)` — the amount is passed
unreduced (zero-extended to `u32`) and `rotate_left` itself reduces it modulo the width;
u64/u128: `uN::rotate_left(self, (n % size as uN) as u32)` — reduced explicitly, then cast.
(`BitVec.rotateLeft x k` rotates by `k % w`, as Rust's `rotate_left` does.) -/
def rotlW {w : Nat} (x n : BitVec w) : BitVec w :=
  if w ≤ 32 then x.rotateLeft (n.setWidth 32).toNat
  else x.rotateLeft ((n % BitVec.ofNat w w).setWidth 32).toNat

/-- `Word::rotate_right(self, n: Self)` (same two shapes) -/
def rotrW {w : Nat} (x n : BitVec w) : BitVec w :=
  if w ≤ 32 then x.rotateRight (n.setWidth 32).toNat
  else x.rotateRight ((n % BitVec.ofNat w w).setWidth 32).toNat

/-- `W::from_le_bytes` -/
def fromLE (w : Nat) (bs : Bytes) : BitVec w := BitVec.ofNat w (bytesToNatLE bs)

/-- `W::to_le_bytes` -/
def toLE {w : Nat} (x : BitVec w) : Bytes := toLEn (wordBytes w) x.toNat

/-! ### `lib.rs`: key expansion -/

/-- `KeyAsWordsSize<W,B> = (B + W::Bytes - 1) / W::Bytes` -/
def keyWords (w b : Nat) : Nat := (b + wordBytes w - 1) / wordBytes w

/-- `ExpandedKeyTableSize<R> = (R + 1) * 2` -/
def tableSize (r : Nat) : Nat := (r + 1) * 2

/-- body of `for i in (0..B::USIZE).rev()` of `key_into_words`; `n` = number of indices still to do
(the next index is `n - 1`) -/
def kiwLoop (w : Nat) (key : Bytes) : Nat → Array (BitVec w) → Array (BitVec w)
  | 0, L => L
  | i + 1, L =>
    let j := i / wordBytes w
    kiwLoop w key i (L.setIfInBounds j ((L.getD j 0).rotateLeft 8 + (key.getD i 0).setWidth w))

/-- `key_into_words` (`W::EIGHT = 8`; `rotate_left` of `u8` by 8 is the identity — `BitVec.rotateLeft`
reduces the amount modulo the width in the same way) -/
def keyIntoWords (w b : Nat) (key : Bytes) : Array (BitVec w) :=
  kiwLoop w key b (Array.replicate (keyWords w b) 0)

/-- `for i in 1..len { t[i] = t[i-1].wrapping_add(Q) }` : `n` = number of entries still to fill -/
def initLoop (w : Nat) : Nat → Nat → Array (BitVec w) → Array (BitVec w)
  | 0, _, T => T
  | n + 1, i, T => initLoop w n (i + 1) (T.setIfInBounds i (T.getD (i - 1) 0 + Q w))

/-- `initialize_expanded_key_table` -/
def initTable (w r : Nat) : Array (BitVec w) :=
  initLoop w (tableSize r - 1) 1 ((Array.replicate (tableSize r) 0).setIfInBounds 0 (P w))

/-- the mutable state of the loop of `mix_in` -/
structure MixSt (w : Nat) where
  S : Array (BitVec w)      -- key_table
  L : Array (BitVec w)      -- key_as_words (or `empty_key`)
  i : Nat                   -- expanded_key_index
  j : Nat                   -- key_as_words_index
  a : BitVec w
  b : BitVec w

/-- one iteration of the loop of `mix_in` (`W::THREE = 3`) -/
def mixStep {w : Nat} (s : MixSt w) : MixSt w :=
  let S := s.S.setIfInBounds s.i (rotlW (s.S.getD s.i 0 + s.a + s.b) (BitVec.ofNat w 3))
  let a := S.getD s.i 0
  let L := s.L.setIfInBounds s.j (rotlW (s.L.getD s.j 0 + a + s.b) (a + s.b))
  let b := L.getD s.j 0
  { S := S, L := L, i := (s.i + 1) % S.size, j := (s.j + 1) % L.size, a := a, b := b }

/-- `mix_in`: an empty `key_as_words` (b = 0) is replaced by the one-word array `[0]` -/
def mixIn {w : Nat} (keyTable keyAsWords : Array (BitVec w)) : Array (BitVec w) :=
  let L := if keyAsWords.isEmpty then #[0] else keyAsWords
  (iter mixStep (3 * max L.size keyTable.size)
    { S := keyTable, L := L, i := 0, j := 0, a := 0, b := 0 }).S

/-- `substitute_key` -/
def substituteKey (w r b : Nat) (key : Bytes) : Array (BitVec w) :=
  mixIn (initTable w r) (keyIntoWords w b key)

/-! ### `lib.rs`: block functions -/

structure St (w : Nat) where
  a : BitVec w
  b : BitVec w

/-- body of `for i in 1..=R` of `encrypt_block` -/
def encRound {w : Nat} (key : Array (BitVec w)) (i : Nat) (s : St w) : St w :=
  let a := rotlW (s.a ^^^ s.b) s.b + key.getD (2 * i) 0
  let b := rotlW (s.b ^^^ a) a + key.getD (2 * i + 1) 0
  { a := a, b := b }

/-- body of `for i in (1..=R).rev()` of `decrypt_block` -/
def decRound {w : Nat} (key : Array (BitVec w)) (i : Nat) (s : St w) : St w :=
  let b := rotrW (s.b - key.getD (2 * i + 1) 0) s.a ^^^ s.a
  let a := rotrW (s.a - key.getD (2 * i) 0) b ^^^ b
  { a := a, b := b }

/-- rounds `1, 2, …, n` in this order -/
def encLoop {w : Nat} (key : Array (BitVec w)) : Nat → St w → St w
  | 0, s => s
  | n + 1, s => encRound key (n + 1) (encLoop key n s)

/-- rounds `n, n-1, …, 1` in this order -/
def decLoop {w : Nat} (key : Array (BitVec w)) : Nat → St w → St w
  | 0, s => s
  | n + 1, s => decLoop key n (decRound key (n + 1) s)

def encryptWords {w : Nat} (key : Array (BitVec w)) (r : Nat) (s : St w) : St w :=
  encLoop key r { a := s.a + key.getD 0 0, b := s.b + key.getD 1 0 }

def decryptWords {w : Nat} (key : Array (BitVec w)) (r : Nat) (s : St w) : St w :=
  let t := decLoop key r s
  let b := t.b - key.getD 1 0
  let a := t.a - key.getD 0 0
  { a := a, b := b }

/-- `words_from_block` -/
def wordsFromBlock (w : Nat) (block : Bytes) : St w :=
  { a := fromLE w (block.take (wordBytes w)), b := fromLE w (block.drop (wordBytes w)) }

/-- `block_from_words` -/
def blockFromWords {w : Nat} (s : St w) : Bytes := toLE s.a ++ toLE s.b

def encryptBlock {w : Nat} (key : Array (BitVec w)) (r : Nat) (block : Bytes) : Bytes :=
  blockFromWords (encryptWords key r (wordsFromBlock w block))

def decryptBlock {w : Nat} (key : Array (BitVec w)) (r : Nat) (block : Bytes) : Bytes :=
  blockFromWords (decryptWords key r (wordsFromBlock w block))

/-- `KeyInit::new_from_slice`: `key.len() != B::USIZE` ⇒ `InvalidLength` -/
def accepts (b n : Nat) : Bool := n == b

end BC.Rc5
