import BlockCiphers.Prelude.Bytes
/-
Model of /repo/idea/src/lib.rs + consts.rs (IDEA, 64-bit block, 128-bit key, big-endian 16-bit words).
Mirrors the Rust as written:

* `mul`   : the `u32`/`i32` computation with the two zero branches and the `lo - hi` reduction;
* `add`   : `(a + b) & 0xffff` in `u32`;
* `mul_inv` : the extended-Euclid loop (fuel-bounded; `Proofs/IdeaInv.lean` `mulInvChecked_eq` shows that the fuel is never
  exhausted, that no division by zero and no `u32` overflow happens, for all 65536 arguments);
* `add_inv` : `(0x10000 - a) & 0xffff`;
* `expand_key` : writes `enc_keys[0..8]` from the key bytes, then `enc_keys[i] = (a << 9) + (b >> 7)`
  with the code's index pattern for `a`, `b`;
* `invert_sub_keys` : the two loops over `i`, with `(m, n) = (2, 1)` for `0 < i < 8`;
* `crypt` : 8 rounds + output transformation, parameterised by the sub-key array.

Plain (panicking in the dev profile) arithmetic is modelled by the wrapping operation and listed below; the
`c20_*` lemmas are in `Proofs/IdeaC20.lean`, `mulInvChecked_eq` in `Proofs/IdeaInv.lean`.

-- C20-SITE: expand_key: (u16::from(key[2*i]) << 8) + u16::from(key[2*i+1]) : ≤ 0xff00 + 0xff  (`c20_expand_bytes`)
-- C20-SITE: expand_key: length_key / 2, 2 * i, 2 * i + 1 (index) : i < 8, key has 16 bytes (control)
-- C20-SITE: expand_key: i - 15, i - 7, i - 14, i - 6 (usize subtraction + index) : `c20_expand_idx` (∀ i ∈ 8..52 the chosen index is ≥ 0 and < i)
-- C20-SITE: expand_key: (i + 1) % 8, (i + 2) % 8 : control
-- C20-SITE: expand_key: (a << 9) + (b >> 7) : `c20_expand_rot` ((a<<9) has 9 zero low bits, b>>7 < 2^9)
-- C20-SITE: invert_sub_keys: ROUNDS * 6, i * 6, k - j, l + m, l + n, l + 3, j + 1.. j + 5, l + 4, l + 5, (ROUNDS - 1) * 6 : control (`c20_invert_idx`: all < 52, k ≥ j)
-- C20-SITE: crypt: i * 6, j + 1 .. j + 5, sub_keys[48..51] : control (`c20_crypt_idx`)
-- C20-SITE: crypt: b[0..2] .. b[6..8] try_into().unwrap() : slices of static length 2
-- C20-SITE: mul: MAXIM - y, MAXIM - x : x, y ≤ 0xffff < MAXIM (`c20_mul_maxim_sub`)
-- C20-SITE: mul: x * y (u32) : ≤ 0xffff² < 2^32 (`c20_mul_prod`)
-- C20-SITE: mul: ((c & ONE) as i32) - ((c >> 16) as i32) : both in [0, 0xffff] (`c20_mul_i32_sub`)
-- C20-SITE: mul: r += MAXIM as i32 : r ∈ [-0xffff, -1] (`c20_mul_i32_add`)
-- C20-SITE: add: u32::from(a) + u32::from(b) : < 2^17 (`c20_add`)
-- C20-SITE: mul_inv: t1 += y / x * t0 ; y %= x ; MAXIM - t1 ; t0 += x / y * t1 ; x %= y :
--           `mulInvChecked_eq` : the checked loop of `Proofs/IdeaInvDefs.lean` (division by zero, u32 overflow of
--           the products/sums, MAXIM - t1 underflow, fuel) returns `some (mulInv a)` for all 65536 `a`.
-- C20-SITE: add_inv: FUYI - u32::from(a) : a ≤ 0xffff < FUYI (`c20_add_inv`)
-/
namespace BC.Idea

def ROUNDS : Nat := 8
def LENGTH_SUB_KEYS : Nat := ROUNDS * 6 + 4
def ONE : BitVec 32 := 0xffff#32
def FUYI : BitVec 32 := 0x10000#32
def MAXIM : BitVec 32 := 0x10001#32

/-- `fn mul(&self, a: u16, b: u16) -> u16` (`r : i32` is a `BitVec 32`, `r < 0` is `slt`). -/
def mul (a b : BitVec 16) : BitVec 16 :=
  let x : BitVec 32 := a.setWidth 32
  let y : BitVec 32 := b.setWidth 32
  let r : BitVec 32 :=
    if x = 0#32 then MAXIM - y
    else if y = 0#32 then MAXIM - x
    else
      let c : BitVec 32 := x * y
      let r : BitVec 32 := (c &&& ONE) - (c >>> 16)
      if r.slt 0#32 then r + MAXIM else r
  (r &&& ONE).setWidth 16

/-- `fn add(&self, a: u16, b: u16) -> u16` -/
def add (a b : BitVec 16) : BitVec 16 :=
  ((a.setWidth 32 + b.setWidth 32 : BitVec 32) &&& ONE).setWidth 16

/-- the `loop` of `mul_inv` on `(x, y, t0, t1)`; `fuel` bounds the number of iterations
(12 suffice for every argument, see `Proofs/IdeaInv.lean`); the value on exhaustion is never used. -/
def mulInvLoop : Nat → BitVec 32 → BitVec 32 → BitVec 32 → BitVec 32 → BitVec 16
  | 0, _, _, _, _ => 0#16
  | fuel + 1, x, y, t0, t1 =>
    let t1 := t1 + y / x * t0
    let y := y % x
    if y = 1#32 then (MAXIM - t1).setWidth 16
    else
      let t0 := t0 + x / y * t1
      let x := x % y
      if x = 1#32 then t0.setWidth 16
      else mulInvLoop fuel x y t0 t1

def mulInvFuel : Nat := 16

/-- `fn mul_inv(&self, a: u16) -> u16` -/
def mulInv (a : BitVec 16) : BitVec 16 :=
  if a ≤ 1#16 then a
  else mulInvLoop mulInvFuel (a.setWidth 32) MAXIM 1#32 0#32

/-- `fn add_inv(&self, a: u16) -> u16` -/
def addInv (a : BitVec 16) : BitVec 16 :=
  ((FUYI - a.setWidth 32) &&& ONE).setWidth 16

/-- `key[i]` of the 16-byte key -/
def keyByte (key : BitVec 128) (i : Nat) : BitVec 8 := (key >>> (8 * (15 - i))).setWidth 8

/-- first loop of `expand_key`: `enc_keys[i] = (u16::from(key[2*i]) << 8) + u16::from(key[2*i+1])` -/
def expandInit (key : BitVec 128) (ek : Array (BitVec 16)) : Array (BitVec 16) :=
  (List.range 8).foldl
    (fun ek i => ek.setIfInBounds i (((keyByte key (2 * i)).setWidth 16 <<< 8) + (keyByte key (2 * i + 1)).setWidth 16))
    ek

/-- index of `a` in the second loop of `expand_key` -/
def expandIdxA (i : Nat) : Nat := if (i + 1) % 8 = 0 then i - 15 else i - 7
/-- index of `b` in the second loop of `expand_key` -/
def expandIdxB (i : Nat) : Nat := if (i + 2) % 8 < 2 then i - 14 else i - 6

/-- body of the second loop of `expand_key` -/
def expandStep (ek : Array (BitVec 16)) (i : Nat) : Array (BitVec 16) :=
  let a := ek.getD (expandIdxA i) 0#16
  let b := ek.getD (expandIdxB i) 0#16
  ek.setIfInBounds i ((a <<< 9) + (b >>> 7))

/-- `fn expand_key(&mut self, key)` applied to `enc_keys = [0; 52]` -/
def expandKey (key : BitVec 128) : Array (BitVec 16) :=
  (List.range' 8 44).foldl expandStep (expandInit key (Array.replicate 52 0#16))

/-- body of the first loop of `invert_sub_keys` -/
def invertStepA (ek : Array (BitVec 16)) (dk : Array (BitVec 16)) (i : Nat) : Array (BitVec 16) :=
  let k := ROUNDS * 6
  let j := i * 6
  let l := k - j
  let m := if 0 < i ∧ i < 8 then 2 else 1
  let n := if 0 < i ∧ i < 8 then 1 else 2
  let dk := dk.setIfInBounds j (mulInv (ek.getD l 0#16))
  let dk := dk.setIfInBounds (j + 1) (addInv (ek.getD (l + m) 0#16))
  let dk := dk.setIfInBounds (j + 2) (addInv (ek.getD (l + n) 0#16))
  dk.setIfInBounds (j + 3) (mulInv (ek.getD (l + 3) 0#16))

/-- body of the second loop of `invert_sub_keys` -/
def invertStepB (ek : Array (BitVec 16)) (dk : Array (BitVec 16)) (i : Nat) : Array (BitVec 16) :=
  let k := (ROUNDS - 1) * 6
  let j := i * 6
  let l := k - j
  let dk := dk.setIfInBounds (j + 4) (ek.getD (l + 4) 0#16)
  dk.setIfInBounds (j + 5) (ek.getD (l + 5) 0#16)

/-- `fn invert_sub_keys(&mut self)` applied to `dec_keys = [0; 52]` -/
def invertSubKeys (ek : Array (BitVec 16)) : Array (BitVec 16) :=
  let dk := (List.range (ROUNDS + 1)).foldl (invertStepA ek) (Array.replicate 52 0#16)
  (List.range ROUNDS).foldl (invertStepB ek) dk

structure St where
  x1 : BitVec 16
  x2 : BitVec 16
  x3 : BitVec 16
  x4 : BitVec 16

/-- body of the round loop of `crypt` -/
def round (sk : Array (BitVec 16)) (s : St) (i : Nat) : St :=
  let j := i * 6
  let y1 := mul s.x1 (sk.getD j 0#16)
  let y2 := add s.x2 (sk.getD (j + 1) 0#16)
  let y3 := add s.x3 (sk.getD (j + 2) 0#16)
  let y4 := mul s.x4 (sk.getD (j + 3) 0#16)
  let t0 := mul (y1 ^^^ y3) (sk.getD (j + 4) 0#16)
  let t := add (y2 ^^^ y4) t0
  let t1 := mul t (sk.getD (j + 5) 0#16)
  let t2 := add t0 t1
  { x1 := y1 ^^^ t1, x2 := y3 ^^^ t1, x3 := y2 ^^^ t2, x4 := y4 ^^^ t2 }

/-- the output transformation of `crypt` -/
def final (sk : Array (BitVec 16)) (s : St) : St :=
  { x1 := mul s.x1 (sk.getD 48 0#16), x2 := add s.x3 (sk.getD 49 0#16),
    x3 := add s.x2 (sk.getD 50 0#16), x4 := mul s.x4 (sk.getD 51 0#16) }

/-- four big-endian 16-bit words of the block -/
def load (b : BitVec 64) : St :=
  { x1 := b.extractLsb' 48 16, x2 := b.extractLsb' 32 16, x3 := b.extractLsb' 16 16, x4 := b.extractLsb' 0 16 }

def store (s : St) : BitVec 64 := s.x1 ++ s.x2 ++ s.x3 ++ s.x4

/-- `fn crypt(&self, block, sub_keys)` -/
def crypt (sk : Array (BitVec 16)) (b : BitVec 64) : BitVec 64 :=
  store (final sk ((List.range ROUNDS).foldl (round sk) (load b)))

structure Keys where
  enc : Array (BitVec 16)
  dec : Array (BitVec 16)

/-- `KeyInit::new` -/
def new (key : BitVec 128) : Keys :=
  let ek := expandKey key
  { enc := ek, dec := invertSubKeys ek }

def encrypt (k : Keys) (b : BitVec 64) : BitVec 64 := crypt k.enc b
def decrypt (k : Keys) (b : BitVec 64) : BitVec 64 := crypt k.dec b

/-- `new_from_slice` (default of `KeyInit`): `key.len() != 16` is `InvalidLength` -/
def accepts (n : Nat) : Bool := n == 16

end BC.Idea
