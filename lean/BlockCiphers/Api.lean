import BlockCiphers.Prelude.Bytes
/-
Registry of cipher models used by the driver and by the "for every cipher type" statements.
-/
namespace BC

/-- a keyed instance: the directions the type supports -/
structure Keyed where
  enc : Option (Bytes → Bytes)
  dec : Option (Bytes → Bytes)

inductive WeakRes | ok | weak
  deriving DecidableEq, Repr

structure CipherModel where
  name : String
  blockLen : Nat
  keySize : Nat
  /-- `new_from_slice`: `none` = `InvalidLength` -/
  new : Bytes → Option Keyed
  /-- `weak_key_test` on a key of `keySize` bytes -/
  weak : Bytes → WeakRes := fun _ => .ok
  /-- `Debug` output (key independent by construction: no key argument) -/
  debug : String
  algName : String
  /-- the type implements `Clone` (only `Xtea` does not) -/
  clonable : Bool := true

/-- lift a fixed-width block function to byte strings -/
def liftBlock (n : Nat) (f : BitVec (8 * n) → BitVec (8 * n)) : Bytes → Bytes :=
  fun b => unpackBE n (f (packBE n b))

/-- handler of a special operation line (first token, rest of tokens) -/
abbrev Special := String × (List String → String)

end BC
