import BlockCiphers.Gen.Cipher_Kuznyechik_soft
import BlockCiphers.Proofs.GenKuznyechikSoftTablesBase
/-! Part of the fused-table tie of Kuznyechik's big software backend: see `GenKuznyechikSoftTablesBase.lean`. -/
set_option maxRecDepth 100000
namespace BC.GenCipher.Kuznyechik
open BC BC.Kuznyechik BC.Spec.Kuznyechik BC.Gen.Fn
/-! #### dec, byte position 0 -/
def Rdec0 (v : BitVec 8) : BitVec 128 := rev128 (Linv (setb 0#128 0 v))
theorem Rdec0_xor (a b : BitVec 8) : Rdec0 (a ^^^ b) = Rdec0 a ^^^ Rdec0 b := by
  simp only [Rdec0, setb_xor0, Linv_xor, rev128_xor]
theorem Rdec0_zero : Rdec0 0#8 = 0#128 := by
  have h := Rdec0_xor 0#8 0#8
  simp only [BitVec.xor_self] at h
  exact h
theorem Rdec0_ite (c : Bool) (a : BitVec 8) : Rdec0 (if c then a else 0#8) = if c then Rdec0 a else 0#128 := by
  cases c <;> simp [Rdec0_zero]
theorem Rdec0_b0 : Rdec0 0x01#8 = 0x6ea276726c487ab85d27bd10dd849401#128 := by
  rw [Rdec0, setb_unit0, ← l_bwd_eq_Linv, ← lbwdB_pack kuznyechik_compact_decrypt_block_tbl0 kuznyechik_compact_decrypt_block_tbl1 kuznyechik_compact_decrypt_block_tbl2 kuznyechik_compact_decrypt_block_tbl3 kuznyechik_compact_decrypt_block_tbl4 kuznyechik_compact_decrypt_block_tbl5 kuznyechik_compact_decrypt_block_tbl6 gfD]
  decide +kernel
theorem Rdec0_b1 : Rdec0 0x02#8 = 0xdc87ece4d890f4b3ba4eb92079cbeb02#128 := by
  rw [Rdec0, setb_unit0, ← l_bwd_eq_Linv, ← lbwdB_pack kuznyechik_compact_decrypt_block_tbl0 kuznyechik_compact_decrypt_block_tbl1 kuznyechik_compact_decrypt_block_tbl2 kuznyechik_compact_decrypt_block_tbl3 kuznyechik_compact_decrypt_block_tbl4 kuznyechik_compact_decrypt_block_tbl5 kuznyechik_compact_decrypt_block_tbl6 gfD]
  decide +kernel
theorem Rdec0_b2 : Rdec0 0x04#8 = 0x7bcd1b0b73e32ba5b79cb140f2551504#128 := by
  rw [Rdec0, setb_unit0, ← l_bwd_eq_Linv, ← lbwdB_pack kuznyechik_compact_decrypt_block_tbl0 kuznyechik_compact_decrypt_block_tbl1 kuznyechik_compact_decrypt_block_tbl2 kuznyechik_compact_decrypt_block_tbl3 kuznyechik_compact_decrypt_block_tbl4 kuznyechik_compact_decrypt_block_tbl5 kuznyechik_compact_decrypt_block_tbl6 gfD]
  decide +kernel
theorem Rdec0_b3 : Rdec0 0x08#8 = 0xf6593616e6055689adfba18027aa2a08#128 := by
  rw [Rdec0, setb_unit0, ← l_bwd_eq_Linv, ← lbwdB_pack kuznyechik_compact_decrypt_block_tbl0 kuznyechik_compact_decrypt_block_tbl1 kuznyechik_compact_decrypt_block_tbl2 kuznyechik_compact_decrypt_block_tbl3 kuznyechik_compact_decrypt_block_tbl4 kuznyechik_compact_decrypt_block_tbl5 kuznyechik_compact_decrypt_block_tbl6 gfD]
  decide +kernel
theorem Rdec0_b4 : Rdec0 0x10#8 = 0x2fb26c2c0f0aacd1993581c34e975410#128 := by
  rw [Rdec0, setb_unit0, ← l_bwd_eq_Linv, ← lbwdB_pack kuznyechik_compact_decrypt_block_tbl0 kuznyechik_compact_decrypt_block_tbl1 kuznyechik_compact_decrypt_block_tbl2 kuznyechik_compact_decrypt_block_tbl3 kuznyechik_compact_decrypt_block_tbl4 kuznyechik_compact_decrypt_block_tbl5 kuznyechik_compact_decrypt_block_tbl6 gfD]
  decide +kernel
theorem Rdec0_b5 : Rdec0 0x20#8 = 0x5ea7d8581e149b61f16ac1459ceda820#128 := by
  rw [Rdec0, setb_unit0, ← l_bwd_eq_Linv, ← lbwdB_pack kuznyechik_compact_decrypt_block_tbl0 kuznyechik_compact_decrypt_block_tbl1 kuznyechik_compact_decrypt_block_tbl2 kuznyechik_compact_decrypt_block_tbl3 kuznyechik_compact_decrypt_block_tbl4 kuznyechik_compact_decrypt_block_tbl5 kuznyechik_compact_decrypt_block_tbl6 gfD]
  decide +kernel
theorem Rdec0_b6 : Rdec0 0x40#8 = 0xbc8d73b03c28f5c221d4418afb199340#128 := by
  rw [Rdec0, setb_unit0, ← l_bwd_eq_Linv, ← lbwdB_pack kuznyechik_compact_decrypt_block_tbl0 kuznyechik_compact_decrypt_block_tbl1 kuznyechik_compact_decrypt_block_tbl2 kuznyechik_compact_decrypt_block_tbl3 kuznyechik_compact_decrypt_block_tbl4 kuznyechik_compact_decrypt_block_tbl5 kuznyechik_compact_decrypt_block_tbl6 gfD]
  decide +kernel
theorem Rdec0_b7 : Rdec0 0x80#8 = 0xbbd9e6a378502947426b82d73532e580#128 := by
  rw [Rdec0, setb_unit0, ← l_bwd_eq_Linv, ← lbwdB_pack kuznyechik_compact_decrypt_block_tbl0 kuznyechik_compact_decrypt_block_tbl1 kuznyechik_compact_decrypt_block_tbl2 kuznyechik_compact_decrypt_block_tbl3 kuznyechik_compact_decrypt_block_tbl4 kuznyechik_compact_decrypt_block_tbl5 kuznyechik_compact_decrypt_block_tbl6 gfD]
  decide +kernel
theorem Rdec0_comb (v : BitVec 8) : Rdec0 v = comb 0x6ea276726c487ab85d27bd10dd849401#128 0xdc87ece4d890f4b3ba4eb92079cbeb02#128 0x7bcd1b0b73e32ba5b79cb140f2551504#128 0xf6593616e6055689adfba18027aa2a08#128 0x2fb26c2c0f0aacd1993581c34e975410#128 0x5ea7d8581e149b61f16ac1459ceda820#128 0xbc8d73b03c28f5c221d4418afb199340#128 0xbbd9e6a378502947426b82d73532e580#128 v := by
  have h := congrArg Rdec0 (bits8 v)
  rw [← h]
  simp only [Rdec0_xor, Rdec0_ite, Rdec0_b0, Rdec0_b1, Rdec0_b2, Rdec0_b3, Rdec0_b4, Rdec0_b5, Rdec0_b6, Rdec0_b7, comb]
theorem decC_0 : ∀ n : Fin 256, BC.Gen.tblAt kuznyechik_soft_decrypt_block_tbl0 n.val 128 = comb 0x6ea276726c487ab85d27bd10dd849401#128 0xdc87ece4d890f4b3ba4eb92079cbeb02#128 0x7bcd1b0b73e32ba5b79cb140f2551504#128 0xf6593616e6055689adfba18027aa2a08#128 0x2fb26c2c0f0aacd1993581c34e975410#128 0x5ea7d8581e149b61f16ac1459ceda820#128 0xbc8d73b03c28f5c221d4418afb199340#128 0xbbd9e6a378502947426b82d73532e580#128 (BC.Gen.tblAt kuznyechik_compact_decrypt_block_tbl7 n.val 8) := by decide +kernel
theorem decT_0 (x : BitVec 8) : BC.Gen.tblAt kuznyechik_soft_decrypt_block_tbl0 (x.setWidth 64).toNat 128 = row DEC_TABLE.get ⟨0, by decide⟩ x := by
  rw [DEC_TABLE_row]
  show _ = Rdec0 _
  rw [Rdec0_comb]
  refine fin_at _ (fun y => comb 0x6ea276726c487ab85d27bd10dd849401#128 0xdc87ece4d890f4b3ba4eb92079cbeb02#128 0x7bcd1b0b73e32ba5b79cb140f2551504#128 0xf6593616e6055689adfba18027aa2a08#128 0x2fb26c2c0f0aacd1993581c34e975410#128 0x5ea7d8581e149b61f16ac1459ceda820#128 0xbc8d73b03c28f5c221d4418afb199340#128 0xbbd9e6a378502947426b82d73532e580#128 (lut P_INV y)) (fun n => ?_) x
  rw [decC_0 n, pinv_fin n]

/-! #### dec, byte position 1 -/
def Rdec1 (v : BitVec 8) : BitVec 128 := rev128 (Linv (setb 0#128 1 v))
theorem Rdec1_xor (a b : BitVec 8) : Rdec1 (a ^^^ b) = Rdec1 a ^^^ Rdec1 b := by
  simp only [Rdec1, setb_xor1, Linv_xor, rev128_xor]
theorem Rdec1_zero : Rdec1 0#8 = 0#128 := by
  have h := Rdec1_xor 0#8 0#8
  simp only [BitVec.xor_self] at h
  exact h
theorem Rdec1_ite (c : Bool) (a : BitVec 8) : Rdec1 (if c then a else 0#8) = if c then Rdec1 a else 0#128 := by
  cases c <;> simp [Rdec1_zero]
theorem Rdec1_b0 : Rdec1 0x01#8 = 0x4dd0e3e84cc3166e4b7fa2890d64a594#128 := by
  rw [Rdec1, setb_unit1, ← l_bwd_eq_Linv, ← lbwdB_pack kuznyechik_compact_decrypt_block_tbl0 kuznyechik_compact_decrypt_block_tbl1 kuznyechik_compact_decrypt_block_tbl2 kuznyechik_compact_decrypt_block_tbl3 kuznyechik_compact_decrypt_block_tbl4 kuznyechik_compact_decrypt_block_tbl5 kuznyechik_compact_decrypt_block_tbl6 gfD]
  decide +kernel
theorem Rdec1_b1 : Rdec1 0x02#8 = 0x9a63051398452cdc96fe87d11ac889eb#128 := by
  rw [Rdec1, setb_unit1, ← l_bwd_eq_Linv, ← lbwdB_pack kuznyechik_compact_decrypt_block_tbl0 kuznyechik_compact_decrypt_block_tbl1 kuznyechik_compact_decrypt_block_tbl2 kuznyechik_compact_decrypt_block_tbl3 kuznyechik_compact_decrypt_block_tbl4 kuznyechik_compact_decrypt_block_tbl5 kuznyechik_compact_decrypt_block_tbl6 gfD]
  decide +kernel
theorem Rdec1_b2 : Rdec1 0x04#8 = 0xf7c60a26f38a587bef3fcd613453d115#128 := by
  rw [Rdec1, setb_unit1, ← l_bwd_eq_Linv, ← lbwdB_pack kuznyechik_compact_decrypt_block_tbl0 kuznyechik_compact_decrypt_block_tbl1 kuznyechik_compact_decrypt_block_tbl2 kuznyechik_compact_decrypt_block_tbl3 kuznyechik_compact_decrypt_block_tbl4 kuznyechik_compact_decrypt_block_tbl5 kuznyechik_compact_decrypt_block_tbl6 gfD]
  decide +kernel
theorem Rdec1_b3 : Rdec1 0x08#8 = 0x2d4f144c25d7b0f61d7e59c268a6612a#128 := by
  rw [Rdec1, setb_unit1, ← l_bwd_eq_Linv, ← lbwdB_pack kuznyechik_compact_decrypt_block_tbl0 kuznyechik_compact_decrypt_block_tbl1 kuznyechik_compact_decrypt_block_tbl2 kuznyechik_compact_decrypt_block_tbl3 kuznyechik_compact_decrypt_block_tbl4 kuznyechik_compact_decrypt_block_tbl5 kuznyechik_compact_decrypt_block_tbl6 gfD]
  decide +kernel
theorem Rdec1_b4 : Rdec1 0x10#8 = 0x5a9e28984a6da32f3afcb247d08fc254#128 := by
  rw [Rdec1, setb_unit1, ← l_bwd_eq_Linv, ← lbwdB_pack kuznyechik_compact_decrypt_block_tbl0 kuznyechik_compact_decrypt_block_tbl1 kuznyechik_compact_decrypt_block_tbl2 kuznyechik_compact_decrypt_block_tbl3 kuznyechik_compact_decrypt_block_tbl4 kuznyechik_compact_decrypt_block_tbl5 kuznyechik_compact_decrypt_block_tbl6 gfD]
  decide +kernel
theorem Rdec1_b5 : Rdec1 0x20#8 = 0xb4ff50f394da855e743ba78e63dd47a8#128 := by
  rw [Rdec1, setb_unit1, ← l_bwd_eq_Linv, ← lbwdB_pack kuznyechik_compact_decrypt_block_tbl0 kuznyechik_compact_decrypt_block_tbl1 kuznyechik_compact_decrypt_block_tbl2 kuznyechik_compact_decrypt_block_tbl3 kuznyechik_compact_decrypt_block_tbl4 kuznyechik_compact_decrypt_block_tbl5 kuznyechik_compact_decrypt_block_tbl6 gfD]
  decide +kernel
theorem Rdec1_b6 : Rdec1 0x40#8 = 0xab3da025eb77c9bce8768ddfc6798e93#128 := by
  rw [Rdec1, setb_unit1, ← l_bwd_eq_Linv, ← lbwdB_pack kuznyechik_compact_decrypt_block_tbl0 kuznyechik_compact_decrypt_block_tbl1 kuznyechik_compact_decrypt_block_tbl2 kuznyechik_compact_decrypt_block_tbl3 kuznyechik_compact_decrypt_block_tbl4 kuznyechik_compact_decrypt_block_tbl5 kuznyechik_compact_decrypt_block_tbl6 gfD]
  decide +kernel
theorem Rdec1_b7 : Rdec1 0x80#8 = 0x957a834a15ee51bb13ecd97d4ff2dfe5#128 := by
  rw [Rdec1, setb_unit1, ← l_bwd_eq_Linv, ← lbwdB_pack kuznyechik_compact_decrypt_block_tbl0 kuznyechik_compact_decrypt_block_tbl1 kuznyechik_compact_decrypt_block_tbl2 kuznyechik_compact_decrypt_block_tbl3 kuznyechik_compact_decrypt_block_tbl4 kuznyechik_compact_decrypt_block_tbl5 kuznyechik_compact_decrypt_block_tbl6 gfD]
  decide +kernel
theorem Rdec1_comb (v : BitVec 8) : Rdec1 v = comb 0x4dd0e3e84cc3166e4b7fa2890d64a594#128 0x9a63051398452cdc96fe87d11ac889eb#128 0xf7c60a26f38a587bef3fcd613453d115#128 0x2d4f144c25d7b0f61d7e59c268a6612a#128 0x5a9e28984a6da32f3afcb247d08fc254#128 0xb4ff50f394da855e743ba78e63dd47a8#128 0xab3da025eb77c9bce8768ddfc6798e93#128 0x957a834a15ee51bb13ecd97d4ff2dfe5#128 v := by
  have h := congrArg Rdec1 (bits8 v)
  rw [← h]
  simp only [Rdec1_xor, Rdec1_ite, Rdec1_b0, Rdec1_b1, Rdec1_b2, Rdec1_b3, Rdec1_b4, Rdec1_b5, Rdec1_b6, Rdec1_b7, comb]
theorem decC_1 : ∀ n : Fin 256, BC.Gen.tblAt kuznyechik_soft_decrypt_block_tbl1 n.val 128 = comb 0x4dd0e3e84cc3166e4b7fa2890d64a594#128 0x9a63051398452cdc96fe87d11ac889eb#128 0xf7c60a26f38a587bef3fcd613453d115#128 0x2d4f144c25d7b0f61d7e59c268a6612a#128 0x5a9e28984a6da32f3afcb247d08fc254#128 0xb4ff50f394da855e743ba78e63dd47a8#128 0xab3da025eb77c9bce8768ddfc6798e93#128 0x957a834a15ee51bb13ecd97d4ff2dfe5#128 (BC.Gen.tblAt kuznyechik_compact_decrypt_block_tbl7 n.val 8) := by decide +kernel
theorem decT_1 (x : BitVec 8) : BC.Gen.tblAt kuznyechik_soft_decrypt_block_tbl1 (x.setWidth 64).toNat 128 = row DEC_TABLE.get ⟨1, by decide⟩ x := by
  rw [DEC_TABLE_row]
  show _ = Rdec1 _
  rw [Rdec1_comb]
  refine fin_at _ (fun y => comb 0x4dd0e3e84cc3166e4b7fa2890d64a594#128 0x9a63051398452cdc96fe87d11ac889eb#128 0xf7c60a26f38a587bef3fcd613453d115#128 0x2d4f144c25d7b0f61d7e59c268a6612a#128 0x5a9e28984a6da32f3afcb247d08fc254#128 0xb4ff50f394da855e743ba78e63dd47a8#128 0xab3da025eb77c9bce8768ddfc6798e93#128 0x957a834a15ee51bb13ecd97d4ff2dfe5#128 (lut P_INV y)) (fun n => ?_) x
  rw [decC_1 n, pinv_fin n]

/-! #### dec, byte position 2 -/
def Rdec2 (v : BitVec 8) : BitVec 128 := rev128 (Linv (setb 0#128 2 v))
theorem Rdec2_xor (a b : BitVec 8) : Rdec2 (a ^^^ b) = Rdec2 a ^^^ Rdec2 b := by
  simp only [Rdec2, setb_xor2, Linv_xor, rev128_xor]
theorem Rdec2_zero : Rdec2 0#8 = 0#128 := by
  have h := Rdec2_xor 0#8 0#8
  simp only [BitVec.xor_self] at h
  exact h
theorem Rdec2_ite (c : Bool) (a : BitVec 8) : Rdec2 (if c then a else 0#8) = if c then Rdec2 a else 0#128 := by
  cases c <;> simp [Rdec2_zero]
theorem Rdec2_b0 : Rdec2 0x01#8 = 0x8e443014dd02f52a8ec84848f8483c20#128 := by
  rw [Rdec2, setb_unit2, ← l_bwd_eq_Linv, ← lbwdB_pack kuznyechik_compact_decrypt_block_tbl0 kuznyechik_compact_decrypt_block_tbl1 kuznyechik_compact_decrypt_block_tbl2 kuznyechik_compact_decrypt_block_tbl3 kuznyechik_compact_decrypt_block_tbl4 kuznyechik_compact_decrypt_block_tbl5 kuznyechik_compact_decrypt_block_tbl6 gfD]
  decide +kernel
theorem Rdec2_b1 : Rdec2 0x02#8 = 0xdf88602879042954df53909033907840#128 := by
  rw [Rdec2, setb_unit2, ← l_bwd_eq_Linv, ← lbwdB_pack kuznyechik_compact_decrypt_block_tbl0 kuznyechik_compact_decrypt_block_tbl1 kuznyechik_compact_decrypt_block_tbl2 kuznyechik_compact_decrypt_block_tbl3 kuznyechik_compact_decrypt_block_tbl4 kuznyechik_compact_decrypt_block_tbl5 kuznyechik_compact_decrypt_block_tbl6 gfD]
  decide +kernel
theorem Rdec2_b2 : Rdec2 0x04#8 = 0x7dd3c050f20852a87da6e3e366e3f080#128 := by
  rw [Rdec2, setb_unit2, ← l_bwd_eq_Linv, ← lbwdB_pack kuznyechik_compact_decrypt_block_tbl0 kuznyechik_compact_decrypt_block_tbl1 kuznyechik_compact_decrypt_block_tbl2 kuznyechik_compact_decrypt_block_tbl3 kuznyechik_compact_decrypt_block_tbl4 kuznyechik_compact_decrypt_block_tbl5 kuznyechik_compact_decrypt_block_tbl6 gfD]
  decide +kernel
theorem Rdec2_b3 : Rdec2 0x08#8 = 0xfa6543a02710a493fa8f0505cc0523c3#128 := by
  rw [Rdec2, setb_unit2, ← l_bwd_eq_Linv, ← lbwdB_pack kuznyechik_compact_decrypt_block_tbl0 kuznyechik_compact_decrypt_block_tbl1 kuznyechik_compact_decrypt_block_tbl2 kuznyechik_compact_decrypt_block_tbl3 kuznyechik_compact_decrypt_block_tbl4 kuznyechik_compact_decrypt_block_tbl5 kuznyechik_compact_decrypt_block_tbl6 gfD]
  decide +kernel
theorem Rdec2_b4 : Rdec2 0x10#8 = 0x37ca86834e208be537dd0a0a5b0a4645#128 := by
  rw [Rdec2, setb_unit2, ← l_bwd_eq_Linv, ← lbwdB_pack kuznyechik_compact_decrypt_block_tbl0 kuznyechik_compact_decrypt_block_tbl1 kuznyechik_compact_decrypt_block_tbl2 kuznyechik_compact_decrypt_block_tbl3 kuznyechik_compact_decrypt_block_tbl4 kuznyechik_compact_decrypt_block_tbl5 kuznyechik_compact_decrypt_block_tbl6 gfD]
  decide +kernel
theorem Rdec2_b5 : Rdec2 0x20#8 = 0x6e57cfc59c40d5096e791414b6148c8a#128 := by
  rw [Rdec2, setb_unit2, ← l_bwd_eq_Linv, ← lbwdB_pack kuznyechik_compact_decrypt_block_tbl0 kuznyechik_compact_decrypt_block_tbl1 kuznyechik_compact_decrypt_block_tbl2 kuznyechik_compact_decrypt_block_tbl3 kuznyechik_compact_decrypt_block_tbl4 kuznyechik_compact_decrypt_block_tbl5 kuznyechik_compact_decrypt_block_tbl6 gfD]
  decide +kernel
theorem Rdec2_b6 : Rdec2 0x40#8 = 0xdcae5d49fb806912dcf22828af28dbd7#128 := by
  rw [Rdec2, setb_unit2, ← l_bwd_eq_Linv, ← lbwdB_pack kuznyechik_compact_decrypt_block_tbl0 kuznyechik_compact_decrypt_block_tbl1 kuznyechik_compact_decrypt_block_tbl2 kuznyechik_compact_decrypt_block_tbl3 kuznyechik_compact_decrypt_block_tbl4 kuznyechik_compact_decrypt_block_tbl5 kuznyechik_compact_decrypt_block_tbl6 gfD]
  decide +kernel
theorem Rdec2_b7 : Rdec2 0x80#8 = 0x7b9fba9235c3d2247b2750509d50756d#128 := by
  rw [Rdec2, setb_unit2, ← l_bwd_eq_Linv, ← lbwdB_pack kuznyechik_compact_decrypt_block_tbl0 kuznyechik_compact_decrypt_block_tbl1 kuznyechik_compact_decrypt_block_tbl2 kuznyechik_compact_decrypt_block_tbl3 kuznyechik_compact_decrypt_block_tbl4 kuznyechik_compact_decrypt_block_tbl5 kuznyechik_compact_decrypt_block_tbl6 gfD]
  decide +kernel
theorem Rdec2_comb (v : BitVec 8) : Rdec2 v = comb 0x8e443014dd02f52a8ec84848f8483c20#128 0xdf88602879042954df53909033907840#128 0x7dd3c050f20852a87da6e3e366e3f080#128 0xfa6543a02710a493fa8f0505cc0523c3#128 0x37ca86834e208be537dd0a0a5b0a4645#128 0x6e57cfc59c40d5096e791414b6148c8a#128 0xdcae5d49fb806912dcf22828af28dbd7#128 0x7b9fba9235c3d2247b2750509d50756d#128 v := by
  have h := congrArg Rdec2 (bits8 v)
  rw [← h]
  simp only [Rdec2_xor, Rdec2_ite, Rdec2_b0, Rdec2_b1, Rdec2_b2, Rdec2_b3, Rdec2_b4, Rdec2_b5, Rdec2_b6, Rdec2_b7, comb]
theorem decC_2 : ∀ n : Fin 256, BC.Gen.tblAt kuznyechik_soft_decrypt_block_tbl2 n.val 128 = comb 0x8e443014dd02f52a8ec84848f8483c20#128 0xdf88602879042954df53909033907840#128 0x7dd3c050f20852a87da6e3e366e3f080#128 0xfa6543a02710a493fa8f0505cc0523c3#128 0x37ca86834e208be537dd0a0a5b0a4645#128 0x6e57cfc59c40d5096e791414b6148c8a#128 0xdcae5d49fb806912dcf22828af28dbd7#128 0x7b9fba9235c3d2247b2750509d50756d#128 (BC.Gen.tblAt kuznyechik_compact_decrypt_block_tbl7 n.val 8) := by decide +kernel
theorem decT_2 (x : BitVec 8) : BC.Gen.tblAt kuznyechik_soft_decrypt_block_tbl2 (x.setWidth 64).toNat 128 = row DEC_TABLE.get ⟨2, by decide⟩ x := by
  rw [DEC_TABLE_row]
  show _ = Rdec2 _
  rw [Rdec2_comb]
  refine fin_at _ (fun y => comb 0x8e443014dd02f52a8ec84848f8483c20#128 0xdf88602879042954df53909033907840#128 0x7dd3c050f20852a87da6e3e366e3f080#128 0xfa6543a02710a493fa8f0505cc0523c3#128 0x37ca86834e208be537dd0a0a5b0a4645#128 0x6e57cfc59c40d5096e791414b6148c8a#128 0xdcae5d49fb806912dcf22828af28dbd7#128 0x7b9fba9235c3d2247b2750509d50756d#128 (lut P_INV y)) (fun n => ?_) x
  rw [decC_2 n, pinv_fin n]

/-! #### dec, byte position 3 -/
def Rdec3 (v : BitVec 8) : BitVec 128 := rev128 (Linv (setb 0#128 3 v))
theorem Rdec3_xor (a b : BitVec 8) : Rdec3 (a ^^^ b) = Rdec3 a ^^^ Rdec3 b := by
  simp only [Rdec3, setb_xor3, Linv_xor, rev128_xor]
theorem Rdec3_zero : Rdec3 0#8 = 0#128 := by
  have h := Rdec3_xor 0#8 0#8
  simp only [BitVec.xor_self] at h
  exact h
theorem Rdec3_ite (c : Bool) (a : BitVec 8) : Rdec3 (if c then a else 0#8) = if c then Rdec3 a else 0#128 := by
  cases c <;> simp [Rdec3_zero]
theorem Rdec3_b0 : Rdec3 0x01#8 = 0xea869f07650e52d46098c67f52df4485#128 := by
  rw [Rdec3, setb_unit3, ← l_bwd_eq_Linv, ← lbwdB_pack kuznyechik_compact_decrypt_block_tbl0 kuznyechik_compact_decrypt_block_tbl1 kuznyechik_compact_decrypt_block_tbl2 kuznyechik_compact_decrypt_block_tbl3 kuznyechik_compact_decrypt_block_tbl4 kuznyechik_compact_decrypt_block_tbl5 kuznyechik_compact_decrypt_block_tbl6 gfD]
  decide +kernel
theorem Rdec3_b1 : Rdec3 0x02#8 = 0x17cffd0eca1ca46bc0f34ffea47d88c9#128 := by
  rw [Rdec3, setb_unit3, ← l_bwd_eq_Linv, ← lbwdB_pack kuznyechik_compact_decrypt_block_tbl0 kuznyechik_compact_decrypt_block_tbl1 kuznyechik_compact_decrypt_block_tbl2 kuznyechik_compact_decrypt_block_tbl3 kuznyechik_compact_decrypt_block_tbl4 kuznyechik_compact_decrypt_block_tbl5 kuznyechik_compact_decrypt_block_tbl6 gfD]
  decide +kernel
theorem Rdec3_b2 : Rdec3 0x04#8 = 0x2e5d391c57388bd643259e3f8bfad351#128 := by
  rw [Rdec3, setb_unit3, ← l_bwd_eq_Linv, ← lbwdB_pack kuznyechik_compact_decrypt_block_tbl0 kuznyechik_compact_decrypt_block_tbl1 kuznyechik_compact_decrypt_block_tbl2 kuznyechik_compact_decrypt_block_tbl3 kuznyechik_compact_decrypt_block_tbl4 kuznyechik_compact_decrypt_block_tbl5 kuznyechik_compact_decrypt_block_tbl6 gfD]
  decide +kernel
theorem Rdec3_b3 : Rdec3 0x08#8 = 0x5cba7238ae70d56f864aff7ed53765a2#128 := by
  rw [Rdec3, setb_unit3, ← l_bwd_eq_Linv, ← lbwdB_pack kuznyechik_compact_decrypt_block_tbl0 kuznyechik_compact_decrypt_block_tbl1 kuznyechik_compact_decrypt_block_tbl2 kuznyechik_compact_decrypt_block_tbl3 kuznyechik_compact_decrypt_block_tbl4 kuznyechik_compact_decrypt_block_tbl5 kuznyechik_compact_decrypt_block_tbl6 gfD]
  decide +kernel
theorem Rdec3_b4 : Rdec3 0x10#8 = 0xb8b7e4709fe069decf943dfc696eca87#128 := by
  rw [Rdec3, setb_unit3, ← l_bwd_eq_Linv, ← lbwdB_pack kuznyechik_compact_decrypt_block_tbl0 kuznyechik_compact_decrypt_block_tbl1 kuznyechik_compact_decrypt_block_tbl2 kuznyechik_compact_decrypt_block_tbl3 kuznyechik_compact_decrypt_block_tbl4 kuznyechik_compact_decrypt_block_tbl5 kuznyechik_compact_decrypt_block_tbl6 gfD]
  decide +kernel
theorem Rdec3_b5 : Rdec3 0x20#8 = 0xb3ad0be0fd03d27f5deb7a3bd2dc57cd#128 := by
  rw [Rdec3, setb_unit3, ← l_bwd_eq_Linv, ← lbwdB_pack kuznyechik_compact_decrypt_block_tbl0 kuznyechik_compact_decrypt_block_tbl1 kuznyechik_compact_decrypt_block_tbl2 kuznyechik_compact_decrypt_block_tbl3 kuznyechik_compact_decrypt_block_tbl4 kuznyechik_compact_decrypt_block_tbl5 kuznyechik_compact_decrypt_block_tbl6 gfD]
  decide +kernel
theorem Rdec3_b6 : Rdec3 0x40#8 = 0xa5991603390667feba15f476677bae59#128 := by
  rw [Rdec3, setb_unit3, ← l_bwd_eq_Linv, ← lbwdB_pack kuznyechik_compact_decrypt_block_tbl0 kuznyechik_compact_decrypt_block_tbl1 kuznyechik_compact_decrypt_block_tbl2 kuznyechik_compact_decrypt_block_tbl3 kuznyechik_compact_decrypt_block_tbl4 kuznyechik_compact_decrypt_block_tbl5 kuznyechik_compact_decrypt_block_tbl6 gfD]
  decide +kernel
theorem Rdec3_b7 : Rdec3 0x80#8 = 0x89f12c06720cce3fb72a2beccef69fb2#128 := by
  rw [Rdec3, setb_unit3, ← l_bwd_eq_Linv, ← lbwdB_pack kuznyechik_compact_decrypt_block_tbl0 kuznyechik_compact_decrypt_block_tbl1 kuznyechik_compact_decrypt_block_tbl2 kuznyechik_compact_decrypt_block_tbl3 kuznyechik_compact_decrypt_block_tbl4 kuznyechik_compact_decrypt_block_tbl5 kuznyechik_compact_decrypt_block_tbl6 gfD]
  decide +kernel
theorem Rdec3_comb (v : BitVec 8) : Rdec3 v = comb 0xea869f07650e52d46098c67f52df4485#128 0x17cffd0eca1ca46bc0f34ffea47d88c9#128 0x2e5d391c57388bd643259e3f8bfad351#128 0x5cba7238ae70d56f864aff7ed53765a2#128 0xb8b7e4709fe069decf943dfc696eca87#128 0xb3ad0be0fd03d27f5deb7a3bd2dc57cd#128 0xa5991603390667feba15f476677bae59#128 0x89f12c06720cce3fb72a2beccef69fb2#128 v := by
  have h := congrArg Rdec3 (bits8 v)
  rw [← h]
  simp only [Rdec3_xor, Rdec3_ite, Rdec3_b0, Rdec3_b1, Rdec3_b2, Rdec3_b3, Rdec3_b4, Rdec3_b5, Rdec3_b6, Rdec3_b7, comb]
theorem decC_3 : ∀ n : Fin 256, BC.Gen.tblAt kuznyechik_soft_decrypt_block_tbl3 n.val 128 = comb 0xea869f07650e52d46098c67f52df4485#128 0x17cffd0eca1ca46bc0f34ffea47d88c9#128 0x2e5d391c57388bd643259e3f8bfad351#128 0x5cba7238ae70d56f864aff7ed53765a2#128 0xb8b7e4709fe069decf943dfc696eca87#128 0xb3ad0be0fd03d27f5deb7a3bd2dc57cd#128 0xa5991603390667feba15f476677bae59#128 0x89f12c06720cce3fb72a2beccef69fb2#128 (BC.Gen.tblAt kuznyechik_compact_decrypt_block_tbl7 n.val 8) := by decide +kernel
theorem decT_3 (x : BitVec 8) : BC.Gen.tblAt kuznyechik_soft_decrypt_block_tbl3 (x.setWidth 64).toNat 128 = row DEC_TABLE.get ⟨3, by decide⟩ x := by
  rw [DEC_TABLE_row]
  show _ = Rdec3 _
  rw [Rdec3_comb]
  refine fin_at _ (fun y => comb 0xea869f07650e52d46098c67f52df4485#128 0x17cffd0eca1ca46bc0f34ffea47d88c9#128 0x2e5d391c57388bd643259e3f8bfad351#128 0x5cba7238ae70d56f864aff7ed53765a2#128 0xb8b7e4709fe069decf943dfc696eca87#128 0xb3ad0be0fd03d27f5deb7a3bd2dc57cd#128 0xa5991603390667feba15f476677bae59#128 0x89f12c06720cce3fb72a2beccef69fb2#128 (lut P_INV y)) (fun n => ?_) x
  rw [decC_3 n, pinv_fin n]

/-! #### dec, byte position 4 -/
def Rdec4 (v : BitVec 8) : BitVec 128 := rev128 (Linv (setb 0#128 4 v))
theorem Rdec4_xor (a b : BitVec 8) : Rdec4 (a ^^^ b) = Rdec4 a ^^^ Rdec4 b := by
  simp only [Rdec4, setb_xor4, Linv_xor, rev128_xor]
theorem Rdec4_zero : Rdec4 0#8 = 0#128 := by
  have h := Rdec4_xor 0#8 0#8
  simp only [BitVec.xor_self] at h
  exact h
theorem Rdec4_ite (c : Bool) (a : BitVec 8) : Rdec4 (if c then a else 0#8) = if c then Rdec4 a else 0#128 := by
  cases c <;> simp [Rdec4_zero]
theorem Rdec4_b0 : Rdec4 0x01#8 = 0xa92d6b49015878b101f3fe9191d3d110#128 := by
  rw [Rdec4, setb_unit4, ← l_bwd_eq_Linv, ← lbwdB_pack kuznyechik_compact_decrypt_block_tbl0 kuznyechik_compact_decrypt_block_tbl1 kuznyechik_compact_decrypt_block_tbl2 kuznyechik_compact_decrypt_block_tbl3 kuznyechik_compact_decrypt_block_tbl4 kuznyechik_compact_decrypt_block_tbl5 kuznyechik_compact_decrypt_block_tbl6 gfD]
  decide +kernel
theorem Rdec4_b1 : Rdec4 0x02#8 = 0x915ad69202b0f0a102253fe1e1656120#128 := by
  rw [Rdec4, setb_unit4, ← l_bwd_eq_Linv, ← lbwdB_pack kuznyechik_compact_decrypt_block_tbl0 kuznyechik_compact_decrypt_block_tbl1 kuznyechik_compact_decrypt_block_tbl2 kuznyechik_compact_decrypt_block_tbl3 kuznyechik_compact_decrypt_block_tbl4 kuznyechik_compact_decrypt_block_tbl5 kuznyechik_compact_decrypt_block_tbl6 gfD]
  decide +kernel
theorem Rdec4_b2 : Rdec4 0x04#8 = 0xe1b46fe704a32381044a7e0101cac240#128 := by
  rw [Rdec4, setb_unit4, ← l_bwd_eq_Linv, ← lbwdB_pack kuznyechik_compact_decrypt_block_tbl0 kuznyechik_compact_decrypt_block_tbl1 kuznyechik_compact_decrypt_block_tbl2 kuznyechik_compact_decrypt_block_tbl3 kuznyechik_compact_decrypt_block_tbl4 kuznyechik_compact_decrypt_block_tbl5 kuznyechik_compact_decrypt_block_tbl6 gfD]
  decide +kernel
theorem Rdec4_b3 : Rdec4 0x08#8 = 0x1abde0d088546c10894fc0202574780#128 := by
  rw [Rdec4, setb_unit4, ← l_bwd_eq_Linv, ← lbwdB_pack kuznyechik_compact_decrypt_block_tbl0 kuznyechik_compact_decrypt_block_tbl1 kuznyechik_compact_decrypt_block_tbl2 kuznyechik_compact_decrypt_block_tbl3 kuznyechik_compact_decrypt_block_tbl4 kuznyechik_compact_decrypt_block_tbl5 kuznyechik_compact_decrypt_block_tbl6 gfD]
  decide +kernel
theorem Rdec4_b4 : Rdec4 0x10#8 = 0x2957f1a10c98c4110eb3b0404ae8ec3#128 := by
  rw [Rdec4, setb_unit4, ← l_bwd_eq_Linv, ← lbwdB_pack kuznyechik_compact_decrypt_block_tbl0 kuznyechik_compact_decrypt_block_tbl1 kuznyechik_compact_decrypt_block_tbl2 kuznyechik_compact_decrypt_block_tbl3 kuznyechik_compact_decrypt_block_tbl4 kuznyechik_compact_decrypt_block_tbl5 kuznyechik_compact_decrypt_block_tbl6 gfD]
  decide +kernel
theorem Rdec4_b5 : Rdec4 0x20#8 = 0x4e9fe342051db8220157608089fdf45#128 := by
  rw [Rdec4, setb_unit4, ← l_bwd_eq_Linv, ← lbwdB_pack kuznyechik_compact_decrypt_block_tbl0 kuznyechik_compact_decrypt_block_tbl1 kuznyechik_compact_decrypt_block_tbl2 kuznyechik_compact_decrypt_block_tbl3 kuznyechik_compact_decrypt_block_tbl4 kuznyechik_compact_decrypt_block_tbl5 kuznyechik_compact_decrypt_block_tbl6 gfD]
  decide +kernel
theorem Rdec4_b6 : Rdec4 0x40#8 = 0x8113f6840a275c7402aec1010fd7d8a#128 := by
  rw [Rdec4, setb_unit4, ← l_bwd_eq_Linv, ← lbwdB_pack kuznyechik_compact_decrypt_block_tbl0 kuznyechik_compact_decrypt_block_tbl1 kuznyechik_compact_decrypt_block_tbl2 kuznyechik_compact_decrypt_block_tbl3 kuznyechik_compact_decrypt_block_tbl4 kuznyechik_compact_decrypt_block_tbl5 kuznyechik_compact_decrypt_block_tbl6 gfD]
  decide +kernel
theorem Rdec4_b7 : Rdec4 0x80#8 = 0x10227ed08087ea4d80541b202039fad7#128 := by
  rw [Rdec4, setb_unit4, ← l_bwd_eq_Linv, ← lbwdB_pack kuznyechik_compact_decrypt_block_tbl0 kuznyechik_compact_decrypt_block_tbl1 kuznyechik_compact_decrypt_block_tbl2 kuznyechik_compact_decrypt_block_tbl3 kuznyechik_compact_decrypt_block_tbl4 kuznyechik_compact_decrypt_block_tbl5 kuznyechik_compact_decrypt_block_tbl6 gfD]
  decide +kernel
theorem Rdec4_comb (v : BitVec 8) : Rdec4 v = comb 0xa92d6b49015878b101f3fe9191d3d110#128 0x915ad69202b0f0a102253fe1e1656120#128 0xe1b46fe704a32381044a7e0101cac240#128 0x1abde0d088546c10894fc0202574780#128 0x2957f1a10c98c4110eb3b0404ae8ec3#128 0x4e9fe342051db8220157608089fdf45#128 0x8113f6840a275c7402aec1010fd7d8a#128 0x10227ed08087ea4d80541b202039fad7#128 v := by
  have h := congrArg Rdec4 (bits8 v)
  rw [← h]
  simp only [Rdec4_xor, Rdec4_ite, Rdec4_b0, Rdec4_b1, Rdec4_b2, Rdec4_b3, Rdec4_b4, Rdec4_b5, Rdec4_b6, Rdec4_b7, comb]
theorem decC_4 : ∀ n : Fin 256, BC.Gen.tblAt kuznyechik_soft_decrypt_block_tbl4 n.val 128 = comb 0xa92d6b49015878b101f3fe9191d3d110#128 0x915ad69202b0f0a102253fe1e1656120#128 0xe1b46fe704a32381044a7e0101cac240#128 0x1abde0d088546c10894fc0202574780#128 0x2957f1a10c98c4110eb3b0404ae8ec3#128 0x4e9fe342051db8220157608089fdf45#128 0x8113f6840a275c7402aec1010fd7d8a#128 0x10227ed08087ea4d80541b202039fad7#128 (BC.Gen.tblAt kuznyechik_compact_decrypt_block_tbl7 n.val 8) := by decide +kernel
theorem decT_4 (x : BitVec 8) : BC.Gen.tblAt kuznyechik_soft_decrypt_block_tbl4 (x.setWidth 64).toNat 128 = row DEC_TABLE.get ⟨4, by decide⟩ x := by
  rw [DEC_TABLE_row]
  show _ = Rdec4 _
  rw [Rdec4_comb]
  refine fin_at _ (fun y => comb 0xa92d6b49015878b101f3fe9191d3d110#128 0x915ad69202b0f0a102253fe1e1656120#128 0xe1b46fe704a32381044a7e0101cac240#128 0x1abde0d088546c10894fc0202574780#128 0x2957f1a10c98c4110eb3b0404ae8ec3#128 0x4e9fe342051db8220157608089fdf45#128 0x8113f6840a275c7402aec1010fd7d8a#128 0x10227ed08087ea4d80541b202039fad7#128 (lut P_INV y)) (fun n => ?_) x
  rw [decC_4 n, pinv_fin n]

/-! #### dec, byte position 5 -/
def Rdec5 (v : BitVec 8) : BitVec 128 := rev128 (Linv (setb 0#128 5 v))
theorem Rdec5_xor (a b : BitVec 8) : Rdec5 (a ^^^ b) = Rdec5 a ^^^ Rdec5 b := by
  simp only [Rdec5, setb_xor5, Linv_xor, rev128_xor]
theorem Rdec5_zero : Rdec5 0#8 = 0#128 := by
  have h := Rdec5_xor 0#8 0#8
  simp only [BitVec.xor_self] at h
  exact h
theorem Rdec5_ite (c : Bool) (a : BitVec 8) : Rdec5 (if c then a else 0#8) = if c then Rdec5 a else 0#128 := by
  cases c <;> simp [Rdec5_zero]
theorem Rdec5_b0 : Rdec5 0x01#8 = 0xf6b830f6c49099372a0febec64318dc2#128 := by
  rw [Rdec5, setb_unit5, ← l_bwd_eq_Linv, ← lbwdB_pack kuznyechik_compact_decrypt_block_tbl0 kuznyechik_compact_decrypt_block_tbl1 kuznyechik_compact_decrypt_block_tbl2 kuznyechik_compact_decrypt_block_tbl3 kuznyechik_compact_decrypt_block_tbl4 kuznyechik_compact_decrypt_block_tbl5 kuznyechik_compact_decrypt_block_tbl6 gfD]
  decide +kernel
theorem Rdec5_b1 : Rdec5 0x02#8 = 0x2fb3602f4be3f16e541e151bc862d947#128 := by
  rw [Rdec5, setb_unit5, ← l_bwd_eq_Linv, ← lbwdB_pack kuznyechik_compact_decrypt_block_tbl0 kuznyechik_compact_decrypt_block_tbl1 kuznyechik_compact_decrypt_block_tbl2 kuznyechik_compact_decrypt_block_tbl3 kuznyechik_compact_decrypt_block_tbl4 kuznyechik_compact_decrypt_block_tbl5 kuznyechik_compact_decrypt_block_tbl6 gfD]
  decide +kernel
theorem Rdec5_b2 : Rdec5 0x04#8 = 0x5ea5c05e960521dca83c2a3653c4718e#128 := by
  rw [Rdec5, setb_unit5, ← l_bwd_eq_Linv, ← lbwdB_pack kuznyechik_compact_decrypt_block_tbl0 kuznyechik_compact_decrypt_block_tbl1 kuznyechik_compact_decrypt_block_tbl2 kuznyechik_compact_decrypt_block_tbl3 kuznyechik_compact_decrypt_block_tbl4 kuznyechik_compact_decrypt_block_tbl5 kuznyechik_compact_decrypt_block_tbl6 gfD]
  decide +kernel
theorem Rdec5_b3 : Rdec5 0x08#8 = 0xbc8943bcef0a427b9378546ca64be2df#128 := by
  rw [Rdec5, setb_unit5, ← l_bwd_eq_Linv, ← lbwdB_pack kuznyechik_compact_decrypt_block_tbl0 kuznyechik_compact_decrypt_block_tbl1 kuznyechik_compact_decrypt_block_tbl2 kuznyechik_compact_decrypt_block_tbl3 kuznyechik_compact_decrypt_block_tbl4 kuznyechik_compact_decrypt_block_tbl5 kuznyechik_compact_decrypt_block_tbl6 gfD]
  decide +kernel
theorem Rdec5_b4 : Rdec5 0x10#8 = 0xbbd186bb1d1484f6e5f0a8d88f96077d#128 := by
  rw [Rdec5, setb_unit5, ← l_bwd_eq_Linv, ← lbwdB_pack kuznyechik_compact_decrypt_block_tbl0 kuznyechik_compact_decrypt_block_tbl1 kuznyechik_compact_decrypt_block_tbl2 kuznyechik_compact_decrypt_block_tbl3 kuznyechik_compact_decrypt_block_tbl4 kuznyechik_compact_decrypt_block_tbl5 kuznyechik_compact_decrypt_block_tbl6 gfD]
  decide +kernel
theorem Rdec5_b5 : Rdec5 0x20#8 = 0xb561cfb53a28cb2f09239373ddef0efa#128 := by
  rw [Rdec5, setb_unit5, ← l_bwd_eq_Linv, ← lbwdB_pack kuznyechik_compact_decrypt_block_tbl0 kuznyechik_compact_decrypt_block_tbl1 kuznyechik_compact_decrypt_block_tbl2 kuznyechik_compact_decrypt_block_tbl3 kuznyechik_compact_decrypt_block_tbl4 kuznyechik_compact_decrypt_block_tbl5 kuznyechik_compact_decrypt_block_tbl6 gfD]
  decide +kernel
theorem Rdec5_b6 : Rdec5 0x40#8 = 0xa9c25da97450555e1246e5e6791d1c37#128 := by
  rw [Rdec5, setb_unit5, ← l_bwd_eq_Linv, ← lbwdB_pack kuznyechik_compact_decrypt_block_tbl0 kuznyechik_compact_decrypt_block_tbl1 kuznyechik_compact_decrypt_block_tbl2 kuznyechik_compact_decrypt_block_tbl3 kuznyechik_compact_decrypt_block_tbl4 kuznyechik_compact_decrypt_block_tbl5 kuznyechik_compact_decrypt_block_tbl6 gfD]
  decide +kernel
theorem Rdec5_b7 : Rdec5 0x80#8 = 0x9147ba91e8a0aabc248c090ff23a386e#128 := by
  rw [Rdec5, setb_unit5, ← l_bwd_eq_Linv, ← lbwdB_pack kuznyechik_compact_decrypt_block_tbl0 kuznyechik_compact_decrypt_block_tbl1 kuznyechik_compact_decrypt_block_tbl2 kuznyechik_compact_decrypt_block_tbl3 kuznyechik_compact_decrypt_block_tbl4 kuznyechik_compact_decrypt_block_tbl5 kuznyechik_compact_decrypt_block_tbl6 gfD]
  decide +kernel
theorem Rdec5_comb (v : BitVec 8) : Rdec5 v = comb 0xf6b830f6c49099372a0febec64318dc2#128 0x2fb3602f4be3f16e541e151bc862d947#128 0x5ea5c05e960521dca83c2a3653c4718e#128 0xbc8943bcef0a427b9378546ca64be2df#128 0xbbd186bb1d1484f6e5f0a8d88f96077d#128 0xb561cfb53a28cb2f09239373ddef0efa#128 0xa9c25da97450555e1246e5e6791d1c37#128 0x9147ba91e8a0aabc248c090ff23a386e#128 v := by
  have h := congrArg Rdec5 (bits8 v)
  rw [← h]
  simp only [Rdec5_xor, Rdec5_ite, Rdec5_b0, Rdec5_b1, Rdec5_b2, Rdec5_b3, Rdec5_b4, Rdec5_b5, Rdec5_b6, Rdec5_b7, comb]
theorem decC_5 : ∀ n : Fin 256, BC.Gen.tblAt kuznyechik_soft_decrypt_block_tbl5 n.val 128 = comb 0xf6b830f6c49099372a0febec64318dc2#128 0x2fb3602f4be3f16e541e151bc862d947#128 0x5ea5c05e960521dca83c2a3653c4718e#128 0xbc8943bcef0a427b9378546ca64be2df#128 0xbbd186bb1d1484f6e5f0a8d88f96077d#128 0xb561cfb53a28cb2f09239373ddef0efa#128 0xa9c25da97450555e1246e5e6791d1c37#128 0x9147ba91e8a0aabc248c090ff23a386e#128 (BC.Gen.tblAt kuznyechik_compact_decrypt_block_tbl7 n.val 8) := by decide +kernel
theorem decT_5 (x : BitVec 8) : BC.Gen.tblAt kuznyechik_soft_decrypt_block_tbl5 (x.setWidth 64).toNat 128 = row DEC_TABLE.get ⟨5, by decide⟩ x := by
  rw [DEC_TABLE_row]
  show _ = Rdec5 _
  rw [Rdec5_comb]
  refine fin_at _ (fun y => comb 0xf6b830f6c49099372a0febec64318dc2#128 0x2fb3602f4be3f16e541e151bc862d947#128 0x5ea5c05e960521dca83c2a3653c4718e#128 0xbc8943bcef0a427b9378546ca64be2df#128 0xbbd186bb1d1484f6e5f0a8d88f96077d#128 0xb561cfb53a28cb2f09239373ddef0efa#128 0xa9c25da97450555e1246e5e6791d1c37#128 0x9147ba91e8a0aabc248c090ff23a386e#128 (lut P_INV y)) (fun n => ?_) x
  rw [decC_5 n, pinv_fin n]

/-! #### dec, byte position 6 -/
def Rdec6 (v : BitVec 8) : BitVec 128 := rev128 (Linv (setb 0#128 6 v))
theorem Rdec6_xor (a b : BitVec 8) : Rdec6 (a ^^^ b) = Rdec6 a ^^^ Rdec6 b := by
  simp only [Rdec6, setb_xor6, Linv_xor, rev128_xor]
theorem Rdec6_zero : Rdec6 0#8 = 0#128 := by
  have h := Rdec6_xor 0#8 0#8
  simp only [BitVec.xor_self] at h
  exact h
theorem Rdec6_ite (c : Bool) (a : BitVec 8) : Rdec6 (if c then a else 0#8) = if c then Rdec6 a else 0#128 := by
  cases c <;> simp [Rdec6_zero]
theorem Rdec6_b0 : Rdec6 0x01#8 = 0xbf6463d7d4e1ebaf6c542f39ffa6b4c0#128 := by
  rw [Rdec6, setb_unit6, ← l_bwd_eq_Linv, ← lbwdB_pack kuznyechik_compact_decrypt_block_tbl0 kuznyechik_compact_decrypt_block_tbl1 kuznyechik_compact_decrypt_block_tbl2 kuznyechik_compact_decrypt_block_tbl3 kuznyechik_compact_decrypt_block_tbl4 kuznyechik_compact_decrypt_block_tbl5 kuznyechik_compact_decrypt_block_tbl6 gfD]
  decide +kernel
theorem Rdec6_b1 : Rdec6 0x02#8 = 0xbdc8c66d6b01159dd8a85e723d8fab43#128 := by
  rw [Rdec6, setb_unit6, ← l_bwd_eq_Linv, ← lbwdB_pack kuznyechik_compact_decrypt_block_tbl0 kuznyechik_compact_decrypt_block_tbl1 kuznyechik_compact_decrypt_block_tbl2 kuznyechik_compact_decrypt_block_tbl3 kuznyechik_compact_decrypt_block_tbl4 kuznyechik_compact_decrypt_block_tbl5 kuznyechik_compact_decrypt_block_tbl6 gfD]
  decide +kernel
theorem Rdec6_b2 : Rdec6 0x04#8 = 0xb9534fdad6022af97393bce47add9586#128 := by
  rw [Rdec6, setb_unit6, ← l_bwd_eq_Linv, ← lbwdB_pack kuznyechik_compact_decrypt_block_tbl0 kuznyechik_compact_decrypt_block_tbl1 kuznyechik_compact_decrypt_block_tbl2 kuznyechik_compact_decrypt_block_tbl3 kuznyechik_compact_decrypt_block_tbl4 kuznyechik_compact_decrypt_block_tbl5 kuznyechik_compact_decrypt_block_tbl6 gfD]
  decide +kernel
theorem Rdec6_b3 : Rdec6 0x08#8 = 0xb1a69e776f045431e6e5bb0bf479e9cf#128 := by
  rw [Rdec6, setb_unit6, ← l_bwd_eq_Linv, ← lbwdB_pack kuznyechik_compact_decrypt_block_tbl0 kuznyechik_compact_decrypt_block_tbl1 kuznyechik_compact_decrypt_block_tbl2 kuznyechik_compact_decrypt_block_tbl3 kuznyechik_compact_decrypt_block_tbl4 kuznyechik_compact_decrypt_block_tbl5 kuznyechik_compact_decrypt_block_tbl6 gfD]
  decide +kernel
theorem Rdec6_b4 : Rdec6 0x10#8 = 0xa18fffeede08a8620f09b5162bf2115d#128 := by
  rw [Rdec6, setb_unit6, ← l_bwd_eq_Linv, ← lbwdB_pack kuznyechik_compact_decrypt_block_tbl0 kuznyechik_compact_decrypt_block_tbl1 kuznyechik_compact_decrypt_block_tbl2 kuznyechik_compact_decrypt_block_tbl3 kuznyechik_compact_decrypt_block_tbl4 kuznyechik_compact_decrypt_block_tbl5 kuznyechik_compact_decrypt_block_tbl6 gfD]
  decide +kernel
theorem Rdec6_b5 : Rdec6 0x20#8 = 0x81dd3d1f7f1093c41e12a92c562722ba#128 := by
  rw [Rdec6, setb_unit6, ← l_bwd_eq_Linv, ← lbwdB_pack kuznyechik_compact_decrypt_block_tbl0 kuznyechik_compact_decrypt_block_tbl1 kuznyechik_compact_decrypt_block_tbl2 kuznyechik_compact_decrypt_block_tbl3 kuznyechik_compact_decrypt_block_tbl4 kuznyechik_compact_decrypt_block_tbl5 kuznyechik_compact_decrypt_block_tbl6 gfD]
  decide +kernel
theorem Rdec6_b6 : Rdec6 0x40#8 = 0xc1797a3efe20e54b3c249158ac4e44b7#128 := by
  rw [Rdec6, setb_unit6, ← l_bwd_eq_Linv, ← lbwdB_pack kuznyechik_compact_decrypt_block_tbl0 kuznyechik_compact_decrypt_block_tbl1 kuznyechik_compact_decrypt_block_tbl2 kuznyechik_compact_decrypt_block_tbl3 kuznyechik_compact_decrypt_block_tbl4 kuznyechik_compact_decrypt_block_tbl5 kuznyechik_compact_decrypt_block_tbl6 gfD]
  decide +kernel
theorem Rdec6_b7 : Rdec6 0x80#8 = 0x41f2f47c3f4009967848e1b09b9c88ad#128 := by
  rw [Rdec6, setb_unit6, ← l_bwd_eq_Linv, ← lbwdB_pack kuznyechik_compact_decrypt_block_tbl0 kuznyechik_compact_decrypt_block_tbl1 kuznyechik_compact_decrypt_block_tbl2 kuznyechik_compact_decrypt_block_tbl3 kuznyechik_compact_decrypt_block_tbl4 kuznyechik_compact_decrypt_block_tbl5 kuznyechik_compact_decrypt_block_tbl6 gfD]
  decide +kernel
theorem Rdec6_comb (v : BitVec 8) : Rdec6 v = comb 0xbf6463d7d4e1ebaf6c542f39ffa6b4c0#128 0xbdc8c66d6b01159dd8a85e723d8fab43#128 0xb9534fdad6022af97393bce47add9586#128 0xb1a69e776f045431e6e5bb0bf479e9cf#128 0xa18fffeede08a8620f09b5162bf2115d#128 0x81dd3d1f7f1093c41e12a92c562722ba#128 0xc1797a3efe20e54b3c249158ac4e44b7#128 0x41f2f47c3f4009967848e1b09b9c88ad#128 v := by
  have h := congrArg Rdec6 (bits8 v)
  rw [← h]
  simp only [Rdec6_xor, Rdec6_ite, Rdec6_b0, Rdec6_b1, Rdec6_b2, Rdec6_b3, Rdec6_b4, Rdec6_b5, Rdec6_b6, Rdec6_b7, comb]
theorem decC_6 : ∀ n : Fin 256, BC.Gen.tblAt kuznyechik_soft_decrypt_block_tbl6 n.val 128 = comb 0xbf6463d7d4e1ebaf6c542f39ffa6b4c0#128 0xbdc8c66d6b01159dd8a85e723d8fab43#128 0xb9534fdad6022af97393bce47add9586#128 0xb1a69e776f045431e6e5bb0bf479e9cf#128 0xa18fffeede08a8620f09b5162bf2115d#128 0x81dd3d1f7f1093c41e12a92c562722ba#128 0xc1797a3efe20e54b3c249158ac4e44b7#128 0x41f2f47c3f4009967848e1b09b9c88ad#128 (BC.Gen.tblAt kuznyechik_compact_decrypt_block_tbl7 n.val 8) := by decide +kernel
theorem decT_6 (x : BitVec 8) : BC.Gen.tblAt kuznyechik_soft_decrypt_block_tbl6 (x.setWidth 64).toNat 128 = row DEC_TABLE.get ⟨6, by decide⟩ x := by
  rw [DEC_TABLE_row]
  show _ = Rdec6 _
  rw [Rdec6_comb]
  refine fin_at _ (fun y => comb 0xbf6463d7d4e1ebaf6c542f39ffa6b4c0#128 0xbdc8c66d6b01159dd8a85e723d8fab43#128 0xb9534fdad6022af97393bce47add9586#128 0xb1a69e776f045431e6e5bb0bf479e9cf#128 0xa18fffeede08a8620f09b5162bf2115d#128 0x81dd3d1f7f1093c41e12a92c562722ba#128 0xc1797a3efe20e54b3c249158ac4e44b7#128 0x41f2f47c3f4009967848e1b09b9c88ad#128 (lut P_INV y)) (fun n => ?_) x
  rw [decC_6 n, pinv_fin n]

/-! #### dec, byte position 7 -/
def Rdec7 (v : BitVec 8) : BitVec 128 := rev128 (Linv (setb 0#128 7 v))
theorem Rdec7_xor (a b : BitVec 8) : Rdec7 (a ^^^ b) = Rdec7 a ^^^ Rdec7 b := by
  simp only [Rdec7, setb_xor7, Linv_xor, rev128_xor]
theorem Rdec7_zero : Rdec7 0#8 = 0#128 := by
  have h := Rdec7_xor 0#8 0#8
  simp only [BitVec.xor_self] at h
  exact h
theorem Rdec7_ite (c : Bool) (a : BitVec 8) : Rdec7 (if c then a else 0#8) = if c then Rdec7 a else 0#128 := by
  cases c <;> simp [Rdec7_zero]
theorem Rdec7_b0 : Rdec7 0x01#8 = 0xac1a1a68da3d5d4090884ef7b305401#128 := by
  rw [Rdec7, setb_unit7, ← l_bwd_eq_Linv, ← lbwdB_pack kuznyechik_compact_decrypt_block_tbl0 kuznyechik_compact_decrypt_block_tbl1 kuznyechik_compact_decrypt_block_tbl2 kuznyechik_compact_decrypt_block_tbl3 kuznyechik_compact_decrypt_block_tbl4 kuznyechik_compact_decrypt_block_tbl5 kuznyechik_compact_decrypt_block_tbl6 gfD]
  decide +kernel
theorem Rdec7_b1 : Rdec7 0x02#8 = 0x1441818fd985696b1210cb1df660a802#128 := by
  rw [Rdec7, setb_unit7, ← l_bwd_eq_Linv, ← lbwdB_pack kuznyechik_compact_decrypt_block_tbl0 kuznyechik_compact_decrypt_block_tbl1 kuznyechik_compact_decrypt_block_tbl2 kuznyechik_compact_decrypt_block_tbl3 kuznyechik_compact_decrypt_block_tbl4 kuznyechik_compact_decrypt_block_tbl5 kuznyechik_compact_decrypt_block_tbl6 gfD]
  decide +kernel
theorem Rdec7_b2 : Rdec7 0x04#8 = 0x2882c1dd71c9d2d62420553a2fc09304#128 := by
  rw [Rdec7, setb_unit7, ← l_bwd_eq_Linv, ← lbwdB_pack kuznyechik_compact_decrypt_block_tbl0 kuznyechik_compact_decrypt_block_tbl1 kuznyechik_compact_decrypt_block_tbl2 kuznyechik_compact_decrypt_block_tbl3 kuznyechik_compact_decrypt_block_tbl4 kuznyechik_compact_decrypt_block_tbl5 kuznyechik_compact_decrypt_block_tbl6 gfD]
  decide +kernel
theorem Rdec7_b3 : Rdec7 0x08#8 = 0x50c74179e251676f4840aa745e43e508#128 := by
  rw [Rdec7, setb_unit7, ← l_bwd_eq_Linv, ← lbwdB_pack kuznyechik_compact_decrypt_block_tbl0 kuznyechik_compact_decrypt_block_tbl1 kuznyechik_compact_decrypt_block_tbl2 kuznyechik_compact_decrypt_block_tbl3 kuznyechik_compact_decrypt_block_tbl4 kuznyechik_compact_decrypt_block_tbl5 kuznyechik_compact_decrypt_block_tbl6 gfD]
  decide +kernel
theorem Rdec7_b4 : Rdec7 0x10#8 = 0xa04d82f207a2cede908097e8bc860910#128 := by
  rw [Rdec7, setb_unit7, ← l_bwd_eq_Linv, ← lbwdB_pack kuznyechik_compact_decrypt_block_tbl0 kuznyechik_compact_decrypt_block_tbl1 kuznyechik_compact_decrypt_block_tbl2 kuznyechik_compact_decrypt_block_tbl3 kuznyechik_compact_decrypt_block_tbl4 kuznyechik_compact_decrypt_block_tbl5 kuznyechik_compact_decrypt_block_tbl6 gfD]
  decide +kernel
theorem Rdec7_b5 : Rdec7 0x20#8 = 0x839ac7270e875f7fe3c3ed13bbcf1220#128 := by
  rw [Rdec7, setb_unit7, ← l_bwd_eq_Linv, ← lbwdB_pack kuznyechik_compact_decrypt_block_tbl0 kuznyechik_compact_decrypt_block_tbl1 kuznyechik_compact_decrypt_block_tbl2 kuznyechik_compact_decrypt_block_tbl3 kuznyechik_compact_decrypt_block_tbl4 kuznyechik_compact_decrypt_block_tbl5 kuznyechik_compact_decrypt_block_tbl6 gfD]
  decide +kernel
theorem Rdec7_b6 : Rdec7 0x40#8 = 0xc5f74d4e1ccdbefe05451926b55d2440#128 := by
  rw [Rdec7, setb_unit7, ← l_bwd_eq_Linv, ← lbwdB_pack kuznyechik_compact_decrypt_block_tbl0 kuznyechik_compact_decrypt_block_tbl1 kuznyechik_compact_decrypt_block_tbl2 kuznyechik_compact_decrypt_block_tbl3 kuznyechik_compact_decrypt_block_tbl4 kuznyechik_compact_decrypt_block_tbl5 kuznyechik_compact_decrypt_block_tbl6 gfD]
  decide +kernel
theorem Rdec7_b7 : Rdec7 0x80#8 = 0x492d9a9c3859bf3f0a8a324ca9ba4880#128 := by
  rw [Rdec7, setb_unit7, ← l_bwd_eq_Linv, ← lbwdB_pack kuznyechik_compact_decrypt_block_tbl0 kuznyechik_compact_decrypt_block_tbl1 kuznyechik_compact_decrypt_block_tbl2 kuznyechik_compact_decrypt_block_tbl3 kuznyechik_compact_decrypt_block_tbl4 kuznyechik_compact_decrypt_block_tbl5 kuznyechik_compact_decrypt_block_tbl6 gfD]
  decide +kernel
theorem Rdec7_comb (v : BitVec 8) : Rdec7 v = comb 0xac1a1a68da3d5d4090884ef7b305401#128 0x1441818fd985696b1210cb1df660a802#128 0x2882c1dd71c9d2d62420553a2fc09304#128 0x50c74179e251676f4840aa745e43e508#128 0xa04d82f207a2cede908097e8bc860910#128 0x839ac7270e875f7fe3c3ed13bbcf1220#128 0xc5f74d4e1ccdbefe05451926b55d2440#128 0x492d9a9c3859bf3f0a8a324ca9ba4880#128 v := by
  have h := congrArg Rdec7 (bits8 v)
  rw [← h]
  simp only [Rdec7_xor, Rdec7_ite, Rdec7_b0, Rdec7_b1, Rdec7_b2, Rdec7_b3, Rdec7_b4, Rdec7_b5, Rdec7_b6, Rdec7_b7, comb]
theorem decC_7 : ∀ n : Fin 256, BC.Gen.tblAt kuznyechik_soft_decrypt_block_tbl7 n.val 128 = comb 0xac1a1a68da3d5d4090884ef7b305401#128 0x1441818fd985696b1210cb1df660a802#128 0x2882c1dd71c9d2d62420553a2fc09304#128 0x50c74179e251676f4840aa745e43e508#128 0xa04d82f207a2cede908097e8bc860910#128 0x839ac7270e875f7fe3c3ed13bbcf1220#128 0xc5f74d4e1ccdbefe05451926b55d2440#128 0x492d9a9c3859bf3f0a8a324ca9ba4880#128 (BC.Gen.tblAt kuznyechik_compact_decrypt_block_tbl7 n.val 8) := by decide +kernel
theorem decT_7 (x : BitVec 8) : BC.Gen.tblAt kuznyechik_soft_decrypt_block_tbl7 (x.setWidth 64).toNat 128 = row DEC_TABLE.get ⟨7, by decide⟩ x := by
  rw [DEC_TABLE_row]
  show _ = Rdec7 _
  rw [Rdec7_comb]
  refine fin_at _ (fun y => comb 0xac1a1a68da3d5d4090884ef7b305401#128 0x1441818fd985696b1210cb1df660a802#128 0x2882c1dd71c9d2d62420553a2fc09304#128 0x50c74179e251676f4840aa745e43e508#128 0xa04d82f207a2cede908097e8bc860910#128 0x839ac7270e875f7fe3c3ed13bbcf1220#128 0xc5f74d4e1ccdbefe05451926b55d2440#128 0x492d9a9c3859bf3f0a8a324ca9ba4880#128 (lut P_INV y)) (fun n => ?_) x
  rw [decC_7 n, pinv_fin n]

end BC.GenCipher.Kuznyechik
