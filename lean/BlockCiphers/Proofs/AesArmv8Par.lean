import BlockCiphers.Proofs.AesArmv8Round
/-
`encrypt_par` / `decrypt_par` of armv8/encdec.rs (`par_round` called once per key by hand, `if KEYS >= 13`,
`if KEYS == 15`, every lane treated alike) equal the single-block function applied to every lane, for the three array
sizes the crate instantiates (KEYS = 11, 13, 15) and ANY number of lanes (the crate uses ParBlocks = 21, 19, 17).
-/
set_option linter.unusedSimpArgs false
namespace BC.AesArmv8
open BC BC.X86 BC.Arm

theorem encrypt_par_eq11 (k0 k1 k2 k3 k4 k5 k6 k7 k8 k9 k10 : BitVec 128) (bs : List (BitVec 128)) :
    encrypt_par [k0, k1, k2, k3, k4, k5, k6, k7, k8, k9, k10] bs = bs.map (encrypt [k0, k1, k2, k3, k4, k5, k6, k7, k8, k9, k10]) := by
  simp only [encrypt_par, encrypt, enc_par_round, List.map_map, List.length_cons, List.length_nil,
    List.getD_cons_zero, List.getD_cons_succ, Nat.reduceAdd, Nat.reduceSub, Nat.reduceLeDiff, Nat.reduceEqDiff,
    ge_iff_le, ↓reduceIte, List.take_succ_cons, List.take_zero, List.foldl_cons, List.foldl_nil]
  rfl

theorem encrypt_par_eq13 (k0 k1 k2 k3 k4 k5 k6 k7 k8 k9 k10 k11 k12 : BitVec 128) (bs : List (BitVec 128)) :
    encrypt_par [k0, k1, k2, k3, k4, k5, k6, k7, k8, k9, k10, k11, k12] bs = bs.map (encrypt [k0, k1, k2, k3, k4, k5, k6, k7, k8, k9, k10, k11, k12]) := by
  simp only [encrypt_par, encrypt, enc_par_round, List.map_map, List.length_cons, List.length_nil,
    List.getD_cons_zero, List.getD_cons_succ, Nat.reduceAdd, Nat.reduceSub, Nat.reduceLeDiff, Nat.reduceEqDiff,
    ge_iff_le, ↓reduceIte, List.take_succ_cons, List.take_zero, List.foldl_cons, List.foldl_nil]
  rfl

theorem encrypt_par_eq15 (k0 k1 k2 k3 k4 k5 k6 k7 k8 k9 k10 k11 k12 k13 k14 : BitVec 128) (bs : List (BitVec 128)) :
    encrypt_par [k0, k1, k2, k3, k4, k5, k6, k7, k8, k9, k10, k11, k12, k13, k14] bs = bs.map (encrypt [k0, k1, k2, k3, k4, k5, k6, k7, k8, k9, k10, k11, k12, k13, k14]) := by
  simp only [encrypt_par, encrypt, enc_par_round, List.map_map, List.length_cons, List.length_nil,
    List.getD_cons_zero, List.getD_cons_succ, Nat.reduceAdd, Nat.reduceSub, Nat.reduceLeDiff, Nat.reduceEqDiff,
    ge_iff_le, ↓reduceIte, List.take_succ_cons, List.take_zero, List.foldl_cons, List.foldl_nil]
  rfl

/-- `encrypt_par` = lane-wise `encrypt` whenever the key array has one of the three legal sizes -/
theorem encrypt_par_eq_map (keys bs : List (BitVec 128)) (h : keys.length = 11 ∨ keys.length = 13 ∨ keys.length = 15) :
    encrypt_par keys bs = bs.map (encrypt keys) := by
  rcases h with h | h | h
  · match keys, h with
    | [k0, k1, k2, k3, k4, k5, k6, k7, k8, k9, k10], _ => exact encrypt_par_eq11 ..
  · match keys, h with
    | [k0, k1, k2, k3, k4, k5, k6, k7, k8, k9, k10, k11, k12], _ => exact encrypt_par_eq13 ..
  · match keys, h with
    | [k0, k1, k2, k3, k4, k5, k6, k7, k8, k9, k10, k11, k12, k13, k14], _ => exact encrypt_par_eq15 ..

theorem decrypt_par_eq11 (k0 k1 k2 k3 k4 k5 k6 k7 k8 k9 k10 : BitVec 128) (bs : List (BitVec 128)) :
    decrypt_par [k0, k1, k2, k3, k4, k5, k6, k7, k8, k9, k10] bs = bs.map (decrypt [k0, k1, k2, k3, k4, k5, k6, k7, k8, k9, k10]) := by
  simp only [decrypt_par, decrypt, dec_par_round, List.map_map, List.length_cons, List.length_nil,
    List.getD_cons_zero, List.getD_cons_succ, Nat.reduceAdd, Nat.reduceSub, Nat.reduceLeDiff, Nat.reduceEqDiff,
    ge_iff_le, ↓reduceIte, List.take_succ_cons, List.take_zero, List.foldl_cons, List.foldl_nil]
  rfl

theorem decrypt_par_eq13 (k0 k1 k2 k3 k4 k5 k6 k7 k8 k9 k10 k11 k12 : BitVec 128) (bs : List (BitVec 128)) :
    decrypt_par [k0, k1, k2, k3, k4, k5, k6, k7, k8, k9, k10, k11, k12] bs = bs.map (decrypt [k0, k1, k2, k3, k4, k5, k6, k7, k8, k9, k10, k11, k12]) := by
  simp only [decrypt_par, decrypt, dec_par_round, List.map_map, List.length_cons, List.length_nil,
    List.getD_cons_zero, List.getD_cons_succ, Nat.reduceAdd, Nat.reduceSub, Nat.reduceLeDiff, Nat.reduceEqDiff,
    ge_iff_le, ↓reduceIte, List.take_succ_cons, List.take_zero, List.foldl_cons, List.foldl_nil]
  rfl

theorem decrypt_par_eq15 (k0 k1 k2 k3 k4 k5 k6 k7 k8 k9 k10 k11 k12 k13 k14 : BitVec 128) (bs : List (BitVec 128)) :
    decrypt_par [k0, k1, k2, k3, k4, k5, k6, k7, k8, k9, k10, k11, k12, k13, k14] bs = bs.map (decrypt [k0, k1, k2, k3, k4, k5, k6, k7, k8, k9, k10, k11, k12, k13, k14]) := by
  simp only [decrypt_par, decrypt, dec_par_round, List.map_map, List.length_cons, List.length_nil,
    List.getD_cons_zero, List.getD_cons_succ, Nat.reduceAdd, Nat.reduceSub, Nat.reduceLeDiff, Nat.reduceEqDiff,
    ge_iff_le, ↓reduceIte, List.take_succ_cons, List.take_zero, List.foldl_cons, List.foldl_nil]
  rfl

/-- `decrypt_par` = lane-wise `decrypt` whenever the key array has one of the three legal sizes -/
theorem decrypt_par_eq_map (keys bs : List (BitVec 128)) (h : keys.length = 11 ∨ keys.length = 13 ∨ keys.length = 15) :
    decrypt_par keys bs = bs.map (decrypt keys) := by
  rcases h with h | h | h
  · match keys, h with
    | [k0, k1, k2, k3, k4, k5, k6, k7, k8, k9, k10], _ => exact decrypt_par_eq11 ..
  · match keys, h with
    | [k0, k1, k2, k3, k4, k5, k6, k7, k8, k9, k10, k11, k12], _ => exact decrypt_par_eq13 ..
  · match keys, h with
    | [k0, k1, k2, k3, k4, k5, k6, k7, k8, k9, k10, k11, k12, k13, k14], _ => exact decrypt_par_eq15 ..

/-- the arrays `expand_key` / `inv_expanded_keys` produce have the legal sizes -/
theorem expand_key_length (key : Bytes) (n : Nat) : (expand_key key n).length = n := by
  simp only [expand_key, List.length_map, List.length_range]

theorem inv_expanded_keys_length (keys : List (BitVec 128)) : (inv_expanded_keys keys).length = keys.length := by
  rw [inv_expanded_keys_eq, AesNi.inv_keys_length]

end BC.AesArmv8
