import Lean
import BlockCiphers.Gen.Cipher_Magma
import BlockCiphers.Impl.Magma
import BlockCiphers.Proofs.MagmaSpec
import Std.Tactic.BVDecide
/-
Tie of the regenerated `Gost89<S>::encrypt_block` / `decrypt_block` of the `magma` crate (`Gen/Cipher_Magma.lean`, one pair
per bundled S-box set: Tc26 (= Magma), TestSbox, CryptoProA..D) to the model `Impl/Magma.lean`, for ALL keys and blocks.

The generated text has the four expanded tables `EXP_SBOX = gen_exp_sbox(&SBOX)` as evaluated constants
(`…_tbl0..3 : Array Nat`), the 32 calls of `g` inlined and the pair `v` kept as (unnamed) xor chains.
* `TablesOf S t0 t1 t2 t3` (checked by `decide +kernel`, one list comparison per table) says that the constants are the
  model's `genExpSbox S`, through `expByte_genExpSbox` of `Proofs/MagmaSpec.lean` (entry = pair of nibble substitutions);
* `gstep` is one inlined `g`; `gstep_eq`: over such tables it is the model's `g (genExpSbox S)`;
* per function: `extract_lets`, every `g_r_i` is recognised (`rfl`) as a `gstep`, every state word as
  `previous ^^^ g …`, and the model's 32 rounds (`encryptExp_eq` / `decryptExp_eq` + the literal round orders) are rewritten
  one by one onto the generated variables.
This file is produced by `tools/gen_magma.py` from the generated text (it refers to the `let` names of
`Gen/Cipher_Magma.lean`): after a re-translation re-run the script, then check the file with `lean`.
-/
namespace BC.GenCipher.Magma
open BC.Gen.Fn BC.Magma
set_option maxRecDepth 100000

open Lean Elab Tactic Meta in
/-- make the (hygienic) names of the local `let` variables introduced by `extract_lets` accessible -/
elab "name_lets" : tactic => do
  liftMetaTactic fun g => g.withContext do
    let mut lctx ← getLCtx
    for d in lctx do
      if d.isLet then lctx := lctx.setUserName d.fvarId d.userName.eraseMacroScopes
    let g' ← mkFreshExprMVarAt lctx (← getLocalInstances) (← g.getType) .syntheticOpaque (← g.getTag)
    g.assign g'
    return [g'.mvarId!]

/-! ### tables -/

/-- look-up in a regenerated constant table whose entries are known as a list -/
theorem tbl_of_list (t : Array Nat) (G : Fin 256 → BitVec 8)
    (hL : t.toList.map (BitVec.ofNat 8) = List.ofFn G) (n : Fin 256) : BC.Gen.tblAt t n.val 8 = G n := by
  have h1 := congrArg (fun l => l[n.val]?) hL
  simp only [List.getElem?_map, List.getElem?_ofFn, n.isLt, dite_true, Array.getElem?_toList] at h1
  unfold BC.Gen.tblAt
  rw [Array.getD_eq_getD_getElem?]
  cases h : t[n.val]? with
  | none => rw [h] at h1; simp at h1
  | some v => rw [h] at h1; simpa using h1

/-- row `i` of `gen_exp_sbox(S)`, by `expByte_genExpSbox`: entry `x` = `S[2i+1][x >> 4] ‖ S[2i][x & 15]` -/
def expRow (S : SmallSbox) (i : Fin 4) : List (BitVec 8) :=
  List.ofFn (fun n : Fin 256 =>
    Spec.Magma.sub S ⟨2 * i.val + 1, by omega⟩ ((BitVec.ofFin n : BitVec 8).extractLsb' 4 4) ++
    Spec.Magma.sub S ⟨2 * i.val, by omega⟩ ((BitVec.ofFin n : BitVec 8).extractLsb' 0 4))

/-- the four constant tables of a generated function are `gen_exp_sbox(S)` -/
def TablesOf (S : SmallSbox) (t0 t1 t2 t3 : Array Nat) : Prop :=
  t0.toList.map (BitVec.ofNat 8) = expRow S 0 ∧ t1.toList.map (BitVec.ofNat 8) = expRow S 1 ∧
  t2.toList.map (BitVec.ofNat 8) = expRow S 2 ∧ t3.toList.map (BitVec.ofNat 8) = expRow S 3

instance (S : SmallSbox) (t0 t1 t2 t3 : Array Nat) : Decidable (TablesOf S t0 t1 t2 t3) := by
  unfold TablesOf; infer_instance

theorem tbl_expByte (S : SmallSbox) (t : Array Nat) (i : Fin 4) (h : t.toList.map (BitVec.ofNat 8) = expRow S i)
    (y : BitVec 8) : BC.Gen.tblAt t y.toNat 8 = expByte (genExpSbox S) i y := by
  rw [expByte_genExpSbox]
  exact tbl_of_list t _ h ⟨y.toNat, y.isLt⟩

/-! ### one inlined `g` -/

/-- one inlined call `S::g(a, key)` of the generated text, the four expanded tables as parameters -/
def gstep (t0 t1 t2 t3 : Array Nat) (a key : BitVec 32) : BitVec 32 :=
  let a_1 := a + key
  let k := ((a_1 &&& 0xff#32) >>> 0).setWidth 64
  let v := 0x0#32 + (((BC.Gen.tblAt t0 k.toNat 8).setWidth 32) <<< 0)
  let k_1 := ((a_1 &&& 0xff00#32) >>> 8).setWidth 64
  let v_1 := v + (((BC.Gen.tblAt t1 k_1.toNat 8).setWidth 32) <<< 8)
  let k_2 := ((a_1 &&& 0xff0000#32) >>> 16).setWidth 64
  let v_2 := v_1 + (((BC.Gen.tblAt t2 k_2.toNat 8).setWidth 32) <<< 16)
  let k_3 := ((a_1 &&& 0xff000000#32) >>> 24).setWidth 64
  let v_3 := v_2 + (((BC.Gen.tblAt t3 k_3.toNat 8).setWidth 32) <<< 24)
  v_3.rotateLeft 11

theorem idx0 (x : BitVec 32) : (((x &&& 0xff#32) >>> 0).setWidth 64).toNat = (x.extractLsb' 0 8).toNat := by
  have h : ((x &&& 0xff#32) >>> 0).setWidth 64 = (x.extractLsb' 0 8).setWidth 64 := by bv_decide
  rw [h, BitVec.toNat_setWidth]; have := (x.extractLsb' 0 8).isLt; omega
theorem idx1 (x : BitVec 32) : (((x &&& 0xff00#32) >>> 8).setWidth 64).toNat = (x.extractLsb' 8 8).toNat := by
  have h : ((x &&& 0xff00#32) >>> 8).setWidth 64 = (x.extractLsb' 8 8).setWidth 64 := by bv_decide
  rw [h, BitVec.toNat_setWidth]; have := (x.extractLsb' 8 8).isLt; omega
theorem idx2 (x : BitVec 32) : (((x &&& 0xff0000#32) >>> 16).setWidth 64).toNat = (x.extractLsb' 16 8).toNat := by
  have h : ((x &&& 0xff0000#32) >>> 16).setWidth 64 = (x.extractLsb' 16 8).setWidth 64 := by bv_decide
  rw [h, BitVec.toNat_setWidth]; have := (x.extractLsb' 16 8).isLt; omega
theorem idx3 (x : BitVec 32) : (((x &&& 0xff000000#32) >>> 24).setWidth 64).toNat = (x.extractLsb' 24 8).toNat := by
  have h : ((x &&& 0xff000000#32) >>> 24).setWidth 64 = (x.extractLsb' 24 8).setWidth 64 := by bv_decide
  rw [h, BitVec.toNat_setWidth]; have := (x.extractLsb' 24 8).isLt; omega

/-- the inlined `g` over tables that are `gen_exp_sbox(S)` is the model's `g` -/
theorem gstep_eq {S : SmallSbox} {t0 t1 t2 t3 : Array Nat} (h : TablesOf S t0 t1 t2 t3) (a key : BitVec 32) :
    gstep t0 t1 t2 t3 a key = g (genExpSbox S) a key := by
  have h0 := tbl_expByte S t0 0 h.1 ((a + key).extractLsb' 0 8)
  have h1 := tbl_expByte S t1 1 h.2.1 ((a + key).extractLsb' 8 8)
  have h2 := tbl_expByte S t2 2 h.2.2.1 ((a + key).extractLsb' 16 8)
  have h3 := tbl_expByte S t3 3 h.2.2.2 ((a + key).extractLsb' 24 8)
  simp only [gstep, g, applySbox_eq_bytes, idx0, idx1, idx2, idx3, h0, h1, h2, h3]
  generalize expByte (genExpSbox S) 0 _ = e0
  generalize expByte (genExpSbox S) 1 _ = e1
  generalize expByte (genExpSbox S) 2 _ = e2
  generalize expByte (genExpSbox S) 3 _ = e3
  bv_decide

/-! ### block bytes, key, rounds -/

/-- `to_u32(&block[0..4])` / `to_u32(&block[4..8])` in the translator's block convention -/
def hi4 (b : BitVec 64) : BitVec 32 :=
  (b.extractLsb' 56 8) ++ (b.extractLsb' 48 8) ++ (b.extractLsb' 40 8) ++ (b.extractLsb' 32 8)
def lo4 (b : BitVec 64) : BitVec 32 :=
  (b.extractLsb' 24 8) ++ (b.extractLsb' 16 8) ++ (b.extractLsb' 8 8) ++ (b.extractLsb' 0 8)

theorem load_bytes (b : BitVec 64) : load b = { v0 := hi4 b, v1 := lo4 b } := by
  simp only [load, hi4, lo4, V.mk.injEq]
  constructor <;> bv_decide

/-- the two `copy_from_slice(&… .to_be_bytes())` -/
theorem out_bytes (x y : BitVec 32) :
    (x.extractLsb' 24 8) ++ (x.extractLsb' 16 8) ++ (x.extractLsb' 8 8) ++ (x.extractLsb' 0 8) ++
      (y.extractLsb' 24 8) ++ (y.extractLsb' 16 8) ++ (y.extractLsb' 8 8) ++ (y.extractLsb' 0 8) = x ++ y := by
  bv_decide

/-- the cipher instance with the eight key words `self.key[0..8]` -/
def mk (k0 k1 k2 k3 k4 k5 k6 k7 : BitVec 32) : Gost89 := { key := #v[k0, k1, k2, k3, k4, k5, k6, k7] }

section
variable (exp : ExpSbox) (k0 k1 k2 k3 k4 k5 k6 k7 x y : BitVec 32)
theorem round0 : round exp (mk k0 k1 k2 k3 k4 k5 k6 k7) 0 ⟨x, y⟩ = ⟨y, x ^^^ g exp y k0⟩ := rfl
theorem round1 : round exp (mk k0 k1 k2 k3 k4 k5 k6 k7) 1 ⟨x, y⟩ = ⟨y, x ^^^ g exp y k1⟩ := rfl
theorem round2 : round exp (mk k0 k1 k2 k3 k4 k5 k6 k7) 2 ⟨x, y⟩ = ⟨y, x ^^^ g exp y k2⟩ := rfl
theorem round3 : round exp (mk k0 k1 k2 k3 k4 k5 k6 k7) 3 ⟨x, y⟩ = ⟨y, x ^^^ g exp y k3⟩ := rfl
theorem round4 : round exp (mk k0 k1 k2 k3 k4 k5 k6 k7) 4 ⟨x, y⟩ = ⟨y, x ^^^ g exp y k4⟩ := rfl
theorem round5 : round exp (mk k0 k1 k2 k3 k4 k5 k6 k7) 5 ⟨x, y⟩ = ⟨y, x ^^^ g exp y k5⟩ := rfl
theorem round6 : round exp (mk k0 k1 k2 k3 k4 k5 k6 k7) 6 ⟨x, y⟩ = ⟨y, x ^^^ g exp y k6⟩ := rfl
theorem round7 : round exp (mk k0 k1 k2 k3 k4 k5 k6 k7) 7 ⟨x, y⟩ = ⟨y, x ^^^ g exp y k7⟩ := rfl
end

theorem finRange8 : List.finRange 8 = [0, 1, 2, 3, 4, 5, 6, 7] := by decide

theorem encrypt_unfold (S : SmallSbox) (c : Gost89) (b : BitVec 64) : encrypt S c b =
    store (round (genExpSbox S) c 0 (round (genExpSbox S) c 1 (round (genExpSbox S) c 2 (round (genExpSbox S) c 3
      (round (genExpSbox S) c 4 (round (genExpSbox S) c 5 (round (genExpSbox S) c 6 (round (genExpSbox S) c 7
      (round (genExpSbox S) c 7 (round (genExpSbox S) c 6 (round (genExpSbox S) c 5 (round (genExpSbox S) c 4
      (round (genExpSbox S) c 3 (round (genExpSbox S) c 2 (round (genExpSbox S) c 1 (round (genExpSbox S) c 0
      (round (genExpSbox S) c 7 (round (genExpSbox S) c 6 (round (genExpSbox S) c 5 (round (genExpSbox S) c 4
      (round (genExpSbox S) c 3 (round (genExpSbox S) c 2 (round (genExpSbox S) c 1 (round (genExpSbox S) c 0
      (round (genExpSbox S) c 7 (round (genExpSbox S) c 6 (round (genExpSbox S) c 5 (round (genExpSbox S) c 4
      (round (genExpSbox S) c 3 (round (genExpSbox S) c 2 (round (genExpSbox S) c 1 (round (genExpSbox S) c 0
      (load b))))))))))))))))))))))))))))))))) := by
  simp only [encrypt, encryptExp_eq, encOrder, finRange8, List.reverse_cons, List.reverse_nil, List.nil_append,
    List.cons_append, List.foldl_cons, List.foldl_nil]

theorem decrypt_unfold (S : SmallSbox) (c : Gost89) (b : BitVec 64) : decrypt S c b =
    store (round (genExpSbox S) c 0 (round (genExpSbox S) c 1 (round (genExpSbox S) c 2 (round (genExpSbox S) c 3
      (round (genExpSbox S) c 4 (round (genExpSbox S) c 5 (round (genExpSbox S) c 6 (round (genExpSbox S) c 7
      (round (genExpSbox S) c 0 (round (genExpSbox S) c 1 (round (genExpSbox S) c 2 (round (genExpSbox S) c 3
      (round (genExpSbox S) c 4 (round (genExpSbox S) c 5 (round (genExpSbox S) c 6 (round (genExpSbox S) c 7
      (round (genExpSbox S) c 0 (round (genExpSbox S) c 1 (round (genExpSbox S) c 2 (round (genExpSbox S) c 3
      (round (genExpSbox S) c 4 (round (genExpSbox S) c 5 (round (genExpSbox S) c 6 (round (genExpSbox S) c 7
      (round (genExpSbox S) c 7 (round (genExpSbox S) c 6 (round (genExpSbox S) c 5 (round (genExpSbox S) c 4
      (round (genExpSbox S) c 3 (round (genExpSbox S) c 2 (round (genExpSbox S) c 1 (round (genExpSbox S) c 0
      (load b))))))))))))))))))))))))))))))))) := by
  simp only [decrypt, decryptExp_eq, decOrder, finRange8, List.reverse_cons, List.reverse_nil, List.nil_append,
    List.cons_append, List.foldl_cons, List.foldl_nil]

theorem gost89_tc26_encrypt_block_tables : TablesOf Tc26 gost89_tc26_encrypt_block_tbl0 gost89_tc26_encrypt_block_tbl1 gost89_tc26_encrypt_block_tbl2 gost89_tc26_encrypt_block_tbl3 := by decide +kernel

/-- `gost89_tc26_encrypt_block` (regenerated `Gost89<Tc26>::encrypt_block`) is the model's `encrypt Tc26`, for all keys and blocks -/
theorem gost89_tc26_encrypt_block_eq (self_key0 self_key1 self_key2 self_key3 self_key4 self_key5 self_key6 self_key7 : BitVec 32) (block : BitVec 64) :
    gost89_tc26_encrypt_block self_key0 self_key1 self_key2 self_key3 self_key4 self_key5 self_key6 self_key7 block = encrypt Tc26 (mk self_key0 self_key1 self_key2 self_key3 self_key4 self_key5 self_key6 self_key7) block := by
  unfold gost89_tc26_encrypt_block
  extract_lets -merge
  name_lets
  have T := @gstep_eq _ _ _ _ _ gost89_tc26_encrypt_block_tables
  have hl : load block = { v0 := hi4 block, v1 := a } := load_bytes block
  have g0 : g_r = g (genExpSbox Tc26) a self_key0 := (T a self_key0) ▸ rfl
  have g1 : g_r_1 = g (genExpSbox Tc26) a_2 self_key1 := (T a_2 self_key1) ▸ rfl
  have g2 : g_r_2 = g (genExpSbox Tc26) a_4 self_key2 := (T a_4 self_key2) ▸ rfl
  have g3 : g_r_3 = g (genExpSbox Tc26) a_6 self_key3 := (T a_6 self_key3) ▸ rfl
  have g4 : g_r_4 = g (genExpSbox Tc26) a_8 self_key4 := (T a_8 self_key4) ▸ rfl
  have g5 : g_r_5 = g (genExpSbox Tc26) a_10 self_key5 := (T a_10 self_key5) ▸ rfl
  have g6 : g_r_6 = g (genExpSbox Tc26) a_12 self_key6 := (T a_12 self_key6) ▸ rfl
  have g7 : g_r_7 = g (genExpSbox Tc26) a_14 self_key7 := (T a_14 self_key7) ▸ rfl
  have g8 : g_r_8 = g (genExpSbox Tc26) a_16 self_key0 := (T a_16 self_key0) ▸ rfl
  have g9 : g_r_9 = g (genExpSbox Tc26) a_18 self_key1 := (T a_18 self_key1) ▸ rfl
  have g10 : g_r_10 = g (genExpSbox Tc26) a_20 self_key2 := (T a_20 self_key2) ▸ rfl
  have g11 : g_r_11 = g (genExpSbox Tc26) a_22 self_key3 := (T a_22 self_key3) ▸ rfl
  have g12 : g_r_12 = g (genExpSbox Tc26) a_24 self_key4 := (T a_24 self_key4) ▸ rfl
  have g13 : g_r_13 = g (genExpSbox Tc26) a_26 self_key5 := (T a_26 self_key5) ▸ rfl
  have g14 : g_r_14 = g (genExpSbox Tc26) a_28 self_key6 := (T a_28 self_key6) ▸ rfl
  have g15 : g_r_15 = g (genExpSbox Tc26) a_30 self_key7 := (T a_30 self_key7) ▸ rfl
  have g16 : g_r_16 = g (genExpSbox Tc26) a_32 self_key0 := (T a_32 self_key0) ▸ rfl
  have g17 : g_r_17 = g (genExpSbox Tc26) a_34 self_key1 := (T a_34 self_key1) ▸ rfl
  have g18 : g_r_18 = g (genExpSbox Tc26) a_36 self_key2 := (T a_36 self_key2) ▸ rfl
  have g19 : g_r_19 = g (genExpSbox Tc26) a_38 self_key3 := (T a_38 self_key3) ▸ rfl
  have g20 : g_r_20 = g (genExpSbox Tc26) a_40 self_key4 := (T a_40 self_key4) ▸ rfl
  have g21 : g_r_21 = g (genExpSbox Tc26) a_42 self_key5 := (T a_42 self_key5) ▸ rfl
  have g22 : g_r_22 = g (genExpSbox Tc26) a_44 self_key6 := (T a_44 self_key6) ▸ rfl
  have g23 : g_r_23 = g (genExpSbox Tc26) a_46 self_key7 := (T a_46 self_key7) ▸ rfl
  have g24 : g_r_24 = g (genExpSbox Tc26) a_48 self_key7 := (T a_48 self_key7) ▸ rfl
  have g25 : g_r_25 = g (genExpSbox Tc26) a_50 self_key6 := (T a_50 self_key6) ▸ rfl
  have g26 : g_r_26 = g (genExpSbox Tc26) a_52 self_key5 := (T a_52 self_key5) ▸ rfl
  have g27 : g_r_27 = g (genExpSbox Tc26) a_54 self_key4 := (T a_54 self_key4) ▸ rfl
  have g28 : g_r_28 = g (genExpSbox Tc26) a_56 self_key3 := (T a_56 self_key3) ▸ rfl
  have g29 : g_r_29 = g (genExpSbox Tc26) a_58 self_key2 := (T a_58 self_key2) ▸ rfl
  have g30 : g_r_30 = g (genExpSbox Tc26) a_60 self_key1 := (T a_60 self_key1) ▸ rfl
  have g31 : g_r_31 = g (genExpSbox Tc26) a_62 self_key0 := (T a_62 self_key0) ▸ rfl
  have r0 : round (genExpSbox Tc26) (mk self_key0 self_key1 self_key2 self_key3 self_key4 self_key5 self_key6 self_key7) 0 ⟨hi4 block, a⟩ = ⟨a, a_2⟩ := by
    rw [round0, ← g0]; rfl
  have r1 : round (genExpSbox Tc26) (mk self_key0 self_key1 self_key2 self_key3 self_key4 self_key5 self_key6 self_key7) 1 ⟨a, a_2⟩ = ⟨a_2, a_4⟩ := by
    rw [round1, ← g1]
  have r2 : round (genExpSbox Tc26) (mk self_key0 self_key1 self_key2 self_key3 self_key4 self_key5 self_key6 self_key7) 2 ⟨a_2, a_4⟩ = ⟨a_4, a_6⟩ := by
    rw [round2, ← g2]
  have r3 : round (genExpSbox Tc26) (mk self_key0 self_key1 self_key2 self_key3 self_key4 self_key5 self_key6 self_key7) 3 ⟨a_4, a_6⟩ = ⟨a_6, a_8⟩ := by
    rw [round3, ← g3]
  have r4 : round (genExpSbox Tc26) (mk self_key0 self_key1 self_key2 self_key3 self_key4 self_key5 self_key6 self_key7) 4 ⟨a_6, a_8⟩ = ⟨a_8, a_10⟩ := by
    rw [round4, ← g4]
  have r5 : round (genExpSbox Tc26) (mk self_key0 self_key1 self_key2 self_key3 self_key4 self_key5 self_key6 self_key7) 5 ⟨a_8, a_10⟩ = ⟨a_10, a_12⟩ := by
    rw [round5, ← g5]
  have r6 : round (genExpSbox Tc26) (mk self_key0 self_key1 self_key2 self_key3 self_key4 self_key5 self_key6 self_key7) 6 ⟨a_10, a_12⟩ = ⟨a_12, a_14⟩ := by
    rw [round6, ← g6]
  have r7 : round (genExpSbox Tc26) (mk self_key0 self_key1 self_key2 self_key3 self_key4 self_key5 self_key6 self_key7) 7 ⟨a_12, a_14⟩ = ⟨a_14, a_16⟩ := by
    rw [round7, ← g7]
  have r8 : round (genExpSbox Tc26) (mk self_key0 self_key1 self_key2 self_key3 self_key4 self_key5 self_key6 self_key7) 0 ⟨a_14, a_16⟩ = ⟨a_16, a_18⟩ := by
    rw [round0, ← g8]
  have r9 : round (genExpSbox Tc26) (mk self_key0 self_key1 self_key2 self_key3 self_key4 self_key5 self_key6 self_key7) 1 ⟨a_16, a_18⟩ = ⟨a_18, a_20⟩ := by
    rw [round1, ← g9]
  have r10 : round (genExpSbox Tc26) (mk self_key0 self_key1 self_key2 self_key3 self_key4 self_key5 self_key6 self_key7) 2 ⟨a_18, a_20⟩ = ⟨a_20, a_22⟩ := by
    rw [round2, ← g10]
  have r11 : round (genExpSbox Tc26) (mk self_key0 self_key1 self_key2 self_key3 self_key4 self_key5 self_key6 self_key7) 3 ⟨a_20, a_22⟩ = ⟨a_22, a_24⟩ := by
    rw [round3, ← g11]
  have r12 : round (genExpSbox Tc26) (mk self_key0 self_key1 self_key2 self_key3 self_key4 self_key5 self_key6 self_key7) 4 ⟨a_22, a_24⟩ = ⟨a_24, a_26⟩ := by
    rw [round4, ← g12]
  have r13 : round (genExpSbox Tc26) (mk self_key0 self_key1 self_key2 self_key3 self_key4 self_key5 self_key6 self_key7) 5 ⟨a_24, a_26⟩ = ⟨a_26, a_28⟩ := by
    rw [round5, ← g13]
  have r14 : round (genExpSbox Tc26) (mk self_key0 self_key1 self_key2 self_key3 self_key4 self_key5 self_key6 self_key7) 6 ⟨a_26, a_28⟩ = ⟨a_28, a_30⟩ := by
    rw [round6, ← g14]
  have r15 : round (genExpSbox Tc26) (mk self_key0 self_key1 self_key2 self_key3 self_key4 self_key5 self_key6 self_key7) 7 ⟨a_28, a_30⟩ = ⟨a_30, a_32⟩ := by
    rw [round7, ← g15]
  have r16 : round (genExpSbox Tc26) (mk self_key0 self_key1 self_key2 self_key3 self_key4 self_key5 self_key6 self_key7) 0 ⟨a_30, a_32⟩ = ⟨a_32, a_34⟩ := by
    rw [round0, ← g16]
  have r17 : round (genExpSbox Tc26) (mk self_key0 self_key1 self_key2 self_key3 self_key4 self_key5 self_key6 self_key7) 1 ⟨a_32, a_34⟩ = ⟨a_34, a_36⟩ := by
    rw [round1, ← g17]
  have r18 : round (genExpSbox Tc26) (mk self_key0 self_key1 self_key2 self_key3 self_key4 self_key5 self_key6 self_key7) 2 ⟨a_34, a_36⟩ = ⟨a_36, a_38⟩ := by
    rw [round2, ← g18]
  have r19 : round (genExpSbox Tc26) (mk self_key0 self_key1 self_key2 self_key3 self_key4 self_key5 self_key6 self_key7) 3 ⟨a_36, a_38⟩ = ⟨a_38, a_40⟩ := by
    rw [round3, ← g19]
  have r20 : round (genExpSbox Tc26) (mk self_key0 self_key1 self_key2 self_key3 self_key4 self_key5 self_key6 self_key7) 4 ⟨a_38, a_40⟩ = ⟨a_40, a_42⟩ := by
    rw [round4, ← g20]
  have r21 : round (genExpSbox Tc26) (mk self_key0 self_key1 self_key2 self_key3 self_key4 self_key5 self_key6 self_key7) 5 ⟨a_40, a_42⟩ = ⟨a_42, a_44⟩ := by
    rw [round5, ← g21]
  have r22 : round (genExpSbox Tc26) (mk self_key0 self_key1 self_key2 self_key3 self_key4 self_key5 self_key6 self_key7) 6 ⟨a_42, a_44⟩ = ⟨a_44, a_46⟩ := by
    rw [round6, ← g22]
  have r23 : round (genExpSbox Tc26) (mk self_key0 self_key1 self_key2 self_key3 self_key4 self_key5 self_key6 self_key7) 7 ⟨a_44, a_46⟩ = ⟨a_46, a_48⟩ := by
    rw [round7, ← g23]
  have r24 : round (genExpSbox Tc26) (mk self_key0 self_key1 self_key2 self_key3 self_key4 self_key5 self_key6 self_key7) 7 ⟨a_46, a_48⟩ = ⟨a_48, a_50⟩ := by
    rw [round7, ← g24]
  have r25 : round (genExpSbox Tc26) (mk self_key0 self_key1 self_key2 self_key3 self_key4 self_key5 self_key6 self_key7) 6 ⟨a_48, a_50⟩ = ⟨a_50, a_52⟩ := by
    rw [round6, ← g25]
  have r26 : round (genExpSbox Tc26) (mk self_key0 self_key1 self_key2 self_key3 self_key4 self_key5 self_key6 self_key7) 5 ⟨a_50, a_52⟩ = ⟨a_52, a_54⟩ := by
    rw [round5, ← g26]
  have r27 : round (genExpSbox Tc26) (mk self_key0 self_key1 self_key2 self_key3 self_key4 self_key5 self_key6 self_key7) 4 ⟨a_52, a_54⟩ = ⟨a_54, a_56⟩ := by
    rw [round4, ← g27]
  have r28 : round (genExpSbox Tc26) (mk self_key0 self_key1 self_key2 self_key3 self_key4 self_key5 self_key6 self_key7) 3 ⟨a_54, a_56⟩ = ⟨a_56, a_58⟩ := by
    rw [round3, ← g28]
  have r29 : round (genExpSbox Tc26) (mk self_key0 self_key1 self_key2 self_key3 self_key4 self_key5 self_key6 self_key7) 2 ⟨a_56, a_58⟩ = ⟨a_58, a_60⟩ := by
    rw [round2, ← g29]
  have r30 : round (genExpSbox Tc26) (mk self_key0 self_key1 self_key2 self_key3 self_key4 self_key5 self_key6 self_key7) 1 ⟨a_58, a_60⟩ = ⟨a_60, a_62⟩ := by
    rw [round1, ← g30]
  have r31 : round (genExpSbox Tc26) (mk self_key0 self_key1 self_key2 self_key3 self_key4 self_key5 self_key6 self_key7) 0 ⟨a_60, a_62⟩ = ⟨a_62, a_60 ^^^ g_r_31⟩ := by
    rw [round0, ← g31]
  rw [out_bytes, encrypt_unfold, hl, r0, r1, r2, r3, r4, r5, r6, r7, r8, r9, r10, r11, r12, r13, r14, r15, r16, r17, r18, r19, r20, r21, r22, r23, r24, r25, r26, r27, r28, r29, r30, r31]
  rfl

theorem gost89_tc26_decrypt_block_tables : TablesOf Tc26 gost89_tc26_decrypt_block_tbl0 gost89_tc26_decrypt_block_tbl1 gost89_tc26_decrypt_block_tbl2 gost89_tc26_decrypt_block_tbl3 := by decide +kernel

/-- `gost89_tc26_decrypt_block` (regenerated `Gost89<Tc26>::decrypt_block`) is the model's `decrypt Tc26`, for all keys and blocks -/
theorem gost89_tc26_decrypt_block_eq (self_key0 self_key1 self_key2 self_key3 self_key4 self_key5 self_key6 self_key7 : BitVec 32) (block : BitVec 64) :
    gost89_tc26_decrypt_block self_key0 self_key1 self_key2 self_key3 self_key4 self_key5 self_key6 self_key7 block = decrypt Tc26 (mk self_key0 self_key1 self_key2 self_key3 self_key4 self_key5 self_key6 self_key7) block := by
  unfold gost89_tc26_decrypt_block
  extract_lets -merge
  name_lets
  have T := @gstep_eq _ _ _ _ _ gost89_tc26_decrypt_block_tables
  have hl : load block = { v0 := hi4 block, v1 := a } := load_bytes block
  have g0 : g_r = g (genExpSbox Tc26) a self_key0 := (T a self_key0) ▸ rfl
  have g1 : g_r_1 = g (genExpSbox Tc26) a_2 self_key1 := (T a_2 self_key1) ▸ rfl
  have g2 : g_r_2 = g (genExpSbox Tc26) a_4 self_key2 := (T a_4 self_key2) ▸ rfl
  have g3 : g_r_3 = g (genExpSbox Tc26) a_6 self_key3 := (T a_6 self_key3) ▸ rfl
  have g4 : g_r_4 = g (genExpSbox Tc26) a_8 self_key4 := (T a_8 self_key4) ▸ rfl
  have g5 : g_r_5 = g (genExpSbox Tc26) a_10 self_key5 := (T a_10 self_key5) ▸ rfl
  have g6 : g_r_6 = g (genExpSbox Tc26) a_12 self_key6 := (T a_12 self_key6) ▸ rfl
  have g7 : g_r_7 = g (genExpSbox Tc26) a_14 self_key7 := (T a_14 self_key7) ▸ rfl
  have g8 : g_r_8 = g (genExpSbox Tc26) a_16 self_key7 := (T a_16 self_key7) ▸ rfl
  have g9 : g_r_9 = g (genExpSbox Tc26) a_18 self_key6 := (T a_18 self_key6) ▸ rfl
  have g10 : g_r_10 = g (genExpSbox Tc26) a_20 self_key5 := (T a_20 self_key5) ▸ rfl
  have g11 : g_r_11 = g (genExpSbox Tc26) a_22 self_key4 := (T a_22 self_key4) ▸ rfl
  have g12 : g_r_12 = g (genExpSbox Tc26) a_24 self_key3 := (T a_24 self_key3) ▸ rfl
  have g13 : g_r_13 = g (genExpSbox Tc26) a_26 self_key2 := (T a_26 self_key2) ▸ rfl
  have g14 : g_r_14 = g (genExpSbox Tc26) a_28 self_key1 := (T a_28 self_key1) ▸ rfl
  have g15 : g_r_15 = g (genExpSbox Tc26) a_30 self_key0 := (T a_30 self_key0) ▸ rfl
  have g16 : g_r_16 = g (genExpSbox Tc26) a_32 self_key7 := (T a_32 self_key7) ▸ rfl
  have g17 : g_r_17 = g (genExpSbox Tc26) a_34 self_key6 := (T a_34 self_key6) ▸ rfl
  have g18 : g_r_18 = g (genExpSbox Tc26) a_36 self_key5 := (T a_36 self_key5) ▸ rfl
  have g19 : g_r_19 = g (genExpSbox Tc26) a_38 self_key4 := (T a_38 self_key4) ▸ rfl
  have g20 : g_r_20 = g (genExpSbox Tc26) a_40 self_key3 := (T a_40 self_key3) ▸ rfl
  have g21 : g_r_21 = g (genExpSbox Tc26) a_42 self_key2 := (T a_42 self_key2) ▸ rfl
  have g22 : g_r_22 = g (genExpSbox Tc26) a_44 self_key1 := (T a_44 self_key1) ▸ rfl
  have g23 : g_r_23 = g (genExpSbox Tc26) a_46 self_key0 := (T a_46 self_key0) ▸ rfl
  have g24 : g_r_24 = g (genExpSbox Tc26) a_48 self_key7 := (T a_48 self_key7) ▸ rfl
  have g25 : g_r_25 = g (genExpSbox Tc26) a_50 self_key6 := (T a_50 self_key6) ▸ rfl
  have g26 : g_r_26 = g (genExpSbox Tc26) a_52 self_key5 := (T a_52 self_key5) ▸ rfl
  have g27 : g_r_27 = g (genExpSbox Tc26) a_54 self_key4 := (T a_54 self_key4) ▸ rfl
  have g28 : g_r_28 = g (genExpSbox Tc26) a_56 self_key3 := (T a_56 self_key3) ▸ rfl
  have g29 : g_r_29 = g (genExpSbox Tc26) a_58 self_key2 := (T a_58 self_key2) ▸ rfl
  have g30 : g_r_30 = g (genExpSbox Tc26) a_60 self_key1 := (T a_60 self_key1) ▸ rfl
  have g31 : g_r_31 = g (genExpSbox Tc26) a_62 self_key0 := (T a_62 self_key0) ▸ rfl
  have r0 : round (genExpSbox Tc26) (mk self_key0 self_key1 self_key2 self_key3 self_key4 self_key5 self_key6 self_key7) 0 ⟨hi4 block, a⟩ = ⟨a, a_2⟩ := by
    rw [round0, ← g0]; rfl
  have r1 : round (genExpSbox Tc26) (mk self_key0 self_key1 self_key2 self_key3 self_key4 self_key5 self_key6 self_key7) 1 ⟨a, a_2⟩ = ⟨a_2, a_4⟩ := by
    rw [round1, ← g1]
  have r2 : round (genExpSbox Tc26) (mk self_key0 self_key1 self_key2 self_key3 self_key4 self_key5 self_key6 self_key7) 2 ⟨a_2, a_4⟩ = ⟨a_4, a_6⟩ := by
    rw [round2, ← g2]
  have r3 : round (genExpSbox Tc26) (mk self_key0 self_key1 self_key2 self_key3 self_key4 self_key5 self_key6 self_key7) 3 ⟨a_4, a_6⟩ = ⟨a_6, a_8⟩ := by
    rw [round3, ← g3]
  have r4 : round (genExpSbox Tc26) (mk self_key0 self_key1 self_key2 self_key3 self_key4 self_key5 self_key6 self_key7) 4 ⟨a_6, a_8⟩ = ⟨a_8, a_10⟩ := by
    rw [round4, ← g4]
  have r5 : round (genExpSbox Tc26) (mk self_key0 self_key1 self_key2 self_key3 self_key4 self_key5 self_key6 self_key7) 5 ⟨a_8, a_10⟩ = ⟨a_10, a_12⟩ := by
    rw [round5, ← g5]
  have r6 : round (genExpSbox Tc26) (mk self_key0 self_key1 self_key2 self_key3 self_key4 self_key5 self_key6 self_key7) 6 ⟨a_10, a_12⟩ = ⟨a_12, a_14⟩ := by
    rw [round6, ← g6]
  have r7 : round (genExpSbox Tc26) (mk self_key0 self_key1 self_key2 self_key3 self_key4 self_key5 self_key6 self_key7) 7 ⟨a_12, a_14⟩ = ⟨a_14, a_16⟩ := by
    rw [round7, ← g7]
  have r8 : round (genExpSbox Tc26) (mk self_key0 self_key1 self_key2 self_key3 self_key4 self_key5 self_key6 self_key7) 7 ⟨a_14, a_16⟩ = ⟨a_16, a_18⟩ := by
    rw [round7, ← g8]
  have r9 : round (genExpSbox Tc26) (mk self_key0 self_key1 self_key2 self_key3 self_key4 self_key5 self_key6 self_key7) 6 ⟨a_16, a_18⟩ = ⟨a_18, a_20⟩ := by
    rw [round6, ← g9]
  have r10 : round (genExpSbox Tc26) (mk self_key0 self_key1 self_key2 self_key3 self_key4 self_key5 self_key6 self_key7) 5 ⟨a_18, a_20⟩ = ⟨a_20, a_22⟩ := by
    rw [round5, ← g10]
  have r11 : round (genExpSbox Tc26) (mk self_key0 self_key1 self_key2 self_key3 self_key4 self_key5 self_key6 self_key7) 4 ⟨a_20, a_22⟩ = ⟨a_22, a_24⟩ := by
    rw [round4, ← g11]
  have r12 : round (genExpSbox Tc26) (mk self_key0 self_key1 self_key2 self_key3 self_key4 self_key5 self_key6 self_key7) 3 ⟨a_22, a_24⟩ = ⟨a_24, a_26⟩ := by
    rw [round3, ← g12]
  have r13 : round (genExpSbox Tc26) (mk self_key0 self_key1 self_key2 self_key3 self_key4 self_key5 self_key6 self_key7) 2 ⟨a_24, a_26⟩ = ⟨a_26, a_28⟩ := by
    rw [round2, ← g13]
  have r14 : round (genExpSbox Tc26) (mk self_key0 self_key1 self_key2 self_key3 self_key4 self_key5 self_key6 self_key7) 1 ⟨a_26, a_28⟩ = ⟨a_28, a_30⟩ := by
    rw [round1, ← g14]
  have r15 : round (genExpSbox Tc26) (mk self_key0 self_key1 self_key2 self_key3 self_key4 self_key5 self_key6 self_key7) 0 ⟨a_28, a_30⟩ = ⟨a_30, a_32⟩ := by
    rw [round0, ← g15]
  have r16 : round (genExpSbox Tc26) (mk self_key0 self_key1 self_key2 self_key3 self_key4 self_key5 self_key6 self_key7) 7 ⟨a_30, a_32⟩ = ⟨a_32, a_34⟩ := by
    rw [round7, ← g16]
  have r17 : round (genExpSbox Tc26) (mk self_key0 self_key1 self_key2 self_key3 self_key4 self_key5 self_key6 self_key7) 6 ⟨a_32, a_34⟩ = ⟨a_34, a_36⟩ := by
    rw [round6, ← g17]
  have r18 : round (genExpSbox Tc26) (mk self_key0 self_key1 self_key2 self_key3 self_key4 self_key5 self_key6 self_key7) 5 ⟨a_34, a_36⟩ = ⟨a_36, a_38⟩ := by
    rw [round5, ← g18]
  have r19 : round (genExpSbox Tc26) (mk self_key0 self_key1 self_key2 self_key3 self_key4 self_key5 self_key6 self_key7) 4 ⟨a_36, a_38⟩ = ⟨a_38, a_40⟩ := by
    rw [round4, ← g19]
  have r20 : round (genExpSbox Tc26) (mk self_key0 self_key1 self_key2 self_key3 self_key4 self_key5 self_key6 self_key7) 3 ⟨a_38, a_40⟩ = ⟨a_40, a_42⟩ := by
    rw [round3, ← g20]
  have r21 : round (genExpSbox Tc26) (mk self_key0 self_key1 self_key2 self_key3 self_key4 self_key5 self_key6 self_key7) 2 ⟨a_40, a_42⟩ = ⟨a_42, a_44⟩ := by
    rw [round2, ← g21]
  have r22 : round (genExpSbox Tc26) (mk self_key0 self_key1 self_key2 self_key3 self_key4 self_key5 self_key6 self_key7) 1 ⟨a_42, a_44⟩ = ⟨a_44, a_46⟩ := by
    rw [round1, ← g22]
  have r23 : round (genExpSbox Tc26) (mk self_key0 self_key1 self_key2 self_key3 self_key4 self_key5 self_key6 self_key7) 0 ⟨a_44, a_46⟩ = ⟨a_46, a_48⟩ := by
    rw [round0, ← g23]
  have r24 : round (genExpSbox Tc26) (mk self_key0 self_key1 self_key2 self_key3 self_key4 self_key5 self_key6 self_key7) 7 ⟨a_46, a_48⟩ = ⟨a_48, a_50⟩ := by
    rw [round7, ← g24]
  have r25 : round (genExpSbox Tc26) (mk self_key0 self_key1 self_key2 self_key3 self_key4 self_key5 self_key6 self_key7) 6 ⟨a_48, a_50⟩ = ⟨a_50, a_52⟩ := by
    rw [round6, ← g25]
  have r26 : round (genExpSbox Tc26) (mk self_key0 self_key1 self_key2 self_key3 self_key4 self_key5 self_key6 self_key7) 5 ⟨a_50, a_52⟩ = ⟨a_52, a_54⟩ := by
    rw [round5, ← g26]
  have r27 : round (genExpSbox Tc26) (mk self_key0 self_key1 self_key2 self_key3 self_key4 self_key5 self_key6 self_key7) 4 ⟨a_52, a_54⟩ = ⟨a_54, a_56⟩ := by
    rw [round4, ← g27]
  have r28 : round (genExpSbox Tc26) (mk self_key0 self_key1 self_key2 self_key3 self_key4 self_key5 self_key6 self_key7) 3 ⟨a_54, a_56⟩ = ⟨a_56, a_58⟩ := by
    rw [round3, ← g28]
  have r29 : round (genExpSbox Tc26) (mk self_key0 self_key1 self_key2 self_key3 self_key4 self_key5 self_key6 self_key7) 2 ⟨a_56, a_58⟩ = ⟨a_58, a_60⟩ := by
    rw [round2, ← g29]
  have r30 : round (genExpSbox Tc26) (mk self_key0 self_key1 self_key2 self_key3 self_key4 self_key5 self_key6 self_key7) 1 ⟨a_58, a_60⟩ = ⟨a_60, a_62⟩ := by
    rw [round1, ← g30]
  have r31 : round (genExpSbox Tc26) (mk self_key0 self_key1 self_key2 self_key3 self_key4 self_key5 self_key6 self_key7) 0 ⟨a_60, a_62⟩ = ⟨a_62, a_60 ^^^ g_r_31⟩ := by
    rw [round0, ← g31]
  rw [out_bytes, decrypt_unfold, hl, r0, r1, r2, r3, r4, r5, r6, r7, r8, r9, r10, r11, r12, r13, r14, r15, r16, r17, r18, r19, r20, r21, r22, r23, r24, r25, r26, r27, r28, r29, r30, r31]
  rfl

theorem gost89_testsbox_encrypt_block_tables : TablesOf TestSbox gost89_testsbox_encrypt_block_tbl0 gost89_testsbox_encrypt_block_tbl1 gost89_testsbox_encrypt_block_tbl2 gost89_testsbox_encrypt_block_tbl3 := by decide +kernel

/-- `gost89_testsbox_encrypt_block` (regenerated `Gost89<TestSbox>::encrypt_block`) is the model's `encrypt TestSbox`, for all keys and blocks -/
theorem gost89_testsbox_encrypt_block_eq (self_key0 self_key1 self_key2 self_key3 self_key4 self_key5 self_key6 self_key7 : BitVec 32) (block : BitVec 64) :
    gost89_testsbox_encrypt_block self_key0 self_key1 self_key2 self_key3 self_key4 self_key5 self_key6 self_key7 block = encrypt TestSbox (mk self_key0 self_key1 self_key2 self_key3 self_key4 self_key5 self_key6 self_key7) block := by
  unfold gost89_testsbox_encrypt_block
  extract_lets -merge
  name_lets
  have T := @gstep_eq _ _ _ _ _ gost89_testsbox_encrypt_block_tables
  have hl : load block = { v0 := hi4 block, v1 := a } := load_bytes block
  have g0 : g_r = g (genExpSbox TestSbox) a self_key0 := (T a self_key0) ▸ rfl
  have g1 : g_r_1 = g (genExpSbox TestSbox) a_2 self_key1 := (T a_2 self_key1) ▸ rfl
  have g2 : g_r_2 = g (genExpSbox TestSbox) a_4 self_key2 := (T a_4 self_key2) ▸ rfl
  have g3 : g_r_3 = g (genExpSbox TestSbox) a_6 self_key3 := (T a_6 self_key3) ▸ rfl
  have g4 : g_r_4 = g (genExpSbox TestSbox) a_8 self_key4 := (T a_8 self_key4) ▸ rfl
  have g5 : g_r_5 = g (genExpSbox TestSbox) a_10 self_key5 := (T a_10 self_key5) ▸ rfl
  have g6 : g_r_6 = g (genExpSbox TestSbox) a_12 self_key6 := (T a_12 self_key6) ▸ rfl
  have g7 : g_r_7 = g (genExpSbox TestSbox) a_14 self_key7 := (T a_14 self_key7) ▸ rfl
  have g8 : g_r_8 = g (genExpSbox TestSbox) a_16 self_key0 := (T a_16 self_key0) ▸ rfl
  have g9 : g_r_9 = g (genExpSbox TestSbox) a_18 self_key1 := (T a_18 self_key1) ▸ rfl
  have g10 : g_r_10 = g (genExpSbox TestSbox) a_20 self_key2 := (T a_20 self_key2) ▸ rfl
  have g11 : g_r_11 = g (genExpSbox TestSbox) a_22 self_key3 := (T a_22 self_key3) ▸ rfl
  have g12 : g_r_12 = g (genExpSbox TestSbox) a_24 self_key4 := (T a_24 self_key4) ▸ rfl
  have g13 : g_r_13 = g (genExpSbox TestSbox) a_26 self_key5 := (T a_26 self_key5) ▸ rfl
  have g14 : g_r_14 = g (genExpSbox TestSbox) a_28 self_key6 := (T a_28 self_key6) ▸ rfl
  have g15 : g_r_15 = g (genExpSbox TestSbox) a_30 self_key7 := (T a_30 self_key7) ▸ rfl
  have g16 : g_r_16 = g (genExpSbox TestSbox) a_32 self_key0 := (T a_32 self_key0) ▸ rfl
  have g17 : g_r_17 = g (genExpSbox TestSbox) a_34 self_key1 := (T a_34 self_key1) ▸ rfl
  have g18 : g_r_18 = g (genExpSbox TestSbox) a_36 self_key2 := (T a_36 self_key2) ▸ rfl
  have g19 : g_r_19 = g (genExpSbox TestSbox) a_38 self_key3 := (T a_38 self_key3) ▸ rfl
  have g20 : g_r_20 = g (genExpSbox TestSbox) a_40 self_key4 := (T a_40 self_key4) ▸ rfl
  have g21 : g_r_21 = g (genExpSbox TestSbox) a_42 self_key5 := (T a_42 self_key5) ▸ rfl
  have g22 : g_r_22 = g (genExpSbox TestSbox) a_44 self_key6 := (T a_44 self_key6) ▸ rfl
  have g23 : g_r_23 = g (genExpSbox TestSbox) a_46 self_key7 := (T a_46 self_key7) ▸ rfl
  have g24 : g_r_24 = g (genExpSbox TestSbox) a_48 self_key7 := (T a_48 self_key7) ▸ rfl
  have g25 : g_r_25 = g (genExpSbox TestSbox) a_50 self_key6 := (T a_50 self_key6) ▸ rfl
  have g26 : g_r_26 = g (genExpSbox TestSbox) a_52 self_key5 := (T a_52 self_key5) ▸ rfl
  have g27 : g_r_27 = g (genExpSbox TestSbox) a_54 self_key4 := (T a_54 self_key4) ▸ rfl
  have g28 : g_r_28 = g (genExpSbox TestSbox) a_56 self_key3 := (T a_56 self_key3) ▸ rfl
  have g29 : g_r_29 = g (genExpSbox TestSbox) a_58 self_key2 := (T a_58 self_key2) ▸ rfl
  have g30 : g_r_30 = g (genExpSbox TestSbox) a_60 self_key1 := (T a_60 self_key1) ▸ rfl
  have g31 : g_r_31 = g (genExpSbox TestSbox) a_62 self_key0 := (T a_62 self_key0) ▸ rfl
  have r0 : round (genExpSbox TestSbox) (mk self_key0 self_key1 self_key2 self_key3 self_key4 self_key5 self_key6 self_key7) 0 ⟨hi4 block, a⟩ = ⟨a, a_2⟩ := by
    rw [round0, ← g0]; rfl
  have r1 : round (genExpSbox TestSbox) (mk self_key0 self_key1 self_key2 self_key3 self_key4 self_key5 self_key6 self_key7) 1 ⟨a, a_2⟩ = ⟨a_2, a_4⟩ := by
    rw [round1, ← g1]
  have r2 : round (genExpSbox TestSbox) (mk self_key0 self_key1 self_key2 self_key3 self_key4 self_key5 self_key6 self_key7) 2 ⟨a_2, a_4⟩ = ⟨a_4, a_6⟩ := by
    rw [round2, ← g2]
  have r3 : round (genExpSbox TestSbox) (mk self_key0 self_key1 self_key2 self_key3 self_key4 self_key5 self_key6 self_key7) 3 ⟨a_4, a_6⟩ = ⟨a_6, a_8⟩ := by
    rw [round3, ← g3]
  have r4 : round (genExpSbox TestSbox) (mk self_key0 self_key1 self_key2 self_key3 self_key4 self_key5 self_key6 self_key7) 4 ⟨a_6, a_8⟩ = ⟨a_8, a_10⟩ := by
    rw [round4, ← g4]
  have r5 : round (genExpSbox TestSbox) (mk self_key0 self_key1 self_key2 self_key3 self_key4 self_key5 self_key6 self_key7) 5 ⟨a_8, a_10⟩ = ⟨a_10, a_12⟩ := by
    rw [round5, ← g5]
  have r6 : round (genExpSbox TestSbox) (mk self_key0 self_key1 self_key2 self_key3 self_key4 self_key5 self_key6 self_key7) 6 ⟨a_10, a_12⟩ = ⟨a_12, a_14⟩ := by
    rw [round6, ← g6]
  have r7 : round (genExpSbox TestSbox) (mk self_key0 self_key1 self_key2 self_key3 self_key4 self_key5 self_key6 self_key7) 7 ⟨a_12, a_14⟩ = ⟨a_14, a_16⟩ := by
    rw [round7, ← g7]
  have r8 : round (genExpSbox TestSbox) (mk self_key0 self_key1 self_key2 self_key3 self_key4 self_key5 self_key6 self_key7) 0 ⟨a_14, a_16⟩ = ⟨a_16, a_18⟩ := by
    rw [round0, ← g8]
  have r9 : round (genExpSbox TestSbox) (mk self_key0 self_key1 self_key2 self_key3 self_key4 self_key5 self_key6 self_key7) 1 ⟨a_16, a_18⟩ = ⟨a_18, a_20⟩ := by
    rw [round1, ← g9]
  have r10 : round (genExpSbox TestSbox) (mk self_key0 self_key1 self_key2 self_key3 self_key4 self_key5 self_key6 self_key7) 2 ⟨a_18, a_20⟩ = ⟨a_20, a_22⟩ := by
    rw [round2, ← g10]
  have r11 : round (genExpSbox TestSbox) (mk self_key0 self_key1 self_key2 self_key3 self_key4 self_key5 self_key6 self_key7) 3 ⟨a_20, a_22⟩ = ⟨a_22, a_24⟩ := by
    rw [round3, ← g11]
  have r12 : round (genExpSbox TestSbox) (mk self_key0 self_key1 self_key2 self_key3 self_key4 self_key5 self_key6 self_key7) 4 ⟨a_22, a_24⟩ = ⟨a_24, a_26⟩ := by
    rw [round4, ← g12]
  have r13 : round (genExpSbox TestSbox) (mk self_key0 self_key1 self_key2 self_key3 self_key4 self_key5 self_key6 self_key7) 5 ⟨a_24, a_26⟩ = ⟨a_26, a_28⟩ := by
    rw [round5, ← g13]
  have r14 : round (genExpSbox TestSbox) (mk self_key0 self_key1 self_key2 self_key3 self_key4 self_key5 self_key6 self_key7) 6 ⟨a_26, a_28⟩ = ⟨a_28, a_30⟩ := by
    rw [round6, ← g14]
  have r15 : round (genExpSbox TestSbox) (mk self_key0 self_key1 self_key2 self_key3 self_key4 self_key5 self_key6 self_key7) 7 ⟨a_28, a_30⟩ = ⟨a_30, a_32⟩ := by
    rw [round7, ← g15]
  have r16 : round (genExpSbox TestSbox) (mk self_key0 self_key1 self_key2 self_key3 self_key4 self_key5 self_key6 self_key7) 0 ⟨a_30, a_32⟩ = ⟨a_32, a_34⟩ := by
    rw [round0, ← g16]
  have r17 : round (genExpSbox TestSbox) (mk self_key0 self_key1 self_key2 self_key3 self_key4 self_key5 self_key6 self_key7) 1 ⟨a_32, a_34⟩ = ⟨a_34, a_36⟩ := by
    rw [round1, ← g17]
  have r18 : round (genExpSbox TestSbox) (mk self_key0 self_key1 self_key2 self_key3 self_key4 self_key5 self_key6 self_key7) 2 ⟨a_34, a_36⟩ = ⟨a_36, a_38⟩ := by
    rw [round2, ← g18]
  have r19 : round (genExpSbox TestSbox) (mk self_key0 self_key1 self_key2 self_key3 self_key4 self_key5 self_key6 self_key7) 3 ⟨a_36, a_38⟩ = ⟨a_38, a_40⟩ := by
    rw [round3, ← g19]
  have r20 : round (genExpSbox TestSbox) (mk self_key0 self_key1 self_key2 self_key3 self_key4 self_key5 self_key6 self_key7) 4 ⟨a_38, a_40⟩ = ⟨a_40, a_42⟩ := by
    rw [round4, ← g20]
  have r21 : round (genExpSbox TestSbox) (mk self_key0 self_key1 self_key2 self_key3 self_key4 self_key5 self_key6 self_key7) 5 ⟨a_40, a_42⟩ = ⟨a_42, a_44⟩ := by
    rw [round5, ← g21]
  have r22 : round (genExpSbox TestSbox) (mk self_key0 self_key1 self_key2 self_key3 self_key4 self_key5 self_key6 self_key7) 6 ⟨a_42, a_44⟩ = ⟨a_44, a_46⟩ := by
    rw [round6, ← g22]
  have r23 : round (genExpSbox TestSbox) (mk self_key0 self_key1 self_key2 self_key3 self_key4 self_key5 self_key6 self_key7) 7 ⟨a_44, a_46⟩ = ⟨a_46, a_48⟩ := by
    rw [round7, ← g23]
  have r24 : round (genExpSbox TestSbox) (mk self_key0 self_key1 self_key2 self_key3 self_key4 self_key5 self_key6 self_key7) 7 ⟨a_46, a_48⟩ = ⟨a_48, a_50⟩ := by
    rw [round7, ← g24]
  have r25 : round (genExpSbox TestSbox) (mk self_key0 self_key1 self_key2 self_key3 self_key4 self_key5 self_key6 self_key7) 6 ⟨a_48, a_50⟩ = ⟨a_50, a_52⟩ := by
    rw [round6, ← g25]
  have r26 : round (genExpSbox TestSbox) (mk self_key0 self_key1 self_key2 self_key3 self_key4 self_key5 self_key6 self_key7) 5 ⟨a_50, a_52⟩ = ⟨a_52, a_54⟩ := by
    rw [round5, ← g26]
  have r27 : round (genExpSbox TestSbox) (mk self_key0 self_key1 self_key2 self_key3 self_key4 self_key5 self_key6 self_key7) 4 ⟨a_52, a_54⟩ = ⟨a_54, a_56⟩ := by
    rw [round4, ← g27]
  have r28 : round (genExpSbox TestSbox) (mk self_key0 self_key1 self_key2 self_key3 self_key4 self_key5 self_key6 self_key7) 3 ⟨a_54, a_56⟩ = ⟨a_56, a_58⟩ := by
    rw [round3, ← g28]
  have r29 : round (genExpSbox TestSbox) (mk self_key0 self_key1 self_key2 self_key3 self_key4 self_key5 self_key6 self_key7) 2 ⟨a_56, a_58⟩ = ⟨a_58, a_60⟩ := by
    rw [round2, ← g29]
  have r30 : round (genExpSbox TestSbox) (mk self_key0 self_key1 self_key2 self_key3 self_key4 self_key5 self_key6 self_key7) 1 ⟨a_58, a_60⟩ = ⟨a_60, a_62⟩ := by
    rw [round1, ← g30]
  have r31 : round (genExpSbox TestSbox) (mk self_key0 self_key1 self_key2 self_key3 self_key4 self_key5 self_key6 self_key7) 0 ⟨a_60, a_62⟩ = ⟨a_62, a_60 ^^^ g_r_31⟩ := by
    rw [round0, ← g31]
  rw [out_bytes, encrypt_unfold, hl, r0, r1, r2, r3, r4, r5, r6, r7, r8, r9, r10, r11, r12, r13, r14, r15, r16, r17, r18, r19, r20, r21, r22, r23, r24, r25, r26, r27, r28, r29, r30, r31]
  rfl

theorem gost89_testsbox_decrypt_block_tables : TablesOf TestSbox gost89_testsbox_decrypt_block_tbl0 gost89_testsbox_decrypt_block_tbl1 gost89_testsbox_decrypt_block_tbl2 gost89_testsbox_decrypt_block_tbl3 := by decide +kernel

/-- `gost89_testsbox_decrypt_block` (regenerated `Gost89<TestSbox>::decrypt_block`) is the model's `decrypt TestSbox`, for all keys and blocks -/
theorem gost89_testsbox_decrypt_block_eq (self_key0 self_key1 self_key2 self_key3 self_key4 self_key5 self_key6 self_key7 : BitVec 32) (block : BitVec 64) :
    gost89_testsbox_decrypt_block self_key0 self_key1 self_key2 self_key3 self_key4 self_key5 self_key6 self_key7 block = decrypt TestSbox (mk self_key0 self_key1 self_key2 self_key3 self_key4 self_key5 self_key6 self_key7) block := by
  unfold gost89_testsbox_decrypt_block
  extract_lets -merge
  name_lets
  have T := @gstep_eq _ _ _ _ _ gost89_testsbox_decrypt_block_tables
  have hl : load block = { v0 := hi4 block, v1 := a } := load_bytes block
  have g0 : g_r = g (genExpSbox TestSbox) a self_key0 := (T a self_key0) ▸ rfl
  have g1 : g_r_1 = g (genExpSbox TestSbox) a_2 self_key1 := (T a_2 self_key1) ▸ rfl
  have g2 : g_r_2 = g (genExpSbox TestSbox) a_4 self_key2 := (T a_4 self_key2) ▸ rfl
  have g3 : g_r_3 = g (genExpSbox TestSbox) a_6 self_key3 := (T a_6 self_key3) ▸ rfl
  have g4 : g_r_4 = g (genExpSbox TestSbox) a_8 self_key4 := (T a_8 self_key4) ▸ rfl
  have g5 : g_r_5 = g (genExpSbox TestSbox) a_10 self_key5 := (T a_10 self_key5) ▸ rfl
  have g6 : g_r_6 = g (genExpSbox TestSbox) a_12 self_key6 := (T a_12 self_key6) ▸ rfl
  have g7 : g_r_7 = g (genExpSbox TestSbox) a_14 self_key7 := (T a_14 self_key7) ▸ rfl
  have g8 : g_r_8 = g (genExpSbox TestSbox) a_16 self_key7 := (T a_16 self_key7) ▸ rfl
  have g9 : g_r_9 = g (genExpSbox TestSbox) a_18 self_key6 := (T a_18 self_key6) ▸ rfl
  have g10 : g_r_10 = g (genExpSbox TestSbox) a_20 self_key5 := (T a_20 self_key5) ▸ rfl
  have g11 : g_r_11 = g (genExpSbox TestSbox) a_22 self_key4 := (T a_22 self_key4) ▸ rfl
  have g12 : g_r_12 = g (genExpSbox TestSbox) a_24 self_key3 := (T a_24 self_key3) ▸ rfl
  have g13 : g_r_13 = g (genExpSbox TestSbox) a_26 self_key2 := (T a_26 self_key2) ▸ rfl
  have g14 : g_r_14 = g (genExpSbox TestSbox) a_28 self_key1 := (T a_28 self_key1) ▸ rfl
  have g15 : g_r_15 = g (genExpSbox TestSbox) a_30 self_key0 := (T a_30 self_key0) ▸ rfl
  have g16 : g_r_16 = g (genExpSbox TestSbox) a_32 self_key7 := (T a_32 self_key7) ▸ rfl
  have g17 : g_r_17 = g (genExpSbox TestSbox) a_34 self_key6 := (T a_34 self_key6) ▸ rfl
  have g18 : g_r_18 = g (genExpSbox TestSbox) a_36 self_key5 := (T a_36 self_key5) ▸ rfl
  have g19 : g_r_19 = g (genExpSbox TestSbox) a_38 self_key4 := (T a_38 self_key4) ▸ rfl
  have g20 : g_r_20 = g (genExpSbox TestSbox) a_40 self_key3 := (T a_40 self_key3) ▸ rfl
  have g21 : g_r_21 = g (genExpSbox TestSbox) a_42 self_key2 := (T a_42 self_key2) ▸ rfl
  have g22 : g_r_22 = g (genExpSbox TestSbox) a_44 self_key1 := (T a_44 self_key1) ▸ rfl
  have g23 : g_r_23 = g (genExpSbox TestSbox) a_46 self_key0 := (T a_46 self_key0) ▸ rfl
  have g24 : g_r_24 = g (genExpSbox TestSbox) a_48 self_key7 := (T a_48 self_key7) ▸ rfl
  have g25 : g_r_25 = g (genExpSbox TestSbox) a_50 self_key6 := (T a_50 self_key6) ▸ rfl
  have g26 : g_r_26 = g (genExpSbox TestSbox) a_52 self_key5 := (T a_52 self_key5) ▸ rfl
  have g27 : g_r_27 = g (genExpSbox TestSbox) a_54 self_key4 := (T a_54 self_key4) ▸ rfl
  have g28 : g_r_28 = g (genExpSbox TestSbox) a_56 self_key3 := (T a_56 self_key3) ▸ rfl
  have g29 : g_r_29 = g (genExpSbox TestSbox) a_58 self_key2 := (T a_58 self_key2) ▸ rfl
  have g30 : g_r_30 = g (genExpSbox TestSbox) a_60 self_key1 := (T a_60 self_key1) ▸ rfl
  have g31 : g_r_31 = g (genExpSbox TestSbox) a_62 self_key0 := (T a_62 self_key0) ▸ rfl
  have r0 : round (genExpSbox TestSbox) (mk self_key0 self_key1 self_key2 self_key3 self_key4 self_key5 self_key6 self_key7) 0 ⟨hi4 block, a⟩ = ⟨a, a_2⟩ := by
    rw [round0, ← g0]; rfl
  have r1 : round (genExpSbox TestSbox) (mk self_key0 self_key1 self_key2 self_key3 self_key4 self_key5 self_key6 self_key7) 1 ⟨a, a_2⟩ = ⟨a_2, a_4⟩ := by
    rw [round1, ← g1]
  have r2 : round (genExpSbox TestSbox) (mk self_key0 self_key1 self_key2 self_key3 self_key4 self_key5 self_key6 self_key7) 2 ⟨a_2, a_4⟩ = ⟨a_4, a_6⟩ := by
    rw [round2, ← g2]
  have r3 : round (genExpSbox TestSbox) (mk self_key0 self_key1 self_key2 self_key3 self_key4 self_key5 self_key6 self_key7) 3 ⟨a_4, a_6⟩ = ⟨a_6, a_8⟩ := by
    rw [round3, ← g3]
  have r4 : round (genExpSbox TestSbox) (mk self_key0 self_key1 self_key2 self_key3 self_key4 self_key5 self_key6 self_key7) 4 ⟨a_6, a_8⟩ = ⟨a_8, a_10⟩ := by
    rw [round4, ← g4]
  have r5 : round (genExpSbox TestSbox) (mk self_key0 self_key1 self_key2 self_key3 self_key4 self_key5 self_key6 self_key7) 5 ⟨a_8, a_10⟩ = ⟨a_10, a_12⟩ := by
    rw [round5, ← g5]
  have r6 : round (genExpSbox TestSbox) (mk self_key0 self_key1 self_key2 self_key3 self_key4 self_key5 self_key6 self_key7) 6 ⟨a_10, a_12⟩ = ⟨a_12, a_14⟩ := by
    rw [round6, ← g6]
  have r7 : round (genExpSbox TestSbox) (mk self_key0 self_key1 self_key2 self_key3 self_key4 self_key5 self_key6 self_key7) 7 ⟨a_12, a_14⟩ = ⟨a_14, a_16⟩ := by
    rw [round7, ← g7]
  have r8 : round (genExpSbox TestSbox) (mk self_key0 self_key1 self_key2 self_key3 self_key4 self_key5 self_key6 self_key7) 7 ⟨a_14, a_16⟩ = ⟨a_16, a_18⟩ := by
    rw [round7, ← g8]
  have r9 : round (genExpSbox TestSbox) (mk self_key0 self_key1 self_key2 self_key3 self_key4 self_key5 self_key6 self_key7) 6 ⟨a_16, a_18⟩ = ⟨a_18, a_20⟩ := by
    rw [round6, ← g9]
  have r10 : round (genExpSbox TestSbox) (mk self_key0 self_key1 self_key2 self_key3 self_key4 self_key5 self_key6 self_key7) 5 ⟨a_18, a_20⟩ = ⟨a_20, a_22⟩ := by
    rw [round5, ← g10]
  have r11 : round (genExpSbox TestSbox) (mk self_key0 self_key1 self_key2 self_key3 self_key4 self_key5 self_key6 self_key7) 4 ⟨a_20, a_22⟩ = ⟨a_22, a_24⟩ := by
    rw [round4, ← g11]
  have r12 : round (genExpSbox TestSbox) (mk self_key0 self_key1 self_key2 self_key3 self_key4 self_key5 self_key6 self_key7) 3 ⟨a_22, a_24⟩ = ⟨a_24, a_26⟩ := by
    rw [round3, ← g12]
  have r13 : round (genExpSbox TestSbox) (mk self_key0 self_key1 self_key2 self_key3 self_key4 self_key5 self_key6 self_key7) 2 ⟨a_24, a_26⟩ = ⟨a_26, a_28⟩ := by
    rw [round2, ← g13]
  have r14 : round (genExpSbox TestSbox) (mk self_key0 self_key1 self_key2 self_key3 self_key4 self_key5 self_key6 self_key7) 1 ⟨a_26, a_28⟩ = ⟨a_28, a_30⟩ := by
    rw [round1, ← g14]
  have r15 : round (genExpSbox TestSbox) (mk self_key0 self_key1 self_key2 self_key3 self_key4 self_key5 self_key6 self_key7) 0 ⟨a_28, a_30⟩ = ⟨a_30, a_32⟩ := by
    rw [round0, ← g15]
  have r16 : round (genExpSbox TestSbox) (mk self_key0 self_key1 self_key2 self_key3 self_key4 self_key5 self_key6 self_key7) 7 ⟨a_30, a_32⟩ = ⟨a_32, a_34⟩ := by
    rw [round7, ← g16]
  have r17 : round (genExpSbox TestSbox) (mk self_key0 self_key1 self_key2 self_key3 self_key4 self_key5 self_key6 self_key7) 6 ⟨a_32, a_34⟩ = ⟨a_34, a_36⟩ := by
    rw [round6, ← g17]
  have r18 : round (genExpSbox TestSbox) (mk self_key0 self_key1 self_key2 self_key3 self_key4 self_key5 self_key6 self_key7) 5 ⟨a_34, a_36⟩ = ⟨a_36, a_38⟩ := by
    rw [round5, ← g18]
  have r19 : round (genExpSbox TestSbox) (mk self_key0 self_key1 self_key2 self_key3 self_key4 self_key5 self_key6 self_key7) 4 ⟨a_36, a_38⟩ = ⟨a_38, a_40⟩ := by
    rw [round4, ← g19]
  have r20 : round (genExpSbox TestSbox) (mk self_key0 self_key1 self_key2 self_key3 self_key4 self_key5 self_key6 self_key7) 3 ⟨a_38, a_40⟩ = ⟨a_40, a_42⟩ := by
    rw [round3, ← g20]
  have r21 : round (genExpSbox TestSbox) (mk self_key0 self_key1 self_key2 self_key3 self_key4 self_key5 self_key6 self_key7) 2 ⟨a_40, a_42⟩ = ⟨a_42, a_44⟩ := by
    rw [round2, ← g21]
  have r22 : round (genExpSbox TestSbox) (mk self_key0 self_key1 self_key2 self_key3 self_key4 self_key5 self_key6 self_key7) 1 ⟨a_42, a_44⟩ = ⟨a_44, a_46⟩ := by
    rw [round1, ← g22]
  have r23 : round (genExpSbox TestSbox) (mk self_key0 self_key1 self_key2 self_key3 self_key4 self_key5 self_key6 self_key7) 0 ⟨a_44, a_46⟩ = ⟨a_46, a_48⟩ := by
    rw [round0, ← g23]
  have r24 : round (genExpSbox TestSbox) (mk self_key0 self_key1 self_key2 self_key3 self_key4 self_key5 self_key6 self_key7) 7 ⟨a_46, a_48⟩ = ⟨a_48, a_50⟩ := by
    rw [round7, ← g24]
  have r25 : round (genExpSbox TestSbox) (mk self_key0 self_key1 self_key2 self_key3 self_key4 self_key5 self_key6 self_key7) 6 ⟨a_48, a_50⟩ = ⟨a_50, a_52⟩ := by
    rw [round6, ← g25]
  have r26 : round (genExpSbox TestSbox) (mk self_key0 self_key1 self_key2 self_key3 self_key4 self_key5 self_key6 self_key7) 5 ⟨a_50, a_52⟩ = ⟨a_52, a_54⟩ := by
    rw [round5, ← g26]
  have r27 : round (genExpSbox TestSbox) (mk self_key0 self_key1 self_key2 self_key3 self_key4 self_key5 self_key6 self_key7) 4 ⟨a_52, a_54⟩ = ⟨a_54, a_56⟩ := by
    rw [round4, ← g27]
  have r28 : round (genExpSbox TestSbox) (mk self_key0 self_key1 self_key2 self_key3 self_key4 self_key5 self_key6 self_key7) 3 ⟨a_54, a_56⟩ = ⟨a_56, a_58⟩ := by
    rw [round3, ← g28]
  have r29 : round (genExpSbox TestSbox) (mk self_key0 self_key1 self_key2 self_key3 self_key4 self_key5 self_key6 self_key7) 2 ⟨a_56, a_58⟩ = ⟨a_58, a_60⟩ := by
    rw [round2, ← g29]
  have r30 : round (genExpSbox TestSbox) (mk self_key0 self_key1 self_key2 self_key3 self_key4 self_key5 self_key6 self_key7) 1 ⟨a_58, a_60⟩ = ⟨a_60, a_62⟩ := by
    rw [round1, ← g30]
  have r31 : round (genExpSbox TestSbox) (mk self_key0 self_key1 self_key2 self_key3 self_key4 self_key5 self_key6 self_key7) 0 ⟨a_60, a_62⟩ = ⟨a_62, a_60 ^^^ g_r_31⟩ := by
    rw [round0, ← g31]
  rw [out_bytes, decrypt_unfold, hl, r0, r1, r2, r3, r4, r5, r6, r7, r8, r9, r10, r11, r12, r13, r14, r15, r16, r17, r18, r19, r20, r21, r22, r23, r24, r25, r26, r27, r28, r29, r30, r31]
  rfl

theorem gost89_cryptoproa_encrypt_block_tables : TablesOf CryptoProA gost89_cryptoproa_encrypt_block_tbl0 gost89_cryptoproa_encrypt_block_tbl1 gost89_cryptoproa_encrypt_block_tbl2 gost89_cryptoproa_encrypt_block_tbl3 := by decide +kernel

/-- `gost89_cryptoproa_encrypt_block` (regenerated `Gost89<CryptoProA>::encrypt_block`) is the model's `encrypt CryptoProA`, for all keys and blocks -/
theorem gost89_cryptoproa_encrypt_block_eq (self_key0 self_key1 self_key2 self_key3 self_key4 self_key5 self_key6 self_key7 : BitVec 32) (block : BitVec 64) :
    gost89_cryptoproa_encrypt_block self_key0 self_key1 self_key2 self_key3 self_key4 self_key5 self_key6 self_key7 block = encrypt CryptoProA (mk self_key0 self_key1 self_key2 self_key3 self_key4 self_key5 self_key6 self_key7) block := by
  unfold gost89_cryptoproa_encrypt_block
  extract_lets -merge
  name_lets
  have T := @gstep_eq _ _ _ _ _ gost89_cryptoproa_encrypt_block_tables
  have hl : load block = { v0 := hi4 block, v1 := a } := load_bytes block
  have g0 : g_r = g (genExpSbox CryptoProA) a self_key0 := (T a self_key0) ▸ rfl
  have g1 : g_r_1 = g (genExpSbox CryptoProA) a_2 self_key1 := (T a_2 self_key1) ▸ rfl
  have g2 : g_r_2 = g (genExpSbox CryptoProA) a_4 self_key2 := (T a_4 self_key2) ▸ rfl
  have g3 : g_r_3 = g (genExpSbox CryptoProA) a_6 self_key3 := (T a_6 self_key3) ▸ rfl
  have g4 : g_r_4 = g (genExpSbox CryptoProA) a_8 self_key4 := (T a_8 self_key4) ▸ rfl
  have g5 : g_r_5 = g (genExpSbox CryptoProA) a_10 self_key5 := (T a_10 self_key5) ▸ rfl
  have g6 : g_r_6 = g (genExpSbox CryptoProA) a_12 self_key6 := (T a_12 self_key6) ▸ rfl
  have g7 : g_r_7 = g (genExpSbox CryptoProA) a_14 self_key7 := (T a_14 self_key7) ▸ rfl
  have g8 : g_r_8 = g (genExpSbox CryptoProA) a_16 self_key0 := (T a_16 self_key0) ▸ rfl
  have g9 : g_r_9 = g (genExpSbox CryptoProA) a_18 self_key1 := (T a_18 self_key1) ▸ rfl
  have g10 : g_r_10 = g (genExpSbox CryptoProA) a_20 self_key2 := (T a_20 self_key2) ▸ rfl
  have g11 : g_r_11 = g (genExpSbox CryptoProA) a_22 self_key3 := (T a_22 self_key3) ▸ rfl
  have g12 : g_r_12 = g (genExpSbox CryptoProA) a_24 self_key4 := (T a_24 self_key4) ▸ rfl
  have g13 : g_r_13 = g (genExpSbox CryptoProA) a_26 self_key5 := (T a_26 self_key5) ▸ rfl
  have g14 : g_r_14 = g (genExpSbox CryptoProA) a_28 self_key6 := (T a_28 self_key6) ▸ rfl
  have g15 : g_r_15 = g (genExpSbox CryptoProA) a_30 self_key7 := (T a_30 self_key7) ▸ rfl
  have g16 : g_r_16 = g (genExpSbox CryptoProA) a_32 self_key0 := (T a_32 self_key0) ▸ rfl
  have g17 : g_r_17 = g (genExpSbox CryptoProA) a_34 self_key1 := (T a_34 self_key1) ▸ rfl
  have g18 : g_r_18 = g (genExpSbox CryptoProA) a_36 self_key2 := (T a_36 self_key2) ▸ rfl
  have g19 : g_r_19 = g (genExpSbox CryptoProA) a_38 self_key3 := (T a_38 self_key3) ▸ rfl
  have g20 : g_r_20 = g (genExpSbox CryptoProA) a_40 self_key4 := (T a_40 self_key4) ▸ rfl
  have g21 : g_r_21 = g (genExpSbox CryptoProA) a_42 self_key5 := (T a_42 self_key5) ▸ rfl
  have g22 : g_r_22 = g (genExpSbox CryptoProA) a_44 self_key6 := (T a_44 self_key6) ▸ rfl
  have g23 : g_r_23 = g (genExpSbox CryptoProA) a_46 self_key7 := (T a_46 self_key7) ▸ rfl
  have g24 : g_r_24 = g (genExpSbox CryptoProA) a_48 self_key7 := (T a_48 self_key7) ▸ rfl
  have g25 : g_r_25 = g (genExpSbox CryptoProA) a_50 self_key6 := (T a_50 self_key6) ▸ rfl
  have g26 : g_r_26 = g (genExpSbox CryptoProA) a_52 self_key5 := (T a_52 self_key5) ▸ rfl
  have g27 : g_r_27 = g (genExpSbox CryptoProA) a_54 self_key4 := (T a_54 self_key4) ▸ rfl
  have g28 : g_r_28 = g (genExpSbox CryptoProA) a_56 self_key3 := (T a_56 self_key3) ▸ rfl
  have g29 : g_r_29 = g (genExpSbox CryptoProA) a_58 self_key2 := (T a_58 self_key2) ▸ rfl
  have g30 : g_r_30 = g (genExpSbox CryptoProA) a_60 self_key1 := (T a_60 self_key1) ▸ rfl
  have g31 : g_r_31 = g (genExpSbox CryptoProA) a_62 self_key0 := (T a_62 self_key0) ▸ rfl
  have r0 : round (genExpSbox CryptoProA) (mk self_key0 self_key1 self_key2 self_key3 self_key4 self_key5 self_key6 self_key7) 0 ⟨hi4 block, a⟩ = ⟨a, a_2⟩ := by
    rw [round0, ← g0]; rfl
  have r1 : round (genExpSbox CryptoProA) (mk self_key0 self_key1 self_key2 self_key3 self_key4 self_key5 self_key6 self_key7) 1 ⟨a, a_2⟩ = ⟨a_2, a_4⟩ := by
    rw [round1, ← g1]
  have r2 : round (genExpSbox CryptoProA) (mk self_key0 self_key1 self_key2 self_key3 self_key4 self_key5 self_key6 self_key7) 2 ⟨a_2, a_4⟩ = ⟨a_4, a_6⟩ := by
    rw [round2, ← g2]
  have r3 : round (genExpSbox CryptoProA) (mk self_key0 self_key1 self_key2 self_key3 self_key4 self_key5 self_key6 self_key7) 3 ⟨a_4, a_6⟩ = ⟨a_6, a_8⟩ := by
    rw [round3, ← g3]
  have r4 : round (genExpSbox CryptoProA) (mk self_key0 self_key1 self_key2 self_key3 self_key4 self_key5 self_key6 self_key7) 4 ⟨a_6, a_8⟩ = ⟨a_8, a_10⟩ := by
    rw [round4, ← g4]
  have r5 : round (genExpSbox CryptoProA) (mk self_key0 self_key1 self_key2 self_key3 self_key4 self_key5 self_key6 self_key7) 5 ⟨a_8, a_10⟩ = ⟨a_10, a_12⟩ := by
    rw [round5, ← g5]
  have r6 : round (genExpSbox CryptoProA) (mk self_key0 self_key1 self_key2 self_key3 self_key4 self_key5 self_key6 self_key7) 6 ⟨a_10, a_12⟩ = ⟨a_12, a_14⟩ := by
    rw [round6, ← g6]
  have r7 : round (genExpSbox CryptoProA) (mk self_key0 self_key1 self_key2 self_key3 self_key4 self_key5 self_key6 self_key7) 7 ⟨a_12, a_14⟩ = ⟨a_14, a_16⟩ := by
    rw [round7, ← g7]
  have r8 : round (genExpSbox CryptoProA) (mk self_key0 self_key1 self_key2 self_key3 self_key4 self_key5 self_key6 self_key7) 0 ⟨a_14, a_16⟩ = ⟨a_16, a_18⟩ := by
    rw [round0, ← g8]
  have r9 : round (genExpSbox CryptoProA) (mk self_key0 self_key1 self_key2 self_key3 self_key4 self_key5 self_key6 self_key7) 1 ⟨a_16, a_18⟩ = ⟨a_18, a_20⟩ := by
    rw [round1, ← g9]
  have r10 : round (genExpSbox CryptoProA) (mk self_key0 self_key1 self_key2 self_key3 self_key4 self_key5 self_key6 self_key7) 2 ⟨a_18, a_20⟩ = ⟨a_20, a_22⟩ := by
    rw [round2, ← g10]
  have r11 : round (genExpSbox CryptoProA) (mk self_key0 self_key1 self_key2 self_key3 self_key4 self_key5 self_key6 self_key7) 3 ⟨a_20, a_22⟩ = ⟨a_22, a_24⟩ := by
    rw [round3, ← g11]
  have r12 : round (genExpSbox CryptoProA) (mk self_key0 self_key1 self_key2 self_key3 self_key4 self_key5 self_key6 self_key7) 4 ⟨a_22, a_24⟩ = ⟨a_24, a_26⟩ := by
    rw [round4, ← g12]
  have r13 : round (genExpSbox CryptoProA) (mk self_key0 self_key1 self_key2 self_key3 self_key4 self_key5 self_key6 self_key7) 5 ⟨a_24, a_26⟩ = ⟨a_26, a_28⟩ := by
    rw [round5, ← g13]
  have r14 : round (genExpSbox CryptoProA) (mk self_key0 self_key1 self_key2 self_key3 self_key4 self_key5 self_key6 self_key7) 6 ⟨a_26, a_28⟩ = ⟨a_28, a_30⟩ := by
    rw [round6, ← g14]
  have r15 : round (genExpSbox CryptoProA) (mk self_key0 self_key1 self_key2 self_key3 self_key4 self_key5 self_key6 self_key7) 7 ⟨a_28, a_30⟩ = ⟨a_30, a_32⟩ := by
    rw [round7, ← g15]
  have r16 : round (genExpSbox CryptoProA) (mk self_key0 self_key1 self_key2 self_key3 self_key4 self_key5 self_key6 self_key7) 0 ⟨a_30, a_32⟩ = ⟨a_32, a_34⟩ := by
    rw [round0, ← g16]
  have r17 : round (genExpSbox CryptoProA) (mk self_key0 self_key1 self_key2 self_key3 self_key4 self_key5 self_key6 self_key7) 1 ⟨a_32, a_34⟩ = ⟨a_34, a_36⟩ := by
    rw [round1, ← g17]
  have r18 : round (genExpSbox CryptoProA) (mk self_key0 self_key1 self_key2 self_key3 self_key4 self_key5 self_key6 self_key7) 2 ⟨a_34, a_36⟩ = ⟨a_36, a_38⟩ := by
    rw [round2, ← g18]
  have r19 : round (genExpSbox CryptoProA) (mk self_key0 self_key1 self_key2 self_key3 self_key4 self_key5 self_key6 self_key7) 3 ⟨a_36, a_38⟩ = ⟨a_38, a_40⟩ := by
    rw [round3, ← g19]
  have r20 : round (genExpSbox CryptoProA) (mk self_key0 self_key1 self_key2 self_key3 self_key4 self_key5 self_key6 self_key7) 4 ⟨a_38, a_40⟩ = ⟨a_40, a_42⟩ := by
    rw [round4, ← g20]
  have r21 : round (genExpSbox CryptoProA) (mk self_key0 self_key1 self_key2 self_key3 self_key4 self_key5 self_key6 self_key7) 5 ⟨a_40, a_42⟩ = ⟨a_42, a_44⟩ := by
    rw [round5, ← g21]
  have r22 : round (genExpSbox CryptoProA) (mk self_key0 self_key1 self_key2 self_key3 self_key4 self_key5 self_key6 self_key7) 6 ⟨a_42, a_44⟩ = ⟨a_44, a_46⟩ := by
    rw [round6, ← g22]
  have r23 : round (genExpSbox CryptoProA) (mk self_key0 self_key1 self_key2 self_key3 self_key4 self_key5 self_key6 self_key7) 7 ⟨a_44, a_46⟩ = ⟨a_46, a_48⟩ := by
    rw [round7, ← g23]
  have r24 : round (genExpSbox CryptoProA) (mk self_key0 self_key1 self_key2 self_key3 self_key4 self_key5 self_key6 self_key7) 7 ⟨a_46, a_48⟩ = ⟨a_48, a_50⟩ := by
    rw [round7, ← g24]
  have r25 : round (genExpSbox CryptoProA) (mk self_key0 self_key1 self_key2 self_key3 self_key4 self_key5 self_key6 self_key7) 6 ⟨a_48, a_50⟩ = ⟨a_50, a_52⟩ := by
    rw [round6, ← g25]
  have r26 : round (genExpSbox CryptoProA) (mk self_key0 self_key1 self_key2 self_key3 self_key4 self_key5 self_key6 self_key7) 5 ⟨a_50, a_52⟩ = ⟨a_52, a_54⟩ := by
    rw [round5, ← g26]
  have r27 : round (genExpSbox CryptoProA) (mk self_key0 self_key1 self_key2 self_key3 self_key4 self_key5 self_key6 self_key7) 4 ⟨a_52, a_54⟩ = ⟨a_54, a_56⟩ := by
    rw [round4, ← g27]
  have r28 : round (genExpSbox CryptoProA) (mk self_key0 self_key1 self_key2 self_key3 self_key4 self_key5 self_key6 self_key7) 3 ⟨a_54, a_56⟩ = ⟨a_56, a_58⟩ := by
    rw [round3, ← g28]
  have r29 : round (genExpSbox CryptoProA) (mk self_key0 self_key1 self_key2 self_key3 self_key4 self_key5 self_key6 self_key7) 2 ⟨a_56, a_58⟩ = ⟨a_58, a_60⟩ := by
    rw [round2, ← g29]
  have r30 : round (genExpSbox CryptoProA) (mk self_key0 self_key1 self_key2 self_key3 self_key4 self_key5 self_key6 self_key7) 1 ⟨a_58, a_60⟩ = ⟨a_60, a_62⟩ := by
    rw [round1, ← g30]
  have r31 : round (genExpSbox CryptoProA) (mk self_key0 self_key1 self_key2 self_key3 self_key4 self_key5 self_key6 self_key7) 0 ⟨a_60, a_62⟩ = ⟨a_62, a_60 ^^^ g_r_31⟩ := by
    rw [round0, ← g31]
  rw [out_bytes, encrypt_unfold, hl, r0, r1, r2, r3, r4, r5, r6, r7, r8, r9, r10, r11, r12, r13, r14, r15, r16, r17, r18, r19, r20, r21, r22, r23, r24, r25, r26, r27, r28, r29, r30, r31]
  rfl

theorem gost89_cryptoproa_decrypt_block_tables : TablesOf CryptoProA gost89_cryptoproa_decrypt_block_tbl0 gost89_cryptoproa_decrypt_block_tbl1 gost89_cryptoproa_decrypt_block_tbl2 gost89_cryptoproa_decrypt_block_tbl3 := by decide +kernel

/-- `gost89_cryptoproa_decrypt_block` (regenerated `Gost89<CryptoProA>::decrypt_block`) is the model's `decrypt CryptoProA`, for all keys and blocks -/
theorem gost89_cryptoproa_decrypt_block_eq (self_key0 self_key1 self_key2 self_key3 self_key4 self_key5 self_key6 self_key7 : BitVec 32) (block : BitVec 64) :
    gost89_cryptoproa_decrypt_block self_key0 self_key1 self_key2 self_key3 self_key4 self_key5 self_key6 self_key7 block = decrypt CryptoProA (mk self_key0 self_key1 self_key2 self_key3 self_key4 self_key5 self_key6 self_key7) block := by
  unfold gost89_cryptoproa_decrypt_block
  extract_lets -merge
  name_lets
  have T := @gstep_eq _ _ _ _ _ gost89_cryptoproa_decrypt_block_tables
  have hl : load block = { v0 := hi4 block, v1 := a } := load_bytes block
  have g0 : g_r = g (genExpSbox CryptoProA) a self_key0 := (T a self_key0) ▸ rfl
  have g1 : g_r_1 = g (genExpSbox CryptoProA) a_2 self_key1 := (T a_2 self_key1) ▸ rfl
  have g2 : g_r_2 = g (genExpSbox CryptoProA) a_4 self_key2 := (T a_4 self_key2) ▸ rfl
  have g3 : g_r_3 = g (genExpSbox CryptoProA) a_6 self_key3 := (T a_6 self_key3) ▸ rfl
  have g4 : g_r_4 = g (genExpSbox CryptoProA) a_8 self_key4 := (T a_8 self_key4) ▸ rfl
  have g5 : g_r_5 = g (genExpSbox CryptoProA) a_10 self_key5 := (T a_10 self_key5) ▸ rfl
  have g6 : g_r_6 = g (genExpSbox CryptoProA) a_12 self_key6 := (T a_12 self_key6) ▸ rfl
  have g7 : g_r_7 = g (genExpSbox CryptoProA) a_14 self_key7 := (T a_14 self_key7) ▸ rfl
  have g8 : g_r_8 = g (genExpSbox CryptoProA) a_16 self_key7 := (T a_16 self_key7) ▸ rfl
  have g9 : g_r_9 = g (genExpSbox CryptoProA) a_18 self_key6 := (T a_18 self_key6) ▸ rfl
  have g10 : g_r_10 = g (genExpSbox CryptoProA) a_20 self_key5 := (T a_20 self_key5) ▸ rfl
  have g11 : g_r_11 = g (genExpSbox CryptoProA) a_22 self_key4 := (T a_22 self_key4) ▸ rfl
  have g12 : g_r_12 = g (genExpSbox CryptoProA) a_24 self_key3 := (T a_24 self_key3) ▸ rfl
  have g13 : g_r_13 = g (genExpSbox CryptoProA) a_26 self_key2 := (T a_26 self_key2) ▸ rfl
  have g14 : g_r_14 = g (genExpSbox CryptoProA) a_28 self_key1 := (T a_28 self_key1) ▸ rfl
  have g15 : g_r_15 = g (genExpSbox CryptoProA) a_30 self_key0 := (T a_30 self_key0) ▸ rfl
  have g16 : g_r_16 = g (genExpSbox CryptoProA) a_32 self_key7 := (T a_32 self_key7) ▸ rfl
  have g17 : g_r_17 = g (genExpSbox CryptoProA) a_34 self_key6 := (T a_34 self_key6) ▸ rfl
  have g18 : g_r_18 = g (genExpSbox CryptoProA) a_36 self_key5 := (T a_36 self_key5) ▸ rfl
  have g19 : g_r_19 = g (genExpSbox CryptoProA) a_38 self_key4 := (T a_38 self_key4) ▸ rfl
  have g20 : g_r_20 = g (genExpSbox CryptoProA) a_40 self_key3 := (T a_40 self_key3) ▸ rfl
  have g21 : g_r_21 = g (genExpSbox CryptoProA) a_42 self_key2 := (T a_42 self_key2) ▸ rfl
  have g22 : g_r_22 = g (genExpSbox CryptoProA) a_44 self_key1 := (T a_44 self_key1) ▸ rfl
  have g23 : g_r_23 = g (genExpSbox CryptoProA) a_46 self_key0 := (T a_46 self_key0) ▸ rfl
  have g24 : g_r_24 = g (genExpSbox CryptoProA) a_48 self_key7 := (T a_48 self_key7) ▸ rfl
  have g25 : g_r_25 = g (genExpSbox CryptoProA) a_50 self_key6 := (T a_50 self_key6) ▸ rfl
  have g26 : g_r_26 = g (genExpSbox CryptoProA) a_52 self_key5 := (T a_52 self_key5) ▸ rfl
  have g27 : g_r_27 = g (genExpSbox CryptoProA) a_54 self_key4 := (T a_54 self_key4) ▸ rfl
  have g28 : g_r_28 = g (genExpSbox CryptoProA) a_56 self_key3 := (T a_56 self_key3) ▸ rfl
  have g29 : g_r_29 = g (genExpSbox CryptoProA) a_58 self_key2 := (T a_58 self_key2) ▸ rfl
  have g30 : g_r_30 = g (genExpSbox CryptoProA) a_60 self_key1 := (T a_60 self_key1) ▸ rfl
  have g31 : g_r_31 = g (genExpSbox CryptoProA) a_62 self_key0 := (T a_62 self_key0) ▸ rfl
  have r0 : round (genExpSbox CryptoProA) (mk self_key0 self_key1 self_key2 self_key3 self_key4 self_key5 self_key6 self_key7) 0 ⟨hi4 block, a⟩ = ⟨a, a_2⟩ := by
    rw [round0, ← g0]; rfl
  have r1 : round (genExpSbox CryptoProA) (mk self_key0 self_key1 self_key2 self_key3 self_key4 self_key5 self_key6 self_key7) 1 ⟨a, a_2⟩ = ⟨a_2, a_4⟩ := by
    rw [round1, ← g1]
  have r2 : round (genExpSbox CryptoProA) (mk self_key0 self_key1 self_key2 self_key3 self_key4 self_key5 self_key6 self_key7) 2 ⟨a_2, a_4⟩ = ⟨a_4, a_6⟩ := by
    rw [round2, ← g2]
  have r3 : round (genExpSbox CryptoProA) (mk self_key0 self_key1 self_key2 self_key3 self_key4 self_key5 self_key6 self_key7) 3 ⟨a_4, a_6⟩ = ⟨a_6, a_8⟩ := by
    rw [round3, ← g3]
  have r4 : round (genExpSbox CryptoProA) (mk self_key0 self_key1 self_key2 self_key3 self_key4 self_key5 self_key6 self_key7) 4 ⟨a_6, a_8⟩ = ⟨a_8, a_10⟩ := by
    rw [round4, ← g4]
  have r5 : round (genExpSbox CryptoProA) (mk self_key0 self_key1 self_key2 self_key3 self_key4 self_key5 self_key6 self_key7) 5 ⟨a_8, a_10⟩ = ⟨a_10, a_12⟩ := by
    rw [round5, ← g5]
  have r6 : round (genExpSbox CryptoProA) (mk self_key0 self_key1 self_key2 self_key3 self_key4 self_key5 self_key6 self_key7) 6 ⟨a_10, a_12⟩ = ⟨a_12, a_14⟩ := by
    rw [round6, ← g6]
  have r7 : round (genExpSbox CryptoProA) (mk self_key0 self_key1 self_key2 self_key3 self_key4 self_key5 self_key6 self_key7) 7 ⟨a_12, a_14⟩ = ⟨a_14, a_16⟩ := by
    rw [round7, ← g7]
  have r8 : round (genExpSbox CryptoProA) (mk self_key0 self_key1 self_key2 self_key3 self_key4 self_key5 self_key6 self_key7) 7 ⟨a_14, a_16⟩ = ⟨a_16, a_18⟩ := by
    rw [round7, ← g8]
  have r9 : round (genExpSbox CryptoProA) (mk self_key0 self_key1 self_key2 self_key3 self_key4 self_key5 self_key6 self_key7) 6 ⟨a_16, a_18⟩ = ⟨a_18, a_20⟩ := by
    rw [round6, ← g9]
  have r10 : round (genExpSbox CryptoProA) (mk self_key0 self_key1 self_key2 self_key3 self_key4 self_key5 self_key6 self_key7) 5 ⟨a_18, a_20⟩ = ⟨a_20, a_22⟩ := by
    rw [round5, ← g10]
  have r11 : round (genExpSbox CryptoProA) (mk self_key0 self_key1 self_key2 self_key3 self_key4 self_key5 self_key6 self_key7) 4 ⟨a_20, a_22⟩ = ⟨a_22, a_24⟩ := by
    rw [round4, ← g11]
  have r12 : round (genExpSbox CryptoProA) (mk self_key0 self_key1 self_key2 self_key3 self_key4 self_key5 self_key6 self_key7) 3 ⟨a_22, a_24⟩ = ⟨a_24, a_26⟩ := by
    rw [round3, ← g12]
  have r13 : round (genExpSbox CryptoProA) (mk self_key0 self_key1 self_key2 self_key3 self_key4 self_key5 self_key6 self_key7) 2 ⟨a_24, a_26⟩ = ⟨a_26, a_28⟩ := by
    rw [round2, ← g13]
  have r14 : round (genExpSbox CryptoProA) (mk self_key0 self_key1 self_key2 self_key3 self_key4 self_key5 self_key6 self_key7) 1 ⟨a_26, a_28⟩ = ⟨a_28, a_30⟩ := by
    rw [round1, ← g14]
  have r15 : round (genExpSbox CryptoProA) (mk self_key0 self_key1 self_key2 self_key3 self_key4 self_key5 self_key6 self_key7) 0 ⟨a_28, a_30⟩ = ⟨a_30, a_32⟩ := by
    rw [round0, ← g15]
  have r16 : round (genExpSbox CryptoProA) (mk self_key0 self_key1 self_key2 self_key3 self_key4 self_key5 self_key6 self_key7) 7 ⟨a_30, a_32⟩ = ⟨a_32, a_34⟩ := by
    rw [round7, ← g16]
  have r17 : round (genExpSbox CryptoProA) (mk self_key0 self_key1 self_key2 self_key3 self_key4 self_key5 self_key6 self_key7) 6 ⟨a_32, a_34⟩ = ⟨a_34, a_36⟩ := by
    rw [round6, ← g17]
  have r18 : round (genExpSbox CryptoProA) (mk self_key0 self_key1 self_key2 self_key3 self_key4 self_key5 self_key6 self_key7) 5 ⟨a_34, a_36⟩ = ⟨a_36, a_38⟩ := by
    rw [round5, ← g18]
  have r19 : round (genExpSbox CryptoProA) (mk self_key0 self_key1 self_key2 self_key3 self_key4 self_key5 self_key6 self_key7) 4 ⟨a_36, a_38⟩ = ⟨a_38, a_40⟩ := by
    rw [round4, ← g19]
  have r20 : round (genExpSbox CryptoProA) (mk self_key0 self_key1 self_key2 self_key3 self_key4 self_key5 self_key6 self_key7) 3 ⟨a_38, a_40⟩ = ⟨a_40, a_42⟩ := by
    rw [round3, ← g20]
  have r21 : round (genExpSbox CryptoProA) (mk self_key0 self_key1 self_key2 self_key3 self_key4 self_key5 self_key6 self_key7) 2 ⟨a_40, a_42⟩ = ⟨a_42, a_44⟩ := by
    rw [round2, ← g21]
  have r22 : round (genExpSbox CryptoProA) (mk self_key0 self_key1 self_key2 self_key3 self_key4 self_key5 self_key6 self_key7) 1 ⟨a_42, a_44⟩ = ⟨a_44, a_46⟩ := by
    rw [round1, ← g22]
  have r23 : round (genExpSbox CryptoProA) (mk self_key0 self_key1 self_key2 self_key3 self_key4 self_key5 self_key6 self_key7) 0 ⟨a_44, a_46⟩ = ⟨a_46, a_48⟩ := by
    rw [round0, ← g23]
  have r24 : round (genExpSbox CryptoProA) (mk self_key0 self_key1 self_key2 self_key3 self_key4 self_key5 self_key6 self_key7) 7 ⟨a_46, a_48⟩ = ⟨a_48, a_50⟩ := by
    rw [round7, ← g24]
  have r25 : round (genExpSbox CryptoProA) (mk self_key0 self_key1 self_key2 self_key3 self_key4 self_key5 self_key6 self_key7) 6 ⟨a_48, a_50⟩ = ⟨a_50, a_52⟩ := by
    rw [round6, ← g25]
  have r26 : round (genExpSbox CryptoProA) (mk self_key0 self_key1 self_key2 self_key3 self_key4 self_key5 self_key6 self_key7) 5 ⟨a_50, a_52⟩ = ⟨a_52, a_54⟩ := by
    rw [round5, ← g26]
  have r27 : round (genExpSbox CryptoProA) (mk self_key0 self_key1 self_key2 self_key3 self_key4 self_key5 self_key6 self_key7) 4 ⟨a_52, a_54⟩ = ⟨a_54, a_56⟩ := by
    rw [round4, ← g27]
  have r28 : round (genExpSbox CryptoProA) (mk self_key0 self_key1 self_key2 self_key3 self_key4 self_key5 self_key6 self_key7) 3 ⟨a_54, a_56⟩ = ⟨a_56, a_58⟩ := by
    rw [round3, ← g28]
  have r29 : round (genExpSbox CryptoProA) (mk self_key0 self_key1 self_key2 self_key3 self_key4 self_key5 self_key6 self_key7) 2 ⟨a_56, a_58⟩ = ⟨a_58, a_60⟩ := by
    rw [round2, ← g29]
  have r30 : round (genExpSbox CryptoProA) (mk self_key0 self_key1 self_key2 self_key3 self_key4 self_key5 self_key6 self_key7) 1 ⟨a_58, a_60⟩ = ⟨a_60, a_62⟩ := by
    rw [round1, ← g30]
  have r31 : round (genExpSbox CryptoProA) (mk self_key0 self_key1 self_key2 self_key3 self_key4 self_key5 self_key6 self_key7) 0 ⟨a_60, a_62⟩ = ⟨a_62, a_60 ^^^ g_r_31⟩ := by
    rw [round0, ← g31]
  rw [out_bytes, decrypt_unfold, hl, r0, r1, r2, r3, r4, r5, r6, r7, r8, r9, r10, r11, r12, r13, r14, r15, r16, r17, r18, r19, r20, r21, r22, r23, r24, r25, r26, r27, r28, r29, r30, r31]
  rfl

theorem gost89_cryptoprob_encrypt_block_tables : TablesOf CryptoProB gost89_cryptoprob_encrypt_block_tbl0 gost89_cryptoprob_encrypt_block_tbl1 gost89_cryptoprob_encrypt_block_tbl2 gost89_cryptoprob_encrypt_block_tbl3 := by decide +kernel

/-- `gost89_cryptoprob_encrypt_block` (regenerated `Gost89<CryptoProB>::encrypt_block`) is the model's `encrypt CryptoProB`, for all keys and blocks -/
theorem gost89_cryptoprob_encrypt_block_eq (self_key0 self_key1 self_key2 self_key3 self_key4 self_key5 self_key6 self_key7 : BitVec 32) (block : BitVec 64) :
    gost89_cryptoprob_encrypt_block self_key0 self_key1 self_key2 self_key3 self_key4 self_key5 self_key6 self_key7 block = encrypt CryptoProB (mk self_key0 self_key1 self_key2 self_key3 self_key4 self_key5 self_key6 self_key7) block := by
  unfold gost89_cryptoprob_encrypt_block
  extract_lets -merge
  name_lets
  have T := @gstep_eq _ _ _ _ _ gost89_cryptoprob_encrypt_block_tables
  have hl : load block = { v0 := hi4 block, v1 := a } := load_bytes block
  have g0 : g_r = g (genExpSbox CryptoProB) a self_key0 := (T a self_key0) ▸ rfl
  have g1 : g_r_1 = g (genExpSbox CryptoProB) a_2 self_key1 := (T a_2 self_key1) ▸ rfl
  have g2 : g_r_2 = g (genExpSbox CryptoProB) a_4 self_key2 := (T a_4 self_key2) ▸ rfl
  have g3 : g_r_3 = g (genExpSbox CryptoProB) a_6 self_key3 := (T a_6 self_key3) ▸ rfl
  have g4 : g_r_4 = g (genExpSbox CryptoProB) a_8 self_key4 := (T a_8 self_key4) ▸ rfl
  have g5 : g_r_5 = g (genExpSbox CryptoProB) a_10 self_key5 := (T a_10 self_key5) ▸ rfl
  have g6 : g_r_6 = g (genExpSbox CryptoProB) a_12 self_key6 := (T a_12 self_key6) ▸ rfl
  have g7 : g_r_7 = g (genExpSbox CryptoProB) a_14 self_key7 := (T a_14 self_key7) ▸ rfl
  have g8 : g_r_8 = g (genExpSbox CryptoProB) a_16 self_key0 := (T a_16 self_key0) ▸ rfl
  have g9 : g_r_9 = g (genExpSbox CryptoProB) a_18 self_key1 := (T a_18 self_key1) ▸ rfl
  have g10 : g_r_10 = g (genExpSbox CryptoProB) a_20 self_key2 := (T a_20 self_key2) ▸ rfl
  have g11 : g_r_11 = g (genExpSbox CryptoProB) a_22 self_key3 := (T a_22 self_key3) ▸ rfl
  have g12 : g_r_12 = g (genExpSbox CryptoProB) a_24 self_key4 := (T a_24 self_key4) ▸ rfl
  have g13 : g_r_13 = g (genExpSbox CryptoProB) a_26 self_key5 := (T a_26 self_key5) ▸ rfl
  have g14 : g_r_14 = g (genExpSbox CryptoProB) a_28 self_key6 := (T a_28 self_key6) ▸ rfl
  have g15 : g_r_15 = g (genExpSbox CryptoProB) a_30 self_key7 := (T a_30 self_key7) ▸ rfl
  have g16 : g_r_16 = g (genExpSbox CryptoProB) a_32 self_key0 := (T a_32 self_key0) ▸ rfl
  have g17 : g_r_17 = g (genExpSbox CryptoProB) a_34 self_key1 := (T a_34 self_key1) ▸ rfl
  have g18 : g_r_18 = g (genExpSbox CryptoProB) a_36 self_key2 := (T a_36 self_key2) ▸ rfl
  have g19 : g_r_19 = g (genExpSbox CryptoProB) a_38 self_key3 := (T a_38 self_key3) ▸ rfl
  have g20 : g_r_20 = g (genExpSbox CryptoProB) a_40 self_key4 := (T a_40 self_key4) ▸ rfl
  have g21 : g_r_21 = g (genExpSbox CryptoProB) a_42 self_key5 := (T a_42 self_key5) ▸ rfl
  have g22 : g_r_22 = g (genExpSbox CryptoProB) a_44 self_key6 := (T a_44 self_key6) ▸ rfl
  have g23 : g_r_23 = g (genExpSbox CryptoProB) a_46 self_key7 := (T a_46 self_key7) ▸ rfl
  have g24 : g_r_24 = g (genExpSbox CryptoProB) a_48 self_key7 := (T a_48 self_key7) ▸ rfl
  have g25 : g_r_25 = g (genExpSbox CryptoProB) a_50 self_key6 := (T a_50 self_key6) ▸ rfl
  have g26 : g_r_26 = g (genExpSbox CryptoProB) a_52 self_key5 := (T a_52 self_key5) ▸ rfl
  have g27 : g_r_27 = g (genExpSbox CryptoProB) a_54 self_key4 := (T a_54 self_key4) ▸ rfl
  have g28 : g_r_28 = g (genExpSbox CryptoProB) a_56 self_key3 := (T a_56 self_key3) ▸ rfl
  have g29 : g_r_29 = g (genExpSbox CryptoProB) a_58 self_key2 := (T a_58 self_key2) ▸ rfl
  have g30 : g_r_30 = g (genExpSbox CryptoProB) a_60 self_key1 := (T a_60 self_key1) ▸ rfl
  have g31 : g_r_31 = g (genExpSbox CryptoProB) a_62 self_key0 := (T a_62 self_key0) ▸ rfl
  have r0 : round (genExpSbox CryptoProB) (mk self_key0 self_key1 self_key2 self_key3 self_key4 self_key5 self_key6 self_key7) 0 ⟨hi4 block, a⟩ = ⟨a, a_2⟩ := by
    rw [round0, ← g0]; rfl
  have r1 : round (genExpSbox CryptoProB) (mk self_key0 self_key1 self_key2 self_key3 self_key4 self_key5 self_key6 self_key7) 1 ⟨a, a_2⟩ = ⟨a_2, a_4⟩ := by
    rw [round1, ← g1]
  have r2 : round (genExpSbox CryptoProB) (mk self_key0 self_key1 self_key2 self_key3 self_key4 self_key5 self_key6 self_key7) 2 ⟨a_2, a_4⟩ = ⟨a_4, a_6⟩ := by
    rw [round2, ← g2]
  have r3 : round (genExpSbox CryptoProB) (mk self_key0 self_key1 self_key2 self_key3 self_key4 self_key5 self_key6 self_key7) 3 ⟨a_4, a_6⟩ = ⟨a_6, a_8⟩ := by
    rw [round3, ← g3]
  have r4 : round (genExpSbox CryptoProB) (mk self_key0 self_key1 self_key2 self_key3 self_key4 self_key5 self_key6 self_key7) 4 ⟨a_6, a_8⟩ = ⟨a_8, a_10⟩ := by
    rw [round4, ← g4]
  have r5 : round (genExpSbox CryptoProB) (mk self_key0 self_key1 self_key2 self_key3 self_key4 self_key5 self_key6 self_key7) 5 ⟨a_8, a_10⟩ = ⟨a_10, a_12⟩ := by
    rw [round5, ← g5]
  have r6 : round (genExpSbox CryptoProB) (mk self_key0 self_key1 self_key2 self_key3 self_key4 self_key5 self_key6 self_key7) 6 ⟨a_10, a_12⟩ = ⟨a_12, a_14⟩ := by
    rw [round6, ← g6]
  have r7 : round (genExpSbox CryptoProB) (mk self_key0 self_key1 self_key2 self_key3 self_key4 self_key5 self_key6 self_key7) 7 ⟨a_12, a_14⟩ = ⟨a_14, a_16⟩ := by
    rw [round7, ← g7]
  have r8 : round (genExpSbox CryptoProB) (mk self_key0 self_key1 self_key2 self_key3 self_key4 self_key5 self_key6 self_key7) 0 ⟨a_14, a_16⟩ = ⟨a_16, a_18⟩ := by
    rw [round0, ← g8]
  have r9 : round (genExpSbox CryptoProB) (mk self_key0 self_key1 self_key2 self_key3 self_key4 self_key5 self_key6 self_key7) 1 ⟨a_16, a_18⟩ = ⟨a_18, a_20⟩ := by
    rw [round1, ← g9]
  have r10 : round (genExpSbox CryptoProB) (mk self_key0 self_key1 self_key2 self_key3 self_key4 self_key5 self_key6 self_key7) 2 ⟨a_18, a_20⟩ = ⟨a_20, a_22⟩ := by
    rw [round2, ← g10]
  have r11 : round (genExpSbox CryptoProB) (mk self_key0 self_key1 self_key2 self_key3 self_key4 self_key5 self_key6 self_key7) 3 ⟨a_20, a_22⟩ = ⟨a_22, a_24⟩ := by
    rw [round3, ← g11]
  have r12 : round (genExpSbox CryptoProB) (mk self_key0 self_key1 self_key2 self_key3 self_key4 self_key5 self_key6 self_key7) 4 ⟨a_22, a_24⟩ = ⟨a_24, a_26⟩ := by
    rw [round4, ← g12]
  have r13 : round (genExpSbox CryptoProB) (mk self_key0 self_key1 self_key2 self_key3 self_key4 self_key5 self_key6 self_key7) 5 ⟨a_24, a_26⟩ = ⟨a_26, a_28⟩ := by
    rw [round5, ← g13]
  have r14 : round (genExpSbox CryptoProB) (mk self_key0 self_key1 self_key2 self_key3 self_key4 self_key5 self_key6 self_key7) 6 ⟨a_26, a_28⟩ = ⟨a_28, a_30⟩ := by
    rw [round6, ← g14]
  have r15 : round (genExpSbox CryptoProB) (mk self_key0 self_key1 self_key2 self_key3 self_key4 self_key5 self_key6 self_key7) 7 ⟨a_28, a_30⟩ = ⟨a_30, a_32⟩ := by
    rw [round7, ← g15]
  have r16 : round (genExpSbox CryptoProB) (mk self_key0 self_key1 self_key2 self_key3 self_key4 self_key5 self_key6 self_key7) 0 ⟨a_30, a_32⟩ = ⟨a_32, a_34⟩ := by
    rw [round0, ← g16]
  have r17 : round (genExpSbox CryptoProB) (mk self_key0 self_key1 self_key2 self_key3 self_key4 self_key5 self_key6 self_key7) 1 ⟨a_32, a_34⟩ = ⟨a_34, a_36⟩ := by
    rw [round1, ← g17]
  have r18 : round (genExpSbox CryptoProB) (mk self_key0 self_key1 self_key2 self_key3 self_key4 self_key5 self_key6 self_key7) 2 ⟨a_34, a_36⟩ = ⟨a_36, a_38⟩ := by
    rw [round2, ← g18]
  have r19 : round (genExpSbox CryptoProB) (mk self_key0 self_key1 self_key2 self_key3 self_key4 self_key5 self_key6 self_key7) 3 ⟨a_36, a_38⟩ = ⟨a_38, a_40⟩ := by
    rw [round3, ← g19]
  have r20 : round (genExpSbox CryptoProB) (mk self_key0 self_key1 self_key2 self_key3 self_key4 self_key5 self_key6 self_key7) 4 ⟨a_38, a_40⟩ = ⟨a_40, a_42⟩ := by
    rw [round4, ← g20]
  have r21 : round (genExpSbox CryptoProB) (mk self_key0 self_key1 self_key2 self_key3 self_key4 self_key5 self_key6 self_key7) 5 ⟨a_40, a_42⟩ = ⟨a_42, a_44⟩ := by
    rw [round5, ← g21]
  have r22 : round (genExpSbox CryptoProB) (mk self_key0 self_key1 self_key2 self_key3 self_key4 self_key5 self_key6 self_key7) 6 ⟨a_42, a_44⟩ = ⟨a_44, a_46⟩ := by
    rw [round6, ← g22]
  have r23 : round (genExpSbox CryptoProB) (mk self_key0 self_key1 self_key2 self_key3 self_key4 self_key5 self_key6 self_key7) 7 ⟨a_44, a_46⟩ = ⟨a_46, a_48⟩ := by
    rw [round7, ← g23]
  have r24 : round (genExpSbox CryptoProB) (mk self_key0 self_key1 self_key2 self_key3 self_key4 self_key5 self_key6 self_key7) 7 ⟨a_46, a_48⟩ = ⟨a_48, a_50⟩ := by
    rw [round7, ← g24]
  have r25 : round (genExpSbox CryptoProB) (mk self_key0 self_key1 self_key2 self_key3 self_key4 self_key5 self_key6 self_key7) 6 ⟨a_48, a_50⟩ = ⟨a_50, a_52⟩ := by
    rw [round6, ← g25]
  have r26 : round (genExpSbox CryptoProB) (mk self_key0 self_key1 self_key2 self_key3 self_key4 self_key5 self_key6 self_key7) 5 ⟨a_50, a_52⟩ = ⟨a_52, a_54⟩ := by
    rw [round5, ← g26]
  have r27 : round (genExpSbox CryptoProB) (mk self_key0 self_key1 self_key2 self_key3 self_key4 self_key5 self_key6 self_key7) 4 ⟨a_52, a_54⟩ = ⟨a_54, a_56⟩ := by
    rw [round4, ← g27]
  have r28 : round (genExpSbox CryptoProB) (mk self_key0 self_key1 self_key2 self_key3 self_key4 self_key5 self_key6 self_key7) 3 ⟨a_54, a_56⟩ = ⟨a_56, a_58⟩ := by
    rw [round3, ← g28]
  have r29 : round (genExpSbox CryptoProB) (mk self_key0 self_key1 self_key2 self_key3 self_key4 self_key5 self_key6 self_key7) 2 ⟨a_56, a_58⟩ = ⟨a_58, a_60⟩ := by
    rw [round2, ← g29]
  have r30 : round (genExpSbox CryptoProB) (mk self_key0 self_key1 self_key2 self_key3 self_key4 self_key5 self_key6 self_key7) 1 ⟨a_58, a_60⟩ = ⟨a_60, a_62⟩ := by
    rw [round1, ← g30]
  have r31 : round (genExpSbox CryptoProB) (mk self_key0 self_key1 self_key2 self_key3 self_key4 self_key5 self_key6 self_key7) 0 ⟨a_60, a_62⟩ = ⟨a_62, a_60 ^^^ g_r_31⟩ := by
    rw [round0, ← g31]
  rw [out_bytes, encrypt_unfold, hl, r0, r1, r2, r3, r4, r5, r6, r7, r8, r9, r10, r11, r12, r13, r14, r15, r16, r17, r18, r19, r20, r21, r22, r23, r24, r25, r26, r27, r28, r29, r30, r31]
  rfl

theorem gost89_cryptoprob_decrypt_block_tables : TablesOf CryptoProB gost89_cryptoprob_decrypt_block_tbl0 gost89_cryptoprob_decrypt_block_tbl1 gost89_cryptoprob_decrypt_block_tbl2 gost89_cryptoprob_decrypt_block_tbl3 := by decide +kernel

/-- `gost89_cryptoprob_decrypt_block` (regenerated `Gost89<CryptoProB>::decrypt_block`) is the model's `decrypt CryptoProB`, for all keys and blocks -/
theorem gost89_cryptoprob_decrypt_block_eq (self_key0 self_key1 self_key2 self_key3 self_key4 self_key5 self_key6 self_key7 : BitVec 32) (block : BitVec 64) :
    gost89_cryptoprob_decrypt_block self_key0 self_key1 self_key2 self_key3 self_key4 self_key5 self_key6 self_key7 block = decrypt CryptoProB (mk self_key0 self_key1 self_key2 self_key3 self_key4 self_key5 self_key6 self_key7) block := by
  unfold gost89_cryptoprob_decrypt_block
  extract_lets -merge
  name_lets
  have T := @gstep_eq _ _ _ _ _ gost89_cryptoprob_decrypt_block_tables
  have hl : load block = { v0 := hi4 block, v1 := a } := load_bytes block
  have g0 : g_r = g (genExpSbox CryptoProB) a self_key0 := (T a self_key0) ▸ rfl
  have g1 : g_r_1 = g (genExpSbox CryptoProB) a_2 self_key1 := (T a_2 self_key1) ▸ rfl
  have g2 : g_r_2 = g (genExpSbox CryptoProB) a_4 self_key2 := (T a_4 self_key2) ▸ rfl
  have g3 : g_r_3 = g (genExpSbox CryptoProB) a_6 self_key3 := (T a_6 self_key3) ▸ rfl
  have g4 : g_r_4 = g (genExpSbox CryptoProB) a_8 self_key4 := (T a_8 self_key4) ▸ rfl
  have g5 : g_r_5 = g (genExpSbox CryptoProB) a_10 self_key5 := (T a_10 self_key5) ▸ rfl
  have g6 : g_r_6 = g (genExpSbox CryptoProB) a_12 self_key6 := (T a_12 self_key6) ▸ rfl
  have g7 : g_r_7 = g (genExpSbox CryptoProB) a_14 self_key7 := (T a_14 self_key7) ▸ rfl
  have g8 : g_r_8 = g (genExpSbox CryptoProB) a_16 self_key7 := (T a_16 self_key7) ▸ rfl
  have g9 : g_r_9 = g (genExpSbox CryptoProB) a_18 self_key6 := (T a_18 self_key6) ▸ rfl
  have g10 : g_r_10 = g (genExpSbox CryptoProB) a_20 self_key5 := (T a_20 self_key5) ▸ rfl
  have g11 : g_r_11 = g (genExpSbox CryptoProB) a_22 self_key4 := (T a_22 self_key4) ▸ rfl
  have g12 : g_r_12 = g (genExpSbox CryptoProB) a_24 self_key3 := (T a_24 self_key3) ▸ rfl
  have g13 : g_r_13 = g (genExpSbox CryptoProB) a_26 self_key2 := (T a_26 self_key2) ▸ rfl
  have g14 : g_r_14 = g (genExpSbox CryptoProB) a_28 self_key1 := (T a_28 self_key1) ▸ rfl
  have g15 : g_r_15 = g (genExpSbox CryptoProB) a_30 self_key0 := (T a_30 self_key0) ▸ rfl
  have g16 : g_r_16 = g (genExpSbox CryptoProB) a_32 self_key7 := (T a_32 self_key7) ▸ rfl
  have g17 : g_r_17 = g (genExpSbox CryptoProB) a_34 self_key6 := (T a_34 self_key6) ▸ rfl
  have g18 : g_r_18 = g (genExpSbox CryptoProB) a_36 self_key5 := (T a_36 self_key5) ▸ rfl
  have g19 : g_r_19 = g (genExpSbox CryptoProB) a_38 self_key4 := (T a_38 self_key4) ▸ rfl
  have g20 : g_r_20 = g (genExpSbox CryptoProB) a_40 self_key3 := (T a_40 self_key3) ▸ rfl
  have g21 : g_r_21 = g (genExpSbox CryptoProB) a_42 self_key2 := (T a_42 self_key2) ▸ rfl
  have g22 : g_r_22 = g (genExpSbox CryptoProB) a_44 self_key1 := (T a_44 self_key1) ▸ rfl
  have g23 : g_r_23 = g (genExpSbox CryptoProB) a_46 self_key0 := (T a_46 self_key0) ▸ rfl
  have g24 : g_r_24 = g (genExpSbox CryptoProB) a_48 self_key7 := (T a_48 self_key7) ▸ rfl
  have g25 : g_r_25 = g (genExpSbox CryptoProB) a_50 self_key6 := (T a_50 self_key6) ▸ rfl
  have g26 : g_r_26 = g (genExpSbox CryptoProB) a_52 self_key5 := (T a_52 self_key5) ▸ rfl
  have g27 : g_r_27 = g (genExpSbox CryptoProB) a_54 self_key4 := (T a_54 self_key4) ▸ rfl
  have g28 : g_r_28 = g (genExpSbox CryptoProB) a_56 self_key3 := (T a_56 self_key3) ▸ rfl
  have g29 : g_r_29 = g (genExpSbox CryptoProB) a_58 self_key2 := (T a_58 self_key2) ▸ rfl
  have g30 : g_r_30 = g (genExpSbox CryptoProB) a_60 self_key1 := (T a_60 self_key1) ▸ rfl
  have g31 : g_r_31 = g (genExpSbox CryptoProB) a_62 self_key0 := (T a_62 self_key0) ▸ rfl
  have r0 : round (genExpSbox CryptoProB) (mk self_key0 self_key1 self_key2 self_key3 self_key4 self_key5 self_key6 self_key7) 0 ⟨hi4 block, a⟩ = ⟨a, a_2⟩ := by
    rw [round0, ← g0]; rfl
  have r1 : round (genExpSbox CryptoProB) (mk self_key0 self_key1 self_key2 self_key3 self_key4 self_key5 self_key6 self_key7) 1 ⟨a, a_2⟩ = ⟨a_2, a_4⟩ := by
    rw [round1, ← g1]
  have r2 : round (genExpSbox CryptoProB) (mk self_key0 self_key1 self_key2 self_key3 self_key4 self_key5 self_key6 self_key7) 2 ⟨a_2, a_4⟩ = ⟨a_4, a_6⟩ := by
    rw [round2, ← g2]
  have r3 : round (genExpSbox CryptoProB) (mk self_key0 self_key1 self_key2 self_key3 self_key4 self_key5 self_key6 self_key7) 3 ⟨a_4, a_6⟩ = ⟨a_6, a_8⟩ := by
    rw [round3, ← g3]
  have r4 : round (genExpSbox CryptoProB) (mk self_key0 self_key1 self_key2 self_key3 self_key4 self_key5 self_key6 self_key7) 4 ⟨a_6, a_8⟩ = ⟨a_8, a_10⟩ := by
    rw [round4, ← g4]
  have r5 : round (genExpSbox CryptoProB) (mk self_key0 self_key1 self_key2 self_key3 self_key4 self_key5 self_key6 self_key7) 5 ⟨a_8, a_10⟩ = ⟨a_10, a_12⟩ := by
    rw [round5, ← g5]
  have r6 : round (genExpSbox CryptoProB) (mk self_key0 self_key1 self_key2 self_key3 self_key4 self_key5 self_key6 self_key7) 6 ⟨a_10, a_12⟩ = ⟨a_12, a_14⟩ := by
    rw [round6, ← g6]
  have r7 : round (genExpSbox CryptoProB) (mk self_key0 self_key1 self_key2 self_key3 self_key4 self_key5 self_key6 self_key7) 7 ⟨a_12, a_14⟩ = ⟨a_14, a_16⟩ := by
    rw [round7, ← g7]
  have r8 : round (genExpSbox CryptoProB) (mk self_key0 self_key1 self_key2 self_key3 self_key4 self_key5 self_key6 self_key7) 7 ⟨a_14, a_16⟩ = ⟨a_16, a_18⟩ := by
    rw [round7, ← g8]
  have r9 : round (genExpSbox CryptoProB) (mk self_key0 self_key1 self_key2 self_key3 self_key4 self_key5 self_key6 self_key7) 6 ⟨a_16, a_18⟩ = ⟨a_18, a_20⟩ := by
    rw [round6, ← g9]
  have r10 : round (genExpSbox CryptoProB) (mk self_key0 self_key1 self_key2 self_key3 self_key4 self_key5 self_key6 self_key7) 5 ⟨a_18, a_20⟩ = ⟨a_20, a_22⟩ := by
    rw [round5, ← g10]
  have r11 : round (genExpSbox CryptoProB) (mk self_key0 self_key1 self_key2 self_key3 self_key4 self_key5 self_key6 self_key7) 4 ⟨a_20, a_22⟩ = ⟨a_22, a_24⟩ := by
    rw [round4, ← g11]
  have r12 : round (genExpSbox CryptoProB) (mk self_key0 self_key1 self_key2 self_key3 self_key4 self_key5 self_key6 self_key7) 3 ⟨a_22, a_24⟩ = ⟨a_24, a_26⟩ := by
    rw [round3, ← g12]
  have r13 : round (genExpSbox CryptoProB) (mk self_key0 self_key1 self_key2 self_key3 self_key4 self_key5 self_key6 self_key7) 2 ⟨a_24, a_26⟩ = ⟨a_26, a_28⟩ := by
    rw [round2, ← g13]
  have r14 : round (genExpSbox CryptoProB) (mk self_key0 self_key1 self_key2 self_key3 self_key4 self_key5 self_key6 self_key7) 1 ⟨a_26, a_28⟩ = ⟨a_28, a_30⟩ := by
    rw [round1, ← g14]
  have r15 : round (genExpSbox CryptoProB) (mk self_key0 self_key1 self_key2 self_key3 self_key4 self_key5 self_key6 self_key7) 0 ⟨a_28, a_30⟩ = ⟨a_30, a_32⟩ := by
    rw [round0, ← g15]
  have r16 : round (genExpSbox CryptoProB) (mk self_key0 self_key1 self_key2 self_key3 self_key4 self_key5 self_key6 self_key7) 7 ⟨a_30, a_32⟩ = ⟨a_32, a_34⟩ := by
    rw [round7, ← g16]
  have r17 : round (genExpSbox CryptoProB) (mk self_key0 self_key1 self_key2 self_key3 self_key4 self_key5 self_key6 self_key7) 6 ⟨a_32, a_34⟩ = ⟨a_34, a_36⟩ := by
    rw [round6, ← g17]
  have r18 : round (genExpSbox CryptoProB) (mk self_key0 self_key1 self_key2 self_key3 self_key4 self_key5 self_key6 self_key7) 5 ⟨a_34, a_36⟩ = ⟨a_36, a_38⟩ := by
    rw [round5, ← g18]
  have r19 : round (genExpSbox CryptoProB) (mk self_key0 self_key1 self_key2 self_key3 self_key4 self_key5 self_key6 self_key7) 4 ⟨a_36, a_38⟩ = ⟨a_38, a_40⟩ := by
    rw [round4, ← g19]
  have r20 : round (genExpSbox CryptoProB) (mk self_key0 self_key1 self_key2 self_key3 self_key4 self_key5 self_key6 self_key7) 3 ⟨a_38, a_40⟩ = ⟨a_40, a_42⟩ := by
    rw [round3, ← g20]
  have r21 : round (genExpSbox CryptoProB) (mk self_key0 self_key1 self_key2 self_key3 self_key4 self_key5 self_key6 self_key7) 2 ⟨a_40, a_42⟩ = ⟨a_42, a_44⟩ := by
    rw [round2, ← g21]
  have r22 : round (genExpSbox CryptoProB) (mk self_key0 self_key1 self_key2 self_key3 self_key4 self_key5 self_key6 self_key7) 1 ⟨a_42, a_44⟩ = ⟨a_44, a_46⟩ := by
    rw [round1, ← g22]
  have r23 : round (genExpSbox CryptoProB) (mk self_key0 self_key1 self_key2 self_key3 self_key4 self_key5 self_key6 self_key7) 0 ⟨a_44, a_46⟩ = ⟨a_46, a_48⟩ := by
    rw [round0, ← g23]
  have r24 : round (genExpSbox CryptoProB) (mk self_key0 self_key1 self_key2 self_key3 self_key4 self_key5 self_key6 self_key7) 7 ⟨a_46, a_48⟩ = ⟨a_48, a_50⟩ := by
    rw [round7, ← g24]
  have r25 : round (genExpSbox CryptoProB) (mk self_key0 self_key1 self_key2 self_key3 self_key4 self_key5 self_key6 self_key7) 6 ⟨a_48, a_50⟩ = ⟨a_50, a_52⟩ := by
    rw [round6, ← g25]
  have r26 : round (genExpSbox CryptoProB) (mk self_key0 self_key1 self_key2 self_key3 self_key4 self_key5 self_key6 self_key7) 5 ⟨a_50, a_52⟩ = ⟨a_52, a_54⟩ := by
    rw [round5, ← g26]
  have r27 : round (genExpSbox CryptoProB) (mk self_key0 self_key1 self_key2 self_key3 self_key4 self_key5 self_key6 self_key7) 4 ⟨a_52, a_54⟩ = ⟨a_54, a_56⟩ := by
    rw [round4, ← g27]
  have r28 : round (genExpSbox CryptoProB) (mk self_key0 self_key1 self_key2 self_key3 self_key4 self_key5 self_key6 self_key7) 3 ⟨a_54, a_56⟩ = ⟨a_56, a_58⟩ := by
    rw [round3, ← g28]
  have r29 : round (genExpSbox CryptoProB) (mk self_key0 self_key1 self_key2 self_key3 self_key4 self_key5 self_key6 self_key7) 2 ⟨a_56, a_58⟩ = ⟨a_58, a_60⟩ := by
    rw [round2, ← g29]
  have r30 : round (genExpSbox CryptoProB) (mk self_key0 self_key1 self_key2 self_key3 self_key4 self_key5 self_key6 self_key7) 1 ⟨a_58, a_60⟩ = ⟨a_60, a_62⟩ := by
    rw [round1, ← g30]
  have r31 : round (genExpSbox CryptoProB) (mk self_key0 self_key1 self_key2 self_key3 self_key4 self_key5 self_key6 self_key7) 0 ⟨a_60, a_62⟩ = ⟨a_62, a_60 ^^^ g_r_31⟩ := by
    rw [round0, ← g31]
  rw [out_bytes, decrypt_unfold, hl, r0, r1, r2, r3, r4, r5, r6, r7, r8, r9, r10, r11, r12, r13, r14, r15, r16, r17, r18, r19, r20, r21, r22, r23, r24, r25, r26, r27, r28, r29, r30, r31]
  rfl

theorem gost89_cryptoproc_encrypt_block_tables : TablesOf CryptoProC gost89_cryptoproc_encrypt_block_tbl0 gost89_cryptoproc_encrypt_block_tbl1 gost89_cryptoproc_encrypt_block_tbl2 gost89_cryptoproc_encrypt_block_tbl3 := by decide +kernel

/-- `gost89_cryptoproc_encrypt_block` (regenerated `Gost89<CryptoProC>::encrypt_block`) is the model's `encrypt CryptoProC`, for all keys and blocks -/
theorem gost89_cryptoproc_encrypt_block_eq (self_key0 self_key1 self_key2 self_key3 self_key4 self_key5 self_key6 self_key7 : BitVec 32) (block : BitVec 64) :
    gost89_cryptoproc_encrypt_block self_key0 self_key1 self_key2 self_key3 self_key4 self_key5 self_key6 self_key7 block = encrypt CryptoProC (mk self_key0 self_key1 self_key2 self_key3 self_key4 self_key5 self_key6 self_key7) block := by
  unfold gost89_cryptoproc_encrypt_block
  extract_lets -merge
  name_lets
  have T := @gstep_eq _ _ _ _ _ gost89_cryptoproc_encrypt_block_tables
  have hl : load block = { v0 := hi4 block, v1 := a } := load_bytes block
  have g0 : g_r = g (genExpSbox CryptoProC) a self_key0 := (T a self_key0) ▸ rfl
  have g1 : g_r_1 = g (genExpSbox CryptoProC) a_2 self_key1 := (T a_2 self_key1) ▸ rfl
  have g2 : g_r_2 = g (genExpSbox CryptoProC) a_4 self_key2 := (T a_4 self_key2) ▸ rfl
  have g3 : g_r_3 = g (genExpSbox CryptoProC) a_6 self_key3 := (T a_6 self_key3) ▸ rfl
  have g4 : g_r_4 = g (genExpSbox CryptoProC) a_8 self_key4 := (T a_8 self_key4) ▸ rfl
  have g5 : g_r_5 = g (genExpSbox CryptoProC) a_10 self_key5 := (T a_10 self_key5) ▸ rfl
  have g6 : g_r_6 = g (genExpSbox CryptoProC) a_12 self_key6 := (T a_12 self_key6) ▸ rfl
  have g7 : g_r_7 = g (genExpSbox CryptoProC) a_14 self_key7 := (T a_14 self_key7) ▸ rfl
  have g8 : g_r_8 = g (genExpSbox CryptoProC) a_16 self_key0 := (T a_16 self_key0) ▸ rfl
  have g9 : g_r_9 = g (genExpSbox CryptoProC) a_18 self_key1 := (T a_18 self_key1) ▸ rfl
  have g10 : g_r_10 = g (genExpSbox CryptoProC) a_20 self_key2 := (T a_20 self_key2) ▸ rfl
  have g11 : g_r_11 = g (genExpSbox CryptoProC) a_22 self_key3 := (T a_22 self_key3) ▸ rfl
  have g12 : g_r_12 = g (genExpSbox CryptoProC) a_24 self_key4 := (T a_24 self_key4) ▸ rfl
  have g13 : g_r_13 = g (genExpSbox CryptoProC) a_26 self_key5 := (T a_26 self_key5) ▸ rfl
  have g14 : g_r_14 = g (genExpSbox CryptoProC) a_28 self_key6 := (T a_28 self_key6) ▸ rfl
  have g15 : g_r_15 = g (genExpSbox CryptoProC) a_30 self_key7 := (T a_30 self_key7) ▸ rfl
  have g16 : g_r_16 = g (genExpSbox CryptoProC) a_32 self_key0 := (T a_32 self_key0) ▸ rfl
  have g17 : g_r_17 = g (genExpSbox CryptoProC) a_34 self_key1 := (T a_34 self_key1) ▸ rfl
  have g18 : g_r_18 = g (genExpSbox CryptoProC) a_36 self_key2 := (T a_36 self_key2) ▸ rfl
  have g19 : g_r_19 = g (genExpSbox CryptoProC) a_38 self_key3 := (T a_38 self_key3) ▸ rfl
  have g20 : g_r_20 = g (genExpSbox CryptoProC) a_40 self_key4 := (T a_40 self_key4) ▸ rfl
  have g21 : g_r_21 = g (genExpSbox CryptoProC) a_42 self_key5 := (T a_42 self_key5) ▸ rfl
  have g22 : g_r_22 = g (genExpSbox CryptoProC) a_44 self_key6 := (T a_44 self_key6) ▸ rfl
  have g23 : g_r_23 = g (genExpSbox CryptoProC) a_46 self_key7 := (T a_46 self_key7) ▸ rfl
  have g24 : g_r_24 = g (genExpSbox CryptoProC) a_48 self_key7 := (T a_48 self_key7) ▸ rfl
  have g25 : g_r_25 = g (genExpSbox CryptoProC) a_50 self_key6 := (T a_50 self_key6) ▸ rfl
  have g26 : g_r_26 = g (genExpSbox CryptoProC) a_52 self_key5 := (T a_52 self_key5) ▸ rfl
  have g27 : g_r_27 = g (genExpSbox CryptoProC) a_54 self_key4 := (T a_54 self_key4) ▸ rfl
  have g28 : g_r_28 = g (genExpSbox CryptoProC) a_56 self_key3 := (T a_56 self_key3) ▸ rfl
  have g29 : g_r_29 = g (genExpSbox CryptoProC) a_58 self_key2 := (T a_58 self_key2) ▸ rfl
  have g30 : g_r_30 = g (genExpSbox CryptoProC) a_60 self_key1 := (T a_60 self_key1) ▸ rfl
  have g31 : g_r_31 = g (genExpSbox CryptoProC) a_62 self_key0 := (T a_62 self_key0) ▸ rfl
  have r0 : round (genExpSbox CryptoProC) (mk self_key0 self_key1 self_key2 self_key3 self_key4 self_key5 self_key6 self_key7) 0 ⟨hi4 block, a⟩ = ⟨a, a_2⟩ := by
    rw [round0, ← g0]; rfl
  have r1 : round (genExpSbox CryptoProC) (mk self_key0 self_key1 self_key2 self_key3 self_key4 self_key5 self_key6 self_key7) 1 ⟨a, a_2⟩ = ⟨a_2, a_4⟩ := by
    rw [round1, ← g1]
  have r2 : round (genExpSbox CryptoProC) (mk self_key0 self_key1 self_key2 self_key3 self_key4 self_key5 self_key6 self_key7) 2 ⟨a_2, a_4⟩ = ⟨a_4, a_6⟩ := by
    rw [round2, ← g2]
  have r3 : round (genExpSbox CryptoProC) (mk self_key0 self_key1 self_key2 self_key3 self_key4 self_key5 self_key6 self_key7) 3 ⟨a_4, a_6⟩ = ⟨a_6, a_8⟩ := by
    rw [round3, ← g3]
  have r4 : round (genExpSbox CryptoProC) (mk self_key0 self_key1 self_key2 self_key3 self_key4 self_key5 self_key6 self_key7) 4 ⟨a_6, a_8⟩ = ⟨a_8, a_10⟩ := by
    rw [round4, ← g4]
  have r5 : round (genExpSbox CryptoProC) (mk self_key0 self_key1 self_key2 self_key3 self_key4 self_key5 self_key6 self_key7) 5 ⟨a_8, a_10⟩ = ⟨a_10, a_12⟩ := by
    rw [round5, ← g5]
  have r6 : round (genExpSbox CryptoProC) (mk self_key0 self_key1 self_key2 self_key3 self_key4 self_key5 self_key6 self_key7) 6 ⟨a_10, a_12⟩ = ⟨a_12, a_14⟩ := by
    rw [round6, ← g6]
  have r7 : round (genExpSbox CryptoProC) (mk self_key0 self_key1 self_key2 self_key3 self_key4 self_key5 self_key6 self_key7) 7 ⟨a_12, a_14⟩ = ⟨a_14, a_16⟩ := by
    rw [round7, ← g7]
  have r8 : round (genExpSbox CryptoProC) (mk self_key0 self_key1 self_key2 self_key3 self_key4 self_key5 self_key6 self_key7) 0 ⟨a_14, a_16⟩ = ⟨a_16, a_18⟩ := by
    rw [round0, ← g8]
  have r9 : round (genExpSbox CryptoProC) (mk self_key0 self_key1 self_key2 self_key3 self_key4 self_key5 self_key6 self_key7) 1 ⟨a_16, a_18⟩ = ⟨a_18, a_20⟩ := by
    rw [round1, ← g9]
  have r10 : round (genExpSbox CryptoProC) (mk self_key0 self_key1 self_key2 self_key3 self_key4 self_key5 self_key6 self_key7) 2 ⟨a_18, a_20⟩ = ⟨a_20, a_22⟩ := by
    rw [round2, ← g10]
  have r11 : round (genExpSbox CryptoProC) (mk self_key0 self_key1 self_key2 self_key3 self_key4 self_key5 self_key6 self_key7) 3 ⟨a_20, a_22⟩ = ⟨a_22, a_24⟩ := by
    rw [round3, ← g11]
  have r12 : round (genExpSbox CryptoProC) (mk self_key0 self_key1 self_key2 self_key3 self_key4 self_key5 self_key6 self_key7) 4 ⟨a_22, a_24⟩ = ⟨a_24, a_26⟩ := by
    rw [round4, ← g12]
  have r13 : round (genExpSbox CryptoProC) (mk self_key0 self_key1 self_key2 self_key3 self_key4 self_key5 self_key6 self_key7) 5 ⟨a_24, a_26⟩ = ⟨a_26, a_28⟩ := by
    rw [round5, ← g13]
  have r14 : round (genExpSbox CryptoProC) (mk self_key0 self_key1 self_key2 self_key3 self_key4 self_key5 self_key6 self_key7) 6 ⟨a_26, a_28⟩ = ⟨a_28, a_30⟩ := by
    rw [round6, ← g14]
  have r15 : round (genExpSbox CryptoProC) (mk self_key0 self_key1 self_key2 self_key3 self_key4 self_key5 self_key6 self_key7) 7 ⟨a_28, a_30⟩ = ⟨a_30, a_32⟩ := by
    rw [round7, ← g15]
  have r16 : round (genExpSbox CryptoProC) (mk self_key0 self_key1 self_key2 self_key3 self_key4 self_key5 self_key6 self_key7) 0 ⟨a_30, a_32⟩ = ⟨a_32, a_34⟩ := by
    rw [round0, ← g16]
  have r17 : round (genExpSbox CryptoProC) (mk self_key0 self_key1 self_key2 self_key3 self_key4 self_key5 self_key6 self_key7) 1 ⟨a_32, a_34⟩ = ⟨a_34, a_36⟩ := by
    rw [round1, ← g17]
  have r18 : round (genExpSbox CryptoProC) (mk self_key0 self_key1 self_key2 self_key3 self_key4 self_key5 self_key6 self_key7) 2 ⟨a_34, a_36⟩ = ⟨a_36, a_38⟩ := by
    rw [round2, ← g18]
  have r19 : round (genExpSbox CryptoProC) (mk self_key0 self_key1 self_key2 self_key3 self_key4 self_key5 self_key6 self_key7) 3 ⟨a_36, a_38⟩ = ⟨a_38, a_40⟩ := by
    rw [round3, ← g19]
  have r20 : round (genExpSbox CryptoProC) (mk self_key0 self_key1 self_key2 self_key3 self_key4 self_key5 self_key6 self_key7) 4 ⟨a_38, a_40⟩ = ⟨a_40, a_42⟩ := by
    rw [round4, ← g20]
  have r21 : round (genExpSbox CryptoProC) (mk self_key0 self_key1 self_key2 self_key3 self_key4 self_key5 self_key6 self_key7) 5 ⟨a_40, a_42⟩ = ⟨a_42, a_44⟩ := by
    rw [round5, ← g21]
  have r22 : round (genExpSbox CryptoProC) (mk self_key0 self_key1 self_key2 self_key3 self_key4 self_key5 self_key6 self_key7) 6 ⟨a_42, a_44⟩ = ⟨a_44, a_46⟩ := by
    rw [round6, ← g22]
  have r23 : round (genExpSbox CryptoProC) (mk self_key0 self_key1 self_key2 self_key3 self_key4 self_key5 self_key6 self_key7) 7 ⟨a_44, a_46⟩ = ⟨a_46, a_48⟩ := by
    rw [round7, ← g23]
  have r24 : round (genExpSbox CryptoProC) (mk self_key0 self_key1 self_key2 self_key3 self_key4 self_key5 self_key6 self_key7) 7 ⟨a_46, a_48⟩ = ⟨a_48, a_50⟩ := by
    rw [round7, ← g24]
  have r25 : round (genExpSbox CryptoProC) (mk self_key0 self_key1 self_key2 self_key3 self_key4 self_key5 self_key6 self_key7) 6 ⟨a_48, a_50⟩ = ⟨a_50, a_52⟩ := by
    rw [round6, ← g25]
  have r26 : round (genExpSbox CryptoProC) (mk self_key0 self_key1 self_key2 self_key3 self_key4 self_key5 self_key6 self_key7) 5 ⟨a_50, a_52⟩ = ⟨a_52, a_54⟩ := by
    rw [round5, ← g26]
  have r27 : round (genExpSbox CryptoProC) (mk self_key0 self_key1 self_key2 self_key3 self_key4 self_key5 self_key6 self_key7) 4 ⟨a_52, a_54⟩ = ⟨a_54, a_56⟩ := by
    rw [round4, ← g27]
  have r28 : round (genExpSbox CryptoProC) (mk self_key0 self_key1 self_key2 self_key3 self_key4 self_key5 self_key6 self_key7) 3 ⟨a_54, a_56⟩ = ⟨a_56, a_58⟩ := by
    rw [round3, ← g28]
  have r29 : round (genExpSbox CryptoProC) (mk self_key0 self_key1 self_key2 self_key3 self_key4 self_key5 self_key6 self_key7) 2 ⟨a_56, a_58⟩ = ⟨a_58, a_60⟩ := by
    rw [round2, ← g29]
  have r30 : round (genExpSbox CryptoProC) (mk self_key0 self_key1 self_key2 self_key3 self_key4 self_key5 self_key6 self_key7) 1 ⟨a_58, a_60⟩ = ⟨a_60, a_62⟩ := by
    rw [round1, ← g30]
  have r31 : round (genExpSbox CryptoProC) (mk self_key0 self_key1 self_key2 self_key3 self_key4 self_key5 self_key6 self_key7) 0 ⟨a_60, a_62⟩ = ⟨a_62, a_60 ^^^ g_r_31⟩ := by
    rw [round0, ← g31]
  rw [out_bytes, encrypt_unfold, hl, r0, r1, r2, r3, r4, r5, r6, r7, r8, r9, r10, r11, r12, r13, r14, r15, r16, r17, r18, r19, r20, r21, r22, r23, r24, r25, r26, r27, r28, r29, r30, r31]
  rfl

theorem gost89_cryptoproc_decrypt_block_tables : TablesOf CryptoProC gost89_cryptoproc_decrypt_block_tbl0 gost89_cryptoproc_decrypt_block_tbl1 gost89_cryptoproc_decrypt_block_tbl2 gost89_cryptoproc_decrypt_block_tbl3 := by decide +kernel

/-- `gost89_cryptoproc_decrypt_block` (regenerated `Gost89<CryptoProC>::decrypt_block`) is the model's `decrypt CryptoProC`, for all keys and blocks -/
theorem gost89_cryptoproc_decrypt_block_eq (self_key0 self_key1 self_key2 self_key3 self_key4 self_key5 self_key6 self_key7 : BitVec 32) (block : BitVec 64) :
    gost89_cryptoproc_decrypt_block self_key0 self_key1 self_key2 self_key3 self_key4 self_key5 self_key6 self_key7 block = decrypt CryptoProC (mk self_key0 self_key1 self_key2 self_key3 self_key4 self_key5 self_key6 self_key7) block := by
  unfold gost89_cryptoproc_decrypt_block
  extract_lets -merge
  name_lets
  have T := @gstep_eq _ _ _ _ _ gost89_cryptoproc_decrypt_block_tables
  have hl : load block = { v0 := hi4 block, v1 := a } := load_bytes block
  have g0 : g_r = g (genExpSbox CryptoProC) a self_key0 := (T a self_key0) ▸ rfl
  have g1 : g_r_1 = g (genExpSbox CryptoProC) a_2 self_key1 := (T a_2 self_key1) ▸ rfl
  have g2 : g_r_2 = g (genExpSbox CryptoProC) a_4 self_key2 := (T a_4 self_key2) ▸ rfl
  have g3 : g_r_3 = g (genExpSbox CryptoProC) a_6 self_key3 := (T a_6 self_key3) ▸ rfl
  have g4 : g_r_4 = g (genExpSbox CryptoProC) a_8 self_key4 := (T a_8 self_key4) ▸ rfl
  have g5 : g_r_5 = g (genExpSbox CryptoProC) a_10 self_key5 := (T a_10 self_key5) ▸ rfl
  have g6 : g_r_6 = g (genExpSbox CryptoProC) a_12 self_key6 := (T a_12 self_key6) ▸ rfl
  have g7 : g_r_7 = g (genExpSbox CryptoProC) a_14 self_key7 := (T a_14 self_key7) ▸ rfl
  have g8 : g_r_8 = g (genExpSbox CryptoProC) a_16 self_key7 := (T a_16 self_key7) ▸ rfl
  have g9 : g_r_9 = g (genExpSbox CryptoProC) a_18 self_key6 := (T a_18 self_key6) ▸ rfl
  have g10 : g_r_10 = g (genExpSbox CryptoProC) a_20 self_key5 := (T a_20 self_key5) ▸ rfl
  have g11 : g_r_11 = g (genExpSbox CryptoProC) a_22 self_key4 := (T a_22 self_key4) ▸ rfl
  have g12 : g_r_12 = g (genExpSbox CryptoProC) a_24 self_key3 := (T a_24 self_key3) ▸ rfl
  have g13 : g_r_13 = g (genExpSbox CryptoProC) a_26 self_key2 := (T a_26 self_key2) ▸ rfl
  have g14 : g_r_14 = g (genExpSbox CryptoProC) a_28 self_key1 := (T a_28 self_key1) ▸ rfl
  have g15 : g_r_15 = g (genExpSbox CryptoProC) a_30 self_key0 := (T a_30 self_key0) ▸ rfl
  have g16 : g_r_16 = g (genExpSbox CryptoProC) a_32 self_key7 := (T a_32 self_key7) ▸ rfl
  have g17 : g_r_17 = g (genExpSbox CryptoProC) a_34 self_key6 := (T a_34 self_key6) ▸ rfl
  have g18 : g_r_18 = g (genExpSbox CryptoProC) a_36 self_key5 := (T a_36 self_key5) ▸ rfl
  have g19 : g_r_19 = g (genExpSbox CryptoProC) a_38 self_key4 := (T a_38 self_key4) ▸ rfl
  have g20 : g_r_20 = g (genExpSbox CryptoProC) a_40 self_key3 := (T a_40 self_key3) ▸ rfl
  have g21 : g_r_21 = g (genExpSbox CryptoProC) a_42 self_key2 := (T a_42 self_key2) ▸ rfl
  have g22 : g_r_22 = g (genExpSbox CryptoProC) a_44 self_key1 := (T a_44 self_key1) ▸ rfl
  have g23 : g_r_23 = g (genExpSbox CryptoProC) a_46 self_key0 := (T a_46 self_key0) ▸ rfl
  have g24 : g_r_24 = g (genExpSbox CryptoProC) a_48 self_key7 := (T a_48 self_key7) ▸ rfl
  have g25 : g_r_25 = g (genExpSbox CryptoProC) a_50 self_key6 := (T a_50 self_key6) ▸ rfl
  have g26 : g_r_26 = g (genExpSbox CryptoProC) a_52 self_key5 := (T a_52 self_key5) ▸ rfl
  have g27 : g_r_27 = g (genExpSbox CryptoProC) a_54 self_key4 := (T a_54 self_key4) ▸ rfl
  have g28 : g_r_28 = g (genExpSbox CryptoProC) a_56 self_key3 := (T a_56 self_key3) ▸ rfl
  have g29 : g_r_29 = g (genExpSbox CryptoProC) a_58 self_key2 := (T a_58 self_key2) ▸ rfl
  have g30 : g_r_30 = g (genExpSbox CryptoProC) a_60 self_key1 := (T a_60 self_key1) ▸ rfl
  have g31 : g_r_31 = g (genExpSbox CryptoProC) a_62 self_key0 := (T a_62 self_key0) ▸ rfl
  have r0 : round (genExpSbox CryptoProC) (mk self_key0 self_key1 self_key2 self_key3 self_key4 self_key5 self_key6 self_key7) 0 ⟨hi4 block, a⟩ = ⟨a, a_2⟩ := by
    rw [round0, ← g0]; rfl
  have r1 : round (genExpSbox CryptoProC) (mk self_key0 self_key1 self_key2 self_key3 self_key4 self_key5 self_key6 self_key7) 1 ⟨a, a_2⟩ = ⟨a_2, a_4⟩ := by
    rw [round1, ← g1]
  have r2 : round (genExpSbox CryptoProC) (mk self_key0 self_key1 self_key2 self_key3 self_key4 self_key5 self_key6 self_key7) 2 ⟨a_2, a_4⟩ = ⟨a_4, a_6⟩ := by
    rw [round2, ← g2]
  have r3 : round (genExpSbox CryptoProC) (mk self_key0 self_key1 self_key2 self_key3 self_key4 self_key5 self_key6 self_key7) 3 ⟨a_4, a_6⟩ = ⟨a_6, a_8⟩ := by
    rw [round3, ← g3]
  have r4 : round (genExpSbox CryptoProC) (mk self_key0 self_key1 self_key2 self_key3 self_key4 self_key5 self_key6 self_key7) 4 ⟨a_6, a_8⟩ = ⟨a_8, a_10⟩ := by
    rw [round4, ← g4]
  have r5 : round (genExpSbox CryptoProC) (mk self_key0 self_key1 self_key2 self_key3 self_key4 self_key5 self_key6 self_key7) 5 ⟨a_8, a_10⟩ = ⟨a_10, a_12⟩ := by
    rw [round5, ← g5]
  have r6 : round (genExpSbox CryptoProC) (mk self_key0 self_key1 self_key2 self_key3 self_key4 self_key5 self_key6 self_key7) 6 ⟨a_10, a_12⟩ = ⟨a_12, a_14⟩ := by
    rw [round6, ← g6]
  have r7 : round (genExpSbox CryptoProC) (mk self_key0 self_key1 self_key2 self_key3 self_key4 self_key5 self_key6 self_key7) 7 ⟨a_12, a_14⟩ = ⟨a_14, a_16⟩ := by
    rw [round7, ← g7]
  have r8 : round (genExpSbox CryptoProC) (mk self_key0 self_key1 self_key2 self_key3 self_key4 self_key5 self_key6 self_key7) 7 ⟨a_14, a_16⟩ = ⟨a_16, a_18⟩ := by
    rw [round7, ← g8]
  have r9 : round (genExpSbox CryptoProC) (mk self_key0 self_key1 self_key2 self_key3 self_key4 self_key5 self_key6 self_key7) 6 ⟨a_16, a_18⟩ = ⟨a_18, a_20⟩ := by
    rw [round6, ← g9]
  have r10 : round (genExpSbox CryptoProC) (mk self_key0 self_key1 self_key2 self_key3 self_key4 self_key5 self_key6 self_key7) 5 ⟨a_18, a_20⟩ = ⟨a_20, a_22⟩ := by
    rw [round5, ← g10]
  have r11 : round (genExpSbox CryptoProC) (mk self_key0 self_key1 self_key2 self_key3 self_key4 self_key5 self_key6 self_key7) 4 ⟨a_20, a_22⟩ = ⟨a_22, a_24⟩ := by
    rw [round4, ← g11]
  have r12 : round (genExpSbox CryptoProC) (mk self_key0 self_key1 self_key2 self_key3 self_key4 self_key5 self_key6 self_key7) 3 ⟨a_22, a_24⟩ = ⟨a_24, a_26⟩ := by
    rw [round3, ← g12]
  have r13 : round (genExpSbox CryptoProC) (mk self_key0 self_key1 self_key2 self_key3 self_key4 self_key5 self_key6 self_key7) 2 ⟨a_24, a_26⟩ = ⟨a_26, a_28⟩ := by
    rw [round2, ← g13]
  have r14 : round (genExpSbox CryptoProC) (mk self_key0 self_key1 self_key2 self_key3 self_key4 self_key5 self_key6 self_key7) 1 ⟨a_26, a_28⟩ = ⟨a_28, a_30⟩ := by
    rw [round1, ← g14]
  have r15 : round (genExpSbox CryptoProC) (mk self_key0 self_key1 self_key2 self_key3 self_key4 self_key5 self_key6 self_key7) 0 ⟨a_28, a_30⟩ = ⟨a_30, a_32⟩ := by
    rw [round0, ← g15]
  have r16 : round (genExpSbox CryptoProC) (mk self_key0 self_key1 self_key2 self_key3 self_key4 self_key5 self_key6 self_key7) 7 ⟨a_30, a_32⟩ = ⟨a_32, a_34⟩ := by
    rw [round7, ← g16]
  have r17 : round (genExpSbox CryptoProC) (mk self_key0 self_key1 self_key2 self_key3 self_key4 self_key5 self_key6 self_key7) 6 ⟨a_32, a_34⟩ = ⟨a_34, a_36⟩ := by
    rw [round6, ← g17]
  have r18 : round (genExpSbox CryptoProC) (mk self_key0 self_key1 self_key2 self_key3 self_key4 self_key5 self_key6 self_key7) 5 ⟨a_34, a_36⟩ = ⟨a_36, a_38⟩ := by
    rw [round5, ← g18]
  have r19 : round (genExpSbox CryptoProC) (mk self_key0 self_key1 self_key2 self_key3 self_key4 self_key5 self_key6 self_key7) 4 ⟨a_36, a_38⟩ = ⟨a_38, a_40⟩ := by
    rw [round4, ← g19]
  have r20 : round (genExpSbox CryptoProC) (mk self_key0 self_key1 self_key2 self_key3 self_key4 self_key5 self_key6 self_key7) 3 ⟨a_38, a_40⟩ = ⟨a_40, a_42⟩ := by
    rw [round3, ← g20]
  have r21 : round (genExpSbox CryptoProC) (mk self_key0 self_key1 self_key2 self_key3 self_key4 self_key5 self_key6 self_key7) 2 ⟨a_40, a_42⟩ = ⟨a_42, a_44⟩ := by
    rw [round2, ← g21]
  have r22 : round (genExpSbox CryptoProC) (mk self_key0 self_key1 self_key2 self_key3 self_key4 self_key5 self_key6 self_key7) 1 ⟨a_42, a_44⟩ = ⟨a_44, a_46⟩ := by
    rw [round1, ← g22]
  have r23 : round (genExpSbox CryptoProC) (mk self_key0 self_key1 self_key2 self_key3 self_key4 self_key5 self_key6 self_key7) 0 ⟨a_44, a_46⟩ = ⟨a_46, a_48⟩ := by
    rw [round0, ← g23]
  have r24 : round (genExpSbox CryptoProC) (mk self_key0 self_key1 self_key2 self_key3 self_key4 self_key5 self_key6 self_key7) 7 ⟨a_46, a_48⟩ = ⟨a_48, a_50⟩ := by
    rw [round7, ← g24]
  have r25 : round (genExpSbox CryptoProC) (mk self_key0 self_key1 self_key2 self_key3 self_key4 self_key5 self_key6 self_key7) 6 ⟨a_48, a_50⟩ = ⟨a_50, a_52⟩ := by
    rw [round6, ← g25]
  have r26 : round (genExpSbox CryptoProC) (mk self_key0 self_key1 self_key2 self_key3 self_key4 self_key5 self_key6 self_key7) 5 ⟨a_50, a_52⟩ = ⟨a_52, a_54⟩ := by
    rw [round5, ← g26]
  have r27 : round (genExpSbox CryptoProC) (mk self_key0 self_key1 self_key2 self_key3 self_key4 self_key5 self_key6 self_key7) 4 ⟨a_52, a_54⟩ = ⟨a_54, a_56⟩ := by
    rw [round4, ← g27]
  have r28 : round (genExpSbox CryptoProC) (mk self_key0 self_key1 self_key2 self_key3 self_key4 self_key5 self_key6 self_key7) 3 ⟨a_54, a_56⟩ = ⟨a_56, a_58⟩ := by
    rw [round3, ← g28]
  have r29 : round (genExpSbox CryptoProC) (mk self_key0 self_key1 self_key2 self_key3 self_key4 self_key5 self_key6 self_key7) 2 ⟨a_56, a_58⟩ = ⟨a_58, a_60⟩ := by
    rw [round2, ← g29]
  have r30 : round (genExpSbox CryptoProC) (mk self_key0 self_key1 self_key2 self_key3 self_key4 self_key5 self_key6 self_key7) 1 ⟨a_58, a_60⟩ = ⟨a_60, a_62⟩ := by
    rw [round1, ← g30]
  have r31 : round (genExpSbox CryptoProC) (mk self_key0 self_key1 self_key2 self_key3 self_key4 self_key5 self_key6 self_key7) 0 ⟨a_60, a_62⟩ = ⟨a_62, a_60 ^^^ g_r_31⟩ := by
    rw [round0, ← g31]
  rw [out_bytes, decrypt_unfold, hl, r0, r1, r2, r3, r4, r5, r6, r7, r8, r9, r10, r11, r12, r13, r14, r15, r16, r17, r18, r19, r20, r21, r22, r23, r24, r25, r26, r27, r28, r29, r30, r31]
  rfl

theorem gost89_cryptoprod_encrypt_block_tables : TablesOf CryptoProD gost89_cryptoprod_encrypt_block_tbl0 gost89_cryptoprod_encrypt_block_tbl1 gost89_cryptoprod_encrypt_block_tbl2 gost89_cryptoprod_encrypt_block_tbl3 := by decide +kernel

/-- `gost89_cryptoprod_encrypt_block` (regenerated `Gost89<CryptoProD>::encrypt_block`) is the model's `encrypt CryptoProD`, for all keys and blocks -/
theorem gost89_cryptoprod_encrypt_block_eq (self_key0 self_key1 self_key2 self_key3 self_key4 self_key5 self_key6 self_key7 : BitVec 32) (block : BitVec 64) :
    gost89_cryptoprod_encrypt_block self_key0 self_key1 self_key2 self_key3 self_key4 self_key5 self_key6 self_key7 block = encrypt CryptoProD (mk self_key0 self_key1 self_key2 self_key3 self_key4 self_key5 self_key6 self_key7) block := by
  unfold gost89_cryptoprod_encrypt_block
  extract_lets -merge
  name_lets
  have T := @gstep_eq _ _ _ _ _ gost89_cryptoprod_encrypt_block_tables
  have hl : load block = { v0 := hi4 block, v1 := a } := load_bytes block
  have g0 : g_r = g (genExpSbox CryptoProD) a self_key0 := (T a self_key0) ▸ rfl
  have g1 : g_r_1 = g (genExpSbox CryptoProD) a_2 self_key1 := (T a_2 self_key1) ▸ rfl
  have g2 : g_r_2 = g (genExpSbox CryptoProD) a_4 self_key2 := (T a_4 self_key2) ▸ rfl
  have g3 : g_r_3 = g (genExpSbox CryptoProD) a_6 self_key3 := (T a_6 self_key3) ▸ rfl
  have g4 : g_r_4 = g (genExpSbox CryptoProD) a_8 self_key4 := (T a_8 self_key4) ▸ rfl
  have g5 : g_r_5 = g (genExpSbox CryptoProD) a_10 self_key5 := (T a_10 self_key5) ▸ rfl
  have g6 : g_r_6 = g (genExpSbox CryptoProD) a_12 self_key6 := (T a_12 self_key6) ▸ rfl
  have g7 : g_r_7 = g (genExpSbox CryptoProD) a_14 self_key7 := (T a_14 self_key7) ▸ rfl
  have g8 : g_r_8 = g (genExpSbox CryptoProD) a_16 self_key0 := (T a_16 self_key0) ▸ rfl
  have g9 : g_r_9 = g (genExpSbox CryptoProD) a_18 self_key1 := (T a_18 self_key1) ▸ rfl
  have g10 : g_r_10 = g (genExpSbox CryptoProD) a_20 self_key2 := (T a_20 self_key2) ▸ rfl
  have g11 : g_r_11 = g (genExpSbox CryptoProD) a_22 self_key3 := (T a_22 self_key3) ▸ rfl
  have g12 : g_r_12 = g (genExpSbox CryptoProD) a_24 self_key4 := (T a_24 self_key4) ▸ rfl
  have g13 : g_r_13 = g (genExpSbox CryptoProD) a_26 self_key5 := (T a_26 self_key5) ▸ rfl
  have g14 : g_r_14 = g (genExpSbox CryptoProD) a_28 self_key6 := (T a_28 self_key6) ▸ rfl
  have g15 : g_r_15 = g (genExpSbox CryptoProD) a_30 self_key7 := (T a_30 self_key7) ▸ rfl
  have g16 : g_r_16 = g (genExpSbox CryptoProD) a_32 self_key0 := (T a_32 self_key0) ▸ rfl
  have g17 : g_r_17 = g (genExpSbox CryptoProD) a_34 self_key1 := (T a_34 self_key1) ▸ rfl
  have g18 : g_r_18 = g (genExpSbox CryptoProD) a_36 self_key2 := (T a_36 self_key2) ▸ rfl
  have g19 : g_r_19 = g (genExpSbox CryptoProD) a_38 self_key3 := (T a_38 self_key3) ▸ rfl
  have g20 : g_r_20 = g (genExpSbox CryptoProD) a_40 self_key4 := (T a_40 self_key4) ▸ rfl
  have g21 : g_r_21 = g (genExpSbox CryptoProD) a_42 self_key5 := (T a_42 self_key5) ▸ rfl
  have g22 : g_r_22 = g (genExpSbox CryptoProD) a_44 self_key6 := (T a_44 self_key6) ▸ rfl
  have g23 : g_r_23 = g (genExpSbox CryptoProD) a_46 self_key7 := (T a_46 self_key7) ▸ rfl
  have g24 : g_r_24 = g (genExpSbox CryptoProD) a_48 self_key7 := (T a_48 self_key7) ▸ rfl
  have g25 : g_r_25 = g (genExpSbox CryptoProD) a_50 self_key6 := (T a_50 self_key6) ▸ rfl
  have g26 : g_r_26 = g (genExpSbox CryptoProD) a_52 self_key5 := (T a_52 self_key5) ▸ rfl
  have g27 : g_r_27 = g (genExpSbox CryptoProD) a_54 self_key4 := (T a_54 self_key4) ▸ rfl
  have g28 : g_r_28 = g (genExpSbox CryptoProD) a_56 self_key3 := (T a_56 self_key3) ▸ rfl
  have g29 : g_r_29 = g (genExpSbox CryptoProD) a_58 self_key2 := (T a_58 self_key2) ▸ rfl
  have g30 : g_r_30 = g (genExpSbox CryptoProD) a_60 self_key1 := (T a_60 self_key1) ▸ rfl
  have g31 : g_r_31 = g (genExpSbox CryptoProD) a_62 self_key0 := (T a_62 self_key0) ▸ rfl
  have r0 : round (genExpSbox CryptoProD) (mk self_key0 self_key1 self_key2 self_key3 self_key4 self_key5 self_key6 self_key7) 0 ⟨hi4 block, a⟩ = ⟨a, a_2⟩ := by
    rw [round0, ← g0]; rfl
  have r1 : round (genExpSbox CryptoProD) (mk self_key0 self_key1 self_key2 self_key3 self_key4 self_key5 self_key6 self_key7) 1 ⟨a, a_2⟩ = ⟨a_2, a_4⟩ := by
    rw [round1, ← g1]
  have r2 : round (genExpSbox CryptoProD) (mk self_key0 self_key1 self_key2 self_key3 self_key4 self_key5 self_key6 self_key7) 2 ⟨a_2, a_4⟩ = ⟨a_4, a_6⟩ := by
    rw [round2, ← g2]
  have r3 : round (genExpSbox CryptoProD) (mk self_key0 self_key1 self_key2 self_key3 self_key4 self_key5 self_key6 self_key7) 3 ⟨a_4, a_6⟩ = ⟨a_6, a_8⟩ := by
    rw [round3, ← g3]
  have r4 : round (genExpSbox CryptoProD) (mk self_key0 self_key1 self_key2 self_key3 self_key4 self_key5 self_key6 self_key7) 4 ⟨a_6, a_8⟩ = ⟨a_8, a_10⟩ := by
    rw [round4, ← g4]
  have r5 : round (genExpSbox CryptoProD) (mk self_key0 self_key1 self_key2 self_key3 self_key4 self_key5 self_key6 self_key7) 5 ⟨a_8, a_10⟩ = ⟨a_10, a_12⟩ := by
    rw [round5, ← g5]
  have r6 : round (genExpSbox CryptoProD) (mk self_key0 self_key1 self_key2 self_key3 self_key4 self_key5 self_key6 self_key7) 6 ⟨a_10, a_12⟩ = ⟨a_12, a_14⟩ := by
    rw [round6, ← g6]
  have r7 : round (genExpSbox CryptoProD) (mk self_key0 self_key1 self_key2 self_key3 self_key4 self_key5 self_key6 self_key7) 7 ⟨a_12, a_14⟩ = ⟨a_14, a_16⟩ := by
    rw [round7, ← g7]
  have r8 : round (genExpSbox CryptoProD) (mk self_key0 self_key1 self_key2 self_key3 self_key4 self_key5 self_key6 self_key7) 0 ⟨a_14, a_16⟩ = ⟨a_16, a_18⟩ := by
    rw [round0, ← g8]
  have r9 : round (genExpSbox CryptoProD) (mk self_key0 self_key1 self_key2 self_key3 self_key4 self_key5 self_key6 self_key7) 1 ⟨a_16, a_18⟩ = ⟨a_18, a_20⟩ := by
    rw [round1, ← g9]
  have r10 : round (genExpSbox CryptoProD) (mk self_key0 self_key1 self_key2 self_key3 self_key4 self_key5 self_key6 self_key7) 2 ⟨a_18, a_20⟩ = ⟨a_20, a_22⟩ := by
    rw [round2, ← g10]
  have r11 : round (genExpSbox CryptoProD) (mk self_key0 self_key1 self_key2 self_key3 self_key4 self_key5 self_key6 self_key7) 3 ⟨a_20, a_22⟩ = ⟨a_22, a_24⟩ := by
    rw [round3, ← g11]
  have r12 : round (genExpSbox CryptoProD) (mk self_key0 self_key1 self_key2 self_key3 self_key4 self_key5 self_key6 self_key7) 4 ⟨a_22, a_24⟩ = ⟨a_24, a_26⟩ := by
    rw [round4, ← g12]
  have r13 : round (genExpSbox CryptoProD) (mk self_key0 self_key1 self_key2 self_key3 self_key4 self_key5 self_key6 self_key7) 5 ⟨a_24, a_26⟩ = ⟨a_26, a_28⟩ := by
    rw [round5, ← g13]
  have r14 : round (genExpSbox CryptoProD) (mk self_key0 self_key1 self_key2 self_key3 self_key4 self_key5 self_key6 self_key7) 6 ⟨a_26, a_28⟩ = ⟨a_28, a_30⟩ := by
    rw [round6, ← g14]
  have r15 : round (genExpSbox CryptoProD) (mk self_key0 self_key1 self_key2 self_key3 self_key4 self_key5 self_key6 self_key7) 7 ⟨a_28, a_30⟩ = ⟨a_30, a_32⟩ := by
    rw [round7, ← g15]
  have r16 : round (genExpSbox CryptoProD) (mk self_key0 self_key1 self_key2 self_key3 self_key4 self_key5 self_key6 self_key7) 0 ⟨a_30, a_32⟩ = ⟨a_32, a_34⟩ := by
    rw [round0, ← g16]
  have r17 : round (genExpSbox CryptoProD) (mk self_key0 self_key1 self_key2 self_key3 self_key4 self_key5 self_key6 self_key7) 1 ⟨a_32, a_34⟩ = ⟨a_34, a_36⟩ := by
    rw [round1, ← g17]
  have r18 : round (genExpSbox CryptoProD) (mk self_key0 self_key1 self_key2 self_key3 self_key4 self_key5 self_key6 self_key7) 2 ⟨a_34, a_36⟩ = ⟨a_36, a_38⟩ := by
    rw [round2, ← g18]
  have r19 : round (genExpSbox CryptoProD) (mk self_key0 self_key1 self_key2 self_key3 self_key4 self_key5 self_key6 self_key7) 3 ⟨a_36, a_38⟩ = ⟨a_38, a_40⟩ := by
    rw [round3, ← g19]
  have r20 : round (genExpSbox CryptoProD) (mk self_key0 self_key1 self_key2 self_key3 self_key4 self_key5 self_key6 self_key7) 4 ⟨a_38, a_40⟩ = ⟨a_40, a_42⟩ := by
    rw [round4, ← g20]
  have r21 : round (genExpSbox CryptoProD) (mk self_key0 self_key1 self_key2 self_key3 self_key4 self_key5 self_key6 self_key7) 5 ⟨a_40, a_42⟩ = ⟨a_42, a_44⟩ := by
    rw [round5, ← g21]
  have r22 : round (genExpSbox CryptoProD) (mk self_key0 self_key1 self_key2 self_key3 self_key4 self_key5 self_key6 self_key7) 6 ⟨a_42, a_44⟩ = ⟨a_44, a_46⟩ := by
    rw [round6, ← g22]
  have r23 : round (genExpSbox CryptoProD) (mk self_key0 self_key1 self_key2 self_key3 self_key4 self_key5 self_key6 self_key7) 7 ⟨a_44, a_46⟩ = ⟨a_46, a_48⟩ := by
    rw [round7, ← g23]
  have r24 : round (genExpSbox CryptoProD) (mk self_key0 self_key1 self_key2 self_key3 self_key4 self_key5 self_key6 self_key7) 7 ⟨a_46, a_48⟩ = ⟨a_48, a_50⟩ := by
    rw [round7, ← g24]
  have r25 : round (genExpSbox CryptoProD) (mk self_key0 self_key1 self_key2 self_key3 self_key4 self_key5 self_key6 self_key7) 6 ⟨a_48, a_50⟩ = ⟨a_50, a_52⟩ := by
    rw [round6, ← g25]
  have r26 : round (genExpSbox CryptoProD) (mk self_key0 self_key1 self_key2 self_key3 self_key4 self_key5 self_key6 self_key7) 5 ⟨a_50, a_52⟩ = ⟨a_52, a_54⟩ := by
    rw [round5, ← g26]
  have r27 : round (genExpSbox CryptoProD) (mk self_key0 self_key1 self_key2 self_key3 self_key4 self_key5 self_key6 self_key7) 4 ⟨a_52, a_54⟩ = ⟨a_54, a_56⟩ := by
    rw [round4, ← g27]
  have r28 : round (genExpSbox CryptoProD) (mk self_key0 self_key1 self_key2 self_key3 self_key4 self_key5 self_key6 self_key7) 3 ⟨a_54, a_56⟩ = ⟨a_56, a_58⟩ := by
    rw [round3, ← g28]
  have r29 : round (genExpSbox CryptoProD) (mk self_key0 self_key1 self_key2 self_key3 self_key4 self_key5 self_key6 self_key7) 2 ⟨a_56, a_58⟩ = ⟨a_58, a_60⟩ := by
    rw [round2, ← g29]
  have r30 : round (genExpSbox CryptoProD) (mk self_key0 self_key1 self_key2 self_key3 self_key4 self_key5 self_key6 self_key7) 1 ⟨a_58, a_60⟩ = ⟨a_60, a_62⟩ := by
    rw [round1, ← g30]
  have r31 : round (genExpSbox CryptoProD) (mk self_key0 self_key1 self_key2 self_key3 self_key4 self_key5 self_key6 self_key7) 0 ⟨a_60, a_62⟩ = ⟨a_62, a_60 ^^^ g_r_31⟩ := by
    rw [round0, ← g31]
  rw [out_bytes, encrypt_unfold, hl, r0, r1, r2, r3, r4, r5, r6, r7, r8, r9, r10, r11, r12, r13, r14, r15, r16, r17, r18, r19, r20, r21, r22, r23, r24, r25, r26, r27, r28, r29, r30, r31]
  rfl

theorem gost89_cryptoprod_decrypt_block_tables : TablesOf CryptoProD gost89_cryptoprod_decrypt_block_tbl0 gost89_cryptoprod_decrypt_block_tbl1 gost89_cryptoprod_decrypt_block_tbl2 gost89_cryptoprod_decrypt_block_tbl3 := by decide +kernel

/-- `gost89_cryptoprod_decrypt_block` (regenerated `Gost89<CryptoProD>::decrypt_block`) is the model's `decrypt CryptoProD`, for all keys and blocks -/
theorem gost89_cryptoprod_decrypt_block_eq (self_key0 self_key1 self_key2 self_key3 self_key4 self_key5 self_key6 self_key7 : BitVec 32) (block : BitVec 64) :
    gost89_cryptoprod_decrypt_block self_key0 self_key1 self_key2 self_key3 self_key4 self_key5 self_key6 self_key7 block = decrypt CryptoProD (mk self_key0 self_key1 self_key2 self_key3 self_key4 self_key5 self_key6 self_key7) block := by
  unfold gost89_cryptoprod_decrypt_block
  extract_lets -merge
  name_lets
  have T := @gstep_eq _ _ _ _ _ gost89_cryptoprod_decrypt_block_tables
  have hl : load block = { v0 := hi4 block, v1 := a } := load_bytes block
  have g0 : g_r = g (genExpSbox CryptoProD) a self_key0 := (T a self_key0) ▸ rfl
  have g1 : g_r_1 = g (genExpSbox CryptoProD) a_2 self_key1 := (T a_2 self_key1) ▸ rfl
  have g2 : g_r_2 = g (genExpSbox CryptoProD) a_4 self_key2 := (T a_4 self_key2) ▸ rfl
  have g3 : g_r_3 = g (genExpSbox CryptoProD) a_6 self_key3 := (T a_6 self_key3) ▸ rfl
  have g4 : g_r_4 = g (genExpSbox CryptoProD) a_8 self_key4 := (T a_8 self_key4) ▸ rfl
  have g5 : g_r_5 = g (genExpSbox CryptoProD) a_10 self_key5 := (T a_10 self_key5) ▸ rfl
  have g6 : g_r_6 = g (genExpSbox CryptoProD) a_12 self_key6 := (T a_12 self_key6) ▸ rfl
  have g7 : g_r_7 = g (genExpSbox CryptoProD) a_14 self_key7 := (T a_14 self_key7) ▸ rfl
  have g8 : g_r_8 = g (genExpSbox CryptoProD) a_16 self_key7 := (T a_16 self_key7) ▸ rfl
  have g9 : g_r_9 = g (genExpSbox CryptoProD) a_18 self_key6 := (T a_18 self_key6) ▸ rfl
  have g10 : g_r_10 = g (genExpSbox CryptoProD) a_20 self_key5 := (T a_20 self_key5) ▸ rfl
  have g11 : g_r_11 = g (genExpSbox CryptoProD) a_22 self_key4 := (T a_22 self_key4) ▸ rfl
  have g12 : g_r_12 = g (genExpSbox CryptoProD) a_24 self_key3 := (T a_24 self_key3) ▸ rfl
  have g13 : g_r_13 = g (genExpSbox CryptoProD) a_26 self_key2 := (T a_26 self_key2) ▸ rfl
  have g14 : g_r_14 = g (genExpSbox CryptoProD) a_28 self_key1 := (T a_28 self_key1) ▸ rfl
  have g15 : g_r_15 = g (genExpSbox CryptoProD) a_30 self_key0 := (T a_30 self_key0) ▸ rfl
  have g16 : g_r_16 = g (genExpSbox CryptoProD) a_32 self_key7 := (T a_32 self_key7) ▸ rfl
  have g17 : g_r_17 = g (genExpSbox CryptoProD) a_34 self_key6 := (T a_34 self_key6) ▸ rfl
  have g18 : g_r_18 = g (genExpSbox CryptoProD) a_36 self_key5 := (T a_36 self_key5) ▸ rfl
  have g19 : g_r_19 = g (genExpSbox CryptoProD) a_38 self_key4 := (T a_38 self_key4) ▸ rfl
  have g20 : g_r_20 = g (genExpSbox CryptoProD) a_40 self_key3 := (T a_40 self_key3) ▸ rfl
  have g21 : g_r_21 = g (genExpSbox CryptoProD) a_42 self_key2 := (T a_42 self_key2) ▸ rfl
  have g22 : g_r_22 = g (genExpSbox CryptoProD) a_44 self_key1 := (T a_44 self_key1) ▸ rfl
  have g23 : g_r_23 = g (genExpSbox CryptoProD) a_46 self_key0 := (T a_46 self_key0) ▸ rfl
  have g24 : g_r_24 = g (genExpSbox CryptoProD) a_48 self_key7 := (T a_48 self_key7) ▸ rfl
  have g25 : g_r_25 = g (genExpSbox CryptoProD) a_50 self_key6 := (T a_50 self_key6) ▸ rfl
  have g26 : g_r_26 = g (genExpSbox CryptoProD) a_52 self_key5 := (T a_52 self_key5) ▸ rfl
  have g27 : g_r_27 = g (genExpSbox CryptoProD) a_54 self_key4 := (T a_54 self_key4) ▸ rfl
  have g28 : g_r_28 = g (genExpSbox CryptoProD) a_56 self_key3 := (T a_56 self_key3) ▸ rfl
  have g29 : g_r_29 = g (genExpSbox CryptoProD) a_58 self_key2 := (T a_58 self_key2) ▸ rfl
  have g30 : g_r_30 = g (genExpSbox CryptoProD) a_60 self_key1 := (T a_60 self_key1) ▸ rfl
  have g31 : g_r_31 = g (genExpSbox CryptoProD) a_62 self_key0 := (T a_62 self_key0) ▸ rfl
  have r0 : round (genExpSbox CryptoProD) (mk self_key0 self_key1 self_key2 self_key3 self_key4 self_key5 self_key6 self_key7) 0 ⟨hi4 block, a⟩ = ⟨a, a_2⟩ := by
    rw [round0, ← g0]; rfl
  have r1 : round (genExpSbox CryptoProD) (mk self_key0 self_key1 self_key2 self_key3 self_key4 self_key5 self_key6 self_key7) 1 ⟨a, a_2⟩ = ⟨a_2, a_4⟩ := by
    rw [round1, ← g1]
  have r2 : round (genExpSbox CryptoProD) (mk self_key0 self_key1 self_key2 self_key3 self_key4 self_key5 self_key6 self_key7) 2 ⟨a_2, a_4⟩ = ⟨a_4, a_6⟩ := by
    rw [round2, ← g2]
  have r3 : round (genExpSbox CryptoProD) (mk self_key0 self_key1 self_key2 self_key3 self_key4 self_key5 self_key6 self_key7) 3 ⟨a_4, a_6⟩ = ⟨a_6, a_8⟩ := by
    rw [round3, ← g3]
  have r4 : round (genExpSbox CryptoProD) (mk self_key0 self_key1 self_key2 self_key3 self_key4 self_key5 self_key6 self_key7) 4 ⟨a_6, a_8⟩ = ⟨a_8, a_10⟩ := by
    rw [round4, ← g4]
  have r5 : round (genExpSbox CryptoProD) (mk self_key0 self_key1 self_key2 self_key3 self_key4 self_key5 self_key6 self_key7) 5 ⟨a_8, a_10⟩ = ⟨a_10, a_12⟩ := by
    rw [round5, ← g5]
  have r6 : round (genExpSbox CryptoProD) (mk self_key0 self_key1 self_key2 self_key3 self_key4 self_key5 self_key6 self_key7) 6 ⟨a_10, a_12⟩ = ⟨a_12, a_14⟩ := by
    rw [round6, ← g6]
  have r7 : round (genExpSbox CryptoProD) (mk self_key0 self_key1 self_key2 self_key3 self_key4 self_key5 self_key6 self_key7) 7 ⟨a_12, a_14⟩ = ⟨a_14, a_16⟩ := by
    rw [round7, ← g7]
  have r8 : round (genExpSbox CryptoProD) (mk self_key0 self_key1 self_key2 self_key3 self_key4 self_key5 self_key6 self_key7) 7 ⟨a_14, a_16⟩ = ⟨a_16, a_18⟩ := by
    rw [round7, ← g8]
  have r9 : round (genExpSbox CryptoProD) (mk self_key0 self_key1 self_key2 self_key3 self_key4 self_key5 self_key6 self_key7) 6 ⟨a_16, a_18⟩ = ⟨a_18, a_20⟩ := by
    rw [round6, ← g9]
  have r10 : round (genExpSbox CryptoProD) (mk self_key0 self_key1 self_key2 self_key3 self_key4 self_key5 self_key6 self_key7) 5 ⟨a_18, a_20⟩ = ⟨a_20, a_22⟩ := by
    rw [round5, ← g10]
  have r11 : round (genExpSbox CryptoProD) (mk self_key0 self_key1 self_key2 self_key3 self_key4 self_key5 self_key6 self_key7) 4 ⟨a_20, a_22⟩ = ⟨a_22, a_24⟩ := by
    rw [round4, ← g11]
  have r12 : round (genExpSbox CryptoProD) (mk self_key0 self_key1 self_key2 self_key3 self_key4 self_key5 self_key6 self_key7) 3 ⟨a_22, a_24⟩ = ⟨a_24, a_26⟩ := by
    rw [round3, ← g12]
  have r13 : round (genExpSbox CryptoProD) (mk self_key0 self_key1 self_key2 self_key3 self_key4 self_key5 self_key6 self_key7) 2 ⟨a_24, a_26⟩ = ⟨a_26, a_28⟩ := by
    rw [round2, ← g13]
  have r14 : round (genExpSbox CryptoProD) (mk self_key0 self_key1 self_key2 self_key3 self_key4 self_key5 self_key6 self_key7) 1 ⟨a_26, a_28⟩ = ⟨a_28, a_30⟩ := by
    rw [round1, ← g14]
  have r15 : round (genExpSbox CryptoProD) (mk self_key0 self_key1 self_key2 self_key3 self_key4 self_key5 self_key6 self_key7) 0 ⟨a_28, a_30⟩ = ⟨a_30, a_32⟩ := by
    rw [round0, ← g15]
  have r16 : round (genExpSbox CryptoProD) (mk self_key0 self_key1 self_key2 self_key3 self_key4 self_key5 self_key6 self_key7) 7 ⟨a_30, a_32⟩ = ⟨a_32, a_34⟩ := by
    rw [round7, ← g16]
  have r17 : round (genExpSbox CryptoProD) (mk self_key0 self_key1 self_key2 self_key3 self_key4 self_key5 self_key6 self_key7) 6 ⟨a_32, a_34⟩ = ⟨a_34, a_36⟩ := by
    rw [round6, ← g17]
  have r18 : round (genExpSbox CryptoProD) (mk self_key0 self_key1 self_key2 self_key3 self_key4 self_key5 self_key6 self_key7) 5 ⟨a_34, a_36⟩ = ⟨a_36, a_38⟩ := by
    rw [round5, ← g18]
  have r19 : round (genExpSbox CryptoProD) (mk self_key0 self_key1 self_key2 self_key3 self_key4 self_key5 self_key6 self_key7) 4 ⟨a_36, a_38⟩ = ⟨a_38, a_40⟩ := by
    rw [round4, ← g19]
  have r20 : round (genExpSbox CryptoProD) (mk self_key0 self_key1 self_key2 self_key3 self_key4 self_key5 self_key6 self_key7) 3 ⟨a_38, a_40⟩ = ⟨a_40, a_42⟩ := by
    rw [round3, ← g20]
  have r21 : round (genExpSbox CryptoProD) (mk self_key0 self_key1 self_key2 self_key3 self_key4 self_key5 self_key6 self_key7) 2 ⟨a_40, a_42⟩ = ⟨a_42, a_44⟩ := by
    rw [round2, ← g21]
  have r22 : round (genExpSbox CryptoProD) (mk self_key0 self_key1 self_key2 self_key3 self_key4 self_key5 self_key6 self_key7) 1 ⟨a_42, a_44⟩ = ⟨a_44, a_46⟩ := by
    rw [round1, ← g22]
  have r23 : round (genExpSbox CryptoProD) (mk self_key0 self_key1 self_key2 self_key3 self_key4 self_key5 self_key6 self_key7) 0 ⟨a_44, a_46⟩ = ⟨a_46, a_48⟩ := by
    rw [round0, ← g23]
  have r24 : round (genExpSbox CryptoProD) (mk self_key0 self_key1 self_key2 self_key3 self_key4 self_key5 self_key6 self_key7) 7 ⟨a_46, a_48⟩ = ⟨a_48, a_50⟩ := by
    rw [round7, ← g24]
  have r25 : round (genExpSbox CryptoProD) (mk self_key0 self_key1 self_key2 self_key3 self_key4 self_key5 self_key6 self_key7) 6 ⟨a_48, a_50⟩ = ⟨a_50, a_52⟩ := by
    rw [round6, ← g25]
  have r26 : round (genExpSbox CryptoProD) (mk self_key0 self_key1 self_key2 self_key3 self_key4 self_key5 self_key6 self_key7) 5 ⟨a_50, a_52⟩ = ⟨a_52, a_54⟩ := by
    rw [round5, ← g26]
  have r27 : round (genExpSbox CryptoProD) (mk self_key0 self_key1 self_key2 self_key3 self_key4 self_key5 self_key6 self_key7) 4 ⟨a_52, a_54⟩ = ⟨a_54, a_56⟩ := by
    rw [round4, ← g27]
  have r28 : round (genExpSbox CryptoProD) (mk self_key0 self_key1 self_key2 self_key3 self_key4 self_key5 self_key6 self_key7) 3 ⟨a_54, a_56⟩ = ⟨a_56, a_58⟩ := by
    rw [round3, ← g28]
  have r29 : round (genExpSbox CryptoProD) (mk self_key0 self_key1 self_key2 self_key3 self_key4 self_key5 self_key6 self_key7) 2 ⟨a_56, a_58⟩ = ⟨a_58, a_60⟩ := by
    rw [round2, ← g29]
  have r30 : round (genExpSbox CryptoProD) (mk self_key0 self_key1 self_key2 self_key3 self_key4 self_key5 self_key6 self_key7) 1 ⟨a_58, a_60⟩ = ⟨a_60, a_62⟩ := by
    rw [round1, ← g30]
  have r31 : round (genExpSbox CryptoProD) (mk self_key0 self_key1 self_key2 self_key3 self_key4 self_key5 self_key6 self_key7) 0 ⟨a_60, a_62⟩ = ⟨a_62, a_60 ^^^ g_r_31⟩ := by
    rw [round0, ← g31]
  rw [out_bytes, decrypt_unfold, hl, r0, r1, r2, r3, r4, r5, r6, r7, r8, r9, r10, r11, r12, r13, r14, r15, r16, r17, r18, r19, r20, r21, r22, r23, r24, r25, r26, r27, r28, r29, r30, r31]
  rfl

end BC.GenCipher.Magma
