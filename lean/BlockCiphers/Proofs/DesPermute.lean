import BlockCiphers.Spec.Des
/-
Meaning of the generic `Spec.Des.permute`: bit `j` (counted from the most significant bit, 0-based here) of
`permute table table.length x` is bit number `table[j]` (1-based, MSB first, as FIPS 46-3 numbers bits) of `x`.
This is the textbook reading of a DES permutation table; it makes the shift-and-or definition transparent.
-/
namespace BC.Spec.Des

theorem permute_fold_getLsbD {w : Nat} (x : BitVec w) (n : Nat) (l : List Nat) (acc : BitVec n)
    (i : Nat) (hi : i < n) :
    (l.foldl (fun (acc : BitVec n) (t : Nat) => (acc <<< 1) ||| (BitVec.ofBool (bit x t)).setWidth n) acc).getLsbD i =
      if i < l.length then bit x (l.getD (l.length - 1 - i) 0) else acc.getLsbD (i - l.length) := by
  induction l generalizing acc with
  | nil => simp
  | cons t l ih =>
    rw [List.foldl_cons, ih]
    by_cases h1 : i < l.length
    · have h2 : i < (t :: l).length := by simp only [List.length_cons]; omega
      rw [if_pos h1, if_pos h2]
      have h3 : (t :: l).length - 1 - i = (l.length - 1 - i) + 1 := by simp only [List.length_cons]; omega
      rw [h3, List.getD_cons_succ]
    · rw [if_neg h1]
      by_cases h2 : i = l.length
      · subst h2
        have h3 : l.length < (t :: l).length := by simp
        rw [if_pos h3]
        have h4 : (t :: l).length - 1 - l.length = 0 := by simp
        rw [h4, List.getD_cons_zero, Nat.sub_self]
        simp [BitVec.getLsbD_or, BitVec.getLsbD_shiftLeft, BitVec.getLsbD_setWidth]
        omega
      · have h3 : ¬ i < (t :: l).length := by simp only [List.length_cons]; omega
        rw [if_neg h3]
        have h4 : i - l.length = (i - (t :: l).length) + 1 := by simp only [List.length_cons]; omega
        have h5 : i - (t :: l).length + 1 < n := by simp only [List.length_cons]; omega
        rw [h4]
        simp [BitVec.getLsbD_or, BitVec.getLsbD_shiftLeft, BitVec.getLsbD_setWidth]
        simp only [List.length_cons] at h5
        intro _; exact h5

/-- the textbook reading of a permutation / selection table -/
theorem permute_getMsbD {w : Nat} (table : List Nat) (x : BitVec w) (j : Nat) (hj : j < table.length) :
    (permute table table.length x).getMsbD j = bit x (table.getD j 0) := by
  unfold permute
  rw [BitVec.getMsbD, permute_fold_getLsbD x table.length table 0 (table.length - 1 - j) (by omega)]
  have h1 : table.length - 1 - j < table.length := by omega
  have h2 : table.length - 1 - (table.length - 1 - j) = j := by omega
  simp [hj, h1, h2]

/-- the table lengths are the output widths used throughout -/
theorem table_lengths : IP.length = 64 ∧ FP.length = 64 ∧ E.length = 48 ∧ P.length = 32 ∧
    PC1.length = 56 ∧ PC2.length = 48 ∧ SHIFTS.length = 16 := by decide

/-- FP is the inverse permutation of IP (as tables) -/
theorem FP_inverse_IP : (List.range 64).all (fun j => IP.getD (FP.getD j 0 - 1) 0 == j + 1) = true := by decide

/-- every S-box row is a permutation of 0..15 (FIPS 46-3 design property; guards against typos) -/
theorem S_rows_are_permutations :
    (List.range 8).all (fun i => (List.range 4).all (fun r => (List.range 16).all (fun v =>
      (List.range 16).any (fun c => (STAB.getD i #[]).getD (16 * r + c) 99 == v)))) = true := by decide +kernel

end BC.Spec.Des
