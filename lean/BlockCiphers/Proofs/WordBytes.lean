import BlockCiphers.Prelude.WordBytes
/- Lemmas about `toLEn`/`toBEn`/`bytesToNatLE`/`bytesToNat`/`slice` and the two generic rotation
inverses on `BitVec w` (used by the RC5 and Speck proofs). -/
namespace BC

theorem rotateRight_rotateLeft {w : Nat} (x : BitVec w) (k : Nat) :
    (x.rotateLeft k).rotateRight k = x := by
  apply BitVec.eq_of_getLsbD_eq; intro i hi
  have hk : k % w < w := Nat.mod_lt _ (by omega)
  rw [BitVec.getLsbD_rotateRight]
  by_cases h : i < w - k % w
  · simp only [h, decide_true, cond_true, BitVec.getLsbD_rotateLeft]
    have h2 : ¬ (k % w + i < k % w) := by omega
    have h3 : k % w + i < w := by omega
    simp [h2, h3]
  · simp only [h, decide_false, cond_false, BitVec.getLsbD_rotateLeft, hi, decide_true, Bool.true_and]
    have h2 : i - (w - k % w) < k % w := by omega
    simp only [h2, decide_true, cond_true]
    congr 1; omega

theorem rotateLeft_rotateRight {w : Nat} (x : BitVec w) (k : Nat) :
    (x.rotateRight k).rotateLeft k = x := by
  apply BitVec.eq_of_getLsbD_eq; intro i hi
  have hk : k % w < w := Nat.mod_lt _ (by omega)
  rw [BitVec.getLsbD_rotateLeft]
  by_cases h : i < k % w
  · simp only [h, decide_true, cond_true, BitVec.getLsbD_rotateRight]
    have h2 : ¬ (w - k % w + i < w - k % w) := by omega
    have h3 : w - k % w + i < w := by omega
    simp only [h2, decide_false, cond_false, h3, decide_true, Bool.true_and]
    congr 1; omega
  · simp only [h, decide_false, cond_false, BitVec.getLsbD_rotateRight, hi, decide_true, Bool.true_and]
    have h2 : i - k % w < w - k % w := by omega
    simp only [h2, decide_true, cond_true]
    congr 1; omega

@[simp] theorem bytesToNatLE_nil : bytesToNatLE [] = 0 := rfl
@[simp] theorem bytesToNatLE_cons (b : BitVec 8) (bs : Bytes) :
    bytesToNatLE (b :: bs) = bytesToNatLE bs * 256 + b.toNat := rfl

@[simp] theorem length_toLEn (n v : Nat) : (toLEn n v).length = n := by
  induction n generalizing v with
  | zero => rfl
  | succ n ih => simp [toLEn, ih]

@[simp] theorem length_toBEn (n v : Nat) : (toBEn n v).length = n := by simp [toBEn]

theorem bytesToNatLE_lt (bs : Bytes) : bytesToNatLE bs < 256 ^ bs.length := by
  induction bs with
  | nil => simp
  | cons b bs ih =>
    have := b.isLt
    simp only [bytesToNatLE_cons, List.length_cons, Nat.pow_succ]; omega

theorem bytesToNatLE_toLEn (n v : Nat) : bytesToNatLE (toLEn n v) = v % 256 ^ n := by
  induction n generalizing v with
  | zero => simp [toLEn, Nat.mod_one]
  | succ n ih =>
    simp only [toLEn, bytesToNatLE_cons, ih, BitVec.toNat_ofNat, Nat.pow_succ]
    have h1 : v % (256 ^ n * 256) = v % 256 + 256 * (v / 256 % 256 ^ n) := by
      rw [Nat.mul_comm (256 ^ n) 256, Nat.mod_mul]
    omega

theorem toLEn_bytesToNatLE (bs : Bytes) : toLEn bs.length (bytesToNatLE bs) = bs := by
  induction bs with
  | nil => rfl
  | cons b bs ih =>
    have hb := b.isLt
    simp only [List.length_cons, toLEn, bytesToNatLE_cons]
    have h1 : (bytesToNatLE bs * 256 + b.toNat) / 256 = bytesToNatLE bs := by omega
    have h2 : BitVec.ofNat 8 (bytesToNatLE bs * 256 + b.toNat) = b := by
      apply BitVec.eq_of_toNat_eq; simp only [BitVec.toNat_ofNat]; omega
    rw [h1, h2, ih]

theorem toLEn_mod (n v : Nat) : toLEn n (v % 256 ^ n) = toLEn n v := by
  induction n generalizing v with
  | zero => rfl
  | succ n ih =>
    simp only [toLEn]
    have h1 : v % 256 ^ (n + 1) / 256 = (v / 256) % 256 ^ n := by
      rw [Nat.pow_succ, Nat.mul_comm, Nat.mod_mul_right_div_self]
    have h2 : BitVec.ofNat 8 (v % 256 ^ (n + 1)) = BitVec.ofNat 8 v := by
      apply BitVec.eq_of_toNat_eq; simp only [BitVec.toNat_ofNat]
      rw [Nat.pow_succ, Nat.mul_comm]
      exact Nat.mod_mul_right_mod v 256 (256 ^ n)
    rw [h1, h2, ih]

theorem bytesToNat_eq_LE_reverse (bs : Bytes) : bytesToNat bs = bytesToNatLE bs.reverse := by
  simp [bytesToNat, bytesToNatLE, List.foldr_reverse]

theorem bytesToNat_toBEn (n v : Nat) : bytesToNat (toBEn n v) = v % 256 ^ n := by
  simp [bytesToNat_eq_LE_reverse, toBEn, bytesToNatLE_toLEn]

theorem toBEn_bytesToNat (bs : Bytes) : toBEn bs.length (bytesToNat bs) = bs := by
  have := toLEn_bytesToNatLE bs.reverse
  simp only [List.length_reverse] at this
  simp [toBEn, bytesToNat_eq_LE_reverse, this]

theorem toBEn_mod (n v : Nat) : toBEn n (v % 256 ^ n) = toBEn n v := by
  simp [toBEn, toLEn_mod]

theorem bytesToNat_lt (bs : Bytes) : bytesToNat bs < 256 ^ bs.length := by
  have := bytesToNatLE_lt bs.reverse
  simpa [bytesToNat_eq_LE_reverse] using this

theorem pow256 (n : Nat) : 256 ^ n = 2 ^ (8 * n) := by
  rw [Nat.pow_mul]

end BC
