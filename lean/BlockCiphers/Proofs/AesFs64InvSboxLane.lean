import BlockCiphers.Proofs.AesFs64Defs
import Std.Tactic.BVDecide
/-!
C02 stage (i) for decryption: on a packed state, `inv_sub_bytes ∘ sub_bytes_nots` computes in each
of the 64 byte lanes the width-1 inverse circuit applied to `x ⊕ 0x63` (4×128 input bits).
-/
namespace BC.AesFs64
open BC.Spec.Aes

/-- the inverse S-box as the fixsliced decryption computes it on a state whose NOTs have been restored -/
def isbN (x : BitVec 8) : BitVec 8 := inv_sub_bytes_bit (x ^^^ 0x63#8)

set_option maxRecDepth 10000000 in
theorem inv_sub_bytes_nots_bitslice (b0 b1 b2 b3 : BitVec 128) :
    inv_sub_bytes (sub_bytes_nots (bitslice b0 b1 b2 b3)) =
      bitslice (mapBytes isbN b0) (mapBytes isbN b1) (mapBytes isbN b2) (mapBytes isbN b3) := by
  simp only [inv_sub_bytes, sub_bytes_nots, isbN, inv_sub_bytes_bit, mapBytes, bitslice, index_swaps, delta_swap_2,
    read_reordered, byteOf, getB, St.mk.injEq]
  bv_decide (config := { timeout := 1800 })

end BC.AesFs64
