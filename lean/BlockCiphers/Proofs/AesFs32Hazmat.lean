import BlockCiphers.Proofs.AesFs32Cipher
/-!
C17 (soft backend, fixslice32): the hazmat round functions compute the FIPS-197 round functions,
for every block and round key (single block and each lane of the 4-block parallel form).
-/
namespace BC.AesFs32
open BC.Spec.Aes
set_option linter.unusedSimpArgs false

theorem hazmat_cipher_round (block round_key : BitVec 128) :
    hazmat.cipher_round block round_key = mixColumns (shiftRows (subBytes block)) ^^^ round_key := by
  simp only [hazmat.cipher_round, hazmat.bitslice_block, hazmat.inv_bitslice_block,
    sub_bytes_nots_sub_bytes_bitslice, shift_rows_1_bitslice, mix_columns_0_bitslice, inv_bitslice_bitslice]

theorem hazmat_equiv_inv_cipher_round (block round_key : BitVec 128) :
    hazmat.equiv_inv_cipher_round block round_key =
      invMixColumns (invShiftRows (invSubBytes block)) ^^^ round_key := by
  simp only [hazmat.equiv_inv_cipher_round, hazmat.bitslice_block, hazmat.inv_bitslice_block,
    inv_sub_bytes_rep0, inv_shift_rows_1, shift_rows_3_bitslice, inv_mix_columns_0_bitslice, inv_bitslice_bitslice]

theorem hazmat_mix_columns (block : BitVec 128) : hazmat.mix_columns block = mixColumns block := by
  simp only [hazmat.mix_columns, hazmat.bitslice_block, hazmat.inv_bitslice_block, mix_columns_0_bitslice,
    inv_bitslice_bitslice]

theorem hazmat_inv_mix_columns (block : BitVec 128) : hazmat.inv_mix_columns block = invMixColumns block := by
  simp only [hazmat.inv_mix_columns, hazmat.bitslice_block, hazmat.inv_bitslice_block, inv_mix_columns_0_bitslice,
    inv_bitslice_bitslice]

theorem hazmat_cipher_round_par2 (chunk keys : Batch) :
    hazmat.cipher_round_par2 chunk keys =
      ⟨mixColumns (shiftRows (subBytes chunk.b0)) ^^^ keys.b0, mixColumns (shiftRows (subBytes chunk.b1)) ^^^ keys.b1⟩ := by
  simp only [hazmat.cipher_round_par2,
    sub_bytes_nots_sub_bytes_bitslice, shift_rows_1_bitslice, mix_columns_0_bitslice, inv_bitslice_bitslice]

theorem hazmat_equiv_inv_cipher_round_par2 (chunk keys : Batch) :
    hazmat.equiv_inv_cipher_round_par2 chunk keys =
      ⟨invMixColumns (invShiftRows (invSubBytes chunk.b0)) ^^^ keys.b0,
       invMixColumns (invShiftRows (invSubBytes chunk.b1)) ^^^ keys.b1⟩ := by
  simp only [hazmat.equiv_inv_cipher_round_par2,
    inv_sub_bytes_rep0, inv_shift_rows_1, shift_rows_3_bitslice, inv_mix_columns_0_bitslice, inv_bitslice_bitslice]

/-- the parallel form is the single-block form in every lane -/
theorem hazmat_par4_eq_single (chunk keys : Batch) :
    hazmat.cipher_round_par2 chunk keys =
      ⟨hazmat.cipher_round chunk.b0 keys.b0, hazmat.cipher_round chunk.b1 keys.b1⟩ ∧
    hazmat.equiv_inv_cipher_round_par2 chunk keys =
      ⟨hazmat.equiv_inv_cipher_round chunk.b0 keys.b0, hazmat.equiv_inv_cipher_round chunk.b1 keys.b1⟩ := by
  simp only [hazmat_cipher_round_par2, hazmat_equiv_inv_cipher_round_par2, hazmat_cipher_round,
    hazmat_equiv_inv_cipher_round, and_self]

end BC.AesFs32
