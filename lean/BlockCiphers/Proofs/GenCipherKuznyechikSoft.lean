import BlockCiphers.Gen.Cipher_Kuznyechik_soft
import BlockCiphers.Proofs.GenKuznyechikSoftTables
import BlockCiphers.Proofs.KuznyechikBackends
/-!
Tie of the regenerated `EncBackend::encrypt_block` / `DecBackend::decrypt_block` of the big software backend of Kuznyechik
(`Gen/Cipher_Kuznyechik_soft.lean`, translated from /repo/kuznyechik/src/big_soft/backends.rs with the fused tables of
fused_tables.rs computed by running the crate's `const fn`s and re-read as `[[u128; 256]; 16]`) to the model
`BC.Kuznyechik.Soft`: for ALL round keys `k0 … k9` (arbitrary `u128` values) and ALL blocks

    Gen.Fn.kuznyechik_soft_encrypt_block k0 … k9 b = Soft.encrypt_block ⟨k0, …, k9⟩ b
    Gen.Fn.kuznyechik_soft_decrypt_block k0 … k9 b = Soft.decrypt_block ⟨k0, …, k9⟩ b

Proof: (1) the generated text is definitionally the composition `encG` / `decG` of `trG` (XOR of sixteen table rows) and
`subG` (byte substitution) — kernel check; (2) `trG` / `subG` at the regenerated tables are the model's `transform` at
`ENC_TABLE` / `DEC_TABLE` and `sub_bytes` at `P` / `P_INV` (`encT_<i>`, `decT_<i>` of Proofs/GenKuznyechikSoftTables*.lean,
`p_at`, `pinvS`).
-/
set_option maxRecDepth 100000
set_option linter.unusedSimpArgs false
namespace BC.GenCipher.Kuznyechik
open BC BC.Kuznyechik BC.Gen.Fn

/-- `u128::from_le_bytes` of the sixteen bytes of a block image / the image of `to_le_bytes` -/
def leWord (x : BitVec 128) : BitVec 128 := (x.extractLsb' 0 8) ++ (x.extractLsb' 8 8) ++ (x.extractLsb' 16 8) ++ (x.extractLsb' 24 8) ++ (x.extractLsb' 32 8) ++ (x.extractLsb' 40 8) ++ (x.extractLsb' 48 8) ++ (x.extractLsb' 56 8) ++ (x.extractLsb' 64 8) ++ (x.extractLsb' 72 8) ++ (x.extractLsb' 80 8) ++ (x.extractLsb' 88 8) ++ (x.extractLsb' 96 8) ++ (x.extractLsb' 104 8) ++ (x.extractLsb' 112 8) ++ (x.extractLsb' 120 8)

theorem leWord_eq (x : BitVec 128) : leWord x = rev128 x := by
  simp only [leWord, rev128, bswap64]
  bv_decide

/-- `transform(block, table)`: `res ^= table[i][block[i]]` for the sixteen little-endian bytes of `block` -/
def trG (t0 t1 t2 t3 t4 t5 t6 t7 t8 t9 t10 t11 t12 t13 t14 t15 : Array Nat) (b : BitVec 128) : BitVec 128 :=
  ((((((((((((((((0x0#128 ^^^ (BC.Gen.tblAt t0 ((b.extractLsb' 0 8).setWidth 64).toNat 128)) ^^^ (BC.Gen.tblAt t1 ((b.extractLsb' 8 8).setWidth 64).toNat 128)) ^^^ (BC.Gen.tblAt t2 ((b.extractLsb' 16 8).setWidth 64).toNat 128)) ^^^ (BC.Gen.tblAt t3 ((b.extractLsb' 24 8).setWidth 64).toNat 128)) ^^^ (BC.Gen.tblAt t4 ((b.extractLsb' 32 8).setWidth 64).toNat 128)) ^^^ (BC.Gen.tblAt t5 ((b.extractLsb' 40 8).setWidth 64).toNat 128)) ^^^ (BC.Gen.tblAt t6 ((b.extractLsb' 48 8).setWidth 64).toNat 128)) ^^^ (BC.Gen.tblAt t7 ((b.extractLsb' 56 8).setWidth 64).toNat 128)) ^^^ (BC.Gen.tblAt t8 ((b.extractLsb' 64 8).setWidth 64).toNat 128)) ^^^ (BC.Gen.tblAt t9 ((b.extractLsb' 72 8).setWidth 64).toNat 128)) ^^^ (BC.Gen.tblAt t10 ((b.extractLsb' 80 8).setWidth 64).toNat 128)) ^^^ (BC.Gen.tblAt t11 ((b.extractLsb' 88 8).setWidth 64).toNat 128)) ^^^ (BC.Gen.tblAt t12 ((b.extractLsb' 96 8).setWidth 64).toNat 128)) ^^^ (BC.Gen.tblAt t13 ((b.extractLsb' 104 8).setWidth 64).toNat 128)) ^^^ (BC.Gen.tblAt t14 ((b.extractLsb' 112 8).setWidth 64).toNat 128)) ^^^ (BC.Gen.tblAt t15 ((b.extractLsb' 120 8).setWidth 64).toNat 128))

/-- `sub_bytes(block, sbox)` -/
def subG (s : Array Nat) (b : BitVec 128) : BitVec 128 :=
  ((BC.Gen.tblAt s ((b.extractLsb' 120 8).setWidth 64).toNat 8) ++ (BC.Gen.tblAt s ((b.extractLsb' 112 8).setWidth 64).toNat 8) ++ (BC.Gen.tblAt s ((b.extractLsb' 104 8).setWidth 64).toNat 8) ++ (BC.Gen.tblAt s ((b.extractLsb' 96 8).setWidth 64).toNat 8) ++ (BC.Gen.tblAt s ((b.extractLsb' 88 8).setWidth 64).toNat 8) ++ (BC.Gen.tblAt s ((b.extractLsb' 80 8).setWidth 64).toNat 8) ++ (BC.Gen.tblAt s ((b.extractLsb' 72 8).setWidth 64).toNat 8) ++ (BC.Gen.tblAt s ((b.extractLsb' 64 8).setWidth 64).toNat 8) ++ (BC.Gen.tblAt s ((b.extractLsb' 56 8).setWidth 64).toNat 8) ++ (BC.Gen.tblAt s ((b.extractLsb' 48 8).setWidth 64).toNat 8) ++ (BC.Gen.tblAt s ((b.extractLsb' 40 8).setWidth 64).toNat 8) ++ (BC.Gen.tblAt s ((b.extractLsb' 32 8).setWidth 64).toNat 8) ++ (BC.Gen.tblAt s ((b.extractLsb' 24 8).setWidth 64).toNat 8) ++ (BC.Gen.tblAt s ((b.extractLsb' 16 8).setWidth 64).toNat 8) ++ (BC.Gen.tblAt s ((b.extractLsb' 8 8).setWidth 64).toNat 8) ++ (BC.Gen.tblAt s ((b.extractLsb' 0 8).setWidth 64).toNat 8))

/-- the sixteen regenerated tables are the rows of the model's table `tab` -/
structure RowsOK (tab : Vector (BitVec 128) 4096) (t0 t1 t2 t3 t4 t5 t6 t7 t8 t9 t10 t11 t12 t13 t14 t15 : Array Nat) : Prop where
  h0 : ∀ x : BitVec 8, BC.Gen.tblAt t0 (x.setWidth 64).toNat 128 = row tab ⟨0, by decide⟩ x
  h1 : ∀ x : BitVec 8, BC.Gen.tblAt t1 (x.setWidth 64).toNat 128 = row tab ⟨1, by decide⟩ x
  h2 : ∀ x : BitVec 8, BC.Gen.tblAt t2 (x.setWidth 64).toNat 128 = row tab ⟨2, by decide⟩ x
  h3 : ∀ x : BitVec 8, BC.Gen.tblAt t3 (x.setWidth 64).toNat 128 = row tab ⟨3, by decide⟩ x
  h4 : ∀ x : BitVec 8, BC.Gen.tblAt t4 (x.setWidth 64).toNat 128 = row tab ⟨4, by decide⟩ x
  h5 : ∀ x : BitVec 8, BC.Gen.tblAt t5 (x.setWidth 64).toNat 128 = row tab ⟨5, by decide⟩ x
  h6 : ∀ x : BitVec 8, BC.Gen.tblAt t6 (x.setWidth 64).toNat 128 = row tab ⟨6, by decide⟩ x
  h7 : ∀ x : BitVec 8, BC.Gen.tblAt t7 (x.setWidth 64).toNat 128 = row tab ⟨7, by decide⟩ x
  h8 : ∀ x : BitVec 8, BC.Gen.tblAt t8 (x.setWidth 64).toNat 128 = row tab ⟨8, by decide⟩ x
  h9 : ∀ x : BitVec 8, BC.Gen.tblAt t9 (x.setWidth 64).toNat 128 = row tab ⟨9, by decide⟩ x
  h10 : ∀ x : BitVec 8, BC.Gen.tblAt t10 (x.setWidth 64).toNat 128 = row tab ⟨10, by decide⟩ x
  h11 : ∀ x : BitVec 8, BC.Gen.tblAt t11 (x.setWidth 64).toNat 128 = row tab ⟨11, by decide⟩ x
  h12 : ∀ x : BitVec 8, BC.Gen.tblAt t12 (x.setWidth 64).toNat 128 = row tab ⟨12, by decide⟩ x
  h13 : ∀ x : BitVec 8, BC.Gen.tblAt t13 (x.setWidth 64).toNat 128 = row tab ⟨13, by decide⟩ x
  h14 : ∀ x : BitVec 8, BC.Gen.tblAt t14 (x.setWidth 64).toNat 128 = row tab ⟨14, by decide⟩ x
  h15 : ∀ x : BitVec 8, BC.Gen.tblAt t15 (x.setWidth 64).toNat 128 = row tab ⟨15, by decide⟩ x

theorem trG_eq (tab : Vector (BitVec 128) 4096) (t0 t1 t2 t3 t4 t5 t6 t7 t8 t9 t10 t11 t12 t13 t14 t15 : Array Nat) (h : RowsOK tab t0 t1 t2 t3 t4 t5 t6 t7 t8 t9 t10 t11 t12 t13 t14 t15) (b : BitVec 128) :
    trG t0 t1 t2 t3 t4 t5 t6 t7 t8 t9 t10 t11 t12 t13 t14 t15 b = Soft.transform b tab := by
  simp only [Soft.transform, finRange16, List.foldl, ← h.h0, ← h.h1, ← h.h2, ← h.h3, ← h.h4, ← h.h5, ← h.h6, ← h.h7, ← h.h8, ← h.h9, ← h.h10, ← h.h11, ← h.h12, ← h.h13, ← h.h14, ← h.h15, leByte, Nat.reduceMul, trG]

theorem range16' : List.range 16 = [0,1,2,3,4,5,6,7,8,9,10,11,12,13,14,15] := by decide +kernel

theorem subG_eq (s : Array Nat) (sbox : Vector (BitVec 8) 256) (hs : ∀ x : BitVec 8, BC.Gen.tblAt s (x.setWidth 64).toNat 8 = lut sbox x) (b : BitVec 128) :
    subG s b = Soft.sub_bytes b sbox := by
  simp only [subG, Soft.sub_bytes, ofLeBytes, range16', List.foldl, leByte, Nat.reduceSub, Nat.reduceMul, hs]
  bv_decide

theorem encS : RowsOK ENC_TABLE.get kuznyechik_soft_encrypt_block_tbl0 kuznyechik_soft_encrypt_block_tbl1 kuznyechik_soft_encrypt_block_tbl2 kuznyechik_soft_encrypt_block_tbl3 kuznyechik_soft_encrypt_block_tbl4 kuznyechik_soft_encrypt_block_tbl5 kuznyechik_soft_encrypt_block_tbl6 kuznyechik_soft_encrypt_block_tbl7 kuznyechik_soft_encrypt_block_tbl8 kuznyechik_soft_encrypt_block_tbl9 kuznyechik_soft_encrypt_block_tbl10 kuznyechik_soft_encrypt_block_tbl11 kuznyechik_soft_encrypt_block_tbl12 kuznyechik_soft_encrypt_block_tbl13 kuznyechik_soft_encrypt_block_tbl14 kuznyechik_soft_encrypt_block_tbl15 :=
  ⟨encT_0, encT_1, encT_2, encT_3, encT_4, encT_5, encT_6, encT_7, encT_8, encT_9, encT_10, encT_11, encT_12, encT_13, encT_14, encT_15⟩

theorem decS : RowsOK DEC_TABLE.get kuznyechik_soft_decrypt_block_tbl0 kuznyechik_soft_decrypt_block_tbl1 kuznyechik_soft_decrypt_block_tbl2 kuznyechik_soft_decrypt_block_tbl3 kuznyechik_soft_decrypt_block_tbl4 kuznyechik_soft_decrypt_block_tbl5 kuznyechik_soft_decrypt_block_tbl6 kuznyechik_soft_decrypt_block_tbl7 kuznyechik_soft_decrypt_block_tbl8 kuznyechik_soft_decrypt_block_tbl9 kuznyechik_soft_decrypt_block_tbl10 kuznyechik_soft_decrypt_block_tbl11 kuznyechik_soft_decrypt_block_tbl12 kuznyechik_soft_decrypt_block_tbl13 kuznyechik_soft_decrypt_block_tbl14 kuznyechik_soft_decrypt_block_tbl15 :=
  ⟨decT_0, decT_1, decT_2, decT_3, decT_4, decT_5, decT_6, decT_7, decT_8, decT_9, decT_10, decT_11, decT_12, decT_13, decT_14, decT_15⟩

theorem pinvS_e : ∀ n : Fin 256, BC.Gen.tblAt kuznyechik_soft_decrypt_block_tbl16 n.val 8 = lut P_INV (BitVec.ofNat 8 n.val) := by decide +kernel
theorem pinvS : PinvOK kuznyechik_soft_decrypt_block_tbl16 := at_of_fin _ _ pinvS_e

def encG (t0 t1 t2 t3 t4 t5 t6 t7 t8 t9 t10 t11 t12 t13 t14 t15 : Array Nat) (k0 k1 k2 k3 k4 k5 k6 k7 k8 k9 b : BitVec 128) : BitVec 128 :=
  leWord (trG t0 t1 t2 t3 t4 t5 t6 t7 t8 t9 t10 t11 t12 t13 t14 t15 (trG t0 t1 t2 t3 t4 t5 t6 t7 t8 t9 t10 t11 t12 t13 t14 t15 (trG t0 t1 t2 t3 t4 t5 t6 t7 t8 t9 t10 t11 t12 t13 t14 t15 (trG t0 t1 t2 t3 t4 t5 t6 t7 t8 t9 t10 t11 t12 t13 t14 t15 (trG t0 t1 t2 t3 t4 t5 t6 t7 t8 t9 t10 t11 t12 t13 t14 t15 (trG t0 t1 t2 t3 t4 t5 t6 t7 t8 t9 t10 t11 t12 t13 t14 t15 (trG t0 t1 t2 t3 t4 t5 t6 t7 t8 t9 t10 t11 t12 t13 t14 t15 (trG t0 t1 t2 t3 t4 t5 t6 t7 t8 t9 t10 t11 t12 t13 t14 t15 (trG t0 t1 t2 t3 t4 t5 t6 t7 t8 t9 t10 t11 t12 t13 t14 t15 (leWord b ^^^ k0) ^^^ k1) ^^^ k2) ^^^ k3) ^^^ k4) ^^^ k5) ^^^ k6) ^^^ k7) ^^^ k8) ^^^ k9)

def decG (t0 t1 t2 t3 t4 t5 t6 t7 t8 t9 t10 t11 t12 t13 t14 t15 : Array Nat) (pinv : Array Nat) (k0 k1 k2 k3 k4 k5 k6 k7 k8 k9 b : BitVec 128) : BitVec 128 :=
  leWord (subG pinv (trG t0 t1 t2 t3 t4 t5 t6 t7 t8 t9 t10 t11 t12 t13 t14 t15 (trG t0 t1 t2 t3 t4 t5 t6 t7 t8 t9 t10 t11 t12 t13 t14 t15 (trG t0 t1 t2 t3 t4 t5 t6 t7 t8 t9 t10 t11 t12 t13 t14 t15 (trG t0 t1 t2 t3 t4 t5 t6 t7 t8 t9 t10 t11 t12 t13 t14 t15 (trG t0 t1 t2 t3 t4 t5 t6 t7 t8 t9 t10 t11 t12 t13 t14 t15 (trG t0 t1 t2 t3 t4 t5 t6 t7 t8 t9 t10 t11 t12 t13 t14 t15 (trG t0 t1 t2 t3 t4 t5 t6 t7 t8 t9 t10 t11 t12 t13 t14 t15 (trG t0 t1 t2 t3 t4 t5 t6 t7 t8 t9 t10 t11 t12 t13 t14 t15 (trG t0 t1 t2 t3 t4 t5 t6 t7 t8 t9 t10 t11 t12 t13 t14 t15 (subG BC.Gen.kuznyechik_P (leWord b ^^^ k0))) ^^^ k1) ^^^ k2) ^^^ k3) ^^^ k4) ^^^ k5) ^^^ k6) ^^^ k7) ^^^ k8) ^^^ k9)

theorem soft_encrypt_block_eq_G (k0 k1 k2 k3 k4 k5 k6 k7 k8 k9 b : BitVec 128) :
    kuznyechik_soft_encrypt_block k0 k1 k2 k3 k4 k5 k6 k7 k8 k9 b = encG kuznyechik_soft_encrypt_block_tbl0 kuznyechik_soft_encrypt_block_tbl1 kuznyechik_soft_encrypt_block_tbl2 kuznyechik_soft_encrypt_block_tbl3 kuznyechik_soft_encrypt_block_tbl4 kuznyechik_soft_encrypt_block_tbl5 kuznyechik_soft_encrypt_block_tbl6 kuznyechik_soft_encrypt_block_tbl7 kuznyechik_soft_encrypt_block_tbl8 kuznyechik_soft_encrypt_block_tbl9 kuznyechik_soft_encrypt_block_tbl10 kuznyechik_soft_encrypt_block_tbl11 kuznyechik_soft_encrypt_block_tbl12 kuznyechik_soft_encrypt_block_tbl13 kuznyechik_soft_encrypt_block_tbl14 kuznyechik_soft_encrypt_block_tbl15 k0 k1 k2 k3 k4 k5 k6 k7 k8 k9 b := by
  kuz_kernel_rfl

theorem soft_decrypt_block_eq_G (k0 k1 k2 k3 k4 k5 k6 k7 k8 k9 b : BitVec 128) :
    kuznyechik_soft_decrypt_block k0 k1 k2 k3 k4 k5 k6 k7 k8 k9 b = decG kuznyechik_soft_decrypt_block_tbl0 kuznyechik_soft_decrypt_block_tbl1 kuznyechik_soft_decrypt_block_tbl2 kuznyechik_soft_decrypt_block_tbl3 kuznyechik_soft_decrypt_block_tbl4 kuznyechik_soft_decrypt_block_tbl5 kuznyechik_soft_decrypt_block_tbl6 kuznyechik_soft_decrypt_block_tbl7 kuznyechik_soft_decrypt_block_tbl8 kuznyechik_soft_decrypt_block_tbl9 kuznyechik_soft_decrypt_block_tbl10 kuznyechik_soft_decrypt_block_tbl11 kuznyechik_soft_decrypt_block_tbl12 kuznyechik_soft_decrypt_block_tbl13 kuznyechik_soft_decrypt_block_tbl14 kuznyechik_soft_decrypt_block_tbl15 kuznyechik_soft_decrypt_block_tbl16 k0 k1 k2 k3 k4 k5 k6 k7 k8 k9 b := by
  kuz_kernel_rfl

theorem encG_eq (t0 t1 t2 t3 t4 t5 t6 t7 t8 t9 t10 t11 t12 t13 t14 t15 : Array Nat) (h : RowsOK ENC_TABLE.get t0 t1 t2 t3 t4 t5 t6 t7 t8 t9 t10 t11 t12 t13 t14 t15) (k0 k1 k2 k3 k4 k5 k6 k7 k8 k9 b : BitVec 128) :
    encG t0 t1 t2 t3 t4 t5 t6 t7 t8 t9 t10 t11 t12 t13 t14 t15 k0 k1 k2 k3 k4 k5 k6 k7 k8 k9 b = Soft.encrypt_block ⟨k0, k1, k2, k3, k4, k5, k6, k7, k8, k9⟩ b := by
  simp only [encG, Soft.encrypt_block, List.foldl, leWord_eq, trG_eq _ t0 t1 t2 t3 t4 t5 t6 t7 t8 t9 t10 t11 t12 t13 t14 t15 h]

theorem decG_eq (t0 t1 t2 t3 t4 t5 t6 t7 t8 t9 t10 t11 t12 t13 t14 t15 : Array Nat) (h : RowsOK DEC_TABLE.get t0 t1 t2 t3 t4 t5 t6 t7 t8 t9 t10 t11 t12 t13 t14 t15) (pinv : Array Nat) (hp : PinvOK pinv) (k0 k1 k2 k3 k4 k5 k6 k7 k8 k9 b : BitVec 128) :
    decG t0 t1 t2 t3 t4 t5 t6 t7 t8 t9 t10 t11 t12 t13 t14 t15 pinv k0 k1 k2 k3 k4 k5 k6 k7 k8 k9 b = Soft.decrypt_block ⟨k0, k1, k2, k3, k4, k5, k6, k7, k8, k9⟩ b := by
  simp only [decG, Soft.decrypt_block, List.foldl, leWord_eq, trG_eq _ t0 t1 t2 t3 t4 t5 t6 t7 t8 t9 t10 t11 t12 t13 t14 t15 h, subG_eq _ P p_at, subG_eq _ P_INV hp]

/-- the regenerated `EncBackend::encrypt_block` (big_soft) is the model's `Soft.encrypt_block`, all keys, all blocks -/
theorem kuznyechik_soft_encrypt_block_eq (k0 k1 k2 k3 k4 k5 k6 k7 k8 k9 b : BitVec 128) :
    kuznyechik_soft_encrypt_block k0 k1 k2 k3 k4 k5 k6 k7 k8 k9 b = Soft.encrypt_block ⟨k0, k1, k2, k3, k4, k5, k6, k7, k8, k9⟩ b := by
  rw [soft_encrypt_block_eq_G, encG_eq _ _ _ _ _ _ _ _ _ _ _ _ _ _ _ _ encS]

/-- the regenerated `DecBackend::decrypt_block` (big_soft) is the model's `Soft.decrypt_block`, all keys, all blocks -/
theorem kuznyechik_soft_decrypt_block_eq (k0 k1 k2 k3 k4 k5 k6 k7 k8 k9 b : BitVec 128) :
    kuznyechik_soft_decrypt_block k0 k1 k2 k3 k4 k5 k6 k7 k8 k9 b = Soft.decrypt_block ⟨k0, k1, k2, k3, k4, k5, k6, k7, k8, k9⟩ b := by
  rw [soft_decrypt_block_eq_G, decG_eq _ _ _ _ _ _ _ _ _ _ _ _ _ _ _ _ decS _ pinvS]

end BC.GenCipher.Kuznyechik
