import BlockCiphers.Proofs.KuznyechikTableCipher
import BlockCiphers.Proofs.KuznyechikNeon
/-
Kuznyechik, C03 / C01 / C07 / C12 / C04 for the three table backends (big_soft, sse2, neon-model):

* each backend's `transform(·, &ENC_TABLE)` is L∘S, `transform(·, &DEC_TABLE)` is L⁻¹∘S⁻¹, `sub_bytes` is the byte map
  (between the little-endian load and store), so its key schedule, encryption, pre-transformed decryption keys and
  decryption are the generic table cipher of `KuznyechikTableCipher.lean`, hence equal to the compact backend and to
  GOST R 34.12-2015, for every key and block;
* Enc / Dec / combined key types and the conversions between them;
* the parallel-block functions are maps of the single-block functions, and the cipher crate's chunk loop over them is
  the map over all blocks.
-/
namespace BC.Kuznyechik
open BC.Spec.Kuznyechik

/-! ### generic facts about the lane-unrolled loops and the chunk loop -/

theorem foldl_map_lanes {κ : Type} (g : BitVec 128 → κ → BitVec 128) (ks : List κ) (bs : List (BitVec 128)) :
    ks.foldl (fun bs ki => bs.map (fun b => g b ki)) bs = bs.map (fun b => ks.foldl g b) := by
  induction ks generalizing bs with
  | nil => simp
  | cons k ks ih => simp only [List.foldl_cons, ih, List.map_map]; rfl

/-- when the array has no more lanes than the macro writes out, `unroll_par!` is the map over all lanes -/
theorem unroll_par_full (n : Nat) (f : BitVec 128 → BitVec 128) (bs : List (BitVec 128)) (h : bs.length ≤ n) :
    unroll_par n f bs = bs.map f := by
  rw [unroll_par, List.take_of_length_le h, List.drop_of_length_le h, List.append_nil]

theorem foldl_unroll {κ : Type} (n : Nat) (g : BitVec 128 → κ → BitVec 128) (ks : List κ) (bs : List (BitVec 128))
    (h : bs.length ≤ n) :
    ks.foldl (fun bs ki => unroll_par n (fun b => g b ki) bs) bs = bs.map (fun b => ks.foldl g b) := by
  induction ks generalizing bs with
  | nil => simp
  | cons k ks ih =>
    rw [List.foldl_cons, unroll_par_full n _ bs h, ih _ (by rw [List.length_map]; exact h), List.map_map]; rfl

/-- lanes loaded, run through the same rounds side by side (`unroll_par!`), then finished and stored = map of the
single-lane run, when the array has exactly the lanes the macro writes out -/
theorem par_eq_map {κ : Type} (n : Nat) (load fin : BitVec 128 → BitVec 128) (g : BitVec 128 → κ → BitVec 128)
    (ks : List κ) (bs : List (BitVec 128)) (h : bs.length ≤ n) :
    (ks.foldl (fun bs ki => unroll_par n (fun b => g b ki) bs) ((bs.take n).map load)).map fin ++ bs.drop n =
      bs.map (fun b => fin (ks.foldl g (load b))) := by
  rw [List.take_of_length_le h, List.drop_of_length_le h, List.append_nil,
    foldl_unroll n g ks _ (by rw [List.length_map]; exact h), List.map_map, List.map_map]; rfl

/-- the big_soft variant: every lane is loaded, the macro lanes are taken at the end -/
theorem par_eq_map' {κ : Type} (n : Nat) (load fin : BitVec 128 → BitVec 128) (g : BitVec 128 → κ → BitVec 128)
    (ks : List κ) (bs : List (BitVec 128)) (h : bs.length ≤ n) :
    ((ks.foldl (fun bs ki => unroll_par n (fun b => g b ki) bs) (bs.map load)).take n).map fin ++ bs.drop n =
      bs.map (fun b => fin (ks.foldl g (load b))) := by
  rw [foldl_unroll n g ks _ (by rw [List.length_map]; exact h),
    List.take_of_length_le (by rw [List.length_map, List.length_map]; exact h), List.drop_of_length_le h,
    List.append_nil, List.map_map, List.map_map]; rfl

/-- C04: the block loop of the `cipher` crate (chunks of ParBlocksSize through the parallel function, tail through
the single-block function) is the map over all blocks, for every ParBlocksSize and every number of blocks -/
theorem procBlocks_eq_map (par : Nat) (fpar : List (BitVec 128) → List (BitVec 128)) (f1 : BitVec 128 → BitVec 128)
    (h : ∀ bs, bs.length = par → fpar bs = bs.map f1) (bs : List (BitVec 128)) :
    procBlocks par fpar f1 bs = bs.map f1 := by
  induction bs using procBlocks.induct par with
  | case1 bs hc => rw [procBlocks, dif_pos hc]
  | case2 bs hc ih =>
    rw [procBlocks, dif_neg hc, ih, h _ (by rw [List.length_take]; omega), ← List.map_append,
      List.take_append_drop]

/-! ### big_soft -/
namespace Soft

theorem trE_fn : (fun t => transform t ENC_TABLE.get) = lsLE := funext transform_ENC

theorem sub_bytes_P (v : BitVec 128) : sub_bytes v P = sLE v := by
  rw [sub_bytes_eq, Compact.s_eq_S, sLE]
theorem sub_bytes_P_INV (v : BitVec 128) : sub_bytes v P_INV = sinvLE v := by
  rw [sub_bytes_eq, Compact.s_inv_eq_Sinv, sinvLE]
theorem transform_DEC' (v : BitVec 128) : transform v DEC_TABLE.get = dLE v := transform_DEC v
theorem transform_ENC' (v : BitVec 128) : transform v ENC_TABLE.get = lsLE v := transform_ENC v

theorem expand_enc_keys_eq (key : BitVec 256) : expand_enc_keys key = tabExpand key := by
  rw [expand_enc_keys, trE_fn, tabExpand]
theorem inv_enc_keys_eq (e : RoundKeys) : inv_enc_keys e = tabInv e := by
  simp only [inv_enc_keys, tabInv, sub_bytes_P, transform_DEC']
theorem encrypt_block_eq (k : RoundKeys) (b : BitVec 128) : encrypt_block k b = tabEncrypt k b := by
  simp only [encrypt_block, tabEncrypt, transform_ENC']
theorem decrypt_block_eq (k : RoundKeys) (b : BitVec 128) : decrypt_block k b = tabDecrypt k b := by
  simp only [decrypt_block, tabDecrypt, transform_DEC', sub_bytes_P, sub_bytes_P_INV]

/-- C03: big_soft encrypts like compact_soft, for every key and block -/
theorem encrypt_eq_compact (key : BitVec 256) (b : BitVec 128) :
    encrypt_block (expand_enc_keys key) b = Compact.encrypt_block (Compact.expand key) b := by
  rw [encrypt_block_eq, expand_enc_keys_eq, tabExpand_eq, tabEncrypt_eq]

/-- C03: big_soft with its pre-transformed decryption keys decrypts like compact_soft -/
theorem decrypt_eq_compact (key : BitVec 256) (b : BitVec 128) :
    decrypt_block (inv_enc_keys (expand_enc_keys key)) b = Compact.decrypt_block (Compact.expand key) b := by
  rw [decrypt_block_eq, inv_enc_keys_eq, expand_enc_keys_eq, tabExpand_eq, tabDecrypt_eq]

/-- C04: `encrypt_par_blocks` on `ParBlocksSize` = 3 = number of `unroll_par!` lanes blocks is the map of
`encrypt_block` -/
theorem encrypt_par_blocks_eq_map (k : RoundKeys) (bs : List (BitVec 128)) (h : bs.length = parEnc) :
    encrypt_par_blocks k bs = bs.map (encrypt_block k) :=
  par_eq_map' unrollN rev128 (fun b => rev128 (b ^^^ k.k9)) (fun b ki => transform (b ^^^ ki) ENC_TABLE.get)
    [k.k0, k.k1, k.k2, k.k3, k.k4, k.k5, k.k6, k.k7, k.k8] bs (by rw [h]; decide)

end Soft

/-! ### sse2 -/
namespace Sse2

theorem transform_ENC' (v : BitVec 128) : transform v ENC_TABLE.get = lsLE v := by
  rw [transform_eq_soft, Soft.transform_ENC']
theorem transform_DEC' (v : BitVec 128) : transform v DEC_TABLE.get = dLE v := by
  rw [transform_eq_soft, Soft.transform_DEC']
theorem sub_bytes_P (v : BitVec 128) : sub_bytes v P = sLE v := by rw [sub_bytes_eq_soft, Soft.sub_bytes_P]
theorem sub_bytes_P_INV (v : BitVec 128) : sub_bytes v P_INV = sinvLE v := by
  rw [sub_bytes_eq_soft, Soft.sub_bytes_P_INV]
theorem trE_fn : (fun t => transform t ENC_TABLE.get) = lsLE := funext transform_ENC'

theorem expand_enc_keys_eq (key : BitVec 256) : expand_enc_keys key = tabExpand key := by
  rw [expand_enc_keys, trE_fn, tabExpand]; rfl
theorem inv_enc_keys_eq (e : RoundKeys) : inv_enc_keys e = tabInv e := by
  simp only [inv_enc_keys, tabInv, sub_bytes_P, transform_DEC']
theorem encrypt_block_eq (k : RoundKeys) (b : BitVec 128) : encrypt_block k b = tabEncrypt k b := by
  simp only [encrypt_block, tabEncrypt, transform_ENC', _mm_xor_si128, _mm_loadu_si128, _mm_storeu_si128]
theorem decrypt_block_eq (k : RoundKeys) (b : BitVec 128) : decrypt_block k b = tabDecrypt k b := by
  simp only [decrypt_block, tabDecrypt, transform_DEC', sub_bytes_P, sub_bytes_P_INV, _mm_xor_si128, _mm_loadu_si128,
    _mm_storeu_si128]

/-- C03: the sse2 backend encrypts like compact_soft, for every key and block -/
theorem encrypt_eq_compact (key : BitVec 256) (b : BitVec 128) :
    encrypt_block (expand_enc_keys key) b = Compact.encrypt_block (Compact.expand key) b := by
  rw [encrypt_block_eq, expand_enc_keys_eq, tabExpand_eq, tabEncrypt_eq]

/-- C03: the sse2 backend with its pre-transformed decryption keys decrypts like compact_soft -/
theorem decrypt_eq_compact (key : BitVec 256) (b : BitVec 128) :
    decrypt_block (inv_enc_keys (expand_enc_keys key)) b = Compact.decrypt_block (Compact.expand key) b := by
  rw [decrypt_block_eq, inv_enc_keys_eq, expand_enc_keys_eq, tabExpand_eq, tabDecrypt_eq]

/-- C04: `encrypt_par_blocks` on `ParBlocksSize` = 4 = number of `unroll_par!` lanes blocks is the map of
`encrypt_block` -/
theorem encrypt_par_blocks_eq_map (k : RoundKeys) (bs : List (BitVec 128)) (h : bs.length = parEnc) :
    encrypt_par_blocks k bs = bs.map (encrypt_block k) :=
  par_eq_map unrollN _mm_loadu_si128 (fun b => _mm_storeu_si128 (_mm_xor_si128 b k.k9))
    (fun b ki => transform (_mm_xor_si128 b ki) ENC_TABLE.get) [k.k0, k.k1, k.k2, k.k3, k.k4, k.k5, k.k6, k.k7, k.k8] bs (by rw [h]; decide)

/-- C04: `decrypt_par_blocks` = map of `decrypt_block` -/
theorem decrypt_par_blocks_eq_map (k : RoundKeys) (bs : List (BitVec 128)) (h : bs.length = parDec) :
    decrypt_par_blocks k bs = bs.map (decrypt_block k) := by
  have hl : bs.length ≤ unrollN := by rw [h]; decide
  have h' := par_eq_map unrollN
    (fun b => transform (sub_bytes (_mm_xor_si128 (_mm_loadu_si128 b) k.k0) P) DEC_TABLE.get)
    (fun b => _mm_storeu_si128 (_mm_xor_si128 (sub_bytes b P_INV) k.k9))
    (fun b ki => _mm_xor_si128 (transform b DEC_TABLE.get) ki) [k.k1, k.k2, k.k3, k.k4, k.k5, k.k6, k.k7, k.k8] bs hl
  simp only [decrypt_par_blocks]
  rw [unroll_par_full unrollN _ _ (by rw [List.length_map, List.length_take]; omega), List.map_map]
  exact h'

end Sse2

/-! ### neon (model; intrinsic semantics assumed) -/
namespace Neon

theorem transform_ENC' (v : BitVec 128) : transform v ENC_TABLE.get = lsLE v := by
  rw [transform_eq_sse2, Sse2.transform_ENC']
theorem transform_DEC' (v : BitVec 128) : transform v DEC_TABLE.get = dLE v := by
  rw [transform_eq_sse2, Sse2.transform_DEC']
theorem sub_bytes_P (v : BitVec 128) : sub_bytes v P = sLE v := by rw [sub_bytes_eq_soft, Soft.sub_bytes_P]
theorem sub_bytes_P_INV (v : BitVec 128) : sub_bytes v P_INV = sinvLE v := by
  rw [sub_bytes_eq_soft, Soft.sub_bytes_P_INV]
theorem trE_fn : (fun t => transform t ENC_TABLE.get) = lsLE := funext transform_ENC'

theorem expand_enc_keys_eq (key : BitVec 256) : expand_enc_keys key = tabExpand key := by
  rw [expand_enc_keys, trE_fn, tabExpand]; rfl
theorem inv_enc_keys_eq (e : RoundKeys) : inv_enc_keys e = tabInv e := by
  simp only [inv_enc_keys, tabInv, sub_bytes_P, transform_DEC']
theorem encrypt_block_eq (k : RoundKeys) (b : BitVec 128) : encrypt_block k b = tabEncrypt k b := by
  simp only [encrypt_block, tabEncrypt, transform_ENC', veorq_u8, vld1q_u8, vst1q_u8]
theorem decrypt_block_eq (k : RoundKeys) (b : BitVec 128) : decrypt_block k b = tabDecrypt k b := by
  simp only [decrypt_block, tabDecrypt, transform_DEC', sub_bytes_P, sub_bytes_P_INV, veorq_u8, vld1q_u8, vst1q_u8]

/-- C03: the neon model encrypts like compact_soft, for every key and block -/
theorem encrypt_eq_compact (key : BitVec 256) (b : BitVec 128) :
    encrypt_block (expand_enc_keys key) b = Compact.encrypt_block (Compact.expand key) b := by
  rw [encrypt_block_eq, expand_enc_keys_eq, tabExpand_eq, tabEncrypt_eq]

/-- C03: the neon model with its pre-transformed decryption keys decrypts like compact_soft -/
theorem decrypt_eq_compact (key : BitVec 256) (b : BitVec 128) :
    decrypt_block (inv_enc_keys (expand_enc_keys key)) b = Compact.decrypt_block (Compact.expand key) b := by
  rw [decrypt_block_eq, inv_enc_keys_eq, expand_enc_keys_eq, tabExpand_eq, tabDecrypt_eq]

/-- C04: `encrypt_par_blocks` on `ParBlocksSize` = 8 = number of `unroll_par!` lanes blocks is the map of
`encrypt_block` -/
theorem encrypt_par_blocks_eq_map (k : RoundKeys) (bs : List (BitVec 128)) (h : bs.length = parEnc) :
    encrypt_par_blocks k bs = bs.map (encrypt_block k) :=
  par_eq_map unrollN vld1q_u8 (fun b => vst1q_u8 (veorq_u8 b k.k9))
    (fun b ki => transform (veorq_u8 b ki) ENC_TABLE.get) [k.k0, k.k1, k.k2, k.k3, k.k4, k.k5, k.k6, k.k7, k.k8] bs (by rw [h]; decide)

/-- C04: `decrypt_par_blocks` = map of `decrypt_block` -/
theorem decrypt_par_blocks_eq_map (k : RoundKeys) (bs : List (BitVec 128)) (h : bs.length = parDec) :
    decrypt_par_blocks k bs = bs.map (decrypt_block k) := by
  have hl : bs.length ≤ unrollN := by rw [h]; decide
  have h' := par_eq_map unrollN
    (fun b => transform (sub_bytes (veorq_u8 (vld1q_u8 b) k.k0) P) DEC_TABLE.get)
    (fun b => vst1q_u8 (veorq_u8 (sub_bytes b P_INV) k.k9))
    (fun b ki => veorq_u8 (transform b DEC_TABLE.get) ki) [k.k1, k.k2, k.k3, k.k4, k.k5, k.k6, k.k7, k.k8] bs hl
  simp only [decrypt_par_blocks]
  rw [unroll_par_full unrollN _ _ (by rw [List.length_map, List.length_take]; omega), List.map_map]
  exact h'

end Neon

end BC.Kuznyechik
