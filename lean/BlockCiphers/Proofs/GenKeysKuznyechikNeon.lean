import BlockCiphers.Gen.Keys_Kuznyechik_neon
import BlockCiphers.Proofs.GenCipherKuznyechikNeon
import BlockCiphers.Proofs.GenKeysKuznyechikSoft
/-!
Tie of the regenerated key functions of the NEON back end of Kuznyechik (`Gen/Keys_Kuznyechik_neon.lean`): `EncKeys::new`
(= `expand_enc_keys`, /repo/kuznyechik/src/neon/{mod.rs,backends.rs}) and `inv_enc_keys` to the model `BC.Kuznyechik.Neon`:

    kuznyechik_neon_enckeys_new key       = rkTuple (Neon.expand_enc_keys key)
    kuznyechik_neon_inv_enc_keys e0 … e9  = rkTuple (Neon.inv_enc_keys ⟨e0, …, e9⟩)
    kuznyechik_neon_encdeckeys_from e0 … e9 = rkTuple2 (Neon.EncDecKeys.fromEnc ⟨⟨e0, …, e9⟩⟩)   (enc keys, then dec keys)
    kuznyechik_neon_deckeys_from e0 … e9    = rkTuple (Neon.DecKeys.fromEnc ⟨⟨e0, …, e9⟩⟩).keys

for ALL inputs; proof as in Proofs/GenKeysKuznyechikSse2.lean.
-/
set_option maxRecDepth 100000
set_option linter.unusedSimpArgs false
namespace BC.GenKeys.KuznyechikNeon
open BC BC.Kuznyechik BC.Gen.Fn BC.GenCipher.KuznyechikNeon BC.GenKeys.Kuznyechik
open BC.GenCipher.Kuznyechik (encS decS)
open BC.GenCipher.KuznyechikSse2 (MemOK memOK_of_rows)

theorem enckeys_new_tbl_0 : kuznyechik_neon_enckeys_new_tbl0 = kuznyechik_soft_encrypt_block_tbl0 := rfl
theorem enckeys_new_tbl_1 : kuznyechik_neon_enckeys_new_tbl1 = kuznyechik_soft_encrypt_block_tbl1 := rfl
theorem enckeys_new_tbl_2 : kuznyechik_neon_enckeys_new_tbl2 = kuznyechik_soft_encrypt_block_tbl2 := rfl
theorem enckeys_new_tbl_3 : kuznyechik_neon_enckeys_new_tbl3 = kuznyechik_soft_encrypt_block_tbl3 := rfl
theorem enckeys_new_tbl_4 : kuznyechik_neon_enckeys_new_tbl4 = kuznyechik_soft_encrypt_block_tbl4 := rfl
theorem enckeys_new_tbl_5 : kuznyechik_neon_enckeys_new_tbl5 = kuznyechik_soft_encrypt_block_tbl5 := rfl
theorem enckeys_new_tbl_6 : kuznyechik_neon_enckeys_new_tbl6 = kuznyechik_soft_encrypt_block_tbl6 := rfl
theorem enckeys_new_tbl_7 : kuznyechik_neon_enckeys_new_tbl7 = kuznyechik_soft_encrypt_block_tbl7 := rfl
theorem enckeys_new_tbl_8 : kuznyechik_neon_enckeys_new_tbl8 = kuznyechik_soft_encrypt_block_tbl8 := rfl
theorem enckeys_new_tbl_9 : kuznyechik_neon_enckeys_new_tbl9 = kuznyechik_soft_encrypt_block_tbl9 := rfl
theorem enckeys_new_tbl_10 : kuznyechik_neon_enckeys_new_tbl10 = kuznyechik_soft_encrypt_block_tbl10 := rfl
theorem enckeys_new_tbl_11 : kuznyechik_neon_enckeys_new_tbl11 = kuznyechik_soft_encrypt_block_tbl11 := rfl
theorem enckeys_new_tbl_12 : kuznyechik_neon_enckeys_new_tbl12 = kuznyechik_soft_encrypt_block_tbl12 := rfl
theorem enckeys_new_tbl_13 : kuznyechik_neon_enckeys_new_tbl13 = kuznyechik_soft_encrypt_block_tbl13 := rfl
theorem enckeys_new_tbl_14 : kuznyechik_neon_enckeys_new_tbl14 = kuznyechik_soft_encrypt_block_tbl14 := rfl
theorem enckeys_new_tbl_15 : kuznyechik_neon_enckeys_new_tbl15 = kuznyechik_soft_encrypt_block_tbl15 := rfl
theorem enckeys_new_mem : MemOK ENC_TABLE.get kuznyechik_neon_enckeys_new_mem0 := by
  rw [kuznyechik_neon_enckeys_new_mem0, enckeys_new_tbl_0, enckeys_new_tbl_1, enckeys_new_tbl_2, enckeys_new_tbl_3, enckeys_new_tbl_4, enckeys_new_tbl_5, enckeys_new_tbl_6, enckeys_new_tbl_7, enckeys_new_tbl_8, enckeys_new_tbl_9, enckeys_new_tbl_10, enckeys_new_tbl_11, enckeys_new_tbl_12, enckeys_new_tbl_13, enckeys_new_tbl_14, enckeys_new_tbl_15]
  exact memOK_of_rows _ _ _ _ _ _ _ _ _ _ _ _ _ _ _ _ _ encS

theorem inv_enc_keys_tbl_0 : kuznyechik_neon_inv_enc_keys_tbl0 = kuznyechik_soft_decrypt_block_tbl0 := rfl
theorem inv_enc_keys_tbl_1 : kuznyechik_neon_inv_enc_keys_tbl1 = kuznyechik_soft_decrypt_block_tbl1 := rfl
theorem inv_enc_keys_tbl_2 : kuznyechik_neon_inv_enc_keys_tbl2 = kuznyechik_soft_decrypt_block_tbl2 := rfl
theorem inv_enc_keys_tbl_3 : kuznyechik_neon_inv_enc_keys_tbl3 = kuznyechik_soft_decrypt_block_tbl3 := rfl
theorem inv_enc_keys_tbl_4 : kuznyechik_neon_inv_enc_keys_tbl4 = kuznyechik_soft_decrypt_block_tbl4 := rfl
theorem inv_enc_keys_tbl_5 : kuznyechik_neon_inv_enc_keys_tbl5 = kuznyechik_soft_decrypt_block_tbl5 := rfl
theorem inv_enc_keys_tbl_6 : kuznyechik_neon_inv_enc_keys_tbl6 = kuznyechik_soft_decrypt_block_tbl6 := rfl
theorem inv_enc_keys_tbl_7 : kuznyechik_neon_inv_enc_keys_tbl7 = kuznyechik_soft_decrypt_block_tbl7 := rfl
theorem inv_enc_keys_tbl_8 : kuznyechik_neon_inv_enc_keys_tbl8 = kuznyechik_soft_decrypt_block_tbl8 := rfl
theorem inv_enc_keys_tbl_9 : kuznyechik_neon_inv_enc_keys_tbl9 = kuznyechik_soft_decrypt_block_tbl9 := rfl
theorem inv_enc_keys_tbl_10 : kuznyechik_neon_inv_enc_keys_tbl10 = kuznyechik_soft_decrypt_block_tbl10 := rfl
theorem inv_enc_keys_tbl_11 : kuznyechik_neon_inv_enc_keys_tbl11 = kuznyechik_soft_decrypt_block_tbl11 := rfl
theorem inv_enc_keys_tbl_12 : kuznyechik_neon_inv_enc_keys_tbl12 = kuznyechik_soft_decrypt_block_tbl12 := rfl
theorem inv_enc_keys_tbl_13 : kuznyechik_neon_inv_enc_keys_tbl13 = kuznyechik_soft_decrypt_block_tbl13 := rfl
theorem inv_enc_keys_tbl_14 : kuznyechik_neon_inv_enc_keys_tbl14 = kuznyechik_soft_decrypt_block_tbl14 := rfl
theorem inv_enc_keys_tbl_15 : kuznyechik_neon_inv_enc_keys_tbl15 = kuznyechik_soft_decrypt_block_tbl15 := rfl
theorem inv_enc_keys_mem : MemOK DEC_TABLE.get kuznyechik_neon_inv_enc_keys_mem0 := by
  rw [kuznyechik_neon_inv_enc_keys_mem0, inv_enc_keys_tbl_0, inv_enc_keys_tbl_1, inv_enc_keys_tbl_2, inv_enc_keys_tbl_3, inv_enc_keys_tbl_4, inv_enc_keys_tbl_5, inv_enc_keys_tbl_6, inv_enc_keys_tbl_7, inv_enc_keys_tbl_8, inv_enc_keys_tbl_9, inv_enc_keys_tbl_10, inv_enc_keys_tbl_11, inv_enc_keys_tbl_12, inv_enc_keys_tbl_13, inv_enc_keys_tbl_14, inv_enc_keys_tbl_15]
  exact memOK_of_rows _ _ _ _ _ _ _ _ _ _ _ _ _ _ _ _ _ decS

theorem ldc_0 : BC.Arm.vld1q_u8 0x6ea276726c487ab85d27bd10dd849401#128 = next_const 0 (by decide) := by rw [nc0]; decide +kernel
theorem ldc_1 : BC.Arm.vld1q_u8 0xdc87ece4d890f4b3ba4eb92079cbeb02#128 = next_const 1 (by decide) := by rw [nc1]; decide +kernel
theorem ldc_2 : BC.Arm.vld1q_u8 0xb2259a96b4d88e0be7690430a44f7f03#128 = next_const 2 (by decide) := by rw [nc2]; decide +kernel
theorem ldc_3 : BC.Arm.vld1q_u8 0x7bcd1b0b73e32ba5b79cb140f2551504#128 = next_const 3 (by decide) := by rw [nc3]; decide +kernel
theorem ldc_4 : BC.Arm.vld1q_u8 0x156f6d791fab511deabb0c502fd18105#128 = next_const 4 (by decide) := by rw [nc4]; decide +kernel
theorem ldc_5 : BC.Arm.vld1q_u8 0xa74af7efab73df160dd208608b9efe06#128 = next_const 5 (by decide) := by rw [nc5]; decide +kernel
theorem ldc_6 : BC.Arm.vld1q_u8 0xc9e8819dc73ba5ae50f5b570561a6a07#128 = next_const 6 (by decide) := by rw [nc6]; decide +kernel
theorem ldc_7 : BC.Arm.vld1q_u8 0xf6593616e6055689adfba18027aa2a08#128 = next_const 7 (by decide) := by rw [nc7]; decide +kernel
theorem ldc_8 : BC.Arm.vld1q_u8 0x98fb40648a4d2c31f0dc1c90fa2ebe09#128 = next_const 8 (by decide) := by rw [nc8]; decide +kernel
theorem ldc_9 : BC.Arm.vld1q_u8 0x2adedaf23e95a23a17b518a05e61c10a#128 = next_const 9 (by decide) := by rw [nc9]; decide +kernel
theorem ldc_10 : BC.Arm.vld1q_u8 0x447cac8052ddd8824a92a5b083e5550b#128 = next_const 10 (by decide) := by rw [nc10]; decide +kernel
theorem ldc_11 : BC.Arm.vld1q_u8 0x8d942d1d95e67d2c1a6710c0d5ff3f0c#128 = next_const 11 (by decide) := by rw [nc11]; decide +kernel
theorem ldc_12 : BC.Arm.vld1q_u8 0xe3365b6ff9ae07944740add0087bab0d#128 = next_const 12 (by decide) := by rw [nc12]; decide +kernel
theorem ldc_13 : BC.Arm.vld1q_u8 0x5113c1f94d76899fa029a9e0ac34d40e#128 = next_const 13 (by decide) := by rw [nc13]; decide +kernel
theorem ldc_14 : BC.Arm.vld1q_u8 0x3fb1b78b213ef327fd0e14f071b0400f#128 = next_const 14 (by decide) := by rw [nc14]; decide +kernel
theorem ldc_15 : BC.Arm.vld1q_u8 0x2fb26c2c0f0aacd1993581c34e975410#128 = next_const 15 (by decide) := by rw [nc15]; decide +kernel
theorem ldc_16 : BC.Arm.vld1q_u8 0x41101a5e6342d669c4123cd39313c011#128 = next_const 16 (by decide) := by rw [nc16]; decide +kernel
theorem ldc_17 : BC.Arm.vld1q_u8 0xf33580c8d79a5862237b38e3375cbf12#128 = next_const 17 (by decide) := by rw [nc17]; decide +kernel
theorem ldc_18 : BC.Arm.vld1q_u8 0x9d97f6babbd222da7e5c85f3ead82b13#128 = next_const 18 (by decide) := by rw [nc18]; decide +kernel
theorem ldc_19 : BC.Arm.vld1q_u8 0x547f77277ce987742ea93083bcc24114#128 = next_const 19 (by decide) := by rw [nc19]; decide +kernel
theorem ldc_20 : BC.Arm.vld1q_u8 0x3add015510a1fdcc738e8d936146d515#128 = next_const 20 (by decide) := by rw [nc20]; decide +kernel
theorem ldc_21 : BC.Arm.vld1q_u8 0x88f89bc3a47973c794e789a3c509aa16#128 = next_const 21 (by decide) := by rw [nc21]; decide +kernel
theorem ldc_22 : BC.Arm.vld1q_u8 0xe65aedb1c831097fc9c034b3188d3e17#128 = next_const 22 (by decide) := by rw [nc22]; decide +kernel
theorem ldc_23 : BC.Arm.vld1q_u8 0xd9eb5a3ae90ffa5834ce2043693d7e18#128 = next_const 23 (by decide) := by rw [nc23]; decide +kernel
theorem ldc_24 : BC.Arm.vld1q_u8 0xb7492c48854780e069e99d53b4b9ea19#128 = next_const 24 (by decide) := by rw [nc24]; decide +kernel
theorem ldc_25 : BC.Arm.vld1q_u8 0x56cb6de319f0eeb8e80996310f6951a#128 = next_const 25 (by decide) := by rw [nc25]; decide +kernel
theorem ldc_26 : BC.Arm.vld1q_u8 0x6bcec0ac5dd77453d3a72473cd72011b#128 = next_const 26 (by decide) := by rw [nc26]; decide +kernel
theorem ldc_27 : BC.Arm.vld1q_u8 0xa22641319aecd1fd835291039b686b1c#128 = next_const 27 (by decide) := by rw [nc27]; decide +kernel
theorem ldc_28 : BC.Arm.vld1q_u8 0xcc843743f6a4ab45de752c1346ecff1d#128 = next_const 28 (by decide) := by rw [nc28]; decide +kernel
theorem ldc_29 : BC.Arm.vld1q_u8 0x7ea1add5427c254e391c2823e2a3801e#128 = next_const 29 (by decide) := by rw [nc29]; decide +kernel
theorem ldc_30 : BC.Arm.vld1q_u8 0x1003dba72e345ff6643b95333f27141f#128 = next_const 30 (by decide) := by rw [nc30]; decide +kernel
theorem ldc_31 : BC.Arm.vld1q_u8 0x5ea7d8581e149b61f16ac1459ceda820#128 = next_const 31 (by decide) := by rw [nc31]; decide +kernel

theorem key_hi (key : BitVec 256) : (key.extractLsb' 248 8) ++ (key.extractLsb' 240 8) ++ (key.extractLsb' 232 8) ++ (key.extractLsb' 224 8) ++ (key.extractLsb' 216 8) ++ (key.extractLsb' 208 8) ++ (key.extractLsb' 200 8) ++ (key.extractLsb' 192 8) ++ (key.extractLsb' 184 8) ++ (key.extractLsb' 176 8) ++ (key.extractLsb' 168 8) ++ (key.extractLsb' 160 8) ++ (key.extractLsb' 152 8) ++ (key.extractLsb' 144 8) ++ (key.extractLsb' 136 8) ++ (key.extractLsb' 128 8) = key.extractLsb' 128 128 := by bv_decide
theorem key_lo (key : BitVec 256) : (key.extractLsb' 120 8) ++ (key.extractLsb' 112 8) ++ (key.extractLsb' 104 8) ++ (key.extractLsb' 96 8) ++ (key.extractLsb' 88 8) ++ (key.extractLsb' 80 8) ++ (key.extractLsb' 72 8) ++ (key.extractLsb' 64 8) ++ (key.extractLsb' 56 8) ++ (key.extractLsb' 48 8) ++ (key.extractLsb' 40 8) ++ (key.extractLsb' 32 8) ++ (key.extractLsb' 24 8) ++ (key.extractLsb' 16 8) ++ (key.extractLsb' 8 8) ++ (key.extractLsb' 0 8) = key.extractLsb' 0 128 := by bv_decide

def expandG (mem : List (Array Nat)) (key : BitVec 256) :=
  let p0 : BitVec 128 × BitVec 128 := (BC.Arm.vld1q_u8 ((key.extractLsb' 248 8) ++ (key.extractLsb' 240 8) ++ (key.extractLsb' 232 8) ++ (key.extractLsb' 224 8) ++ (key.extractLsb' 216 8) ++ (key.extractLsb' 208 8) ++ (key.extractLsb' 200 8) ++ (key.extractLsb' 192 8) ++ (key.extractLsb' 184 8) ++ (key.extractLsb' 176 8) ++ (key.extractLsb' 168 8) ++ (key.extractLsb' 160 8) ++ (key.extractLsb' 152 8) ++ (key.extractLsb' 144 8) ++ (key.extractLsb' 136 8) ++ (key.extractLsb' 128 8)), BC.Arm.vld1q_u8 ((key.extractLsb' 120 8) ++ (key.extractLsb' 112 8) ++ (key.extractLsb' 104 8) ++ (key.extractLsb' 96 8) ++ (key.extractLsb' 88 8) ++ (key.extractLsb' 80 8) ++ (key.extractLsb' 72 8) ++ (key.extractLsb' 64 8) ++ (key.extractLsb' 56 8) ++ (key.extractLsb' 48 8) ++ (key.extractLsb' 40 8) ++ (key.extractLsb' 32 8) ++ (key.extractLsb' 24 8) ++ (key.extractLsb' 16 8) ++ (key.extractLsb' 8 8) ++ (key.extractLsb' 0 8)))
  let p1 := step4 (trG mem) p0 (BC.Arm.vld1q_u8 0x6ea276726c487ab85d27bd10dd849401#128) (BC.Arm.vld1q_u8 0xdc87ece4d890f4b3ba4eb92079cbeb02#128) (BC.Arm.vld1q_u8 0xb2259a96b4d88e0be7690430a44f7f03#128) (BC.Arm.vld1q_u8 0x7bcd1b0b73e32ba5b79cb140f2551504#128) (BC.Arm.vld1q_u8 0x156f6d791fab511deabb0c502fd18105#128) (BC.Arm.vld1q_u8 0xa74af7efab73df160dd208608b9efe06#128) (BC.Arm.vld1q_u8 0xc9e8819dc73ba5ae50f5b570561a6a07#128) (BC.Arm.vld1q_u8 0xf6593616e6055689adfba18027aa2a08#128)
  let p2 := step4 (trG mem) p1 (BC.Arm.vld1q_u8 0x98fb40648a4d2c31f0dc1c90fa2ebe09#128) (BC.Arm.vld1q_u8 0x2adedaf23e95a23a17b518a05e61c10a#128) (BC.Arm.vld1q_u8 0x447cac8052ddd8824a92a5b083e5550b#128) (BC.Arm.vld1q_u8 0x8d942d1d95e67d2c1a6710c0d5ff3f0c#128) (BC.Arm.vld1q_u8 0xe3365b6ff9ae07944740add0087bab0d#128) (BC.Arm.vld1q_u8 0x5113c1f94d76899fa029a9e0ac34d40e#128) (BC.Arm.vld1q_u8 0x3fb1b78b213ef327fd0e14f071b0400f#128) (BC.Arm.vld1q_u8 0x2fb26c2c0f0aacd1993581c34e975410#128)
  let p3 := step4 (trG mem) p2 (BC.Arm.vld1q_u8 0x41101a5e6342d669c4123cd39313c011#128) (BC.Arm.vld1q_u8 0xf33580c8d79a5862237b38e3375cbf12#128) (BC.Arm.vld1q_u8 0x9d97f6babbd222da7e5c85f3ead82b13#128) (BC.Arm.vld1q_u8 0x547f77277ce987742ea93083bcc24114#128) (BC.Arm.vld1q_u8 0x3add015510a1fdcc738e8d936146d515#128) (BC.Arm.vld1q_u8 0x88f89bc3a47973c794e789a3c509aa16#128) (BC.Arm.vld1q_u8 0xe65aedb1c831097fc9c034b3188d3e17#128) (BC.Arm.vld1q_u8 0xd9eb5a3ae90ffa5834ce2043693d7e18#128)
  let p4 := step4 (trG mem) p3 (BC.Arm.vld1q_u8 0xb7492c48854780e069e99d53b4b9ea19#128) (BC.Arm.vld1q_u8 0x56cb6de319f0eeb8e80996310f6951a#128) (BC.Arm.vld1q_u8 0x6bcec0ac5dd77453d3a72473cd72011b#128) (BC.Arm.vld1q_u8 0xa22641319aecd1fd835291039b686b1c#128) (BC.Arm.vld1q_u8 0xcc843743f6a4ab45de752c1346ecff1d#128) (BC.Arm.vld1q_u8 0x7ea1add5427c254e391c2823e2a3801e#128) (BC.Arm.vld1q_u8 0x1003dba72e345ff6643b95333f27141f#128) (BC.Arm.vld1q_u8 0x5ea7d8581e149b61f16ac1459ceda820#128)
  (p0.1, p0.2, p1.1, p1.2, p2.1, p2.2, p3.1, p3.2, p4.1, p4.2)

theorem neon_enckeys_new_eq_G (key : BitVec 256) :
    kuznyechik_neon_enckeys_new key = expandG kuznyechik_neon_enckeys_new_mem0 key := by
  kuz_kernel_rfl

theorem expandG_eq (mem : List (Array Nat)) (h : MemOK ENC_TABLE.get mem) (key : BitVec 256) :
    expandG mem key = rkTuple (Neon.expand_enc_keys key) := by
  have htr : trG mem = fun t => Neon.transform t ENC_TABLE.get := funext (trG_eq _ mem h)
  simp only [expandG, ldc_0, ldc_1, ldc_2, ldc_3, ldc_4, ldc_5, ldc_6, ldc_7, ldc_8, ldc_9, ldc_10, ldc_11, ldc_12, ldc_13, ldc_14, ldc_15, ldc_16, ldc_17, ldc_18, ldc_19, ldc_20, ldc_21, ldc_22, ldc_23, ldc_24, ldc_25, ldc_26, ldc_27, ldc_28, ldc_29, ldc_30, ldc_31]
  simp only [rkTuple, Neon.expand_enc_keys, expand_with, inner_0, inner_1, inner_2, inner_3, htr, key_hi, key_lo, vld1q_eq]

/-- the regenerated `EncKeys::new` (neon) computes the model's `Neon.expand_enc_keys`, for every key -/
theorem kuznyechik_neon_enckeys_new_eq (key : BitVec 256) :
    kuznyechik_neon_enckeys_new key = rkTuple (Neon.expand_enc_keys key) := by
  rw [neon_enckeys_new_eq_G, expandG_eq _ enckeys_new_mem]

def invG (mem : List (Array Nat)) (e0 e1 e2 e3 e4 e5 e6 e7 e8 e9 : BitVec 128) :=
  (e9, trG mem (subG (BC.Arm.vld1q_u8 0xfceedd11cf6e3116fbc4fada23c5044d#128) (BC.Arm.vld1q_u8 0xe977f0db932e99ba1736f1bb14cd5fc1#128) (BC.Arm.vld1q_u8 0xf918655ae25cef21811c3c428b018e4f#128) (BC.Arm.vld1q_u8 0x58402aee36a8fa0060bed987fd4d31f#128) (BC.Arm.vld1q_u8 0xeb342c51eac848abf22a68a2fd3acecc#128) (BC.Arm.vld1q_u8 0xb5700e56080c7612bf7213479cb75d87#128) (BC.Arm.vld1q_u8 0x15a19629107b9ac7f391786f9d9eb2b1#128) (BC.Arm.vld1q_u8 0x3275193dff358a7e6d54c680c3bd0d57#128) (BC.Arm.vld1q_u8 0xdff524a93ea843c9d779d6f67c22b903#128) (BC.Arm.vld1q_u8 0xe00fecde7a94b0bcdce828504e330a4a#128) (BC.Arm.vld1q_u8 0xa79760731e0062441ab83882649f2641#128) (BC.Arm.vld1q_u8 0xad454692275e552f8ca3a57d69d5953b#128) (BC.Arm.vld1q_u8 0x758b34086ac1df730376be488d9e789#128) (BC.Arm.vld1q_u8 0xe11b83494c3ff8fe8d53aa90cad88561#128) (BC.Arm.vld1q_u8 0x207167a42d2b095bcb9b25d0bee56c52#128) (BC.Arm.vld1q_u8 0x59a674d2e6f4b4c0d166afc2394b63b6#128) e8), trG mem (subG (BC.Arm.vld1q_u8 0xfceedd11cf6e3116fbc4fada23c5044d#128) (BC.Arm.vld1q_u8 0xe977f0db932e99ba1736f1bb14cd5fc1#128) (BC.Arm.vld1q_u8 0xf918655ae25cef21811c3c428b018e4f#128) (BC.Arm.vld1q_u8 0x58402aee36a8fa0060bed987fd4d31f#128) (BC.Arm.vld1q_u8 0xeb342c51eac848abf22a68a2fd3acecc#128) (BC.Arm.vld1q_u8 0xb5700e56080c7612bf7213479cb75d87#128) (BC.Arm.vld1q_u8 0x15a19629107b9ac7f391786f9d9eb2b1#128) (BC.Arm.vld1q_u8 0x3275193dff358a7e6d54c680c3bd0d57#128) (BC.Arm.vld1q_u8 0xdff524a93ea843c9d779d6f67c22b903#128) (BC.Arm.vld1q_u8 0xe00fecde7a94b0bcdce828504e330a4a#128) (BC.Arm.vld1q_u8 0xa79760731e0062441ab83882649f2641#128) (BC.Arm.vld1q_u8 0xad454692275e552f8ca3a57d69d5953b#128) (BC.Arm.vld1q_u8 0x758b34086ac1df730376be488d9e789#128) (BC.Arm.vld1q_u8 0xe11b83494c3ff8fe8d53aa90cad88561#128) (BC.Arm.vld1q_u8 0x207167a42d2b095bcb9b25d0bee56c52#128) (BC.Arm.vld1q_u8 0x59a674d2e6f4b4c0d166afc2394b63b6#128) e7), trG mem (subG (BC.Arm.vld1q_u8 0xfceedd11cf6e3116fbc4fada23c5044d#128) (BC.Arm.vld1q_u8 0xe977f0db932e99ba1736f1bb14cd5fc1#128) (BC.Arm.vld1q_u8 0xf918655ae25cef21811c3c428b018e4f#128) (BC.Arm.vld1q_u8 0x58402aee36a8fa0060bed987fd4d31f#128) (BC.Arm.vld1q_u8 0xeb342c51eac848abf22a68a2fd3acecc#128) (BC.Arm.vld1q_u8 0xb5700e56080c7612bf7213479cb75d87#128) (BC.Arm.vld1q_u8 0x15a19629107b9ac7f391786f9d9eb2b1#128) (BC.Arm.vld1q_u8 0x3275193dff358a7e6d54c680c3bd0d57#128) (BC.Arm.vld1q_u8 0xdff524a93ea843c9d779d6f67c22b903#128) (BC.Arm.vld1q_u8 0xe00fecde7a94b0bcdce828504e330a4a#128) (BC.Arm.vld1q_u8 0xa79760731e0062441ab83882649f2641#128) (BC.Arm.vld1q_u8 0xad454692275e552f8ca3a57d69d5953b#128) (BC.Arm.vld1q_u8 0x758b34086ac1df730376be488d9e789#128) (BC.Arm.vld1q_u8 0xe11b83494c3ff8fe8d53aa90cad88561#128) (BC.Arm.vld1q_u8 0x207167a42d2b095bcb9b25d0bee56c52#128) (BC.Arm.vld1q_u8 0x59a674d2e6f4b4c0d166afc2394b63b6#128) e6), trG mem (subG (BC.Arm.vld1q_u8 0xfceedd11cf6e3116fbc4fada23c5044d#128) (BC.Arm.vld1q_u8 0xe977f0db932e99ba1736f1bb14cd5fc1#128) (BC.Arm.vld1q_u8 0xf918655ae25cef21811c3c428b018e4f#128) (BC.Arm.vld1q_u8 0x58402aee36a8fa0060bed987fd4d31f#128) (BC.Arm.vld1q_u8 0xeb342c51eac848abf22a68a2fd3acecc#128) (BC.Arm.vld1q_u8 0xb5700e56080c7612bf7213479cb75d87#128) (BC.Arm.vld1q_u8 0x15a19629107b9ac7f391786f9d9eb2b1#128) (BC.Arm.vld1q_u8 0x3275193dff358a7e6d54c680c3bd0d57#128) (BC.Arm.vld1q_u8 0xdff524a93ea843c9d779d6f67c22b903#128) (BC.Arm.vld1q_u8 0xe00fecde7a94b0bcdce828504e330a4a#128) (BC.Arm.vld1q_u8 0xa79760731e0062441ab83882649f2641#128) (BC.Arm.vld1q_u8 0xad454692275e552f8ca3a57d69d5953b#128) (BC.Arm.vld1q_u8 0x758b34086ac1df730376be488d9e789#128) (BC.Arm.vld1q_u8 0xe11b83494c3ff8fe8d53aa90cad88561#128) (BC.Arm.vld1q_u8 0x207167a42d2b095bcb9b25d0bee56c52#128) (BC.Arm.vld1q_u8 0x59a674d2e6f4b4c0d166afc2394b63b6#128) e5), trG mem (subG (BC.Arm.vld1q_u8 0xfceedd11cf6e3116fbc4fada23c5044d#128) (BC.Arm.vld1q_u8 0xe977f0db932e99ba1736f1bb14cd5fc1#128) (BC.Arm.vld1q_u8 0xf918655ae25cef21811c3c428b018e4f#128) (BC.Arm.vld1q_u8 0x58402aee36a8fa0060bed987fd4d31f#128) (BC.Arm.vld1q_u8 0xeb342c51eac848abf22a68a2fd3acecc#128) (BC.Arm.vld1q_u8 0xb5700e56080c7612bf7213479cb75d87#128) (BC.Arm.vld1q_u8 0x15a19629107b9ac7f391786f9d9eb2b1#128) (BC.Arm.vld1q_u8 0x3275193dff358a7e6d54c680c3bd0d57#128) (BC.Arm.vld1q_u8 0xdff524a93ea843c9d779d6f67c22b903#128) (BC.Arm.vld1q_u8 0xe00fecde7a94b0bcdce828504e330a4a#128) (BC.Arm.vld1q_u8 0xa79760731e0062441ab83882649f2641#128) (BC.Arm.vld1q_u8 0xad454692275e552f8ca3a57d69d5953b#128) (BC.Arm.vld1q_u8 0x758b34086ac1df730376be488d9e789#128) (BC.Arm.vld1q_u8 0xe11b83494c3ff8fe8d53aa90cad88561#128) (BC.Arm.vld1q_u8 0x207167a42d2b095bcb9b25d0bee56c52#128) (BC.Arm.vld1q_u8 0x59a674d2e6f4b4c0d166afc2394b63b6#128) e4), trG mem (subG (BC.Arm.vld1q_u8 0xfceedd11cf6e3116fbc4fada23c5044d#128) (BC.Arm.vld1q_u8 0xe977f0db932e99ba1736f1bb14cd5fc1#128) (BC.Arm.vld1q_u8 0xf918655ae25cef21811c3c428b018e4f#128) (BC.Arm.vld1q_u8 0x58402aee36a8fa0060bed987fd4d31f#128) (BC.Arm.vld1q_u8 0xeb342c51eac848abf22a68a2fd3acecc#128) (BC.Arm.vld1q_u8 0xb5700e56080c7612bf7213479cb75d87#128) (BC.Arm.vld1q_u8 0x15a19629107b9ac7f391786f9d9eb2b1#128) (BC.Arm.vld1q_u8 0x3275193dff358a7e6d54c680c3bd0d57#128) (BC.Arm.vld1q_u8 0xdff524a93ea843c9d779d6f67c22b903#128) (BC.Arm.vld1q_u8 0xe00fecde7a94b0bcdce828504e330a4a#128) (BC.Arm.vld1q_u8 0xa79760731e0062441ab83882649f2641#128) (BC.Arm.vld1q_u8 0xad454692275e552f8ca3a57d69d5953b#128) (BC.Arm.vld1q_u8 0x758b34086ac1df730376be488d9e789#128) (BC.Arm.vld1q_u8 0xe11b83494c3ff8fe8d53aa90cad88561#128) (BC.Arm.vld1q_u8 0x207167a42d2b095bcb9b25d0bee56c52#128) (BC.Arm.vld1q_u8 0x59a674d2e6f4b4c0d166afc2394b63b6#128) e3), trG mem (subG (BC.Arm.vld1q_u8 0xfceedd11cf6e3116fbc4fada23c5044d#128) (BC.Arm.vld1q_u8 0xe977f0db932e99ba1736f1bb14cd5fc1#128) (BC.Arm.vld1q_u8 0xf918655ae25cef21811c3c428b018e4f#128) (BC.Arm.vld1q_u8 0x58402aee36a8fa0060bed987fd4d31f#128) (BC.Arm.vld1q_u8 0xeb342c51eac848abf22a68a2fd3acecc#128) (BC.Arm.vld1q_u8 0xb5700e56080c7612bf7213479cb75d87#128) (BC.Arm.vld1q_u8 0x15a19629107b9ac7f391786f9d9eb2b1#128) (BC.Arm.vld1q_u8 0x3275193dff358a7e6d54c680c3bd0d57#128) (BC.Arm.vld1q_u8 0xdff524a93ea843c9d779d6f67c22b903#128) (BC.Arm.vld1q_u8 0xe00fecde7a94b0bcdce828504e330a4a#128) (BC.Arm.vld1q_u8 0xa79760731e0062441ab83882649f2641#128) (BC.Arm.vld1q_u8 0xad454692275e552f8ca3a57d69d5953b#128) (BC.Arm.vld1q_u8 0x758b34086ac1df730376be488d9e789#128) (BC.Arm.vld1q_u8 0xe11b83494c3ff8fe8d53aa90cad88561#128) (BC.Arm.vld1q_u8 0x207167a42d2b095bcb9b25d0bee56c52#128) (BC.Arm.vld1q_u8 0x59a674d2e6f4b4c0d166afc2394b63b6#128) e2), trG mem (subG (BC.Arm.vld1q_u8 0xfceedd11cf6e3116fbc4fada23c5044d#128) (BC.Arm.vld1q_u8 0xe977f0db932e99ba1736f1bb14cd5fc1#128) (BC.Arm.vld1q_u8 0xf918655ae25cef21811c3c428b018e4f#128) (BC.Arm.vld1q_u8 0x58402aee36a8fa0060bed987fd4d31f#128) (BC.Arm.vld1q_u8 0xeb342c51eac848abf22a68a2fd3acecc#128) (BC.Arm.vld1q_u8 0xb5700e56080c7612bf7213479cb75d87#128) (BC.Arm.vld1q_u8 0x15a19629107b9ac7f391786f9d9eb2b1#128) (BC.Arm.vld1q_u8 0x3275193dff358a7e6d54c680c3bd0d57#128) (BC.Arm.vld1q_u8 0xdff524a93ea843c9d779d6f67c22b903#128) (BC.Arm.vld1q_u8 0xe00fecde7a94b0bcdce828504e330a4a#128) (BC.Arm.vld1q_u8 0xa79760731e0062441ab83882649f2641#128) (BC.Arm.vld1q_u8 0xad454692275e552f8ca3a57d69d5953b#128) (BC.Arm.vld1q_u8 0x758b34086ac1df730376be488d9e789#128) (BC.Arm.vld1q_u8 0xe11b83494c3ff8fe8d53aa90cad88561#128) (BC.Arm.vld1q_u8 0x207167a42d2b095bcb9b25d0bee56c52#128) (BC.Arm.vld1q_u8 0x59a674d2e6f4b4c0d166afc2394b63b6#128) e1), e0)

theorem neon_inv_enc_keys_eq_G (e0 e1 e2 e3 e4 e5 e6 e7 e8 e9 : BitVec 128) :
    kuznyechik_neon_inv_enc_keys e0 e1 e2 e3 e4 e5 e6 e7 e8 e9 = invG kuznyechik_neon_inv_enc_keys_mem0 e0 e1 e2 e3 e4 e5 e6 e7 e8 e9 := by
  kuz_kernel_rfl

theorem invG_eq (mem : List (Array Nat)) (h : MemOK DEC_TABLE.get mem) (e0 e1 e2 e3 e4 e5 e6 e7 e8 e9 : BitVec 128) :
    invG mem e0 e1 e2 e3 e4 e5 e6 e7 e8 e9 = rkTuple (Neon.inv_enc_keys ⟨e0, e1, e2, e3, e4, e5, e6, e7, e8, e9⟩) := by
  simp only [invG, rkTuple, Neon.inv_enc_keys, inv_with, trG_eq _ mem h, subG_P]

/-- the regenerated `inv_enc_keys` (neon) is the model's `Neon.inv_enc_keys`, for all ten encryption keys -/
theorem kuznyechik_neon_inv_enc_keys_eq (e0 e1 e2 e3 e4 e5 e6 e7 e8 e9 : BitVec 128) :
    kuznyechik_neon_inv_enc_keys e0 e1 e2 e3 e4 e5 e6 e7 e8 e9 = rkTuple (Neon.inv_enc_keys ⟨e0, e1, e2, e3, e4, e5, e6, e7, e8, e9⟩) := by
  rw [neon_inv_enc_keys_eq_G, invG_eq _ inv_enc_keys_mem]

/-! ### the conversions `From<EncKeys> for EncDecKeys`, `From<EncKeys> for DecKeys` -/

theorem encdeckeys_from_tbl_0 : kuznyechik_neon_encdeckeys_from_tbl0 = kuznyechik_soft_decrypt_block_tbl0 := rfl
theorem encdeckeys_from_tbl_1 : kuznyechik_neon_encdeckeys_from_tbl1 = kuznyechik_soft_decrypt_block_tbl1 := rfl
theorem encdeckeys_from_tbl_2 : kuznyechik_neon_encdeckeys_from_tbl2 = kuznyechik_soft_decrypt_block_tbl2 := rfl
theorem encdeckeys_from_tbl_3 : kuznyechik_neon_encdeckeys_from_tbl3 = kuznyechik_soft_decrypt_block_tbl3 := rfl
theorem encdeckeys_from_tbl_4 : kuznyechik_neon_encdeckeys_from_tbl4 = kuznyechik_soft_decrypt_block_tbl4 := rfl
theorem encdeckeys_from_tbl_5 : kuznyechik_neon_encdeckeys_from_tbl5 = kuznyechik_soft_decrypt_block_tbl5 := rfl
theorem encdeckeys_from_tbl_6 : kuznyechik_neon_encdeckeys_from_tbl6 = kuznyechik_soft_decrypt_block_tbl6 := rfl
theorem encdeckeys_from_tbl_7 : kuznyechik_neon_encdeckeys_from_tbl7 = kuznyechik_soft_decrypt_block_tbl7 := rfl
theorem encdeckeys_from_tbl_8 : kuznyechik_neon_encdeckeys_from_tbl8 = kuznyechik_soft_decrypt_block_tbl8 := rfl
theorem encdeckeys_from_tbl_9 : kuznyechik_neon_encdeckeys_from_tbl9 = kuznyechik_soft_decrypt_block_tbl9 := rfl
theorem encdeckeys_from_tbl_10 : kuznyechik_neon_encdeckeys_from_tbl10 = kuznyechik_soft_decrypt_block_tbl10 := rfl
theorem encdeckeys_from_tbl_11 : kuznyechik_neon_encdeckeys_from_tbl11 = kuznyechik_soft_decrypt_block_tbl11 := rfl
theorem encdeckeys_from_tbl_12 : kuznyechik_neon_encdeckeys_from_tbl12 = kuznyechik_soft_decrypt_block_tbl12 := rfl
theorem encdeckeys_from_tbl_13 : kuznyechik_neon_encdeckeys_from_tbl13 = kuznyechik_soft_decrypt_block_tbl13 := rfl
theorem encdeckeys_from_tbl_14 : kuznyechik_neon_encdeckeys_from_tbl14 = kuznyechik_soft_decrypt_block_tbl14 := rfl
theorem encdeckeys_from_tbl_15 : kuznyechik_neon_encdeckeys_from_tbl15 = kuznyechik_soft_decrypt_block_tbl15 := rfl
theorem encdeckeys_from_mem : MemOK DEC_TABLE.get kuznyechik_neon_encdeckeys_from_mem0 := by
  rw [kuznyechik_neon_encdeckeys_from_mem0, encdeckeys_from_tbl_0, encdeckeys_from_tbl_1, encdeckeys_from_tbl_2, encdeckeys_from_tbl_3, encdeckeys_from_tbl_4, encdeckeys_from_tbl_5, encdeckeys_from_tbl_6, encdeckeys_from_tbl_7, encdeckeys_from_tbl_8, encdeckeys_from_tbl_9, encdeckeys_from_tbl_10, encdeckeys_from_tbl_11, encdeckeys_from_tbl_12, encdeckeys_from_tbl_13, encdeckeys_from_tbl_14, encdeckeys_from_tbl_15]
  exact memOK_of_rows _ _ _ _ _ _ _ _ _ _ _ _ _ _ _ _ _ decS

theorem deckeys_from_tbl_0 : kuznyechik_neon_deckeys_from_tbl0 = kuznyechik_soft_decrypt_block_tbl0 := rfl
theorem deckeys_from_tbl_1 : kuznyechik_neon_deckeys_from_tbl1 = kuznyechik_soft_decrypt_block_tbl1 := rfl
theorem deckeys_from_tbl_2 : kuznyechik_neon_deckeys_from_tbl2 = kuznyechik_soft_decrypt_block_tbl2 := rfl
theorem deckeys_from_tbl_3 : kuznyechik_neon_deckeys_from_tbl3 = kuznyechik_soft_decrypt_block_tbl3 := rfl
theorem deckeys_from_tbl_4 : kuznyechik_neon_deckeys_from_tbl4 = kuznyechik_soft_decrypt_block_tbl4 := rfl
theorem deckeys_from_tbl_5 : kuznyechik_neon_deckeys_from_tbl5 = kuznyechik_soft_decrypt_block_tbl5 := rfl
theorem deckeys_from_tbl_6 : kuznyechik_neon_deckeys_from_tbl6 = kuznyechik_soft_decrypt_block_tbl6 := rfl
theorem deckeys_from_tbl_7 : kuznyechik_neon_deckeys_from_tbl7 = kuznyechik_soft_decrypt_block_tbl7 := rfl
theorem deckeys_from_tbl_8 : kuznyechik_neon_deckeys_from_tbl8 = kuznyechik_soft_decrypt_block_tbl8 := rfl
theorem deckeys_from_tbl_9 : kuznyechik_neon_deckeys_from_tbl9 = kuznyechik_soft_decrypt_block_tbl9 := rfl
theorem deckeys_from_tbl_10 : kuznyechik_neon_deckeys_from_tbl10 = kuznyechik_soft_decrypt_block_tbl10 := rfl
theorem deckeys_from_tbl_11 : kuznyechik_neon_deckeys_from_tbl11 = kuznyechik_soft_decrypt_block_tbl11 := rfl
theorem deckeys_from_tbl_12 : kuznyechik_neon_deckeys_from_tbl12 = kuznyechik_soft_decrypt_block_tbl12 := rfl
theorem deckeys_from_tbl_13 : kuznyechik_neon_deckeys_from_tbl13 = kuznyechik_soft_decrypt_block_tbl13 := rfl
theorem deckeys_from_tbl_14 : kuznyechik_neon_deckeys_from_tbl14 = kuznyechik_soft_decrypt_block_tbl14 := rfl
theorem deckeys_from_tbl_15 : kuznyechik_neon_deckeys_from_tbl15 = kuznyechik_soft_decrypt_block_tbl15 := rfl
theorem deckeys_from_mem : MemOK DEC_TABLE.get kuznyechik_neon_deckeys_from_mem0 := by
  rw [kuznyechik_neon_deckeys_from_mem0, deckeys_from_tbl_0, deckeys_from_tbl_1, deckeys_from_tbl_2, deckeys_from_tbl_3, deckeys_from_tbl_4, deckeys_from_tbl_5, deckeys_from_tbl_6, deckeys_from_tbl_7, deckeys_from_tbl_8, deckeys_from_tbl_9, deckeys_from_tbl_10, deckeys_from_tbl_11, deckeys_from_tbl_12, deckeys_from_tbl_13, deckeys_from_tbl_14, deckeys_from_tbl_15]
  exact memOK_of_rows _ _ _ _ _ _ _ _ _ _ _ _ _ _ _ _ _ decS

/-- the twenty round keys of an `EncDecKeys`, in declaration order (`enc`, then `dec`) -/
def rkTuple2 (k : EncDecKeys) := (k.enc.k0, k.enc.k1, k.enc.k2, k.enc.k3, k.enc.k4, k.enc.k5, k.enc.k6, k.enc.k7, k.enc.k8, k.enc.k9, k.dec.k0, k.dec.k1, k.dec.k2, k.dec.k3, k.dec.k4, k.dec.k5, k.dec.k6, k.dec.k7, k.dec.k8, k.dec.k9)

theorem neon_encdeckeys_from_eq_G (e0 e1 e2 e3 e4 e5 e6 e7 e8 e9 : BitVec 128) :
    kuznyechik_neon_encdeckeys_from e0 e1 e2 e3 e4 e5 e6 e7 e8 e9 =
      (e0, e1, e2, e3, e4, e5, e6, e7, e8, e9, e9, trG kuznyechik_neon_encdeckeys_from_mem0 (subG (BC.Arm.vld1q_u8 0xfceedd11cf6e3116fbc4fada23c5044d#128) (BC.Arm.vld1q_u8 0xe977f0db932e99ba1736f1bb14cd5fc1#128) (BC.Arm.vld1q_u8 0xf918655ae25cef21811c3c428b018e4f#128) (BC.Arm.vld1q_u8 0x58402aee36a8fa0060bed987fd4d31f#128) (BC.Arm.vld1q_u8 0xeb342c51eac848abf22a68a2fd3acecc#128) (BC.Arm.vld1q_u8 0xb5700e56080c7612bf7213479cb75d87#128) (BC.Arm.vld1q_u8 0x15a19629107b9ac7f391786f9d9eb2b1#128) (BC.Arm.vld1q_u8 0x3275193dff358a7e6d54c680c3bd0d57#128) (BC.Arm.vld1q_u8 0xdff524a93ea843c9d779d6f67c22b903#128) (BC.Arm.vld1q_u8 0xe00fecde7a94b0bcdce828504e330a4a#128) (BC.Arm.vld1q_u8 0xa79760731e0062441ab83882649f2641#128) (BC.Arm.vld1q_u8 0xad454692275e552f8ca3a57d69d5953b#128) (BC.Arm.vld1q_u8 0x758b34086ac1df730376be488d9e789#128) (BC.Arm.vld1q_u8 0xe11b83494c3ff8fe8d53aa90cad88561#128) (BC.Arm.vld1q_u8 0x207167a42d2b095bcb9b25d0bee56c52#128) (BC.Arm.vld1q_u8 0x59a674d2e6f4b4c0d166afc2394b63b6#128) e8), trG kuznyechik_neon_encdeckeys_from_mem0 (subG (BC.Arm.vld1q_u8 0xfceedd11cf6e3116fbc4fada23c5044d#128) (BC.Arm.vld1q_u8 0xe977f0db932e99ba1736f1bb14cd5fc1#128) (BC.Arm.vld1q_u8 0xf918655ae25cef21811c3c428b018e4f#128) (BC.Arm.vld1q_u8 0x58402aee36a8fa0060bed987fd4d31f#128) (BC.Arm.vld1q_u8 0xeb342c51eac848abf22a68a2fd3acecc#128) (BC.Arm.vld1q_u8 0xb5700e56080c7612bf7213479cb75d87#128) (BC.Arm.vld1q_u8 0x15a19629107b9ac7f391786f9d9eb2b1#128) (BC.Arm.vld1q_u8 0x3275193dff358a7e6d54c680c3bd0d57#128) (BC.Arm.vld1q_u8 0xdff524a93ea843c9d779d6f67c22b903#128) (BC.Arm.vld1q_u8 0xe00fecde7a94b0bcdce828504e330a4a#128) (BC.Arm.vld1q_u8 0xa79760731e0062441ab83882649f2641#128) (BC.Arm.vld1q_u8 0xad454692275e552f8ca3a57d69d5953b#128) (BC.Arm.vld1q_u8 0x758b34086ac1df730376be488d9e789#128) (BC.Arm.vld1q_u8 0xe11b83494c3ff8fe8d53aa90cad88561#128) (BC.Arm.vld1q_u8 0x207167a42d2b095bcb9b25d0bee56c52#128) (BC.Arm.vld1q_u8 0x59a674d2e6f4b4c0d166afc2394b63b6#128) e7), trG kuznyechik_neon_encdeckeys_from_mem0 (subG (BC.Arm.vld1q_u8 0xfceedd11cf6e3116fbc4fada23c5044d#128) (BC.Arm.vld1q_u8 0xe977f0db932e99ba1736f1bb14cd5fc1#128) (BC.Arm.vld1q_u8 0xf918655ae25cef21811c3c428b018e4f#128) (BC.Arm.vld1q_u8 0x58402aee36a8fa0060bed987fd4d31f#128) (BC.Arm.vld1q_u8 0xeb342c51eac848abf22a68a2fd3acecc#128) (BC.Arm.vld1q_u8 0xb5700e56080c7612bf7213479cb75d87#128) (BC.Arm.vld1q_u8 0x15a19629107b9ac7f391786f9d9eb2b1#128) (BC.Arm.vld1q_u8 0x3275193dff358a7e6d54c680c3bd0d57#128) (BC.Arm.vld1q_u8 0xdff524a93ea843c9d779d6f67c22b903#128) (BC.Arm.vld1q_u8 0xe00fecde7a94b0bcdce828504e330a4a#128) (BC.Arm.vld1q_u8 0xa79760731e0062441ab83882649f2641#128) (BC.Arm.vld1q_u8 0xad454692275e552f8ca3a57d69d5953b#128) (BC.Arm.vld1q_u8 0x758b34086ac1df730376be488d9e789#128) (BC.Arm.vld1q_u8 0xe11b83494c3ff8fe8d53aa90cad88561#128) (BC.Arm.vld1q_u8 0x207167a42d2b095bcb9b25d0bee56c52#128) (BC.Arm.vld1q_u8 0x59a674d2e6f4b4c0d166afc2394b63b6#128) e6), trG kuznyechik_neon_encdeckeys_from_mem0 (subG (BC.Arm.vld1q_u8 0xfceedd11cf6e3116fbc4fada23c5044d#128) (BC.Arm.vld1q_u8 0xe977f0db932e99ba1736f1bb14cd5fc1#128) (BC.Arm.vld1q_u8 0xf918655ae25cef21811c3c428b018e4f#128) (BC.Arm.vld1q_u8 0x58402aee36a8fa0060bed987fd4d31f#128) (BC.Arm.vld1q_u8 0xeb342c51eac848abf22a68a2fd3acecc#128) (BC.Arm.vld1q_u8 0xb5700e56080c7612bf7213479cb75d87#128) (BC.Arm.vld1q_u8 0x15a19629107b9ac7f391786f9d9eb2b1#128) (BC.Arm.vld1q_u8 0x3275193dff358a7e6d54c680c3bd0d57#128) (BC.Arm.vld1q_u8 0xdff524a93ea843c9d779d6f67c22b903#128) (BC.Arm.vld1q_u8 0xe00fecde7a94b0bcdce828504e330a4a#128) (BC.Arm.vld1q_u8 0xa79760731e0062441ab83882649f2641#128) (BC.Arm.vld1q_u8 0xad454692275e552f8ca3a57d69d5953b#128) (BC.Arm.vld1q_u8 0x758b34086ac1df730376be488d9e789#128) (BC.Arm.vld1q_u8 0xe11b83494c3ff8fe8d53aa90cad88561#128) (BC.Arm.vld1q_u8 0x207167a42d2b095bcb9b25d0bee56c52#128) (BC.Arm.vld1q_u8 0x59a674d2e6f4b4c0d166afc2394b63b6#128) e5), trG kuznyechik_neon_encdeckeys_from_mem0 (subG (BC.Arm.vld1q_u8 0xfceedd11cf6e3116fbc4fada23c5044d#128) (BC.Arm.vld1q_u8 0xe977f0db932e99ba1736f1bb14cd5fc1#128) (BC.Arm.vld1q_u8 0xf918655ae25cef21811c3c428b018e4f#128) (BC.Arm.vld1q_u8 0x58402aee36a8fa0060bed987fd4d31f#128) (BC.Arm.vld1q_u8 0xeb342c51eac848abf22a68a2fd3acecc#128) (BC.Arm.vld1q_u8 0xb5700e56080c7612bf7213479cb75d87#128) (BC.Arm.vld1q_u8 0x15a19629107b9ac7f391786f9d9eb2b1#128) (BC.Arm.vld1q_u8 0x3275193dff358a7e6d54c680c3bd0d57#128) (BC.Arm.vld1q_u8 0xdff524a93ea843c9d779d6f67c22b903#128) (BC.Arm.vld1q_u8 0xe00fecde7a94b0bcdce828504e330a4a#128) (BC.Arm.vld1q_u8 0xa79760731e0062441ab83882649f2641#128) (BC.Arm.vld1q_u8 0xad454692275e552f8ca3a57d69d5953b#128) (BC.Arm.vld1q_u8 0x758b34086ac1df730376be488d9e789#128) (BC.Arm.vld1q_u8 0xe11b83494c3ff8fe8d53aa90cad88561#128) (BC.Arm.vld1q_u8 0x207167a42d2b095bcb9b25d0bee56c52#128) (BC.Arm.vld1q_u8 0x59a674d2e6f4b4c0d166afc2394b63b6#128) e4), trG kuznyechik_neon_encdeckeys_from_mem0 (subG (BC.Arm.vld1q_u8 0xfceedd11cf6e3116fbc4fada23c5044d#128) (BC.Arm.vld1q_u8 0xe977f0db932e99ba1736f1bb14cd5fc1#128) (BC.Arm.vld1q_u8 0xf918655ae25cef21811c3c428b018e4f#128) (BC.Arm.vld1q_u8 0x58402aee36a8fa0060bed987fd4d31f#128) (BC.Arm.vld1q_u8 0xeb342c51eac848abf22a68a2fd3acecc#128) (BC.Arm.vld1q_u8 0xb5700e56080c7612bf7213479cb75d87#128) (BC.Arm.vld1q_u8 0x15a19629107b9ac7f391786f9d9eb2b1#128) (BC.Arm.vld1q_u8 0x3275193dff358a7e6d54c680c3bd0d57#128) (BC.Arm.vld1q_u8 0xdff524a93ea843c9d779d6f67c22b903#128) (BC.Arm.vld1q_u8 0xe00fecde7a94b0bcdce828504e330a4a#128) (BC.Arm.vld1q_u8 0xa79760731e0062441ab83882649f2641#128) (BC.Arm.vld1q_u8 0xad454692275e552f8ca3a57d69d5953b#128) (BC.Arm.vld1q_u8 0x758b34086ac1df730376be488d9e789#128) (BC.Arm.vld1q_u8 0xe11b83494c3ff8fe8d53aa90cad88561#128) (BC.Arm.vld1q_u8 0x207167a42d2b095bcb9b25d0bee56c52#128) (BC.Arm.vld1q_u8 0x59a674d2e6f4b4c0d166afc2394b63b6#128) e3), trG kuznyechik_neon_encdeckeys_from_mem0 (subG (BC.Arm.vld1q_u8 0xfceedd11cf6e3116fbc4fada23c5044d#128) (BC.Arm.vld1q_u8 0xe977f0db932e99ba1736f1bb14cd5fc1#128) (BC.Arm.vld1q_u8 0xf918655ae25cef21811c3c428b018e4f#128) (BC.Arm.vld1q_u8 0x58402aee36a8fa0060bed987fd4d31f#128) (BC.Arm.vld1q_u8 0xeb342c51eac848abf22a68a2fd3acecc#128) (BC.Arm.vld1q_u8 0xb5700e56080c7612bf7213479cb75d87#128) (BC.Arm.vld1q_u8 0x15a19629107b9ac7f391786f9d9eb2b1#128) (BC.Arm.vld1q_u8 0x3275193dff358a7e6d54c680c3bd0d57#128) (BC.Arm.vld1q_u8 0xdff524a93ea843c9d779d6f67c22b903#128) (BC.Arm.vld1q_u8 0xe00fecde7a94b0bcdce828504e330a4a#128) (BC.Arm.vld1q_u8 0xa79760731e0062441ab83882649f2641#128) (BC.Arm.vld1q_u8 0xad454692275e552f8ca3a57d69d5953b#128) (BC.Arm.vld1q_u8 0x758b34086ac1df730376be488d9e789#128) (BC.Arm.vld1q_u8 0xe11b83494c3ff8fe8d53aa90cad88561#128) (BC.Arm.vld1q_u8 0x207167a42d2b095bcb9b25d0bee56c52#128) (BC.Arm.vld1q_u8 0x59a674d2e6f4b4c0d166afc2394b63b6#128) e2), trG kuznyechik_neon_encdeckeys_from_mem0 (subG (BC.Arm.vld1q_u8 0xfceedd11cf6e3116fbc4fada23c5044d#128) (BC.Arm.vld1q_u8 0xe977f0db932e99ba1736f1bb14cd5fc1#128) (BC.Arm.vld1q_u8 0xf918655ae25cef21811c3c428b018e4f#128) (BC.Arm.vld1q_u8 0x58402aee36a8fa0060bed987fd4d31f#128) (BC.Arm.vld1q_u8 0xeb342c51eac848abf22a68a2fd3acecc#128) (BC.Arm.vld1q_u8 0xb5700e56080c7612bf7213479cb75d87#128) (BC.Arm.vld1q_u8 0x15a19629107b9ac7f391786f9d9eb2b1#128) (BC.Arm.vld1q_u8 0x3275193dff358a7e6d54c680c3bd0d57#128) (BC.Arm.vld1q_u8 0xdff524a93ea843c9d779d6f67c22b903#128) (BC.Arm.vld1q_u8 0xe00fecde7a94b0bcdce828504e330a4a#128) (BC.Arm.vld1q_u8 0xa79760731e0062441ab83882649f2641#128) (BC.Arm.vld1q_u8 0xad454692275e552f8ca3a57d69d5953b#128) (BC.Arm.vld1q_u8 0x758b34086ac1df730376be488d9e789#128) (BC.Arm.vld1q_u8 0xe11b83494c3ff8fe8d53aa90cad88561#128) (BC.Arm.vld1q_u8 0x207167a42d2b095bcb9b25d0bee56c52#128) (BC.Arm.vld1q_u8 0x59a674d2e6f4b4c0d166afc2394b63b6#128) e1), e0) := by
  kuz_kernel_rfl

/-- the regenerated `EncDecKeys::from(EncKeys)` (neon) is the model's `Neon.EncDecKeys.fromEnc` -/
theorem kuznyechik_neon_encdeckeys_from_eq (e0 e1 e2 e3 e4 e5 e6 e7 e8 e9 : BitVec 128) :
    kuznyechik_neon_encdeckeys_from e0 e1 e2 e3 e4 e5 e6 e7 e8 e9 = rkTuple2 (Neon.EncDecKeys.fromEnc ⟨⟨e0, e1, e2, e3, e4, e5, e6, e7, e8, e9⟩⟩) := by
  rw [neon_encdeckeys_from_eq_G]
  simp only [rkTuple2, Neon.EncDecKeys.fromEnc, Neon.inv_enc_keys, inv_with, trG_eq _ _ encdeckeys_from_mem, subG_P]

theorem neon_deckeys_from_eq_G (e0 e1 e2 e3 e4 e5 e6 e7 e8 e9 : BitVec 128) :
    kuznyechik_neon_deckeys_from e0 e1 e2 e3 e4 e5 e6 e7 e8 e9 = invG kuznyechik_neon_deckeys_from_mem0 e0 e1 e2 e3 e4 e5 e6 e7 e8 e9 := by
  kuz_kernel_rfl

/-- the regenerated `DecKeys::from(EncKeys)` (neon) is the model's `Neon.DecKeys.fromEnc` -/
theorem kuznyechik_neon_deckeys_from_eq (e0 e1 e2 e3 e4 e5 e6 e7 e8 e9 : BitVec 128) :
    kuznyechik_neon_deckeys_from e0 e1 e2 e3 e4 e5 e6 e7 e8 e9 = rkTuple (Neon.DecKeys.fromEnc ⟨⟨e0, e1, e2, e3, e4, e5, e6, e7, e8, e9⟩⟩).keys := by
  rw [neon_deckeys_from_eq_G, invG_eq _ deckeys_from_mem]
  rfl

end BC.GenKeys.KuznyechikNeon
