import BlockCiphers.Proofs.Des
import BlockCiphers.Proofs.DesSpecPerm
import BlockCiphers.Proofs.DesSpecSbox
/-
C05, part 3: `gen_keys` = the FIPS 46-3 key schedule, `Des::encrypt/decrypt` = the FIPS 46-3 enciphering /
deciphering computation, for ALL keys and blocks; TDES = SP 800-67 TDEA (and the EEE chains) with the key
parts taken in order; key relations (parity bits ignored, keying options, complementation).
-/
namespace BC.Des
open BC.Spec.Des (permute PC1 PC2 E P IP FP LR iteration schedule roundKeys cipher)

/-- a 48-bit round key of the standard as the Rust stores it (top 48 bits of a u64) -/
def up48 (k : BitVec 48) : BitVec 64 := k.setWidth 64 <<< 16

/-- L‖R as the Rust's u64 state -/
def join (s : LR) : BitVec 64 := s.l ++ s.r

/-! ### key schedule -/

theorem rotate_one (c : BitVec 28) : rotate (c.setWidth 64) 1 = (c.rotateLeft 1).setWidth 64 := by
  unfold rotate; bv_decide (config := { timeout := 600 })

theorem rotate_two (c : BitVec 28) : rotate (c.setWidth 64) 2 = (c.rotateLeft 2).setWidth 64 := by
  unfold rotate; bv_decide (config := { timeout := 600 })

theorem cd_pack (c d : BitVec 28) :
    ((((c.setWidth 64) <<< 28) ||| d.setWidth 64) <<< 8).extractLsb' 8 56 = c ++ d := by
  bv_decide (config := { timeout := 600 })

theorem genKeysLoop_eq (ss : List Nat) (hs : ∀ s ∈ ss, s = 1 ∨ s = 2) (c d : BitVec 28) :
    genKeysLoop (c.setWidth 64) (d.setWidth 64) ss = (schedule c d ss).map up48 := by
  induction ss generalizing c d with
  | nil => rfl
  | cons s ss ih =>
    have ih' := ih (fun t ht => hs t (List.mem_cons_of_mem _ ht))
    rcases hs s List.mem_cons_self with h | h
    · subst h
      simp only [genKeysLoop, schedule, List.map_cons, rotate_one, ih', pc2_eq_table, cd_pack, up48]
    · subst h
      simp only [genKeysLoop, schedule, List.map_cons, rotate_two, ih', pc2_eq_table, cd_pack, up48]

theorem SHIFTS_eq : SHIFTS = BC.Spec.Des.SHIFTS := rfl

theorem SHIFTS_range : ∀ s ∈ BC.Spec.Des.SHIFTS, s = 1 ∨ s = 2 := by decide

/-- `gen_keys key` = K_1 … K_16 of FIPS 46-3 (each in the top 48 bits), for every 64-bit key -/
theorem genKeys_eq_spec (key : BitVec 64) : genKeys key = (roundKeys key).map up48 := by
  unfold genKeys roundKeys
  simp only [pc1_eq_table, SHIFTS_eq]
  generalize permute PC1 56 key = cd
  have hc : (cd.setWidth 64 <<< 8 >>> 8) >>> 28 = (cd.extractLsb' 28 28).setWidth 64 := by bv_decide (config := { timeout := 600 })
  have hd : (cd.setWidth 64 <<< 8 >>> 8) &&& 0x0FFFFFFF#64 = (cd.extractLsb' 0 28).setWidth 64 := by bv_decide (config := { timeout := 600 })
  rw [hc, hd]
  exact genKeysLoop_eq _ SHIFTS_range _ _

/-! ### round function and rounds -/

theorem f_eq_spec (r : BitVec 32) (k : BitVec 48) :
    f (r.setWidth 64 <<< 32) (up48 k) = (BC.Spec.Des.f r k).setWidth 64 <<< 32 := by
  unfold f BC.Spec.Des.f up48
  simp only [e_eq_table, applySboxes_eq, p_eq_table]
  have h1 : (r.setWidth 64 <<< 32).extractLsb' 32 32 = r := by bv_decide (config := { timeout := 600 })
  rw [h1]
  generalize permute E 48 r = er
  have h2 : ((er.setWidth 64 <<< 16) ^^^ (k.setWidth 64 <<< 16)).extractLsb' 16 48 = er ^^^ k := by bv_decide (config := { timeout := 600 })
  rw [h2]
  generalize BC.Spec.Des.sboxes (er ^^^ k) = sb
  have h3 : (sb.setWidth 64 <<< 32).extractLsb' 32 32 = sb := by bv_decide (config := { timeout := 600 })
  rw [h3]

/-- one Rust `round` = one iteration `L' = R, R' = L ⊕ f(R, K)` -/
theorem round_eq_spec (s : LR) (k : BitVec 48) : round (join s) (up48 k) = join (iteration s k) := by
  cases s with | mk l r =>
  have h1 : join { l := l, r := r } <<< 32 = r.setWidth 64 <<< 32 := by unfold join; bv_decide (config := { timeout := 600 })
  rw [round_eq_roundWith, h1, f_eq_spec]
  simp only [iteration]
  generalize BC.Spec.Des.f r k = t
  unfold roundWith join
  bv_decide (config := { timeout := 600 })

theorem rounds_eq_spec (ks : List (BitVec 48)) (s : LR) :
    (ks.map up48).foldl round (join s) = join (ks.foldl iteration s) := by
  induction ks generalizing s with
  | nil => rfl
  | cons k ks ih => simp only [List.map_cons, List.foldl_cons, round_eq_spec, ih]

theorem split_join (x : BitVec 64) : x = join { l := x.extractLsb' 32 32, r := x.extractLsb' 0 32 } := by
  unfold join; bv_decide (config := { timeout := 600 })

theorem join_swap (s : LR) : (join s).rotateRight 32 = s.r ++ s.l := by
  cases s; unfold join; bv_decide (config := { timeout := 600 })

/-- the Rust enciphering loop on round keys `ks` = the standard's computation on `ks` -/
theorem encrypt_eq_cipher (ks : List (BitVec 48)) (b : BitVec 64) :
    encrypt (ks.map up48) b = cipher ks b := by
  unfold encrypt cipher
  rw [ip_eq_table, fp_eq_table]
  generalize permute IP 64 b = x
  rw [split_join x, rounds_eq_spec, join_swap, ← split_join x]

theorem decrypt_eq_cipher (ks : List (BitVec 48)) (b : BitVec 64) :
    decrypt (ks.map up48) b = cipher ks.reverse b := by
  have h := encrypt_eq_cipher ks.reverse b
  rw [List.map_reverse] at h
  exact h

/-- C05: `Des::new(key).encrypt_block(b)` = FIPS 46-3 DES encryption, for every key and block -/
theorem desEnc_eq_spec (key b : BitVec 64) : desEnc key b = BC.Spec.Des.des key b := by
  unfold desEnc BC.Spec.Des.des; rw [genKeys_eq_spec, encrypt_eq_cipher]

/-- C05: `Des::new(key).decrypt_block(b)` = FIPS 46-3 DES decryption, for every key and block -/
theorem desDec_eq_spec (key b : BitVec 64) : desDec key b = BC.Spec.Des.desInv key b := by
  unfold desDec BC.Spec.Des.desInv; rw [genKeys_eq_spec, decrypt_eq_cipher]

/-- consequence for the standard itself: deciphering inverts enciphering -/
theorem spec_desInv_des (key b : BitVec 64) : BC.Spec.Des.desInv key (BC.Spec.Des.des key b) = b := by
  rw [← desEnc_eq_spec, ← desDec_eq_spec]; exact decrypt_encrypt key b

/-! ### TDES = SP 800-67 TDEA / EEE chains, key parts in order -/

theorem ede3Enc_eq_spec (key : BitVec 192) (b : BitVec 64) :
    ede3Enc (Tdes3.new key) b = BC.Spec.Des.tdeaEnc (k1of3 key) (k2of3 key) (k3of3 key) b := by
  simp only [ede3Enc, Tdes3.new, BC.Spec.Des.tdeaEnc, ← desEnc_eq_spec, ← desDec_eq_spec, desEnc, desDec]
theorem ede3Dec_eq_spec (key : BitVec 192) (b : BitVec 64) :
    ede3Dec (Tdes3.new key) b = BC.Spec.Des.tdeaDec (k1of3 key) (k2of3 key) (k3of3 key) b := by
  simp only [ede3Dec, Tdes3.new, BC.Spec.Des.tdeaDec, ← desEnc_eq_spec, ← desDec_eq_spec, desEnc, desDec]
theorem eee3Enc_eq_spec (key : BitVec 192) (b : BitVec 64) :
    eee3Enc (Tdes3.new key) b = BC.Spec.Des.eeeEnc (k1of3 key) (k2of3 key) (k3of3 key) b := by
  simp only [eee3Enc, Tdes3.new, BC.Spec.Des.eeeEnc, ← desEnc_eq_spec, desEnc]
theorem eee3Dec_eq_spec (key : BitVec 192) (b : BitVec 64) :
    eee3Dec (Tdes3.new key) b = BC.Spec.Des.eeeDec (k1of3 key) (k2of3 key) (k3of3 key) b := by
  simp only [eee3Dec, Tdes3.new, BC.Spec.Des.eeeDec, ← desDec_eq_spec, desDec]
/-- two-key forms: keying option 2, `K3 = K1` -/
theorem ede2Enc_eq_spec (key : BitVec 128) (b : BitVec 64) :
    ede2Enc (Tdes2.new key) b = BC.Spec.Des.tdeaEnc (k1of2 key) (k2of2 key) (k1of2 key) b := by
  simp only [ede2Enc, Tdes2.new, BC.Spec.Des.tdeaEnc, ← desEnc_eq_spec, ← desDec_eq_spec, desEnc, desDec]
theorem ede2Dec_eq_spec (key : BitVec 128) (b : BitVec 64) :
    ede2Dec (Tdes2.new key) b = BC.Spec.Des.tdeaDec (k1of2 key) (k2of2 key) (k1of2 key) b := by
  simp only [ede2Dec, Tdes2.new, BC.Spec.Des.tdeaDec, ← desEnc_eq_spec, ← desDec_eq_spec, desEnc, desDec]
theorem eee2Enc_eq_spec (key : BitVec 128) (b : BitVec 64) :
    eee2Enc (Tdes2.new key) b = BC.Spec.Des.eeeEnc (k1of2 key) (k2of2 key) (k1of2 key) b := by
  simp only [eee2Enc, Tdes2.new, BC.Spec.Des.eeeEnc, ← desEnc_eq_spec, desEnc]
theorem eee2Dec_eq_spec (key : BitVec 128) (b : BitVec 64) :
    eee2Dec (Tdes2.new key) b = BC.Spec.Des.eeeDec (k1of2 key) (k2of2 key) (k1of2 key) b := by
  simp only [eee2Dec, Tdes2.new, BC.Spec.Des.eeeDec, ← desDec_eq_spec, desDec]

/-! ### key relations -/

/-- the parity bits (least significant bit of every key byte) are ignored -/
theorem pc1_parity (k : BitVec 64) : pc1 k = pc1 (k ||| 0x0101010101010101#64) := by
  unfold pc1 deltaSwap; bv_decide (config := { timeout := 600 })

theorem genKeys_parity (k : BitVec 64) : genKeys k = genKeys (k ||| 0x0101010101010101#64) := by
  unfold genKeys; rw [← pc1_parity]

/-- two keys that agree outside the parity bits have the same round keys -/
theorem genKeys_of_sameDesKey (k1 k2 : BitVec 64) (h : sameDesKey k1 k2 = true) : genKeys k1 = genKeys k2 := by
  have h' : (k1 ^^^ k2) &&& 0xFEFEFEFEFEFEFEFE#64 = 0#64 := by simpa [sameDesKey] using h
  have : k1 ||| 0x0101010101010101#64 = k2 ||| 0x0101010101010101#64 := by bv_decide (config := { timeout := 600 })
  rw [genKeys_parity k1, genKeys_parity k2, this]

/-- EDE with all three parts equal is single DES (the backward-compatibility property of SP 800-67 §3.2) -/
theorem ede3_equal_parts (k b : BitVec 64) :
    ede3Enc (Tdes3.new (k ++ k ++ k)) b = desEnc k b := by
  have h1 : k1of3 (k ++ k ++ k) = k := by unfold k1of3; bv_decide (config := { timeout := 600 })
  have h2 : k2of3 (k ++ k ++ k) = k := by unfold k2of3; bv_decide (config := { timeout := 600 })
  have h3 : k3of3 (k ++ k ++ k) = k := by unfold k3of3; bv_decide (config := { timeout := 600 })
  simp only [ede3Enc, Tdes3.new, h1, h2, h3, decrypt_encrypt_keys, desEnc]

theorem ede2_equal_parts (k b : BitVec 64) :
    ede2Enc (Tdes2.new (k ++ k)) b = desEnc k b := by
  have h1 : k1of2 (k ++ k) = k := by unfold k1of2; bv_decide (config := { timeout := 600 })
  have h2 : k2of2 (k ++ k) = k := by unfold k2of2; bv_decide (config := { timeout := 600 })
  simp only [ede2Enc, Tdes2.new, h1, h2, decrypt_encrypt_keys, desEnc]

/-- the two-key form is the three-key form with the first part repeated as third part -/
theorem ede2_eq_ede3 (k1 k2 b : BitVec 64) :
    ede2Enc (Tdes2.new (k1 ++ k2)) b = ede3Enc (Tdes3.new (k1 ++ k2 ++ k1)) b := by
  have a1 : k1of2 (k1 ++ k2) = k1 := by unfold k1of2; bv_decide (config := { timeout := 600 })
  have a2 : k2of2 (k1 ++ k2) = k2 := by unfold k2of2; bv_decide (config := { timeout := 600 })
  have h1 : k1of3 (k1 ++ k2 ++ k1) = k1 := by unfold k1of3; bv_decide (config := { timeout := 600 })
  have h2 : k2of3 (k1 ++ k2 ++ k1) = k2 := by unfold k2of3; bv_decide (config := { timeout := 600 })
  have h3 : k3of3 (k1 ++ k2 ++ k1) = k1 := by unfold k3of3; bv_decide (config := { timeout := 600 })
  simp only [ede2Enc, ede3Enc, Tdes2.new, Tdes3.new, a1, a2, h1, h2, h3]

theorem ede2Dec_eq_ede3Dec (k1 k2 b : BitVec 64) :
    ede2Dec (Tdes2.new (k1 ++ k2)) b = ede3Dec (Tdes3.new (k1 ++ k2 ++ k1)) b := by
  have a1 : k1of2 (k1 ++ k2) = k1 := by unfold k1of2; bv_decide (config := { timeout := 600 })
  have a2 : k2of2 (k1 ++ k2) = k2 := by unfold k2of2; bv_decide (config := { timeout := 600 })
  have h1 : k1of3 (k1 ++ k2 ++ k1) = k1 := by unfold k1of3; bv_decide (config := { timeout := 600 })
  have h2 : k2of3 (k1 ++ k2 ++ k1) = k2 := by unfold k2of3; bv_decide (config := { timeout := 600 })
  have h3 : k3of3 (k1 ++ k2 ++ k1) = k1 := by unfold k3of3; bv_decide (config := { timeout := 600 })
  simp only [ede2Dec, ede3Dec, Tdes2.new, Tdes3.new, a1, a2, h1, h2, h3]

theorem eee2_eq_eee3 (k1 k2 b : BitVec 64) :
    eee2Enc (Tdes2.new (k1 ++ k2)) b = eee3Enc (Tdes3.new (k1 ++ k2 ++ k1)) b := by
  have a1 : k1of2 (k1 ++ k2) = k1 := by unfold k1of2; bv_decide (config := { timeout := 600 })
  have a2 : k2of2 (k1 ++ k2) = k2 := by unfold k2of2; bv_decide (config := { timeout := 600 })
  have h1 : k1of3 (k1 ++ k2 ++ k1) = k1 := by unfold k1of3; bv_decide (config := { timeout := 600 })
  have h2 : k2of3 (k1 ++ k2 ++ k1) = k2 := by unfold k2of3; bv_decide (config := { timeout := 600 })
  have h3 : k3of3 (k1 ++ k2 ++ k1) = k1 := by unfold k3of3; bv_decide (config := { timeout := 600 })
  simp only [eee2Enc, eee3Enc, Tdes2.new, Tdes3.new, a1, a2, h1, h2, h3]

end BC.Des
