import BlockCiphers.Proofs.KuznyechikSpec
import BlockCiphers.Proofs.KuznyechikLStepR
import BlockCiphers.Proofs.KuznyechikLStepRinv
/-
Kuznyechik, `compact_soft` backend = GOST R 34.12-2015:
the sixteen `l_step`s with rotating index are L (in reverse index order: L⁻¹), `KEYGEN[n] = C_{n+1}`, `lsx` = LSX,
`lsx_inv` = S⁻¹L⁻¹X, `expand` = the iteration keys K1..K10, `encrypt_block` = E, `decrypt_block` = D; hence
decryption inverts encryption (both orders) for every key and block.
-/
namespace BC.Kuznyechik
open BC.Spec.Kuznyechik

/-- `for i in 0..16 { block = l_step(block, i) }` is L = R^16 -/
theorem l_fwd_eq_L (m : BitVec 128) : l_fwd m = L m := by
  simp only [L, iter, l_fwd, List.range, List.range.loop, List.foldl]
  rw [l_step_R_0 m, l_step_R_1, l_step_R_2, l_step_R_3, l_step_R_4, l_step_R_5, l_step_R_6, l_step_R_7,
    l_step_R_8, l_step_R_9, l_step_R_10, l_step_R_11, l_step_R_12, l_step_R_13, l_step_R_14, l_step_R_15]

/-- `for i in 0..16 { block = l_step(block, 15 - i) }` is L⁻¹ = (R⁻¹)^16 -/
theorem l_bwd_eq_Linv (m : BitVec 128) : l_bwd m = Linv m := by
  simp only [Linv, iter, l_bwd, List.range, List.range.loop, List.foldl, Nat.sub_zero, Nat.reduceSub]
  rw [l_step_Rinv_15 m, l_step_Rinv_14, l_step_Rinv_13, l_step_Rinv_12, l_step_Rinv_11, l_step_Rinv_10,
    l_step_Rinv_9, l_step_Rinv_8, l_step_Rinv_7, l_step_Rinv_6, l_step_Rinv_5, l_step_Rinv_4, l_step_Rinv_3,
    l_step_Rinv_2, l_step_Rinv_1, l_step_Rinv_0]

/-- each `l_step` is an involution (it XORs a function of the other fifteen bytes into one byte) -/
theorem l_bwd_l_fwd (m : BitVec 128) : l_bwd (l_fwd m) = m := by rw [l_fwd_eq_L, l_bwd_eq_Linv, Linv_L]
theorem l_fwd_l_bwd (m : BitVec 128) : l_fwd (l_bwd m) = m := by rw [l_fwd_eq_L, l_bwd_eq_Linv, L_Linv]

theorem vec128_fin : ∀ n : Fin 32, setb 0#128 15 (BitVec.ofNat 8 (n.val + 1)) = BitVec.ofNat 128 (n.val + 1) := by
  decide +kernel

/-- `KEYGEN[n] = C_{n+1} = L(Vec128(n+1))`, n = 0..31 -/
theorem KEYGEN_eq_C (n : Nat) (h : n < 32) : KEYGEN[n] = C (n + 1) := by
  simp only [KEYGEN, Vector.getElem_ofFn, l_fwd_eq_L, C]
  rw [vec128_fin ⟨n, h⟩]

namespace Compact

theorem get_c_eq (n : Nat) (h : n < 32) : get_c n h = C (n + 1) := KEYGEN_eq_C n h

theorem s_eq_S (m : BitVec 128) : mapBytes (lut P) m = S m := by
  rw [S_eq_mapBytes]; exact mapBytes_congr _ _ P_eq_pi m
theorem s_inv_eq_Sinv (m : BitVec 128) : mapBytes (lut P_INV) m = Sinv m := by
  rw [Sinv_eq_mapBytes]; exact mapBytes_congr _ _ P_INV_eq_piInv m

theorem lsx_eq_LSX (block key : BitVec 128) : lsx block key = LSX key block := by
  simp only [lsx, x, LSX, X, s_eq_S, l_fwd_eq_L, BitVec.xor_comm]

theorem lsx_inv_eq (block key : BitVec 128) : lsx_inv block key = SinvLinvX key block := by
  simp only [lsx_inv, x, SinvLinvX, X, s_inv_eq_Sinv, l_bwd_eq_Linv, BitVec.xor_comm]

theorem finRange4 : List.finRange 4 = [0, 1, 2, 3] := by decide

/-- the two half-steps of one iteration of `f` are two Feistel rounds F -/
theorem f_step (c0 c1 : BitVec 128) (k : BitVec 128 × BitVec 128) :
    (x k.1 (lsx (x k.2 (lsx k.1 c0)) c1), x k.2 (lsx k.1 c0)) = F c1 (F c0 k) := by
  simp only [F, x, lsx_eq_LSX]
  rw [BitVec.xor_comm k.2, BitVec.xor_comm k.1]

theorem f_unfold (p : BitVec 128 × BitVec 128) (n : Fin 4) :
    f p n = (List.finRange 4).foldl (fun (k : BitVec 128 × BitVec 128) (i : Fin 4) =>
      F (C (8 * n.val + 2 * i.val + 1 + 1)) (F (C (8 * n.val + 2 * i.val + 1)) k)) p := by
  unfold f
  congr 1
  funext k i
  simp only [get_c_eq]
  exact f_step _ _ k

/-- `f(k1, k2, n)` = the eight Feistel rounds F[C_{8n+1}] (first) … F[C_{8n+8}] (last) -/
theorem f_eq_nextPair (p : BitVec 128 × BitVec 128) : ∀ n : Fin 4, f p n = nextPair (n.val + 1) p := by
  intro n
  rw [f_unfold]
  match n with
  | ⟨0, _⟩ => rfl
  | ⟨1, _⟩ => rfl
  | ⟨2, _⟩ => rfl
  | ⟨3, _⟩ => rfl

/-- `expand` computes the iteration keys K1, …, K10 of §4.3 -/
theorem expand_eq_roundKeys (key : BitVec 256) : (expand key).toList = roundKeys key := by
  simp only [expand, RoundKeys.toList, roundKeys, f_eq_nextPair]
  rfl

theorem encrypt_block_eq_E (k : RoundKeys) (b : BitVec 128) : encrypt_block k b = E k.toList b := by
  simp only [encrypt_block, E, RoundKeys.toList, List.foldl, List.getLastD, List.getLast, List.dropLast,
    lsx_eq_LSX, x, X, BitVec.xor_comm]

theorem decrypt_block_eq_D (k : RoundKeys) (b : BitVec 128) : decrypt_block k b = D k.toList b := by
  simp only [decrypt_block, D, RoundKeys.toList, List.foldl, List.headD, List.tail, List.reverse, List.reverseAux,
    lsx_inv_eq, x, X, BitVec.xor_comm]

/-- C07: the compact backend encrypts as GOST R 34.12-2015 §4.4.1, for every key and block -/
theorem encrypt_eq_spec (key : BitVec 256) (b : BitVec 128) :
    encrypt_block (expand key) b = Spec.Kuznyechik.encrypt key b := by
  rw [encrypt_block_eq_E, expand_eq_roundKeys]; rfl

/-- C07: the compact backend decrypts as GOST R 34.12-2015 §4.4.2, for every key and block -/
theorem decrypt_eq_spec (key : BitVec 256) (b : BitVec 128) :
    decrypt_block (expand key) b = Spec.Kuznyechik.decrypt key b := by
  rw [decrypt_block_eq_D, expand_eq_roundKeys]; rfl

/-- C01 for ANY ten round keys: `decrypt_block` undoes `encrypt_block` -/
theorem decrypt_encrypt_keys (k : RoundKeys) (b : BitVec 128) : decrypt_block k (encrypt_block k b) = b := by
  rw [encrypt_block_eq_E, decrypt_block_eq_D]; exact D_E _ _ _ _ _ _ _ _ _ _ _

theorem encrypt_decrypt_keys (k : RoundKeys) (b : BitVec 128) : encrypt_block k (decrypt_block k b) = b := by
  rw [encrypt_block_eq_E, decrypt_block_eq_D]; exact E_D _ _ _ _ _ _ _ _ _ _ _

/-- C01: decryption inverts encryption for every key and block -/
theorem decrypt_encrypt (key : BitVec 256) (b : BitVec 128) :
    decrypt_block (expand key) (encrypt_block (expand key) b) = b := decrypt_encrypt_keys _ b

/-- C01, the other order -/
theorem encrypt_decrypt (key : BitVec 256) (b : BitVec 128) :
    encrypt_block (expand key) (decrypt_block (expand key) b) = b := encrypt_decrypt_keys _ b

end Compact
end BC.Kuznyechik
