import BlockCiphers.Proofs.GenKeysRc2_0
import BlockCiphers.Proofs.GenKeysRc2_1
import BlockCiphers.Proofs.GenKeysRc2_2
import BlockCiphers.Proofs.GenKeysRc2_3
import BlockCiphers.Proofs.GenKeysRc2_4
import BlockCiphers.Proofs.GenKeysRc2_5
import BlockCiphers.Proofs.GenKeysRc2_6
import BlockCiphers.Proofs.GenKeysRc2_7
/-! Ties of the regenerated RC2 constructors (`BC.GenKeys.Rc2.*_eq`): see `GenKeysRc2Base.lean` and `GenKeysRc2_<k>.lean`. -/
