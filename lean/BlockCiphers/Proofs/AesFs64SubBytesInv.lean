import BlockCiphers.Impl.AesFixslice64
import Std.Tactic.BVDecide
/-! C01 (fixslice64): `inv_sub_bytes ∘ sub_bytes = id` on all 8×64 bits. -/
namespace BC.AesFs64

set_option maxRecDepth 1000000 in
theorem inv_sub_bytes_sub_bytes (s : St) : inv_sub_bytes (sub_bytes s) = s := by
  cases s
  simp only [sub_bytes, inv_sub_bytes, St.mk.injEq]
  bv_decide (config := { timeout := 1800 })

end BC.AesFs64
