import BlockCiphers.Gen.Cipher_Gift
import BlockCiphers.Gen.Keys_Gift
import BlockCiphers.Proofs.GenCipherGift
import BlockCiphers.Proofs.GenKeysGift
import BlockCiphers.Proofs.Gift
import BlockCiphers.Proofs.GiftConf
/-
Code-level theorems for the `gift-cipher` crate (`Gift128`, 16-byte key, 16-byte block).
`enc` / `dec` are built ONLY from regenerated definitions (`Gen/Keys_Gift.lean`: `gift128_new`; `Gen/Cipher_Gift.lean`:
`gift128_encrypt_block` / `gift128_decrypt_block`).  For every key and every block: round trips, and equality with the GIFT-128
specification (`Spec/Gift.lean`, the bit-level description of the GIFT paper).
They compose: key tie `Proofs/GenKeysGift.precomputeRkeys_eq_new`, cipher ties `Proofs/GenCipherGift.{en,de}crypt_block_eq`,
model theorems `Proofs/Gift` (round trip), `Proofs/GiftConf` (conformance, Thm/C10).
Produced by gen_gift.py (only the 80-component patterns are mechanical).
-/
namespace BC.Code.Gift
open BC.Gen.Fn
set_option maxRecDepth 100000

/-- `Gift128::new(key).encrypt_block(b)` — regenerated code only -/
def enc (key : BitVec 128) (b : BitVec 128) : BitVec 128 :=
  match gift128_new key with
  | (k0, k1, k2, k3, k4, k5, k6, k7, k8, k9, k10, k11, k12, k13, k14, k15, k16, k17, k18, k19, k20, k21, k22, k23, k24, k25, k26, k27, k28, k29, k30, k31, k32, k33, k34, k35, k36, k37, k38, k39, k40, k41, k42, k43, k44, k45, k46, k47, k48, k49, k50, k51, k52, k53, k54, k55, k56, k57, k58, k59, k60, k61, k62, k63, k64, k65, k66, k67, k68, k69, k70, k71, k72, k73, k74, k75, k76, k77, k78, k79) => gift128_encrypt_block k0 k1 k2 k3 k4 k5 k6 k7 k8 k9 k10 k11 k12 k13 k14 k15 k16 k17 k18 k19 k20 k21 k22 k23 k24 k25 k26 k27 k28 k29 k30 k31 k32 k33 k34 k35 k36 k37 k38 k39 k40 k41 k42 k43 k44 k45 k46 k47 k48 k49 k50 k51 k52 k53 k54 k55 k56 k57 k58 k59 k60 k61 k62 k63 k64 k65 k66 k67 k68 k69 k70 k71 k72 k73 k74 k75 k76 k77 k78 k79 b

/-- `Gift128::new(key).decrypt_block(b)` — regenerated code only -/
def dec (key : BitVec 128) (b : BitVec 128) : BitVec 128 :=
  match gift128_new key with
  | (k0, k1, k2, k3, k4, k5, k6, k7, k8, k9, k10, k11, k12, k13, k14, k15, k16, k17, k18, k19, k20, k21, k22, k23, k24, k25, k26, k27, k28, k29, k30, k31, k32, k33, k34, k35, k36, k37, k38, k39, k40, k41, k42, k43, k44, k45, k46, k47, k48, k49, k50, k51, k52, k53, k54, k55, k56, k57, k58, k59, k60, k61, k62, k63, k64, k65, k66, k67, k68, k69, k70, k71, k72, k73, k74, k75, k76, k77, k78, k79) => gift128_decrypt_block k0 k1 k2 k3 k4 k5 k6 k7 k8 k9 k10 k11 k12 k13 k14 k15 k16 k17 k18 k19 k20 k21 k22 k23 k24 k25 k26 k27 k28 k29 k30 k31 k32 k33 k34 k35 k36 k37 k38 k39 k40 k41 k42 k43 k44 k45 k46 k47 k48 k49 k50 k51 k52 k53 k54 k55 k56 k57 k58 k59 k60 k61 k62 k63 k64 k65 k66 k67 k68 k69 k70 k71 k72 k73 k74 k75 k76 k77 k78 k79 b

theorem enc_eq_impl (key b : BitVec 128) : enc key b = BC.Gift.encrypt (BC.Gift.precomputeRkeys key) b := by
  rw [BC.GenKeys.Gift.precomputeRkeys_eq_new]; unfold enc
  generalize gift128_new key = t
  obtain ⟨k0, k1, k2, k3, k4, k5, k6, k7, k8, k9, k10, k11, k12, k13, k14, k15, k16, k17, k18, k19, k20, k21, k22, k23, k24, k25, k26, k27, k28, k29, k30, k31, k32, k33, k34, k35, k36, k37, k38, k39, k40, k41, k42, k43, k44, k45, k46, k47, k48, k49, k50, k51, k52, k53, k54, k55, k56, k57, k58, k59, k60, k61, k62, k63, k64, k65, k66, k67, k68, k69, k70, k71, k72, k73, k74, k75, k76, k77, k78, k79⟩ := t
  exact BC.GenCipher.Gift.encrypt_block_eq k0 k1 k2 k3 k4 k5 k6 k7 k8 k9 k10 k11 k12 k13 k14 k15 k16 k17 k18 k19 k20 k21 k22 k23 k24 k25 k26 k27 k28 k29 k30 k31 k32 k33 k34 k35 k36 k37 k38 k39 k40 k41 k42 k43 k44 k45 k46 k47 k48 k49 k50 k51 k52 k53 k54 k55 k56 k57 k58 k59 k60 k61 k62 k63 k64 k65 k66 k67 k68 k69 k70 k71 k72 k73 k74 k75 k76 k77 k78 k79 b

theorem dec_eq_impl (key b : BitVec 128) : dec key b = BC.Gift.decrypt (BC.Gift.precomputeRkeys key) b := by
  rw [BC.GenKeys.Gift.precomputeRkeys_eq_new]; unfold dec
  generalize gift128_new key = t
  obtain ⟨k0, k1, k2, k3, k4, k5, k6, k7, k8, k9, k10, k11, k12, k13, k14, k15, k16, k17, k18, k19, k20, k21, k22, k23, k24, k25, k26, k27, k28, k29, k30, k31, k32, k33, k34, k35, k36, k37, k38, k39, k40, k41, k42, k43, k44, k45, k46, k47, k48, k49, k50, k51, k52, k53, k54, k55, k56, k57, k58, k59, k60, k61, k62, k63, k64, k65, k66, k67, k68, k69, k70, k71, k72, k73, k74, k75, k76, k77, k78, k79⟩ := t
  exact BC.GenCipher.Gift.decrypt_block_eq k0 k1 k2 k3 k4 k5 k6 k7 k8 k9 k10 k11 k12 k13 k14 k15 k16 k17 k18 k19 k20 k21 k22 k23 k24 k25 k26 k27 k28 k29 k30 k31 k32 k33 k34 k35 k36 k37 k38 k39 k40 k41 k42 k43 k44 k45 k46 k47 k48 k49 k50 k51 k52 k53 k54 k55 k56 k57 k58 k59 k60 k61 k62 k63 k64 k65 k66 k67 k68 k69 k70 k71 k72 k73 k74 k75 k76 k77 k78 k79 b

/-- decryption inverts encryption, every key, every block -/
theorem dec_enc (key b : BitVec 128) : dec key (enc key b) = b := by
  rw [enc_eq_impl, dec_eq_impl]; exact BC.Gift.decrypt_encrypt key b
theorem enc_dec (key b : BitVec 128) : enc key (dec key b) = b := by
  rw [dec_eq_impl, enc_eq_impl]; exact BC.Gift.encrypt_decrypt key b

/-- the regenerated code computes GIFT-128 of the specification -/
theorem enc_eq_spec (key b : BitVec 128) : enc key b = BC.Spec.Gift.encrypt key b := by
  rw [enc_eq_impl]; exact BC.Gift.Conf.encrypt_eq_spec key b
theorem dec_eq_spec (key b : BitVec 128) : dec key b = BC.Spec.Gift.decrypt key b := by
  rw [dec_eq_impl]; exact BC.Gift.Conf.decrypt_eq_spec key b

end BC.Code.Gift
