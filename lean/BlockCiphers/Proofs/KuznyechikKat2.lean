import BlockCiphers.Proofs.KuznyechikKat
import BlockCiphers.Proofs.Kuznyechik
/-
GOST R 34.12-2015 Annex A.1.5 (encryption) and A.1.6 (decryption), kernel-evaluated on the specification; and, through the
conformance theorems, the same vector for the four backend models (the vector of /repo/kuznyechik/tests/mod.rs).
-/
namespace BC.Kuznyechik.Kat
open BC.Spec.Kuznyechik

def PT : BitVec 128 := 0x1122334455667700ffeeddccbbaa9988#128
def CT : BitVec 128 := 0x7f679d90bebc24305a468d42b9d4edcd#128

theorem E_kat : E Ks PT = CT := by decide +kernel
theorem D_kat : D Ks CT = PT := by decide +kernel

-- A.1.5: the intermediate values LSX[K1](a), …
example : LSX (Ks.getD 0 0) PT = 0xe297b686e355b0a1cf4a2f9249140830#128 := by decide +kernel
example : LSX (Ks.getD 1 0) 0xe297b686e355b0a1cf4a2f9249140830#128 = 0x285e497a0862d596b36f4258a1c69072#128 := by
  decide +kernel

/-- A.1.5 -/
theorem encrypt_kat : encrypt K PT = CT := by rw [encrypt, roundKeys_kat]; exact E_kat
/-- A.1.6 -/
theorem decrypt_kat : decrypt K CT = PT := by rw [decrypt, roundKeys_kat]; exact D_kat

/-- the vector through the four backend models -/
theorem backends_kat :
    Compact.encrypt_block (Compact.expand K) PT = CT ∧ Compact.decrypt_block (Compact.expand K) CT = PT ∧
    Soft.encrypt_block (Soft.expand_enc_keys K) PT = CT ∧
    Soft.decrypt_block (Soft.inv_enc_keys (Soft.expand_enc_keys K)) CT = PT ∧
    Sse2.encrypt_block (Sse2.expand_enc_keys K) PT = CT ∧
    Sse2.decrypt_block (Sse2.inv_enc_keys (Sse2.expand_enc_keys K)) CT = PT ∧
    Neon.encrypt_block (Neon.expand_enc_keys K) PT = CT ∧
    Neon.decrypt_block (Neon.inv_enc_keys (Neon.expand_enc_keys K)) CT = PT := by
  simp only [Compact.encrypt_eq_spec, Compact.decrypt_eq_spec, Soft.encrypt_eq_spec, Soft.decrypt_eq_spec,
    Sse2.encrypt_eq_spec, Sse2.decrypt_eq_spec, Neon.encrypt_eq_spec, Neon.decrypt_eq_spec, encrypt_kat, decrypt_kat,
    and_self]

end BC.Kuznyechik.Kat
