import BlockCiphers.Gen.Cipher_Des
import BlockCiphers.Gen.Keys_Des
import BlockCiphers.Proofs.GenCipherDes
import BlockCiphers.Proofs.GenKeysDes
import BlockCiphers.Proofs.Des
import BlockCiphers.Proofs.DesSpec
/-
Code-level theorems for the `des` crate: `Des`, `TdesEde3`, `TdesEee3`, `TdesEde2`, `TdesEee2`.
`enc*` / `dec*` are built ONLY from regenerated definitions (`Gen/Keys_Des.lean`: `*_new`; `Gen/Cipher_Des.lean`:
`*_encrypt_block` / `*_decrypt_block`).  The theorems state, for every key and every block, the round trips and the equality
with FIPS 46-3 DES / SP 800-67 TDEA (and the EEE chains) of `Spec/Des.lean`; the key parts K1, K2(, K3) are written
as the explicit slices `key.extractLsb' …` (bytes 0..8, 8..16(, 16..24) of the key; = the model's `k1of3` … by definition).
They compose: key ties `Proofs/GenKeysDes`, cipher ties `Proofs/GenCipherDes`, model theorems `Proofs/Des`, `Proofs/DesSpec`.
Produced by gen_des.py (only the long tuple patterns are mechanical).
-/
namespace BC.Code.Des
open BC.Gen.Fn
set_option maxRecDepth 100000

/-! ### glue: a `Tdes3` / `Tdes2` whose parts have 16 keys each is determined by the concatenation of its fields -/

theorem tdes3_of_fields (T : BC.Des.Tdes3) (h1 : T.d1.length = 16) (h2 : T.d2.length = 16) :
    T = { d1 := (BC.GenKeys.Des.fields3 T).take 16, d2 := ((BC.GenKeys.Des.fields3 T).drop 16).take 16,
          d3 := (BC.GenKeys.Des.fields3 T).drop 32 } := by
  obtain ⟨l1, l2, l3⟩ := T
  match l1, h1, l2, h2 with
  | [_, _, _, _, _, _, _, _, _, _, _, _, _, _, _, _], _, [_, _, _, _, _, _, _, _, _, _, _, _, _, _, _, _], _ => rfl

theorem tdes2_of_fields (T : BC.Des.Tdes2) (h1 : T.d1.length = 16) :
    T = { d1 := (BC.GenKeys.Des.fields2 T).take 16, d2 := (BC.GenKeys.Des.fields2 T).drop 16 } := by
  obtain ⟨l1, l2⟩ := T
  match l1, h1 with
  | [_, _, _, _, _, _, _, _, _, _, _, _, _, _, _, _], _ => rfl

/-! ## `Des` (8-byte key): FIPS 46-3 DES -/

/-- `Des::new(key).encrypt_block(b)` — regenerated code only -/
def enc (key : BitVec 64) (b : BitVec 64) : BitVec 64 :=
  match des_new key with
  | (k0, k1, k2, k3, k4, k5, k6, k7, k8, k9, k10, k11, k12, k13, k14, k15) => des_encrypt_block k0 k1 k2 k3 k4 k5 k6 k7 k8 k9 k10 k11 k12 k13 k14 k15 b

/-- `Des::new(key).decrypt_block(b)` — regenerated code only -/
def dec (key : BitVec 64) (b : BitVec 64) : BitVec 64 :=
  match des_new key with
  | (k0, k1, k2, k3, k4, k5, k6, k7, k8, k9, k10, k11, k12, k13, k14, k15) => des_decrypt_block k0 k1 k2 k3 k4 k5 k6 k7 k8 k9 k10 k11 k12 k13 k14 k15 b

theorem enc_eq_impl (key : BitVec 64) (b : BitVec 64) : enc key b = BC.Des.desEnc key b := by
  unfold enc BC.Des.desEnc
  rw [← BC.GenKeys.Des.new_list key]
  generalize des_new key = t
  obtain ⟨k0, k1, k2, k3, k4, k5, k6, k7, k8, k9, k10, k11, k12, k13, k14, k15⟩ := t
  exact BC.GenCipher.Des.des_encrypt_block_eq k0 k1 k2 k3 k4 k5 k6 k7 k8 k9 k10 k11 k12 k13 k14 k15 b

theorem dec_eq_impl (key : BitVec 64) (b : BitVec 64) : dec key b = BC.Des.desDec key b := by
  unfold dec BC.Des.desDec
  rw [← BC.GenKeys.Des.new_list key]
  generalize des_new key = t
  obtain ⟨k0, k1, k2, k3, k4, k5, k6, k7, k8, k9, k10, k11, k12, k13, k14, k15⟩ := t
  exact BC.GenCipher.Des.des_decrypt_block_eq k0 k1 k2 k3 k4 k5 k6 k7 k8 k9 k10 k11 k12 k13 k14 k15 b

/-- decryption inverts encryption, every key, every block -/
theorem dec_enc (key : BitVec 64) (b : BitVec 64) : dec key (enc key b) = b := by
  rw [enc_eq_impl, dec_eq_impl]; exact BC.Des.decrypt_encrypt key b
theorem enc_dec (key : BitVec 64) (b : BitVec 64) : enc key (dec key b) = b := by
  rw [dec_eq_impl, enc_eq_impl]; exact BC.Des.encrypt_decrypt key b
/-- the regenerated code computes the standard's function -/
theorem enc_eq_spec (key : BitVec 64) (b : BitVec 64) : enc key b = BC.Spec.Des.des key b := by
  rw [enc_eq_impl]; exact BC.Des.desEnc_eq_spec key b
theorem dec_eq_spec (key : BitVec 64) (b : BitVec 64) : dec key b = BC.Spec.Des.desInv key b := by
  rw [dec_eq_impl]; exact BC.Des.desDec_eq_spec key b

/-! ## `TdesEde3` (24-byte key): SP 800-67 TDEA, keying option 1 -/

/-- `TdesEde3::new(key).encrypt_block(b)` — regenerated code only -/
def enc_ede3 (key : BitVec 192) (b : BitVec 64) : BitVec 64 :=
  match tdesede3_new key with
  | (d1k0, d1k1, d1k2, d1k3, d1k4, d1k5, d1k6, d1k7, d1k8, d1k9, d1k10, d1k11, d1k12, d1k13, d1k14, d1k15, d2k0, d2k1, d2k2, d2k3, d2k4, d2k5, d2k6, d2k7, d2k8, d2k9, d2k10, d2k11, d2k12, d2k13, d2k14, d2k15, d3k0, d3k1, d3k2, d3k3, d3k4, d3k5, d3k6, d3k7, d3k8, d3k9, d3k10, d3k11, d3k12, d3k13, d3k14, d3k15) => tdesede3_encrypt_block d1k0 d1k1 d1k2 d1k3 d1k4 d1k5 d1k6 d1k7 d1k8 d1k9 d1k10 d1k11 d1k12 d1k13 d1k14 d1k15 d2k0 d2k1 d2k2 d2k3 d2k4 d2k5 d2k6 d2k7 d2k8 d2k9 d2k10 d2k11 d2k12 d2k13 d2k14 d2k15 d3k0 d3k1 d3k2 d3k3 d3k4 d3k5 d3k6 d3k7 d3k8 d3k9 d3k10 d3k11 d3k12 d3k13 d3k14 d3k15 b

/-- `TdesEde3::new(key).decrypt_block(b)` — regenerated code only -/
def dec_ede3 (key : BitVec 192) (b : BitVec 64) : BitVec 64 :=
  match tdesede3_new key with
  | (d1k0, d1k1, d1k2, d1k3, d1k4, d1k5, d1k6, d1k7, d1k8, d1k9, d1k10, d1k11, d1k12, d1k13, d1k14, d1k15, d2k0, d2k1, d2k2, d2k3, d2k4, d2k5, d2k6, d2k7, d2k8, d2k9, d2k10, d2k11, d2k12, d2k13, d2k14, d2k15, d3k0, d3k1, d3k2, d3k3, d3k4, d3k5, d3k6, d3k7, d3k8, d3k9, d3k10, d3k11, d3k12, d3k13, d3k14, d3k15) => tdesede3_decrypt_block d1k0 d1k1 d1k2 d1k3 d1k4 d1k5 d1k6 d1k7 d1k8 d1k9 d1k10 d1k11 d1k12 d1k13 d1k14 d1k15 d2k0 d2k1 d2k2 d2k3 d2k4 d2k5 d2k6 d2k7 d2k8 d2k9 d2k10 d2k11 d2k12 d2k13 d2k14 d2k15 d3k0 d3k1 d3k2 d3k3 d3k4 d3k5 d3k6 d3k7 d3k8 d3k9 d3k10 d3k11 d3k12 d3k13 d3k14 d3k15 b

theorem enc_ede3_eq_impl (key : BitVec 192) (b : BitVec 64) : enc_ede3 key b = BC.Des.ede3Enc (BC.Des.Tdes3.new key) b := by
  have hT := tdes3_of_fields (BC.Des.Tdes3.new key) rfl rfl
  rw [← BC.GenKeys.Des.tdesede3_new_list key] at hT
  rw [hT]; unfold enc_ede3
  generalize tdesede3_new key = t
  obtain ⟨d1k0, d1k1, d1k2, d1k3, d1k4, d1k5, d1k6, d1k7, d1k8, d1k9, d1k10, d1k11, d1k12, d1k13, d1k14, d1k15, d2k0, d2k1, d2k2, d2k3, d2k4, d2k5, d2k6, d2k7, d2k8, d2k9, d2k10, d2k11, d2k12, d2k13, d2k14, d2k15, d3k0, d3k1, d3k2, d3k3, d3k4, d3k5, d3k6, d3k7, d3k8, d3k9, d3k10, d3k11, d3k12, d3k13, d3k14, d3k15⟩ := t
  exact BC.GenCipher.Des.tdesede3_encrypt_block_eq d1k0 d1k1 d1k2 d1k3 d1k4 d1k5 d1k6 d1k7 d1k8 d1k9 d1k10 d1k11 d1k12 d1k13 d1k14 d1k15 d2k0 d2k1 d2k2 d2k3 d2k4 d2k5 d2k6 d2k7 d2k8 d2k9 d2k10 d2k11 d2k12 d2k13 d2k14 d2k15 d3k0 d3k1 d3k2 d3k3 d3k4 d3k5 d3k6 d3k7 d3k8 d3k9 d3k10 d3k11 d3k12 d3k13 d3k14 d3k15 b

theorem dec_ede3_eq_impl (key : BitVec 192) (b : BitVec 64) : dec_ede3 key b = BC.Des.ede3Dec (BC.Des.Tdes3.new key) b := by
  have hT := tdes3_of_fields (BC.Des.Tdes3.new key) rfl rfl
  rw [← BC.GenKeys.Des.tdesede3_new_list key] at hT
  rw [hT]; unfold dec_ede3
  generalize tdesede3_new key = t
  obtain ⟨d1k0, d1k1, d1k2, d1k3, d1k4, d1k5, d1k6, d1k7, d1k8, d1k9, d1k10, d1k11, d1k12, d1k13, d1k14, d1k15, d2k0, d2k1, d2k2, d2k3, d2k4, d2k5, d2k6, d2k7, d2k8, d2k9, d2k10, d2k11, d2k12, d2k13, d2k14, d2k15, d3k0, d3k1, d3k2, d3k3, d3k4, d3k5, d3k6, d3k7, d3k8, d3k9, d3k10, d3k11, d3k12, d3k13, d3k14, d3k15⟩ := t
  exact BC.GenCipher.Des.tdesede3_decrypt_block_eq d1k0 d1k1 d1k2 d1k3 d1k4 d1k5 d1k6 d1k7 d1k8 d1k9 d1k10 d1k11 d1k12 d1k13 d1k14 d1k15 d2k0 d2k1 d2k2 d2k3 d2k4 d2k5 d2k6 d2k7 d2k8 d2k9 d2k10 d2k11 d2k12 d2k13 d2k14 d2k15 d3k0 d3k1 d3k2 d3k3 d3k4 d3k5 d3k6 d3k7 d3k8 d3k9 d3k10 d3k11 d3k12 d3k13 d3k14 d3k15 b

/-- decryption inverts encryption, every key, every block -/
theorem dec_ede3_enc_ede3 (key : BitVec 192) (b : BitVec 64) : dec_ede3 key (enc_ede3 key b) = b := by
  rw [enc_ede3_eq_impl, dec_ede3_eq_impl]; exact BC.Des.tdesEde3_dec_enc key b
theorem enc_ede3_dec_ede3 (key : BitVec 192) (b : BitVec 64) : enc_ede3 key (dec_ede3 key b) = b := by
  rw [dec_ede3_eq_impl, enc_ede3_eq_impl]; exact BC.Des.tdesEde3_enc_dec key b
/-- the regenerated code computes the standard's function -/
theorem enc_ede3_eq_spec (key : BitVec 192) (b : BitVec 64) : enc_ede3 key b = BC.Spec.Des.tdeaEnc (key.extractLsb' 128 64) (key.extractLsb' 64 64) (key.extractLsb' 0 64) b := by
  rw [enc_ede3_eq_impl]; exact BC.Des.ede3Enc_eq_spec key b
theorem dec_ede3_eq_spec (key : BitVec 192) (b : BitVec 64) : dec_ede3 key b = BC.Spec.Des.tdeaDec (key.extractLsb' 128 64) (key.extractLsb' 64 64) (key.extractLsb' 0 64) b := by
  rw [dec_ede3_eq_impl]; exact BC.Des.ede3Dec_eq_spec key b

/-! ## `TdesEee3` (24-byte key): three encryptions in a row (EEE) -/

/-- `TdesEee3::new(key).encrypt_block(b)` — regenerated code only -/
def enc_eee3 (key : BitVec 192) (b : BitVec 64) : BitVec 64 :=
  match tdeseee3_new key with
  | (d1k0, d1k1, d1k2, d1k3, d1k4, d1k5, d1k6, d1k7, d1k8, d1k9, d1k10, d1k11, d1k12, d1k13, d1k14, d1k15, d2k0, d2k1, d2k2, d2k3, d2k4, d2k5, d2k6, d2k7, d2k8, d2k9, d2k10, d2k11, d2k12, d2k13, d2k14, d2k15, d3k0, d3k1, d3k2, d3k3, d3k4, d3k5, d3k6, d3k7, d3k8, d3k9, d3k10, d3k11, d3k12, d3k13, d3k14, d3k15) => tdeseee3_encrypt_block d1k0 d1k1 d1k2 d1k3 d1k4 d1k5 d1k6 d1k7 d1k8 d1k9 d1k10 d1k11 d1k12 d1k13 d1k14 d1k15 d2k0 d2k1 d2k2 d2k3 d2k4 d2k5 d2k6 d2k7 d2k8 d2k9 d2k10 d2k11 d2k12 d2k13 d2k14 d2k15 d3k0 d3k1 d3k2 d3k3 d3k4 d3k5 d3k6 d3k7 d3k8 d3k9 d3k10 d3k11 d3k12 d3k13 d3k14 d3k15 b

/-- `TdesEee3::new(key).decrypt_block(b)` — regenerated code only -/
def dec_eee3 (key : BitVec 192) (b : BitVec 64) : BitVec 64 :=
  match tdeseee3_new key with
  | (d1k0, d1k1, d1k2, d1k3, d1k4, d1k5, d1k6, d1k7, d1k8, d1k9, d1k10, d1k11, d1k12, d1k13, d1k14, d1k15, d2k0, d2k1, d2k2, d2k3, d2k4, d2k5, d2k6, d2k7, d2k8, d2k9, d2k10, d2k11, d2k12, d2k13, d2k14, d2k15, d3k0, d3k1, d3k2, d3k3, d3k4, d3k5, d3k6, d3k7, d3k8, d3k9, d3k10, d3k11, d3k12, d3k13, d3k14, d3k15) => tdeseee3_decrypt_block d1k0 d1k1 d1k2 d1k3 d1k4 d1k5 d1k6 d1k7 d1k8 d1k9 d1k10 d1k11 d1k12 d1k13 d1k14 d1k15 d2k0 d2k1 d2k2 d2k3 d2k4 d2k5 d2k6 d2k7 d2k8 d2k9 d2k10 d2k11 d2k12 d2k13 d2k14 d2k15 d3k0 d3k1 d3k2 d3k3 d3k4 d3k5 d3k6 d3k7 d3k8 d3k9 d3k10 d3k11 d3k12 d3k13 d3k14 d3k15 b

theorem enc_eee3_eq_impl (key : BitVec 192) (b : BitVec 64) : enc_eee3 key b = BC.Des.eee3Enc (BC.Des.Tdes3.new key) b := by
  have hT := tdes3_of_fields (BC.Des.Tdes3.new key) rfl rfl
  rw [← BC.GenKeys.Des.tdeseee3_new_list key] at hT
  rw [hT]; unfold enc_eee3
  generalize tdeseee3_new key = t
  obtain ⟨d1k0, d1k1, d1k2, d1k3, d1k4, d1k5, d1k6, d1k7, d1k8, d1k9, d1k10, d1k11, d1k12, d1k13, d1k14, d1k15, d2k0, d2k1, d2k2, d2k3, d2k4, d2k5, d2k6, d2k7, d2k8, d2k9, d2k10, d2k11, d2k12, d2k13, d2k14, d2k15, d3k0, d3k1, d3k2, d3k3, d3k4, d3k5, d3k6, d3k7, d3k8, d3k9, d3k10, d3k11, d3k12, d3k13, d3k14, d3k15⟩ := t
  exact BC.GenCipher.Des.tdeseee3_encrypt_block_eq d1k0 d1k1 d1k2 d1k3 d1k4 d1k5 d1k6 d1k7 d1k8 d1k9 d1k10 d1k11 d1k12 d1k13 d1k14 d1k15 d2k0 d2k1 d2k2 d2k3 d2k4 d2k5 d2k6 d2k7 d2k8 d2k9 d2k10 d2k11 d2k12 d2k13 d2k14 d2k15 d3k0 d3k1 d3k2 d3k3 d3k4 d3k5 d3k6 d3k7 d3k8 d3k9 d3k10 d3k11 d3k12 d3k13 d3k14 d3k15 b

theorem dec_eee3_eq_impl (key : BitVec 192) (b : BitVec 64) : dec_eee3 key b = BC.Des.eee3Dec (BC.Des.Tdes3.new key) b := by
  have hT := tdes3_of_fields (BC.Des.Tdes3.new key) rfl rfl
  rw [← BC.GenKeys.Des.tdeseee3_new_list key] at hT
  rw [hT]; unfold dec_eee3
  generalize tdeseee3_new key = t
  obtain ⟨d1k0, d1k1, d1k2, d1k3, d1k4, d1k5, d1k6, d1k7, d1k8, d1k9, d1k10, d1k11, d1k12, d1k13, d1k14, d1k15, d2k0, d2k1, d2k2, d2k3, d2k4, d2k5, d2k6, d2k7, d2k8, d2k9, d2k10, d2k11, d2k12, d2k13, d2k14, d2k15, d3k0, d3k1, d3k2, d3k3, d3k4, d3k5, d3k6, d3k7, d3k8, d3k9, d3k10, d3k11, d3k12, d3k13, d3k14, d3k15⟩ := t
  exact BC.GenCipher.Des.tdeseee3_decrypt_block_eq d1k0 d1k1 d1k2 d1k3 d1k4 d1k5 d1k6 d1k7 d1k8 d1k9 d1k10 d1k11 d1k12 d1k13 d1k14 d1k15 d2k0 d2k1 d2k2 d2k3 d2k4 d2k5 d2k6 d2k7 d2k8 d2k9 d2k10 d2k11 d2k12 d2k13 d2k14 d2k15 d3k0 d3k1 d3k2 d3k3 d3k4 d3k5 d3k6 d3k7 d3k8 d3k9 d3k10 d3k11 d3k12 d3k13 d3k14 d3k15 b

/-- decryption inverts encryption, every key, every block -/
theorem dec_eee3_enc_eee3 (key : BitVec 192) (b : BitVec 64) : dec_eee3 key (enc_eee3 key b) = b := by
  rw [enc_eee3_eq_impl, dec_eee3_eq_impl]; exact BC.Des.tdesEee3_dec_enc key b
theorem enc_eee3_dec_eee3 (key : BitVec 192) (b : BitVec 64) : enc_eee3 key (dec_eee3 key b) = b := by
  rw [dec_eee3_eq_impl, enc_eee3_eq_impl]; exact BC.Des.tdesEee3_enc_dec key b
/-- the regenerated code computes the standard's function -/
theorem enc_eee3_eq_spec (key : BitVec 192) (b : BitVec 64) : enc_eee3 key b = BC.Spec.Des.eeeEnc (key.extractLsb' 128 64) (key.extractLsb' 64 64) (key.extractLsb' 0 64) b := by
  rw [enc_eee3_eq_impl]; exact BC.Des.eee3Enc_eq_spec key b
theorem dec_eee3_eq_spec (key : BitVec 192) (b : BitVec 64) : dec_eee3 key b = BC.Spec.Des.eeeDec (key.extractLsb' 128 64) (key.extractLsb' 64 64) (key.extractLsb' 0 64) b := by
  rw [dec_eee3_eq_impl]; exact BC.Des.eee3Dec_eq_spec key b

/-! ## `TdesEde2` (16-byte key): SP 800-67 TDEA, keying option 2 (K3 = K1) -/

/-- `TdesEde2::new(key).encrypt_block(b)` — regenerated code only -/
def enc_ede2 (key : BitVec 128) (b : BitVec 64) : BitVec 64 :=
  match tdesede2_new key with
  | (d1k0, d1k1, d1k2, d1k3, d1k4, d1k5, d1k6, d1k7, d1k8, d1k9, d1k10, d1k11, d1k12, d1k13, d1k14, d1k15, d2k0, d2k1, d2k2, d2k3, d2k4, d2k5, d2k6, d2k7, d2k8, d2k9, d2k10, d2k11, d2k12, d2k13, d2k14, d2k15) => tdesede2_encrypt_block d1k0 d1k1 d1k2 d1k3 d1k4 d1k5 d1k6 d1k7 d1k8 d1k9 d1k10 d1k11 d1k12 d1k13 d1k14 d1k15 d2k0 d2k1 d2k2 d2k3 d2k4 d2k5 d2k6 d2k7 d2k8 d2k9 d2k10 d2k11 d2k12 d2k13 d2k14 d2k15 b

/-- `TdesEde2::new(key).decrypt_block(b)` — regenerated code only -/
def dec_ede2 (key : BitVec 128) (b : BitVec 64) : BitVec 64 :=
  match tdesede2_new key with
  | (d1k0, d1k1, d1k2, d1k3, d1k4, d1k5, d1k6, d1k7, d1k8, d1k9, d1k10, d1k11, d1k12, d1k13, d1k14, d1k15, d2k0, d2k1, d2k2, d2k3, d2k4, d2k5, d2k6, d2k7, d2k8, d2k9, d2k10, d2k11, d2k12, d2k13, d2k14, d2k15) => tdesede2_decrypt_block d1k0 d1k1 d1k2 d1k3 d1k4 d1k5 d1k6 d1k7 d1k8 d1k9 d1k10 d1k11 d1k12 d1k13 d1k14 d1k15 d2k0 d2k1 d2k2 d2k3 d2k4 d2k5 d2k6 d2k7 d2k8 d2k9 d2k10 d2k11 d2k12 d2k13 d2k14 d2k15 b

theorem enc_ede2_eq_impl (key : BitVec 128) (b : BitVec 64) : enc_ede2 key b = BC.Des.ede2Enc (BC.Des.Tdes2.new key) b := by
  have hT := tdes2_of_fields (BC.Des.Tdes2.new key) rfl
  rw [← BC.GenKeys.Des.tdesede2_new_list key] at hT
  rw [hT]; unfold enc_ede2
  generalize tdesede2_new key = t
  obtain ⟨d1k0, d1k1, d1k2, d1k3, d1k4, d1k5, d1k6, d1k7, d1k8, d1k9, d1k10, d1k11, d1k12, d1k13, d1k14, d1k15, d2k0, d2k1, d2k2, d2k3, d2k4, d2k5, d2k6, d2k7, d2k8, d2k9, d2k10, d2k11, d2k12, d2k13, d2k14, d2k15⟩ := t
  exact BC.GenCipher.Des.tdesede2_encrypt_block_eq d1k0 d1k1 d1k2 d1k3 d1k4 d1k5 d1k6 d1k7 d1k8 d1k9 d1k10 d1k11 d1k12 d1k13 d1k14 d1k15 d2k0 d2k1 d2k2 d2k3 d2k4 d2k5 d2k6 d2k7 d2k8 d2k9 d2k10 d2k11 d2k12 d2k13 d2k14 d2k15 b

theorem dec_ede2_eq_impl (key : BitVec 128) (b : BitVec 64) : dec_ede2 key b = BC.Des.ede2Dec (BC.Des.Tdes2.new key) b := by
  have hT := tdes2_of_fields (BC.Des.Tdes2.new key) rfl
  rw [← BC.GenKeys.Des.tdesede2_new_list key] at hT
  rw [hT]; unfold dec_ede2
  generalize tdesede2_new key = t
  obtain ⟨d1k0, d1k1, d1k2, d1k3, d1k4, d1k5, d1k6, d1k7, d1k8, d1k9, d1k10, d1k11, d1k12, d1k13, d1k14, d1k15, d2k0, d2k1, d2k2, d2k3, d2k4, d2k5, d2k6, d2k7, d2k8, d2k9, d2k10, d2k11, d2k12, d2k13, d2k14, d2k15⟩ := t
  exact BC.GenCipher.Des.tdesede2_decrypt_block_eq d1k0 d1k1 d1k2 d1k3 d1k4 d1k5 d1k6 d1k7 d1k8 d1k9 d1k10 d1k11 d1k12 d1k13 d1k14 d1k15 d2k0 d2k1 d2k2 d2k3 d2k4 d2k5 d2k6 d2k7 d2k8 d2k9 d2k10 d2k11 d2k12 d2k13 d2k14 d2k15 b

/-- decryption inverts encryption, every key, every block -/
theorem dec_ede2_enc_ede2 (key : BitVec 128) (b : BitVec 64) : dec_ede2 key (enc_ede2 key b) = b := by
  rw [enc_ede2_eq_impl, dec_ede2_eq_impl]; exact BC.Des.tdesEde2_dec_enc key b
theorem enc_ede2_dec_ede2 (key : BitVec 128) (b : BitVec 64) : enc_ede2 key (dec_ede2 key b) = b := by
  rw [dec_ede2_eq_impl, enc_ede2_eq_impl]; exact BC.Des.tdesEde2_enc_dec key b
/-- the regenerated code computes the standard's function -/
theorem enc_ede2_eq_spec (key : BitVec 128) (b : BitVec 64) : enc_ede2 key b = BC.Spec.Des.tdeaEnc (key.extractLsb' 64 64) (key.extractLsb' 0 64) (key.extractLsb' 64 64) b := by
  rw [enc_ede2_eq_impl]; exact BC.Des.ede2Enc_eq_spec key b
theorem dec_ede2_eq_spec (key : BitVec 128) (b : BitVec 64) : dec_ede2 key b = BC.Spec.Des.tdeaDec (key.extractLsb' 64 64) (key.extractLsb' 0 64) (key.extractLsb' 64 64) b := by
  rw [dec_ede2_eq_impl]; exact BC.Des.ede2Dec_eq_spec key b

/-! ## `TdesEee2` (16-byte key): EEE with K3 = K1 -/

/-- `TdesEee2::new(key).encrypt_block(b)` — regenerated code only -/
def enc_eee2 (key : BitVec 128) (b : BitVec 64) : BitVec 64 :=
  match tdeseee2_new key with
  | (d1k0, d1k1, d1k2, d1k3, d1k4, d1k5, d1k6, d1k7, d1k8, d1k9, d1k10, d1k11, d1k12, d1k13, d1k14, d1k15, d2k0, d2k1, d2k2, d2k3, d2k4, d2k5, d2k6, d2k7, d2k8, d2k9, d2k10, d2k11, d2k12, d2k13, d2k14, d2k15) => tdeseee2_encrypt_block d1k0 d1k1 d1k2 d1k3 d1k4 d1k5 d1k6 d1k7 d1k8 d1k9 d1k10 d1k11 d1k12 d1k13 d1k14 d1k15 d2k0 d2k1 d2k2 d2k3 d2k4 d2k5 d2k6 d2k7 d2k8 d2k9 d2k10 d2k11 d2k12 d2k13 d2k14 d2k15 b

/-- `TdesEee2::new(key).decrypt_block(b)` — regenerated code only -/
def dec_eee2 (key : BitVec 128) (b : BitVec 64) : BitVec 64 :=
  match tdeseee2_new key with
  | (d1k0, d1k1, d1k2, d1k3, d1k4, d1k5, d1k6, d1k7, d1k8, d1k9, d1k10, d1k11, d1k12, d1k13, d1k14, d1k15, d2k0, d2k1, d2k2, d2k3, d2k4, d2k5, d2k6, d2k7, d2k8, d2k9, d2k10, d2k11, d2k12, d2k13, d2k14, d2k15) => tdeseee2_decrypt_block d1k0 d1k1 d1k2 d1k3 d1k4 d1k5 d1k6 d1k7 d1k8 d1k9 d1k10 d1k11 d1k12 d1k13 d1k14 d1k15 d2k0 d2k1 d2k2 d2k3 d2k4 d2k5 d2k6 d2k7 d2k8 d2k9 d2k10 d2k11 d2k12 d2k13 d2k14 d2k15 b

theorem enc_eee2_eq_impl (key : BitVec 128) (b : BitVec 64) : enc_eee2 key b = BC.Des.eee2Enc (BC.Des.Tdes2.new key) b := by
  have hT := tdes2_of_fields (BC.Des.Tdes2.new key) rfl
  rw [← BC.GenKeys.Des.tdeseee2_new_list key] at hT
  rw [hT]; unfold enc_eee2
  generalize tdeseee2_new key = t
  obtain ⟨d1k0, d1k1, d1k2, d1k3, d1k4, d1k5, d1k6, d1k7, d1k8, d1k9, d1k10, d1k11, d1k12, d1k13, d1k14, d1k15, d2k0, d2k1, d2k2, d2k3, d2k4, d2k5, d2k6, d2k7, d2k8, d2k9, d2k10, d2k11, d2k12, d2k13, d2k14, d2k15⟩ := t
  exact BC.GenCipher.Des.tdeseee2_encrypt_block_eq d1k0 d1k1 d1k2 d1k3 d1k4 d1k5 d1k6 d1k7 d1k8 d1k9 d1k10 d1k11 d1k12 d1k13 d1k14 d1k15 d2k0 d2k1 d2k2 d2k3 d2k4 d2k5 d2k6 d2k7 d2k8 d2k9 d2k10 d2k11 d2k12 d2k13 d2k14 d2k15 b

theorem dec_eee2_eq_impl (key : BitVec 128) (b : BitVec 64) : dec_eee2 key b = BC.Des.eee2Dec (BC.Des.Tdes2.new key) b := by
  have hT := tdes2_of_fields (BC.Des.Tdes2.new key) rfl
  rw [← BC.GenKeys.Des.tdeseee2_new_list key] at hT
  rw [hT]; unfold dec_eee2
  generalize tdeseee2_new key = t
  obtain ⟨d1k0, d1k1, d1k2, d1k3, d1k4, d1k5, d1k6, d1k7, d1k8, d1k9, d1k10, d1k11, d1k12, d1k13, d1k14, d1k15, d2k0, d2k1, d2k2, d2k3, d2k4, d2k5, d2k6, d2k7, d2k8, d2k9, d2k10, d2k11, d2k12, d2k13, d2k14, d2k15⟩ := t
  exact BC.GenCipher.Des.tdeseee2_decrypt_block_eq d1k0 d1k1 d1k2 d1k3 d1k4 d1k5 d1k6 d1k7 d1k8 d1k9 d1k10 d1k11 d1k12 d1k13 d1k14 d1k15 d2k0 d2k1 d2k2 d2k3 d2k4 d2k5 d2k6 d2k7 d2k8 d2k9 d2k10 d2k11 d2k12 d2k13 d2k14 d2k15 b

/-- decryption inverts encryption, every key, every block -/
theorem dec_eee2_enc_eee2 (key : BitVec 128) (b : BitVec 64) : dec_eee2 key (enc_eee2 key b) = b := by
  rw [enc_eee2_eq_impl, dec_eee2_eq_impl]; exact BC.Des.tdesEee2_dec_enc key b
theorem enc_eee2_dec_eee2 (key : BitVec 128) (b : BitVec 64) : enc_eee2 key (dec_eee2 key b) = b := by
  rw [dec_eee2_eq_impl, enc_eee2_eq_impl]; exact BC.Des.tdesEee2_enc_dec key b
/-- the regenerated code computes the standard's function -/
theorem enc_eee2_eq_spec (key : BitVec 128) (b : BitVec 64) : enc_eee2 key b = BC.Spec.Des.eeeEnc (key.extractLsb' 64 64) (key.extractLsb' 0 64) (key.extractLsb' 64 64) b := by
  rw [enc_eee2_eq_impl]; exact BC.Des.eee2Enc_eq_spec key b
theorem dec_eee2_eq_spec (key : BitVec 128) (b : BitVec 64) : dec_eee2 key b = BC.Spec.Des.eeeDec (key.extractLsb' 64 64) (key.extractLsb' 0 64) (key.extractLsb' 64 64) b := by
  rw [dec_eee2_eq_impl]; exact BC.Des.eee2Dec_eq_spec key b

end BC.Code.Des
